(* Tie/UtestMW.v — T-tie for C01/C03: stats/utest.go labeledMerge and MannWhitneyUTest (the rank /
   tie-vector pass over the merged sorted samples, the method selection, the exact-branch tail
   selection and the normal approximation) against Model/Utest.v (lmerge, tgroups, rank_sum2,
   mw_stat, mw_finish), the objects of the C01/C03 theorems.

   Opaque: sort.Float64s (sortf: the tie holds for every sortf that returns the model's msort),
   UDist.CDF (ucdff), NormalDist.CDF on the package variable StdNormal (ncdff, stdnormalv),
   math.Sqrt (sqrtf), the two limits MannWhitneyExactLimit / MannWhitneyTiesExactLimit and the
   error variables.  All loops of the two functions are "for cond" loops with two indices:
   the generated definitions take fuel; len(x1)+len(x2)+1 suffices. *)
From Coq Require Import ZArith NArith QArith Qround Qabs List Bool Lia Lqa.
From MM Require Import Base.Num Base.GoSem Base.GEComb Model.Udist Model.Utest.
From MM Require Import Base.GESort Model.Mathx.
From MMGen Require Import Gen_stats_types Gen_mathx_sign Gen_stats_utest Tie_Utest Tie_Sign.
Import ListNotations.
Local Open Scope Q_scope.

(* ---------- labeledMerge (utest.go:238-266) ---------- *)
Definition lab (b : bool) : N := if b then 1%N else 2%N.

Lemma lmerge_nil_l (x2 : list Q) : lmerge Qcompare [] x2 = map (fun v => (v, false)) x2.
Proof. destruct x2; reflexivity. Qed.
Lemma lmerge_nil_r (x1 : list Q) : lmerge Qcompare x1 [] = map (fun v => (v, true)) x1.
Proof. destruct x1; reflexivity. Qed.
Lemma lmerge_cons a x1 b x2 :
  lmerge Qcompare (a :: x1) (b :: x2) =
  if Qltb a b then (a, true) :: lmerge Qcompare x1 (b :: x2) else (b, false) :: lmerge Qcompare (a :: x1) x2.
Proof.
  cbn [lmerge]. destruct (Qcompare a b) eqn:E; destruct (Qltb a b) eqn:L; try reflexivity; exfalso.
  - apply Qltb_iff in L. apply Qeq_alt in E. lra.
  - apply Qltb_niff in L. apply Qlt_alt in E. lra.
  - apply Qltb_iff in L. apply Qgt_alt in E. lra.
Qed.

Lemma go_upd_app {A} (l1 : list A) x l2 v : go_upd (l1 ++ x :: l2) (Z.of_nat (length l1)) v = l1 ++ v :: l2.
Proof.
  unfold go_upd. destruct (Z.ltb_spec (Z.of_nat (length l1)) 0); [lia|]. rewrite Nat2Z.id. apply upd_nth_app.
Qed.
Lemma go_upd_app' {A} (l1 : list A) x l2 v n : n = length l1 -> go_upd (l1 ++ x :: l2) (Z.of_nat n) v = l1 ++ v :: l2.
Proof. intros ->. apply go_upd_app. Qed.
Lemma go_idx_app {A} (d : A) (l1 : list A) x l2 : go_idx d (l1 ++ x :: l2) (Z.of_nat (length l1)) = x.
Proof. unfold go_idx. rewrite Nat2Z.id. apply nth_middle. Qed.

Definition fstl (E : list (Q * bool)) : list Q := map fst E.
Definition labl (E : list (Q * bool)) : list N := map (fun p => lab (snd p)) E.
Definition sm62 (n : nat) : Prop := (Z.of_nat n < 2 ^ 61)%Z.
Ltac n62 := unfold sm62 in *; change (2 ^ 61)%Z with 2305843009213693952%Z in *; lia.
Lemma sadd_nat (n : nat) : sm62 n -> go_sadd 64 (Z.of_nat n) 1 = Z.of_nat (S n).
Proof. intros H. unfold go_sadd. rewrite wrap_s64_small by n62. lia. Qed.

(* the first loop: for i < len(x1) && j < len(x2) { take the smaller head (x2 on ties) } *)
Section Merge1.
  Variables x1 x2 : list Q.
  Variable cond : list Q * list N * Z * Z * Z -> bool.
  Variable body : list Q * list N * Z * Z * Z -> list Q * list N * Z * Z * Z.
  Hypothesis cond_ok : forall m l i j o, cond (m, l, i, j, o) = ((i <? go_len x1)%Z && (j <? go_len x2)%Z).
  Hypothesis body_ok : forall m l (i j o : nat), sm62 i -> sm62 j -> sm62 o ->
    body (m, l, Z.of_nat i, Z.of_nat j, Z.of_nat o) =
    if Qltb (go_idx (0 # 1) x1 (Z.of_nat i)) (go_idx (0 # 1) x2 (Z.of_nat j))
    then (go_upd m (Z.of_nat o) (go_idx (0 # 1) x1 (Z.of_nat i)), go_upd l (Z.of_nat o) 1%N, Z.of_nat (S i), Z.of_nat j, Z.of_nat (S o))
    else (go_upd m (Z.of_nat o) (go_idx (0 # 1) x2 (Z.of_nat j)), go_upd l (Z.of_nat o) 2%N, Z.of_nat i, Z.of_nat (S j), Z.of_nat (S o)).

  Definition st1 (E : list (Q * bool)) (rest i j : nat) : list Q * list N * Z * Z * Z :=
    (fstl E ++ repeat (0 # 1) rest, labl E ++ repeat 0%N rest, Z.of_nat i, Z.of_nat j, Z.of_nat (length E)).

  Lemma merge1 : forall fuel r1 r2 p1 p2 E, (length r1 + length r2 < fuel)%nat ->
    x1 = p1 ++ r1 -> x2 = p2 ++ r2 -> length E = (length p1 + length p2)%nat -> sm62 (length x1 + length x2) ->
    exists E' p1' r1' p2' r2', x1 = p1' ++ r1' /\ x2 = p2' ++ r2' /\ (r1' = [] \/ r2' = []) /\
      length E' = (length p1' + length p2')%nat /\
      E ++ lmerge Qcompare r1 r2 = E' ++ lmerge Qcompare r1' r2' /\
      go_while fuel cond body (st1 E (length r1 + length r2) (length p1) (length p2)) =
      Some (st1 E' (length r1' + length r2') (length p1') (length p2')).
  Proof.
    induction fuel as [|fuel IH]; intros r1 r2 p1 p2 E Hf H1 H2 HE Hb; [lia|].
    assert (L1 : length x1 = (length p1 + length r1)%nat) by (rewrite H1, app_length; reflexivity).
    assert (L2 : length x2 = (length p2 + length r2)%nat) by (rewrite H2, app_length; reflexivity).
    rewrite go_while_S. unfold st1. rewrite cond_ok. unfold go_len.
    destruct r1 as [|a r1].
    { replace (Z.of_nat (length p1) <? Z.of_nat (length x1))%Z with false by (symmetry; apply Z.ltb_ge; simpl in L1; lia).
      cbn [andb]. exists E, p1, [], p2, r2. repeat split; auto. }
    destruct r2 as [|b r2].
    { replace (Z.of_nat (length p2) <? Z.of_nat (length x2))%Z with false by (symmetry; apply Z.ltb_ge; simpl in L2; lia).
      rewrite andb_false_r. exists E, p1, (a :: r1), p2, []. repeat split; auto. }
    replace (Z.of_nat (length p1) <? Z.of_nat (length x1))%Z with true by (symmetry; apply Z.ltb_lt; simpl in L1; lia).
    replace (Z.of_nat (length p2) <? Z.of_nat (length x2))%Z with true by (symmetry; apply Z.ltb_lt; simpl in L2; lia).
    cbn [andb]. cbn [length] in *.
    rewrite body_ok by (unfold fstl in *; n62).
    assert (Ia : go_idx (0 # 1) x1 (Z.of_nat (length p1)) = a) by (rewrite H1; apply go_idx_app).
    assert (Ib : go_idx (0 # 1) x2 (Z.of_nat (length p2)) = b) by (rewrite H2; apply go_idx_app).
    rewrite !Ia, !Ib. rewrite lmerge_cons.
    replace (length r1 + S (length r2))%nat with (S (length r1 + length r2)) by lia.
    cbn [repeat plus]. unfold fstl, labl.
    rewrite !(go_upd_app' _ _ _ _ (length E)) by (rewrite map_length; reflexivity).
    destruct (Qltb a b).
    - destruct (IH r1 (b :: r2) (p1 ++ [a]) p2 (E ++ [(a, true)])) as (E' & p1' & r1' & p2' & r2' & A1 & A2 & A3 & A4 & A5 & A6).
      + cbn [length]. lia.
      + rewrite <- app_assoc. exact H1.
      + exact H2.
      + rewrite !app_length. cbn [length]. lia.
      + exact Hb.
      + exists E', p1', r1', p2', r2'. repeat split; auto.
        * rewrite <- A5, <- app_assoc. reflexivity.
        * unfold st1, fstl, labl in A6. rewrite <- A6. rewrite !map_app, !app_length, <- !app_assoc. cbn [map fst snd lab length app].
          rewrite ?Nat.add_succ_r, ?Nat.add_0_r. cbn [repeat]. rewrite ?Nat.add_1_r. reflexivity.
    - destruct (IH (a :: r1) r2 p1 (p2 ++ [b]) (E ++ [(b, false)])) as (E' & p1' & r1' & p2' & r2' & A1 & A2 & A3 & A4 & A5 & A6).
      + cbn [length]. lia.
      + exact H1.
      + rewrite <- app_assoc. exact H2.
      + rewrite !app_length. cbn [length]. lia.
      + exact Hb.
      + exists E', p1', r1', p2', r2'. repeat split; auto.
        * rewrite <- A5, <- app_assoc. reflexivity.
        * unfold st1, fstl, labl in A6. rewrite <- A6. rewrite !map_app, !app_length, <- !app_assoc. cbn [map fst snd lab length app].
          rewrite ?Nat.add_succ_r, ?Nat.add_0_r. cbn [repeat]. rewrite ?Nat.add_1_r. reflexivity.
  Qed.
End Merge1.

(* the two copy loops: for ; i < len(x); i++ { merged[o] = x[i]; labels[o] = LAB; o++ } *)
Section Copy.
  Variables (x : list Q) (b : bool).
  Variable cond : list Q * list N * Z * Z -> bool.
  Variable body : list Q * list N * Z * Z -> list Q * list N * Z * Z.
  Hypothesis cond_ok : forall m l i o, cond (m, l, i, o) = (i <? go_len x)%Z.
  Hypothesis body_ok : forall m l (o i : nat), sm62 o -> sm62 i ->
    body (m, l, Z.of_nat i, Z.of_nat o) =
    (go_upd m (Z.of_nat o) (go_idx (0 # 1) x (Z.of_nat i)), go_upd l (Z.of_nat o) (lab b), Z.of_nat (S i), Z.of_nat (S o)).

  Lemma copy_loop : forall fuel r p E extra, (length r < fuel)%nat -> x = p ++ r ->
    sm62 (length E + length r) -> sm62 (length x) ->
    go_while fuel cond body
      (fstl E ++ repeat (0 # 1) (length r + extra), labl E ++ repeat 0%N (length r + extra), Z.of_nat (length p), Z.of_nat (length E)) =
    Some (fstl (E ++ map (fun v => (v, b)) r) ++ repeat (0 # 1) extra, labl (E ++ map (fun v => (v, b)) r) ++ repeat 0%N extra,
          Z.of_nat (length x), Z.of_nat (length E + length r)).
  Proof.
    induction fuel as [|fuel IH]; intros r p E extra Hf Hx HE Hxl; [lia|].
    assert (L : length x = (length p + length r)%nat) by (rewrite Hx, app_length; reflexivity).
    rewrite go_while_S, cond_ok. unfold go_len. destruct r as [|a r].
    - replace (Z.of_nat (length p) <? Z.of_nat (length x))%Z with false by (symmetry; apply Z.ltb_ge; simpl in L; lia).
      cbn [map length plus]. rewrite app_nil_r, Nat.add_0_r. simpl in L. rewrite L, Nat.add_0_r. reflexivity.
    - replace (Z.of_nat (length p) <? Z.of_nat (length x))%Z with true by (symmetry; apply Z.ltb_lt; simpl in L; lia).
      cbn [length] in *. rewrite body_ok by n62.
      assert (Ia : go_idx (0 # 1) x (Z.of_nat (length p)) = a) by (rewrite Hx; apply go_idx_app).
      rewrite Ia. cbn [plus repeat]. unfold fstl, labl.
      rewrite !(go_upd_app' _ _ _ _ (length E)) by (rewrite map_length; reflexivity).
      specialize (IH r (p ++ [a]) (E ++ [(a, b)]) extra).
      unfold fstl, labl in IH. rewrite !map_app, !app_length, <- !app_assoc in IH. cbn [map fst snd length app] in IH.
      rewrite !Nat.add_1_r in IH. rewrite IH.
      + rewrite !map_app, <- !app_assoc. cbn [map fst snd app]. rewrite ?Nat.add_succ_r. cbn [plus]. reflexivity.
      + lia.
      + exact Hx.
      + n62.
      + exact Hxl.
  Qed.
End Copy.

Theorem tie_labeledMerge : forall (fuel : nat) (x1 x2 : list Q),
  sm62 (length x1 + length x2) -> (length x1 + length x2 < fuel)%nat ->
  gen_labeledMerge fuel x1 x2 = Some (fstl (lmerge Qcompare x1 x2), labl (lmerge Qcompare x1 x2)).
Proof.
  intros fuel x1 x2 Hb Hf. unfold gen_labeledMerge. cbv zeta.
  assert (Hs : go_sadd 64 (go_len x1) (go_len x2) = Z.of_nat (length x1 + length x2)).
  { unfold go_sadd, go_len. rewrite wrap_s64_small by n62. lia. }
  rewrite Hs. unfold go_make. rewrite Nat2Z.id.
  (* first loop *)
  match goal with |- context [go_while fuel ?c ?b (?m0, ?l0, 0%Z, 0%Z, 0%Z)] =>
    destruct (merge1 x1 x2 c b
                ltac:(intros; reflexivity)
                ltac:(intros m l i j o Hi Hj Ho; cbv beta iota zeta; rewrite !sadd_nat by assumption; unfold Qltb, Qleb;
                      repeat match goal with |- context [Qle_bool ?a ?b] => destruct (Qle_bool a b) end; cbn [negb]; reflexivity)
                fuel x1 x2 [] [] [] Hf eq_refl eq_refl eq_refl Hb)
      as (E' & p1' & r1' & p2' & r2' & A1 & A2 & A3 & A4 & A5 & A6);
    change (m0, l0, 0%Z, 0%Z, 0%Z) with (st1 [] (length x1 + length x2) (@length Q []) (@length Q []))
  end.
  rewrite A6. unfold st1. cbv iota beta.
  assert (L1 : length x1 = (length p1' + length r1')%nat) by (rewrite A1 at 1; apply app_length).
  assert (L2 : length x2 = (length p2' + length r2')%nat) by (rewrite A2 at 1; apply app_length).
  (* second loop: the rest of x1 *)
  match goal with |- context [go_while fuel ?c ?b (?m0, ?l0, ?o0, ?i0)] =>
    rewrite (copy_loop x1 true c b
               ltac:(intros; reflexivity)
               ltac:(intros m l o i Ho Hi; cbv beta iota zeta; rewrite !sadd_nat by assumption; reflexivity)
               fuel r1' p1' E' (length r2') ltac:(lia) A1 ltac:(n62) ltac:(n62))
  end.
  cbv iota beta.
  (* third loop: the rest of x2 *)
  replace (length r2') with (length r2' + 0)%nat at 1 2 by lia.
  replace (Z.of_nat (length E' + length r1')) with (Z.of_nat (length (E' ++ map (fun v => (v, true)) r1')))
    by (rewrite app_length, map_length; reflexivity).
  match goal with |- context [go_while fuel ?c ?b (?m0, ?l0, ?o0, ?i0)] =>
    rewrite (copy_loop x2 false c b
               ltac:(intros; reflexivity)
               ltac:(intros m l o i Ho Hi; cbv beta iota zeta; rewrite !sadd_nat by assumption; reflexivity)
               fuel r2' p2' (E' ++ map (fun v => (v, true)) r1') 0%nat ltac:(lia) A2
               ltac:(rewrite app_length, map_length; n62) ltac:(n62))
  end.
  cbv iota beta. cbn [repeat]. rewrite !app_nil_r.
  cbn [app] in A5. rewrite A5.
  destruct A3 as [-> | ->].
  - rewrite lmerge_nil_l. cbn [map]. rewrite app_nil_r. reflexivity.
  - rewrite lmerge_nil_r. cbn [map]. rewrite <- app_assoc, app_nil_r. reflexivity.
Qed.

(* ---------- the rank / tie-vector pass (utest.go:140-160) ---------- *)
(* the maximal run of values == v at the head of l: its length and its number of x1-values *)
Fixpoint run (v : Q) (l : list (Q * bool)) : nat * nat :=
  match l with
  | (w, b) :: t => if Qeqb w v then let '(g, k) := run v t in (S g, (k + b2n b)%nat) else (0%nat, 0%nat)
  | [] => (0%nat, 0%nat)
  end.

Lemma run_le v l : (fst (run v l) <= length l)%nat.
Proof. induction l as [|[w b] t IH]; simpl; [lia|]. destruct (Qeqb w v); [|simpl; lia]. destruct (run v t). simpl in *. lia. Qed.

Lemma run_ext v v' l : v == v' -> run v l = run v' l.
Proof.
  intros H. induction l as [|[w b] t IH]; simpl; [reflexivity|].
  replace (Qeqb w v') with (Qeqb w v); [rewrite IH; reflexivity|].
  destruct (Qeqb w v) eqn:E1; destruct (Qeqb w v') eqn:E2; try reflexivity; exfalso.
  - apply Qeqb_iff in E1. apply Qeqb_niff in E2. apply E2. rewrite E1. exact H.
  - apply Qeqb_niff in E1. apply Qeqb_iff in E2. apply E1. rewrite E2. symmetry. exact H.
Qed.

(* tgroups (a right fold in the model) peels the leading run *)
Lemma tgroups_run : forall l : list (Q * bool),
  tgroups Qcompare l =
  match l with
  | [] => []
  | (v, _) :: _ => let '(g, k) := run v l in (v, g, k) :: tgroups Qcompare (skipn g l)
  end.
Proof.
  induction l as [|[v b] l' IH]; [reflexivity|].
  assert (Hhead : forall l0, run v ((v, b) :: l0) = let '(g, k) := run v l0 in (S g, (k + b2n b)%nat)).
  { intros l0. cbn [run]. replace (Qeqb v v) with true by (symmetry; apply Qeqb_iff; reflexivity). reflexivity. }
  rewrite Hhead. cbn [tgroups]. rewrite IH. destruct l' as [|[v' b'] t].
  - cbn [run skipn]. reflexivity.
  - remember ((v', b') :: t) as l1 eqn:El1.
    destruct (run v' l1) as [g' k'] eqn:Er.
    destruct (Qcompare v v') eqn:Ec.
    + apply Qeq_alt in Ec. rewrite (run_ext v v' l1 Ec). rewrite Er. cbn [skipn]. reflexivity.
    + assert (Hn : run v l1 = (0%nat, 0%nat)).
      { rewrite El1. cbn [run]. replace (Qeqb v' v) with false; [reflexivity|]. symmetry. apply Qeqb_niff. intros C. apply Qlt_alt in Ec. rewrite C in Ec. lra. }
      rewrite Hn. cbn [skipn plus]. rewrite IH. reflexivity.
    + assert (Hn : run v l1 = (0%nat, 0%nat)).
      { rewrite El1. cbn [run]. replace (Qeqb v' v) with false; [reflexivity|]. symmetry. apply Qeqb_niff. intros C. apply Qgt_alt in Ec. rewrite C in Ec. lra. }
      rewrite Hn. cbn [skipn plus]. rewrite IH. reflexivity.
Qed.

(* the pass as a program over the list of (value, label) pairs *)
Fixpoint scan (fuel : nat) (l : list (Q * bool)) (i : nat) (R1 : Q) (T : list Z) (ht : bool) : option (Q * list Z * bool) :=
  match fuel with
  | O => None
  | S f =>
      match l with
      | [] => Some (R1, T, ht)
      | (v, _) :: _ =>
          let '(g, k) := run v l in
          scan f (skipn g l) (i + g)
               (if (k =? 0)%nat then R1
                else R1 + inject_Z (Z.of_nat (i + g) + Z.of_nat (i + 1)) / (2 # 1) * inject_Z (Z.of_nat k))
               (T ++ [Z.of_nat g]) (if (1 <? g)%nat then true else ht)
      end
  end.

Lemma run_pos v b t : (1 <= fst (run v ((v, b) :: t)))%nat.
Proof. cbn [run]. replace (Qeqb v v) with true by (symmetry; apply Qeqb_iff; reflexivity). destruct (run v t). simpl. lia. Qed.

Lemma scan_tgroups : forall fuel l i R1 T ht, (length l < fuel)%nat ->
  exists R1', scan fuel l i R1 T ht =
    Some (R1', T ++ map (fun x => Z.of_nat (gsize x)) (tgroups Qcompare l),
          ht || has_ties (map (@gsize Q) (tgroups Qcompare l))) /\
    R1' == R1 + inject_Z (rank_sum2 (tgroups Qcompare l) i) / (2 # 1).
Proof.
  induction fuel as [|fuel IH]; intros l i R1 T ht Hf; [lia|].
  destruct l as [|[v b] t].
  - exists R1. cbn [scan tgroups map has_ties existsb rank_sum2]. rewrite app_nil_r, orb_false_r. split; [reflexivity|].
    unfold Qdiv. change (inject_Z 0) with 0. ring.
  - cbn [scan]. rewrite (tgroups_run ((v, b) :: t)).
    pose proof (run_pos v b t) as Hp. pose proof (run_le v ((v, b) :: t)) as Hl.
    destruct (run v ((v, b) :: t)) as [g k]. cbn [fst] in Hp, Hl.
    assert (Hs : (length (skipn g ((v, b) :: t)) < fuel)%nat) by (rewrite skipn_length; cbn [length] in *; lia).
    destruct (IH (skipn g ((v, b) :: t)) (i + g)%nat
                (if (k =? 0)%nat then R1 else R1 + inject_Z (Z.of_nat (i + g) + Z.of_nat (i + 1)) / (2 # 1) * inject_Z (Z.of_nat k))
                (T ++ [Z.of_nat g]) (if (1 <? g)%nat then true else ht) Hs) as (R1' & E & HR).
    exists R1'. rewrite E. split.
    + cbn [map has_ties existsb gsize fst snd]. rewrite <- app_assoc. cbn [app].
      f_equal. f_equal. unfold has_ties. destruct (1 <? g)%nat; cbn [orb]; [rewrite orb_true_r; reflexivity | reflexivity].
    + rewrite HR. cbn [rank_sum2 gnx1 gsize fst snd]. destruct (k =? 0)%nat.
      * rewrite Z.add_0_l. reflexivity.
      * rewrite (inject_Z_plus (_ * _)), inject_Z_mult. field.
Qed.

(* the inner loop: for ; i < len(merged) && merged[i] == v1; i++ { if labels[i] == 1 { nx1++ } } *)
Lemma fstl_length E : length (fstl E) = length E.  Proof. apply map_length. Qed.
Lemma labl_length E : length (labl E) = length E.  Proof. apply map_length. Qed.
Lemma fstl_idx (P R : list (Q * bool)) w b : go_idx (0 # 1) (fstl (P ++ (w, b) :: R)) (Z.of_nat (length P)) = w.
Proof. unfold fstl. rewrite map_app. cbn [map fst]. rewrite <- (map_length fst P). apply go_idx_app. Qed.
Lemma labl_idx (P R : list (Q * bool)) w b : go_idx 0%N (labl (P ++ (w, b) :: R)) (Z.of_nat (length P)) = lab b.
Proof. unfold labl. rewrite map_app. cbn [map snd]. rewrite <- (map_length (fun p => lab (snd p)) P). apply go_idx_app. Qed.

Section Inner.
  Variables (L : list (Q * bool)) (v : Q).
  Variable cond : Z * Z -> bool.
  Variable body : Z * Z -> Z * Z.
  Hypothesis cond_ok : forall i nx, cond (i, nx) = ((i <? go_len (fstl L))%Z && Qeqb (go_idx (0 # 1) (fstl L) i) v).
  Hypothesis body_ok : forall nx i : nat, sm62 nx -> sm62 i ->
    body (Z.of_nat i, Z.of_nat nx) =
    (Z.of_nat (S i), if (go_idx 0%N (labl L) (Z.of_nat i) =? 1)%N then Z.of_nat (S nx) else Z.of_nat nx).

  Lemma inner_loop : forall fuel R P nx, L = P ++ R -> (fst (run v R) < fuel)%nat -> sm62 (length L + nx + length R) ->
    go_while fuel cond body (Z.of_nat (length P), Z.of_nat nx) =
    Some (Z.of_nat (length P + fst (run v R)), Z.of_nat (nx + snd (run v R))).
  Proof.
    induction fuel as [|fuel IH]; intros R P nx HL Hf Hb; [lia|].
    assert (Ll : length L = (length P + length R)%nat) by (rewrite HL, app_length; reflexivity).
    rewrite go_while_S, cond_ok. unfold go_len. rewrite fstl_length.
    destruct R as [|[w b] R].
    - replace (Z.of_nat (length P) <? Z.of_nat (length L))%Z with false by (symmetry; apply Z.ltb_ge; simpl in Ll; lia).
      cbn [andb run fst snd]. rewrite !Nat.add_0_r. reflexivity.
    - replace (Z.of_nat (length P) <? Z.of_nat (length L))%Z with true by (symmetry; apply Z.ltb_lt; simpl in Ll; lia).
      cbn [andb]. rewrite HL at 1. rewrite fstl_idx. cbn [run] in Hf |- *. destruct (Qeqb w v).
      + rewrite body_ok by (cbn [length] in *; n62). rewrite HL at 1. rewrite labl_idx.
        specialize (IH R (P ++ [(w, b)])). destruct (run v R) as [g k] eqn:Er. cbn [fst snd] in *.
        rewrite app_length in IH. cbn [length] in IH. rewrite Nat.add_1_r in IH.
        destruct b; cbn [lab b2n N.eqb Pos.eqb].
        * rewrite (IH (S nx)) by (try (rewrite <- app_assoc; exact HL); try lia; cbn [length] in *; n62).
          f_equal. f_equal; f_equal; lia.
        * rewrite (IH nx) by (try (rewrite <- app_assoc; exact HL); try lia; cbn [length] in *; n62).
          f_equal. f_equal; f_equal; lia.
      + cbn [fst snd]. rewrite !Nat.add_0_r. reflexivity.
  Qed.
End Inner.

(* the outer loop: one tie group per iteration *)
Section Outer.
  Variable L : list (Q * bool).
  Variable RT : Type.
  Variable cond : Q * list Z * bool * Z -> bool.
  Variable body : Q * list Z * bool * Z -> go_ctl (Q * list Z * bool * Z) RT.
  Hypothesis cond_ok : forall i R1 T ht, cond (R1, T, ht, i) = (i <? go_len (fstl L))%Z.
  Hypothesis body_ok : forall (P R : list (Q * bool)) w b R1 T ht, L = P ++ (w, b) :: R ->
    body (R1, T, ht, Z.of_nat (length P)) =
    let '(g, k) := run w ((w, b) :: R) in
    Go_next ((if negb (Z.of_nat k =? 0)%Z
              then R1 + inject_Z (Z.of_nat (length P + g) + Z.of_nat (S (length P))) / (2 # 1) * inject_Z (Z.of_nat k)
              else R1),
             T ++ [(Z.of_nat (length P + g) - Z.of_nat (S (length P)) + 1)%Z],
             (if (Z.of_nat (S (length P)) <? Z.of_nat (length P + g))%Z then true else ht),
             Z.of_nat (length P + g)).

  Lemma outer_loop : forall fuel R P R1 T ht, L = P ++ R ->
    go_while_ctl fuel cond body (R1, T, ht, Z.of_nat (length P)) =
    match scan fuel R (length P) R1 T ht with
    | Some (R1', T', ht') => Go_next (R1', T', ht', Z.of_nat (length L))
    | None => Go_fuel
    end.
  Proof.
    induction fuel as [|fuel IH]; intros R P R1 T ht HL; [reflexivity|].
    assert (Ll : length L = (length P + length R)%nat) by (rewrite HL, app_length; reflexivity).
    cbn [go_while_ctl scan]. rewrite cond_ok. unfold go_len. rewrite fstl_length.
    destruct R as [|[w b] R].
    - replace (Z.of_nat (length P) <? Z.of_nat (length L))%Z with false by (symmetry; apply Z.ltb_ge; simpl in Ll; lia).
      simpl in Ll. rewrite Ll, Nat.add_0_r. reflexivity.
    - replace (Z.of_nat (length P) <? Z.of_nat (length L))%Z with true by (symmetry; apply Z.ltb_lt; simpl in Ll; lia).
      rewrite (body_ok P R w b R1 T ht HL).
      pose proof (run_le w ((w, b) :: R)) as Hle.
      destruct (run w ((w, b) :: R)) as [g k]. cbn [fst] in Hle.
      replace (negb (Z.of_nat k =? 0)%Z) with (negb (k =? 0)%nat)
        by (destruct (Nat.eqb_spec k 0); destruct (Z.eqb_spec (Z.of_nat k) 0); try reflexivity; lia).
      replace (Z.of_nat (S (length P))) with (Z.of_nat (length P + 1)) by (f_equal; lia).
      replace (Z.of_nat (length P + g) - Z.of_nat (length P + 1) + 1)%Z with (Z.of_nat g) by lia.
      replace (Z.of_nat (length P + 1) <? Z.of_nat (length P + g))%Z with (1 <? g)%nat
        by (destruct (Nat.ltb_spec 1 g); destruct (Z.ltb_spec (Z.of_nat (length P + 1)) (Z.of_nat (length P + g))); try reflexivity; lia).
      replace (if negb (k =? 0)%nat
               then R1 + inject_Z (Z.of_nat (length P + g) + Z.of_nat (length P + 1)) / (2 # 1) * inject_Z (Z.of_nat k)
               else R1)
        with (if (k =? 0)%nat then R1
              else R1 + inject_Z (Z.of_nat (length P + g) + Z.of_nat (length P + 1)) / (2 # 1) * inject_Z (Z.of_nat k))
        by (destruct (k =? 0)%nat; reflexivity).
      assert (Hsplit : L = (P ++ firstn g ((w, b) :: R)) ++ skipn g ((w, b) :: R))
        by (rewrite <- app_assoc, firstn_skipn; exact HL).
      specialize (IH (skipn g ((w, b) :: R)) (P ++ firstn g ((w, b) :: R))).
      rewrite app_length, firstn_length, Nat.min_l in IH by exact Hle.
      apply IH. exact Hsplit.
  Qed.
End Outer.

Lemma lmerge_length : forall a b : list Q, length (lmerge Qcompare a b) = (length a + length b)%nat.
Proof.
  induction a as [|x a IHa]; intros b; [rewrite lmerge_nil_l, map_length; reflexivity|].
  induction b as [|y b IHb]; [rewrite lmerge_nil_r, map_length; simpl; lia|].
  rewrite lmerge_cons. destruct (Qltb x y); cbn [length]; rewrite ?IHa, ?IHb; cbn [length]; lia.
Qed.

(* ---------- MannWhitneyUTest (utest.go:127-233) ---------- *)
Definition sort_ok (sortf : list Q -> list Q) : Prop := forall l, sortf l = msort Qcompare l.
Definition sqrt_ok (sqrtf : Q -> Q) : Prop :=
  (forall a b, a == b -> sqrtf a == sqrtf b) /\ (forall a, sqrtf a == 0 <-> a == 0).
Definition cdf_ok (ucdff : UDist_rec -> Q -> Q) : Prop := forall d a b, a == b -> ucdff d a == ucdff d b.
Definition alt_ok (alt : Z) : Prop := (alt = -1 \/ alt = 0 \/ alt = 1)%Z.

(* UDist{N1, N2, T}.CDF as the model's cdf parameter *)
Definition ucdf_of (ucdff : UDist_rec -> Q -> Q) : nat -> nat -> list nat -> Q -> Q :=
  fun n1 n2 T u => ucdff (mk_UDist (Z.of_nat n1) (Z.of_nat n2) (map Z.of_nat T)) u.

Ltac mproj := cbn [MannWhitneyUTestResult_N1 MannWhitneyUTestResult_N2 MannWhitneyUTestResult_U
                   MannWhitneyUTestResult_AltHypothesis MannWhitneyUTestResult_P fst snd
                   ms_n1 ms_n2 ms_T ms_ties ms_twoU] in *.

Definition mw_rel (errSize errEqual : N) (sqrtf : Q -> Q) (Phi : Q -> Q) (alt : Z)
    (g : MannWhitneyUTestResult_rec * option N) (m : mwres) : Prop :=
  match m with
  | MWErrSize => snd g = Some errSize
  | MWErrEqual => snd g = Some errEqual
  | MWExact n1 n2 twoU p _ =>
      snd g = None /\ MannWhitneyUTestResult_N1 (fst g) = Z.of_nat n1 /\ MannWhitneyUTestResult_N2 (fst g) = Z.of_nat n2 /\
      MannWhitneyUTestResult_U (fst g) == half twoU /\ MannWhitneyUTestResult_AltHypothesis (fst g) = alt /\
      MannWhitneyUTestResult_P (fst g) == p
  | MWApprox n1 n2 twoU num2 sig2 =>
      snd g = None /\ MannWhitneyUTestResult_N1 (fst g) = Z.of_nat n1 /\ MannWhitneyUTestResult_N2 (fst g) = Z.of_nat n2 /\
      MannWhitneyUTestResult_U (fst g) == half twoU /\ MannWhitneyUTestResult_AltHypothesis (fst g) = alt /\
      exists z S, S == sig2 /\ z == half num2 / sqrtf S /\
                  MannWhitneyUTestResult_P (fst g) == mw_approx_p (Phi z) alt
  end.

Lemma Qleb_comp' a a' b b' : a == a' -> b == b' -> Qle_bool a b = Qle_bool a' b'.
Proof.
  intros Ha Hb. destruct (Qle_bool a b) eqn:E1; destruct (Qle_bool a' b') eqn:E2; try reflexivity;
    [apply Qleb_iff in E1; apply Qleb_niff in E2 | apply Qleb_niff in E1; apply Qleb_iff in E2]; exfalso; lra.
Qed.

Lemma half_spec z : half z == inject_Z z / (2 # 1).
Proof. unfold half, Qdiv, Qeq, inject_Z. simpl. lia. Qed.

Theorem tie_MannWhitneyUTest : forall (errSize errEqual : N) (EL : Z) (nanv : Q) (ncdff : NormalDist_rec -> Q -> Q)
    (sortf : list Q -> list Q) (sqrtf : Q -> Q) (stdnormalv : NormalDist_rec) (TL : Z) (ucdff : UDist_rec -> Q -> Q)
    (fuel : nat) (x1 x2 : list Q) (alt : Z),
  sort_ok sortf -> sqrt_ok sqrtf -> cdf_ok ucdff -> alt_ok alt ->
  (Z.of_nat (length x1) < 2 ^ 30)%Z -> (Z.of_nat (length x2) < 2 ^ 30)%Z ->
  (cubes (ms_T (mw_stat Qcompare x1 x2)) < 2 ^ 63)%Z ->
  (length x1 + length x2 < fuel)%nat ->
  exists g, gen_MannWhitneyUTest errSize errEqual EL nanv ncdff sortf sqrtf stdnormalv TL ucdff fuel x1 x2 alt = Some g /\
            mw_rel errSize errEqual sqrtf (ncdff stdnormalv) alt g (mw_test Qcompare (ucdf_of ucdff) EL TL x1 x2 alt).
Proof.
  intros errSize errEqual EL nanv ncdff sortf sqrtf stdnormalv TL ucdff fuel x1 x2 alt Hsort [Hsc Hs0] Hcdf Ha Hl1 Hl2 Hcub Hf.
  unfold gen_MannWhitneyUTest, mw_test, mw_test_s. cbv zeta. unfold go_len at 1 2.
  assert (Hnil : ((Z.of_nat (length x1) =? 0)%Z || (Z.of_nat (length x2) =? 0)%Z) = (is_nil x1 || is_nil x2)).
  { destruct x1, x2; reflexivity. }
  rewrite Hnil. destruct (is_nil x1 || is_nil x2); [eexists; split; reflexivity|].
  cbn [app]. rewrite !Hsort.
  assert (Hm1 : length (msort Qcompare x1) = length x1) by apply isort_length.
  assert (Hm2 : length (msort Qcompare x2) = length x2) by apply isort_length.
  change (2 ^ 30)%Z with 1073741824%Z in *.
  rewrite tie_labeledMerge by (rewrite ?Hm1, ?Hm2; try n62; lia).
  set (L := lmerge Qcompare (msort Qcompare x1) (msort Qcompare x2)).
  assert (HLl : length L = (length x1 + length x2)%nat) by (unfold L; rewrite lmerge_length, Hm1, Hm2; reflexivity).
  (* the rank pass: outer loop over tie groups, inner loop over one group *)
  match goal with |- context [go_while_ctl fuel ?c ?b (?r0, ?t0, ?h0, 0%Z)] =>
    assert (Hout : go_while_ctl fuel c b (r0, t0, h0, Z.of_nat (@length (Q * bool) [])) =
                   match scan fuel L (@length (Q * bool) []) r0 t0 h0 with
                   | Some (R1', T', ht') => Go_next (R1', T', ht', Z.of_nat (length L))
                   | None => Go_fuel
                   end)
  end.
  { apply (outer_loop L); [intros; reflexivity | | reflexivity].
    intros P R w b R1 T ht HL. cbv beta iota.
    assert (HPl : (length P + S (length R) = length L)%nat) by (rewrite HL, app_length; reflexivity).
    assert (Ew : go_idx (0 # 1) (fstl L) (Z.of_nat (length P)) = w) by (rewrite HL; apply fstl_idx).
    rewrite Ew. rewrite !(sadd_nat (length P)) by n62.
    pose proof (run_le w ((w, b) :: R)) as Hle. cbn [length] in Hle.
    change (Z.of_nat (length P), 0%Z) with (Z.of_nat (length P), Z.of_nat 0).
    match goal with |- context [go_while fuel ?c2 ?b2 (Z.of_nat (length P), Z.of_nat 0)] =>
      rewrite (inner_loop L w c2 b2 ltac:(intros; reflexivity)
                 ltac:(intros nx i Hnx Hi; cbv beta iota; rewrite !sadd_nat by assumption; reflexivity)
                 fuel ((w, b) :: R) P 0%nat HL ltac:(lia) ltac:(cbn [length]; n62))
    end.
    destruct (run w ((w, b) :: R)) as [g k] eqn:Er. cbn [fst snd plus] in *.
    assert (Hk : (k <= g)%nat).
    { clear - Er. revert g k Er. generalize ((w, b) :: R) as l. induction l as [|[w' b'] l IH]; intros g k Er; cbn [run] in Er.
      - injection Er as <- <-. lia.
      - destruct (Qeqb w' w); [|injection Er as <- <-; lia]. destruct (run w l) as [g0 k0]. injection Er as <- <-.
        specialize (IH g0 k0 eq_refl). destruct b'; simpl; lia. }
    unfold go_i2f, go_sadd, go_ssub.
    repeat match goal with |- context [wrap_s 64 ?z] => rewrite (wrap_s64_small z) by n62 end.
    repeat match goal with |- context [inject_Z (?a + ?b)] =>
      progress replace (a + b)%Z with (Z.of_nat (length P + g) + Z.of_nat (S (length P)))%Z by lia end.
    reflexivity. }
  change (Z.of_nat (@length (Q * bool) [])) with 0%Z in Hout. rewrite Hout. clear Hout.
  destruct (scan_tgroups fuel L 0%nat (0 # 1) [] false ltac:(lia)) as (R1' & Escan & HR1). cbn [length] in Escan |- *.
  rewrite Escan. cbn [app orb]. clear Escan.
  unfold mw_finish, mw_stat. fold L. mproj.
  set (gs := tgroups Qcompare L) in *. set (n1 := length x1) in *. set (n2 := length x2) in *.
  set (twoU := (rank_sum2 gs 0 - Z.of_nat n1 * (Z.of_nat n1 + 1))%Z).
  replace (map (fun x : Q * nat * nat => Z.of_nat (gsize x)) gs) with (map Z.of_nat (map (@gsize Q) gs)) by apply map_map.
  set (T := map (@gsize Q) gs) in *.
  unfold go_len. rewrite map_length. fold n1 n2.
  (* the integer products do not wrap *)
  unfold go_smul, go_sadd, go_i2f.
  repeat match goal with |- context [wrap_s 64 ?z] => rewrite (wrap_s64_small z) by (subst n1 n2; nia) end.
  set (U1 := R1' - inject_Z (Z.of_nat n1 * (Z.of_nat n1 + 1)) / (2 # 1)).
  assert (EU1 : U1 == half twoU).
  { unfold U1, twoU. rewrite HR1, !half_spec. unfold Z.sub. rewrite inject_Z_plus, inject_Z_opp. field. }
  replace (Z.of_nat (length T) =? 1)%Z with (length T =? 1)%nat
    by (destruct (Nat.eqb_spec (length T) 1); destruct (Z.eqb_spec (Z.of_nat (length T)) 1); try reflexivity; lia).
  unfold use_exact.
  destruct (negb (has_ties T) && (Z.of_nat n1 <=? EL)%Z && (Z.of_nat n2 <=? EL)%Z
            || has_ties T && (Z.of_nat n1 <=? TL)%Z && (Z.of_nat n2 <=? TL)%Z).
  - (* exact branch *)
    destruct (length T =? 1)%nat; [eexists; split; reflexivity|].
    eexists; split; [reflexivity|]. cbn [mw_rel]. mproj.
    split; [reflexivity|]. split; [reflexivity|]. split; [reflexivity|]. split; [exact EU1|]. split; [reflexivity|].
    unfold mw_exact_p, ucdf_of. cbv zeta. fold T.
    set (U2 := inject_Z (Z.of_nat n1 * Z.of_nat n2) - U1).
    assert (EU2 : U2 == QN (n1 * n2) - half twoU).
    { unfold U2, QN. rewrite EU1, Nat2Z.inj_mul. reflexivity. }
    destruct Ha as [-> | [-> | ->]]; cbn [Z.eqb Z.ltb Z.compare Pos.eqb].
    + apply Hcdf. exact EU1.
    + assert (Eq : Qeqb U1 U2 = (twoU =? 2 * Z.of_nat (n1 * n2) - twoU)%Z).
      { destruct (Z.eqb_spec twoU (2 * Z.of_nat (n1 * n2) - twoU)) as [E|E].
        - apply Qeqb_iff. rewrite EU1, EU2. unfold QN. rewrite !half_spec.
          assert (inject_Z (Z.of_nat (n1 * n2)) == inject_Z twoU) as ->
            by (apply inject_Z_injective; lia). field.
        - apply Qeqb_niff. intros C. apply E. rewrite EU1, EU2 in C. unfold QN in C. rewrite !half_spec in C.
          assert (C2 : inject_Z twoU == inject_Z (Z.of_nat (n1 * n2))) by (field_simplify_eq in C; lra).
          unfold Qeq in C2. cbn [Qnum Qden inject_Z] in C2. lia. }
      rewrite Eq. destruct (twoU =? 2 * Z.of_nat (n1 * n2) - twoU)%Z; [reflexivity|].
      rewrite Qmult_comm. apply Qmult_comp; [reflexivity|]. apply Hcdf.
      unfold go_fmin, Qminb. rewrite (Qleb_comp' U1 (half twoU) U2 (QN (n1 * n2) - half twoU)) by assumption.
      destruct (Qle_bool (half twoU) (QN (n1 * n2) - half twoU)); assumption.
    + apply Qplus_comp; [reflexivity|]. apply Qopp_comp. apply Hcdf. rewrite EU1. reflexivity.
  - (* normal approximation *)
    rewrite (tie_tieCorrection T) by (subst T gs L; exact Hcub).
    set (S := inject_Z (Z.of_nat n1 * Z.of_nat n2) *
              (inject_Z (Z.of_nat n1 + Z.of_nat n2) + (1 # 1) -
               inject_Z (tie_correction T) /
               (inject_Z (Z.of_nat n1 + Z.of_nat n2) * (inject_Z (Z.of_nat n1 + Z.of_nat n2) - (1 # 1)))) / (12 # 1)).
    assert (ES : S == sigma2 n1 n2 T).
    { unfold S, sigma2, QN. cbv zeta. rewrite !Nat2Z.inj_add, !Nat2Z.inj_mul.
      set (N := (Z.of_nat n1 + Z.of_nat n2)%Z).
      assert (E1 : inject_Z (N + 1) == inject_Z N + (1 # 1)) by (rewrite inject_Z_plus; reflexivity).
      assert (E2 : inject_Z (N * (N - 1)) == inject_Z N * (inject_Z N - (1 # 1))).
      { rewrite inject_Z_mult. unfold Z.sub. rewrite inject_Z_plus. reflexivity. }
      rewrite E1, E2. reflexivity. }
    assert (Ez : Qeqb (sqrtf S) (0 # 1) = Qeqb (sigma2 n1 n2 T) 0).
    { destruct (Qeqb (sigma2 n1 n2 T) 0) eqn:E.
      - apply Qeqb_iff in E. apply Qeqb_iff. apply Hs0. rewrite ES. exact E.
      - apply Qeqb_niff in E. apply Qeqb_niff. intros C. apply E. rewrite <- ES. apply Hs0. exact C. }
    rewrite Ez. destruct (Qeqb (sigma2 n1 n2 T) 0); [eexists; split; reflexivity|].
    eexists; split; [reflexivity|]. cbn [mw_rel]. mproj.
    split; [reflexivity|]. split; [reflexivity|]. split; [reflexivity|]. split; [exact EU1|]. split; [reflexivity|].
    set (numer := U1 - inject_Z (Z.of_nat n1 * Z.of_nat n2) / (2 # 1)).
    set (d := (twoU - Z.of_nat (n1 * n2))%Z).
    assert (En : numer == half d).
    { unfold numer, d. rewrite EU1, !half_spec, Nat2Z.inj_mul. unfold Z.sub. rewrite inject_Z_plus, inject_Z_opp. field. }
    assert (Esg : gen_Sign nanv numer == inject_Z (Z.sgn d)).
    { rewrite (tie_Sign nanv 0 numer). unfold sign_model, go_of_xreal.
      assert (Hd : forall q, q == half d -> (q == 0 <-> d = 0%Z) /\ (q < 0 <-> (d < 0)%Z)).
      { intros q Hq. rewrite Hq. unfold half, Qeq, Qlt. simpl. lia. }
      destruct (Hd numer En) as [H0 Hneg].
      destruct (Qeqb numer 0) eqn:E0.
      - apply Qeqb_iff in E0. apply H0 in E0. rewrite E0. reflexivity.
      - apply Qeqb_niff in E0. destruct (Qltb numer 0) eqn:E1.
        + apply Qltb_iff in E1. apply Hneg in E1. destruct d; try lia. reflexivity.
        + apply Qltb_niff in E1. destruct d as [|pd|pd]; [exfalso; apply E0; apply H0; reflexivity | reflexivity|].
          exfalso. assert (numer < 0) by (apply Hneg; lia). lra. }
    unfold numer2, mw_approx_p. fold d.
    destruct Ha as [-> | [-> | ->]]; cbn [Z.eqb Z.ltb Z.compare Pos.eqb];
      (eexists; exists S; split; [exact ES|]; split; [apply Qdiv_comp; [|reflexivity] | reflexivity]).
    + rewrite En, !half_spec, inject_Z_plus. change (inject_Z 1) with 1. generalize (inject_Z d). intros qd. field.
    + rewrite Esg, En, !half_spec. unfold Z.sub. rewrite inject_Z_plus, inject_Z_opp.
      generalize (inject_Z d), (inject_Z (Z.sgn d)). intros qd qs. change (1 # 2) with (/ (2 # 1)). unfold Qdiv. ring.
    + rewrite En, !half_spec. unfold Z.sub. rewrite inject_Z_plus. change (inject_Z (-1)) with (-(1)).
      replace (inject_Z (- (1))%Z) with (- (1 # 1)) by reflexivity.
      generalize (inject_Z d). intros qd. change (1 # 2) with (/ (2 # 1)). unfold Qdiv. ring.
Qed.

(* non-vacuity / the generated code runs: x1 = {1, 3, 3}, x2 = {2, 3}: merged 1 2 3 3 3, T = (1, 1, 3),
   R1 = 1 + 4 + 4 = 9, U1 = 9 - 6 = 3; exact branch, P = CDF(U1) for LocationLess with a dummy CDF *)
Example sort_ok_example : sort_ok (msort Qcompare).
Proof. intros l. reflexivity. Qed.
Example tie_MannWhitneyUTest_example :
  let r := gen_MannWhitneyUTest 1%N 2%N 50 0 (fun _ z => z) (msort Qcompare) (fun x => x) (mk_NormalDist 0 1) 25
             (fun d u => u / (100 # 1)) 7 [3 # 1; 1; 3 # 1] [3 # 1; 2 # 1] (-1)%Z in
  match r with
  | Some (res, None) => (MannWhitneyUTestResult_N1 res, MannWhitneyUTestResult_N2 res,
                         Qred (MannWhitneyUTestResult_U res), Qred (MannWhitneyUTestResult_P res)) = (3%Z, 2%Z, 3 # 1, 3 # 100)
  | _ => False
  end /\
  gen_MannWhitneyUTest 1%N 2%N 50 0 (fun _ z => z) (msort Qcompare) (fun x => x) (mk_NormalDist 0 1) 25
    (fun d u => u) 3 [3 # 1; 1; 3 # 1] [3 # 1; 2 # 1] (-1)%Z = None.
Proof. split; vm_compute; reflexivity. Qed.

(* Tie/Vec.v — T-tie for vec/vec.go Sum (property C09).
   Compiled by bin/ttie. *)
From Coq Require Import ZArith NArith QArith Qround Qabs List Lia Lqa.
From MM Require Import Base.Num Base.GoSem Model.Sample.
From MMGen Require Import Gen_vec_vec.
Import ListNotations.
Local Open Scope Q_scope.

(* ---------- vec.Sum ---------- *)
Lemma sum_fold (f : Q -> Q -> Q) : (forall s x, f s x = s + x) ->
  forall xs a a', a == a' -> fold_left f xs a == fold_left (fun a x => Qred (a + x)) xs a'.
Proof.
  intros Hf. induction xs as [|x xs IH]; intros a a' H; cbn [fold_left]; [exact H|].
  apply IH. rewrite Hf, Qred_correct, H. reflexivity.
Qed.

Theorem tie_vec_Sum : forall xs : list Q, gen_Sum xs == vsum xs.
Proof. intros xs. unfold gen_Sum, vsum. cbv zeta. apply sum_fold; [reflexivity | reflexivity]. Qed.

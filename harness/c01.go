package main

import (
	"encoding/json"
	"math"
	"math/rand"
)

// C01: MannWhitneyUTest, exact method, the three alternatives on the same pair of samples.
type c01Case struct {
	Run mwRun `json:"run"`
}

func c01Run(raw []byte) (*Line, error) {
	var c c01Case
	if err := json.Unmarshal(raw, &c); err != nil {
		return nil, err
	}
	if err := mwValidate(&c.Run); err != nil {
		return nil, err
	}
	l := &Line{}
	l.I(1)
	mwEmit(l, &c.Run)
	return l, nil
}

func shuffled(rng *rand.Rand, xs []float64) []F64 {
	r := toF64s(xs)
	rng.Shuffle(len(r), func(i, j int) { r[i], r[j] = r[j], r[i] })
	return r
}

// strictly increasing map applied to rank values, so that the data are not always 1..K
func c01Values(rng *rand.Rand, k int) []float64 {
	vs := make([]float64, k)
	switch rng.Intn(4) {
	case 0: // ranks themselves
		for i := range vs {
			vs[i] = float64(i + 1)
		}
	case 1: // negative and fractional
		x := float64(rng.Intn(9)-8) + float64(rng.Intn(4))/4
		for i := range vs {
			vs[i] = x
			x += float64(rng.Intn(5)+1) / 4
		}
	case 2: // neighbours one ulp apart: still distinct
		x := 1.0 + rng.Float64()
		for i := range vs {
			vs[i] = x
			x = nextUp(x)
		}
	default: // wide magnitudes
		x := -1e6
		for i := range vs {
			vs[i] = x
			x += float64(rng.Intn(1000)+1) * 1e3
		}
	}
	return vs
}

func nextUp(x float64) float64 { return math.Nextafter(x, math.Inf(1)) }

var allAlts = []int{-1, 0, 1}

func c01Gen(tier string, rng *rand.Rand, emit func(interface{})) {
	thorough := tier == "thorough"
	maxN := 10
	if thorough {
		maxN = 13
	}
	// (a) exhaustive: every tie vector (composition of N) and every allocation of each tie group
	// to the two samples, empty samples excluded; all-equal data (one rank) included
	for n := 2; n <= maxN; n++ {
		compositions(n, func(t []int) {
			vals := c01Values(rng, len(t))
			r := make([]int, len(t))
			var rec func(k int)
			rec = func(k int) {
				if k == len(t) {
					var x1, x2 []float64
					for i := range t {
						for j := 0; j < r[i]; j++ {
							x1 = append(x1, vals[i])
						}
						for j := r[i]; j < t[i]; j++ {
							x2 = append(x2, vals[i])
						}
					}
					if len(x1) == 0 || len(x2) == 0 {
						return
					}
					emit(c01Case{Run: mwRun{EL: 50, TL: 25, X1: shuffled(rng, x1), X2: shuffled(rng, x2), Alts: allAlts}})
					return
				}
				for r[k] = 0; r[k] <= t[k]; r[k]++ {
					rec(k + 1)
				}
			}
			rec(0)
		})
	}
	// (b) random up to the limits: 50+50 untied, 25+25 tied; two-valued data; sizes at the limits
	nRand := 150
	if thorough {
		nRand = 2500
	}
	for it := 0; it < nRand; it++ {
		tied := it%2 == 0
		lim := 50
		if tied {
			lim = 25
		}
		n1, n2 := 1+rng.Intn(lim), 1+rng.Intn(lim)
		if !tied && !thorough {
			// the model's exact 50+50 table costs seconds: quick tier keeps most untied cases <= 32
			// and visits the limit itself in the three cases below
			n1, n2 = 1+rng.Intn(32), 1+rng.Intn(32)
		}
		atLimit := tied || thorough || it < 8
		switch (it / 2) % 5 {
		case 1:
			if atLimit {
				n1 = lim
			}
		case 2:
			if atLimit {
				n2 = lim
			}
		case 3:
			if atLimit {
				n1, n2 = lim, lim
			}
		}
		var x1, x2 []float64
		if tied {
			rangeK := 2 + rng.Intn(12)
			if it%6 == 0 {
				rangeK = 2 // exactly two distinct values
			}
			shift := rng.Intn(3) - 1
			for i := 0; i < n1; i++ {
				x1 = append(x1, float64(rng.Intn(rangeK)))
			}
			for i := 0; i < n2; i++ {
				x2 = append(x2, float64(rng.Intn(rangeK)+shift))
			}
		} else {
			perm := rng.Perm(n1 + n2)
			// shift the first sample up or down so that small and large U both occur
			bias := rng.Intn(5) - 2
			vals := make([]float64, n1+n2)
			for i, p := range perm {
				vals[i] = float64(p)
			}
			if bias != 0 {
				// sort a prefix into one sample with some probability
				for i := 0; i < n1+n2; i++ {
					if rng.Intn(3) == 0 {
						j := rng.Intn(n1 + n2)
						if (vals[i] > vals[j]) == ((i < n1) == (bias > 0)) && (i < n1) != (j < n1) {
							vals[i], vals[j] = vals[j], vals[i]
						}
					}
				}
			}
			x1, x2 = vals[:n1], vals[n1:]
		}
		emit(c01Case{Run: mwRun{EL: 50, TL: 25, X1: toF64s(x1), X2: toF64s(x2), Alts: allAlts}})
	}
	// (b2) method selection by the two limit variables at other values than the defaults: sizes at,
	// one below and one above the limit that applies (EL without ties, TL with ties), the OTHER limit
	// set so that it would decide the opposite way
	nSel := 60
	if thorough {
		nSel = 600
	}
	for it := 0; it < nSel; it++ {
		tied := it%2 == 0
		lim := 2 + rng.Intn(9)
		n1 := lim - 1 + rng.Intn(3)
		n2 := lim - 1 + rng.Intn(3)
		if it%3 == 0 {
			n2 = 1 + rng.Intn(lim)
		}
		if n1 < 1 {
			n1 = 1
		}
		var x1, x2 []float64
		if tied {
			// at least one tie, at least two distinct values
			for i := 0; i < n1; i++ {
				x1 = append(x1, float64(rng.Intn(3)))
			}
			for i := 0; i < n2; i++ {
				x2 = append(x2, float64(rng.Intn(3)+1))
			}
			x1[0], x2[0] = 1, 1
			if n1 > 1 {
				x1[1] = 0
			} else {
				x2 = append(x2, 3)
			}
		} else {
			perm := rng.Perm(n1 + n2)
			for i, q := range perm {
				if i < n1 {
					x1 = append(x1, float64(q))
				} else {
					x2 = append(x2, float64(q))
				}
			}
		}
		if tied && it%4 == 0 && n1+n2 >= 3 {
			// the smallest possible tie: distinct values except ONE tied pair, anywhere in the
			// order, inside one sample or across the two
			x1, x2 = mwOnePair(rng, n1, n2)
		}
		el, tl := lim, lim
		switch it % 4 {
		case 0, 1:
			if tied {
				el = 1000 // must be ignored with ties
			} else {
				tl = 1000 // must be ignored without ties
			}
		case 2:
			if tied {
				el = 0
			} else {
				tl = 0
			}
		}
		emit(c01Case{Run: mwRun{EL: el, TL: tl, X1: toF64s(x1), X2: toF64s(x2), Alts: allAlts}})
	}
	// (b3) extreme tie shapes in one process: one huge tie group (in every position) next to 1..3 small
	// ones, N = 35..50; before the calls the same process evaluates the exact distributions of ALL the
	// other extreme shapes of the same (n1,n2) at the same U values (mwRun.WarmT)
	// (the warm-up of one case costs 141 x 4 evaluations of a tied distribution, ~1 ms each at 25+25:
	// only the first shape is enumerated completely, the others are sampled in the thorough tier)
	shapes := [][2]int{{12, 23}}
	if thorough {
		shapes = [][2]int{{12, 23}, {17, 18}, {25, 25}, {10, 25}, {20, 22}}
	}
	for _, sh := range shapes {
		n1, n2 := sh[0], sh[1]
		all := extremeTies(n1 + n2)
		step := 1
		if sh != shapes[0] {
			step = 6 // ~24 cases per further shape
		}
		for k := 0; k < len(all); k += step {
			t := all[(k+int(rng.Intn(step)))%len(all)]
			var pool []float64
			for i, g := range t {
				for j := 0; j < g; j++ {
					pool = append(pool, float64(i+1))
				}
			}
			rng.Shuffle(len(pool), func(i, j int) { pool[i], pool[j] = pool[j], pool[i] })
			emit(c01Case{Run: mwRun{EL: 50, TL: 25, X1: toF64s(pool[:n1]), X2: toF64s(pool[n1:]), Alts: allAlts, WarmT: all}})
		}
	}
	// (b4) near-equal DISTINCT values: v and its neighbours 1..8 ulps away at several magnitudes, mixed
	// with exact ties, inside one sample and across the samples
	nNear := 120
	if thorough {
		nNear = 1500
	}
	for it := 0; it < nNear; it++ {
		n1, n2 := 1+rng.Intn(8), 1+rng.Intn(8)
		if it%10 == 0 {
			n1, n2 = 1+rng.Intn(25), 1+rng.Intn(25)
		}
		if it%7 == 0 {
			n1, n2 = 1, 1+rng.Intn(3)
		}
		x1, x2 := mwNearEqual(rng, n1, n2)
		emit(c01Case{Run: mwRun{EL: 50, TL: 25, X1: toF64s(x1), X2: toF64s(x2), Alts: allAlts}})
	}
	// (c) degenerate: empty samples, all-equal samples
	emit(c01Case{Run: mwRun{EL: 50, TL: 25, X1: nil, X2: toF64s([]float64{1, 2}), Alts: allAlts}})
	emit(c01Case{Run: mwRun{EL: 50, TL: 25, X1: toF64s([]float64{1, 2}), X2: []F64{}, Alts: allAlts}})
	emit(c01Case{Run: mwRun{EL: 50, TL: 25, X1: nil, X2: nil, Alts: allAlts}})
	emit(c01Case{Run: mwRun{EL: 50, TL: 25, X1: toF64s([]float64{3, 3, 3}), X2: toF64s([]float64{3, 3}), Alts: allAlts}})
	// (d) LAST (the random stream of the blocks above stays what it was): signed zeros in the pool, -0.0 and
	// +0.0 are the same number (seeded C03-8 class, see mwSignedZeros)
	nZero := 60
	if thorough {
		nZero = 600
	}
	for _, pr := range mwSignedZeros(rng, nZero, 8) {
		emit(c01Case{Run: mwRun{EL: 50, TL: 25, X1: toF64s(pr[0]), X2: toF64s(pr[1]), Alts: allAlts}})
	}
}

func init() { register(&Prop{ID: "C01", Num: 1, Gen: c01Gen, Run: c01Run}) }

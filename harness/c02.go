package main

import (
	"encoding/json"
	"fmt"
	"math"
	"math/rand"

	"github.com/aclements/go-moremath/stats"
)

// C02: UDist{N1,N2,T}.PMF/CDF on a list of u values, Bounds, Step.
type c02Case struct {
	N1 int   `json:"n1"`
	N2 int   `json:"n2"`
	T  []int `json:"t"` // null = nil (no ties)
	Us []F64 `json:"us"`
	// More: further tie vectors for the same (N1,N2), evaluated on the same Us directly after T in
	// the same process: a result must not depend on which distributions were evaluated before
	More [][]int `json:"more,omitempty"`
	// InPlace: how the tie vectors reach the library. 0: every distribution has its own freshly
	// allocated slice. 1: all tie vectors of equal length share ONE backing array that is overwritten
	// in place immediately before every single PMF/CDF call (a fresh UDist value each time, T pointing
	// to the shared array). 2: as 1, and the UDist VALUE itself is reused (one variable per length,
	// only the contents of its T change). The caller owns T: a result may depend on its contents at
	// the time of the call only.
	InPlace int `json:"in_place,omitempty"`
}

func c02Run(raw []byte) (*Line, error) {
	var c c02Case
	if err := json.Unmarshal(raw, &c); err != nil {
		return nil, err
	}
	if c.N1 < 1 || c.N2 < 1 || c.N1 > 200 || c.N2 > 200 {
		return nil, fmt.Errorf("bad sizes")
	}
	if c.T != nil {
		s := 0
		for _, t := range c.T {
			if t < 1 {
				return nil, fmt.Errorf("bad tie count")
			}
			s += t
		}
		if len(c.T) < 2 || s != c.N1+c.N2 {
			return nil, fmt.Errorf("bad tie vector")
		}
	}
	for _, u := range c.Us {
		if math.IsNaN(float64(u)) || math.IsInf(float64(u), 0) {
			return nil, fmt.Errorf("bad u")
		}
	}
	if len(c.Us) > 20000 {
		return nil, fmt.Errorf("too many u")
	}
	if len(c.More) > 2000 || (len(c.More)+1)*len(c.Us) > 400000 {
		return nil, fmt.Errorf("case too large")
	}
	for _, t := range c.More {
		s := 0
		for _, x := range t {
			if x < 1 {
				return nil, fmt.Errorf("bad tie count")
			}
			s += x
		}
		if len(t) < 2 || s != c.N1+c.N2 {
			return nil, fmt.Errorf("bad tie vector")
		}
	}
	// All distributions of the case are evaluated in ONE process, twice: first point-major (for each
	// u every distribution in turn: neighbours in time are different distributions at the same
	// point), then distribution-major; the first pass is what the model is compared with, and any
	// value of the second pass that is not bit-identical to the first makes the block fail (status 5):
	// a result must not depend on what was evaluated before.
	if c.InPlace < 0 || c.InPlace > 2 {
		return nil, fmt.Errorf("bad in_place")
	}
	ts := append([][]int{c.T}, c.More...)
	nb := len(ts)
	copies := make([][]int, nb)
	shared := map[int][]int{}        // InPlace >= 1: one backing array per length
	reused := map[int]*stats.UDist{} // InPlace == 2: one UDist value per length
	for b, t := range ts {
		if t != nil {
			copies[b] = append([]int{}, t...)
			if _, ok := shared[len(t)]; !ok {
				shared[len(t)] = make([]int, len(t))
				reused[len(t)] = &stats.UDist{N1: c.N1, N2: c.N2, T: shared[len(t)]}
			}
		}
	}
	status := make([]int, nb)
	// dist returns the distribution of block b as the library is to see it for the next call
	dist := func(b int) stats.UDist {
		t := ts[b]
		if t == nil || c.InPlace == 0 {
			return stats.UDist{N1: c.N1, N2: c.N2, T: copies[b]}
		}
		copy(shared[len(t)], t)
		if c.InPlace == 2 {
			return *reused[len(t)]
		}
		return stats.UDist{N1: c.N1, N2: c.N2, T: shared[len(t)]}
	}
	// the tie vector is an input: the library must not have modified it
	intact := func(b int) {
		t := ts[b]
		if t == nil {
			return
		}
		got := copies[b]
		if c.InPlace != 0 {
			got = shared[len(t)]
		}
		for i := range t {
			if got[i] != t[i] && status[b] == 0 {
				status[b] = 3
			}
		}
	}
	pm := make([][]float64, nb)
	cd := make([][]float64, nb)
	for b := range ts {
		pm[b] = make([]float64, len(c.Us))
		cd[b] = make([]float64, len(c.Us))
	}
	for i, u := range c.Us {
		for b := range ts {
			d := dist(b)
			pan, _ := catch(func() { pm[b][i] = d.PMF(float64(u)) })
			intact(b)
			d = dist(b)
			pan2, _ := catch(func() { cd[b][i] = d.CDF(float64(u)) })
			intact(b)
			if pan || pan2 {
				status[b] = 2
			}
		}
	}
	if nb > 1 {
		for b := range ts {
			for i, u := range c.Us {
				var p2, c2 float64
				d := dist(b)
				catch(func() { p2 = d.PMF(float64(u)) })
				d = dist(b)
				catch(func() { c2 = d.CDF(float64(u)) })
				intact(b)
				if status[b] == 0 && (math.Float64bits(p2) != math.Float64bits(pm[b][i]) || math.Float64bits(c2) != math.Float64bits(cd[b][i])) {
					status[b] = 5
				}
			}
		}
	}
	l := &Line{}
	l.I(2).I(nb)
	for b, t := range ts {
		l.I(c.N1).I(c.N2).B(t == nil).Is(t).I(len(c.Us))
		for i, u := range c.Us {
			l.F(float64(u)).F(pm[b][i]).F(cd[b][i])
		}
		var lo, hi, st float64
		d := dist(b)
		pan, _ := catch(func() { lo, hi = d.Bounds(); st = d.Step() })
		if pan && status[b] == 0 {
			status[b] = 2
		}
		intact(b)
		l.F(lo).F(hi).F(st).I(status[b])
	}
	return l, nil
}

var c02Extremes = []float64{
	1 << 62, -(1 << 62), 1 << 63, -(1 << 63), 1 << 61, 1<<62 - 512, 1<<63 + 2048, 1 << 31, 1 << 32, -(1 << 31),
	1e19, -1e19, 1e300, -1e300, math.MaxFloat64, -math.MaxFloat64, 4.611686018427388e18, 9.223372036854776e18,
	1e15 + 0.5, 1e9,
}

// half-integer grid from -1 to n1*n2+1, or a subsample of it with the ends kept
func c02Grid(rng *rand.Rand, n1, n2, maxPts int) []F64 {
	top := 2*(n1*n2) + 2
	// "for every real u": far outside the support CDF is 0 / 1 and PMF is 0 — also where 2u no
	// longer fits an int (2^62, 2^63, 1e19) or a float (MaxFloat64); four of these per case
	var us []F64
	for j := 0; j < 4; j++ {
		us = append(us, F64(c02Extremes[rng.Intn(len(c02Extremes))]))
	}
	if top+3 <= maxPts {
		for k := -2; k <= top; k++ {
			us = append(us, F64(float64(k)/2))
		}
		return us
	}
	for _, k := range []int{-2, -1, 0, 1, 2, 3, n1 * n2, n1*n2 - 1, n1*n2 + 1, 2*n1*n2 - 2, 2*n1*n2 - 1, 2 * n1 * n2, 2*n1*n2 + 1, top} {
		us = append(us, F64(float64(k)/2))
	}
	for len(us) < maxPts {
		// concentrate around the centre where the mass is
		k := n1*n2 + int(rng.NormFloat64()*math.Sqrt(float64(n1*n2*(n1+n2+1))/3))
		if rng.Intn(4) == 0 {
			k = rng.Intn(top + 1)
		}
		if k < -2 || k > top {
			continue
		}
		us = append(us, F64(float64(k)/2))
	}
	return us
}

// off-grid reals: next to grid points and anywhere in (-1, n1*n2+1)
func c02OffGrid(rng *rand.Rand, n1, n2, n int) []F64 {
	var us []F64
	for i := 0; i < n; i++ {
		base := float64(rng.Intn(2*n1*n2+5)-2) / 2
		switch rng.Intn(5) {
		case 0:
			us = append(us, F64(math.Nextafter(base, math.Inf(1))))
		case 1:
			us = append(us, F64(math.Nextafter(base, math.Inf(-1))))
		case 2:
			us = append(us, F64(base+0.25))
		case 3:
			us = append(us, F64(base+float64(rng.Intn(1023)+1)/2048))
		default:
			us = append(us, F64(rng.Float64()*float64(n1*n2+2)-1))
		}
	}
	return us
}

// all compositions of n (ordered lists of positive integers summing to n)
func compositions(n int, f func([]int)) {
	var cur []int
	var rec func(rem int)
	rec = func(rem int) {
		if rem == 0 {
			f(append([]int{}, cur...))
			return
		}
		for t := 1; t <= rem; t++ {
			cur = append(cur, t)
			rec(rem - t)
			cur = cur[:len(cur)-1]
		}
	}
	rec(n)
}

func randomTies(rng *rand.Rand, n int) []int {
	// random composition with >= 2 parts; the expected part size varies per call
	for {
		var t []int
		mean := 1 + rng.Intn(6)
		if rng.Intn(5) == 0 {
			mean = 1 + rng.Intn(n)
		}
		rem := n
		for rem > 0 {
			k := 1
			for k < rem && rng.Intn(mean+1) != 0 {
				k++
			}
			t = append(t, k)
			rem -= k
		}
		if len(t) >= 2 {
			return t
		}
	}
}

func c02Gen(tier string, rng *rand.Rand, emit func(interface{})) {
	thorough := tier == "thorough"
	maxN := 10
	if thorough {
		maxN = 14
	}
	// (a) exhaustive: every (N1,N2,T), N1+N2 <= maxN, T = nil included, full half-integer grid + off-grid
	for n := 2; n <= maxN; n++ {
		for n1 := 1; n1 < n; n1++ {
			n2 := n - n1
			us := append(c02Grid(rng, n1, n2, 1<<30), c02OffGrid(rng, n1, n2, 6)...)
			emit(c02Case{N1: n1, N2: n2, T: nil, Us: us})
			compositions(n, func(t []int) {
				if len(t) < 2 {
					return
				}
				pts := 1 << 30
				if n > 10 {
					pts = 24 // thorough tier beyond 10: subsample the grid, the space of T is what grows
				}
				us := append(c02Grid(rng, n1, n2, pts), c02OffGrid(rng, n1, n2, 3)...)
				emit(c02Case{N1: n1, N2: n2, T: t, Us: us})
			})
		}
	}
	// (b) random larger: untied up to 50+50, tied up to 25+25
	nUntied, nTied, pts := 10, 40, 14
	if thorough {
		nUntied, nTied, pts = 60, 400, 30
	}
	for i := 0; i < nUntied; i++ {
		n1, n2 := 1+rng.Intn(50), 1+rng.Intn(50)
		switch i {
		case 0:
			n1, n2 = 50, 50
		case 1:
			n1, n2 = 50, 1+rng.Intn(10)
		case 2:
			n1, n2 = 1+rng.Intn(10), 50
		}
		var t []int
		if i%3 == 2 { // explicit all-ones tie vector: same path as nil
			t = make([]int, n1+n2)
			for k := range t {
				t[k] = 1
			}
		}
		us := append(c02Grid(rng, n1, n2, pts), c02OffGrid(rng, n1, n2, 4)...)
		emit(c02Case{N1: n1, N2: n2, T: t, Us: us})
	}
	for i := 0; i < nTied; i++ {
		n1, n2 := 1+rng.Intn(25), 1+rng.Intn(25)
		switch i {
		case 0:
			n1, n2 = 25, 25
		case 1:
			n1, n2 = 25, 1+rng.Intn(5)
		case 2:
			n1, n2 = 11, 11 // N = 22: just above the integer Choose path
		}
		if n1+n2 < 3 {
			n2 = 2
		}
		t := randomTies(rng, n1+n2)
		if i%5 == 3 { // exactly two ranks: the closed-form base case at the top
			k := 1 + rng.Intn(n1+n2-1)
			t = []int{k, n1 + n2 - k}
		}
		hasTie := false
		for _, x := range t {
			if x > 1 {
				hasTie = true
			}
		}
		if !hasTie {
			t[0]++
			t = t[:len(t)-1]
			if len(t) < 2 {
				continue
			}
		}
		us := append(c02Grid(rng, n1, n2, pts), c02OffGrid(rng, n1, n2, 4)...)
		emit(c02Case{N1: n1, N2: n2, T: t, Us: us})
	}
	// (c) extreme tie shapes, all in one process and in one case
	c02Extreme(tier, rng, emit)
	// (d) the caller overwrites T in place between calls
	if thorough {
		c02InPlace(3, 10, rng, emit)
	} else {
		c02InPlace(3, 8, rng, emit)
	}
}

// c02InPlace: the caller reuses the memory of T. Per (n1,n2) with N in lo..hi and per number of ranks,
// ONE case holds every TIED vector of that length; all of them live in one backing array that is
// overwritten in place before every call (flavours 1 and 2 of c02Case.InPlace alternate), full grid.
func c02InPlace(lo, hi int, rng *rand.Rand, emit func(interface{})) {
	flavour := 1
	for n := lo; n <= hi; n++ {
		byLen := map[int][][]int{}
		compositions(n, func(t []int) {
			tied := false
			for _, x := range t {
				if x > 1 {
					tied = true
				}
			}
			if len(t) >= 2 && tied {
				byLen[len(t)] = append(byLen[len(t)], t)
			}
		})
		for n1 := 1; n1 < n; n1++ {
			n2 := n - n1
			for k := 2; k < n; k++ {
				vs := append([][]int{}, byLen[k]...)
				if len(vs) < 2 {
					continue
				}
				rng.Shuffle(len(vs), func(i, j int) { vs[i], vs[j] = vs[j], vs[i] })
				if len(vs) > 40 {
					vs = vs[:40]
				}
				us := c02Grid(rng, n1, n2, 1<<30)
				emit(c02Case{N1: n1, N2: n2, T: vs[0], Us: us, More: vs[1:], InPlace: flavour})
				flavour = 3 - flavour
			}
		}
	}
}

// c02Extreme emits, per (n1,n2), ONE case holding every extreme tie shape (one huge group, in every
// position, next to 1..3 groups of size <= 3) evaluated back to back on a shared grid.
func c02Extreme(tier string, rng *rand.Rand, emit func(interface{})) {
	shapes := [][2]int{{12, 23}}
	pts := 26
	if tier == "thorough" {
		shapes = [][2]int{{12, 23}, {17, 18}, {25, 25}, {10, 25}, {20, 22}, {3, 40}}
		pts = 1 << 30
	}
	for _, sh := range shapes {
		n1, n2 := sh[0], sh[1]
		all := extremeTies(n1 + n2)
		rng.Shuffle(len(all), func(i, j int) { all[i], all[j] = all[j], all[i] })
		us := c02Grid(rng, n1, n2, pts)
		emit(c02Case{N1: n1, N2: n2, T: all[0], Us: us, More: all[1:]})
		emit(c02Case{N1: n1, N2: n2, T: all[0], Us: us, More: all[1:], InPlace: 1 + rng.Intn(2)})
	}
}

func init() { register(&Prop{ID: "C02", Num: 2, Gen: c02Gen, Run: c02Run}) }

package main

import (
	"encoding/json"
	"fmt"
	"math"
	"math/rand"

	"github.com/aclements/go-moremath/stats"
)

// C02: UDist{N1,N2,T}.PMF/CDF on a list of u values, Bounds, Step.
type c02Case struct {
	N1 int   `json:"n1"`
	N2 int   `json:"n2"`
	T  []int `json:"t"` // null = nil (no ties)
	Us []F64 `json:"us"`
}

func c02Run(raw []byte) (*Line, error) {
	var c c02Case
	if err := json.Unmarshal(raw, &c); err != nil {
		return nil, err
	}
	if c.N1 < 1 || c.N2 < 1 || c.N1 > 200 || c.N2 > 200 {
		return nil, fmt.Errorf("bad sizes")
	}
	if c.T != nil {
		s := 0
		for _, t := range c.T {
			if t < 1 {
				return nil, fmt.Errorf("bad tie count")
			}
			s += t
		}
		if len(c.T) < 2 || s != c.N1+c.N2 {
			return nil, fmt.Errorf("bad tie vector")
		}
	}
	for _, u := range c.Us {
		if math.IsNaN(float64(u)) || math.IsInf(float64(u), 0) {
			return nil, fmt.Errorf("bad u")
		}
	}
	if len(c.Us) > 20000 {
		return nil, fmt.Errorf("too many u")
	}
	var T []int
	if c.T != nil {
		T = append([]int{}, c.T...)
	}
	d := stats.UDist{N1: c.N1, N2: c.N2, T: T}
	l := &Line{}
	l.I(2).I(c.N1).I(c.N2).B(c.T == nil).Is(c.T).I(len(c.Us))
	status := 0
	for _, u := range c.Us {
		var p, cdf float64
		pan, _ := catch(func() { p = d.PMF(float64(u)) })
		pan2, _ := catch(func() { cdf = d.CDF(float64(u)) })
		if pan || pan2 {
			status = 2
		}
		l.F(float64(u)).F(p).F(cdf)
	}
	var lo, hi, st float64
	pan, _ := catch(func() { lo, hi = d.Bounds(); st = d.Step() })
	if pan {
		status = 2
	}
	// the tie vector is an input: it must not have been modified
	for i := range c.T {
		if T[i] != c.T[i] {
			status = 3
		}
	}
	l.F(lo).F(hi).F(st).I(status)
	return l, nil
}

// half-integer grid from -1 to n1*n2+1, or a subsample of it with the ends kept
func c02Grid(rng *rand.Rand, n1, n2, maxPts int) []F64 {
	top := 2*(n1*n2) + 2
	var us []F64
	if top+3 <= maxPts {
		for k := -2; k <= top; k++ {
			us = append(us, F64(float64(k)/2))
		}
		return us
	}
	for _, k := range []int{-2, -1, 0, 1, 2, 3, n1 * n2, n1*n2 - 1, n1*n2 + 1, 2*n1*n2 - 2, 2*n1*n2 - 1, 2 * n1 * n2, 2*n1*n2 + 1, top} {
		us = append(us, F64(float64(k)/2))
	}
	for len(us) < maxPts {
		// concentrate around the centre where the mass is
		k := n1*n2 + int(rng.NormFloat64()*math.Sqrt(float64(n1*n2*(n1+n2+1))/3))
		if rng.Intn(4) == 0 {
			k = rng.Intn(top + 1)
		}
		if k < -2 || k > top {
			continue
		}
		us = append(us, F64(float64(k)/2))
	}
	return us
}

// off-grid reals: next to grid points and anywhere in (-1, n1*n2+1)
func c02OffGrid(rng *rand.Rand, n1, n2, n int) []F64 {
	var us []F64
	for i := 0; i < n; i++ {
		base := float64(rng.Intn(2*n1*n2+5)-2) / 2
		switch rng.Intn(5) {
		case 0:
			us = append(us, F64(math.Nextafter(base, math.Inf(1))))
		case 1:
			us = append(us, F64(math.Nextafter(base, math.Inf(-1))))
		case 2:
			us = append(us, F64(base+0.25))
		case 3:
			us = append(us, F64(base+float64(rng.Intn(1023)+1)/2048))
		default:
			us = append(us, F64(rng.Float64()*float64(n1*n2+2)-1))
		}
	}
	return us
}

// all compositions of n (ordered lists of positive integers summing to n)
func compositions(n int, f func([]int)) {
	var cur []int
	var rec func(rem int)
	rec = func(rem int) {
		if rem == 0 {
			f(append([]int{}, cur...))
			return
		}
		for t := 1; t <= rem; t++ {
			cur = append(cur, t)
			rec(rem - t)
			cur = cur[:len(cur)-1]
		}
	}
	rec(n)
}

func randomTies(rng *rand.Rand, n int) []int {
	// random composition with >= 2 parts; the expected part size varies per call
	for {
		var t []int
		mean := 1 + rng.Intn(6)
		if rng.Intn(5) == 0 {
			mean = 1 + rng.Intn(n)
		}
		rem := n
		for rem > 0 {
			k := 1
			for k < rem && rng.Intn(mean+1) != 0 {
				k++
			}
			t = append(t, k)
			rem -= k
		}
		if len(t) >= 2 {
			return t
		}
	}
}

func c02Gen(tier string, rng *rand.Rand, emit func(interface{})) {
	thorough := tier == "thorough"
	maxN := 10
	if thorough {
		maxN = 14
	}
	// (a) exhaustive: every (N1,N2,T), N1+N2 <= maxN, T = nil included, full half-integer grid + off-grid
	for n := 2; n <= maxN; n++ {
		for n1 := 1; n1 < n; n1++ {
			n2 := n - n1
			us := append(c02Grid(rng, n1, n2, 1<<30), c02OffGrid(rng, n1, n2, 6)...)
			emit(c02Case{N1: n1, N2: n2, T: nil, Us: us})
			compositions(n, func(t []int) {
				if len(t) < 2 {
					return
				}
				pts := 1 << 30
				if n > 10 {
					pts = 24 // thorough tier beyond 10: subsample the grid, the space of T is what grows
				}
				us := append(c02Grid(rng, n1, n2, pts), c02OffGrid(rng, n1, n2, 3)...)
				emit(c02Case{N1: n1, N2: n2, T: t, Us: us})
			})
		}
	}
	// (b) random larger: untied up to 50+50, tied up to 25+25
	nUntied, nTied, pts := 10, 40, 14
	if thorough {
		nUntied, nTied, pts = 60, 400, 30
	}
	for i := 0; i < nUntied; i++ {
		n1, n2 := 1+rng.Intn(50), 1+rng.Intn(50)
		switch i {
		case 0:
			n1, n2 = 50, 50
		case 1:
			n1, n2 = 50, 1+rng.Intn(10)
		case 2:
			n1, n2 = 1+rng.Intn(10), 50
		}
		var t []int
		if i%3 == 2 { // explicit all-ones tie vector: same path as nil
			t = make([]int, n1+n2)
			for k := range t {
				t[k] = 1
			}
		}
		us := append(c02Grid(rng, n1, n2, pts), c02OffGrid(rng, n1, n2, 4)...)
		emit(c02Case{N1: n1, N2: n2, T: t, Us: us})
	}
	for i := 0; i < nTied; i++ {
		n1, n2 := 1+rng.Intn(25), 1+rng.Intn(25)
		switch i {
		case 0:
			n1, n2 = 25, 25
		case 1:
			n1, n2 = 25, 1+rng.Intn(5)
		case 2:
			n1, n2 = 11, 11 // N = 22: just above the integer Choose path
		}
		if n1+n2 < 3 {
			n2 = 2
		}
		t := randomTies(rng, n1+n2)
		if i%5 == 3 { // exactly two ranks: the closed-form base case at the top
			k := 1 + rng.Intn(n1+n2-1)
			t = []int{k, n1 + n2 - k}
		}
		hasTie := false
		for _, x := range t {
			if x > 1 {
				hasTie = true
			}
		}
		if !hasTie {
			t[0]++
			t = t[:len(t)-1]
			if len(t) < 2 {
				continue
			}
		}
		us := append(c02Grid(rng, n1, n2, pts), c02OffGrid(rng, n1, n2, 4)...)
		emit(c02Case{N1: n1, N2: n2, T: t, Us: us})
	}
}

func init() { register(&Prop{ID: "C02", Num: 2, Gen: c02Gen, Run: c02Run}) }

package main

import (
	"encoding/json"
	"fmt"
	"math/rand"
	"sort"
)

// C03: families of MannWhitneyUTest runs on related inputs under several limit settings.
type c03Case struct {
	Runs []mwRun `json:"runs"`
}

func c03Run(raw []byte) (*Line, error) {
	var c c03Case
	if err := json.Unmarshal(raw, &c); err != nil {
		return nil, err
	}
	if len(c.Runs) == 0 || len(c.Runs) > 64 {
		return nil, fmt.Errorf("bad number of runs")
	}
	total := 0
	for i := range c.Runs {
		if err := mwValidate(&c.Runs[i]); err != nil {
			return nil, err
		}
		// an exact computation far above the default limits would not terminate in reasonable
		// time in the library itself (O(n1^2 n2^2)); such configurations are not part of the property
		r := &c.Runs[i]
		if (len(r.X1) > 60 || len(r.X2) > 60) && (r.EL > 60 || r.TL > 60) {
			return nil, fmt.Errorf("exact method far above the limits")
		}
		total += len(r.X1) + len(r.X2)
	}
	if total > 20000 {
		return nil, fmt.Errorf("case too large")
	}
	l := &Line{}
	l.I(3).I(len(c.Runs))
	for i := range c.Runs {
		mwEmit(l, &c.Runs[i])
	}
	return l, nil
}

type c03Limits struct{ el, tl int }

// strictly increasing maps that are exact on the generated values (small dyadics / integers)
func c03Map(kind int, x float64) float64 {
	switch kind {
	case 0:
		return 4*x - 7
	case 1:
		return x * x * x
	case 2:
		return x/1024 + 1e6
	default:
		if x < 0 {
			return x
		}
		return 3 * x // piecewise linear, slope change at 0
	}
}

func c03Sample(rng *rand.Rand, n, kind, rangeK int, shift float64) []float64 {
	xs := make([]float64, n)
	for i := range xs {
		switch kind {
		case 0: // small integers: many ties
			xs[i] = float64(rng.Intn(rangeK)) + shift
		case 1: // dyadic with 6 fractional bits: few ties
			xs[i] = float64(rng.Intn(1<<12)-(1<<11))/64 + shift
		default: // distinct integers are produced by the caller
			xs[i] = float64(rng.Intn(2000001)-1000000) + shift
		}
	}
	return xs
}

func c03Family(rng *rand.Rand, x1, x2 []float64, lims []c03Limits, full bool) c03Case {
	var c c03Case
	add := func(a, b []float64, lm c03Limits) {
		c.Runs = append(c.Runs, mwRun{EL: lm.el, TL: lm.tl, X1: toF64s(a), X2: toF64s(b), Alts: allAlts})
	}
	for _, lm := range lims {
		add(x1, x2, lm)
		add(x2, x1, lm) // swapped
		if full {
			p1 := append([]float64{}, x1...)
			p2 := append([]float64{}, x2...)
			rng.Shuffle(len(p1), func(i, j int) { p1[i], p1[j] = p1[j], p1[i] })
			rng.Shuffle(len(p2), func(i, j int) { p2[i], p2[j] = p2[j], p2[i] })
			add(p1, p2, lm) // reordered
			k := rng.Intn(4)
			m1 := make([]float64, len(x1))
			m2 := make([]float64, len(x2))
			for i, x := range x1 {
				m1[i] = c03Map(k, x)
			}
			for i, x := range x2 {
				m2[i] = c03Map(k, x)
			}
			add(m1, m2, lm) // strictly increasing map
		}
	}
	return c
}

func c03Gen(tier string, rng *rand.Rand, emit func(interface{})) {
	thorough := tier == "thorough"
	def := c03Limits{50, 25}
	// (a) small samples under every limit setting: both methods on the same data
	nSmall := 500
	if thorough {
		nSmall = 6000
	}
	for it := 0; it < nSmall; it++ {
		n1, n2 := 1+rng.Intn(12), 1+rng.Intn(12)
		kind := it % 3
		rangeK := 2 + rng.Intn(8)
		x1 := c03Sample(rng, n1, kind, rangeK, 0)
		x2 := c03Sample(rng, n2, kind, rangeK, float64(rng.Intn(3)-1))
		if kind == 2 {
			// small integers of moderate size so that the cube map stays exact
			for i := range x1 {
				x1[i] = float64(rng.Intn(2001) - 1000)
			}
			for i := range x2 {
				x2[i] = float64(rng.Intn(2001) - 1000)
			}
		}
		if kind == 1 {
			for i := range x1 {
				x1[i] = float64(int(x1[i]*4)) / 4
			}
			for i := range x2 {
				x2[i] = float64(int(x2[i]*4)) / 4
			}
		}
		lims := []c03Limits{def, {0, 0}, {3, 2}, {1000000, 1000000}}
		switch it % 5 {
		case 1:
			lims = []c03Limits{def, {n1, n2}, {n1 - 1, n2}, {n2, n1 - 1}}
		case 2:
			lims = []c03Limits{{0, 25}, {50, 0}, {-1, -1}, {1 + rng.Intn(12), 1 + rng.Intn(12)}}
		}
		emit(c03Family(rng, x1, x2, lims, true))
	}
	// (b) both sides of the switch-over at the default limits: 50/51 untied, 25/26 tied
	nSwitch := 24
	if thorough {
		nSwitch = 300
	}
	for it := 0; it < nSwitch; it++ {
		tied := it%2 == 0
		lim := 50
		if tied {
			lim = 25
		}
		n1 := lim - 1 + rng.Intn(3)
		n2 := lim - 1 + rng.Intn(3)
		if it%4 >= 2 {
			n2 = 1 + rng.Intn(lim+5)
		}
		if !tied && !thorough && it >= 6 {
			// keep the model's exact untied table affordable in the quick tier
			n1, n2 = 25+rng.Intn(3), 50+rng.Intn(2)
			if it%4 >= 2 {
				n1, n2 = n2, n1
			}
		}
		var x1, x2 []float64
		if tied {
			x1 = c03Sample(rng, n1, 0, 3+rng.Intn(10), 0)
			x2 = c03Sample(rng, n2, 0, 3+rng.Intn(10), float64(rng.Intn(3)-1))
		} else {
			perm := rng.Perm(n1 + n2)
			for i, p := range perm {
				if i < n1 {
					x1 = append(x1, float64(p))
				} else {
					x2 = append(x2, float64(p))
				}
			}
		}
		emit(c03Family(rng, x1, x2, []c03Limits{def}, it%3 == 0))
	}
	// (b2) both sides of the switch-over at small limits, exhaustively in the sizes: for (EL,TL) in
	// (3,2), (2,3), (1,1), (0,0) every (n1,n2) with sizes within one of the limit, tied and untied data
	for _, lm := range []c03Limits{{3, 2}, {2, 3}, {1, 1}, {0, 0}} {
		for _, tied := range []bool{false, true} {
			lim := lm.el
			if tied {
				lim = lm.tl
			}
			for n1 := lim - 1; n1 <= lim+1; n1++ {
				for n2 := lim - 1; n2 <= lim+1; n2++ {
					if n1 < 1 || n2 < 1 || (tied && n1+n2 < 3) {
						continue
					}
					var x1, x2 []float64
					if tied {
						for i := 0; i < n1; i++ {
							x1 = append(x1, float64(rng.Intn(3)))
						}
						for i := 0; i < n2; i++ {
							x2 = append(x2, float64(rng.Intn(3)+1))
						}
						x1[0], x2[0] = 1, 1
						if n1 > 1 {
							x1[1] = 0
						} else {
							x2[1] = 3
						}
					} else {
						perm := rng.Perm(n1 + n2)
						for i, q := range perm {
							if i < n1 {
								x1 = append(x1, float64(q))
							} else {
								x2 = append(x2, float64(q))
							}
						}
					}
					if tied && (n1+n2)%2 == 0 && n1+n2 >= 3 {
						x1, x2 = mwOnePair(rng, n1, n2) // exactly one tied pair
					}
					emit(c03Family(rng, x1, x2, []c03Limits{lm, def, {1000000, 1000000}}, false))
				}
			}
		}
	}
	// (b3) near-equal DISTINCT values (1..8 ulps apart, several magnitudes, mixed with exact ties): the
	// pair count, hasTies (hence the method: limits (n,n) put the switch exactly on it) and the
	// invariance under strictly increasing maps must treat them as different values
	nNear := 60
	if thorough {
		nNear = 800
	}
	for it := 0; it < nNear; it++ {
		n1, n2 := 1+rng.Intn(8), 1+rng.Intn(8)
		if it%10 == 0 {
			n1, n2 = 12+rng.Intn(14), 12+rng.Intn(14) // the model's exact table stays cheap
		}
		x1, x2 := mwNearEqual(rng, n1, n2)
		mx := n1
		if n2 > mx {
			mx = n2
		}
		lims := []c03Limits{def, {0, 0}, {mx, 0}, {0, mx}}
		c := c03Family(rng, x1, x2, lims, false)
		// a strictly increasing map that separates the near-equal values widely: rank in the pool
		pool := append(append([]float64{}, x1...), x2...)
		sort.Float64s(pool)
		rank := func(v float64) float64 {
			r := 0
			for i, p := range pool {
				if p < v && (i == 0 || pool[i-1] != p) {
					r++
				}
			}
			return float64(r)
		}
		m1 := make([]float64, len(x1))
		m2 := make([]float64, len(x2))
		for i, v := range x1 {
			m1[i] = rank(v)
		}
		for i, v := range x2 {
			m2[i] = rank(v)
		}
		for _, lm := range lims {
			c.Runs = append(c.Runs, mwRun{EL: lm.el, TL: lm.tl, X1: toF64s(m1), X2: toF64s(m2), Alts: allAlts})
		}
		emit(c)
	}
	// (c) large samples (normal approximation), with and without ties, up to 600
	nLarge := 40
	if thorough {
		nLarge = 500
	}
	for it := 0; it < nLarge; it++ {
		n1, n2 := 51+rng.Intn(150), 51+rng.Intn(150)
		if it%4 == 0 {
			n1, n2 = 200+rng.Intn(400), 200+rng.Intn(400)
		}
		if it%7 == 3 {
			n2 = 1 + rng.Intn(5) // very unbalanced
		}
		kind := it % 3
		var x1, x2 []float64
		if kind == 2 { // no ties at all
			perm := rng.Perm(n1 + n2)
			// make the first sample slightly larger or smaller on average
			for i, p := range perm {
				v := float64(p)
				if i < n1 {
					x1 = append(x1, v)
				} else {
					x2 = append(x2, v)
				}
			}
		} else {
			rangeK := 2 + rng.Intn(40)
			x1 = c03Sample(rng, n1, kind, rangeK, 0)
			x2 = c03Sample(rng, n2, kind, rangeK, float64(rng.Intn(3)-1)/2)
		}
		emit(c03Family(rng, x1, x2, []c03Limits{def}, it%5 == 0))
	}
	// (d) malformed / degenerate under both methods
	for _, lm := range []c03Limits{def, {0, 0}} {
		emit(c03Case{Runs: []mwRun{
			{EL: lm.el, TL: lm.tl, X1: nil, X2: toF64s([]float64{1, 2}), Alts: allAlts},
			{EL: lm.el, TL: lm.tl, X1: toF64s([]float64{1, 2}), X2: []F64{}, Alts: allAlts},
			{EL: lm.el, TL: lm.tl, X1: nil, X2: nil, Alts: allAlts},
			{EL: lm.el, TL: lm.tl, X1: toF64s([]float64{3, 3, 3}), X2: toF64s([]float64{3, 3}), Alts: allAlts},
			{EL: lm.el, TL: lm.tl, X1: toF64s([]float64{0}), X2: toF64s([]float64{0}), Alts: allAlts},
			{EL: lm.el, TL: lm.tl, X1: toF64s([]float64{-0.0, 0}), X2: toF64s([]float64{0, -0.0, 0}), Alts: allAlts},
			{EL: lm.el, TL: lm.tl, X1: toF64s([]float64{1}), X2: toF64s([]float64{2}), Alts: allAlts},
		}})
	}
	// (e) sigma = 0 must be detected for EVERY size: all pooled values equal, every (n1,n2) in
	// 1..60 x 1..60 with the normal approximation forced (limits 0,0), a sample of pairs at the
	// default limits (above 25 the tied data take the approximate branch), random large sizes;
	// and the neighbouring inputs with exactly one different value (sigma > 0: a result, not an error)
	eqVals := []float64{7.5, 0, -3, 1e300, 5e-324, 1.0 / 3}
	constS := func(n int, v float64) []F64 {
		xs := make([]float64, n)
		for i := range xs {
			xs[i] = v
		}
		return toF64s(xs)
	}
	var pend []mwRun
	pendVals := 0
	flush := func() {
		if len(pend) > 0 {
			emit(c03Case{Runs: pend})
			pend, pendVals = nil, 0
		}
	}
	addRun := func(r mwRun) {
		if len(pend) >= 60 || pendVals+len(r.X1)+len(r.X2) > 15000 {
			flush()
		}
		pend = append(pend, r)
		pendVals += len(r.X1) + len(r.X2)
	}
	for n1 := 1; n1 <= 60; n1++ {
		for n2 := 1; n2 <= 60; n2++ {
			v := eqVals[(n1*7+n2)%len(eqVals)]
			alts := []int{(n1+n2)%3 - 1}
			addRun(mwRun{EL: 0, TL: 0, X1: constS(n1, v), X2: constS(n2, v), Alts: alts})
			if (n1+2*n2)%9 == int(rng.Intn(9)) || (n1 > 25 && n2 > 25 && (n1+n2)%4 == 0) {
				addRun(mwRun{EL: 50, TL: 25, X1: constS(n1, v), X2: constS(n2, v), Alts: allAlts})
			}
			if (n1*n2)%11 == 3 {
				// one value differs: not all equal
				x1 := constS(n1, 2)
				x1[rng.Intn(n1)] = F64(2 + float64(rng.Intn(2)*2-1))
				addRun(mwRun{EL: 0, TL: 0, X1: x1, X2: constS(n2, 2), Alts: allAlts})
			}
		}
	}
	nEqBig := 12
	if thorough {
		nEqBig = 200
	}
	for it := 0; it < nEqBig; it++ {
		n1, n2 := 61+rng.Intn(540), 61+rng.Intn(540)
		if it%3 == 0 {
			n2 = 1 + rng.Intn(60)
		}
		v := eqVals[rng.Intn(len(eqVals))]
		lm := def
		if it%2 == 0 {
			lm = c03Limits{0, 0}
		}
		addRun(mwRun{EL: lm.el, TL: lm.tl, X1: constS(n1, v), X2: constS(n2, v), Alts: allAlts})
	}
	flush()
	big := make([]float64, 120)
	for i := range big {
		big[i] = 7.5
	}
	emit(c03Case{Runs: []mwRun{{EL: 50, TL: 25, X1: toF64s(big[:70]), X2: toF64s(big[:50]), Alts: allAlts}}})
	// (z) LAST (the random stream of the blocks above stays what it was): signed zeros in the pool, -0.0 and
	// +0.0 are the same number (seeded C03-8 class, see mwSignedZeros): pair count, ErrSamplesEqual "exactly
	// when all pooled values are equal", swap, reorder and strictly increasing maps (c03Map sends the two
	// zeros to one value or to two zeros again; next to denormals a map may merge neighbours - every run is
	// compared with the model on its own values, so that only adds ties), under the default limits, no exact method and exact always
	nZero := 24
	if thorough {
		nZero = 300
	}
	for i, pr := range mwSignedZeros(rng, nZero, 10) {
		lims := []c03Limits{def, {0, 0}}
		if i%3 == 0 {
			lims = []c03Limits{def, {1000000, 1000000}}
		}
		emit(c03Family(rng, pr[0], pr[1], lims, true))
	}
}

func init() { register(&Prop{ID: "C03", Num: 3, Gen: c03Gen, Run: c03Run}) }

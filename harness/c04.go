package main

import (
	"encoding/json"
	"fmt"
	"math"
	"math/rand"

	"github.com/aclements/go-moremath/stats"
)

// C04: op 0 TwoSampleTTest, 1 TwoSampleWelchTTest, 2 PairedTTest, 3 OneSampleTTest, 4 MeanCI.
type c04Case struct {
	Op  int   `json:"op"`
	X1  []F64 `json:"x1"`
	X2  []F64 `json:"x2,omitempty"`
	Mu0 F64   `json:"mu0,omitempty"`
	Alt int   `json:"alt,omitempty"` // -1 less, 0 differs, 1 greater
	C   F64   `json:"c,omitempty"`   // MeanCI confidence
}

func c04Run(raw []byte) (*Line, error) {
	var c c04Case
	if err := json.Unmarshal(raw, &c); err != nil {
		return nil, err
	}
	x1, x2 := fromF64s(c.X1), fromF64s(c.X2)
	if len(x1) > 400 || len(x2) > 400 {
		return nil, fmt.Errorf("too large")
	}
	if !finiteAll(x1) || !finiteAll(x2) || math.IsNaN(float64(c.Mu0)) || math.IsInf(float64(c.Mu0), 0) ||
		math.IsNaN(float64(c.C)) || math.IsInf(float64(c.C), 0) {
		return nil, fmt.Errorf("non-finite input")
	}
	if c.Alt < -1 || c.Alt > 1 {
		return nil, fmt.Errorf("bad alternative")
	}
	l := &Line{}
	l.I(4).I(c.Op)
	alt := stats.LocationHypothesis(c.Alt)
	var res *stats.TTestResult
	var err error
	var pan bool
	switch c.Op {
	case 0:
		l.Fs(x1).Fs(x2).I(c.Alt)
		pan, _ = catch(func() { res, err = stats.TwoSampleTTest(stats.Sample{Xs: x1}, stats.Sample{Xs: x2}, alt) })
	case 1:
		l.Fs(x1).Fs(x2).I(c.Alt)
		pan, _ = catch(func() { res, err = stats.TwoSampleWelchTTest(stats.Sample{Xs: x1}, stats.Sample{Xs: x2}, alt) })
	case 2:
		l.Fs(x1).Fs(x2).F(float64(c.Mu0)).I(c.Alt)
		pan, _ = catch(func() { res, err = stats.PairedTTest(x1, x2, float64(c.Mu0), alt) })
	case 3:
		l.Fs(x1).F(float64(c.Mu0)).I(c.Alt)
		pan, _ = catch(func() { res, err = stats.OneSampleTTest(stats.Sample{Xs: x1}, float64(c.Mu0), alt) })
	case 4:
		var mean, lo, hi float64
		pan, _ = catch(func() { mean, lo, hi = stats.MeanCI(x1, float64(c.C)) })
		if pan {
			mean, lo, hi = math.Inf(1), math.Inf(1), math.Inf(1) // never a legal answer
		}
		trec, fneg := math.NaN(), math.NaN()
		if len(x1) >= 2 {
			trec = (hi - mean) * math.Sqrt(float64(len(x1))) / stats.StdDev(x1)
			if !math.IsNaN(trec) && !math.IsInf(trec, 0) {
				catch(func() { fneg = stats.TDist{V: float64(len(x1) - 1)}.CDF(-trec) })
			}
		}
		l.Fs(x1).F(float64(c.C)).F(mean).F(lo).F(hi).F(trec).F(fneg)
		return l, nil
	default:
		return nil, fmt.Errorf("bad op")
	}
	st := 0
	switch {
	case pan:
		st = 9
	case err == stats.ErrSampleSize:
		st = 1
	case err == stats.ErrZeroVariance:
		st = 2
	case err == stats.ErrMismatchedSamples:
		st = 3
	case err != nil || res == nil:
		st = 8
	}
	if st != 0 {
		l.I(st).I(0).I(0).F(0).F(0).I(0).F(0).F(0).F(0)
		return l, nil
	}
	d := stats.TDist{V: res.DoF}
	// the CDF is an oracle here (C05 judges it): a panic inside it is recorded as a non-value
	cT, cA := math.NaN(), math.NaN()
	catch(func() { cT = d.CDF(res.T) })
	catch(func() { cA = d.CDF(math.Abs(res.T)) })
	l.I(0).I(res.N1).I(res.N2).F(res.T).F(res.DoF).I(int(res.AltHypothesis)).F(res.P).F(cT).F(cA)
	return l, nil
}

// a sample of n values around off with the given spread; kind 0 dyadic (k/1024 * spread), 1 full mantissa
func c04Sample(rng *rand.Rand, n int, off, spread float64, kind int) []float64 {
	xs := make([]float64, n)
	for i := range xs {
		var u float64
		if kind == 0 {
			u = float64(rng.Intn(2049)-1024) / 1024
		} else {
			u = rng.NormFloat64() / 2
		}
		xs[i] = off + spread*u
	}
	return xs
}

// offset and spread with |x| <= 1e6 and relative spread >= 1e-6
func c04Scale(rng *rand.Rand) (off, spread float64) {
	switch rng.Intn(6) {
	case 0:
		return 0, 1
	case 1:
		return float64(rng.Intn(21) - 10), float64(1+rng.Intn(8)) / 4
	case 2:
		off = float64(rng.Intn(1800001) - 900000)
		return off, math.Max(1, math.Abs(off)) * math.Ldexp(1, -rng.Intn(10))
	case 3: // relative spread down to ~1e-6
		off = float64(rng.Intn(1800001)-900000) + 1000
		return off, math.Abs(off) * math.Ldexp(1, -10-rng.Intn(9))
	case 4:
		return float64(rng.Intn(2001)-1000) / 8, math.Ldexp(1, rng.Intn(13)-6)
	default:
		return 0, math.Ldexp(1, rng.Intn(17))
	}
}

func c04Size(rng *rand.Rand) int {
	switch rng.Intn(4) {
	case 0:
		return 2 + rng.Intn(4)
	default:
		return 2 + rng.Intn(39)
	}
}

// all multisets (as ascending lists) of size n over the values 0..maxv
func c04Multisets(n, maxv int) [][]float64 {
	var out [][]float64
	var rec func(start int, cur []float64)
	rec = func(start int, cur []float64) {
		if len(cur) == n {
			out = append(out, append([]float64{}, cur...))
			return
		}
		for v := start; v <= maxv; v++ {
			rec(v, append(cur, float64(v)))
		}
	}
	rec(0, nil)
	return out
}

// all sequences of length n over the values 0..maxv
func c04Sequences(n, maxv int) [][]float64 {
	out := [][]float64{{}}
	for i := 0; i < n; i++ {
		var next [][]float64
		for _, p := range out {
			for v := 0; v <= maxv; v++ {
				next = append(next, append(append([]float64{}, p...), float64(v)))
			}
		}
		out = next
	}
	return out
}

// EXHAUSTIVE small-integer stream: every pair of samples with values in 0..3 and sizes 2..maxN for the
// two-sample tests, every pair of sequences for the paired test, every sample for the one-sample test and
// MeanCI.  Small integer data produce the coincidences random reals never do: bit-identical variances with
// unequal sizes, equal means (T = 0), zero variance on one side, tied differences, integer T.
func c04Exhaustive(tier string, emit func(interface{})) {
	maxN := 4
	if tier == "thorough" {
		maxN = 5
	}
	var ms [][]float64
	for n := 2; n <= maxN; n++ {
		ms = append(ms, c04Multisets(n, 3)...)
	}
	k := 0
	for _, x1 := range ms {
		for _, x2 := range ms {
			for op := 0; op <= 1; op++ {
				emit(c04Case{Op: op, X1: toF64s(x1), X2: toF64s(x2), Alt: k%3 - 1})
				k++
			}
		}
	}
	for n := 2; n <= 3; n++ {
		seqs := c04Sequences(n, 3)
		for _, x1 := range seqs {
			for _, x2 := range seqs {
				mu0 := []float64{0, 0, 0.5, -1}[k%4]
				emit(c04Case{Op: 2, X1: toF64s(x1), X2: toF64s(x2), Mu0: F64(mu0), Alt: k%3 - 1})
				k++
			}
		}
	}
	var all [][]float64
	for n := 2; n <= 5; n++ {
		all = append(all, c04Multisets(n, 3)...)
	}
	for _, xs := range all {
		for _, mu0 := range []float64{0, 1, 1.5, 3} {
			emit(c04Case{Op: 3, X1: toF64s(xs), Mu0: F64(mu0), Alt: k%3 - 1})
			k++
		}
		for _, c := range []float64{0.5, 0.9, 0.95} {
			emit(c04Case{Op: 4, X1: toF64s(xs), C: F64(c)})
		}
	}
}

func c04Gen(tier string, rng *rand.Rand, emit func(interface{})) {
	mul := 1
	if tier == "thorough" {
		mul = 12
	}
	c04Exhaustive(tier, emit)
	f := func(xs ...float64) []F64 { return toF64s(xs) }
	// ---- error inputs and the smallest legal ones, every test, every alternative ----
	for alt := -1; alt <= 1; alt++ {
		for op := 0; op <= 1; op++ {
			emit(c04Case{Op: op, X1: f(), X2: f(1, 2), Alt: alt})
			emit(c04Case{Op: op, X1: f(1, 2), X2: f(), Alt: alt})
			emit(c04Case{Op: op, X1: f(1), X2: f(1, 2, 4), Alt: alt})
			emit(c04Case{Op: op, X1: f(1, 2, 4), X2: f(3), Alt: alt})
			emit(c04Case{Op: op, X1: f(1), X2: f(2), Alt: alt})
			emit(c04Case{Op: op, X1: f(3, 3, 3), X2: f(5, 5), Alt: alt})    // both variances zero
			emit(c04Case{Op: op, X1: f(3, 3, 3), X2: f(5, 6), Alt: alt})    // one variance zero
			emit(c04Case{Op: op, X1: f(1, 2), X2: f(2, 4), Alt: alt})       // smallest legal
			emit(c04Case{Op: op, X1: f(1, 2, 3), X2: f(3, 2, 1), Alt: alt}) // T = 0
		}
		emit(c04Case{Op: 2, X1: f(1, 2, 3), X2: f(1, 2), Alt: alt})
		emit(c04Case{Op: 2, X1: f(), X2: f(), Alt: alt})
		emit(c04Case{Op: 2, X1: f(1), X2: f(2), Alt: alt})
		emit(c04Case{Op: 2, X1: f(1, 2, 3), X2: f(3, 4, 5), Alt: alt})          // zero-variance differences
		emit(c04Case{Op: 2, X1: f(1, 2, 3), X2: f(3, 4, 5), Mu0: -2, Alt: alt}) // ... even at mu0 = mean
		emit(c04Case{Op: 2, X1: f(1, 2, 4), X2: f(3, 3, 3), Mu0: 0.5, Alt: alt})
		emit(c04Case{Op: 3, X1: f(), Alt: alt})
		emit(c04Case{Op: 3, X1: f(7), Mu0: 1, Alt: alt})
		emit(c04Case{Op: 3, X1: f(7, 7, 7), Mu0: 1, Alt: alt})
		emit(c04Case{Op: 3, X1: f(1, 2), Mu0: 1.5, Alt: alt}) // T = 0
		emit(c04Case{Op: 3, X1: f(1, 2), Mu0: 0, Alt: alt})
	}
	// ---- two-sample tests ----
	for it := 0; it < 600*mul; it++ {
		op := it % 2
		off, spread := c04Scale(rng)
		kind := rng.Intn(3) / 2
		n1 := c04Size(rng)
		n2 := n1
		if rng.Intn(2) == 0 {
			n2 = c04Size(rng)
		}
		if it%40 == 39 {
			n1 = 1 // pooled: legal with a single value on one side; Welch: ErrSampleSize
		}
		x1 := c04Sample(rng, n1, off, spread, kind)
		sp2 := spread
		switch rng.Intn(4) {
		case 0:
			sp2 = spread * math.Ldexp(1, rng.Intn(7)-3) // unequal variances, same conditioning class
		case 1:
			sp2 = spread * 3
		}
		off2 := off
		switch rng.Intn(3) {
		case 0:
			off2 = off + spread*float64(rng.Intn(9)-4)/4
		case 1:
			off2 = off + sp2*float64(rng.Intn(65)-32)/8
		}
		x2 := c04Sample(rng, n2, off2, sp2, kind)
		if it%53 == 52 { // a constant sample against a varying one
			for i := range x2 {
				x2[i] = off2
			}
		}
		emit(c04Case{Op: op, X1: toF64s(x1), X2: toF64s(x2), Alt: it/2%3 - 1})
	}
	// ---- paired ----
	for it := 0; it < 300*mul; it++ {
		off, spread := c04Scale(rng)
		kind := rng.Intn(3) / 2
		n := c04Size(rng)
		x1 := c04Sample(rng, n, off, spread, kind)
		x2 := make([]float64, n)
		shift := spread * float64(rng.Intn(9)-4) / 8
		for i := range x2 {
			if kind == 0 {
				x2[i] = x1[i] + shift + spread*float64(rng.Intn(513)-256)/1024
			} else {
				x2[i] = x1[i] + shift + spread*rng.NormFloat64()/4
			}
		}
		diff := make([]float64, n)
		for i := range diff {
			diff[i] = x1[i] - x2[i]
		}
		var mu0 float64
		switch it % 3 {
		case 1:
			mu0 = stats.Mean(diff)
		case 2:
			mu0 = -shift + spread*float64(rng.Intn(17)-8)/16
		}
		emit(c04Case{Op: 2, X1: toF64s(x1), X2: toF64s(x2), Mu0: F64(mu0), Alt: it/3%3 - 1})
	}
	// ---- one sample ----
	for it := 0; it < 300*mul; it++ {
		off, spread := c04Scale(rng)
		kind := rng.Intn(3) / 2
		n := c04Size(rng)
		xs := c04Sample(rng, n, off, spread, kind)
		var mu0 float64
		switch it % 3 {
		case 1:
			mu0 = stats.Mean(xs)
		case 2:
			mu0 = off + spread*float64(rng.Intn(33)-16)/16
		}
		emit(c04Case{Op: 3, X1: toF64s(xs), Mu0: F64(mu0), Alt: it/3%3 - 1})
	}
	// ---- the mu0 dimension ("all mu0") of the paired and one-sample tests: mu0 = +-10^k * spread for k = 0..15
	//      (a mu0 many orders of magnitude beyond the spread of the data must not be rounded INTO the data: the
	//      statistic is (mean - mu0) sqrt(n) / s with the mean and s of the untouched differences), and mu0 within
	//      a few ulps of the mean (T next to 0).
	nMu := 4 * mul
	for it := 0; it < nMu; it++ {
		off, spread := c04Scale(rng)
		kind := rng.Intn(3) / 2
		n := c04Size(rng)
		x1 := c04Sample(rng, n, off, spread, kind)
		x2 := make([]float64, n)
		diff := make([]float64, n)
		for i := range x2 {
			x2[i] = x1[i] + spread*float64(rng.Intn(513)-256)/1024
			diff[i] = x1[i] - x2[i]
		}
		xs := c04Sample(rng, n, off, spread, kind)
		md, mx := stats.Mean(diff), stats.Mean(xs)
		var mus, mus1 []float64
		for k := 0; k <= 15; k++ {
			m := math.Pow(10, float64(k)) * spread
			mus = append(mus, m, -m)
			mus1 = append(mus1, off+m, off-m, m, -m)
		}
		near := func(m float64) []float64 {
			return []float64{math.Nextafter(m, math.Inf(1)), math.Nextafter(m, math.Inf(-1)), m + spread*math.Ldexp(1, -30), m - spread*math.Ldexp(1, -30),
				m * (1 + math.Ldexp(1, -40)), m * (1 - math.Ldexp(1, -40))}
		}
		mus = append(mus, near(md)...)
		mus1 = append(mus1, near(mx)...)
		for j, mu0 := range mus {
			emit(c04Case{Op: 2, X1: toF64s(x1), X2: toF64s(x2), Mu0: F64(mu0), Alt: j%3 - 1})
		}
		for j, mu0 := range mus1 {
			emit(c04Case{Op: 3, X1: toF64s(xs), Mu0: F64(mu0), Alt: j%3 - 1})
		}
	}
	// the same on small integer data
	for _, x1 := range [][]float64{{0, 1, 3}, {1, 2, 3, 3}, {0, 0, 2, 3, 3}} {
		x2 := []float64{1, 1, 0, 2, 1}[:len(x1)]
		for k := 0; k <= 16; k++ {
			for _, sg := range []float64{1, -1} {
				mu0 := sg * math.Pow(10, float64(k))
				emit(c04Case{Op: 2, X1: toF64s(x1), X2: toF64s(x2), Mu0: F64(mu0), Alt: k%3 - 1})
				emit(c04Case{Op: 3, X1: toF64s(x1), Mu0: F64(mu0), Alt: k%3 - 1})
			}
		}
	}
	// ---- MeanCI ----
	cs := []float64{-0.5, 0, 0.05, 0.25, 0.5, 0.8, 0.9, 0.95, 0.99, 0.999, 1, 1.5}
	for _, c := range cs {
		emit(c04Case{Op: 4, X1: f(), C: F64(c)})
		emit(c04Case{Op: 4, X1: f(3), C: F64(c)})
		emit(c04Case{Op: 4, X1: f(3, 3, 3), C: F64(c)})
		emit(c04Case{Op: 4, X1: f(1, 2), C: F64(c)})
	}
	for it := 0; it < 400*mul; it++ {
		off, spread := c04Scale(rng)
		kind := rng.Intn(3) / 2
		n := c04Size(rng)
		xs := c04Sample(rng, n, off, spread, kind)
		c := cs[it%len(cs)]
		if it%4 == 3 {
			c = math.Round(rng.Float64()*1000) / 1000
		} else if it%16 == 5 {
			c = rng.Float64()
		}
		emit(c04Case{Op: 4, X1: toF64s(xs), C: F64(c)})
	}
	// ---- MeanCI twice in one process with almost equal confidence levels (seeded change C04-10: the critical
	// value memoised under a key that quantises the confidence to parts per million).  The cases of one run are
	// executed in order by one process, so each pair below is a two-call history on the same sample size.
	for it := 0; it < 12*mul; it++ {
		n := []int{2, 3, 5, 10, 30}[it%5]
		off, spread := c04Scale(rng)
		xs := c04Sample(rng, n, off, spread, 0)
		c := []float64{0.5, 0.9, 0.95, 0.99}[it%4]
		d := []float64{4e-7, -3e-7, 1e-7}[it%3]
		emit(c04Case{Op: 4, X1: toF64s(xs), C: F64(c)})
		emit(c04Case{Op: 4, X1: toF64s(xs), C: F64(c + d)})
	}
}

func init() { register(&Prop{ID: "C04", Num: 4, Gen: c04Gen, Run: c04Run}) }

package main

import (
	"encoding/json"
	"fmt"
	"math"
	"math/rand"
	"sort"

	"github.com/aclements/go-moremath/stats"
)

// C05: NormalDist, TDist, DeltaDist.
//
//	op 1  Normal grid:   Mu, Sigma, Xs (sorted, symmetric about Mu)
//	op 2  Normal InvCDF: Mu, Sigma, Xs = probabilities
//	op 3  Normal Rand:   Mu, Sigma, Seed, N
//	op 4  TDist grid:    V, Xs
//	op 5  DeltaDist:     T (=Mu), Xs = points, Ys = probabilities
//	op 6  monotonicity scan of a CDF (hb_scan.go): Fn, Mu/Sigma or V, [Lo,Hi] in N cells
type c05Case struct {
	Op    int   `json:"op"`
	Mu    F64   `json:"mu,omitempty"`
	Sigma F64   `json:"sigma,omitempty"`
	V     F64   `json:"v,omitempty"`
	Seed  int64 `json:"seed,omitempty"`
	N     int   `json:"n,omitempty"`
	Xs    []F64 `json:"xs,omitempty"`
	Ys    []F64 `json:"ys,omitempty"`
	Fn    int   `json:"fn,omitempty"` // op 6: 1 NormalDist.CDF, 2 TDist.CDF
	Lo    F64   `json:"lo,omitempty"` // op 6: scan range and number of cells (N)
	Hi    F64   `json:"hi,omitempty"`
}

// PDF/CDF grid with Gauss-Legendre consistency between neighbours
func c05Grid(l *Line, xs []F64, pdf, cdf func(float64) float64, scale float64) {
	l.I(len(xs))
	prev := math.NaN()
	for _, xf := range xs {
		x := float64(xf)
		gl := math.NaN()
		// quadrature needs the nodes prev + t to be resolved to ~1e-10 of the scale
		wellCond := math.Max(math.Abs(prev), math.Abs(x))*math.Ldexp(1, -52) < 1e-10*scale
		if !math.IsNaN(prev) && !math.IsInf(prev, 0) && !math.IsNaN(x) && !math.IsInf(x, 0) && x > prev && wellCond {
			if v, ok := ghQuadSplit(pdf, prev, x, nil, scale/4, 600); ok {
				gl = v
			}
		}
		l.F(x).F(pdf(x)).F(cdf(x)).F(gl)
		if !math.IsNaN(x) {
			prev = x
		}
	}
}

func c05Run(raw []byte) (*Line, error) {
	var c c05Case
	if err := json.Unmarshal(raw, &c); err != nil {
		return nil, err
	}
	mu, sigma := float64(c.Mu), float64(c.Sigma)
	finite := func(x float64) bool { return !math.IsNaN(x) && !math.IsInf(x, 0) }
	l := &Line{}
	l.I(5).I(c.Op)
	switch c.Op {
	case 1, 2, 3:
		if !finite(mu) || !finite(sigma) || !(sigma > 0) {
			return nil, fmt.Errorf("need finite mu and sigma > 0")
		}
		n := stats.NormalDist{Mu: mu, Sigma: sigma}
		l.F(mu).F(sigma)
		switch c.Op {
		case 1:
			lo, hi := n.Bounds()
			l.F(n.Mean()).F(n.Variance()).F(lo).F(hi)
			c05Grid(l, c.Xs, n.PDF, n.CDF, sigma)
		case 2:
			l.I(len(c.Xs))
			for _, pf := range c.Xs {
				p := float64(pf)
				x := n.InvCDF(p)
				l.F(p).F(x).F(n.CDF(x)).F(n.PDF(x))
			}
		case 3:
			if c.N < 0 || c.N > 10000 {
				return nil, fmt.Errorf("bad n")
			}
			r := rand.New(&scriptSource{state: uint64(c.Seed)})
			clone := rand.New(&scriptSource{state: uint64(c.Seed)})
			l.I(c.N)
			for i := 0; i < c.N; i++ {
				z := clone.NormFloat64()
				l.F(z).F(n.Rand(r))
			}
		}
	case 4:
		v := float64(c.V)
		if !finite(v) || !(v > 0) {
			return nil, fmt.Errorf("need V > 0")
		}
		t := stats.TDist{V: v}
		lo, hi := t.Bounds()
		l.F(v).F(lo).F(hi)
		c05Grid(l, c.Xs, t.PDF, t.CDF, 1)
	case 5:
		T := float64(c.Mu)
		if !finite(T) {
			return nil, fmt.Errorf("need finite T")
		}
		d := stats.DeltaDist{T: T}
		lo, hi := d.Bounds()
		l.F(T).F(lo).F(hi).I(len(c.Xs))
		for _, xf := range c.Xs {
			x := float64(xf)
			l.F(x).F(d.PDF(x)).F(d.CDF(x))
		}
		l.I(len(c.Ys))
		for _, yf := range c.Ys {
			y := float64(yf)
			l.F(y).F(d.InvCDF(y))
		}
	case 6:
		lo, hi := float64(c.Lo), float64(c.Hi)
		if !finite(lo) || !finite(hi) || !(lo < hi) || c.N < 8 || c.N > 2000000 {
			return nil, fmt.Errorf("bad scan range")
		}
		var f func(float64) float64
		var p1, p2 float64
		switch c.Fn {
		case 1:
			if !finite(mu) || !finite(sigma) || !(sigma > 0) {
				return nil, fmt.Errorf("need finite mu and sigma > 0")
			}
			f, p1, p2 = stats.NormalDist{Mu: mu, Sigma: sigma}.CDF, mu, sigma
		case 2:
			v := float64(c.V)
			if !finite(v) || !(v > 0) {
				return nil, fmt.Errorf("need V > 0")
			}
			f, p1, p2 = stats.TDist{V: v}.CDF, v, 0
		default:
			return nil, fmt.Errorf("bad fn")
		}
		pairs := monoScan(f, lo, hi, c.N, 1, 4)
		l.I(c.Fn).F(p1).F(p2).F(lo).F(hi).I(c.N).I(len(pairs))
		for _, p := range pairs {
			l.F(p.Lo).F(p.Hi).F(p.FLo).F(p.FHi)
		}
	default:
		return nil, fmt.Errorf("bad op")
	}
	return l, nil
}

func c05Sorted(xs []float64) []F64 {
	sort.Float64s(xs)
	var r []F64
	for i, x := range xs {
		if i > 0 && x == xs[i-1] {
			continue
		}
		r = append(r, F64(x))
	}
	return r
}

// standard units of the normal grid: across +-40 sigma including the tails
var c05Z = []float64{0, 1.0 / 1024, 0.125, 0.25, 0.5, 0.75, 1, 1.5, 2, 2.5, 3, 4, 5, 6, 7, 8, 8.25, 10, 12, 16, 20, 26, 32, 37, 38, 38.5, 40}

func c05NormalGrid(rng *rand.Rand, mu, sigma float64, extra bool) []F64 {
	var xs []float64
	for _, z := range c05Z {
		xs = append(xs, mu+z*sigma, mu-z*sigma)
	}
	for i := 0; i < 6; i++ {
		z := float64(rng.Intn(8*64)) / 64
		xs = append(xs, mu+z*sigma, mu-z*sigma)
	}
	r := c05Sorted(xs)
	if extra {
		r = append([]F64{F64(math.Inf(-1))}, r...)
		r = append(r, F64(math.Inf(1)), F64(math.NaN()))
	}
	return r
}

func c05MuSigma(rng *rand.Rand, kind int) (float64, float64) {
	switch kind {
	case 0: // moderate, few bits: x = mu + z*sigma is exact
		mu := float64(rng.Intn(2001)-1000) / 8
		sigma := float64(1+rng.Intn(64)) * math.Ldexp(1, rng.Intn(13)-8)
		return mu, sigma
	case 1: // wide range, log-uniform sigma in [1e-6, 1e6], mu in [-1e6, 1e6]
		mu := math.Round((rng.Float64()*2-1)*1e6*8) / 8
		sigma := math.Exp(math.Log(1e-6) + rng.Float64()*math.Log(1e12))
		return mu, sigma
	default: // small mu, log-uniform dyadic sigma
		mu := float64(rng.Intn(17)-8) / 4
		sigma := math.Ldexp(1+float64(rng.Intn(8))/8, rng.Intn(41)-20)
		return mu, sigma
	}
}

var c05Ps = []float64{1e-300, 1e-250, 1e-200, 1e-150, 1e-100, 1e-50, 1e-30, 1e-20, 1e-15, 1e-12, 1e-10, 1e-9, 1e-8, 1e-7, 1e-6, 1e-5, 1e-4,
	0.001, 0.01, 0.02, 0.02425, 0.05, 0.1, 0.2, 0.25, 0.3, 0.4, 0.5, 0.6, 0.7, 0.75, 0.8, 0.9, 0.95, 0.97575, 0.98, 0.99, 0.999, 0.9999, 0.999999, 0.999999999}

func c05Probabilities(rng *rand.Rand) []F64 {
	ps := append([]float64{}, c05Ps...)
	ps = append(ps, math.Nextafter(0.02425, 0), math.Nextafter(0.02425, 1), math.Nextafter(1-0.02425, 0), math.Nextafter(1-0.02425, 1), 1-0.02425,
		math.Nextafter(1, 0), math.Nextafter(0.5, 0), math.Nextafter(0.5, 1))
	for i := 0; i < 8; i++ {
		ps = append(ps, math.Round(rng.Float64()*1048576)/1048576, math.Exp(-rng.Float64()*600))
	}
	var in []float64
	for _, p := range ps {
		if p > 0 && p < 1 {
			in = append(in, p)
		}
	}
	r := c05Sorted(in)
	// special values: outside [0,1], the ends, NaN
	for _, p := range []float64{0, math.Copysign(0, -1), 1, -0.5, 1.5, -5e-324, math.Nextafter(1, 2), math.Inf(1), math.Inf(-1), math.NaN()} {
		r = append(r, F64(p))
	}
	return r
}

var c05T = []float64{0, 1.0 / 1024, 0.125, 0.25, 0.5, 0.75, 1, 1.5, 2, 2.5, 3, 4, 5, 6, 8, 12, 16, 24, 40, 64, 100, 1000, 1e6}

// TDist.CDF(x) = 1 - BetaInc(V/(V+x*x), V/2, 1/2)/2: BetaInc changes from its reflected to its
// direct continued fraction where V/(V+x*x) = (a+1)/(a+b+2) with a = V/2, b = 1/2, i.e. at
// x*x = 3V/(V+2).  The grid brackets that abscissa (dyadic neighbours and the float itself).
func c05TSwitch(v float64) []float64 {
	s := math.Sqrt(3 * v / (v + 2))
	return []float64{s, math.Nextafter(s, 0), math.Nextafter(s, 2), math.Floor(s*4096) / 4096, math.Ceil(s*4096) / 4096}
}

// TDist.CDF(x) goes through V/(V+x*x), which is within an ulp of 1 when x*x is below about 1e-16 V:
// the abscissae s, 16 s, 256 s with s = 2^-27 sqrt(V) are where the absolute error that this
// cancellation can cause, min(pdf(0) x, 1e-17 V / x), is largest.
func c05TTiny(v float64) []float64 {
	s := math.Ldexp(math.Sqrt(v), -27)
	return []float64{s, 16 * s, 256 * s}
}

func c05TGrid(rng *rand.Rand, v float64, extra bool) []F64 {
	var xs []float64
	for _, t := range c05T {
		xs = append(xs, t, -t)
	}
	for _, t := range c05TTiny(v) {
		xs = append(xs, t, -t)
	}
	for _, t := range c05TSwitch(v) {
		xs = append(xs, t, -t)
	}
	for i := 0; i < 6; i++ {
		t := float64(rng.Intn(8*64)) / 64
		xs = append(xs, t, -t)
	}
	r := c05Sorted(xs)
	if extra {
		r = append([]F64{F64(math.Inf(-1))}, r...)
		r = append(r, F64(math.Inf(1)), F64(math.NaN()))
	}
	return r
}

func c05Gen(tier string, rng *rand.Rand, emit func(interface{})) {
	thorough := tier == "thorough"
	mul := 1
	if thorough {
		mul = 25
	}
	// ---- Normal: grids, InvCDF, Rand
	emit(c05Case{Op: 1, Mu: 0, Sigma: 1, Xs: c05NormalGrid(rng, 0, 1, true)})
	emit(c05Case{Op: 2, Mu: 0, Sigma: 1, Xs: c05Probabilities(rng)})
	for _, ms := range [][2]float64{{1e6, 1e-6}, {-1e6, 1e6}, {0, 1e-6}, {0, 1e6}, {1e6, 1e6}, {-1e6, 1e-6}} {
		emit(c05Case{Op: 1, Mu: F64(ms[0]), Sigma: F64(ms[1]), Xs: c05NormalGrid(rng, ms[0], ms[1], true)})
		emit(c05Case{Op: 2, Mu: F64(ms[0]), Sigma: F64(ms[1]), Xs: c05Probabilities(rng)})
	}
	for it := 0; it < 60*mul; it++ {
		mu, sigma := c05MuSigma(rng, it%3)
		emit(c05Case{Op: 1, Mu: F64(mu), Sigma: F64(sigma), Xs: c05NormalGrid(rng, mu, sigma, it%5 == 0)})
	}
	for it := 0; it < 30*mul; it++ {
		mu, sigma := c05MuSigma(rng, it%3)
		emit(c05Case{Op: 2, Mu: F64(mu), Sigma: F64(sigma), Xs: c05Probabilities(rng)})
	}
	for it := 0; it < 10*mul; it++ {
		mu, sigma := c05MuSigma(rng, it%3)
		emit(c05Case{Op: 3, Mu: F64(mu), Sigma: F64(sigma), Seed: rng.Int63(), N: 50})
	}
	// ---- TDist: V in [0.1, 1e4]
	for _, v := range []float64{0.1, math.Nextafter(0.1, 1), 0.3, 0.5, 0.75, math.Nextafter(1, 0), 1, 1.5, 2, 2.5, 3, 4, 5, 7.5, 10, 30, 31, 100, 200, 200.5, 1000, 9999.5, 1e4} {
		emit(c05Case{Op: 4, V: F64(v), Xs: c05TGrid(rng, v, true)})
	}
	for it := 0; it < 60*mul; it++ {
		var v float64
		switch it % 3 {
		case 0:
			v = float64(1 + rng.Intn(200))
		case 1:
			v = float64(2+rng.Intn(120)) / 2
		default:
			v = math.Exp(math.Log(0.1) + rng.Float64()*math.Log(1e5))
		}
		emit(c05Case{Op: 4, V: F64(v), Xs: c05TGrid(rng, v, it%5 == 0)})
	}
	// ---- TDist: dense deterministic sweep of V (every quarter up to 1000, then a log grid to 1e4)
	//      on a short symmetric grid: PDF finite and >= 0, symmetric, CDF laws, PDF vs CDF by quadrature
	sweepXs := []F64{-3, -1, -0.25, 0, 0.25, 1, 3}
	for k := 1; k <= 4000; k++ {
		emit(c05Case{Op: 4, V: F64(float64(k) / 4), Xs: sweepXs})
	}
	for j := 0; j <= 200; j++ {
		v := 1000 * math.Pow(10, float64(j)/200)
		if j == 200 {
			v = 1e4
		}
		emit(c05Case{Op: 4, V: F64(v), Xs: sweepXs})
	}
	// ---- monotonicity scans (discontinuity hunt, hb_scan.go)
	cells := 300000
	emit(c05Case{Op: 6, Fn: 1, Mu: 0, Sigma: 1, Lo: -9, Hi: 9, N: cells})
	scanVs := []float64{0.6, 3.7, 250, 343.3, 1000, 1e4}
	if thorough {
		cells = 1500000
		scanVs = append(scanVs, 0.1, 1, 2, 30.5, 120, 201, 500.25, 2500, 5000.5)
		for i := 0; i < 12; i++ {
			scanVs = append(scanVs, math.Exp(math.Log(0.1)+rng.Float64()*math.Log(1e5)))
		}
		mu, sigma := c05MuSigma(rng, 1)
		emit(c05Case{Op: 6, Fn: 1, Mu: F64(mu), Sigma: F64(sigma), Lo: F64(mu - 9*sigma), Hi: F64(mu + 9*sigma), N: cells})
	}
	for _, v := range scanVs {
		emit(c05Case{Op: 6, Fn: 2, V: F64(v), Lo: -6, Hi: 6, N: cells})
	}
	// ---- DeltaDist
	ys := []F64{0, F64(math.Copysign(0, -1)), 0.25, 0.5, 1, -0.5, 1.5, F64(-5e-324), F64(math.Nextafter(1, 2)), F64(math.Inf(1)), F64(math.Inf(-1)), F64(math.NaN())}
	for it := 0; it < 30*mul; it++ {
		T := genValue(rng, it%4)
		if it == 0 {
			T = 0
		}
		xs := []float64{T, math.Nextafter(T, math.Inf(1)), math.Nextafter(T, math.Inf(-1)), T - 1, T + 1, 0, math.Copysign(0, -1), -T}
		for i := 0; i < 6; i++ {
			xs = append(xs, genValue(rng, rng.Intn(4)))
		}
		r := c05Sorted(xs)
		r = append(r, F64(math.Inf(1)), F64(math.Inf(-1)), F64(math.NaN()))
		emit(c05Case{Op: 5, Mu: F64(T), Xs: r, Ys: ys})
	}
}

func init() { register(&Prop{ID: "C05", Num: 5, Gen: c05Gen, Run: c05Run}) }

package main

import (
	"encoding/json"
	"fmt"
	"math"
	"math/rand"

	"github.com/aclements/go-moremath/stats"
)

// C06: one case = one distribution (binomial: N,P; hypergeometric: N,K,D) and a grid of k.
// Ks empty: the full grid, every integer from two below to two above the support, each also
// as k+0.5, plus the floats just below the lower end and just below (top+1).
type c06Case struct {
	Op   int   `json:"op"` // 0 binomial, 1 hypergeometric
	N    int   `json:"n"`
	P    F64   `json:"p,omitempty"`
	K    int   `json:"k,omitempty"`
	D    int   `json:"d,omitempty"`
	Ks   []F64 `json:"ks,omitempty"`
	Ints bool  `json:"ints,omitempty"` // full grid without the half-integers
	// distributions evaluated before this one in the same process, in this order (one-process history)
	Pre []c06Dist `json:"pre,omitempty"`
}

// k values every grid carries in addition (audit round 2b): -0.0 (an integer: floor(-0) = 0, not "negative"),
// and the floats next to an interior integer on either side (floor must not be a rounding or a fudge).
// c06HugeKs: |k| far beyond the support, up to where the float64 -> int conversion stops being defined (2^63)
// and beyond (D22: both CDFs returned 0 there).
func c06NearKs(mid int) []float64 {
	return []float64{math.Copysign(0, -1), math.Nextafter(float64(mid), math.Inf(-1)), math.Nextafter(float64(mid), math.Inf(1))}
}

var c06HugeKs = []float64{math.Ldexp(1, 62), math.Ldexp(1, 63), 1e19, 1e300, -1e19}

func c06Grid(lo, hi int, intsOnly bool) []float64 {
	// the near-integer values are placed next to grid values with the same floor, so that the comparator's
	// "same floor, same observed bits as the item just compared" shortcut applies when the library is right
	mid := (lo + hi + 1) / 2
	var ks []float64
	for k := lo - 2; k <= hi+2; k++ {
		ks = append(ks, float64(k))
		if !intsOnly {
			ks = append(ks, float64(k)+0.5)
		}
		if k == 0 {
			ks = append(ks, math.Copysign(0, -1))
		}
		if k == mid-1 {
			ks = append(ks, math.Nextafter(float64(mid), math.Inf(-1)))
		}
		if k == mid {
			ks = append(ks, math.Nextafter(float64(mid), math.Inf(1)))
		}
	}
	if lo > 2 {
		ks = append(ks, math.Copysign(0, -1))
	}
	ks = append(ks, math.Nextafter(float64(lo), math.Inf(-1)), math.Nextafter(float64(hi+1), math.Inf(-1)))
	ks = append(ks, c06HugeKs...)
	if intsOnly {
		ks = append(ks, float64(lo)+0.5, float64(hi)-0.25)
	}
	return ks
}

// c06Dist: a distribution evaluated BEFORE the case's own one in the same harness process (one-process
// history, seeded C06-7 class: a package-level cache of a per-distribution term under a lossy key shows only
// when the colliding distribution was evaluated earlier in the process).
type c06Dist struct {
	Op int `json:"op"`
	N  int `json:"n"`
	P  F64 `json:"p,omitempty"`
	K  int `json:"k,omitempty"`
	D  int `json:"d,omitempty"`
}

func (c c06Dist) check() error {
	if c.N < 0 || c.N > 5000 {
		return fmt.Errorf("bad N")
	}
	switch c.Op {
	case 0:
		if p := float64(c.P); !(p >= 0 && p <= 1) {
			return fmt.Errorf("bad P")
		}
	case 1:
		if c.N < 2 || c.K < 0 || c.K > c.N || c.D < 0 || c.D > c.N {
			return fmt.Errorf("bad hypergeometric parameters")
		}
	default:
		return fmt.Errorf("bad op")
	}
	return nil
}

func c06Support(c c06Dist) (int, int) {
	if c.Op == 0 {
		return 0, c.N
	}
	lo := c.D + c.K - c.N
	if lo < 0 {
		lo = 0
	}
	hi := c.D
	if c.K < hi {
		hi = c.K
	}
	return lo, hi
}

// c06Touch evaluates PMF and CDF of an earlier distribution at the ends and the middle of its support
// (both CDF branches of the hypergeometric distribution are taken that way); the values are not reported:
// these distributions are main distributions of other cases.
func c06Touch(c c06Dist) {
	lo, hi := c06Support(c)
	ks := []int{lo - 1, lo, lo + 1, (lo + hi) / 2, (lo+hi)/2 + 1, hi - 1, hi, hi + 1}
	var d interface {
		PMF(float64) float64
		CDF(float64) float64
	}
	if c.Op == 0 {
		d = stats.BinomialDist{N: c.N, P: float64(c.P)}
	} else {
		d = stats.HypergeometicDist{N: c.N, K: c.K, Draws: c.D}
	}
	for _, k := range ks {
		d.PMF(float64(k))
		d.CDF(float64(k))
	}
}

// everything one pass observes, as bit patterns (two passes must agree bit for bit)
type c06Obs struct {
	hdr    []float64
	pm, cd []float64
}

func (a c06Obs) same(b c06Obs) bool {
	eq := func(x, y []float64) bool {
		if len(x) != len(y) {
			return false
		}
		for i := range x {
			if math.Float64bits(x[i]) != math.Float64bits(y[i]) {
				return false
			}
		}
		return true
	}
	return eq(a.hdr, b.hdr) && eq(a.pm, b.pm) && eq(a.cd, b.cd)
}

func c06Eval(c c06Dist, ks []float64) c06Obs {
	o := c06Obs{pm: make([]float64, len(ks)), cd: make([]float64, len(ks))}
	if c.Op == 0 {
		d := stats.BinomialDist{N: c.N, P: float64(c.P)}
		lo, hi := d.Bounds()
		na := d.NormalApprox()
		o.hdr = []float64{d.Mean(), d.Variance(), na.Mu, na.Sigma, lo, hi, d.Step()}
		for i, k := range ks {
			o.pm[i] = d.PMF(k)
			o.cd[i] = d.CDF(k)
		}
	} else {
		d := stats.HypergeometicDist{N: c.N, K: c.K, Draws: c.D}
		lo, hi := d.Bounds()
		o.hdr = []float64{d.Mean(), d.Variance(), lo, hi, d.Step()}
		for i, k := range ks {
			o.pm[i] = d.PMF(k)
			o.cd[i] = d.CDF(k)
		}
	}
	return o
}

// Status on the line: 0 all calls returned, 2 a call panicked, 3 the two passes differ in some bit
// (PMF, CDF, Mean ... are functions of the distribution and k: a value that depends on what the process
// evaluated before is not "the" PMF). Check/C06.v accepts status 0 only. The line carries the values of
// the SECOND pass (the one with the longer history); each of them is compared with the exact reference.
func c06Run(raw []byte) (*Line, error) {
	var c c06Case
	if err := json.Unmarshal(raw, &c); err != nil {
		return nil, err
	}
	main := c06Dist{Op: c.Op, N: c.N, P: c.P, K: c.K, D: c.D}
	if err := main.check(); err != nil {
		return nil, err
	}
	if len(c.Pre) > 64 {
		return nil, fmt.Errorf("too many earlier distributions")
	}
	for _, q := range c.Pre {
		if err := q.check(); err != nil {
			return nil, err
		}
	}
	for _, k := range c.Ks {
		// finite k of any size (D22: CDF(k >= 2^63) was 0); NaN and +-Inf are outside the comparator
		if math.IsNaN(float64(k)) || math.IsInf(float64(k), 0) {
			return nil, fmt.Errorf("bad k")
		}
	}
	ks := fromF64s(c.Ks)
	if len(ks) == 0 {
		lo, hi := c06Support(main)
		ks = c06Grid(lo, hi, c.Ints)
	}
	var o1, o2 c06Obs
	pan, _ := catch(func() {
		for _, q := range c.Pre {
			c06Touch(q)
		}
		o1 = c06Eval(main, ks)
		for _, q := range c.Pre {
			c06Touch(q)
		}
		o2 = c06Eval(main, ks)
	})
	l := &Line{}
	l.I(6).I(c.Op)
	switch {
	case pan:
		l.I(2)
		ks = nil
		n := 5
		if c.Op == 0 {
			n = 7
		}
		o2 = c06Obs{hdr: make([]float64, n)}
	case !o1.same(o2):
		l.I(3)
	default:
		l.I(0)
	}
	if c.Op == 0 {
		l.I(c.N).F(float64(c.P))
	} else {
		l.I(c.N).I(c.K).I(c.D)
	}
	for _, h := range o2.hdr {
		l.F(h)
	}
	l.I(len(ks))
	for i, k := range ks {
		l.F(k).F(o2.pm[i]).F(o2.cd[i])
	}
	return l, nil
}

// a sample of k for a large support: ends, the neighbourhood of the mean, random interior points
func c06SampleKs(rng *rand.Rand, lo, hi int, mean, sd float64, cnt int) []F64 {
	var ks []float64
	for _, k := range []int{lo - 2, lo - 1, lo, lo + 1, hi - 1, hi, hi + 1, hi + 2} {
		ks = append(ks, float64(k))
	}
	ks = append(ks, float64(lo)-0.5, float64(hi)+0.5, math.Nextafter(float64(lo), math.Inf(-1)), math.Nextafter(float64(hi+1), math.Inf(-1)))
	m := int(math.Floor(mean))
	for _, dk := range []int{-1, 0, 1, 2} {
		ks = append(ks, float64(m+dk))
	}
	ks = append(ks, c06NearKs(m)...)
	ks = append(ks, c06HugeKs...)
	for i := 0; i < cnt; i++ {
		var k int
		switch rng.Intn(3) {
		case 0:
			k = lo + rng.Intn(hi-lo+1)
		default:
			k = m + int(math.Round(rng.NormFloat64()*(sd+1)*1.5))
		}
		x := float64(k)
		if rng.Intn(4) == 0 {
			x += rng.Float64()
		}
		ks = append(ks, x)
	}
	return toF64s(ks)
}

func c06Gen(tier string, rng *rand.Rand, emit func(interface{})) {
	thorough := tier == "thorough"
	// (a) exhaustive hypergeometric
	maxN := 40
	if thorough {
		maxN = 80
	}
	for n := 2; n <= maxN; n++ {
		for k := 0; k <= n; k++ {
			for d := 0; d <= n; d++ {
				emit(c06Case{Op: 1, N: n, K: k, D: d, Ints: n > 40})
			}
		}
	}
	// (b) binomial N <= 60 on a grid of 101 P (the centesimal grid rounded to 10 fractional bits, so
	// that the exact weights stay small), plus P within 1e-12 of 0 and 1
	var grid []float64
	for i := 0; i <= 100; i++ {
		grid = append(grid, math.Round(float64(i)/100*1024)/1024)
	}
	grid = append(grid, math.Ldexp(1, -40), 1-math.Ldexp(1, -40))
	wide := []float64{1e-12, 1 - 1e-12, math.Ldexp(1, -53), 1 - math.Ldexp(1, -53)} // exact weights of ~92 N bits: costly
	for n := 0; n <= 60; n++ {
		for _, p := range grid {
			emit(c06Case{Op: 0, N: n, P: F64(p)})
		}
		// quick: every N to 16, every 5th to 30, every 10th above (35, 45, 55 dropped in round 2c to pay for (b3):
		// the same P are there at both ends of the support for N <= 30, and 40, 50, 60 keep the full grid)
		if thorough || n <= 16 || (n <= 30 && n%5 == 0) || n%10 == 0 {
			for _, p := range wide {
				emit(c06Case{Op: 0, N: n, P: F64(p)})
			}
		}
	}
	// the decimal grid itself (53-bit P) for small N, and a few per larger N
	for n := 0; n <= 12; n++ {
		for i := 0; i <= 100; i++ {
			emit(c06Case{Op: 0, N: n, P: F64(float64(i) / 100)})
		}
	}
	per := 2
	if thorough {
		per = 12
	}
	for n := 13; n <= 60; n++ {
		for r := 0; r < per; r++ {
			p := float64(rng.Intn(101)) / 100
			if r%4 == 3 {
				p = rng.Float64()
			}
			emit(c06Case{Op: 0, N: n, P: F64(p)})
		}
	}
	// (b') a light sweep over EVERY N above the exhaustive range (61..300 quick, ..1000 thorough), so that
	// any size-dependent switch-over in Choose / BetaInc / the PMF is hit deterministically: two dyadic P
	// per N (1/2 and one of 1/4, 3/8, 3/4, 7/8), PMF and CDF at a handful of k around N/2, around the mode
	// and at the ends; likewise one hypergeometric (N, ~N/2, ~N/2) and one skewed one per N above 40 (80)
	sweepTop := 300
	if thorough {
		sweepTop = 1000
	}
	around := func(ks []float64, c int) []float64 {
		for d := -2; d <= 2; d++ {
			ks = append(ks, float64(c+d))
		}
		return append(ks, float64(c)+0.5)
	}
	others := []float64{0.25, 0.375, 0.75, 0.875}
	for n := 61; n <= sweepTop; n++ {
		for _, p := range []float64{0.5, others[n%4]} {
			mode := int(math.Floor(float64(n+1) * p))
			ks := []float64{-1, 0, 1, float64(n - 1), float64(n), float64(n + 1)}
			ks = around(around(ks, n/2), mode)
			ks = around(ks, n/3)
			ks = append(append(ks, c06NearKs(mode)...), c06HugeKs...)
			emit(c06Case{Op: 0, N: n, P: F64(p), Ks: toF64s(ks)})
		}
	}
	for n := maxN + 1; n <= sweepTop; n++ {
		for v := 0; v < 2; v++ {
			k, d := n/2, (n+1)/2
			if v == 1 {
				k, d = n/3+n%7, n-n/5
			}
			lo := d + k - n
			if lo < 0 {
				lo = 0
			}
			hi := d
			if k < hi {
				hi = k
			}
			mode := (d + 1) * (k + 1) / (n + 2)
			ks := []float64{float64(lo - 1), float64(lo), float64(lo + 1), float64(hi - 1), float64(hi), float64(hi + 1)}
			ks = around(around(ks, mode), (lo+hi)/2)
			ks = append(append(ks, c06NearKs(mode)...), c06HugeKs...)
			emit(c06Case{Op: 1, N: n, K: k, D: d, Ks: toF64s(ks)})
		}
	}
	// (b'') the top of the property's range, N = 1000, at its degenerate and extreme parameters
	for _, kd := range [][2]int{{0, 0}, {1000, 1000}, {0, 1000}, {1000, 0}, {500, 500}, {1, 999}, {999, 1}, {1, 1}, {999, 999}, {1000, 500}, {500, 1000}} {
		k, d := kd[0], kd[1]
		lo := d + k - 1000
		if lo < 0 {
			lo = 0
		}
		hi := d
		if k < hi {
			hi = k
		}
		mean := float64(d) * float64(k) / 1000
		emit(c06Case{Op: 1, N: 1000, K: k, D: d, Ks: c06SampleKs(rng, lo, hi, mean, math.Sqrt(mean*float64(1000-k)/1000), 12)})
	}
	for _, p := range []float64{0, 1, 0.5, 1.0 / 64, 63.0 / 64} {
		emit(c06Case{Op: 0, N: 1000, P: F64(p), Ks: c06SampleKs(rng, 0, 1000, 1000*p, math.Sqrt(1000*p*(1-p)), 12)})
	}
	// (b3) P next to 0 and 1 (seeded C06-6 class: BetaInc treating x within some eps of an end point as the
	// end point, so that the binomial CDF collapses to 0/1: an absolute error of about N*min(P,1-P), visible
	// at 1e-10 only where N*min(P,1-P) > 1e-10). The exact reference has N*e bits for P = a/2^e and costs
	// ~e*N^2 (2.4 s at N = 101, P = 1e-12; 8 s at N = 200), so N is chosen per P just above the point where
	// a collapse becomes visible: (i) the decimal values 1e-12 .. 1e-6 and 1 minus them with both float
	// neighbours at N <= 30; (ii) P = 2^-j and 1-2^-j, j = 20..40, at N = ceil(1.5e-10 * 2^j) (capped, >= 2)
	// and a second, larger N; k at both ends of the support only (these grids are short on purpose).
	endKs := func(n int) []F64 {
		ks := []float64{-1, math.Copysign(0, -1), 0, 0.5, 1, 2}
		for _, k := range []float64{float64(n) - 2, float64(n) - 1, float64(n) - 0.5, float64(n), float64(n) + 1} {
			if k > 2 {
				ks = append(ks, k)
			}
		}
		return toF64s(ks)
	}
	for _, q := range []float64{1e-12, 1e-11, 1e-10, 1e-9, 1e-6} {
		for _, c := range []float64{q, 1 - q} {
			for _, p := range []float64{c, math.Nextafter(c, 0), math.Nextafter(c, 1)} {
				ns := []int{1, 2, 10, 20, 30}
				if thorough {
					ns = append(ns, 60, 61, 101)
				}
				for _, n := range ns {
					emit(c06Case{Op: 0, N: n, P: F64(p), Ks: endKs(n)})
				}
			}
		}
	}
	topJ, capN := 40, 170
	if thorough {
		topJ, capN = 41, 400
	}
	for j := 20; j <= topJ; j++ {
		if !thorough && j < 30 && j%4 != 0 {
			continue
		}
		n := int(math.Ceil(1.5e-10 * math.Ldexp(1, j)))
		if n < 2 {
			n = 2
		}
		ns := []int{n, 3 * n / 2, 61}
		if j <= 30 {
			ns = append(ns, 100)
		}
		if j <= 24 {
			ns = append(ns, 200)
		}
		for _, m := range ns {
			if m > capN {
				m = capN
			}
			for _, p := range []float64{math.Ldexp(1, -j), 1 - math.Ldexp(1, -j)} {
				emit(c06Case{Op: 0, N: m, P: F64(p), Ks: endKs(m)})
			}
		}
	}
	// (b5) round 3 (hK): P within 1e-12 of 0 or 1 at LARGE N, where the exact reference is out of reach
	// (N*e bits for P = a/2^e). Check/C06.v switches to its PROVED enclosure (Bernoulli + "pmf >= 0, sums
	// to 1": every probability and partial sum inside an interval of width N(N-1)m^2 <= 1e-12, m = min(P,1-P);
	// Proofs/C06Encl.v) when N*e > 9000, so these cases cost nothing. This closes the residue of seeded
	// C06-6: an end-point threshold eps in [1e-13, 9.1e-13) inside BetaInc shows as an error N*eps > 1e-10
	// only for N > 110..1000. P = 1e-13, 2e-13, 5e-13 and 1 minus them at N = 100, 300, 1000, with both float
	// neighbours at N = 1000; P = 2^-j and 1-2^-j, j = 30..44, at N = 1000 (and 600); k at both ends.
	for _, q := range []float64{1e-13, 2e-13, 5e-13} {
		for _, c := range []float64{q, 1 - q} {
			for _, n := range []int{100, 300, 1000} {
				emit(c06Case{Op: 0, N: n, P: F64(c), Ks: endKs(n)})
			}
			for _, p := range []float64{math.Nextafter(c, 0), math.Nextafter(c, 1)} {
				emit(c06Case{Op: 0, N: 1000, P: F64(p), Ks: endKs(1000)})
			}
		}
	}
	for j := 30; j <= 44; j++ {
		for _, p := range []float64{math.Ldexp(1, -j), 1 - math.Ldexp(1, -j)} {
			emit(c06Case{Op: 0, N: 1000, P: F64(p), Ks: endKs(1000)})
			if thorough || j%2 == 0 {
				emit(c06Case{Op: 0, N: 600, P: F64(p), Ks: endKs(600)})
			}
		}
	}
	// (b4) ONE-PROCESS HISTORIES (seeded C06-7 class: a package-level cache of a per-distribution term
	// under a lossy key, e.g. Lchoose(N,Draws) keyed N<<9|Draws, is wrong only for a distribution evaluated
	// AFTER a colliding one in the same process). Every case of a group evaluates the other members of its
	// group first (Pre), inside the same Run, so the replay of the single case reproduces the history. The
	// members: pairs whose (N,Draws) collide under N<<b|Draws and N*2^b+Draws for b = 5..9 (Draws >= 2^b:
	// Draws' = Draws mod 2^b, N' = N | Draws>>b resp. N + Draws>>b), the mirrored draws N-Draws the CDF's
	// flipped branch asks for, equal N with other Draws, equal (N,Draws) with other K; binomials sharing N.
	group := func(ds []c06Dist, cnt int) {
		for i, m := range ds {
			var pre []c06Dist
			pre = append(pre, ds[i+1:]...)
			pre = append(pre, ds[:i]...)
			lo, hi := c06Support(m)
			var mean, sd float64
			if m.Op == 0 {
				mean = float64(m.N) * float64(m.P)
				sd = math.Sqrt(mean * (1 - float64(m.P)))
			} else {
				mean = float64(m.D) * float64(m.K) / float64(m.N)
				sd = math.Sqrt(mean * float64(m.N-m.K) / float64(m.N))
			}
			emit(c06Case{Op: m.Op, N: m.N, P: m.P, K: m.K, D: m.D, Pre: pre, Ks: c06SampleKs(rng, lo, hi, mean, sd, cnt)})
		}
	}
	group([]c06Dist{{Op: 1, N: 999, K: 30, D: 88}, {Op: 1, N: 999, K: 5, D: 600}, {Op: 1, N: 999, K: 300, D: 600},
		{Op: 1, N: 999, K: 300, D: 88}, {Op: 1, N: 999, K: 30, D: 399}, {Op: 1, N: 1000, K: 300, D: 911}, {Op: 1, N: 998, K: 7, D: 600}}, 6)
	for b := 5; b <= 9; b++ {
		reps := 1
		if thorough {
			reps = 6
		}
		for r := 0; r < reps; r++ {
			n0 := 2 * (300 + rng.Intn(190)) // even, 600..978
			d0 := 512 + rng.Intn(n0-511)
			if b < 9 {
				d0 = (1+rng.Intn((n0>>uint(b))-1))<<uint(b) + rng.Intn(1<<uint(b))
			}
			m, r0 := d0>>uint(b), d0&(1<<uint(b)-1)
			k1, k2, k3 := 1+rng.Intn(n0-1), 1+rng.Intn(40), n0/2
			ds := []c06Dist{{Op: 1, N: n0, K: k1, D: d0}}
			if n0|m != n0 && n0|m <= 1000 {
				ds = append(ds, c06Dist{Op: 1, N: n0 | m, K: k2, D: r0}, c06Dist{Op: 1, N: n0 | m, K: k3, D: (n0 | m) - r0})
			}
			if n0+m <= 1000 {
				ds = append(ds, c06Dist{Op: 1, N: n0 + m, K: k2, D: r0})
			}
			ds = append(ds, c06Dist{Op: 1, N: n0, K: k2, D: n0 - d0}, c06Dist{Op: 1, N: n0, K: k3, D: d0})
			group(ds, 6)
		}
	}
	group([]c06Dist{{Op: 0, N: 300, P: 0.25}, {Op: 0, N: 300, P: 0.5}, {Op: 0, N: 300, P: 0.75}, {Op: 0, N: 300, P: 0.125},
		{Op: 0, N: 37, P: 0.5}, {Op: 0, N: 37, P: F64(1.0 / 1024)}, {Op: 0, N: 37, P: 1}, {Op: 0, N: 37, P: 0}}, 6)
	// (b5) large Draws in general: Draws in 512..N, N up to 1000 (the random cases below draw Draws
	// uniformly, but only 28 (600) of them)
	nd := 12
	if thorough {
		nd = 150
	}
	for i := 0; i < nd; i++ {
		n := 512 + rng.Intn(489)
		d := 512 + rng.Intn(n-511)
		k := rng.Intn(n + 1)
		if i%3 == 0 {
			k = rng.Intn(20)
		}
		m := c06Dist{Op: 1, N: n, K: k, D: d}
		lo, hi := c06Support(m)
		mean := float64(d) * float64(k) / float64(n)
		emit(c06Case{Op: 1, N: n, K: k, D: d, Ks: c06SampleKs(rng, lo, hi, mean, math.Sqrt(mean*float64(n-k)/float64(n)), 20)})
	}
	// (c) random larger N up to 1000
	nb, nh := 24, 28
	if thorough {
		nb, nh = 300, 600
	}
	logN := func(lo, hi int) int {
		return int(math.Round(math.Exp(math.Log(float64(lo)) + rng.Float64()*(math.Log(float64(hi))-math.Log(float64(lo))))))
	}
	for i := 0; i < nb; i++ {
		n := logN(61, 1000)
		if i == 0 {
			n = 1000
		}
		var p float64
		switch rng.Intn(4) {
		case 0:
			p = 0.5
		case 1:
			p = float64(rng.Intn(9)) / 8
		case 2:
			p = float64(rng.Intn(17)) / 16
		default:
			p = float64(rng.Intn(65)) / 64
		}
		mean := float64(n) * p
		sd := math.Sqrt(mean * (1 - p))
		emit(c06Case{Op: 0, N: n, P: F64(p), Ks: c06SampleKs(rng, 0, n, mean, sd, 40)})
	}
	for i := 0; i < nh; i++ {
		n := logN(41, 1000)
		if i == 0 {
			n = 1000
		}
		k := rng.Intn(n + 1)
		d := rng.Intn(n + 1)
		switch rng.Intn(6) {
		case 0:
			k = rng.Intn(4)
		case 1:
			d = n - rng.Intn(4)
		case 2:
			k = n / 2
			d = n / 2
		}
		lo := d + k - n
		if lo < 0 {
			lo = 0
		}
		hi := d
		if k < hi {
			hi = k
		}
		mean := float64(d) * float64(k) / float64(n)
		sd := math.Sqrt(mean * float64(n-k) / float64(n))
		emit(c06Case{Op: 1, N: n, K: k, D: d, Ks: c06SampleKs(rng, lo, hi, mean, sd, 40)})
	}
}

func init() { register(&Prop{ID: "C06", Num: 6, Gen: c06Gen, Run: c06Run}) }

package main

import (
	"encoding/json"
	"fmt"
	"math"
	"math/rand"

	"github.com/aclements/go-moremath/stats"
)

// C06: one case = one distribution (binomial: N,P; hypergeometric: N,K,D) and a grid of k.
// Ks empty: the full grid, every integer from two below to two above the support, each also
// as k+0.5, plus the floats just below the lower end and just below (top+1).
type c06Case struct {
	Op   int   `json:"op"` // 0 binomial, 1 hypergeometric
	N    int   `json:"n"`
	P    F64   `json:"p,omitempty"`
	K    int   `json:"k,omitempty"`
	D    int   `json:"d,omitempty"`
	Ks   []F64 `json:"ks,omitempty"`
	Ints bool  `json:"ints,omitempty"` // full grid without the half-integers
}

// k values every grid carries in addition (audit round 2b): -0.0 (an integer: floor(-0) = 0, not "negative"),
// and the floats next to an interior integer on either side (floor must not be a rounding or a fudge).
// c06HugeKs: |k| far beyond the support, up to where the float64 -> int conversion stops being defined (2^63)
// and beyond (D22: both CDFs returned 0 there).
func c06NearKs(mid int) []float64 {
	return []float64{math.Copysign(0, -1), math.Nextafter(float64(mid), math.Inf(-1)), math.Nextafter(float64(mid), math.Inf(1))}
}

var c06HugeKs = []float64{math.Ldexp(1, 62), math.Ldexp(1, 63), 1e19, 1e300, -1e19}

func c06Grid(lo, hi int, intsOnly bool) []float64 {
	// the near-integer values are placed next to grid values with the same floor, so that the comparator's
	// "same floor, same observed bits as the item just compared" shortcut applies when the library is right
	mid := (lo + hi + 1) / 2
	var ks []float64
	for k := lo - 2; k <= hi+2; k++ {
		ks = append(ks, float64(k))
		if !intsOnly {
			ks = append(ks, float64(k)+0.5)
		}
		if k == 0 {
			ks = append(ks, math.Copysign(0, -1))
		}
		if k == mid-1 {
			ks = append(ks, math.Nextafter(float64(mid), math.Inf(-1)))
		}
		if k == mid {
			ks = append(ks, math.Nextafter(float64(mid), math.Inf(1)))
		}
	}
	if lo > 2 {
		ks = append(ks, math.Copysign(0, -1))
	}
	ks = append(ks, math.Nextafter(float64(lo), math.Inf(-1)), math.Nextafter(float64(hi+1), math.Inf(-1)))
	ks = append(ks, c06HugeKs...)
	if intsOnly {
		ks = append(ks, float64(lo)+0.5, float64(hi)-0.25)
	}
	return ks
}

func c06Run(raw []byte) (*Line, error) {
	var c c06Case
	if err := json.Unmarshal(raw, &c); err != nil {
		return nil, err
	}
	if c.N < 0 || c.N > 5000 {
		return nil, fmt.Errorf("bad N")
	}
	for _, k := range c.Ks {
		// finite k of any size (D22: CDF(k >= 2^63) was 0); NaN and +-Inf are outside the comparator
		if math.IsNaN(float64(k)) || math.IsInf(float64(k), 0) {
			return nil, fmt.Errorf("bad k")
		}
	}
	l := &Line{}
	switch c.Op {
	case 0:
		p := float64(c.P)
		if !(p >= 0 && p <= 1) {
			return nil, fmt.Errorf("bad P")
		}
		d := stats.BinomialDist{N: c.N, P: p}
		ks := fromF64s(c.Ks)
		if len(ks) == 0 {
			ks = c06Grid(0, c.N, c.Ints)
		}
		var mean, vr, lo, hi, step float64
		var na stats.NormalDist
		pm := make([]float64, len(ks))
		cd := make([]float64, len(ks))
		pan, _ := catch(func() {
			mean, vr, step = d.Mean(), d.Variance(), d.Step()
			lo, hi = d.Bounds()
			na = d.NormalApprox()
			for i, k := range ks {
				pm[i] = d.PMF(k)
				cd[i] = d.CDF(k)
			}
		})
		l.I(6).I(0)
		if pan {
			l.I(2)
			ks = nil
		} else {
			l.I(0)
		}
		l.I(c.N).F(p).F(mean).F(vr).F(na.Mu).F(na.Sigma).F(lo).F(hi).F(step).I(len(ks))
		for i, k := range ks {
			l.F(k).F(pm[i]).F(cd[i])
		}
	case 1:
		if c.N < 2 || c.K < 0 || c.K > c.N || c.D < 0 || c.D > c.N {
			return nil, fmt.Errorf("bad hypergeometric parameters")
		}
		d := stats.HypergeometicDist{N: c.N, K: c.K, Draws: c.D}
		ks := fromF64s(c.Ks)
		if len(ks) == 0 {
			lo := c.D + c.K - c.N
			if lo < 0 {
				lo = 0
			}
			hi := c.D
			if c.K < hi {
				hi = c.K
			}
			ks = c06Grid(lo, hi, c.Ints)
		}
		var mean, vr, lo, hi, step float64
		pm := make([]float64, len(ks))
		cd := make([]float64, len(ks))
		pan, _ := catch(func() {
			mean, vr, step = d.Mean(), d.Variance(), d.Step()
			lo, hi = d.Bounds()
			for i, k := range ks {
				pm[i] = d.PMF(k)
				cd[i] = d.CDF(k)
			}
		})
		l.I(6).I(1)
		if pan {
			l.I(2)
			ks = nil
		} else {
			l.I(0)
		}
		l.I(c.N).I(c.K).I(c.D).F(mean).F(vr).F(lo).F(hi).F(step).I(len(ks))
		for i, k := range ks {
			l.F(k).F(pm[i]).F(cd[i])
		}
	default:
		return nil, fmt.Errorf("bad op")
	}
	return l, nil
}

// a sample of k for a large support: ends, the neighbourhood of the mean, random interior points
func c06SampleKs(rng *rand.Rand, lo, hi int, mean, sd float64, cnt int) []F64 {
	var ks []float64
	for _, k := range []int{lo - 2, lo - 1, lo, lo + 1, hi - 1, hi, hi + 1, hi + 2} {
		ks = append(ks, float64(k))
	}
	ks = append(ks, float64(lo)-0.5, float64(hi)+0.5, math.Nextafter(float64(lo), math.Inf(-1)), math.Nextafter(float64(hi+1), math.Inf(-1)))
	m := int(math.Floor(mean))
	for _, dk := range []int{-1, 0, 1, 2} {
		ks = append(ks, float64(m+dk))
	}
	ks = append(ks, c06NearKs(m)...)
	ks = append(ks, c06HugeKs...)
	for i := 0; i < cnt; i++ {
		var k int
		switch rng.Intn(3) {
		case 0:
			k = lo + rng.Intn(hi-lo+1)
		default:
			k = m + int(math.Round(rng.NormFloat64()*(sd+1)*1.5))
		}
		x := float64(k)
		if rng.Intn(4) == 0 {
			x += rng.Float64()
		}
		ks = append(ks, x)
	}
	return toF64s(ks)
}

func c06Gen(tier string, rng *rand.Rand, emit func(interface{})) {
	thorough := tier == "thorough"
	// (a) exhaustive hypergeometric
	maxN := 40
	if thorough {
		maxN = 80
	}
	for n := 2; n <= maxN; n++ {
		for k := 0; k <= n; k++ {
			for d := 0; d <= n; d++ {
				emit(c06Case{Op: 1, N: n, K: k, D: d, Ints: n > 40})
			}
		}
	}
	// (b) binomial N <= 60 on a grid of 101 P (the centesimal grid rounded to 10 fractional bits, so
	// that the exact weights stay small), plus P within 1e-12 of 0 and 1
	var grid []float64
	for i := 0; i <= 100; i++ {
		grid = append(grid, math.Round(float64(i)/100*1024)/1024)
	}
	grid = append(grid, math.Ldexp(1, -40), 1-math.Ldexp(1, -40))
	wide := []float64{1e-12, 1 - 1e-12, math.Ldexp(1, -53), 1 - math.Ldexp(1, -53)} // exact weights of ~92 N bits: costly
	for n := 0; n <= 60; n++ {
		for _, p := range grid {
			emit(c06Case{Op: 0, N: n, P: F64(p)})
		}
		if thorough || n <= 16 || n%5 == 0 {
			for _, p := range wide {
				emit(c06Case{Op: 0, N: n, P: F64(p)})
			}
		}
	}
	// the decimal grid itself (53-bit P) for small N, and a few per larger N
	for n := 0; n <= 12; n++ {
		for i := 0; i <= 100; i++ {
			emit(c06Case{Op: 0, N: n, P: F64(float64(i) / 100)})
		}
	}
	per := 2
	if thorough {
		per = 12
	}
	for n := 13; n <= 60; n++ {
		for r := 0; r < per; r++ {
			p := float64(rng.Intn(101)) / 100
			if r%4 == 3 {
				p = rng.Float64()
			}
			emit(c06Case{Op: 0, N: n, P: F64(p)})
		}
	}
	// (b') a light sweep over EVERY N above the exhaustive range (61..300 quick, ..1000 thorough), so that
	// any size-dependent switch-over in Choose / BetaInc / the PMF is hit deterministically: two dyadic P
	// per N (1/2 and one of 1/4, 3/8, 3/4, 7/8), PMF and CDF at a handful of k around N/2, around the mode
	// and at the ends; likewise one hypergeometric (N, ~N/2, ~N/2) and one skewed one per N above 40 (80)
	sweepTop := 300
	if thorough {
		sweepTop = 1000
	}
	around := func(ks []float64, c int) []float64 {
		for d := -2; d <= 2; d++ {
			ks = append(ks, float64(c+d))
		}
		return append(ks, float64(c)+0.5)
	}
	others := []float64{0.25, 0.375, 0.75, 0.875}
	for n := 61; n <= sweepTop; n++ {
		for _, p := range []float64{0.5, others[n%4]} {
			mode := int(math.Floor(float64(n+1) * p))
			ks := []float64{-1, 0, 1, float64(n - 1), float64(n), float64(n + 1)}
			ks = around(around(ks, n/2), mode)
			ks = around(ks, n/3)
			ks = append(append(ks, c06NearKs(mode)...), c06HugeKs...)
			emit(c06Case{Op: 0, N: n, P: F64(p), Ks: toF64s(ks)})
		}
	}
	for n := maxN + 1; n <= sweepTop; n++ {
		for v := 0; v < 2; v++ {
			k, d := n/2, (n+1)/2
			if v == 1 {
				k, d = n/3+n%7, n-n/5
			}
			lo := d + k - n
			if lo < 0 {
				lo = 0
			}
			hi := d
			if k < hi {
				hi = k
			}
			mode := (d + 1) * (k + 1) / (n + 2)
			ks := []float64{float64(lo - 1), float64(lo), float64(lo + 1), float64(hi - 1), float64(hi), float64(hi + 1)}
			ks = around(around(ks, mode), (lo+hi)/2)
			ks = append(append(ks, c06NearKs(mode)...), c06HugeKs...)
			emit(c06Case{Op: 1, N: n, K: k, D: d, Ks: toF64s(ks)})
		}
	}
	// (b'') the top of the property's range, N = 1000, at its degenerate and extreme parameters
	for _, kd := range [][2]int{{0, 0}, {1000, 1000}, {0, 1000}, {1000, 0}, {500, 500}, {1, 999}, {999, 1}, {1, 1}, {999, 999}, {1000, 500}, {500, 1000}} {
		k, d := kd[0], kd[1]
		lo := d + k - 1000
		if lo < 0 {
			lo = 0
		}
		hi := d
		if k < hi {
			hi = k
		}
		mean := float64(d) * float64(k) / 1000
		emit(c06Case{Op: 1, N: 1000, K: k, D: d, Ks: c06SampleKs(rng, lo, hi, mean, math.Sqrt(mean*float64(1000-k)/1000), 12)})
	}
	for _, p := range []float64{0, 1, 0.5, 1.0 / 64, 63.0 / 64} {
		emit(c06Case{Op: 0, N: 1000, P: F64(p), Ks: c06SampleKs(rng, 0, 1000, 1000*p, math.Sqrt(1000*p*(1-p)), 12)})
	}
	// (c) random larger N up to 1000
	nb, nh := 24, 40
	if thorough {
		nb, nh = 300, 600
	}
	logN := func(lo, hi int) int {
		return int(math.Round(math.Exp(math.Log(float64(lo)) + rng.Float64()*(math.Log(float64(hi))-math.Log(float64(lo))))))
	}
	for i := 0; i < nb; i++ {
		n := logN(61, 1000)
		if i == 0 {
			n = 1000
		}
		var p float64
		switch rng.Intn(4) {
		case 0:
			p = 0.5
		case 1:
			p = float64(rng.Intn(9)) / 8
		case 2:
			p = float64(rng.Intn(17)) / 16
		default:
			p = float64(rng.Intn(65)) / 64
		}
		mean := float64(n) * p
		sd := math.Sqrt(mean * (1 - p))
		emit(c06Case{Op: 0, N: n, P: F64(p), Ks: c06SampleKs(rng, 0, n, mean, sd, 40)})
	}
	for i := 0; i < nh; i++ {
		n := logN(41, 1000)
		if i == 0 {
			n = 1000
		}
		k := rng.Intn(n + 1)
		d := rng.Intn(n + 1)
		switch rng.Intn(6) {
		case 0:
			k = rng.Intn(4)
		case 1:
			d = n - rng.Intn(4)
		case 2:
			k = n / 2
			d = n / 2
		}
		lo := d + k - n
		if lo < 0 {
			lo = 0
		}
		hi := d
		if k < hi {
			hi = k
		}
		mean := float64(d) * float64(k) / float64(n)
		sd := math.Sqrt(mean * float64(n-k) / float64(n))
		emit(c06Case{Op: 1, N: n, K: k, D: d, Ks: c06SampleKs(rng, lo, hi, mean, sd, 40)})
	}
}

func init() { register(&Prop{ID: "C06", Num: 6, Gen: c06Gen, Run: c06Run}) }

package main

import (
	"encoding/json"
	"fmt"
	"math"
	"math/rand"
	"sort"
	"time"

	"github.com/aclements/go-moremath/stats"
)

// C07: generic InvCDF and Rand.
//
//	op 0  stats.InvCDF of a harness-defined distribution (c07PW: piecewise cdf) at the levels Ys
//	op 1  stats.InvCDF(BinomialDist{N,P}) at Ys
//	op 2  stats.InvCDF(HypergeometicDist{N,K,D}) at Ys
//	op 11 stats.InvCDF(UDist{N1: N, N2: K, T: T}) at Ys, compared with the exact model of C02 (len(T) = 0: T nil)
//	op 3  dispatch: NormalDist{A,B} (kind 0) / DeltaDist{A} (kind 1): stats.InvCDF(d)(y) next to d.InvCDF(y),
//	      stats.Rand(d)(r) next to d.Rand(r') for equally seeded sources (Seeds)
//	op 4  stats.Rand of a c07PW with a scripted rand.Source (Src = the Int63 values it emits)
//	op 6  built-ins without a quantile method and without an exact model on this side: TDist{A} (kind 0),
//	      UDist{N,K,T} (kind 1), KDE{Sample: Xs, Bandwidth: B} (kind 2) — relational against their own CDF
//	op 5  supporting evidence: Kolmogorov-Smirnov distance of N draws of stats.Rand(c07PW) from
//	      rand.New(rand.NewSource(Seeds[0])) to the distribution's own CDF
//	op 8  the same N seeded draws, sorted, handed over: the Kolmogorov-Smirnov distance to the exact cdf is
//	      computed by the Coq comparator
//	op 10 Kolmogorov-Smirnov distance of N seeded draws of stats.Rand of a relational-kind distribution (every
//	      built-in, the harness distributions) to that distribution's OWN cdf, computed by the comparator from
//	      the sorted draws and the cdf values the harness reports next to them — whatever generator
//	      stats.Rand returns (a distribution's own Rand method or the generic one)
//	op 7  stats.Rand of a relational-kind distribution (harness/c07_dists.go) with a scripted rand.Source
//
// ops 0 and 4 with Step != 0: the SAME piecewise cdf (pure jumps on the lattice X0 + i*Step) behind a
// value that implements the whole stats.DiscreteDist interface (PMF, Step) and still has no InvCDF /
// Rand method; Bounds may cut a tail or be wider than the support.
type c07Knot struct {
	X F64 `json:"x"` // break point
	L F64 `json:"l"` // left limit of the cdf at X
	V F64 `json:"v"` // value of the cdf at X (jump iff L < V)
}
type c07Case struct {
	Op    int       `json:"op"`
	Knots []c07Knot `json:"knots,omitempty"`
	Bl    F64       `json:"bl,omitempty"`
	Bh    F64       `json:"bh,omitempty"`
	Ys    []F64     `json:"ys,omitempty"`
	N     int       `json:"n,omitempty"`
	P     F64       `json:"p,omitempty"`
	K     int       `json:"k,omitempty"`
	D     int       `json:"d,omitempty"`
	Kind  int       `json:"kind,omitempty"`
	A     F64       `json:"a,omitempty"`
	B     F64       `json:"b,omitempty"`
	Seeds []int64   `json:"seeds,omitempty"`
	Src   []int64   `json:"src,omitempty"`
	T     []int     `json:"t,omitempty"`
	Xs    []F64     `json:"xs,omitempty"`
	Step  F64       `json:"step,omitempty"`
	Draws int       `json:"draws,omitempty"`
}

// c07PW implements stats.DistCommon (CDF, Bounds) and nothing else: no InvCDF, no Rand method.
// The cdf is 0 left of the first knot, linear between knots (from V of the left knot to L of the
// right knot), jumps from L to V at a knot, and is the last V (= 1) from the last knot on.
// Break points and levels are dyadic rationals, so every branch except a ramp's interior is
// evaluated exactly in float64; a ramp costs at most three roundings and is clamped to its ends.
type c07PW struct {
	xs, ls, vs []float64
	bl, bh     float64
}

func (d *c07PW) CDF(x float64) float64 {
	n := len(d.xs)
	if x < d.xs[0] {
		return 0
	}
	i := sort.Search(n, func(j int) bool { return d.xs[j] > x }) - 1 // last knot with xs[i] <= x
	if i < 0 {
		return 0 // x is NaN
	}
	if i == n-1 {
		return d.vs[i]
	}
	lo, hi := d.vs[i], d.ls[i+1]
	if hi == lo {
		return lo
	}
	// the ratio is in [0,1] whatever the magnitude of the break points (2^-1000 .. 2^1022): nothing
	// overflows or becomes subnormal; every operation is monotone in x
	v := lo + ((x-d.xs[i])/(d.xs[i+1]-d.xs[i]))*(hi-lo)
	if v > hi {
		v = hi
	}
	if v < lo {
		v = lo
	}
	return v
}
func (d *c07PW) Bounds() (float64, float64) { return d.bl, d.bh }

// break points: 0 or 2^-1002 <= |x| <= MaxFloat64 (quarter steps of the smallest scale are still normal
// numbers); the difference of two neighbouring break points must not overflow
var c07MaxX, c07MinX = math.MaxFloat64, math.Ldexp(1, -1002)

// c07DiscPW: a pure-jump c07PW as a stats.DiscreteDist (PMF, Step); no InvCDF, no Rand
type c07DiscPW struct {
	*c07PW
	step float64
}

func (d c07DiscPW) Step() float64 { return d.step }
func (d c07DiscPW) PMF(x float64) float64 {
	// "x rounded down to the nearest defined point"
	k := math.Floor((x - d.xs[0]) / d.step)
	x = d.xs[0] + k*d.step
	for i, xi := range d.xs {
		if xi == x {
			if i == 0 {
				return d.vs[0]
			}
			return d.vs[i] - d.vs[i-1]
		}
	}
	return 0
}

// the distribution of ops 0, 4: the plain DistCommon, or the DiscreteDist when Step != 0
func c07MakeDist(c *c07Case) (stats.DistCommon, *c07PW, error) {
	d, err := c07MakePW(c)
	if err != nil {
		return nil, nil, err
	}
	st := float64(c.Step)
	if st == 0 {
		return d, d, nil
	}
	if !(st > 0) || math.IsInf(st, 0) {
		return nil, nil, fmt.Errorf("bad step")
	}
	for i := range d.xs {
		k := (d.xs[i] - d.xs[0]) / st
		if k != math.Floor(k) || k > 1e6 || math.Abs(d.xs[i]) > 1e15 || d.xs[0]+k*st != d.xs[i] {
			return nil, nil, fmt.Errorf("break points must be on the lattice x0 + i*step")
		}
		if i > 0 && d.ls[i] != d.vs[i-1] {
			return nil, nil, fmt.Errorf("a discrete distribution has no ramps")
		}
	}
	return c07DiscPW{d, st}, d, nil
}

func c07MakePW(c *c07Case) (*c07PW, error) {
	n := len(c.Knots)
	if n < 1 || n > 64 {
		return nil, fmt.Errorf("bad knot count")
	}
	d := &c07PW{bl: float64(c.Bl), bh: float64(c.Bh)}
	if math.IsNaN(d.bl) || math.IsInf(d.bl, 0) || math.IsNaN(d.bh) || math.IsInf(d.bh, 0) {
		return nil, fmt.Errorf("bad bounds")
	}
	prevX, prevV := math.Inf(-1), 0.0
	for i, k := range c.Knots {
		x, l, v := float64(k.X), float64(k.L), float64(k.V)
		if math.IsNaN(x) || math.Abs(x) > c07MaxX || (x != 0 && math.Abs(x) < c07MinX) || !(x > prevX) {
			return nil, fmt.Errorf("break points must be finite and increasing")
		}
		if i > 0 && math.IsInf(x-prevX, 0) {
			return nil, fmt.Errorf("break points too far apart")
		}
		if !(l >= prevV && v >= l && v <= 1) || (i == 0 && l != 0) {
			return nil, fmt.Errorf("levels must be non-decreasing from 0 to 1")
		}
		d.xs, d.ls, d.vs = append(d.xs, x), append(d.ls, l), append(d.vs, v)
		prevX, prevV = x, v
	}
	if prevV != 1 {
		// a cdf that never reaches y would send the bracket expansion to +Inf: not generated
		return nil, fmt.Errorf("cdf must reach 1")
	}
	return d, nil
}

func (l *Line) c07PW(d *c07PW) {
	l.I(len(d.xs))
	for i := range d.xs {
		l.F(d.xs[i]).F(d.ls[i]).F(d.vs[i])
	}
	l.F(d.bl).F(d.bh)
}

// stats.InvCDF(dist) — the constructor itself under recover: if it panics every call of the result does
// (status 2 in the line), so that a library change shows up as a verdict, not as a harness failure
func c07SafeInv(dist stats.DistCommon) func(float64) float64 {
	var f func(float64) float64
	if pan, _ := catch(func() { f = stats.InvCDF(dist) }); pan || f == nil {
		return func(float64) float64 { panic("stats.InvCDF panicked") }
	}
	return f
}

// a cdf used by a GENERATOR to place levels: NaN instead of a panic
func c07SafeCDF(f func(float64) float64) func(float64) float64 {
	return func(x float64) (y float64) {
		if pan, _ := catch(func() { y = f(x) }); pan {
			return math.NaN()
		}
		return y
	}
}

// one call of the closure under recover: status 0 returned, 2 panicked
func c07Call(f func(float64) float64, y float64) (st int, x float64) {
	pan, _ := catch(func() { x = f(y) })
	if pan {
		return 2, 0
	}
	return 0, x
}

func c07Items(l *Line, inv func(float64) float64, ys []F64) {
	l.I(len(ys))
	for _, y := range ys {
		st, x := c07Call(inv, float64(y))
		l.F(float64(y)).I(st).F(x)
	}
}

// scripted rand.Source
type c07Src struct {
	vals []int64
	pos  int
}

func (s *c07Src) Int63() int64 {
	if s.pos >= len(s.vals) {
		panic("c07: scripted source exhausted")
	}
	v := s.vals[s.pos]
	s.pos++
	return v
}
func (s *c07Src) Seed(int64) {}

func c07Run(raw []byte) (*Line, error) {
	var c c07Case
	if err := json.Unmarshal(raw, &c); err != nil {
		return nil, err
	}
	if len(c.Ys) > 4096 {
		return nil, fmt.Errorf("too many ys")
	}
	l := &Line{}
	l.I(7)
	// op 3 (dispatch of NormalDist / DeltaDist) goes through the relational machinery (kinds 5, 6): whether a
	// distribution HAS an InvCDF / Rand method is observed at run time, never assumed at compile time — a
	// library change (a method added or removed) must change verdicts, not break the harness
	if c.Op == 3 {
		if c.Kind != 0 && c.Kind != 1 {
			return nil, fmt.Errorf("bad kind")
		}
		c.Op, c.Kind = 6, 5+c.Kind
	}
	if c.Op != 7 {
		l.I(c.Op) // op 7 writes its own token: 7 (generic generator) or 9 (the distribution has its own Rand)
	}
	switch c.Op {
	case 0:
		dist, d, err := c07MakeDist(&c)
		if err != nil {
			return nil, err
		}
		l.c07PW(d)
		c07Items(l, c07SafeInv(dist), c.Ys)
	case 1:
		p := float64(c.P)
		if c.N < 0 || c.N > 200 || !(p >= 0 && p <= 1) {
			return nil, fmt.Errorf("bad binomial parameters")
		}
		l.I(c.N).F(p)
		c07Items(l, c07SafeInv(stats.BinomialDist{N: c.N, P: p}), c.Ys)
	case 2:
		if c.N < 2 || c.N > 200 || c.K < 0 || c.K > c.N || c.D < 0 || c.D > c.N {
			return nil, fmt.Errorf("bad hypergeometric parameters")
		}
		l.I(c.N).I(c.K).I(c.D)
		c07Items(l, c07SafeInv(stats.HypergeometicDist{N: c.N, K: c.K, Draws: c.D}), c.Ys)
	case 11:
		if err := c07CheckUDist(&c); err != nil {
			return nil, err
		}
		var t []int
		if len(c.T) > 0 {
			t = append([]int(nil), c.T...) // the distribution gets its own copy
		}
		l.I(c.N).I(c.K).I(len(t))
		for _, v := range t {
			l.I(v)
		}
		c07Items(l, c07SafeInv(stats.UDist{N1: c.N, N2: c.K, T: t}), c.Ys)
	case 4:
		dist, d, err := c07MakeDist(&c)
		if err != nil {
			return nil, err
		}
		if len(c.Src) < 1 || len(c.Src) > 4096 {
			return nil, fmt.Errorf("bad source")
		}
		nonzero := false
		for _, v := range c.Src {
			if v < 0 || v&1023 != 0 {
				return nil, fmt.Errorf("source values must be non-negative multiples of 1024")
			}
			if v != 0 {
				nonzero = true
			}
		}
		if !nonzero {
			return nil, fmt.Errorf("an all-zero source makes Rand loop for ever (by design)")
		}
		l.c07PW(d)
		l.I(len(c.Src))
		for _, v := range c.Src {
			l.Int(v)
		}
		src := &c07Src{vals: append([]int64(nil), c.Src...)}
		var draw float64
		pan, _ := catch(func() { draw = stats.Rand(dist)(rand.New(src)) })
		st := 0
		if pan {
			st = 2
		}
		y := 0.0
		if src.pos >= 1 {
			y = float64(c.Src[src.pos-1]) / (1 << 63)
		}
		ist, inv := c07Call(c07SafeInv(dist), y) // a separate closure, a separate call
		l.I(st).I(src.pos).F(y).F(draw).I(ist).F(inv)
	case 6:
		if err := c07RunRel(l, &c); err != nil {
			return nil, err
		}
	case 7:
		if err := c07RunRandRel(l, &c); err != nil {
			return nil, err
		}
	case 10:
		if err := c07RunKSRel(l, &c); err != nil {
			return nil, err
		}
	case 8:
		dist, d, err := c07MakeDist(&c)
		if err != nil {
			return nil, err
		}
		if c.N < 1 || c.N > 1<<17 || len(c.Seeds) != 1 {
			return nil, fmt.Errorf("bad draw count / seed")
		}
		l.c07PW(d)
		xs := make([]float64, c.N)
		pan, _ := catch(func() {
			r := rand.New(rand.NewSource(c.Seeds[0]))
			gen := stats.Rand(dist)
			for i := range xs {
				xs[i] = gen(r)
			}
		})
		st := 0
		if pan {
			st = 2
		}
		sort.Float64s(xs) // NaNs first: the line then does not parse as a list of finite numbers = mismatch
		l.I(st).Fs(xs)
	case 5:
		d, err := c07MakePW(&c)
		if err != nil {
			return nil, err
		}
		if c.N < 1 || c.N > 2000000 || len(c.Seeds) != 1 {
			return nil, fmt.Errorf("bad draw count / seed")
		}
		l.c07PW(d)
		var ks float64
		pan, _ := catch(func() {
			r := rand.New(rand.NewSource(c.Seeds[0]))
			gen := stats.Rand(d)
			xs := make([]float64, c.N)
			for i := range xs {
				xs[i] = gen(r)
			}
			sort.Float64s(xs)
			n := float64(c.N)
			scale := math.Max(math.Abs(d.xs[0]), math.Abs(d.xs[len(d.xs)-1]))
			for i := 0; i < len(xs); {
				j := i
				for j < len(xs) && xs[j] == xs[i] {
					j++
				}
				// i draws are < xs[i], j draws are <= xs[i].  A draw may sit up to the property's
				// tolerance away from the exact quantile (at an atom that alone would make the plain
				// KS distance 1), so the empirical cdf is compared with the cdf shifted by that
				// tolerance to either side; this statistic is <= the KS distance of exact draws.
				v := xs[i]
				tol := 1e-9*math.Abs(v) + 1e-9*scale + 2e-16
				ks = math.Max(ks, float64(j)/n-d.CDF(v+tol))
				ks = math.Max(ks, d.CDF(math.Nextafter(v-tol, math.Inf(-1)))-float64(i)/n)
				i = j
			}
			if math.IsNaN(xs[0]) || math.IsNaN(xs[len(xs)-1]) {
				ks = math.NaN()
			}
		})
		st := 0
		if pan {
			st = 2
		}
		l.I(c.N).I(st).F(ks)
	default:
		return nil, fmt.Errorf("bad op")
	}
	return l, nil
}

// ---------- generators ----------

var c07OddYs = []float64{math.Copysign(0, -1), -0.5, 1.5, math.Ldexp(1, -60), 1 - math.Ldexp(1, -53), math.NaN(),
	math.Inf(1), math.Inf(-1), -1e-300, 1 + math.Ldexp(1, -52), 2, -1, math.Ldexp(1, -1074), 0.5, 0.25, 0.75}

func c07GenPW(rng *rand.Rand) (knots []c07Knot, step float64) {
	// centre
	var c float64
	switch rng.Intn(10) {
	case 0, 1, 2:
		c = 0
	case 3, 4:
		c = float64(rng.Intn(33) - 16)
	case 5, 6:
		c = math.Ldexp(float64(rng.Intn(2047)-1023), rng.Intn(11)) // up to ~1e6
	case 7:
		c = float64(rng.Intn(2001)-1000) + 1e6*float64(2*rng.Intn(2)-1)
	case 8:
		c = float64(rng.Intn(1<<16)-(1<<15)) / 1024
	default:
		c = 1e6 * float64(2*rng.Intn(2)-1)
	}
	// step scale 2^e: narrow and wide; mostly comparable to |c|.  At c = 0 any scale down to 2^-1000
	e := rng.Intn(37) - 20 // -20..16
	if c == 0 && rng.Intn(5) == 0 {
		e = -20 - rng.Intn(980)
	}
	if c != 0 && rng.Intn(10) < 6 {
		_, ce := math.Frexp(math.Abs(c))
		e = ce - 1 - rng.Intn(8)
		if e < -20 {
			e = -20
		}
		if e > 16 {
			e = 16
		}
	}
	step = math.Ldexp(1, e)
	n := 1 + rng.Intn(6)
	if rng.Intn(12) == 0 {
		n = 7 + rng.Intn(6)
	}
	// offsets in quarter steps, around the centre
	offs := make([]int, n)
	o := -rng.Intn(4*n + 1)
	for i := range offs {
		offs[i] = o
		o += []int{1, 2, 3, 4, 4, 6, 8, 12, 20}[rng.Intn(9)]
	}
	// levels: 0 = L0 <= V0 <= L1 <= ... <= V(n-1) = 1 on a dyadic grid
	m := []int{2, 3, 4, 6, 8, 10, 10, 16}[rng.Intn(8)]
	den := 1 << uint(m)
	vals := make([]int, 2*n-2)
	for i := range vals {
		vals[i] = rng.Intn(den + 1)
	}
	sort.Ints(vals)
	lv := append([]int{0}, vals...)
	lv = append(lv, den) // L0 V0 L1 V1 ... L(n-1) V(n-1)
	shape := rng.Intn(6)
	for i := 0; i < n; i++ {
		switch {
		case shape == 0: // purely discrete: flat between the jumps
			if i > 0 {
				lv[2*i] = lv[2*i-1]
			}
		case shape == 1 && n >= 2: // purely continuous: no jump anywhere
			if i == 0 {
				lv[1] = 0
			} else if i == n-1 {
				lv[2*i] = den
			} else {
				lv[2*i+1] = lv[2*i]
			}
		default:
			switch rng.Intn(4) {
			case 0:
				if i > 0 {
					lv[2*i] = lv[2*i-1] // flat stretch before this knot
				}
			case 1:
				if i < n-1 {
					lv[2*i+1] = lv[2*i] // no jump here
				}
			}
		}
	}
	// repair monotonicity after the edits
	for i := 1; i < len(lv); i++ {
		if lv[i] < lv[i-1] {
			lv[i] = lv[i-1]
		}
	}
	lv[len(lv)-1] = den
	if shape == 1 && n >= 2 {
		lv[len(lv)-2] = den
	}
	for i := 0; i < n; i++ {
		knots = append(knots, c07Knot{
			X: F64(c + step*float64(offs[i])/4),
			L: F64(float64(lv[2*i]) / float64(den)),
			V: F64(float64(lv[2*i+1]) / float64(den)),
		})
	}
	// a minority with full-mantissa break points and levels (the float64 evaluation of a ramp is
	// then rounded; jumps and flats are still exact because only comparisons are involved)
	if rng.Intn(10) == 0 && (c != 0 || n > 1) {
		prev := 0.0
		for i := range knots {
			knots[i].X = F64(float64(knots[i].X) + step*rng.Float64()/8)
			l := float64(knots[i].L) + (rng.Float64()-0.5)/4096
			v := float64(knots[i].V) + (rng.Float64()-0.5)/4096
			if i == 0 {
				l = 0
			}
			l = math.Min(1, math.Max(prev, l))
			v = math.Min(1, math.Max(l, v))
			if i == n-1 {
				v = 1
			}
			knots[i].L, knots[i].V = F64(l), F64(v)
			prev = v
		}
	}
	return
}

func c07NearZero(knots []c07Knot) bool {
	for _, k := range knots {
		if math.Abs(float64(k.X)) < math.Ldexp(1, -60) {
			return true
		}
	}
	return false
}

func c07GenBounds(rng *rand.Rand, knots []c07Knot, step float64) (bl, bh float64) {
	x0, xn := float64(knots[0].X), float64(knots[len(knots)-1].X)
	switch rng.Intn(6) {
	case 0:
		bl = x0 - step
	case 1:
		bl = x0 + step/8 // inside (or past) the support: CDF there is 0 only if the cdf starts flat
	case 2:
		bl = x0 - 1e6
	case 3:
		bl = (x0 + xn) / 2
	default:
		bl = x0
	}
	switch rng.Intn(6) {
	case 0:
		bh = xn + step
	case 1:
		bh = xn - step/8
	case 2:
		bh = xn + 1e6
	case 3:
		bh = (x0 + xn) / 2
	default:
		bh = xn
	}
	return
}

func c07GenYs(rng *rand.Rand, knots []c07Knot) []F64 {
	ys := []float64{0, 1}
	add := func(y float64) {
		ys = append(ys, y)
	}
	for i, k := range knots {
		l, v := float64(k.L), float64(k.V)
		add(v) // exact level at the knot (top of the jump, or the ramp's end)
		if l > 0 {
			add(l) // exact left limit (a flat stretch's level when the previous V equals it)
		}
		if v > l {
			add((l + v) / 2) // inside the jump
			if rng.Intn(3) == 0 {
				add(math.Nextafter(l, 2)) // just above the bottom of the jump
			}
		}
		if i+1 < len(knots) {
			nl := float64(knots[i+1].L)
			if nl > v {
				add(v + (nl-v)*float64(1+rng.Intn(7))/8) // inside the ramp
				if rng.Intn(3) == 0 {
					add(v + (nl-v)*rng.Float64())
				}
			}
		}
	}
	if len(ys) > 14 {
		rng.Shuffle(len(ys)-2, func(i, j int) { ys[2+i], ys[2+j] = ys[2+j], ys[2+i] })
		ys = ys[:14]
	}
	add(float64(rng.Intn(1025)) / 1024)
	add(rng.Float64())
	add(c07OddYs[rng.Intn(len(c07OddYs))])
	add(c07OddYs[rng.Intn(len(c07OddYs))])
	return toF64s(ys)
}

func c07DiscYs(rng *rand.Rand, cdf func(float64) float64, lo, hi int) []F64 {
	cdf = c07SafeCDF(cdf)
	ys := []float64{0, 1}
	exact := rng.Intn(4) == 0
	for i := 0; i < 8; i++ {
		k := float64(lo + rng.Intn(hi-lo+1))
		c := cdf(k)
		prev := cdf(k - 1)
		kind := rng.Intn(5)
		if kind == 0 && !exact {
			kind = 1 + rng.Intn(4)
		}
		switch kind {
		case 0:
			ys = append(ys, c) // an exact cumulative level: borderline by construction
		case 1:
			ys = append(ys, c-1e-6, c+1e-6)
		case 2:
			ys = append(ys, (prev+c)/2)
		case 3:
			ys = append(ys, c*(1-1e-7))
		default:
			ys = append(ys, rng.Float64())
		}
	}
	ys = append(ys, float64(rng.Intn(1025))/1024, c07OddYs[rng.Intn(len(c07OddYs))], c07OddYs[rng.Intn(len(c07OddYs))])
	return toF64s(ys)
}

// op 11: the parameter range the comparator tabulates (Check/C07.v udist_params_ok): N1, N2 >= 1, N1+N2 <= 10,
// N1*N2 <= 25; T empty (nil: no ties) or >= 2 positive counts summing to N1+N2
func c07CheckUDist(c *c07Case) error {
	if c.N < 1 || c.K < 1 || c.N+c.K > 10 || c.N*c.K > 25 {
		return fmt.Errorf("bad sample sizes")
	}
	if len(c.T) == 0 {
		return nil
	}
	if len(c.T) < 2 {
		return fmt.Errorf("bad tie vector")
	}
	sum := 0
	for _, t := range c.T {
		if t < 1 {
			return fmt.Errorf("bad tie vector")
		}
		sum += t
	}
	if sum != c.N+c.K {
		return fmt.Errorf("bad tie vector")
	}
	return nil
}

// levels for UDist: 0, 1, and around the cumulative levels at random half-integer points u (exact levels —
// borderline by construction — in a quarter of the cases), mid points between two levels, random and odd values
func c07UDistYs(rng *rand.Rand, cdf func(float64) float64, nm int) []F64 {
	cdf = c07SafeCDF(cdf)
	ys := []float64{0, 1}
	exact := rng.Intn(4) == 0
	for i := 0; i < 6; i++ {
		u := float64(rng.Intn(2*nm+1)) / 2
		c, prev := cdf(u), 0.0
		for v := u - 0.5; v >= 0; v -= 0.5 { // the level below c (without ties the cdf is flat across the half-integers)
			if p := cdf(v); p < c {
				prev = p
				break
			}
		}
		kind := rng.Intn(5)
		if kind == 0 && !exact {
			kind = 1 + rng.Intn(4)
		}
		switch kind {
		case 0:
			ys = append(ys, c)
		case 1:
			ys = append(ys, c-1e-6, c+1e-6)
		case 2:
			ys = append(ys, (prev+c)/2)
		case 3:
			ys = append(ys, c*(1-1e-7))
		default:
			ys = append(ys, rng.Float64())
		}
	}
	ys = append(ys, float64(rng.Intn(1025))/1024, c07OddYs[rng.Intn(len(c07OddYs))])
	return toF64s(ys)
}

func c07Gen(tier string, rng *rand.Rand, emit func(interface{})) {
	mul := 1
	if tier == "thorough" {
		mul = 10
	}
	// fixed corner cases first: point masses, far locations, a flat exactly at the requested level
	for _, t := range []float64{0, 1, -1, 3, 1e6, -1e6, 1234567.125, -999999.5, math.Ldexp(1, -20), 0.3} {
		emit(c07Case{Op: 0, Knots: []c07Knot{{X: F64(t), L: 0, V: 1}}, Bl: F64(t), Bh: F64(t),
			Ys: toF64s([]float64{0, 1, 0.5, math.Ldexp(1, -53), 1 - math.Ldexp(1, -53), -1, 2, math.NaN()})})
		emit(c07Case{Op: 0, Knots: []c07Knot{{X: F64(t - 1), L: 0, V: 0}, {X: F64(t), L: 0.5, V: 0.5}, {X: F64(t + 2), L: 0.5, V: 0.5}, {X: F64(t + 3), L: 1, V: 1}},
			Bl: F64(t - 1), Bh: F64(t + 3), Ys: toF64s([]float64{0, 1, 0.5, 0.25, 0.75, math.Nextafter(0.5, 1), math.Nextafter(0.5, 0)})})
	}
	// deterministic sweeps (nothing here depends on the PRNG): every number of bracket doublings,
	// supports at / next to the bracket end points 2^k - 1 and the powers of two, both signs,
	// supports containing 0, every scale 2^-20 .. 2^20
	sweepYs := toF64s([]float64{0, 1, 0.5, 0.25, 0.75, math.Ldexp(1, -53), 1 - math.Ldexp(1, -53)})
	for k := 0; k <= 21; k++ {
		p2 := math.Ldexp(1, k)
		for _, sg := range []float64{1, -1} {
			for _, t := range []float64{p2 - 1, p2 - 1 + 1.0/1024, p2 - 1 - 1.0/1024, p2, p2 + 1} {
				t *= sg
				w := 1.0 / 16
				// point mass; ramp starting at t; ramp ending at t (with a jump of 1/4 at its start)
				emit(c07Case{Op: 0, Knots: []c07Knot{{X: F64(t), L: 0, V: 1}}, Bl: F64(t), Bh: F64(t), Ys: sweepYs})
				emit(c07Case{Op: 0, Knots: []c07Knot{{X: F64(t), L: 0, V: 0}, {X: F64(t + w), L: 1, V: 1}}, Bl: F64(t), Bh: F64(t + w), Ys: sweepYs})
				emit(c07Case{Op: 0, Knots: []c07Knot{{X: F64(t - w), L: 0, V: 0.25}, {X: F64(t), L: 0.75, V: 1}}, Bl: F64(t - w), Bh: F64(t), Ys: sweepYs})
				// continuous, CDF(t) == 1/2 exactly: the requested level is met exactly AT a bracket end point
				emit(c07Case{Op: 0, Knots: []c07Knot{{X: F64(t - w), L: 0, V: 0}, {X: F64(t), L: 0.5, V: 0.5}, {X: F64(t + w), L: 1, V: 1}}, Bl: F64(t - w), Bh: F64(t + w), Ys: sweepYs})
				// flat at 1/2 from t on: the answer is the left end t
				emit(c07Case{Op: 0, Knots: []c07Knot{{X: F64(t - w), L: 0, V: 0}, {X: F64(t), L: 0.5, V: 0.5}, {X: F64(t + 2), L: 0.5, V: 1}}, Bl: F64(t - w), Bh: F64(t + 2), Ys: sweepYs})
			}
		}
	}
	for e := -20; e <= 20; e++ {
		w := math.Ldexp(1, e)
		for _, sg := range []float64{1, -1} {
			// point mass at +-2^e; ramp between 0 and +-2^e; two jumps and a flat stretch across 0
			emit(c07Case{Op: 0, Knots: []c07Knot{{X: F64(sg * w), L: 0, V: 1}}, Bl: F64(sg * w), Bh: F64(sg * w), Ys: sweepYs})
			lo, hi := math.Min(0, sg*w), math.Max(0, sg*w)
			emit(c07Case{Op: 0, Knots: []c07Knot{{X: F64(lo), L: 0, V: 0}, {X: F64(hi), L: 1, V: 1}}, Bl: F64(lo), Bh: F64(hi), Ys: sweepYs})
		}
		emit(c07Case{Op: 0, Knots: []c07Knot{{X: F64(-w), L: 0, V: 0.5}, {X: F64(w), L: 0.5, V: 1}}, Bl: F64(-w), Bh: F64(w), Ys: sweepYs})
		emit(c07Case{Op: 0, Knots: []c07Knot{{X: F64(-w), L: 0, V: 0.25}, {X: F64(w / 2), L: 0.75, V: 0.75}, {X: F64(3 * w), L: 1, V: 1}}, Bl: F64(-w), Bh: F64(3 * w), Ys: sweepYs})
	}
	// every N: Binomial N = 1..80 with P = 1/2 and 1/4, Hypergeometric N = 2..60 (K = N/2, D = N/3 and
	// K = N-1, D = 2); levels 0, 1, 1/2 and a cumulative level -+ 1e-6 at the mode, the ends and N/4
	discSweepYs := func(cdf func(float64) float64, lo, hi int) []F64 {
		cdf = c07SafeCDF(cdf)
		ys := []float64{0, 1, 0.5}
		for _, k := range []int{lo, (lo + hi) / 2, lo + (hi-lo)/4, hi - 1} {
			if k >= lo && k < hi {
				c := cdf(float64(k))
				if c > 2e-6 && c < 1-2e-6 {
					ys = append(ys, c-1e-6, c+1e-6)
				}
			}
		}
		return toF64s(ys)
	}
	for n := 1; n <= 80; n++ {
		for _, p := range []float64{0.5, 0.25} {
			emit(c07Case{Op: 1, N: n, P: F64(p), Ys: discSweepYs(stats.BinomialDist{N: n, P: p}.CDF, 0, n)})
		}
	}
	for n := 2; n <= 60; n++ {
		for _, kd := range [][2]int{{n / 2, (n + 2) / 3}, {n - 1, 2}} {
			k, dr := kd[0], kd[1]
			if dr > n {
				dr = n
			}
			lo, hi := dr+k-n, dr
			if lo < 0 {
				lo = 0
			}
			if k < hi {
				hi = k
			}
			emit(c07Case{Op: 2, N: n, K: k, D: dr, Ys: discSweepYs(stats.HypergeometicDist{N: n, K: k, Draws: dr}.CDF, lo, hi)})
		}
	}
	// Rand: 0, 1, 2, 3 leading zeros x levels (inside a jump, on a ramp, smallest and largest value) x 3 distributions
	randPWs := [][]c07Knot{
		{{X: 3, L: 0, V: 1}},
		{{X: -2, L: 0, V: 0.25}, {X: 6, L: 0.75, V: 1}},
		{{X: 1000000, L: 0, V: 0}, {X: 1000000.5, L: 0.5, V: 0.5}, {X: 1000001, L: 0.5, V: 0.75}, {X: 1000002, L: 1, V: 1}},
	}
	for _, kn := range randPWs {
		for z := 0; z <= 3; z++ {
			for _, m := range []int64{1, 1 << 50, 1 << 52, 3 << 51, 1<<53 - 1, 5<<50 + 12345} {
				src := make([]int64, z, z+2)
				src = append(src, m<<10, 1<<62)
				emit(c07Case{Op: 4, Knots: kn, Bl: kn[0].X, Bh: kn[len(kn)-1].X, Src: src})
			}
		}
	}
	// distributions narrower than 1e-7 located at 0: an absolute bisection tolerance (xtol = 1e-16, the
	// defect repaired by /repo bbd6d19) limits the RELATIVE accuracy there
	for _, e := range []int{-24, -30, -40, -50, -70} {
		w := math.Ldexp(1, e)
		ys := toF64s([]float64{0.5, 0.25, 0.75, 0.3, 0.7, 0, 1})
		emit(c07Case{Op: 0, Knots: []c07Knot{{X: 0, L: 0, V: 0}, {X: F64(w), L: 1, V: 1}}, Bl: 0, Bh: F64(w), Ys: ys})
		emit(c07Case{Op: 0, Knots: []c07Knot{{X: F64(w), L: 0, V: 1}}, Bl: F64(w), Bh: F64(w), Ys: ys})
		emit(c07Case{Op: 0, Knots: []c07Knot{{X: F64(-w), L: 0, V: 0.5}, {X: F64(w), L: 0.5, V: 1}}, Bl: F64(-w), Bh: F64(w), Ys: ys})
	}
	c07GenExtra(tier, rng, emit)
	// (a) random piecewise distributions
	for i := 0; i < 1000*mul; i++ {
		knots, step := c07GenPW(rng)
		bl, bh := c07GenBounds(rng, knots, step)
		emit(c07Case{Op: 0, Knots: knots, Bl: F64(bl), Bh: F64(bh), Ys: c07GenYs(rng, knots)})
	}
	// (b) built-in discrete distributions without a quantile method
	for n := 0; n <= 12; n++ {
		for _, p := range []float64{0, 1.0 / 16, 0.25, 0.5, 0.75, 15.0 / 16, 1} {
			d := stats.BinomialDist{N: n, P: p}
			emit(c07Case{Op: 1, N: n, P: F64(p), Ys: c07DiscYs(rng, d.CDF, 0, n)})
		}
	}
	for i := 0; i < 60*mul; i++ {
		n := 1 + rng.Intn(30)
		p := float64(rng.Intn(65)) / 64
		if n <= 8 && rng.Intn(3) == 0 {
			p = float64(rng.Intn(101)) / 100 // 53-bit P for small N only (exact table stays small)
		}
		d := stats.BinomialDist{N: n, P: p}
		emit(c07Case{Op: 1, N: n, P: F64(p), Ys: c07DiscYs(rng, d.CDF, 0, n)})
	}
	for i := 0; i < 150*mul; i++ {
		n := 2 + rng.Intn(29)
		k, dr := rng.Intn(n+1), rng.Intn(n+1)
		d := stats.HypergeometicDist{N: n, K: k, Draws: dr}
		lo, hi := dr+k-n, dr
		if lo < 0 {
			lo = 0
		}
		if k < hi {
			hi = k
		}
		emit(c07Case{Op: 2, N: n, K: k, D: dr, Ys: c07DiscYs(rng, d.CDF, lo, hi)})
	}
	// (c) dispatch
	for i := 0; i < 40*mul; i++ {
		ys := []float64{0, 1, 0.5, 0.025, 0.975, -0.5, 1.5, math.NaN(), math.Ldexp(1, -60), 1 - math.Ldexp(1, -53)}
		for j := 0; j < 12; j++ {
			ys = append(ys, rng.Float64())
		}
		seeds := []int64{rng.Int63(), rng.Int63(), int64(i)}
		if i%2 == 0 {
			emit(c07Case{Op: 3, Kind: 0, A: F64(genValue(rng, rng.Intn(4))), B: F64(math.Abs(genValue(rng, 1+rng.Intn(3))) + math.Ldexp(1, -30)), Ys: toF64s(ys), Seeds: seeds})
		} else {
			emit(c07Case{Op: 3, Kind: 1, A: F64(genValue(rng, rng.Intn(4))), Ys: toF64s(ys), Seeds: seeds})
		}
	}
	// (d) Rand with a scripted source
	for i := 0; i < 400*mul; i++ {
		knots, step := c07GenPW(rng)
		bl, bh := c07GenBounds(rng, knots, step)
		var src []int64
		for z := rng.Intn(4) * rng.Intn(2); z > 0; z-- {
			src = append(src, 0)
		}
		var m int64
		switch rng.Intn(6) {
		case 0: // exactly a level of the cdf
			k := knots[rng.Intn(len(knots))]
			m = int64(float64(k.V) * (1 << 53))
			if m <= 0 || m >= 1<<53 {
				m = 1 << 52
			}
		case 1:
			m = 1 + int64(rng.Intn(3)) // y = 2^-53 ...
		case 2:
			m = 1<<53 - 1 - int64(rng.Intn(3))
		default:
			m = 1 + rng.Int63n(1<<53-1)
		}
		src = append(src, m<<10)
		for z := rng.Intn(3); z > 0; z-- {
			src = append(src, rng.Int63n(1<<53)<<10) // never consumed
		}
		emit(c07Case{Op: 4, Knots: knots, Bl: F64(bl), Bh: F64(bh), Src: src})
	}
	// (b2) the other built-ins without a quantile method: relational
	relYs := func(levels []float64) []F64 {
		ys := []float64{0, 1, 0.5, 0.001, 0.999, 0.025, 0.975}
		for j := 0; j < 6; j++ {
			ys = append(ys, 0.001+0.998*rng.Float64())
		}
		ys = append(ys, levels...)
		// levels within a few ulps of 0 or 1 are left out here: the float64 CDFs of these
		// distributions are flat over long stretches there, so "smallest x" is a matter of rounding
		odd := []float64{math.Copysign(0, -1), -0.5, 1.5, math.NaN(), math.Inf(1), math.Inf(-1), -1e-300, 1 + math.Ldexp(1, -52), 2, -1}
		ys = append(ys, odd[rng.Intn(len(odd))], odd[rng.Intn(len(odd))])
		return toF64s(ys)
	}
	for i := 0; i < 40*mul; i++ {
		v := []float64{1, 2, 3, 5, 10, 30, 100, 0.5, 1.5, 1000}[rng.Intn(10)]
		if rng.Intn(3) == 0 {
			v = 0.5 + 50*rng.Float64()
		}
		emit(c07Case{Op: 6, Kind: 0, A: F64(v), Ys: relYs(nil)})
	}
	for i := 0; i < 40*mul; i++ {
		n1, n2 := 1+rng.Intn(5), 1+rng.Intn(5)
		var t []int
		if rng.Intn(2) == 0 { // a random tie vector summing to n1+n2
			for left := n1 + n2; left > 0; {
				k := 1 + rng.Intn(3)
				if k > left {
					k = left
				}
				t = append(t, k)
				left -= k
			}
		}
		if len(t) < 2 {
			t = nil // a single rank (everything tied) is not a distribution UDist supports: it panics
		}
		d := stats.UDist{N1: n1, N2: n2, T: t}
		var levels []float64
		if pan, _ := catch(func() {
			d.CDF(0)
			d.CDF(float64(n1 * n2))
			for j := 0; j < 4; j++ {
				u := float64(rng.Intn(2*n1*n2+1)) / 2
				c := d.CDF(u)
				if c > 0 && c < 1 {
					levels = append(levels, c, math.Nextafter(c, 2), math.Nextafter(c, -1)) // exact cumulative level and its neighbours
				}
			}
		}); pan {
			levels = nil // the case is emitted all the same: the panic is then an observation of the run
		}
		emit(c07Case{Op: 6, Kind: 1, N: n1, K: n2, T: t, Ys: relYs(levels)})
	}
	for i := 0; i < 30*mul; i++ {
		n := 1 + rng.Intn(12)
		c := []float64{0, 10, -1000, 1e6, -1e6}[rng.Intn(5)]
		sc := math.Ldexp(1, rng.Intn(16)-8)
		xs := make([]float64, n)
		for j := range xs {
			xs[j] = c + sc*float64(rng.Intn(65)-32)/8
		}
		emit(c07Case{Op: 6, Kind: 2, Xs: toF64s(xs), B: F64(sc * float64(1+rng.Intn(8)) / 4), Ys: relYs(nil)})
	}
	// (e) supporting evidence: Kolmogorov-Smirnov distance of seeded draws
	nks, draws := 12, 50000
	if tier == "thorough" {
		nks, draws = 40, 1000000
	}
	for i := 0; i < nks; i++ {
		// with xtol = 0 a quantile at or next to 0 costs ~1100 cdf evaluations (the bisection goes down to the
		// subnormals): the long runs use distributions with no break point within 2^-60 of 0; op 8 below has them
		knots, step := c07GenPW(rng)
		for tries := 0; tries < 100 && c07NearZero(knots); tries++ {
			knots, step = c07GenPW(rng)
		}
		bl, bh := c07GenBounds(rng, knots, step)
		emit(c07Case{Op: 5, Knots: knots, Bl: F64(bl), Bh: F64(bh), N: draws, Seeds: []int64{rng.Int63()}})
	}
	// the same with the distance computed by the comparator (fewer draws: they travel in the case line)
	nks8, draws8 := 8, 4096
	if tier == "thorough" {
		nks8, draws8 = 30, 16384
	}
	for i := 0; i < nks8; i++ {
		if i%4 == 3 {
			knots, step, cutIdx := c07GenDisc(rng)
			bl, bh := c07DiscBounds(rng, knots, step, cutIdx)
			emit(c07Case{Op: 8, Knots: knots, Step: F64(step), Bl: F64(bl), Bh: F64(bh), N: draws8, Seeds: []int64{rng.Int63()}})
			continue
		}
		knots, step := c07GenPW(rng)
		bl, bh := c07GenBounds(rng, knots, step)
		emit(c07Case{Op: 8, Knots: knots, Bl: F64(bl), Bh: F64(bh), N: draws8, Seeds: []int64{rng.Int63()}})
	}
	// (f) LAST, so that the random stream of every generator above is what it was before this block existed:
	// UDist against the exact model of C02 (op 11): every N1, N2 <= 4 without ties (T nil), with T all ones, and with
	// random tie vectors (7 per pair; 4*mul more at sizes up to 5 x 5)
	udistT := func(n int) []int {
		for {
			var t []int
			for left := n; left > 0; {
				k := 1 + rng.Intn(3)
				if k > left {
					k = left
				}
				t = append(t, k)
				left -= k
			}
			if len(t) >= 2 {
				return t
			}
		}
	}
	emitU := func(n1, n2 int, t []int) {
		d := stats.UDist{N1: n1, N2: n2, T: append([]int(nil), t...)}
		if len(t) == 0 {
			d.T = nil
		}
		emit(c07Case{Op: 11, N: n1, K: n2, T: t, Ys: c07UDistYs(rng, d.CDF, n1*n2)})
	}
	for n1 := 1; n1 <= 4; n1++ {
		for n2 := 1; n2 <= 4; n2++ {
			emitU(n1, n2, nil)
			ones := make([]int, n1+n2)
			for i := range ones {
				ones[i] = 1
			}
			emitU(n1, n2, ones)
			for j := 0; j < 7; j++ {
				emitU(n1, n2, udistT(n1+n2))
			}
		}
	}
	for i := 0; i < 4*mul; i++ {
		n1, n2 := 1+rng.Intn(5), 1+rng.Intn(5)
		var t []int
		if rng.Intn(3) != 0 {
			t = udistT(n1 + n2)
		}
		emitU(n1, n2, t)
	}
}

func init() {
	register(&Prop{ID: "C07", Num: 7, Gen: c07Gen, Run: c07Run, Timeout: 30 * time.Second})
}

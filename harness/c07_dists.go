package main

import (
	"fmt"
	"math"
	"math/rand"
	"sort"

	"github.com/aclements/go-moremath/stats"
)

// C07, relational stream (ops 6 and 7): distributions with no exact model on the Coq side.  The
// oracle is instantiated with the implementation's own CDF: the harness reports CDF at the points
// the statement needs.
//
//	kind 0  stats.TDist{V: A}                       0.01 <= V <= 1e9
//	kind 1  stats.UDist{N1: N, N2: K, T: T}
//	kind 2  stats.KDE{Sample: Xs (Weights: T), Bandwidth: B, Kernel: D (0 Epanechnikov, 1 Gaussian, 2 Delta),
//	        BoundaryMin/Max by K and A}
//	kind 3  stats.BinomialDist{N, P}                N <= 1000
//	kind 4  stats.HypergeometicDist{N, K, Draws: D} N <= 1000
//	kind 5  stats.NormalDist{Mu: A, Sigma: B}       (own InvCDF and Rand methods)
//	kind 6  stats.DeltaDist{T: A}                   (own InvCDF method)
//	kind 7  harness geometric distribution on A + B*{0,1,2,...}, success probability P; a full
//	        stats.DiscreteDist with INFINITE support; Bounds cut the upper tail at weight Xs[0]
//	        and start Xs[1] steps below the support
//	kind 8  harness Poisson distribution, mean P, on A + B*{0,1,2,...}; Bounds = support start and
//	        A + B*ceil(P + Xs[0]*sqrt(P))
//
//	kind 9  harness MIXED distribution with infinite support: an atom of weight P at A and an exponential
//	        tail of scale B beyond it; Bounds (A, A + 20 B) cut the tail at e^-20
//	kind 10 harness two-sided power-law distribution (continuous, heavy tails): location A, scale B,
//	        tail exponent P (0.01: the 97.5% quantile is 1e130 scales out); Bounds A -+ 100 B
//
// c07Wrap forwards only CDF and Bounds: it has no quantile method, no Rand, no Step, so stats.InvCDF
// and stats.Rand must take the generic path through it.  For a built-in WITHOUT its own quantile
// method stats.InvCDF(d)(y) has to be bit-identical to stats.InvCDF(c07Wrap{d})(y); for one WITH a
// method, bit-identical to that method.
type c07Wrap struct{ d stats.DistCommon }

func (w c07Wrap) CDF(x float64) float64      { return w.d.CDF(x) }
func (w c07Wrap) Bounds() (float64, float64) { return w.d.Bounds() }

type c07Geom struct {
	p, a, s float64
	lq      float64 // log(1-p)
	bl, bh  float64
}

func (g *c07Geom) idx(x float64) float64 { return math.Floor((x - g.a) / g.s) }
func (g *c07Geom) CDF(x float64) float64 {
	if !(x >= g.a) {
		return 0
	}
	return -math.Expm1((g.idx(x) + 1) * g.lq) // 1 - (1-p)^(k+1)
}
func (g *c07Geom) PMF(x float64) float64 {
	if !(x >= g.a) {
		return 0
	}
	return g.p * math.Exp(g.idx(x)*g.lq)
}
func (g *c07Geom) Step() float64              { return g.s }
func (g *c07Geom) Bounds() (float64, float64) { return g.bl, g.bh }

type c07Pois struct {
	a, s   float64
	cum    []float64 // cum[k] = Pr[X <= k]; the last entry is 1
	bl, bh float64
}

func (d *c07Pois) CDF(x float64) float64 {
	if !(x >= d.a) {
		return 0
	}
	k := math.Floor((x - d.a) / d.s)
	if k >= float64(len(d.cum)-1) {
		return 1
	}
	return d.cum[int(k)]
}
func (d *c07Pois) PMF(x float64) float64 {
	if !(x >= d.a) {
		return 0
	}
	k := math.Floor((x - d.a) / d.s)
	if k >= float64(len(d.cum)) {
		return 0
	}
	if k == 0 {
		return d.cum[0]
	}
	return d.cum[int(k)] - d.cum[int(k)-1]
}
func (d *c07Pois) Step() float64              { return d.s }
func (d *c07Pois) Bounds() (float64, float64) { return d.bl, d.bh }

type c07ExpAtom struct{ a, s, w float64 }

func (d c07ExpAtom) CDF(x float64) float64 {
	if !(x >= d.a) {
		return 0
	}
	return 1 - (1-d.w)*math.Exp(-(x-d.a)/d.s)
}
func (d c07ExpAtom) Bounds() (float64, float64) { return d.a, d.a + 20*d.s }

type c07Power struct{ a, s, alpha float64 }

func (d c07Power) CDF(x float64) float64 {
	z := (x - d.a) / d.s
	switch {
	case z >= 0:
		return 1 - 0.5*math.Pow(1+z, -d.alpha)
	case z < 0:
		return 0.5 * math.Pow(1-z, -d.alpha)
	}
	return math.NaN()
}
func (d c07Power) Bounds() (float64, float64) { return d.a - 100*d.s, d.a + 100*d.s }

func c07RelDist(c *c07Case) (stats.DistCommon, error) {
	fin := func(xs ...float64) bool {
		for _, x := range xs {
			if math.IsNaN(x) || math.IsInf(x, 0) {
				return false
			}
		}
		return true
	}
	switch c.Kind {
	case 0:
		v := float64(c.A)
		if !(v >= 0.01 && v <= 1e9) {
			return nil, fmt.Errorf("bad degrees of freedom")
		}
		return stats.TDist{V: v}, nil
	case 1:
		if c.N < 1 || c.K < 1 || c.N > 8 || c.K > 8 {
			return nil, fmt.Errorf("bad sample sizes")
		}
		if c.T != nil {
			sum := 0
			for _, t := range c.T {
				if t < 1 {
					return nil, fmt.Errorf("bad tie vector")
				}
				sum += t
			}
			if sum != c.N+c.K {
				return nil, fmt.Errorf("bad tie vector")
			}
		}
		return stats.UDist{N1: c.N, N2: c.K, T: c.T}, nil
	case 2:
		xs := fromF64s(c.Xs)
		b := float64(c.B)
		if len(xs) < 1 || len(xs) > 64 || !(b > 0 && b < 1e6) {
			return nil, fmt.Errorf("bad kde")
		}
		for _, x := range xs {
			if math.IsNaN(x) || math.Abs(x) > 1e7 {
				return nil, fmt.Errorf("bad kde sample")
			}
		}
		if c.D < 0 || c.D > 2 {
			return nil, fmt.Errorf("bad kernel")
		}
		kde := &stats.KDE{Sample: stats.Sample{Xs: xs}, Bandwidth: b, Kernel: []stats.KDEKernel{stats.EpanechnikovKernel, stats.GaussianKernel, stats.DeltaKernel}[c.D]}
		if c.T != nil { // sample weights
			if len(c.T) != len(xs) {
				return nil, fmt.Errorf("bad kde weights")
			}
			sum := 0
			for _, w := range c.T {
				if w < 0 || w > 1000000 {
					return nil, fmt.Errorf("bad kde weights")
				}
				sum += w
				kde.Sample.Weights = append(kde.Sample.Weights, float64(w))
			}
			if sum == 0 {
				return nil, fmt.Errorf("bad kde weights")
			}
		}
		// boundary correction (BoundaryReflect): K = 1 lower bound, 2 upper bound, 3 both, at distance A >= 0
		// beyond the smallest / largest sample value
		if c.K != 0 {
			m := float64(c.A)
			if c.K < 0 || c.K > 3 || !(m >= 0 && m <= 1e6) {
				return nil, fmt.Errorf("bad kde boundary")
			}
			lo, hi := xs[0], xs[0]
			for _, x := range xs {
				lo, hi = math.Min(lo, x), math.Max(hi, x)
			}
			kde.BoundaryMin, kde.BoundaryMax = math.Inf(-1), math.Inf(1)
			if c.K&1 != 0 {
				kde.BoundaryMin = lo - m
			}
			if c.K&2 != 0 {
				kde.BoundaryMax = hi + m + 1 // [min, max): the largest sample value stays inside
			}
			if kde.BoundaryMin == 0 && kde.BoundaryMax == 0 {
				return nil, fmt.Errorf("bad kde boundary")
			}
		}
		return kde, nil
	case 3:
		p := float64(c.P)
		if c.N < 0 || c.N > 1000 || !(p >= 0 && p <= 1) {
			return nil, fmt.Errorf("bad binomial parameters")
		}
		return stats.BinomialDist{N: c.N, P: p}, nil
	case 4:
		if c.N < 1 || c.N > 1000 || c.K < 0 || c.K > c.N || c.D < 0 || c.D > c.N {
			return nil, fmt.Errorf("bad hypergeometric parameters")
		}
		return stats.HypergeometicDist{N: c.N, K: c.K, Draws: c.D}, nil
	case 5:
		a, b := float64(c.A), float64(c.B)
		if !fin(a, b) || !(b > 0) || math.Abs(a) > 1e100 || b > 1e100 || b < 1e-100 {
			return nil, fmt.Errorf("bad normal parameters")
		}
		return stats.NormalDist{Mu: a, Sigma: b}, nil
	case 6:
		a := float64(c.A)
		if !fin(a) {
			return nil, fmt.Errorf("bad delta parameter")
		}
		return stats.DeltaDist{T: a}, nil
	case 7:
		p, a, s := float64(c.P), float64(c.A), float64(c.B)
		if !(p >= 1e-4 && p <= 0.999) || !fin(a, s) || !(s >= 1.0/(1<<20) && s <= 1<<20) || math.Abs(a) > 1e9 || len(c.Xs) != 2 {
			return nil, fmt.Errorf("bad geometric parameters")
		}
		eps, low := float64(c.Xs[0]), float64(c.Xs[1])
		if !(eps > 1e-300 && eps < 1) || !(low >= 0 && low <= 1000) || low != math.Floor(low) {
			return nil, fmt.Errorf("bad geometric bounds")
		}
		g := &c07Geom{p: p, a: a, s: s, lq: math.Log1p(-p)}
		g.bl = a - low*s
		g.bh = a + s*math.Ceil(math.Log(eps)/g.lq)
		return g, nil
	case 8:
		lam, a, s := float64(c.P), float64(c.A), float64(c.B)
		if !(lam >= 1.0/64 && lam <= 200) || !fin(a, s) || !(s >= 1.0/(1<<20) && s <= 1<<20) || math.Abs(a) > 1e9 || len(c.Xs) != 1 {
			return nil, fmt.Errorf("bad poisson parameters")
		}
		w := float64(c.Xs[0])
		if !(w >= 0 && w <= 100) {
			return nil, fmt.Errorf("bad poisson bounds")
		}
		d := &c07Pois{a: a, s: s}
		pm, sum := math.Exp(-lam), 0.0
		for k := 0; k < 2000; k++ {
			sum += pm
			if sum >= 1 || pm == 0 && float64(k) > lam {
				break
			}
			d.cum = append(d.cum, sum)
			pm *= lam / float64(k+1)
		}
		d.cum = append(d.cum, 1)
		for k := 1; k < len(d.cum); k++ { // a cdf is non-decreasing whatever the rounding of the sum
			if d.cum[k] < d.cum[k-1] {
				d.cum[k] = d.cum[k-1]
			}
		}
		d.bl, d.bh = a, a+s*math.Ceil(lam+w*math.Sqrt(lam))
		return d, nil
	case 9:
		a, sc, w := float64(c.A), float64(c.B), float64(c.P)
		if !fin(a, sc) || math.Abs(a) > 1e100 || !(sc >= 1e-100 && sc <= 1e100) || !(w >= 0 && w < 1) {
			return nil, fmt.Errorf("bad exponential parameters")
		}
		return c07ExpAtom{a: a, s: sc, w: w}, nil
	case 10:
		a, sc, al := float64(c.A), float64(c.B), float64(c.P)
		if !fin(a, sc) || math.Abs(a) > 1e100 || !(sc >= 1e-100 && sc <= 1e100) || !(al >= 0.005 && al <= 100) {
			return nil, fmt.Errorf("bad power-law parameters")
		}
		return c07Power{a: a, s: sc, alpha: al}, nil
	}
	return nil, fmt.Errorf("bad kind")
}

// the last finite points the bracket expansion probes (dist.go:150-162): -2^1023 and 2^1023
var c07LastProbe = math.Ldexp(1, 1023)

type c07Rel struct {
	dist  stats.DistCommon
	inv   func(float64) float64 // stats.InvCDF(dist)
	ref   func(float64) float64 // the distribution's own method, or stats.InvCDF of the bare wrapper
	own   int                   // bit 0: has its own InvCDF method, bit 1: has its own Rand method
	rref  func(*rand.Rand) float64
	grand func(*rand.Rand) float64 // stats.Rand(dist)
}

// The header: kind par own hst bl bh cbl cbh cpl cph.  hst: 0 fine; 2 Bounds / CDF panicked; 3 stats.InvCDF or
// stats.Rand (the constructors) panicked.  Only the case JSON can make this function fail: whatever the
// LIBRARY does (panics, methods it has or lacks) is an observation in the line.  With hst != 0 the line ends
// after the header.
func c07RelHeader(l *Line, c *c07Case) (*c07Rel, error) {
	dist, err := c07RelDist(c)
	if err != nil {
		return nil, err
	}
	var bl, bh, cbl, cbh, cpl, cph float64
	hst := 0
	if pan, _ := catch(func() {
		bl, bh = dist.Bounds()
		cbl, cbh = dist.CDF(bl), dist.CDF(bh)
		cpl, cph = dist.CDF(-c07LastProbe), dist.CDF(c07LastProbe)
	}); pan {
		hst = 2
	}
	r := &c07Rel{dist: dist}
	if pan, _ := catch(func() {
		r.inv = stats.InvCDF(dist)
		r.grand = stats.Rand(dist)
		if m, ok := dist.(interface{ InvCDF(float64) float64 }); ok {
			r.own |= 1
			r.ref = m.InvCDF
		} else {
			r.ref = stats.InvCDF(c07Wrap{dist})
		}
		if m, ok := dist.(interface{ Rand(*rand.Rand) float64 }); ok {
			r.own |= 2
			r.rref = m.Rand
		} else {
			// the documented generic generator: the inverse CDF at the first non-zero value of the source
			inv2 := stats.InvCDF(dist)
			r.rref = func(rr *rand.Rand) float64 {
				y := 0.0
				for y == 0 {
					y = rr.Float64()
				}
				return inv2(y)
			}
		}
	}); pan && hst == 0 {
		hst = 3
	}
	l.I(c.Kind).F(float64(c.A)).I(r.own).I(hst).F(bl).F(bh).F(cbl).F(cbh).F(cpl).F(cph)
	if hst != 0 {
		return nil, nil
	}
	return r, nil
}

// one level: y st x xm c0 cm xp cp rst ref   (xm, xp = x -+ (1e-9|x| + 1e-15); c0, cm, cp = CDF at x, xm, xp)
func (r *c07Rel) item(l *Line, y float64) {
	st, x := c07Call(r.inv, y)
	rst, ref := c07Call(r.ref, y)
	xm, c0, cm, xp, cp := math.NaN(), math.NaN(), math.NaN(), math.NaN(), math.NaN()
	if st == 0 && !math.IsNaN(x) && !math.IsInf(x, 0) {
		tol := 1e-9*math.Abs(x) + 1e-15
		xm, xp = x-tol, x+tol
		if pan, _ := catch(func() { c0, cm, cp = r.dist.CDF(x), r.dist.CDF(xm), r.dist.CDF(xp) }); pan {
			st = 2
		}
	}
	l.F(y).I(st).F(x).F(xm).F(c0).F(cm).F(xp).F(cp).I(rst).F(ref)
}

func c07RunRel(l *Line, c *c07Case) error {
	if len(c.Seeds) > 1024 {
		return fmt.Errorf("too many seeds")
	}
	r, err := c07RelHeader(l, c)
	if err != nil || r == nil {
		return err
	}
	l.I(len(c.Ys))
	for _, y := range c.Ys {
		r.item(l, float64(y))
	}
	// stats.Rand(dist) next to the reference generator, equally seeded sources
	grand := r.grand
	l.I(3 * len(c.Seeds))
	for _, s := range c.Seeds {
		r1, r2 := rand.New(rand.NewSource(s)), rand.New(rand.NewSource(s))
		for j := 0; j < 3; j++ {
			_, g := c07Call(func(float64) float64 { return grand(r1) }, 0)
			_, m := c07Call(func(float64) float64 { return r.rref(r2) }, 0)
			l.F(g).F(m)
		}
	}
	return nil
}

func c07CheckSrc(src []int64) error {
	if len(src) < 1 || len(src) > 4096 {
		return fmt.Errorf("bad source")
	}
	nonzero := false
	for _, v := range src {
		if v < 0 || v&1023 != 0 {
			return fmt.Errorf("source values must be non-negative multiples of 1024")
		}
		if v != 0 {
			nonzero = true
		}
	}
	if !nonzero {
		return fmt.Errorf("an all-zero source makes Rand loop for ever (by design)")
	}
	return nil
}

// op 7, the distribution has NO Rand method of its own (generic generator, scripted source):
//
//	7 7 hdr  nsrc {int63}*  st consumed y draw  {y ist x xm c0 cm xp cp rst ref}
//
// op 7, the distribution HAS its own Rand method (today: NormalDist): the identity with InvCDF is not
// demanded; what is observed is determinism — two equally seeded math/rand sources (seed derived from the
// scripted values), 8 draws each:
//
//	7 9 hdr  n {st1 draw1 st2 draw2}*
//
// (the law of an own generator is the subject of op 10)
func c07RunRandRel(l *Line, c *c07Case) error {
	if err := c07CheckSrc(c.Src); err != nil {
		return err
	}
	// which of the two lines it is depends on the library: the op token is decided here
	probe, err := c07RelDist(c)
	if err != nil {
		return err
	}
	_, ownRand := probe.(interface{ Rand(*rand.Rand) float64 })
	if ownRand {
		l.I(9)
	} else {
		l.I(7)
	}
	r, err := c07RelHeader(l, c)
	if err != nil || r == nil {
		return err
	}
	if ownRand {
		var seed int64
		for _, v := range c.Src {
			seed = seed*1000003 + v>>10
		}
		r1, r2 := rand.New(rand.NewSource(seed)), rand.New(rand.NewSource(seed))
		l.I(8)
		for j := 0; j < 8; j++ {
			s1, d1 := c07Call(func(float64) float64 { return r.grand(r1) }, 0)
			s2, d2 := c07Call(func(float64) float64 { return r.grand(r2) }, 0)
			l.I(s1).F(d1).I(s2).F(d2)
		}
		return nil
	}
	l.I(len(c.Src))
	for _, v := range c.Src {
		l.Int(v)
	}
	src := &c07Src{vals: append([]int64(nil), c.Src...)}
	var draw float64
	pan, _ := catch(func() { draw = r.grand(rand.New(src)) })
	st := 0
	if pan {
		st = 2
	}
	y := 0.0
	if src.pos >= 1 {
		y = float64(c.Src[src.pos-1]) / (1 << 63)
	}
	l.I(st).I(src.pos).F(y).F(draw)
	r.item(l, y)
	return nil
}

// op 10: 7 10 hdr  st  n {v cm cp}*   — the N draws of stats.Rand(dist) from rand.New(rand.NewSource(Seeds[0])),
// sorted, each with the distribution's own cdf just below and just above it (v -+ (1e-9|v| + 1e-15))
func c07RunKSRel(l *Line, c *c07Case) error {
	if len(c.Seeds) != 1 {
		return fmt.Errorf("bad seed")
	}
	// N is a distribution parameter for some kinds: the draw count travels in Draws
	r, err := c07RelHeader(l, c)
	if err != nil || r == nil {
		return err
	}
	n := c.Draws
	if n < 1 || n > 1<<16 {
		return fmt.Errorf("bad draw count")
	}
	xs := make([]float64, n)
	st := 0
	if pan, _ := catch(func() {
		rr := rand.New(rand.NewSource(c.Seeds[0]))
		for i := range xs {
			xs[i] = r.grand(rr)
		}
	}); pan {
		st = 2
	}
	sort.Float64s(xs)
	cm, cp := make([]float64, n), make([]float64, n)
	if pan, _ := catch(func() {
		for i, v := range xs {
			tol := 1e-9*math.Abs(v) + 1e-15
			cm[i], cp[i] = r.dist.CDF(v-tol), r.dist.CDF(v+tol)
		}
	}); pan && st == 0 {
		st = 3
	}
	l.I(st).I(n)
	for i, v := range xs {
		l.F(v).F(cm[i]).F(cp[i])
	}
	return nil
}

package main

import (
	"math"
	"math/rand"
	"os"
	"sort"

	"github.com/aclements/go-moremath/stats"
)

// C07 generators, part 2: the whole float64 range of locations, discrete distributions behind the
// full DiscreteDist interface, built-ins over their whole parameter ranges (relational), Rand on them.

func c07Pt(t float64) []c07Knot { return []c07Knot{{X: F64(t), L: 0, V: 1}} }

// levels asked of the harness-defined discrete distributions: around every cumulative level, inside
// the tail the Bounds cut off, 0, 1
func c07TailYs(rng *rand.Rand, levels []float64, cut float64) []float64 {
	ys := []float64{0, 1, 0.5}
	for j := 0; j < 6 && len(levels) > 0; j++ {
		c := levels[rng.Intn(len(levels))]
		if c > 0 && c < 1 {
			ys = append(ys, c, math.Nextafter(c, 2), math.Nextafter(c, -1))
		}
	}
	if cut > 0 && cut < 1 { // cut = CDF(upper bound) < 1: levels in the tail beyond the bound
		ys = append(ys, cut+(1-cut)/2, cut+(1-cut)*rng.Float64(), math.Nextafter(cut, 2), 1-(1-cut)/1024, 1-(1-cut)*1e-3)
	}
	ys = append(ys, rng.Float64(), rng.Float64(), c07OddYs[rng.Intn(len(c07OddYs))])
	return ys
}

// a pure-jump distribution on the lattice a + s*{0,1,...}: shape 0 geometric p = 1/2, 1 geometric p = 1/4,
// 2 geometric p = 1/16, 3 rounded Poisson, 4 random weights with gaps in the support.  Levels are dyadic
// (<= 40 bits), so the harness evaluates the cdf exactly.  Returns the knots, the step and the index of a
// knot beyond which about 1e-4 (2^-13) or less of the weight lies.
func c07GenDisc(rng *rand.Rand) (knots []c07Knot, step float64, cutIdx int) {
	step = []float64{1, 1, 1, 0.5, 0.25, 2, 3, 0.125, 10, 1.0 / 1024, 4096}[rng.Intn(11)]
	a := step * float64(rng.Intn(41)-20)
	if rng.Intn(4) == 0 {
		a = step * float64(rng.Intn(2000001)-1000000)
	}
	if rng.Intn(3) == 0 {
		a = 0
	}
	var cum []float64
	var ks []int
	const den = 1 << 40
	switch shape := rng.Intn(5); shape {
	case 0, 1, 2:
		q := []float64{0.5, 0.75, 0.9375}[shape]
		t := 1.0
		for k := 0; k < 60; k++ {
			t *= q
			c := math.Floor((1-t)*den) / den
			if c >= 1 || k == 59 {
				c = 1
			}
			cum, ks = append(cum, c), append(ks, k)
			if c == 1 {
				break
			}
		}
	case 3:
		lam := []float64{0.5, 1, 3, 7.5, 12}[rng.Intn(5)]
		pm, sum := math.Exp(-lam), 0.0
		for k := 0; k < 60; k++ {
			sum += pm
			pm *= lam / float64(k+1)
			c := math.Floor(sum*den) / den
			if c >= 1 || k == 59 || 1-c < 1e-11 {
				c = 1
			}
			cum, ks = append(cum, c), append(ks, k)
			if c == 1 {
				break
			}
		}
	default:
		n := 2 + rng.Intn(30)
		w := make([]float64, n)
		tot := 0.0
		for i := range w {
			w[i] = math.Exp(-8 * rng.Float64()) // weights over four orders of magnitude
			tot += w[i]
		}
		sum, k := 0.0, 0
		for i := range w {
			sum += w[i] / tot
			c := math.Floor(sum*den) / den
			if i == n-1 {
				c = 1
			}
			cum, ks = append(cum, c), append(ks, k)
			k += 1 + rng.Intn(3)*rng.Intn(2) // gaps: lattice points of weight 0
		}
	}
	prev := 0.0
	cutIdx = -1
	for i := range cum {
		if cum[i] < prev {
			cum[i] = prev
		}
		knots = append(knots, c07Knot{X: F64(a + step*float64(ks[i])), L: F64(prev), V: F64(cum[i])})
		if cutIdx < 0 && 1-cum[i] <= 1.0/8192 {
			cutIdx = i
		}
		prev = cum[i]
	}
	if cutIdx < 0 {
		cutIdx = len(knots) - 1
	}
	return
}

// Bounds of a harness-defined discrete distribution: exact, cutting the upper tail (at ~1e-4 or in the
// bulk), cutting the lower tail, wider than the support; always on the lattice.
func c07DiscBounds(rng *rand.Rand, knots []c07Knot, step float64, cutIdx int) (bl, bh float64) {
	x0, xn := float64(knots[0].X), float64(knots[len(knots)-1].X)
	bl, bh = x0, xn
	switch rng.Intn(6) {
	case 0, 1, 2:
		bh = float64(knots[cutIdx].X) // "the total weight outside is approximately 0"
	case 3:
		bh = float64(knots[rng.Intn(len(knots))].X) // a cut in the bulk
	case 4:
		bh = xn + step*float64(1+rng.Intn(20))
	}
	switch rng.Intn(6) {
	case 0:
		bl = x0 - step*float64(1+rng.Intn(20))
	case 1:
		bl = float64(knots[rng.Intn(len(knots))].X)
		if bl > bh {
			bl = x0
		}
	}
	return
}

func c07Levels(knots []c07Knot) (ls []float64) {
	for _, k := range knots {
		ls = append(ls, float64(k.V))
	}
	return
}

func c07CDFAt(knots []c07Knot, x float64) float64 {
	c := 0.0
	for _, k := range knots {
		if float64(k.X) <= x {
			c = float64(k.V)
		}
	}
	return c
}

// a source value m<<10 with m/2^53 = the float64 y (0 < y < 1) rounded down to 53 bits
func c07SrcFor(y float64) int64 {
	m := int64(y * (1 << 53))
	if m < 1 {
		m = 1
	}
	if m > 1<<53-1 {
		m = 1<<53 - 1
	}
	return m << 10
}

func c07GenExtra(tier string, rng *rand.Rand, emit func(interface{})) {
	mul := 1
	if tier == "thorough" {
		mul = 10
	}
	sweepYs := toF64s([]float64{0, 1, 0.5, 0.25, 0.75, math.Ldexp(1, -53), 1 - math.Ldexp(1, -53)})
	top := math.Ldexp(1, 1023)
	// ---- (f) the whole range of the doubling loop: supports at +-2^k up to the last finite probe 2^1023
	// and beyond it (the expansion overflows and the closure returns +-Inf), deterministic
	for _, k := range []int{22, 40, 52, 53, 54, 55, 64, 128, 332, 333, 600, 1000, 1022} {
		p2 := math.Ldexp(1, k)
		for _, sg := range []float64{1, -1} {
			t := sg * p2
			w := p2 / 16
			if p2+w < top {
				// point mass; ramp from t; ramp to t with jumps at both ends; CDF(t) == 1/2 exactly at a bracket end point
				emit(c07Case{Op: 0, Knots: c07Pt(t), Bl: F64(t), Bh: F64(t), Ys: sweepYs})
				emit(c07Case{Op: 0, Knots: []c07Knot{{X: F64(t), L: 0, V: 0}, {X: F64(t + w), L: 1, V: 1}}, Bl: F64(t), Bh: F64(t + w), Ys: sweepYs})
				emit(c07Case{Op: 0, Knots: []c07Knot{{X: F64(t - w), L: 0, V: 0.25}, {X: F64(t), L: 0.75, V: 1}}, Bl: F64(t - w), Bh: F64(t), Ys: sweepYs})
				emit(c07Case{Op: 0, Knots: []c07Knot{{X: F64(t - w), L: 0, V: 0}, {X: F64(t), L: 0.5, V: 0.5}, {X: F64(t + w), L: 1, V: 1}}, Bl: F64(t - w), Bh: F64(t + w), Ys: sweepYs})
			}
			// next to the probe, and half way to the next one
			for _, u := range []float64{math.Nextafter(p2, 0), math.Nextafter(p2, math.Inf(1))} {
				emit(c07Case{Op: 0, Knots: c07Pt(sg * u), Bl: F64(sg * u), Bh: F64(sg * u), Ys: sweepYs})
			}
			if 1.5*p2+w < top {
				emit(c07Case{Op: 0, Knots: []c07Knot{{X: F64(sg*1.5*p2 - w), L: 0, V: 0.25}, {X: F64(sg*1.5*p2 + w), L: 0.75, V: 1}}, Bl: F64(sg*1.5*p2 - w), Bh: F64(sg*1.5*p2 + w), Ys: sweepYs})
			}
			// a jump at 0 and the rest of the weight far out: both directions of the expansion in one case
			lo, hi := math.Min(0, sg*p2), math.Max(0, sg*p2)
			emit(c07Case{Op: 0, Knots: []c07Knot{{X: F64(lo), L: 0, V: 0.5}, {X: F64(hi), L: 0.5, V: 1}}, Bl: F64(lo), Bh: F64(hi), Ys: sweepYs})
		}
	}
	ptop := math.Nextafter(top, 0) // the largest quantile the routine can return (see the finding below)
	ovYs := toF64s([]float64{0, 1, 0.5, 0.125, 0.25, 0.375, 0.75, 0.875, math.Ldexp(1, -53), 1 - math.Ldexp(1, -53), -1, 2, math.NaN()})
	for _, sg := range []float64{1, -1} {
		for _, t := range []float64{ptop, math.Nextafter(top, math.Inf(1)), 1.25 * top, 1.5 * top, math.MaxFloat64} {
			t *= sg
			emit(c07Case{Op: 0, Knots: c07Pt(t), Bl: F64(t), Bh: F64(t), Ys: ovYs})
			emit(c07Case{Op: 0, Knots: c07Pt(t), Bl: F64(-t), Bh: F64(t / 2), Ys: ovYs})
		}
		// to the left the last probe itself is fine as a quantile (the closure returns -Inf: no finite
		// point below it has a smaller cdf)
		if sg < 0 {
			emit(c07Case{Op: 0, Knots: c07Pt(-top), Bl: F64(-top), Bh: F64(-top), Ys: ovYs})
		}
		// part of the weight at 0, a ramp that passes the last probe, the rest beyond it
		a, b, c := sg*top/2, sg*ptop, sg*1.5*top
		if sg > 0 {
			emit(c07Case{Op: 0, Knots: []c07Knot{{X: 0, L: 0, V: 0.25}, {X: F64(a), L: 0.25, V: 0.25}, {X: F64(b), L: 0.5, V: 0.5}, {X: F64(c), L: 0.75, V: 1}},
				Bl: 0, Bh: F64(c), Ys: ovYs})
		} else {
			emit(c07Case{Op: 0, Knots: []c07Knot{{X: F64(c), L: 0, V: 0.25}, {X: F64(b), L: 0.5, V: 0.5}, {X: F64(a), L: 0.75, V: 0.75}, {X: 0, L: 0.75, V: 1}},
				Bl: F64(c), Bh: 0, Ys: ovYs})
		}
		// Rand far out and beyond the last probe
		for _, t := range []float64{sg * 1e300, sg * 1.5 * top} {
			for _, m := range []int64{1, 1 << 52, 1<<53 - 1} {
				emit(c07Case{Op: 4, Knots: []c07Knot{{X: F64(math.Min(0, t)), L: 0, V: 0.5}, {X: F64(math.Max(0, t)), L: 0.5, V: 1}},
					Bl: F64(math.Min(0, t)), Bh: F64(math.Max(0, t)), Src: []int64{0, m << 10}})
			}
		}
	}
	// opt-in (VERIF_C07_TINY=1), observation outside the property's quantification: a quantile in the last ulp below 2^1023.  The bracket is
	// (2^1022, 2^1023]; when bisectBool has narrowed it to neighbouring floats its mid point
	// (high+low)/2 = (2^1023 + (2^1023 - 2^970))/2 overflows (the sum is a tie and rounds to +Inf), so the
	// closure returns +Inf although CDF(2^1023) >= y (alg.go:92)
	if os.Getenv("VERIF_C07_TINY") != "" {
		emit(c07Case{Op: 0, Knots: c07Pt(top), Bl: F64(top), Bh: F64(top), Ys: toF64s([]float64{0.5})})
	}
	// ---- (g) tiny scales at 0, down to 2^-1000, both signs, every kind of level
	tinyYs := toF64s([]float64{0, 1, 0.5, 0.25, 0.75, 0.3, 0.1, 0.2, 0.8, 0.9, math.Nextafter(0.25, 1), -1, 2})
	for _, k := range []int{-23, -30, -52, -100, -300, -600, -1000} {
		w := math.Ldexp(1, k)
		emit(c07Case{Op: 0, Knots: []c07Knot{{X: F64(-w), L: 0, V: 0}, {X: 0, L: 0.25, V: 0.75}, {X: F64(w), L: 1, V: 1}}, Bl: F64(-w), Bh: F64(w), Ys: tinyYs})
		emit(c07Case{Op: 0, Knots: []c07Knot{{X: F64(-w), L: 0, V: 0.125}, {X: 0, L: 0.125, V: 0.875}, {X: F64(w), L: 0.875, V: 1}}, Bl: F64(-w), Bh: F64(w), Ys: tinyYs})
		emit(c07Case{Op: 0, Knots: c07Pt(w), Bl: F64(w), Bh: F64(w), Ys: tinyYs})
		emit(c07Case{Op: 0, Knots: c07Pt(-w), Bl: F64(-w), Bh: F64(-w), Ys: tinyYs})
		emit(c07Case{Op: 0, Knots: []c07Knot{{X: F64(w), L: 0, V: 0}, {X: F64(3 * w), L: 1, V: 1}}, Bl: F64(w), Bh: F64(3 * w), Ys: tinyYs})
		emit(c07Case{Op: 4, Knots: []c07Knot{{X: F64(-w), L: 0, V: 0}, {X: F64(w), L: 1, V: 1}}, Bl: F64(-w), Bh: F64(w), Src: []int64{0, 3 << 60}})
	}
	// ---- (h) random piecewise distributions located anywhere up to 2^1015 (and down to 2^22)
	for i := 0; i < 60*mul; i++ {
		knots, step := c07GenPWAt(rng, math.Ldexp(float64(2*rng.Intn(2)-1)*(1+rng.Float64()), 22+rng.Intn(994)))
		bl, bh := c07GenBounds(rng, knots, step)
		emit(c07Case{Op: 0, Knots: knots, Bl: F64(bl), Bh: F64(bh), Ys: c07GenYs(rng, knots)})
	}
	// ---- (i) harness-defined DISCRETE distributions: the full DiscreteDist interface (PMF, Step), no
	// InvCDF / Rand of their own, Bounds that cut a tail or are wider than the support
	for i := 0; i < 150*mul; i++ {
		knots, step, cutIdx := c07GenDisc(rng)
		bl, bh := c07DiscBounds(rng, knots, step, cutIdx)
		ys := c07TailYs(rng, c07Levels(knots), c07CDFAt(knots, bh))
		emit(c07Case{Op: 0, Knots: knots, Step: F64(step), Bl: F64(bl), Bh: F64(bh), Ys: toF64s(ys)})
	}
	for i := 0; i < 250*mul; i++ {
		knots, step, cutIdx := c07GenDisc(rng)
		bl, bh := c07DiscBounds(rng, knots, step, cutIdx)
		cut, low := c07CDFAt(knots, bh), c07CDFAt(knots, math.Nextafter(bl, math.Inf(-1)))
		var y float64
		switch rng.Intn(5) {
		case 0, 1: // in the tail above the upper bound
			y = cut + (1-cut)*rng.Float64()
		case 2: // in the tail below the lower bound
			y = low * rng.Float64()
		case 3: // exactly a cumulative level
			y = float64(knots[rng.Intn(len(knots))].V)
		default:
			y = rng.Float64()
		}
		if !(y > 0 && y < 1) {
			y = rng.Float64()
		}
		var src []int64
		for z := rng.Intn(3) * rng.Intn(2); z > 0; z-- {
			src = append(src, 0)
		}
		src = append(src, c07SrcFor(y), rng.Int63n(1<<53)<<10)
		emit(c07Case{Op: 4, Knots: knots, Step: F64(step), Bl: F64(bl), Bh: F64(bh), Src: src})
	}
	// ---- (j) built-ins over their whole parameter ranges and harness distributions with infinite
	// support: relational (ops 6, 7)
	relLevels := func(extra ...float64) []float64 {
		ys := []float64{0, 1, 0.5, 0.001, 0.999, 0.025, 0.975, 0.005, 0.995}
		for j := 0; j < 6; j++ {
			ys = append(ys, 0.001+0.998*rng.Float64())
		}
		ys = append(ys, extra...)
		odd := []float64{math.Copysign(0, -1), -0.5, 1.5, math.NaN(), math.Inf(1), math.Inf(-1), -1e-300, 1 + math.Ldexp(1, -52), 2, -1}
		return append(ys, odd[rng.Intn(len(odd))], odd[rng.Intn(len(odd))])
	}
	seeds := func() []int64 { return []int64{rng.Int63(), int64(rng.Intn(100))} }
	randSrc := func(y float64) []int64 {
		var src []int64
		for z := rng.Intn(3) * rng.Intn(2); z > 0; z-- {
			src = append(src, 0)
		}
		return append(src, c07SrcFor(y), rng.Int63n(1<<53)<<10)
	}
	anyY := func() float64 {
		switch rng.Intn(4) {
		case 0:
			return math.Ldexp(float64(1+rng.Intn(1023)), -10)
		case 1:
			return 1e-3 * rng.Float64()
		case 2:
			return 1 - 1e-3*rng.Float64()
		}
		return rng.Float64()
	}
	// TDist: V from 1e-2 (quantiles beyond 1e100 in the tails) to 1e9
	tv := []float64{0.01, 0.0125, 0.015, 0.02, 0.05, 0.1, 0.5, 1, 2, 30, 1000, 1e4, 1e5, 1e6, 1e6 + 1, 2e6, 5e6, 1e7, 1e8, 1e9}
	for i := 0; i < len(tv)+40*mul; i++ {
		var v float64
		if i < len(tv) {
			v = tv[i]
		} else {
			v = math.Pow(10, -2+11*rng.Float64())
		}
		emit(c07Case{Op: 6, Kind: 0, A: F64(v), Ys: toF64s(relLevels()), Seeds: seeds()})
		emit(c07Case{Op: 7, Kind: 0, A: F64(v), Src: randSrc(anyY())})
	}
	// Binomial up to N = 1000, Hypergeometric up to N = 1000: levels at and next to cumulative levels
	discLevels := func(cdf func(float64) float64, lo, hi int) []float64 {
		cdf = c07SafeCDF(cdf)
		var ys []float64
		for j := 0; j < 5; j++ {
			c := cdf(float64(lo + rng.Intn(hi-lo+1)))
			if c > 0 && c < 1 {
				ys = append(ys, c, math.Nextafter(c, 2), math.Nextafter(c, -1))
			}
		}
		return ys
	}
	for i := 0; i < 40*mul; i++ {
		n := 1 + rng.Intn(1000)
		if i%4 == 0 {
			n = []int{1000, 999, 500, 201, 200, 100, 64, 1, 2, 0}[(i/4)%10]
		}
		p := rng.Float64()
		switch rng.Intn(4) {
		case 0:
			p = float64(rng.Intn(65)) / 64
		case 1:
			p = math.Pow(10, -4*rng.Float64())
		}
		d := stats.BinomialDist{N: n, P: p}
		emit(c07Case{Op: 6, Kind: 3, N: n, P: F64(p), Ys: toF64s(relLevels(discLevels(d.CDF, 0, n)...)), Seeds: seeds()})
		emit(c07Case{Op: 7, Kind: 3, N: n, P: F64(p), Src: randSrc(anyY())})
	}
	for i := 0; i < 40*mul; i++ {
		n := 1 + rng.Intn(1000)
		if i%4 == 0 {
			n = []int{1000, 999, 500, 201, 200, 100, 64, 1, 2, 3}[(i/4)%10]
		}
		k, dr := rng.Intn(n+1), rng.Intn(n+1)
		d := stats.HypergeometicDist{N: n, K: k, Draws: dr}
		lo, hi := dr+k-n, dr
		if lo < 0 {
			lo = 0
		}
		if k < hi {
			hi = k
		}
		emit(c07Case{Op: 6, Kind: 4, N: n, K: k, D: dr, Ys: toF64s(relLevels(discLevels(d.CDF, lo, hi)...)), Seeds: seeds()})
		emit(c07Case{Op: 7, Kind: 4, N: n, K: k, D: dr, Src: randSrc(anyY())})
	}
	// NormalDist (own InvCDF and Rand), DeltaDist (own InvCDF)
	for i := 0; i < 30*mul; i++ {
		mu := genValue(rng, rng.Intn(4))
		sigma := math.Abs(genValue(rng, 1+rng.Intn(3))) + math.Ldexp(1, -30)
		if i%5 == 0 {
			mu, sigma = []float64{0, 1e6, -1e6, 1e50, 3}[(i/5)%5], []float64{1, 1e-6, 1e6, 1e40, 1e-50}[(i/5)%5]
		}
		emit(c07Case{Op: 6, Kind: 5, A: F64(mu), B: F64(sigma), Ys: toF64s(relLevels()), Seeds: seeds()})
		emit(c07Case{Op: 7, Kind: 5, A: F64(mu), B: F64(sigma), Src: randSrc(anyY())})
		t := genValue(rng, rng.Intn(4))
		emit(c07Case{Op: 6, Kind: 6, A: F64(t), Ys: toF64s(relLevels()), Seeds: seeds()})
		emit(c07Case{Op: 7, Kind: 6, A: F64(t), Src: randSrc(anyY())})
	}
	// harness geometric / Poisson: infinite support, approximate Bounds, lattice with any step
	steps := []float64{1, 1, 0.5, 0.25, 2, 3, 10, 1.0 / 1024, 4096}
	for i := 0; i < 60*mul; i++ {
		s := steps[rng.Intn(len(steps))]
		a := s * float64(rng.Intn(41)-20)
		if rng.Intn(4) == 0 {
			a = s * float64(rng.Intn(2000001)-1000000)
		}
		if i%2 == 0 {
			p := []float64{0.05, 0.5, 0.25, 0.01, 0.9, 0.001}[rng.Intn(6)]
			if rng.Intn(3) == 0 {
				p = 0.001 + 0.99*rng.Float64()
			}
			eps := []float64{1e-4, 1e-4, 1e-2, 0.3, 1e-9, 1e-15}[rng.Intn(6)]
			low := float64(rng.Intn(2) * rng.Intn(10))
			c := c07Case{Kind: 7, P: F64(p), A: F64(a), B: F64(s), Xs: toF64s([]float64{eps, low})}
			dist, err := c07RelDist(&c)
			if err != nil {
				continue
			}
			g := dist.(*c07Geom)
			_, bh := g.Bounds()
			cut := g.CDF(bh)
			var lv []float64
			for j := 0; j < 4; j++ {
				cc := g.CDF(a + s*float64(rng.Intn(1+int((bh-a)/s))))
				lv = append(lv, cc, math.Nextafter(cc, 2), math.Nextafter(cc, -1))
			}
			c.Op, c.Ys, c.Seeds = 6, toF64s(relLevels(append(lv, cut+(1-cut)/2, cut+(1-cut)*rng.Float64(), 1-(1-cut)/1024)...)), seeds()
			emit(c)
			for j := 0; j < 3; j++ {
				y := cut + (1-cut)*rng.Float64() // in the tail the Bounds cut off
				if j == 2 {
					y = anyY()
				}
				if !(y > 0 && y < 1) {
					y = 0.5
				}
				c2 := c
				c2.Op, c2.Ys, c2.Seeds, c2.Src = 7, nil, nil, randSrc(y)
				emit(c2)
			}
		} else {
			lam := []float64{0.5, 1, 4, 10, 30, 100}[rng.Intn(6)]
			if rng.Intn(3) == 0 {
				lam = 0.02 + 150*rng.Float64()
			}
			w := []float64{3, 3, 4, 1, 0, 8}[rng.Intn(6)]
			c := c07Case{Kind: 8, P: F64(lam), A: F64(a), B: F64(s), Xs: toF64s([]float64{w})}
			dist, err := c07RelDist(&c)
			if err != nil {
				continue
			}
			d := dist.(*c07Pois)
			_, bh := d.Bounds()
			cut := d.CDF(bh)
			var lv []float64
			for j := 0; j < 4; j++ {
				cc := d.cum[rng.Intn(len(d.cum))]
				if cc > 0 && cc < 1 {
					lv = append(lv, cc, math.Nextafter(cc, 2), math.Nextafter(cc, -1))
				}
			}
			if cut < 1 {
				lv = append(lv, cut+(1-cut)/2, cut+(1-cut)*rng.Float64(), 1-(1-cut)/1024)
			}
			c.Op, c.Ys, c.Seeds = 6, toF64s(relLevels(lv...)), seeds()
			emit(c)
			for j := 0; j < 3; j++ {
				y := cut + (1-cut)*rng.Float64()
				if j == 2 || !(y > 0 && y < 1) {
					y = anyY()
				}
				c2 := c
				c2.Op, c2.Ys, c2.Seeds, c2.Src = 7, nil, nil, randSrc(y)
				emit(c2)
			}
		}
	}
	// harness distributions with infinite support that are not piecewise linear: mixed (atom + exponential
	// tail) and continuous with power-law tails (quantiles up to 1e260 scales out)
	for i := 0; i < 30*mul; i++ {
		a := genValue(rng, rng.Intn(4))
		sc := math.Ldexp(1, rng.Intn(41)-20)
		if i%2 == 0 {
			w := []float64{0, 0.25, 0.5, 0.9375, 0.3}[rng.Intn(5)]
			c := c07Case{Kind: 9, A: F64(a), B: F64(sc), P: F64(w)}
			c.Op, c.Ys, c.Seeds = 6, toF64s(relLevels(w, w/2, math.Nextafter(w, 2), 1-math.Exp(-20)/2, 1-1e-12)), seeds()
			emit(c)
			c2 := c07Case{Op: 7, Kind: 9, A: F64(a), B: F64(sc), P: F64(w), Src: randSrc(anyY())}
			emit(c2)
		} else {
			al := []float64{0.01, 0.02, 0.1, 0.5, 1, 3, 30}[rng.Intn(7)]
			if sc == 0.5 && os.Getenv("VERIF_C07_TINY") == "" {
				// (hK) scale 1/2 makes c07Power's own z = (x-a)/s overflow exactly from x = 2^1023 on, so for
				// alpha = 0.01 and a level beyond 0.9996 the implemented cdf jumps to 1 AT 2^1023: the quantile
				// sits in the last ulp below 2^1023, where bisectBool's midpoint (high+low)/2 overflows and +Inf
				// is returned although CDF(2^1023) >= y - the observation that DESIGN (round 2, item 12) lists as
				// outside the property's quantification and that block "opt-in (VERIF_C07_TINY=1)" above
				// generates on purpose. It turned up unasked in the thorough tier
				// ({"op":6,"kind":10,"p":0.01,"a":1,"b":0.5,"ys":[0.999999]}) once a new generator block shifted the
				// random stream; the scale 1/4 puts the jump at 2^1022 (no rng draw is added or removed).
				sc = 0.25
			}
			c := c07Case{Kind: 10, A: F64(a), B: F64(sc), P: F64(al)}
			c.Op, c.Ys, c.Seeds = 6, toF64s(relLevels(1e-6, 1-1e-6)), seeds()
			emit(c)
			emit(c07Case{Op: 7, Kind: 10, A: F64(a), B: F64(sc), P: F64(al), Src: randSrc(anyY())})
		}
	}
	// ---- (l) Kolmogorov-Smirnov distance of stats.Rand's draws to the distribution's OWN cdf, for every built-in
	// (and the harness distributions), whatever generator stats.Rand returns for it: the own Rand method of the
	// distributions that have one, the generic generator for the others.  KDE: the three kernels x unweighted /
	// strongly weighted samples x no / lower / upper / both reflecting boundaries (deterministic)
	nd := 2048
	if tier == "thorough" {
		nd = 8192
	}
	kdeXs := toF64s([]float64{0, 4, 10, 11, 1.5})
	for kern := 0; kern < 3; kern++ {
		for _, wts := range [][]int{nil, {6, 3, 1, 1, 12}, {1, 0, 0, 20, 1}} {
			for bd := 0; bd <= 3; bd++ {
				emit(c07Case{Op: 10, Kind: 2, Xs: kdeXs, T: wts, B: F64(1.5), D: kern, K: bd, A: F64(0.5), Draws: nd / 4, Seeds: []int64{rng.Int63()}})
			}
		}
	}
	for i := 0; i < 4*mul; i++ {
		n := 2 + rng.Intn(8)
		xs := make([]float64, n)
		wts := make([]int, n)
		for j := range xs {
			xs[j] = float64(rng.Intn(129)-64) / 4
			wts[j] = []int{0, 1, 1, 2, 10, 50}[rng.Intn(6)]
		}
		wts[rng.Intn(n)] = 7 // at least one positive weight
		emit(c07Case{Op: 10, Kind: 2, Xs: toF64s(xs), T: wts, B: F64(float64(1+rng.Intn(8)) / 4), D: rng.Intn(3), K: rng.Intn(4), A: F64(float64(rng.Intn(5)) / 2), Draws: nd, Seeds: []int64{rng.Int63()}})
	}
	ksd := func(c c07Case) {
		c.Op, c.Draws, c.Seeds = 10, nd, []int64{rng.Int63()}
		emit(c)
	}
	ksd(c07Case{Kind: 0, A: 3})
	ksd(c07Case{Kind: 0, A: F64(math.Pow(10, -1+8*rng.Float64()))})
	ksd(c07Case{Kind: 1, N: 3, K: 4})
	ksd(c07Case{Kind: 1, N: 4, K: 3, T: []int{2, 1, 3, 1}})
	ksd(c07Case{Kind: 3, N: 1 + rng.Intn(300), P: F64(rng.Float64())})
	ksd(c07Case{Kind: 3, N: 20, P: 0.25})
	ksd(c07Case{Kind: 4, N: 60, K: 25, D: 30})
	ksd(c07Case{Kind: 4, N: 2 + rng.Intn(200), K: 1, D: 1})
	ksd(c07Case{Kind: 5, A: 0, B: 1})
	ksd(c07Case{Kind: 5, A: F64(genValue(rng, rng.Intn(4))), B: F64(math.Ldexp(1, rng.Intn(41)-20))})
	ksd(c07Case{Kind: 6, A: F64(genValue(rng, rng.Intn(4)))})
	ksd(c07Case{Kind: 7, P: 0.05, A: 0, B: 1, Xs: toF64s([]float64{1e-4, 0})})
	ksd(c07Case{Kind: 8, P: 4, A: -3, B: 0.5, Xs: toF64s([]float64{3})})
	ksd(c07Case{Kind: 9, A: 1, B: 2, P: 0.25})
	ksd(c07Case{Kind: 10, A: 0, B: 1, P: 1})
	// UDist and KDE through Rand as well
	for i := 0; i < 20*mul; i++ {
		n1, n2 := 1+rng.Intn(5), 1+rng.Intn(5)
		emit(c07Case{Op: 7, Kind: 1, N: n1, K: n2, Src: randSrc(anyY())})
		n := 1 + rng.Intn(8)
		xs := make([]float64, n)
		for j := range xs {
			xs[j] = float64(rng.Intn(65)-32) / 8
		}
		sort.Float64s(xs)
		emit(c07Case{Op: 7, Kind: 2, Xs: toF64s(xs), B: F64(float64(1+rng.Intn(8)) / 4), D: rng.Intn(3), Src: randSrc(0.001 + 0.998*rng.Float64())})
		emit(c07Case{Op: 6, Kind: 2, Xs: toF64s(xs), B: F64(float64(1+rng.Intn(8)) / 4), D: 1 + rng.Intn(2), Ys: toF64s(relLevels()), Seeds: seeds()})
		wts := make([]int, n)
		for j := range wts {
			wts[j] = 1 + rng.Intn(9)
		}
		emit(c07Case{Op: 7, Kind: 2, Xs: toF64s(xs), T: wts, B: F64(float64(1+rng.Intn(8)) / 4), D: rng.Intn(3), K: rng.Intn(4), A: F64(float64(rng.Intn(5)) / 2), Src: randSrc(0.001 + 0.998*rng.Float64())})
	}
	// ---- (k) "exactly 0 (1)": the cdf at the lower (upper) bound is positive but tiny (below 1 by one ulp);
	// the end point is NOT returned
	for _, tiny := range []float64{math.Ldexp(1, -52), math.Ldexp(1, -60), math.Ldexp(1, -300), math.Ldexp(1, -1000)} {
		for _, t := range []float64{0, 1, -3, 1e6} {
			ys := toF64s([]float64{0, 1, tiny, tiny / 2, 0.5, 1 - math.Ldexp(1, -53)})
			// jump of height tiny at the lower bound; the cdf reaches 1 - 2^-53 at the upper bound and 1 one step later
			emit(c07Case{Op: 0, Knots: []c07Knot{{X: F64(t), L: 0, V: F64(tiny)}, {X: F64(t + 1), L: F64(tiny), V: F64(1 - math.Ldexp(1, -53))}, {X: F64(t + 2), L: F64(1 - math.Ldexp(1, -53)), V: 1}},
				Bl: F64(t), Bh: F64(t + 1), Ys: ys})
			emit(c07Case{Op: 0, Knots: []c07Knot{{X: F64(t), L: 0, V: F64(tiny)}, {X: F64(t + 1), L: F64(tiny), V: F64(1 - math.Ldexp(1, -53))}, {X: F64(t + 2), L: F64(1 - math.Ldexp(1, -53)), V: 1}},
				Step: 1, Bl: F64(t), Bh: F64(t + 1), Ys: ys})
			// the same with the bounds one step further out: there the cdf IS exactly 0 / 1
			emit(c07Case{Op: 0, Knots: []c07Knot{{X: F64(t), L: 0, V: F64(tiny)}, {X: F64(t + 1), L: F64(tiny), V: F64(1 - math.Ldexp(1, -53))}, {X: F64(t + 2), L: F64(1 - math.Ldexp(1, -53)), V: 1}},
				Bl: F64(t - 1), Bh: F64(t + 2), Ys: ys})
		}
	}
}

// c07GenPW relocated: the same shapes around the centre c (|c| >= 2^22), step 2^(e-1-j), j < 8
func c07GenPWAt(rng *rand.Rand, c float64) ([]c07Knot, float64) {
	knots, step0 := c07GenPW(rng)
	base := float64(knots[0].X)
	_, ce := math.Frexp(math.Abs(c))
	step := math.Ldexp(1, ce-2-rng.Intn(8))
	out := make([]c07Knot, len(knots))
	for i, k := range knots {
		// offsets from the first knot are multiples of step0/4 (or full-mantissa): rescale them
		off := (float64(k.X) - base) / step0
		out[i] = c07Knot{X: F64(c + off*step), L: k.L, V: k.V}
	}
	for i := 1; i < len(out); i++ { // rescaling a full-mantissa offset can round two break points together
		if !(float64(out[i].X) > float64(out[i-1].X)) {
			return c07GenPWAt(rng, c)
		}
	}
	return out, step
}

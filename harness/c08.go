package main

import (
	"encoding/json"
	"fmt"
	"math"
	"math/rand"
	"sort"
	"strconv"

	"github.com/aclements/go-moremath/mathx"
)

// C08: mathx special functions.
//
//	op 1  Choose/Lchoose row n, k = Ks (default -2..n+2)
//	op 2  Sign over Xs
//	op 3  BetaInc grid: (A,B), Xs (sorted by the generator); also BetaInc(1-x, B, A)
//	op 4  GammaInc/GammaIncComp grid: A, Xs
//	op 5  Beta over pairs (Xs[2i], Xs[2i+1])
//	op 6  monotonicity scan in x (hb_scan.go): Fn, A (, B), [Lo,Hi] in N cells
//	op 7  Beta laws over pairs (Xs[2i], Xs[2i+1]): Beta(a,b), Beta(a+1,b), Beta(b,a)
type c08Case struct {
	Op int   `json:"op"`
	N  int   `json:"n,omitempty"`
	Ks []int `json:"ks,omitempty"`
	A  F64   `json:"a,omitempty"`
	B  F64   `json:"b,omitempty"`
	Xs []F64 `json:"xs,omitempty"`
	// op 2: further arguments given as IEEE-754 bit patterns (hexadecimal): JSON cannot carry the sign bit or
	// the payload of a NaN
	Bits []string `json:"bits,omitempty"`
	Fn   int      `json:"fn,omitempty"` // op 6: 1 BetaInc(.,A,B), 2 GammaInc(A,.), 3 GammaIncComp(A,.)
	Lo   F64      `json:"lo,omitempty"` // op 6: scan range, N cells
	Hi   F64      `json:"hi,omitempty"`
}

func c08Run(raw []byte) (*Line, error) {
	var c c08Case
	if err := json.Unmarshal(raw, &c); err != nil {
		return nil, err
	}
	l := &Line{}
	l.I(8).I(c.Op)
	switch c.Op {
	case 1:
		if c.N < 0 || c.N > 2000 {
			return nil, fmt.Errorf("n out of range")
		}
		ks := c.Ks
		if len(ks) == 0 {
			for k := -2; k <= c.N+2; k++ {
				ks = append(ks, k)
			}
		}
		l.I(c.N).I(len(ks))
		for _, k := range ks {
			if k < -1000000 || k > 1000000 {
				return nil, fmt.Errorf("k out of range")
			}
			l.I(k).F(mathx.Choose(c.N, k)).F(mathx.Lchoose(c.N, k))
		}
	case 2:
		var args []float64
		for _, x := range c.Xs {
			args = append(args, float64(x))
		}
		for _, b := range c.Bits {
			u, err := strconv.ParseUint(b, 16, 64)
			if err != nil {
				return nil, fmt.Errorf("bad bit pattern %q", b)
			}
			args = append(args, math.Float64frombits(u))
		}
		l.I(len(args))
		for _, x := range args {
			o := mathx.Sign(float64(x))
			if o == 0 && math.Signbit(o) {
				// the line format identifies -0 with +0; the documented result for x == 0 is the
				// constant 0, so a negative zero is reported as the smallest negative number
				o = -math.SmallestNonzeroFloat64
			}
			l.F(float64(x)).F(o)
		}
	case 3:
		a, b := float64(c.A), float64(c.B)
		if !(a >= 0.05 && b >= 0.05 && a <= 300 && b <= 300) {
			return nil, fmt.Errorf("a, b must lie in the property's range [0.05, 300]")
		}
		l.F(a).F(b).I(len(c.Xs))
		for _, xf := range c.Xs {
			x := float64(xf)
			x1 := 1 - x
			var v, v1 float64
			status := 0
			if p, _ := catch(func() { v = mathx.BetaInc(x, a, b); v1 = mathx.BetaInc(x1, b, a) }); p {
				status = 2
			}
			l.F(x).F(x1).I(status).F(v).F(v1)
		}
	case 4:
		a := float64(c.A)
		l.F(a).I(len(c.Xs))
		for _, xf := range c.Xs {
			x := float64(xf)
			if math.IsInf(x, 1) || math.IsInf(a, 1) {
				return nil, fmt.Errorf("infinite arguments are not generated")
			}
			var p, q float64
			status := 0
			if pan, _ := catch(func() { p = mathx.GammaInc(a, x); q = mathx.GammaIncComp(a, x) }); pan {
				status = 2
			}
			l.F(x).I(status).F(p).F(q)
		}
	case 5:
		if len(c.Xs)%2 != 0 {
			return nil, fmt.Errorf("pairs expected")
		}
		l.I(len(c.Xs) / 2)
		for i := 0; i+1 < len(c.Xs); i += 2 {
			a, b := float64(c.Xs[i]), float64(c.Xs[i+1])
			l.F(a).F(b).F(mathx.Beta(a, b))
		}
	case 7:
		if len(c.Xs)%2 != 0 {
			return nil, fmt.Errorf("pairs expected")
		}
		l.I(len(c.Xs) / 2)
		for i := 0; i+1 < len(c.Xs); i += 2 {
			a, b := float64(c.Xs[i]), float64(c.Xs[i+1])
			if !(a > 0 && b > 0) || math.IsInf(a, 0) || math.IsInf(b, 0) {
				return nil, fmt.Errorf("a, b must be positive and finite")
			}
			a1 := a + 1
			l.F(a).F(b).F(a1).F(mathx.Beta(a, b)).F(mathx.Beta(a1, b)).F(mathx.Beta(b, a))
		}
	case 6:
		a, b := float64(c.A), float64(c.B)
		lo, hi := float64(c.Lo), float64(c.Hi)
		if !(a > 0) || math.IsInf(a, 0) || !(lo < hi) || math.IsInf(lo, 0) || math.IsInf(hi, 0) || c.N < 8 || c.N > 2000000 {
			return nil, fmt.Errorf("bad scan")
		}
		var f func(float64) float64
		dir := 1.0
		switch c.Fn {
		case 1:
			if !(a >= 0.05 && b >= 0.05 && a <= 300 && b <= 300) || lo < 0 || hi > 1 {
				return nil, fmt.Errorf("bad scan")
			}
			f = func(x float64) float64 { return mathx.BetaInc(x, a, b) }
		case 2:
			if lo < 0 {
				return nil, fmt.Errorf("bad scan")
			}
			b = 0
			f = func(x float64) float64 { return mathx.GammaInc(a, x) }
		case 3:
			if lo < 0 {
				return nil, fmt.Errorf("bad scan")
			}
			b, dir = 0, -1
			f = func(x float64) float64 { return mathx.GammaIncComp(a, x) }
		default:
			return nil, fmt.Errorf("bad fn")
		}
		var pairs []scanPair
		status := 0
		if p, _ := catch(func() { pairs = monoScan(f, lo, hi, c.N, dir, 4) }); p {
			status, pairs = 2, nil
		}
		l.I(c.Fn).F(a).F(b).F(lo).F(hi).I(c.N).I(status).I(len(pairs))
		for _, p := range pairs {
			l.F(p.Lo).F(p.Hi).F(p.FLo).F(p.FHi)
		}
	default:
		return nil, fmt.Errorf("bad op")
	}
	return l, nil
}

// log-uniform dyadic parameter in [lo, hi] with den fractional bits
func c08Param(rng *rand.Rand, lo, hi float64, den float64) float64 {
	v := math.Exp(math.Log(lo) + rng.Float64()*(math.Log(hi)-math.Log(lo)))
	v = math.Round(v*den) / den
	if v < lo {
		v = math.Ceil(lo*den) / den
	}
	if v > hi {
		v = math.Floor(hi*den) / den
	}
	return v
}

func c08SortedUnique(xs []float64) []F64 {
	sort.Float64s(xs)
	var r []F64
	for i, x := range xs {
		if i > 0 && x == xs[i-1] {
			continue
		}
		r = append(r, F64(x))
	}
	return r
}

// the floats around the switch-over of BetaInc(., a, b), x = fl((a+1)/(a+b+2)) with 4 neighbours on each
// side, and around the mirrored switch-over of the reflected call BetaInc(1-x, b, a), 1-x = fl((b+1)/(a+b+2)):
// where the two evaluation branches (and a recursive reformulation of them) meet
func c08Switch(a, b float64) []float64 {
	var xs []float64
	around := func(c float64) {
		lo, hi := c, c
		xs = append(xs, c)
		for i := 0; i < 4; i++ {
			lo, hi = math.Nextafter(lo, 0), math.Nextafter(hi, 1)
			xs = append(xs, lo, hi)
		}
	}
	thr := (a + 1) / (a + b + 2)
	around(thr)
	around(1 - (b+1)/(a+b+2))
	return xs
}

// x grid for BetaInc(., a, b): dyadic grid, points near 0 and 1, the mean and the
// switch-over x = (a+1)/(a+b+2) with its float neighbours; all inside [0,1].
func c08BetaGrid(rng *rand.Rand, a, b float64, den float64, extra bool) []float64 {
	var xs []float64
	for k := 0.0; k <= den; k++ {
		xs = append(xs, k/den)
	}
	thr := (a + 1) / (a + b + 2)
	mean := a / (a + b)
	fine := 4096.0
	xs = append(xs, math.Floor(thr*fine)/fine, math.Ceil(thr*fine)/fine, math.Floor(mean*fine)/fine, math.Ceil(mean*fine)/fine)
	if extra {
		xs = append(xs, mean)
		xs = append(xs, c08Switch(a, b)...)
		for _, e := range []float64{10, 20, 30, 40, 52} {
			xs = append(xs, math.Ldexp(1, int(-e)), 1-math.Ldexp(1, int(-e)))
		}
		xs = append(xs, math.Ldexp(1, -200), 1e-300, 5e-324)
		for i := 0; i < 4; i++ {
			xs = append(xs, math.Round(rng.Float64()*1048576)/1048576)
		}
	}
	var in []float64
	for _, x := range xs {
		if x >= 0 && x <= 1 {
			in = append(in, x)
		}
	}
	return in
}

func c08Gen(tier string, rng *rand.Rand, emit func(interface{})) {
	thorough := tier == "thorough"
	// ---- op 1: Choose/Lchoose, exhaustively all (n,k), n <= 1000, k = -2..n+2
	//      (quick tier: all n <= 200, then every 13th row, plus 999 and 1000)
	for n := 0; n <= 1000; n++ {
		if thorough || n <= 200 || n%13 == 0 || n >= 999 {
			emit(c08Case{Op: 1, N: n})
		}
	}
	// far out-of-range k
	emit(c08Case{Op: 1, N: 20, Ks: []int{-1000, -1, 0, 1, 10, 19, 20, 21, 40, 1000}})
	emit(c08Case{Op: 1, N: 21, Ks: []int{-1000, -1, 0, 1, 10, 20, 21, 22, 40, 1000}})
	// ---- op 2: Sign
	sx := []F64{0, F64(math.Copysign(0, -1)), 1, -1, 5e-324, -5e-324, F64(math.MaxFloat64), F64(-math.MaxFloat64),
		F64(math.Inf(1)), F64(math.Inf(-1)), F64(math.NaN()), 0.5, -0.5, 1e-300, -1e-300}
	for i := 0; i < 40; i++ {
		sx = append(sx, F64(genValue(rng, rng.Intn(4))))
	}
	// bit patterns: NaNs with the sign bit set and various payloads (quiet, signalling, all ones), +-0, +-Inf,
	// the smallest and largest denormals, the smallest normals
	sb := []string{"fff8000000000000", "7ff8000000000000", "7ff8000000000001", "fff8000000000001", "fff0000000000001", "7ff0000000000001",
		"ffffffffffffffff", "7fffffffffffffff", "fff4000000000000", "7ff4000000000000", "8000000000000000", "0", "8000000000000001", "1",
		"800fffffffffffff", "fffffffffffff", "fff0000000000000", "7ff0000000000000", "10000000000000", "8010000000000000"}
	for i := 0; i < 24; i++ {
		// random NaN payloads, both signs, quiet and signalling
		u := uint64(0x7ff0000000000000) | (rng.Uint64() & 0x000fffffffffffff) | 1
		if i%2 == 0 {
			u |= 1 << 63
		}
		sb = append(sb, strconv.FormatUint(u, 16))
	}
	emit(c08Case{Op: 2, Xs: sx, Bits: sb})
	// ---- op 3: BetaInc
	outside := []float64{-0.5, 1.5, -5e-324, math.Nextafter(1, 2), -1e300, 1e300, math.Inf(1), math.Inf(-1), math.NaN()}
	// (i) integer parameters, exhaustive small
	maxSmall := 6
	if thorough {
		maxSmall = 12
	}
	for a := 1; a <= maxSmall; a++ {
		for b := 1; b <= maxSmall; b++ {
			xs := c08BetaGrid(rng, float64(a), float64(b), 32, a <= 3 && b <= 3)
			c := c08Case{Op: 3, A: F64(a), B: F64(b), Xs: c08SortedUnique(xs)}
			if a == b || a+b == 5 {
				for _, o := range outside {
					c.Xs = append(c.Xs, F64(o))
				}
			}
			emit(c)
		}
	}
	// (ii) integer parameters, random up to 300 (coarser grids for large a+b: exact arithmetic cost)
	nInt := 60
	if thorough {
		nInt = 1500
	}
	for it := 0; it < nInt; it++ {
		a := math.Round(c08Param(rng, 1, 300, 1))
		b := math.Round(c08Param(rng, 1, 300, 1))
		den := 16.0
		if a+b > 150 {
			den = 8
		}
		xs := c08BetaGrid(rng, a, b, den, false)
		if a+b > 150 {
			xs = xs[:0]
			for k := 0.0; k <= den; k++ {
				xs = append(xs, k/den)
			}
			thr := (a + 1) / (a + b + 2)
			xs = append(xs, math.Floor(thr*64)/64, math.Ceil(thr*64)/64)
		}
		emit(c08Case{Op: 3, A: F64(a), B: F64(b), Xs: c08SortedUnique(xs)})
	}
	// (iii) real parameters in [0.05, 300], log-uniform, dyadic with 6 fractional bits;
	//       half-integers >= 1 get their own stream (certifiable by sqrt/pow integrals)
	nReal := 150
	if thorough {
		nReal = 4000
	}
	for it := 0; it < nReal; it++ {
		var a, b float64
		switch it % 3 {
		case 0:
			a, b = c08Param(rng, 0.05, 300, 64), c08Param(rng, 0.05, 300, 64)
		case 1: // half-integers
			a, b = c08Param(rng, 1, 40, 2), c08Param(rng, 1, 40, 2)
		default: // one small, one arbitrary; full-mantissa doubles
			a = math.Exp(math.Log(0.05) + rng.Float64()*math.Log(20))
			b = math.Exp(math.Log(0.05) + rng.Float64()*math.Log(6000))
			if rng.Intn(2) == 0 {
				a, b = b, a
			}
		}
		xs := c08BetaGrid(rng, a, b, 16, true)
		c := c08Case{Op: 3, A: F64(a), B: F64(b), Xs: c08SortedUnique(xs)}
		if it%10 == 0 {
			for _, o := range outside {
				c.Xs = append(c.Xs, F64(o))
			}
		}
		emit(c)
	}
	// (iv) non-dyadic parameters (decimal fractions, thirds, sevenths): the computed switch-over values are not
	//      exact there; only the floats around the two switch-overs and a few interior points
	nDec := 250
	if thorough {
		nDec = 6000
	}
	decParam := func() float64 {
		switch rng.Intn(4) {
		case 0:
			return float64(1+rng.Intn(60)) / 10
		case 1:
			return float64(1+rng.Intn(3000)) / 10
		case 2:
			return float64(1+rng.Intn(90)) / 3
		default:
			return float64(1+rng.Intn(200)) / 7
		}
	}
	for it := 0; it < nDec; it++ {
		a, b := decParam(), decParam()
		if it == 0 {
			a, b = 0.1, 2.2
		}
		xs := append(c08Switch(a, b), 0, 0.25, 0.5, 0.75, 1)
		var in []float64
		for _, x := range xs {
			if x >= 0 && x <= 1 {
				in = append(in, x)
			}
		}
		emit(c08Case{Op: 3, A: F64(a), B: F64(b), Xs: c08SortedUnique(in)})
	}
	// corners of the parameter range
	for _, a := range []float64{0.05, 300} {
		for _, b := range []float64{0.05, 1, 300} {
			emit(c08Case{Op: 3, A: F64(a), B: F64(b), Xs: c08SortedUnique(c08BetaGrid(rng, a, b, 16, true))})
			emit(c08Case{Op: 3, A: F64(b), B: F64(a), Xs: c08SortedUnique(c08BetaGrid(rng, b, a, 16, true))})
		}
	}
	// ---- op 4: GammaInc / GammaIncComp
	gammaGrid := func(a float64) []F64 {
		xs := []float64{0, math.Copysign(0, -1), 5e-324, 1e-300, math.Ldexp(1, -40), math.Ldexp(1, -10)}
		for k := 1.0; k <= 24; k++ {
			xs = append(xs, a*k/8)
		}
		sw := a + 1
		xs = append(xs, sw, math.Nextafter(sw, 0), math.Nextafter(sw, math.Inf(1)), math.Floor(sw), math.Ceil(sw)+1)
		xs = append(xs, a+10, a+50, 3*a+100, 1000)
		// far tail ("x >= 0"): the prefactor x^a e^-x / Gamma(a) must underflow to 0, not overflow on the way
		xs = append(xs, 1e4, 1e6, 1e10, 1e25, 1e100, 1e300, math.MaxFloat64)
		for i := 0; i < 3; i++ {
			xs = append(xs, math.Round(rng.Float64()*2*(a+1)*1024)/1024)
		}
		return c08SortedUnique(xs)
	}
	nG := 120
	if thorough {
		nG = 3000
	}
	for a := 1; a <= 12; a++ {
		emit(c08Case{Op: 4, A: F64(a), Xs: gammaGrid(float64(a))})
	}
	for it := 0; it < nG; it++ {
		var a float64
		switch it % 4 {
		case 0:
			a = math.Round(c08Param(rng, 1, 300, 1))
		case 1:
			a = c08Param(rng, 0.5, 150, 2)
		case 2:
			a = c08Param(rng, 0.05, 300, 64)
		default:
			a = math.Exp(math.Log(0.05) + rng.Float64()*math.Log(6000))
		}
		emit(c08Case{Op: 4, A: F64(a), Xs: gammaGrid(a)})
	}
	emit(c08Case{Op: 4, A: 0.05, Xs: gammaGrid(0.05)})
	emit(c08Case{Op: 4, A: 300, Xs: gammaGrid(300)})
	// NaN domain: a <= 0, x < 0, NaN arguments
	nanXs := []F64{0, 1, 2.5, -1, F64(-5e-324), F64(math.NaN()), F64(math.Inf(-1)), -1e300}
	for _, a := range []float64{0, math.Copysign(0, -1), -1, -0.5, math.NaN(), math.Inf(-1), -5e-324, 1, 2.5} {
		emit(c08Case{Op: 4, A: F64(a), Xs: nanXs})
	}
	// ---- op 6: monotonicity scans in x (discontinuity hunt, hb_scan.go) over the central mass
	cells := 200000
	betaScan := [][2]float64{{0.3, 0.7}, {2.5, 3.5}, {125, 0.5}, {150, 150}, {300, 300}, {171.65, 0.5}}
	gammaScan := []float64{0.7, 5, 120, 300}
	if thorough {
		cells = 1000000
		betaScan = append(betaScan, [2]float64{0.05, 0.05}, [2]float64{1, 1}, [2]float64{50.25, 0.5}, [2]float64{300, 0.05}, [2]float64{17, 230.5})
		gammaScan = append(gammaScan, 0.05, 1, 2.5, 30, 75.5, 200.25)
		for i := 0; i < 8; i++ {
			betaScan = append(betaScan, [2]float64{c08Param(rng, 0.05, 300, 64), c08Param(rng, 0.05, 300, 64)})
			gammaScan = append(gammaScan, c08Param(rng, 0.05, 300, 64))
		}
	}
	for _, ab := range betaScan {
		a, b := ab[0], ab[1]
		mean := a / (a + b)
		sd := math.Sqrt(a * b / ((a + b) * (a + b) * (a + b + 1)))
		lo, hi := math.Max(1.0/1024, mean-7*sd), math.Min(1-1.0/1024, mean+7*sd)
		emit(c08Case{Op: 6, Fn: 1, A: F64(a), B: F64(b), Lo: F64(lo), Hi: F64(hi), N: cells})
	}
	for _, a := range gammaScan {
		lo, hi := math.Max(1.0/64, a-7*math.Sqrt(a)), a+9*math.Sqrt(a)+12
		emit(c08Case{Op: 6, Fn: 2, A: F64(a), Lo: F64(lo), Hi: F64(hi), N: cells})
		emit(c08Case{Op: 6, Fn: 3, A: F64(a), Lo: F64(lo), Hi: F64(hi), N: cells})
	}
	// ---- dense deterministic parameter sweeps (laws only: range, monotone, reflection / P+Q = 1, NaN-freeness):
	//      a = k/8 up to 300 against a few non-integer b, short x grids.  A wrong fast path for a window of
	//      parameters (a table limit, an overflow threshold) shows as a non-finite or out-of-range value.
	step := 8
	if thorough {
		step = 32
	}
	for k := 1; k <= 300*step; k++ {
		a := float64(k) / float64(step)
		if a < 0.05 {
			continue
		}
		b := []float64{0.5, 2.25, 30.75, 171.625}[k%4]
		xs := []float64{0, 0.0625, 0.25, 0.5, 0.75, 0.9375, 1, a / (a + b), (a + 1) / (a + b + 2)}
		emit(c08Case{Op: 3, A: F64(a), B: F64(b), Xs: c08SortedUnique(xs)})
		emit(c08Case{Op: 4, A: F64(a), Xs: c08SortedUnique([]float64{0, a / 4, a / 2, a, a + 1, a + 1.5, 2 * a, 2*a + 20, 1e4})})
	}
	// ---- op 7: Beta laws on a dense grid (every a = k/4 up to 300 against 8 values of b)
	var lawXs []F64
	for k := 1; k <= 1200; k++ {
		for _, b := range []float64{0.05, 0.5, 1, 2.25, 10.25, 100, 171.625, 300} {
			lawXs = append(lawXs, F64(float64(k)/4), F64(b))
		}
		if len(lawXs) >= 1600 || k == 1200 {
			emit(c08Case{Op: 7, Xs: lawXs})
			lawXs = nil
		}
	}
	// ---- op 5: Beta(a,b)
	var bx []F64
	for a := 1; a <= 8; a++ {
		for b := 1; b <= 8; b++ {
			bx = append(bx, F64(float64(a)/2), F64(float64(b)/2))
		}
	}
	emit(c08Case{Op: 5, Xs: bx})
	nB := 6
	if thorough {
		nB = 100
	}
	for it := 0; it < nB; it++ {
		var xs []F64
		for i := 0; i < 40; i++ {
			switch i % 3 {
			case 0:
				xs = append(xs, F64(c08Param(rng, 0.5, 170, 2)), F64(c08Param(rng, 0.5, 170, 2)))
			case 1:
				xs = append(xs, F64(math.Round(c08Param(rng, 1, 170, 1))), F64(math.Round(c08Param(rng, 1, 170, 1))))
			default:
				xs = append(xs, F64(c08Param(rng, 0.05, 300, 64)), F64(c08Param(rng, 0.05, 300, 64)))
			}
		}
		emit(c08Case{Op: 5, Xs: xs})
	}
}

func init() { register(&Prop{ID: "C08", Num: 8, Gen: c08Gen, Run: c08Run}) }

package main

import (
	"encoding/json"
	"fmt"
	"math"
	"math/rand"
	"sort"

	"github.com/aclements/go-moremath/stats"
	"github.com/aclements/go-moremath/vec"
)

// C09: descriptive statistics of slices and Samples, Sort/Copy histories, vec helpers.
//
//	Kind 0: one sample, every statistic.   Kind 1: history of Sort/Copy/Poke/Query.   Kind 2: vec.
type c09Op struct {
	T int `json:"t"` // 0 Sort(I) 1 Copy(I) 2 Poke(I,J,V) 3 Query(I)
	I int `json:"i"`
	J int `json:"j,omitempty"`
	V F64 `json:"v,omitempty"`
}
type c09Case struct {
	Kind   int     `json:"kind"`
	Xs     []F64   `json:"xs,omitempty"`
	Ws     []F64   `json:"ws,omitempty"`
	HasW   bool    `json:"hasw,omitempty"`
	Sorted bool    `json:"sorted,omitempty"`
	Ops    []c09Op `json:"ops,omitempty"`
	Sub    int     `json:"sub,omitempty"` // kind 2: 0 Linspace 1 Logspace 2 Sum 3 Map/Vectorize 4 Concat
	Lo     F64     `json:"lo,omitempty"`
	Hi     F64     `json:"hi,omitempty"`
	Base   F64     `json:"base,omitempty"`
	Num    int     `json:"num,omitempty"`
	Fid    int     `json:"fid,omitempty"`
	Xss    [][]F64 `json:"xss,omitempty"`
	Big    bool    `json:"big,omitempty"` // kind 0: values beyond the usual magnitude window are intended (overflow class)
	// kind 3: ONE Sample whose backing arrays (Xs and Weights) are overwritten IN PLACE between the steps
	// (reweighting, new values, both, a shorter length); every Sample query is re-observed after each overwrite
	Steps []c09Step `json:"steps,omitempty"`
}
type c09Step struct {
	Xs     []F64 `json:"xs"`
	Ws     []F64 `json:"ws,omitempty"`
	Sorted bool  `json:"sorted,omitempty"`
}

func c09Sample(c *c09Case) (*stats.Sample, error) {
	xs := fromF64s(c.Xs)
	var ws []float64
	if c.HasW {
		ws = fromF64s(c.Ws)
		if len(ws) != len(xs) {
			return nil, fmt.Errorf("len(ws) != len(xs)")
		}
		for _, w := range ws {
			if !(w >= 0) {
				return nil, fmt.Errorf("negative weight")
			}
		}
	} else if len(c.Ws) != 0 {
		return nil, fmt.Errorf("weights without hasw")
	}
	if !allFinite(xs) || !allFinite(ws) || len(xs) > 70000 {
		return nil, fmt.Errorf("bad values")
	}
	if c.Sorted && !sort.Float64sAreSorted(xs) {
		return nil, fmt.Errorf("Sorted set on data that is not ascending")
	}
	return &stats.Sample{Xs: xs, Weights: ws, Sorted: c.Sorted}, nil
}

func c09Guard(l *Line, f func() float64) {
	var r float64
	if pan, _ := catch(func() { r = f() }); pan {
		l.I(2).F(0)
	} else {
		l.I(0).F(r)
	}
}

// c09Observe writes the contents of s and the 19 observations of kind 0 (slice functions on Xs, every Sample
// method, "unmodified": Xs, Weights, Sorted bit for bit as before the calls)
func c09Observe(l *Line, s *stats.Sample, sorted, hasw bool) {
	xs0 := append([]float64{}, s.Xs...)
	ws0 := append([]float64{}, s.Weights...)
	l.B(sorted).B(hasw).Fs(s.Xs).Fs(s.Weights)
	bmin, bmax := stats.Bounds(s.Xs)
	l.F(stats.Mean(s.Xs)).F(stats.Variance(s.Xs)).F(stats.StdDev(s.Xs)).F(stats.GeoMean(s.Xs)).F(bmin).F(bmax)
	c09Guard(l, func() float64 { return s.Mean() })
	c09Guard(l, func() float64 { return s.Variance() })
	c09Guard(l, func() float64 { return s.StdDev() })
	c09Guard(l, func() float64 { return s.GeoMean() })
	l.F(s.Sum()).F(s.Weight())
	smin, smax := s.Bounds()
	l.F(smin).F(smax)
	unmod := bitsEqual(s.Xs, xs0) && s.Sorted == sorted && bitsEqual(s.Weights, ws0) && (s.Weights != nil) == hasw
	l.B(unmod)
}

func c09Dump(l *Line, ss []*stats.Sample) {
	l.I(len(ss))
	for _, s := range ss {
		l.B(s.Sorted).B(s.Weights != nil).Fs(s.Xs).Fs(s.Weights)
	}
}

func c09VecFun(fid int) func(float64) float64 {
	switch fid {
	case 0:
		return func(x float64) float64 { return -x }
	case 1:
		return func(x float64) float64 { return x / 2 }
	case 2:
		return func(x float64) float64 { return 2 * x }
	case 3:
		return func(x float64) float64 { return x + 1 }
	}
	return func(x float64) float64 { return x }
}

func c09Run(raw []byte) (*Line, error) {
	var c c09Case
	if err := json.Unmarshal(raw, &c); err != nil {
		return nil, err
	}
	l := &Line{}
	l.I(9).I(c.Kind)
	switch c.Kind {
	case 0:
		s, err := c09Sample(&c)
		if err != nil {
			return nil, err
		}
		for _, x := range s.Xs {
			if !c.Big && x != 0 && (math.Abs(x) > 1e12 || math.Abs(x) < 1e-12) {
				return nil, fmt.Errorf("value outside the generated magnitude window")
			}
		}
		c09Observe(l, s, c.Sorted, c.HasW)
	case 1:
		s, err := c09Sample(&c)
		if err != nil {
			return nil, err
		}
		if len(c.Ops) > 200 {
			return nil, fmt.Errorf("history too long")
		}
		l.B(c.Sorted).B(c.HasW).Fs(s.Xs).Fs(s.Weights).I(len(c.Ops))
		ss := []*stats.Sample{s}
		for _, op := range c.Ops {
			if op.I < 0 || op.I >= len(ss) {
				return nil, fmt.Errorf("bad sample index")
			}
			t := ss[op.I]
			switch op.T {
			case 0:
				t.Sort()
				l.I(0).I(op.I)
				c09Dump(l, ss)
			case 1:
				if len(ss) >= 12 {
					return nil, fmt.Errorf("too many samples")
				}
				ss = append(ss, t.Copy())
				l.I(1).I(op.I)
				c09Dump(l, ss)
			case 2:
				v := float64(op.V)
				if op.J < 0 || op.J >= len(t.Xs) || math.IsNaN(v) || math.IsInf(v, 0) {
					return nil, fmt.Errorf("bad poke")
				}
				t.Xs[op.J] = v
				t.Sorted = false
				l.I(2).I(op.I).I(op.J).F(v)
				c09Dump(l, ss)
			case 3:
				l.I(3).I(op.I)
				c09Guard(l, func() float64 { return t.Mean() })
				l.F(t.Sum()).F(t.Weight())
				a, b := t.Bounds()
				l.F(a).F(b)
				c09Guard(l, func() float64 { return t.Variance() })
			default:
				return nil, fmt.Errorf("bad op")
			}
		}
	case 3:
		if len(c.Steps) == 0 || len(c.Steps) > 64 {
			return nil, fmt.Errorf("bad number of steps")
		}
		n0 := len(c.Steps[0].Xs)
		if n0 > 4096 {
			return nil, fmt.Errorf("too long")
		}
		xbuf := make([]float64, n0)
		var wbuf []float64
		if c.HasW {
			wbuf = make([]float64, n0)
		}
		s := &stats.Sample{}
		l.I(len(c.Steps))
		for _, st := range c.Steps {
			// validate the step as a Sample (same rules as kind 0), then write it INTO the same storage
			sc := c09Case{Xs: st.Xs, Ws: st.Ws, HasW: c.HasW, Sorted: st.Sorted}
			t, err := c09Sample(&sc)
			if err != nil {
				return nil, err
			}
			if len(t.Xs) > n0 {
				return nil, fmt.Errorf("a step longer than the backing array")
			}
			for _, x := range t.Xs {
				if x != 0 && (math.Abs(x) > 1e12 || math.Abs(x) < 1e-12) {
					return nil, fmt.Errorf("value outside the generated magnitude window")
				}
			}
			s.Xs = xbuf[:len(t.Xs)]
			copy(s.Xs, t.Xs)
			if c.HasW {
				s.Weights = wbuf[:len(t.Xs)]
				copy(s.Weights, t.Weights)
			}
			s.Sorted = st.Sorted
			c09Observe(l, s, st.Sorted, c.HasW)
		}
	case 2:
		l.I(c.Sub)
		switch c.Sub {
		case 0, 1:
			lo, hi := float64(c.Lo), float64(c.Hi)
			if c.Num < 0 || c.Num > 70000 || !allFinite([]float64{lo, hi}) {
				return nil, fmt.Errorf("bad linspace")
			}
			if c.Sub == 0 {
				l.F(lo).F(hi).I(c.Num).Fs(vec.Linspace(lo, hi, c.Num))
			} else {
				base := float64(c.Base)
				if !(base > 0) || math.IsInf(base, 0) || math.Abs(lo) > 64 || math.Abs(hi) > 64 {
					return nil, fmt.Errorf("bad logspace")
				}
				l.F(lo).F(hi).I(c.Num).F(base).Fs(vec.Logspace(lo, hi, c.Num, base))
			}
		case 2:
			xs := fromF64s(c.Xs)
			if !allFinite(xs) {
				return nil, fmt.Errorf("bad values")
			}
			l.Fs(xs).F(vec.Sum(xs))
		case 3:
			xs := fromF64s(c.Xs)
			if !allFinite(xs) || c.Fid < 0 || c.Fid > 4 {
				return nil, fmt.Errorf("bad values")
			}
			xs0 := append([]float64{}, xs...)
			f := c09VecFun(c.Fid)
			r1 := vec.Map(f, xs)
			r2 := vec.Vectorize(f)(xs)
			if !allFinite(r1) || !allFinite(r2) {
				return nil, fmt.Errorf("overflow in the mapped function")
			}
			l.I(c.Fid).Fs(xs).Fs(r1).Fs(r2).B(bitsEqual(xs, xs0))
		case 4:
			if len(c.Xss) > 64 {
				return nil, fmt.Errorf("too many lists")
			}
			var xss, snap [][]float64
			for _, x := range c.Xss {
				v := fromF64s(x)
				if !allFinite(v) {
					return nil, fmt.Errorf("bad values")
				}
				xss = append(xss, v)
				snap = append(snap, append([]float64{}, v...))
			}
			r := vec.Concat(xss...)
			// Concat "does not modify its inputs" and its result shares no storage with them:
			// overwrite the result and re-read the inputs
			rOut := append([]float64{}, r...)
			for i := range r {
				r[i] = r[i] + 1
			}
			un := true
			for i := range xss {
				un = un && bitsEqual(xss[i], snap[i])
			}
			l.I(len(xss))
			for _, x := range xss {
				l.Fs(x)
			}
			l.Fs(rOut).B(un)
		default:
			return nil, fmt.Errorf("bad sub")
		}
	default:
		return nil, fmt.Errorf("bad kind")
	}
	return l, nil
}

// ---------- generators ----------

func c09Values(rng *rand.Rand, n int) []float64 {
	kind := rng.Intn(3) // small ints, dyadics, full mantissas in [-1,1]
	off := 0.0
	switch rng.Intn(5) {
	case 1:
		off = float64(rng.Intn(2000001) - 1000000)
	case 2: // offset up to 1e9 times the spread
		off = float64(rng.Int63n(2e9)-1e9) * 8
	}
	xs := make([]float64, n)
	for i := range xs {
		xs[i] = genValue(rng, kind) + off
	}
	return xs
}

// positive values whose geometric mean can be checked through integer powers
func c09Positive(rng *rand.Rand, n int) []float64 {
	xs := make([]float64, n)
	kind := rng.Intn(4)
	for i := range xs {
		switch kind {
		case 0: // powers of two
			xs[i] = math.Ldexp(1, rng.Intn(21)-10)
		case 1: // small positive integers
			xs[i] = float64(1 + rng.Intn(20))
		case 2: // positive dyadics
			xs[i] = float64(1+rng.Intn(4096)) / 64
		default: // full mantissas
			xs[i] = math.Exp(rng.Float64()*8 - 4)
		}
	}
	return xs
}

func c09IntWeights(rng *rand.Rand, n int, max int, zeros bool) []float64 {
	ws := make([]float64, n)
	for i := range ws {
		if zeros {
			ws[i] = float64(rng.Intn(max + 1))
		} else {
			ws[i] = float64(1 + rng.Intn(max))
		}
	}
	return ws
}

func c09Repeat(xs, ws []float64) []float64 {
	var out []float64
	for i, x := range xs {
		for k := 0; k < int(ws[i]); k++ {
			out = append(out, x)
		}
	}
	return out
}

func c09SortedPairs(xs, ws []float64) ([]float64, []float64) {
	idx := make([]int, len(xs))
	for i := range idx {
		idx[i] = i
	}
	sort.SliceStable(idx, func(i, j int) bool { return xs[idx[i]] < xs[idx[j]] })
	ax := make([]float64, len(xs))
	var aw []float64
	if ws != nil {
		aw = make([]float64, len(xs))
	}
	for i, j := range idx {
		ax[i] = xs[j]
		if ws != nil {
			aw[i] = ws[j]
		}
	}
	return ax, aw
}

func c09EmitStats(emit func(interface{}), rng *rand.Rand, xs, ws []float64) {
	mk := func(x, w []float64, sorted bool) c09Case {
		c := c09Case{Kind: 0, Xs: toF64s(x), Sorted: sorted}
		if w != nil {
			c.Ws, c.HasW = toF64s(w), true
		}
		return c
	}
	emit(mk(xs, ws, false))
	// a permutation of the same pairs
	p := rng.Perm(len(xs))
	px := make([]float64, len(xs))
	var pw []float64
	if ws != nil {
		pw = make([]float64, len(xs))
	}
	for i, j := range p {
		px[i] = xs[j]
		if ws != nil {
			pw[i] = ws[j]
		}
	}
	emit(mk(px, pw, false))
	// ascending, marked Sorted and not
	ax, aw := c09SortedPairs(xs, ws)
	emit(mk(ax, aw, true))
	emit(mk(ax, aw, false))
}

func c09Size(rng *rand.Rand, max int) int {
	return int(math.Exp(rng.Float64()*math.Log(float64(max)+1))) - 1 + rng.Intn(2)
}

func c09Gen(tier string, rng *rand.Rand, emit func(interface{})) {
	thorough := tier == "thorough"
	// (a) exhaustive: every weight vector in {0,1,2}^n on fixed small data, n <= 4 (5), and the
	//     unweighted sample with each value repeated weight times
	maxN := 4
	if thorough {
		maxN = 5
	}
	base := []float64{3, 1, 2, 5, 4}
	for n := 1; n <= maxN; n++ {
		tot := 1
		for i := 0; i < n; i++ {
			tot *= 3
		}
		for code := 0; code < tot; code++ {
			ws := make([]float64, n)
			c := code
			for i := range ws {
				ws[i] = float64(c % 3)
				c /= 3
			}
			xs := append([]float64{}, base[:n]...)
			emit(c09Case{Kind: 0, Xs: toF64s(xs), Ws: toF64s(ws), HasW: true})
			ax, aw := c09SortedPairs(xs, ws)
			emit(c09Case{Kind: 0, Xs: toF64s(ax), Ws: toF64s(aw), HasW: true, Sorted: true})
			emit(c09Case{Kind: 0, Xs: toF64s(c09Repeat(xs, ws))})
		}
	}
	// (b) random unweighted samples of 0..200 values: as given, permuted, ascending (+Sorted)
	nU := 90
	if thorough {
		nU = 1500
	}
	for it := 0; it < nU; it++ {
		n := c09Size(rng, 200)
		if n > 200 {
			n = 200
		}
		var xs []float64
		switch rng.Intn(4) {
		case 0: // positive: GeoMean has a value
			if n > 40 {
				n = rng.Intn(41)
			}
			xs = c09Positive(rng, n)
			// a single zero among positive values (GeoMean must be NaN wherever it stands; a
			// zero in the LAST position is the only one a `x < 0` test would let through as 0)
			if n > 0 && rng.Intn(4) == 0 {
				k := n - 1
				if rng.Intn(2) == 0 {
					k = rng.Intn(n)
				}
				xs[k] = 0
			}
		default:
			xs = c09Values(rng, n)
		}
		c09EmitStats(emit, rng, xs, nil)
	}
	// (c) weighted samples: integer weights (with zeros, first weight zero forced every 4th
	//     case) together with the repeated unweighted sample; dyadic and real weights
	nW := 90
	if thorough {
		nW = 1500
	}
	for it := 0; it < nW; it++ {
		n := 1 + c09Size(rng, 60)
		if n > 60 {
			n = 60
		}
		var xs []float64
		positive := rng.Intn(2) == 0
		if positive {
			if n > 16 {
				n = 1 + rng.Intn(16)
			}
			xs = c09Positive(rng, n)
		} else {
			xs = c09Values(rng, n)
		}
		var ws []float64
		switch it % 4 {
		case 0, 1:
			ws = c09IntWeights(rng, n, 3, true)
			if it%4 == 0 {
				ws[0] = 0
			}
			c09EmitStats(emit, rng, xs, ws)
			emit(c09Case{Kind: 0, Xs: toF64s(c09Repeat(xs, ws))})
		case 2:
			ws = make([]float64, n)
			for i := range ws {
				ws[i] = float64(rng.Intn(33)) / 8
			}
			c09EmitStats(emit, rng, xs, ws)
		default:
			ws = make([]float64, n)
			for i := range ws {
				ws[i] = rng.Float64()*3 + 1e-3
			}
			c09EmitStats(emit, rng, xs, ws)
		}
	}
	// (d) degenerate: empty, single, all equal, non-positive values, all-zero weights
	for _, c := range []c09Case{
		{Kind: 0, Xs: []F64{}},
		{Kind: 0, Xs: []F64{}, Sorted: true},
		{Kind: 0, Xs: []F64{}, Ws: []F64{}, HasW: true},
		{Kind: 0, Xs: []F64{4}},
		{Kind: 0, Xs: []F64{4}, Ws: []F64{3}, HasW: true},
		{Kind: 0, Xs: []F64{4}, Ws: []F64{0}, HasW: true},
		{Kind: 0, Xs: []F64{2, 2, 2, 2}},
		{Kind: 0, Xs: []F64{1, 2, 0, 4}},
		{Kind: 0, Xs: []F64{1, 2, 4, 0}},
		{Kind: 0, Xs: []F64{0}},
		{Kind: 0, Xs: []F64{3, 0}},
		{Kind: 0, Xs: []F64{1, 2, -3, 4}},
		{Kind: 0, Xs: []F64{1, 2, 3}, Ws: []F64{0, 0, 0}, HasW: true},
		{Kind: 0, Xs: []F64{1, 2, 3}, Ws: []F64{0, 0, 0}, HasW: true, Sorted: true},
		{Kind: 0, Xs: []F64{1, 2, 3}, Ws: []F64{0, 1, 2}, HasW: true},
		{Kind: 0, Xs: []F64{1e9, 1e9 + 1, 1e9 + 2}},
		{Kind: 0, Xs: []F64{8e9 + 0.25, 8e9 + 0.5, 8e9 + 0.75, 8e9 + 1}},
	} {
		emit(c)
	}
	// (d2) where the weighted Mean / GeoMean have no value (repairs 7747581, 93a8d25): a zero resp. negative VALUE in
	//      every position with weight 0 / 1 / 2 (the other weights 1, resp. mixed 2 0 1 ...), as given and reversed
	//      (the NaN-ness must not depend on the order), next to the repeated unweighted sample; all-zero weight
	//      vectors of several lengths, also Sorted
	for n := 1; n <= 4; n++ {
		for k := 0; k < n; k++ {
			for _, bad := range []float64{0, -2} {
				for wk := 0; wk <= 2; wk++ {
					for variant := 0; variant < 2; variant++ {
						xs := append([]float64{}, base[:n]...)
						xs[k] = bad
						ws := make([]float64, n)
						for i := range ws {
							ws[i] = 1
							if variant == 1 {
								ws[i] = float64((i + 2) % 3)
							}
						}
						ws[k] = float64(wk)
						rx, rw := make([]float64, n), make([]float64, n)
						for i := range xs {
							rx[n-1-i], rw[n-1-i] = xs[i], ws[i]
						}
						emit(c09Case{Kind: 0, Xs: toF64s(xs), Ws: toF64s(ws), HasW: true})
						emit(c09Case{Kind: 0, Xs: toF64s(rx), Ws: toF64s(rw), HasW: true})
						emit(c09Case{Kind: 0, Xs: toF64s(c09Repeat(xs, ws))})
					}
				}
			}
		}
	}
	for _, n := range []int{1, 2, 3, 5, 8, 17} {
		xs := c09Values(rng, n)
		ws := make([]float64, n)
		emit(c09Case{Kind: 0, Xs: toF64s(xs), Ws: toF64s(ws), HasW: true})
		ax, aw := c09SortedPairs(xs, ws)
		emit(c09Case{Kind: 0, Xs: toF64s(ax), Ws: toF64s(aw), HasW: true, Sorted: true})
		px := c09Positive(rng, n)
		emit(c09Case{Kind: 0, Xs: toF64s(px), Ws: toF64s(ws), HasW: true})
		// ... and in a history: queries before and after Sort and Copy, then a direct write
		emit(c09Case{Kind: 1, Xs: toF64s(xs), Ws: toF64s(ws), HasW: true, Ops: []c09Op{
			{T: 3, I: 0}, {T: 0, I: 0}, {T: 3, I: 0}, {T: 1, I: 0}, {T: 3, I: 1}, {T: 2, I: 1, J: 0, V: -1}, {T: 3, I: 1}, {T: 3, I: 0}}})
	}
	// (d3) finite data whose SUM (and squared deviations) overflow float64 although the mean does not: the mean must
	//      stay finite and accurate (incremental update), Sum is +-Inf of the sign of the first overflowing prefix,
	//      Variance / StdDev are +Inf when the exact M2 exceeds MaxFloat64 (0 for equal values).  Orders are fixed:
	//      the incremental mean itself needs |x - m| <= MaxFloat64.
	rep := func(v float64, n int) []float64 {
		r := make([]float64, n)
		for i := range r {
			r[i] = v
		}
		return r
	}
	for _, xs := range [][]float64{
		// (GeoMean: its tolerance is calibrated for |ln x| <= 28; exp(709 +- 1 ulp) is off by 1.6e-13 relative. The
		//  small lists therefore contain a value <= 0 (GeoMean NaN); the 200-long one is only bracketed anyway.)
		{-1.5e308, -1.5e308},
		{-1.5e308, -1.5e308, -1.5e308},
		rep(1e307, 200),
		rep(-1e307, 150),
		{1e308, 1e308, -7e307, 1e308},
		{-1e308, -1e308, 7e307, -1e308},
		{1.2e308, 1.2e308, -5e307, 1.2e308, -5e307},
		{-1.7e308, -1.6e308, -1.5e308},
		{-8e307, -9e307, -1e308, -1.1e308, -1.2e308, -1.3e308},
	} {
		emit(c09Case{Kind: 0, Xs: toF64s(xs), Big: true})
		ones := rep(1, len(xs))
		emit(c09Case{Kind: 0, Xs: toF64s(xs), Ws: toF64s(ones), HasW: true, Big: true})
		if len(xs) >= 3 {
			ones[1] = 0
			emit(c09Case{Kind: 0, Xs: toF64s(xs), Ws: toF64s(ones), HasW: true, Big: true})
		}
		emit(c09Case{Kind: 2, Sub: 2, Xs: toF64s(xs)})
		emit(c09Case{Kind: 1, Xs: toF64s(xs), Ops: []c09Op{{T: 3, I: 0}, {T: 1, I: 0}, {T: 0, I: 1}, {T: 3, I: 1}, {T: 3, I: 0}}})
	}
	nBig := 12
	if thorough {
		nBig = 120
	}
	for it := 0; it < nBig; it++ {
		n := 2 + rng.Intn(5)
		if it%4 == 3 {
			n = 65 + rng.Intn(100)
		}
		sign := -1.0
		if n > 64 && rng.Intn(2) == 0 {
			sign = 1
		}
		xs := make([]float64, n)
		for i := range xs {
			xs[i] = sign * (1e307 + rng.Float64()*1e308)
		}
		emit(c09Case{Kind: 0, Xs: toF64s(xs), Big: true})
	}
	// (d5) GeoMean at the ends of the float64 range: 1..6 POSITIVE values whose PRODUCT leaves the range (>= 1e77 with
	//      n = 4, >= 1e154 with n = 2, <= 1e-81 ...) although the geometric mean is representable: the log-average is
	//      accurate there, a root of the running product is not.  Compared through g^n = prod x_i exactly in Q
	//      (relative tolerance scaled by max|log2 x_i|/64).  Magnitudes are chosen so that the other observables of the
	//      case stay decidable: large values well away from the Variance overflow threshold (M2 ~ 1e308), tiny values
	//      either around 1e-81..1e-100 (squared deviations still normal) or all equal (Variance exactly 0).
	geoCase := func(xs []float64) {
		emit(c09Case{Kind: 0, Xs: toF64s(xs), Big: true})
	}
	spread := func(mag float64, n int) []float64 {
		xs := make([]float64, n)
		for i := range xs {
			xs[i] = mag * (1 + 0.25*float64((i*3+rng.Intn(2))%8))
		}
		return xs
	}
	for n := 1; n <= 6; n++ {
		for _, mag := range []float64{1e77, 3e80, 1e156, 2e160, 1e300, 1.1e307, 1e-81, 1e-90} {
			geoCase(spread(mag, n))
		}
		for _, v := range []float64{1e-154, 3.3e-160, 1e-300, 1e-305, 1e305} {
			geoCase(rep(v, n))
		}
	}
	for _, xs := range [][]float64{
		{1e300, 1e-300}, {1e-300, 1e300}, {1e300, 1e-300, 1e300}, {1e-200, 1e-150, 1e300}, {1e160, 1e-160, 1e160, 1e160},
		{1e80, 1e80, 1e80, 1e80, 1e-300}, {3e307, 1e-307},
	} {
		geoCase(xs)
	}
	// ... and with integer weights (Sample.GeoMean = GeoMean of the repeated sample): total weight <= 12
	for _, mag := range []float64{1e78, 1e-85} {
		for n := 2; n <= 4; n++ {
			xs := spread(mag, n)
			ws := make([]float64, n)
			for i := range ws {
				ws[i] = float64(1 + rng.Intn(3))
			}
			emit(c09Case{Kind: 0, Xs: toF64s(xs), Ws: toF64s(ws), HasW: true, Big: true})
		}
	}
	// (d4) long inputs (lengths around powers of two up to 2^13+8; the exact model's incremental loops count in unary
	//      and cost n^2: 2 s at 8192, 5 min at 65543 - the vec helpers below go up to 2^16+7): small values k/8; the
	//      first value is 0 so that GeoMean is NaN at once (its coefficient vector is quadratic in n)
	longLens := []int{255, 256, 257, 4095, 4096, 4097, 4103, 8191, 8192, 8193, 8200}
	for _, n := range longLens {
		xs := make([]float64, n)
		for i := range xs {
			xs[i] = float64(i%11-3) / 8
		}
		xs[0] = 0
		emit(c09Case{Kind: 0, Xs: toF64s(xs)})
		if n <= 8200 {
			ws := make([]float64, n)
			for i := range ws {
				ws[i] = float64((i + 1) % 3)
			}
			emit(c09Case{Kind: 0, Xs: toF64s(xs), Ws: toF64s(ws), HasW: true})
		}
	}
	{
		xs := make([]float64, 4097)
		for i := range xs {
			xs[i] = float64(i/7) / 8
		}
		emit(c09Case{Kind: 0, Xs: toF64s(xs), Sorted: true})
	}
	// (e) histories: Sort / Copy / Poke / Query interleaved, up to 30 operations
	nH := 200
	if thorough {
		nH = 3000
	}
	for it := 0; it < nH; it++ {
		n := 1 + rng.Intn(12)
		xs := make([]float64, n)
		for i := range xs {
			xs[i] = float64(rng.Intn(9)-2) / 2 // many ties
		}
		if rng.Intn(3) == 0 {
			xs = c09Values(rng, n)
		}
		c := c09Case{Kind: 1, Xs: toF64s(xs)}
		if rng.Intn(2) == 0 {
			c.Ws, c.HasW = toF64s(c09IntWeights(rng, n, 3, true)), true
		}
		if rng.Intn(4) == 0 {
			var w0 []float64
			if c.HasW {
				w0 = fromF64s(c.Ws)
			}
			ax, aw := c09SortedPairs(fromF64s(c.Xs), w0)
			c.Xs, c.Sorted = toF64s(ax), true
			if c.HasW {
				c.Ws = toF64s(aw)
			}
		}
		ns := 1
		nops := 1 + rng.Intn(30)
		for k := 0; k < nops; k++ {
			i := rng.Intn(ns)
			switch rng.Intn(6) {
			case 0, 1:
				c.Ops = append(c.Ops, c09Op{T: 0, I: i}, c09Op{T: 3, I: i})
			case 2:
				if ns < 6 {
					c.Ops = append(c.Ops, c09Op{T: 1, I: i})
					ns++
				}
			case 3:
				c.Ops = append(c.Ops, c09Op{T: 2, I: i, J: rng.Intn(n), V: F64(float64(rng.Intn(21)-10) / 2)})
			default:
				c.Ops = append(c.Ops, c09Op{T: 3, I: i})
			}
		}
		for i := 0; i < ns; i++ {
			c.Ops = append(c.Ops, c09Op{T: 3, I: i})
		}
		emit(c)
	}
	// (e') IN-PLACE steps: one Sample, its Xs / Weights arrays overwritten in place between the steps (reweighting,
	// one weight changed, weights scaled, all weights zero, new values, values and weights, permuted pairs, a shorter
	// prefix), every Sample query re-observed after each overwrite: a result remembered per storage identity
	// (&Weights[0], len) or (&Xs[0], len) would be stale
	nI := 60
	if thorough {
		nI = 1000
	}
	for it := 0; it < nI; it++ {
		n := 1 + rng.Intn(10)
		hasw := it%5 != 0
		newXs := func(m int) []float64 {
			xs := make([]float64, m)
			for i := range xs {
				switch it % 3 {
				case 0:
					xs[i] = float64(1+rng.Intn(64)) / 4 // positive: GeoMean has a value
				case 1:
					xs[i] = float64(rng.Intn(41)-20) / 2
				default:
					xs[i] = float64(rng.Intn(2001)-1000) / 8
				}
			}
			return xs
		}
		xs := newXs(n)
		var ws []float64
		if hasw {
			ws = c09IntWeights(rng, n, 3, true)
		}
		c := c09Case{Kind: 3, HasW: hasw}
		push := func(xs, ws []float64) {
			st := c09Step{Xs: toF64s(xs)}
			if hasw {
				st.Ws = toF64s(ws)
			}
			if len(xs) > 1 && sort.Float64sAreSorted(xs) && rng.Intn(2) == 0 {
				st.Sorted = true
			}
			c.Steps = append(c.Steps, st)
		}
		push(xs, ws)
		nst := 2 + rng.Intn(4)
		for k := 0; k < nst; k++ {
			xs = append([]float64{}, xs...)
			ws = append([]float64{}, ws...)
			op := rng.Intn(8)
			if !hasw && op < 4 {
				op = 4
			}
			switch op {
			case 0: // reweight: a fresh weight vector, same values
				ws = c09IntWeights(rng, len(xs), 4, true)
			case 1: // one weight changed
				ws[rng.Intn(len(ws))] = float64(rng.Intn(5))
			case 2: // weights scaled / shifted (dyadic)
				f := []float64{2, 0.5, 3, 0.25}[rng.Intn(4)]
				for i := range ws {
					ws[i] = ws[i]*f + float64(rng.Intn(2))
				}
			case 3: // every weight zero (Mean, GeoMean NaN), or every weight one
				z := float64(rng.Intn(2))
				for i := range ws {
					ws[i] = z
				}
			case 4: // new values, same weights
				xs = newXs(len(xs))
			case 5: // new values and new weights
				xs = newXs(len(xs))
				if hasw {
					ws = c09IntWeights(rng, len(xs), 3, true)
				}
			case 6: // the same pairs in another order
				rng.Shuffle(len(xs), func(i, j int) {
					xs[i], xs[j] = xs[j], xs[i]
					if hasw {
						ws[i], ws[j] = ws[j], ws[i]
					}
				})
			default: // a shorter prefix of the same storage, then back
				if len(xs) > 1 {
					m := 1 + rng.Intn(len(xs)-1)
					xs = xs[:m]
					if hasw {
						ws = ws[:m]
					}
				} else {
					xs = newXs(n)
					if hasw {
						ws = c09IntWeights(rng, n, 3, true)
					}
				}
			}
			if rng.Intn(6) == 0 {
				var w0 []float64
				if hasw {
					w0 = ws
				}
				xs, w0 = c09SortedPairs(xs, w0)
				if hasw {
					ws = w0
				}
			}
			push(xs, ws)
		}
		emit(c)
	}
	// (f) vec helpers
	nV := 60
	if thorough {
		nV = 600
	}
	for _, num := range []int{0, 1, 2, 3, 5, 9, 17, 100} {
		emit(c09Case{Kind: 2, Sub: 0, Lo: -1, Hi: 3, Num: num})
		emit(c09Case{Kind: 2, Sub: 0, Lo: 0.1, Hi: 0.7, Num: num})
		emit(c09Case{Kind: 2, Sub: 0, Lo: 5, Hi: -5, Num: num})
		emit(c09Case{Kind: 2, Sub: 1, Lo: -2, Hi: 6, Num: num, Base: 2})
		emit(c09Case{Kind: 2, Sub: 1, Lo: 0, Hi: 3, Num: num, Base: 10})
	}
	for it := 0; it < nV; it++ {
		num := rng.Intn(40)
		emit(c09Case{Kind: 2, Sub: 0, Lo: F64(genValue(rng, rng.Intn(3))), Hi: F64(genValue(rng, rng.Intn(3))), Num: num})
		steps := []int{1, 2, 4, 8}[rng.Intn(4)]
		lo := float64(rng.Intn(17) - 8)
		span := float64(rng.Intn(9)-4) * float64(steps) / float64([]int{1, 2, 4, 8}[rng.Intn(4)])
		if rng.Intn(2) == 0 {
			span = float64(rng.Intn(9) - 4)
		}
		emit(c09Case{Kind: 2, Sub: 1, Lo: F64(lo), Hi: F64(lo + span), Num: steps + 1,
			Base: F64([]float64{2, 10, 3, 0.5, 1.5, 7}[rng.Intn(6)])})
		n := rng.Intn(60)
		emit(c09Case{Kind: 2, Sub: 2, Xs: toF64s(c09Values(rng, n))})
		xs := make([]float64, rng.Intn(30))
		for i := range xs {
			xs[i] = genValue(rng, rng.Intn(2))
		}
		emit(c09Case{Kind: 2, Sub: 3, Fid: rng.Intn(5), Xs: toF64s(xs)})
		var xss [][]F64
		for k := rng.Intn(5); k > 0; k-- {
			xss = append(xss, toF64s(c09Values(rng, rng.Intn(6))))
		}
		emit(c09Case{Kind: 2, Sub: 4, Xss: xss})
	}
	// long vec inputs: Map / Vectorize / Sum / Concat / Linspace / Logspace around powers of two up to 2^16+7
	for _, n := range []int{255, 256, 257, 4095, 4096, 4097, 4103, 8191, 8192, 8193, 8200, 65535, 65536, 65543} {
		xs := make([]float64, n)
		for i := range xs {
			xs[i] = float64(i%13)/8 + 0.125
		}
		emit(c09Case{Kind: 2, Sub: 3, Fid: 2 + n%2, Xs: toF64s(xs)})
		ys := make([]float64, n)
		for i := range ys {
			ys[i] = float64(i%9-4) / 8
		}
		emit(c09Case{Kind: 2, Sub: 2, Xs: toF64s(ys)})
		if n <= 8200 { // the model's Linspace converts the unary index of every element: n^2
			emit(c09Case{Kind: 2, Sub: 0, Lo: 0, Hi: F64(float64(n - 1)), Num: n})
			emit(c09Case{Kind: 2, Sub: 0, Lo: -1, Hi: 3, Num: n})
			emit(c09Case{Kind: 2, Sub: 1, Lo: 0, Hi: 8, Num: n, Base: 2})
		}
	}
	for _, parts := range [][]int{{4096, 1, 6}, {1, 8191, 0, 8}, {4097, 4096, 4095}, {65536, 7}, {3, 30000, 0, 35540}} {
		var xss [][]F64
		v := 0
		for _, l := range parts {
			p := make([]float64, l)
			for i := range p {
				p[i] = float64(v%29) / 4
				v++
			}
			xss = append(xss, toF64s(p))
		}
		emit(c09Case{Kind: 2, Sub: 4, Xss: xss})
	}
}

func init() { register(&Prop{ID: "C09", Num: 9, Gen: c09Gen, Run: c09Run}) }

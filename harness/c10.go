package main

import (
	"encoding/json"
	"fmt"
	"math"
	"math/rand"
	"sort"

	"github.com/aclements/go-moremath/stats"
)

// C10: Sample.Quantile / Sample.IQR. One case = one Sample and a list of q.
type c10Case struct {
	Xs []F64 `json:"xs,omitempty"`
	Ws []F64 `json:"ws,omitempty"`
	// weighted samples are stored as (value, weight) pairs, so that the generic shrinker
	// deletes a value together with its weight
	Ps     [][2]F64 `json:"ps,omitempty"`
	HasW   bool     `json:"hasw,omitempty"`
	Sorted bool     `json:"sorted,omitempty"`
	Qs     []F64    `json:"qs"`
	// history: ONE Sample whose backing arrays are overwritten in place between the steps
	// (hasw applies to the whole history); xs/ws/ps/sorted/qs above are unused then
	Steps []c10Step `json:"steps,omitempty"`
}

type c10Step struct {
	Xs     []F64 `json:"xs"`
	Ws     []F64 `json:"ws,omitempty"`
	Sorted bool  `json:"sorted,omitempty"`
	Qs     []F64 `json:"qs"`
}

func bitsEqual(a, b []float64) bool {
	if len(a) != len(b) {
		return false
	}
	for i := range a {
		if math.Float64bits(a[i]) != math.Float64bits(b[i]) {
			return false
		}
	}
	return true
}

func allFinite(xs []float64) bool {
	for _, x := range xs {
		if math.IsNaN(x) || math.IsInf(x, 0) {
			return false
		}
	}
	return true
}

func c10Run(raw []byte) (*Line, error) {
	var c c10Case
	if err := json.Unmarshal(raw, &c); err != nil {
		return nil, err
	}
	if len(c.Steps) > 0 {
		return c10RunHistory(&c)
	}
	if c.HasW && len(c.Ps) > 0 {
		if len(c.Xs) != 0 || len(c.Ws) != 0 {
			return nil, fmt.Errorf("both ps and xs/ws given")
		}
		for _, p := range c.Ps {
			c.Xs = append(c.Xs, p[0])
			c.Ws = append(c.Ws, p[1])
		}
	}
	xs := fromF64s(c.Xs)
	var ws []float64
	if c.HasW {
		ws = fromF64s(c.Ws)
		if len(ws) != len(xs) {
			return nil, fmt.Errorf("len(ws) != len(xs)")
		}
		for _, w := range ws {
			if !(w >= 0) {
				return nil, fmt.Errorf("negative weight")
			}
		}
	} else if len(c.Ws) != 0 {
		return nil, fmt.Errorf("weights without hasw")
	}
	qs := fromF64s(c.Qs)
	if !allFinite(xs) || !allFinite(ws) || !allFinite(qs) || len(xs) > 2000 {
		return nil, fmt.Errorf("non-finite input")
	}
	if c.Sorted && !sort.Float64sAreSorted(xs) {
		return nil, fmt.Errorf("Sorted set on data that is not ascending")
	}
	s := stats.Sample{Xs: xs, Weights: ws, Sorted: c.Sorted}
	l := &Line{}
	l.I(10)
	c10Observe(l, &s, qs)
	return l, nil
}

// c10Observe appends one case body: sorted hasw [xs] [ws] nq {q st r}* iqr_st iqr unmodified
func c10Observe(l *Line, s *stats.Sample, qs []float64) {
	sorted0 := s.Sorted
	xs0 := append([]float64(nil), s.Xs...)
	var ws0 []float64
	if s.Weights != nil {
		ws0 = append([]float64{}, s.Weights...)
	}
	l.B(s.Sorted).B(s.Weights != nil).Fs(s.Xs).Fs(s.Weights).I(len(qs))
	for _, q := range qs {
		var r float64
		pan, _ := catch(func() { r = s.Quantile(q) })
		if pan {
			l.F(q).I(2).F(0)
		} else {
			l.F(q).I(0).F(r)
		}
	}
	var r float64
	pan, _ := catch(func() { r = s.IQR() })
	if pan {
		l.I(2).F(0)
	} else {
		l.I(0).F(r)
	}
	unmod := bitsEqual(s.Xs, xs0) && s.Sorted == sorted0
	if ws0 != nil {
		unmod = unmod && bitsEqual(s.Weights, ws0)
	} else {
		unmod = unmod && s.Weights == nil
	}
	l.B(unmod)
}

// c10RunHistory: one Sample, one backing array for Xs (and one for Weights); before every step
// the current values are written IN PLACE (same array, so the slice identity &Xs[0] never
// changes), then Quantile/IQR are observed.  Each step is reported with the values current then.
func c10RunHistory(c *c10Case) (*Line, error) {
	if len(c.Xs) != 0 || len(c.Ws) != 0 || len(c.Ps) != 0 || len(c.Qs) != 0 {
		return nil, fmt.Errorf("history with top-level data")
	}
	capN := 0
	for _, st := range c.Steps {
		xs, ws, qs := fromF64s(st.Xs), fromF64s(st.Ws), fromF64s(st.Qs)
		if c.HasW && len(ws) != len(xs) {
			return nil, fmt.Errorf("len(ws) != len(xs)")
		}
		if !c.HasW && len(ws) != 0 {
			return nil, fmt.Errorf("weights without hasw")
		}
		for _, w := range ws {
			if !(w >= 0) {
				return nil, fmt.Errorf("negative weight")
			}
		}
		if !allFinite(xs) || !allFinite(ws) || !allFinite(qs) || len(xs) > 2000 {
			return nil, fmt.Errorf("non-finite input")
		}
		if st.Sorted && !sort.Float64sAreSorted(xs) {
			return nil, fmt.Errorf("Sorted set on data that is not ascending")
		}
		if len(xs) > capN {
			capN = len(xs)
		}
	}
	bx := make([]float64, capN)
	var bw []float64
	if c.HasW {
		bw = make([]float64, capN)
	}
	var s stats.Sample
	l := &Line{}
	l.I(10).I(2).I(len(c.Steps))
	for _, st := range c.Steps {
		n := len(st.Xs)
		copy(bx[:n], fromF64s(st.Xs))
		s.Xs = bx[:n]
		if c.HasW {
			copy(bw[:n], fromF64s(st.Ws))
			s.Weights = bw[:n]
		}
		s.Sorted = st.Sorted
		c10Observe(l, &s, fromF64s(st.Qs))
	}
	return l, nil
}

// ---------- generators ----------

func c10Values(rng *rand.Rand, n int) []float64 {
	kind := rng.Intn(4)
	off := 0.0
	switch rng.Intn(5) {
	case 1:
		off = float64(rng.Intn(2000001) - 1000000)
	case 2:
		off = float64(rng.Int63n(2e9)-1e9) * 8
	}
	xs := make([]float64, n)
	for i := range xs {
		xs[i] = genValue(rng, kind) + off
	}
	if rng.Intn(2) == 0 && n > 1 { // force repeats
		for i := range xs {
			if rng.Intn(2) == 0 {
				xs[i] = xs[rng.Intn(n)]
			}
		}
	}
	return xs
}

// q grid: outside [0,1], the ends, dyadic grid, random, and the exact break points
// q = (k - 1/3)/(N + 1/3) (h integer) with their float neighbours
func c10Qs(rng *rand.Rand, n int, full bool) []float64 {
	qs := []float64{-0.5, 0, 1, 1.5, 0.5, 0.25, 0.75, 1e-300, 1 - 1.0/(1<<53), rng.Float64()*2 - 0.5, rng.Float64(), rng.Float64()}
	step := 4
	if full {
		step = 1
	}
	for i := -8; i <= 24; i += step {
		qs = append(qs, float64(i)/16)
	}
	ks := []int{1, 2, n - 1, n, rng.Intn(n + 1), rng.Intn(n + 1)}
	if full && n <= 12 {
		ks = ks[:0]
		for k := 0; k <= n+1; k++ {
			ks = append(ks, k)
		}
	}
	for _, k := range ks {
		q := (float64(k) - 1.0/3) / (float64(n) + 1.0/3)
		qs = append(qs, q, math.Nextafter(q, 2), math.Nextafter(q, -2), q+1e-9, q-1e-9)
	}
	return qs
}

func c10Perms(xs []float64, emit func([]float64)) {
	var rec func(k int)
	a := append([]float64{}, xs...)
	rec = func(k int) {
		if k == len(a) {
			emit(append([]float64{}, a...))
			return
		}
		for i := k; i < len(a); i++ {
			a[k], a[i] = a[i], a[k]
			rec(k + 1)
			a[k], a[i] = a[i], a[k]
		}
	}
	rec(0)
}

func c10Pairs(xs, ws []float64) [][2]F64 {
	ps := make([][2]F64, len(xs))
	for i := range xs {
		ps[i] = [2]F64{F64(xs[i]), F64(ws[i])}
	}
	return ps
}

func c10Weights(rng *rand.Rand, n int) []float64 {
	ws := make([]float64, n)
	kind := rng.Intn(4)
	for i := range ws {
		switch kind {
		case 0: // small positive integers
			ws[i] = float64(1 + rng.Intn(5))
		case 1: // integers with zeros
			ws[i] = float64(rng.Intn(4))
		case 2: // dyadic
			ws[i] = float64(1+rng.Intn(64)) / 8
		default: // real positive
			ws[i] = rng.Float64()*3 + 1e-3
		}
	}
	return ws
}

func c10WQs(rng *rand.Rand, xs, ws []float64) []float64 {
	qs := []float64{-0.25, 0, 1, 1.25, 0.5, 0.25, 0.75, rng.Float64(), rng.Float64(), rng.Float64()}
	for i := 1; i < 16; i++ {
		qs = append(qs, float64(i)/16)
	}
	// q at which q*W meets a cumulative weight: the threshold target < 0 is a rounding decision
	type pr struct{ x, w float64 }
	ps := make([]pr, len(xs))
	W := 0.0
	for i := range xs {
		ps[i] = pr{xs[i], ws[i]}
		W += ws[i]
	}
	sort.SliceStable(ps, func(i, j int) bool { return ps[i].x < ps[j].x })
	cum := 0.0
	for i, p := range ps {
		cum += p.w
		if W > 0 && (len(ps) <= 8 || rng.Intn(len(ps)) < 6) {
			q := cum / W
			qs = append(qs, q, q-1.0/1024, q+1.0/1024)
		}
		_ = i
	}
	var out []float64
	for _, q := range qs {
		if q >= -1 && q <= 2 {
			out = append(out, q)
		}
	}
	return out
}

// a short q list for history steps: ends, quartiles, random, one break point with neighbours
func c10HistQs(rng *rand.Rand, n int) []float64 {
	qs := []float64{0.5, 0.25, 0.75, rng.Float64(), rng.Float64(), 0, 1, -0.5, 1.5}
	if n > 0 {
		k := 1 + rng.Intn(n)
		q := (float64(k) - 1.0/3) / (float64(n) + 1.0/3)
		qs = append(qs, q, math.Nextafter(q, 2), math.Nextafter(q, -2))
	}
	return qs
}

// histories on ONE backing array: fresh values / a permutation of the same values / one element
// changed / weights changed / the same values ascending + Sorted / another length, in random order
func c10GenHistory(rng *rand.Rand, weighted bool) c10Case {
	n := 1 + int(math.Exp(rng.Float64()*math.Log(40)))
	if rng.Intn(3) == 0 {
		n = 1 + rng.Intn(5)
	}
	xs := c10Values(rng, n)
	var ws []float64
	if weighted {
		ws = c10Weights(rng, n)
	}
	c := c10Case{HasW: weighted}
	add := func(xs, ws []float64, sorted bool) {
		st := c10Step{Xs: toF64s(xs), Sorted: sorted, Qs: toF64s(c10HistQs(rng, len(xs)))}
		if weighted {
			st.Ws = toF64s(ws)
			if st.Ws == nil {
				st.Ws = []F64{}
			}
		}
		c.Steps = append(c.Steps, st)
	}
	add(xs, ws, false)
	nsteps := 2 + rng.Intn(4)
	for i := 0; i < nsteps; i++ {
		xs = append([]float64{}, xs...)
		ws = append([]float64(nil), ws...)
		sorted := false
		switch rng.Intn(7) {
		case 0: // fresh values, same length
			xs = c10Values(rng, len(xs))
		case 1: // a permutation of the same values (weights stay with their values)
			rng.Shuffle(len(xs), func(i, j int) {
				xs[i], xs[j] = xs[j], xs[i]
				if weighted {
					ws[i], ws[j] = ws[j], ws[i]
				}
			})
		case 2: // one element changed
			if len(xs) > 0 {
				xs[rng.Intn(len(xs))] = c10Values(rng, 1)[0]
			}
		case 3: // weights changed in place (unweighted: values scaled)
			if weighted {
				ws = c10Weights(rng, len(xs))
			} else {
				for i := range xs {
					xs[i] *= 2
				}
			}
		case 4: // the same multiset ascending, marked Sorted
			idx := make([]int, len(xs))
			for i := range idx {
				idx[i] = i
			}
			ox, ow := xs, ws
			sort.SliceStable(idx, func(i, j int) bool { return ox[idx[i]] < ox[idx[j]] })
			xs = make([]float64, len(ox))
			if weighted {
				ws = make([]float64, len(ox))
			}
			for i, j := range idx {
				xs[i] = ox[j]
				if weighted {
					ws[i] = ow[j]
				}
			}
			sorted = true
		case 5: // another length (a prefix, or longer with fresh values)
			m := rng.Intn(len(xs) + 3)
			if m <= len(xs) {
				xs = xs[:m]
				if weighted {
					ws = ws[:m]
				}
			} else {
				xs = c10Values(rng, m)
				if weighted {
					ws = c10Weights(rng, m)
				}
			}
		default: // all values replaced by a shifted copy (same order statistics pattern)
			for i := range xs {
				xs[i] += 1
			}
		}
		add(xs, ws, sorted)
	}
	return c
}

func c10Gen(tier string, rng *rand.Rand, emit func(interface{})) {
	thorough := tier == "thorough"
	// (a) every permutation of small samples (with repeats), both Sorted settings for the ascending one
	maxN := 5
	if thorough {
		maxN = 7
	}
	for n := 1; n <= maxN; n++ {
		for rep := 0; rep < 2; rep++ {
			base := make([]float64, n)
			for i := range base {
				if rep == 0 {
					base[i] = float64(rng.Intn(n+1)) / 2 // repeats likely
				} else {
					base[i] = genValue(rng, 1+rng.Intn(2))
				}
			}
			qs := c10Qs(rng, n, true)
			c10Perms(base, func(p []float64) {
				emit(c10Case{Xs: toF64s(p), Qs: toF64s(qs)})
			})
			asc := append([]float64{}, base...)
			sort.Float64s(asc)
			emit(c10Case{Xs: toF64s(asc), Sorted: true, Qs: toF64s(qs)})
		}
	}
	// (b) random unweighted samples, 1..200 values; the same multiset unsorted, shuffled, and ascending+Sorted
	nRand := 150
	if thorough {
		nRand = 2500
	}
	for it := 0; it < nRand; it++ {
		n := 1 + int(math.Exp(rng.Float64()*math.Log(200)))
		if n > 200 {
			n = 200
		}
		xs := c10Values(rng, n)
		qs := c10Qs(rng, n, n <= 12 && rng.Intn(2) == 0)
		emit(c10Case{Xs: toF64s(xs), Qs: toF64s(qs)})
		sh := append([]float64{}, xs...)
		rng.Shuffle(len(sh), func(i, j int) { sh[i], sh[j] = sh[j], sh[i] })
		emit(c10Case{Xs: toF64s(sh), Qs: toF64s(qs)})
		asc := append([]float64{}, xs...)
		sort.Float64s(asc)
		emit(c10Case{Xs: toF64s(asc), Sorted: true, Qs: toF64s(qs)})
		emit(c10Case{Xs: toF64s(asc), Sorted: false, Qs: toF64s(qs)})
	}
	// (c) weighted samples
	nW := 200
	if thorough {
		nW = 3000
	}
	for it := 0; it < nW; it++ {
		n := 1 + int(math.Exp(rng.Float64()*math.Log(200)))
		if it%3 == 0 {
			n = 1 + rng.Intn(6)
		}
		if n > 200 {
			n = 200
		}
		xs := c10Values(rng, n)
		ws := c10Weights(rng, n)
		qs := c10WQs(rng, xs, ws)
		emit(c10Case{Ps: c10Pairs(xs, ws), HasW: true, Qs: toF64s(qs)})
		// ascending + Sorted (pairs kept together)
		idx := make([]int, n)
		for i := range idx {
			idx[i] = i
		}
		sort.SliceStable(idx, func(i, j int) bool { return xs[idx[i]] < xs[idx[j]] })
		ax, aw := make([]float64, n), make([]float64, n)
		for i, j := range idx {
			ax[i], aw[i] = xs[j], ws[j]
		}
		emit(c10Case{Ps: c10Pairs(ax, aw), HasW: true, Sorted: true, Qs: toF64s(qs)})
	}
	// (e) histories on one backing array (in-place overwrites between the queries)
	nH := 60
	if thorough {
		nH = 800
	}
	for it := 0; it < nH; it++ {
		emit(c10GenHistory(rng, it%3 == 2))
	}
	// (f) ties: constant samples and samples with few distinct values, the values NOT small dyadic
	//     numbers (0.1, 1/3, 1e9+0.1, ...), so that any rounding in the interpolation between two equal
	//     order statistics shows; q on a fine grid (the order facts are compared exactly: result inside
	//     [x0,x1], inside [min,max], non-decreasing in q)
	nT := 40
	if thorough {
		nT = 600
	}
	odd := []float64{0.1, 1.0 / 3, 0.7, 1e9 + 0.1, -2.3, 1e-7 / 3, 123456.789, -1e15 / 7, 5e-324 * 3, 1e300}
	for it := 0; it < nT; it++ {
		n := 2 + rng.Intn(40)
		d := 1 + rng.Intn(3) // number of distinct values
		if it%4 == 0 {
			d = 1
		}
		vals := make([]float64, d)
		for i := range vals {
			vals[i] = odd[rng.Intn(len(odd))]
			if rng.Intn(2) == 0 {
				vals[i] *= float64(1+rng.Intn(9)) / 7
			}
		}
		xs := make([]float64, n)
		for i := range xs {
			xs[i] = vals[rng.Intn(d)]
		}
		var qs []float64
		for i := 0; i <= 48; i++ {
			qs = append(qs, float64(i)/48)
		}
		for i := 0; i < 12; i++ {
			qs = append(qs, rng.Float64())
		}
		emit(c10Case{Xs: toF64s(xs), Qs: toF64s(qs)})
		asc := append([]float64{}, xs...)
		sort.Float64s(asc)
		emit(c10Case{Xs: toF64s(asc), Sorted: true, Qs: toF64s(qs)})
		if it%5 == 0 { // the same, weighted with unit / small integer weights
			ws := make([]float64, n)
			for i := range ws {
				ws[i] = float64(1 + rng.Intn(3))
			}
			emit(c10Case{Ps: c10Pairs(xs, ws), HasW: true, Qs: toF64s(qs)})
		}
	}
	// (d) degenerate / malformed: empty, single, all equal, all-zero weights, empty weighted
	dq := toF64s([]float64{-1, 0, 1e-9, 0.25, 0.5, 0.75, 1, 2})
	emit(c10Case{Xs: []F64{}, Qs: dq})
	emit(c10Case{Xs: []F64{}, Sorted: true, Qs: dq})
	emit(c10Case{Xs: []F64{}, Ws: []F64{}, HasW: true, Qs: dq})
	emit(c10Case{Xs: []F64{7}, Qs: dq})
	emit(c10Case{Xs: []F64{7}, Sorted: true, Qs: dq})
	emit(c10Case{Xs: []F64{3, 3, 3, 3}, Qs: dq})
	emit(c10Case{Xs: []F64{1, 2}, Qs: dq})
	emit(c10Case{Xs: []F64{2, 1, 3}, Ws: []F64{0, 0, 0}, HasW: true, Qs: dq})
	emit(c10Case{Xs: []F64{2, 1, 3}, Ws: []F64{0, 1, 0}, HasW: true, Qs: dq})
	emit(c10Case{Xs: []F64{1, 2, 3}, Ws: []F64{0, 1, 0}, HasW: true, Sorted: true, Qs: dq})
	emit(c10Case{Xs: []F64{5}, Ws: []F64{2}, HasW: true, Qs: dq})
}

func init() { register(&Prop{ID: "C10", Num: 10, Gen: c10Gen, Run: c10Run}) }

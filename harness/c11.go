package main

import (
	"encoding/json"
	"fmt"
	"math"
	"math/rand"
	"sort"

	"github.com/aclements/go-moremath/stats"
)

// C11: Op 0 = QuantileCI(N, Q, c) for every c in Cs with N <= 30 (one line per (N,Q));
// Op 1 = QuantileCI(N, Q, Cs[0]) with N > 30 plus the NormalDist oracle values (Mu, Sigma, InvCDF(alpha), CDF at the ends of the
// rounded band and of every band of the widening loop);
// Op 2 = QuantileCIResult{Quantile:Q, N:RN, LoOrder:Lo, HiOrder:Hi}.SampleCI(Sample{Xs, Sorted, Weights}); with Prev: after an
// earlier SampleCI call on the same backing array holding Prev (in-place overwrite history).
type c11Case struct {
	Op       int   `json:"op"`
	N        int   `json:"n"`
	Q        F64   `json:"q"`
	Cs       []F64 `json:"cs,omitempty"`
	Auto     bool  `json:"auto,omitempty"` // op 0: append the cumulative masses of the greedy sequence and their neighbours
	Lo       int   `json:"lo,omitempty"`
	Hi       int   `json:"hi,omitempty"`
	Weighted bool  `json:"w,omitempty"`
	Sorted   bool  `json:"sorted,omitempty"`
	Xs       []F64 `json:"xs,omitempty"`
	// op 2: contents the SAME backing array held during an earlier SampleCI call (same length); the array is then
	// overwritten in place with Xs and the observed call is made (a result must depend on the current contents only)
	Prev []F64 `json:"prev,omitempty"`
}

func c11Obs(l *Line, r stats.QuantileCIResult) {
	l.I(r.N).F(r.Quantile).F(r.Confidence).I(r.LoOrder).I(r.HiOrder).B(r.Ambiguous)
}

// the float cumulative masses of the greedy accumulation, obtained from the implementation itself:
// ask for a confidence just above the last one reported
func c11Cumulative(n int, q float64) []float64 {
	var out []float64
	c := 0.0
	for i := 0; i < n+3; i++ {
		r := stats.QuantileCI(n, q, c)
		a := r.Confidence
		if math.IsNaN(a) || a >= 1 || (len(out) > 0 && a <= out[len(out)-1]) {
			if a >= 1 && a < 1.0000001 {
				out = append(out, a)
			}
			break
		}
		out = append(out, a)
		c = math.Nextafter(a, 2)
	}
	return out
}

func c11Run(raw []byte) (*Line, error) {
	var c c11Case
	if err := json.Unmarshal(raw, &c); err != nil {
		return nil, err
	}
	q := float64(c.Q)
	l := &Line{}
	switch c.Op {
	case 0:
		if c.N < 1 || c.N > 30 || !(q >= 0 && q <= 1) {
			return nil, fmt.Errorf("bad n/q")
		}
		cs := fromF64s(c.Cs)
		for _, x := range cs {
			if math.IsNaN(x) || math.IsInf(x, 0) {
				return nil, fmt.Errorf("bad c")
			}
		}
		if c.Auto {
			for _, a := range c11Cumulative(c.N, q) {
				cs = append(cs, a, math.Nextafter(a, 2), math.Nextafter(a, -1))
			}
		}
		l.I(11).I(0).I(c.N).F(q).I(len(cs))
		for _, cf := range cs {
			l.F(cf)
			c11Obs(l, stats.QuantileCI(c.N, q, cf))
		}
	case 1:
		if c.N <= 30 || c.N > 100000 || !(q >= 0 && q <= 1) || len(c.Cs) != 1 {
			return nil, fmt.Errorf("bad n/q/c")
		}
		cf := float64(c.Cs[0])
		if math.IsNaN(cf) || math.IsInf(cf, 0) {
			return nil, fmt.Errorf("bad c")
		}
		res := stats.QuantileCI(c.N, q, cf)
		l.I(11).I(1).I(c.N).F(q).F(cf)
		if cf >= 1 {
			l.F(0).F(0).F(0).F(0).I(0).I(0).F(0).F(0).F(0).F(0).F(0).F(0).I(0)
		} else {
			// the oracle: the implementation's own normal quantile and CDF at the points the band logic uses
			norm := stats.BinomialDist{N: c.N, P: q}.NormalApprox()
			alpha := (1 - cf) / 2
			if alpha > 0.5 { // quantileci.go:196: a confidence of zero or less asks for the centre only
				alpha = 0.5
			}
			l1 := norm.InvCDF(alpha)
			r1 := 2*norm.Mu - l1
			l0 := int(math.Floor(math.Floor(l1-0.5)+0.5)) + 1
			r0 := int(math.Floor(math.Ceil(r1-0.5)+0.5)) + 1
			la := l0 // the left end of the rounded band (quantileci.go:226: an empty band keeps the bucket below)
			if r0 <= l0 {
				la = r0 - 1
			}
			// quantileci.go:253: the band is widened while its mass is below the request and it does not cover
			// [0, n+1]; the bands that were too light are reported with their CDF values
			type step struct{ b, h, lo float64 }
			var steps []step
			lw, rw := la, r0
			for len(steps) <= c.N+2 {
				h, lo := norm.CDF(float64(rw)-0.5), norm.CDF(float64(lw)-0.5)
				if h-lo < cf && (lw > 0 || rw < c.N+1) {
					steps = append(steps, step{h - lo, h, lo})
					lw--
					rw++
				} else {
					break
				}
			}
			ch, cl, ch1 := norm.CDF(float64(rw)-0.5), norm.CDF(float64(lw)-0.5), norm.CDF(float64(rw-1)-0.5)
			l.F(norm.Mu).F(norm.Sigma).F(l1).F(r1).I(l0).I(r0).F(ch - cl).F(ch1 - cl).F(norm.CDF(l1)).F(ch).F(cl).F(ch1)
			l.I(len(steps))
			for _, st := range steps {
				l.F(st.b).F(st.h).F(st.lo)
			}
		}
		c11Obs(l, res)
	case 2:
		if len(c.Xs) > 200 || c.N < 0 || c.N > 1000 || !(q >= 0 && q <= 1) {
			return nil, fmt.Errorf("bad sample case")
		}
		xs := fromF64s(c.Xs)
		for _, x := range xs {
			if math.IsNaN(x) || math.IsInf(x, 0) {
				return nil, fmt.Errorf("bad x")
			}
		}
		if c.Sorted && !sort.Float64sAreSorted(xs) {
			return nil, fmt.Errorf("Sorted flag on unsorted data")
		}
		if len(c.Prev) != 0 && len(c.Prev) != len(xs) {
			return nil, fmt.Errorf("prev has another length")
		}
		if len(c.Prev) != 0 {
			// history: an earlier call on the same backing array with other contents (unsorted, unweighted), then the
			// array is overwritten in place
			prev := fromF64s(c.Prev)
			for _, x := range prev {
				if math.IsNaN(x) || math.IsInf(x, 0) {
					return nil, fmt.Errorf("bad prev")
				}
			}
			buf := make([]float64, len(xs))
			copy(buf, prev)
			pres := stats.QuantileCIResult{Quantile: q, N: len(buf), LoOrder: c.Lo, HiOrder: c.Hi}
			catch(func() { pres.SampleCI(stats.Sample{Xs: buf}) })
			copy(buf, xs)
			xs = buf
		}
		before := append([]float64(nil), xs...)
		s := stats.Sample{Xs: xs, Sorted: c.Sorted}
		if c.Weighted {
			s.Weights = make([]float64, len(xs))
			for i := range s.Weights {
				s.Weights[i] = 1
			}
		}
		res := stats.QuantileCIResult{Quantile: q, N: c.N, LoOrder: c.Lo, HiOrder: c.Hi}
		var qr, lo, hi float64
		pan, _ := catch(func() { qr, lo, hi = res.SampleCI(s) })
		st := 0
		if pan {
			st = 2
		}
		sc := append([]float64(nil), before...)
		sort.Float64s(sc)
		qref := 0.0
		if len(sc) > 0 {
			qref = stats.Sample{Xs: sc, Sorted: true}.Quantile(q)
		}
		if pan {
			qr, qref = 0, 0
		}
		l.I(11).I(2).I(c.N).I(c.Lo).I(c.Hi).F(q).B(c.Weighted).B(c.Sorted).I(st)
		l.Fs(before).Fs(xs).F(qr).F(lo).F(hi).F(qref)
	default:
		return nil, fmt.Errorf("bad op")
	}
	return l, nil
}

func c11Gen(tier string, rng *rand.Rand, emit func(interface{})) {
	thorough := tier == "thorough"
	var qs []float64
	for k := 0; k <= 40; k++ {
		qs = append(qs, float64(k)/40)
	}
	qs = append(qs, 1e-9, 1-1e-9)
	levels := 16
	if thorough {
		levels = 200
	}
	special := []float64{0, -0.5, 1e-9, 0.5, 0.8, 0.9, 0.95, 0.99, 0.999, 1 - 1e-12, math.Nextafter(1, 0), 1, 1.5}
	// (a) n = 1..30 exhaustively x the q grid x the c grid + every cumulative mass and its float neighbours
	for n := 1; n <= 30; n++ {
		for _, q := range qs {
			var cs []F64
			for i := 1; i <= levels; i++ {
				cs = append(cs, F64(float64(i)/float64(levels+1)))
			}
			for _, s := range special {
				cs = append(cs, F64(s))
			}
			for i := 0; i < 6; i++ {
				cs = append(cs, F64(rng.Float64()))
			}
			emit(c11Case{Op: 0, N: n, Q: F64(q), Cs: cs, Auto: true})
		}
	}
	// random q (full mantissa) for a few n
	nr := 40
	if thorough {
		nr = 600
	}
	for i := 0; i < nr; i++ {
		n := 1 + rng.Intn(30)
		q := rng.Float64()
		if rng.Intn(4) == 0 {
			q = float64(rng.Intn(65)) / 64
		}
		var cs []F64
		for j := 0; j < 12; j++ {
			cs = append(cs, F64(rng.Float64()))
		}
		cs = append(cs, 0.9, 0.95, 0.99)
		emit(c11Case{Op: 0, N: n, Q: F64(q), Cs: cs, Auto: true})
	}
	// (b) n > 30: selected n up to 2000, switch-over 30/31
	ns := []int{31, 32, 33, 35, 40, 50, 64, 100, 101, 200, 500, 1000, 2000}
	ncs := []float64{0, 1e-9, 0.01, 0.3, 0.5, 0.8, 0.9, 0.95, 0.99, 0.999, 1 - 1e-9, 1 - 1e-15, math.Nextafter(1, 0), 1, 2}
	for _, n := range ns {
		for _, q := range qs {
			for _, cf := range ncs {
				emit(c11Case{Op: 1, N: n, Q: F64(q), Cs: []F64{F64(cf)}})
			}
		}
	}
	nrn := 1500
	if thorough {
		nrn = 40000
	}
	for i := 0; i < nrn; i++ {
		n := 31 + rng.Intn(120)
		if rng.Intn(4) == 0 {
			n = 31 + rng.Intn(1970)
		}
		q := rng.Float64()
		switch rng.Intn(4) {
		case 0:
			q = qs[rng.Intn(len(qs))]
		case 1: // near the ends, where the band is clamped
			q = rng.Float64() * 3 / float64(n)
			if rng.Intn(2) == 0 {
				q = 1 - q
			}
		}
		if q < 0 {
			q = 0
		}
		if q > 1 {
			q = 1
		}
		cf := rng.Float64()
		switch rng.Intn(3) {
		case 0:
			cf = 1 - math.Pow(10, -1-rng.Float64()*14)
		case 1:
			cf = ncs[rng.Intn(len(ncs))]
		}
		emit(c11Case{Op: 1, N: n, Q: F64(q), Cs: []F64{F64(cf)}})
	}
	// (b2) the 30/31 switch of quantileCIApproxThreshold: random (q, c) on both sides
	nsw := 60
	if thorough {
		nsw = 600
	}
	for i := 0; i < nsw; i++ {
		q := rng.Float64()
		if rng.Intn(3) == 0 {
			q = float64(rng.Intn(33)) / 32
		}
		var cs []F64
		for j := 0; j < 8; j++ {
			cs = append(cs, F64(rng.Float64()))
		}
		cs = append(cs, F64(1-math.Pow(10, -1-rng.Float64()*12)))
		emit(c11Case{Op: 0, N: 30 - rng.Intn(2), Q: F64(q), Cs: cs, Auto: true})
		for j := 0; j < 3; j++ {
			emit(c11Case{Op: 1, N: 31 + rng.Intn(2), Q: F64(q), Cs: []F64{cs[rng.Intn(len(cs))]}})
		}
	}
	// (b3) q within 1e-6 .. 1e-12 of 0 and 1 (all the mass in an end bucket, clamped bands)
	ntiny := 24
	if thorough {
		ntiny = 300
	}
	for i := 0; i < ntiny; i++ {
		q := math.Pow(10, -6-rng.Float64()*6)
		if rng.Intn(2) == 0 {
			q = 1 - q
		}
		cs := []F64{0.5, 0.9, 0.99, F64(rng.Float64()), F64(1 - math.Pow(10, -3-rng.Float64()*10))}
		emit(c11Case{Op: 0, N: 1 + rng.Intn(30), Q: F64(q), Cs: cs, Auto: true})
		for j := 0; j < 4; j++ {
			n := []int{31, 32, 50, 100, 1000, 31 + rng.Intn(1970)}[rng.Intn(6)]
			emit(c11Case{Op: 1, N: n, Q: F64(q), Cs: []F64{cs[rng.Intn(len(cs))]}})
		}
	}
	// (b4) n > 30, c within a few units of 2^-53 of 1: the CDF saturates, the shorter band has the SAME
	// float mass as the symmetric one (aBiased == Confidence: the trim must not be taken)
	nsat := 200
	if thorough {
		nsat = 3000
	}
	for i := 0; i < nsat; i++ {
		n := 100 + rng.Intn(1900)
		q := 0.05 + 0.9*rng.Float64()
		cf := 1 - float64(1+rng.Intn(6))*math.Ldexp(1, -53)
		emit(c11Case{Op: 1, N: n, Q: F64(q), Cs: []F64{F64(cf)}})
	}
	// (b6) n > 30 with n q (1-q) the square of a small dyadic rational (Sigma exact and short): the cases
	// whose Phi-values the M2 stage (bin/plugins/C11.py) certifies in the kernel against the true normal CDF
	nice := []struct {
		n int
		q float64
	}{{36, 0.5}, {64, 0.5}, {100, 0.5}, {144, 0.5}, {400, 0.5}, {1024, 0.5}, {48, 0.25}, {48, 0.75}, {192, 0.25}, {300, 0.25}, {300, 0.75}, {1200, 0.25}, {448, 0.125}, {448, 0.875}, {1792, 0.125}, {64, 0.0625}, {960, 0.0625}}
	nicec := []float64{0.01, 0.1, 0.3, 0.5, 0.8, 0.9, 0.95, 0.99, 0.999, 0.999999}
	for _, nq := range nice {
		for _, cf := range nicec {
			emit(c11Case{Op: 1, N: nq.n, Q: F64(nq.q), Cs: []F64{F64(cf)}})
		}
		for i := 0; i < 3; i++ {
			emit(c11Case{Op: 1, N: nq.n, Q: F64(nq.q), Cs: []F64{F64(float64(1+rng.Intn(1023)) / 1024)}})
		}
	}
	// (b7) n > 30, band-aligned levels (the counterpart of `Auto` for n <= 30): c = the implementation's own
	// float mass of a band [h, 2mu-h] with half-integer ends (or of that band without its top bucket, the
	// left-biased trim), and its neighbours 1..3 ulps away.  For such c
	// norm.InvCDF((1-c)/2) lands on (or within an ulp of) the band boundary h: the outward rounding is
	// decided by the last bit, and "Confidence never below c" is tested where it is tightest.
	nal := 40
	if thorough {
		nal = 600
	}
	for i := 0; i < nal; i++ {
		n := []int{31, 32, 36, 64, 100}[rng.Intn(5)]
		if rng.Intn(2) == 0 {
			n = 31 + rng.Intn(400)
		}
		q := 0.5
		switch rng.Intn(3) {
		case 0: // mu a multiple of 1/2: both ends of the symmetric band are half-integers together
			q = float64(1+rng.Intn(2*n-1)) / float64(2*n)
		case 1: // ... and within 4 of 0 or n: one side of the band is already at (or beyond) the end of [0, n+1]
			// when the other still has to be widened
			k := 1 + rng.Intn(8)
			if rng.Intn(2) == 0 {
				k = 2*n - k
			}
			q = float64(k) / float64(2*n)
		}
		norm := stats.BinomialDist{N: n, P: q}.NormalApprox()
		if !(norm.Sigma > 0) {
			continue
		}
		w := float64(rng.Intn(int(4*norm.Sigma) + 1))
		h := math.Floor(norm.Mu-0.25) + 0.5 - w // a half-integer below mu
		c0 := norm.CDF(2*norm.Mu-h) - norm.CDF(h)
		if i%2 == 1 && 2*norm.Mu-h-1 > h { // ... or of that band minus its top bucket: aBiased == confidence to the last bit
			c0 = norm.CDF(2*norm.Mu-h-1) - norm.CDF(h)
		}
		for d := -2; d <= 3; d++ {
			cf := c0
			for j := 0; j < d; j++ {
				cf = math.Nextafter(cf, 2)
			}
			for j := 0; j > d; j-- {
				cf = math.Nextafter(cf, -1)
			}
			if cf > 0 && cf < 1 {
				emit(c11Case{Op: 1, N: n, Q: F64(q), Cs: []F64{F64(cf)}})
			}
		}
	}
	// (b5) n > 30, c <= 0 (repaired by "fix: QuantileCI returns an empty or inverted interval for
	// confidence <= 0 when n > 30") and c just above 0; q such that mu and mu +- 0.5 are integers
	// (l1 = r1 = mu on a band boundary: the empty rounded band)
	for _, n := range []int{31, 32, 100, 1000} {
		fn := float64(n)
		for _, q := range []float64{0, 0.025, 0.3, 0.5, 0.975, 1, 15.5 / fn, 16 / fn, 16.5 / fn, (fn - 0.5) / fn, 0.5 / fn} {
			for _, cf := range []float64{0, math.Copysign(0, -1), -1e-9, -0.1, -0.5, -0.9, -3, -1e300, 5e-324, 1e-300, 1e-12, 1e-9} {
				emit(c11Case{Op: 1, N: n, Q: F64(q), Cs: []F64{F64(cf)}})
			}
		}
	}
	nneg := 60
	if thorough {
		nneg = 600
	}
	for i := 0; i < nneg; i++ {
		n := 31 + rng.Intn(300)
		q := rng.Float64()
		if rng.Intn(2) == 0 { // mu a multiple of 1/2
			q = float64(rng.Intn(2*n+1)) / float64(2*n)
		}
		cf := -3 * rng.Float64() * float64(rng.Intn(2))
		emit(c11Case{Op: 1, N: n, Q: F64(q), Cs: []F64{F64(cf)}})
	}
	// (c0) SampleCI on unsorted data with both orders outside the sample (0 and n+1), and one of them
	nso := 60
	if thorough {
		nso = 600
	}
	for i := 0; i < nso; i++ {
		n := 1 + rng.Intn(9)
		xs := make([]float64, n)
		kind := rng.Intn(3)
		for j := range xs {
			xs[j] = genValue(rng, kind)
		}
		if n >= 2 && sort.Float64sAreSorted(xs) { // make sure it is NOT sorted
			xs[0], xs[n-1] = xs[n-1], xs[0]
		}
		cs := c11Case{Op: 2, N: n, Q: F64(qs[rng.Intn(len(qs))]), Xs: toF64s(xs)}
		if i%2 == 1 {
			prev := make([]float64, n)
			for j := range prev {
				prev[j] = genValue(rng, kind)
			}
			cs.Prev = toF64s(prev)
		}
		switch i % 3 {
		case 0:
			cs.Lo, cs.Hi = 0, n+1
		case 1:
			cs.Lo, cs.Hi = 0, 1+rng.Intn(n)
		case 2:
			cs.Lo, cs.Hi = 1+rng.Intn(n), n+1
		}
		emit(cs)
	}
	// (c) SampleCI
	ns2 := 600
	if thorough {
		ns2 = 6000
	}
	for i := 0; i < ns2; i++ {
		n := 1 + rng.Intn(12)
		if rng.Intn(3) == 0 {
			n = 1 + rng.Intn(60)
		}
		xs := make([]float64, n)
		kind := rng.Intn(3)
		for j := range xs {
			xs[j] = genValue(rng, kind)
		}
		q := qs[rng.Intn(len(qs))]
		cs := c11Case{Op: 2, N: n, Q: F64(q)}
		switch rng.Intn(4) {
		case 0: // arbitrary orders including 0 and n+1
			cs.Lo = rng.Intn(n + 1)
			cs.Hi = cs.Lo + 1 + rng.Intn(n+1-cs.Lo)
		default: // orders as QuantileCI computes them
			r := stats.QuantileCI(n, q, []float64{0.5, 0.9, 0.95, 0.99, rng.Float64()}[rng.Intn(5)])
			cs.Lo, cs.Hi = r.LoOrder, r.HiOrder
		}
		switch rng.Intn(12) {
		case 0:
			cs.Weighted = true
		case 1:
			cs.N = n + 1 - 2*rng.Intn(2) // size mismatch
		case 2, 3:
			sort.Float64s(xs)
			cs.Sorted = true
		case 4:
			cs.Hi = n + 2 // out of range on purpose: +inf by the rule HiOrder-1 >= len
		case 5:
			if rng.Intn(2) == 0 {
				cs.Lo = n + 1 // index out of range: panic
				cs.Hi = n + 1
			}
		}
		cs.Xs = toF64s(xs)
		if rng.Intn(2) == 0 { // in-place overwrite history: the array held other values during an earlier call
			prev := make([]float64, len(xs))
			for j := range prev {
				prev[j] = genValue(rng, kind)
			}
			if rng.Intn(3) == 0 { // ... or the same values in another order
				copy(prev, xs)
				rng.Shuffle(len(prev), func(a, b int) { prev[a], prev[b] = prev[b], prev[a] })
			}
			cs.Prev = toF64s(prev)
		}
		emit(cs)
	}
}

func init() { register(&Prop{ID: "C11", Num: 11, Gen: c11Gen, Run: c11Run}) }

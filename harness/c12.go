package main

import (
	"encoding/json"
	"fmt"
	"math"
	"math/rand"
	"sort"

	"github.com/aclements/go-moremath/stats"
)

// C12: kernel density estimates.  One case = one KDE (sample, optional positive weights,
// kernel, bandwidth, boundaries) and a list of points; the line format is documented at the
// top of coq/Check/C12.v.
type c12Case struct {
	Xs     []F64 `json:"xs"`
	Ws     []F64 `json:"ws,omitempty"`
	HasW   bool  `json:"hasw,omitempty"`
	Kernel int   `json:"kernel"` // 0 Epanechnikov, 1 Gaussian, 2 Delta
	H      F64   `json:"h"`      // Bandwidth field; 0 = lazy (Scott's rule on first use)
	Bmin   F64   `json:"bmin"`
	Bmax   F64   `json:"bmax"`
	Pts    []F64 `json:"pts"`
	First  int   `json:"first,omitempty"`  // which call comes first: 0 PDF, 1 CDF, 2 Bounds
	Bounds bool  `json:"bounds,omitempty"` // call Bounds()
	Quad   bool  `json:"quad,omitempty"`   // quadrature observables
	Sorted bool  `json:"sorted,omitempty"` // Sample.Sorted (only on ascending Xs): must not change any result
	// object history: the SAME *KDE value is first configured and evaluated as each of Pre (field
	// assignments, a few PDF/CDF/Bounds calls, results compared in those stages' own cases), then
	// reconfigured by field assignment as this case.  Pre of the stages themselves is ignored.
	Pre       []c12Case `json:"pre,omitempty"`
	KeepH     bool      `json:"keeph,omitempty"`     // do not assign Bandwidth: keep what the object holds (e.g. the lazily filled value)
	Overwrite bool      `json:"overwrite,omitempty"` // new sample written into the previous Sample.Xs backing array (same length only)
}

func c12Kernel(k int) stats.KDEKernel {
	switch k {
	case 1:
		return stats.GaussianKernel
	case 2:
		return stats.DeltaKernel
	}
	return stats.EpanechnikovKernel
}

// c12Check validates one configuration (h = the Bandwidth the object will hold before the
// first call) and returns its decoded sample and (sorted) points.
func c12Check(c c12Case, h float64) ([]float64, []float64, []float64, error) {
	xs := fromF64s(c.Xs)
	var ws []float64
	if c.HasW {
		ws = fromF64s(c.Ws)
		if len(ws) != len(xs) {
			return nil, nil, nil, fmt.Errorf("len(ws) != len(xs)")
		}
		for _, w := range ws {
			if !(w > 0) {
				return nil, nil, nil, fmt.Errorf("weights must be positive")
			}
		}
	} else if len(c.Ws) != 0 {
		return nil, nil, nil, fmt.Errorf("weights without hasw")
	}
	pts := fromF64s(c.Pts)
	bmin, bmax := float64(c.Bmin), float64(c.Bmax)
	if !allFinite(xs) || !allFinite(ws) || !allFinite(pts) || len(xs) > 200 || len(pts) > 400 {
		return nil, nil, nil, fmt.Errorf("non-finite input or too large")
	}
	if c.Kernel < 0 || c.Kernel > 2 || c.First < 0 || c.First > 2 {
		return nil, nil, nil, fmt.Errorf("bad kernel/first")
	}
	if math.IsNaN(h) || math.IsInf(h, 0) || h < 0 {
		return nil, nil, nil, fmt.Errorf("bandwidth must be finite and >= 0")
	}
	if math.IsNaN(bmin) || math.IsNaN(bmax) || math.IsInf(bmin, 1) || math.IsInf(bmax, -1) ||
		(math.IsInf(bmin, -1) && math.IsInf(bmax, 1)) {
		return nil, nil, nil, fmt.Errorf("boundary configuration outside the property")
	}
	bc := bmin != 0 || bmax != 0
	both := bc && !math.IsInf(bmin, -1) && !math.IsInf(bmax, 1)
	xmin, xmax := math.Inf(1), math.Inf(-1)
	for _, x := range xs {
		xmin, xmax = math.Min(xmin, x), math.Max(xmax, x)
	}
	if bc {
		if !(bmin < bmax) {
			return nil, nil, nil, fmt.Errorf("empty support [BoundaryMin, BoundaryMax): outside the property")
		}
		if len(xs) > 0 && (xmin < bmin || xmax > bmax) {
			return nil, nil, nil, fmt.Errorf("data outside the boundaries")
		}
	}
	if both && h == 0 && ws == nil && c12ScottDegenerate(xs) {
		// Scott's rule gives Bandwidth 0 (StdDev or IQR is 0): outside the property (positive
		// bandwidth), and the image series of the doubly bounded estimate then sums NaN terms
		// for ever (series stops only when the partial sum stops changing)
		return nil, nil, nil, fmt.Errorf("lazy bandwidth would be 0 for this sample with a double boundary: outside the property, PDF/CDF do not return")
	}
	callBounds := c.Bounds || c.First == 2
	if len(xs) == 0 && (both || callBounds || h == 0 || c.Quad) {
		return nil, nil, nil, fmt.Errorf("empty sample: only PDF/CDF without double boundary")
	}
	if both && h > 0 && bmax > bmin && h/(2*(bmax-bmin)) > 200 {
		return nil, nil, nil, fmt.Errorf("image series too long")
	}
	// (Scott's bandwidth is at most 1.06 * StdDev <= 1.06 * range: a scale-free bound)
	if both && h == 0 && bmax > bmin && len(xs) > 0 && 1.06*(xmax-xmin)/(2*(bmax-bmin)) > 20 {
		return nil, nil, nil, fmt.Errorf("image series too long (lazy bandwidth)")
	}
	sort.Float64s(pts)
	if c.Sorted && !sort.Float64sAreSorted(xs) {
		return nil, nil, nil, fmt.Errorf("Sorted flag on data that is not ascending: outside the property")
	}

	return xs, ws, pts, nil
}

// c12Configure puts the configuration c on the object by FIELD ASSIGNMENT (the way a caller
// re-uses a KDE value) and returns the Bandwidth the object holds before the next call.
func c12Configure(kde *stats.KDE, c c12Case) (h float64, xs, ws, pts []float64, err error) {
	h = float64(c.H)
	if c.KeepH {
		h = kde.Bandwidth
	}
	xs, ws, pts, err = c12Check(c, h)
	if err != nil {
		return
	}
	if c.Overwrite && len(kde.Sample.Xs) == len(xs) && len(xs) > 0 {
		copy(kde.Sample.Xs, xs) // same backing array, new values
		xs = kde.Sample.Xs
	}
	kde.Sample = stats.Sample{Xs: xs, Weights: ws, Sorted: c.Sorted}
	kde.Kernel = c12Kernel(c.Kernel)
	if !c.KeepH {
		kde.Bandwidth = h
	}
	kde.BoundaryMin, kde.BoundaryMax = float64(c.Bmin), float64(c.Bmax)
	return
}

// c12Exercise evaluates a prelude stage on the object (observations are compared in the
// stage's own case).
func c12Exercise(kde *stats.KDE, c c12Case, pts []float64) {
	if c.First == 2 || c.Bounds {
		catch(func() { kde.Bounds() })
	}
	for i, x := range pts {
		if i >= 6 {
			break
		}
		if c.First == 1 {
			catch(func() { kde.CDF(x) })
			catch(func() { kde.PDF(x) })
		} else {
			catch(func() { kde.PDF(x) })
			catch(func() { kde.CDF(x) })
		}
	}
}

func c12Run(raw []byte) (*Line, error) {
	var c c12Case
	if err := json.Unmarshal(raw, &c); err != nil {
		return nil, err
	}
	if len(c.Pre) > 8 {
		return nil, fmt.Errorf("history too long")
	}
	kde := &stats.KDE{}
	for _, p := range c.Pre {
		_, _, _, ppts, err := c12Configure(kde, p)
		if err != nil {
			return nil, fmt.Errorf("prelude stage: %v", err)
		}
		c12Exercise(kde, p, ppts)
	}
	if (c.KeepH || c.Overwrite) && len(c.Pre) == 0 {
		return nil, fmt.Errorf("keeph/overwrite without a history")
	}
	h, xs, ws, pts, err := c12Configure(kde, c)
	if err != nil {
		return nil, err
	}
	bmin, bmax := float64(c.Bmin), float64(c.Bmax)
	bc := bmin != 0 || bmax != 0
	xmin, xmax := math.Inf(1), math.Inf(-1)
	for _, x := range xs {
		xmin, xmax = math.Min(xmin, x), math.Max(xmax, x)
	}
	callBounds := c.Bounds || c.First == 2
	xs0 := append([]float64(nil), xs...)
	var ws0 []float64
	if ws != nil {
		ws0 = append([]float64{}, ws...)
	}
	l := &Line{}
	l.I(12).I(c.Kernel).B(c.HasW).Fs(xs).Fs(ws).F(h).F(bmin).F(bmax)

	// the bandwidth rules, on a separate copy of the sample
	{
		s2 := stats.Sample{Xs: append([]float64(nil), xs...), Sorted: c.Sorted}
		if ws != nil {
			s2.Weights = append([]float64{}, ws...)
		}
		var v float64
		if pan, _ := catch(func() { v = stats.BandwidthScott(s2) }); pan {
			l.I(2).F(0)
		} else {
			l.I(0).F(v)
		}
		if pan, _ := catch(func() { v = stats.BandwidthSilverman(s2) }); pan {
			l.I(2).F(0)
		} else {
			l.I(0).F(v)
		}
	}

	type bres struct {
		st                     int
		lo, hi, clo, chi, haft float64
	}
	doBounds := func() bres {
		var r bres
		pan, _ := catch(func() { r.lo, r.hi = kde.Bounds() })
		if pan {
			return bres{st: 2, haft: kde.Bandwidth}
		}
		catch(func() { r.clo = kde.CDF(r.lo) })
		catch(func() { r.chi = kde.CDF(r.hi) })
		r.haft = kde.Bandwidth
		return r
	}
	br := bres{st: 3}
	if c.First == 2 {
		br = doBounds()
	}
	l.I(len(pts))
	for _, x := range pts {
		var p, cd float64
		var ppan, cpan bool
		if c.First == 1 {
			cpan, _ = catch(func() { cd = kde.CDF(x) })
			ppan, _ = catch(func() { p = kde.PDF(x) })
		} else {
			ppan, _ = catch(func() { p = kde.PDF(x) })
			cpan, _ = catch(func() { cd = kde.CDF(x) })
		}
		l.F(x)
		if ppan {
			l.I(2).F(0)
		} else {
			l.I(0).F(p)
		}
		if cpan {
			l.I(2).F(0)
		} else {
			l.I(0).F(cd)
		}
		l.F(kde.Bandwidth)
	}
	if callBounds && c.First != 2 {
		br = doBounds()
	}
	l.I(br.st).F(br.lo).F(br.hi).F(br.clo).F(br.chi).F(br.haft)

	// quadrature observables (not for the delta kernel, whose density is not a function)
	type qrec struct{ a, b, integral, ca, cb float64 }
	var qs []qrec
	mst, ma, mb, mint := 3, 0.0, 0.0, 0.0
	hq := kde.Bandwidth
	if c.Quad && c.Kernel != 2 && len(xs) > 0 && hq > 0 && !math.IsInf(hq, 0) {
		reach := hq
		maxw := hq
		if c.Kernel == 1 {
			reach, maxw = 10*hq, hq/2
		}
		A, B := xmin-reach, xmax+reach
		if bc && !math.IsInf(bmin, -1) {
			A = math.Max(A, bmin)
		}
		if bc && !math.IsInf(bmax, 1) {
			B = math.Min(B, bmax)
		}
		// break points: every image of every data point and of its kernel's support ends
		var breaks []float64
		addc := func(cx float64) {
			breaks = append(breaks, cx)
			if c.Kernel == 0 {
				breaks = append(breaks, cx-hq, cx+hq)
			}
		}
		tooMany := false
		for _, xi := range xs {
			addc(xi)
			if !bc {
				continue
			}
			if math.IsInf(bmax, 1) {
				addc(2*bmin - xi)
			} else if math.IsInf(bmin, -1) {
				addc(2*bmax - xi)
			} else if bmax > bmin {
				d := 2 * (bmax - bmin)
				N := int(math.Ceil(reach/d)) + 1
				if N*len(xs) > 20000 {
					tooMany = true
					break
				}
				for n := -N; n <= N; n++ {
					addc(xi + float64(n)*d)
					addc(2*bmin - xi + float64(n)*d)
				}
			}
		}
		pdf := func(x float64) float64 {
			v := math.NaN()
			catch(func() { v = kde.PDF(x) })
			return v
		}
		cdf := func(x float64) float64 {
			v := math.NaN()
			catch(func() { v = kde.CDF(x) })
			return v
		}
		if !tooMany && A < B {
			if v, ok := giQuadSplit(pdf, A, B, breaks, maxw, 40000); ok {
				mst, ma, mb, mint = 0, A, B, v
				// PDF-CDF consistency: the whole support (ending just below BoundaryMax, where the
				// CDF has not yet been switched to 1 by the guard) and pieces between points
				Bm := B
				if bc && B == bmax {
					Bm = math.Nextafter(bmax, math.Inf(-1))
				}
				cuts := []float64{A}
				var in []float64
				for _, x := range pts {
					if x > A && x < Bm {
						in = append(in, x)
					}
				}
				if len(in) > 0 {
					for _, k := range []int{len(in) / 4, len(in) / 2, 3 * len(in) / 4} {
						if in[k] > cuts[len(cuts)-1] {
							cuts = append(cuts, in[k])
						}
					}
				}
				cuts = append(cuts, Bm)
				if w, ok := giQuadSplit(pdf, A, Bm, breaks, maxw, 40000); ok {
					qs = append(qs, qrec{A, Bm, w, cdf(A), cdf(Bm)})
				}
				if len(cuts) > 2 {
					for i := 0; i+1 < len(cuts); i++ {
						if w, ok := giQuadSplit(pdf, cuts[i], cuts[i+1], breaks, maxw, 40000); ok {
							qs = append(qs, qrec{cuts[i], cuts[i+1], w, cdf(cuts[i]), cdf(cuts[i+1])})
						}
					}
				}
			}
		}
	}
	l.I(len(qs))
	for _, q := range qs {
		l.F(q.a).F(q.b).F(q.integral).F(q.ca).F(q.cb)
	}
	l.I(mst).F(ma).F(mb).F(mint)

	unmod := bitsEqual(kde.Sample.Xs, xs0) && bitsEqual(xs, xs0)
	if ws != nil {
		unmod = unmod && bitsEqual(kde.Sample.Weights, ws0) && bitsEqual(ws, ws0)
	} else {
		unmod = unmod && kde.Sample.Weights == nil
	}
	l.B(unmod && kde.Sample.Sorted == c.Sorted)
	l.B(c.Sorted)
	l.I(len(c.Pre))
	return l, nil
}

// ---------- generators ----------

func c12Spread(xs []float64) (lo, hi, spread float64) {
	lo, hi = math.Inf(1), math.Inf(-1)
	for _, x := range xs {
		lo, hi = math.Min(lo, x), math.Max(hi, x)
	}
	spread = hi - lo
	if !(spread > 0) {
		spread = 1
	}
	return
}

// sample values: mostly small dyadic rationals (exact float arithmetic), a minority of
// full-mantissa doubles; moderate offsets.
func c12Values(rng *rand.Rand, n int) []float64 {
	kind := rng.Intn(8)
	off := 0.0
	switch rng.Intn(4) {
	case 1:
		off = float64(rng.Intn(41) - 20)
	case 2:
		off = float64(rng.Intn(2001) - 1000)
	}
	xs := make([]float64, n)
	for i := range xs {
		switch {
		case kind <= 2: // small integers: ties
			xs[i] = float64(rng.Intn(13)-6) + off
		case kind <= 5: // dyadic, 6 fractional bits
			xs[i] = float64(rng.Intn(1<<10)-(1<<9))/64 + off
		case kind == 6: // full-mantissa doubles
			xs[i] = rng.NormFloat64()*3 + off
		default: // skewed positive (the natural use of a lower boundary at 0)
			xs[i] = giDyadic(math.Exp(rng.NormFloat64()), 8)
		}
	}
	if rng.Intn(3) == 0 && n > 1 {
		for i := range xs {
			if rng.Intn(2) == 0 {
				xs[i] = xs[rng.Intn(n)]
			}
		}
	}
	return xs
}

func c12Weights(rng *rand.Rand, n int) []float64 {
	ws := make([]float64, n)
	kind := rng.Intn(3)
	for i := range ws {
		switch kind {
		case 0:
			ws[i] = float64(1 + rng.Intn(5))
		case 1:
			ws[i] = float64(1+rng.Intn(64)) / 8
		default:
			ws[i] = 0.05 + rng.Float64()*3
		}
	}
	return ws
}

// bandwidth: 0.02 .. 50 sample spreads, log-uniform, rounded to a few bits
func c12Bandwidth(rng *rand.Rand, spread float64) float64 {
	f := math.Exp(math.Log(0.02) + rng.Float64()*(math.Log(50)-math.Log(0.02)))
	h := f * spread
	switch rng.Intn(6) {
	case 0: // a power of two: 1/h is exact
		_, ex := math.Frexp(h)
		return math.Ldexp(0.5, ex)
	case 1: // full mantissa
		return h
	default:
		return giDyadic(h, 5)
	}
}

// boundaries: from touching the data to far away
func c12Boundaries(rng *rand.Rand, conf int, lo, hi, spread, h float64) (bmin, bmax float64) {
	gap := func() float64 {
		switch rng.Intn(7) {
		case 0:
			return 0 // touching
		case 1:
			return giDyadic(h/4, 4)
		case 2:
			return giDyadic(h/2, 4)
		case 3:
			return h
		case 4:
			return giDyadic(2*h, 4)
		case 5:
			return giDyadic(spread*(0.1+rng.Float64()), 5)
		default:
			return giDyadic(spread*(20+100*rng.Float64())+10*h, 5) // far away
		}
	}
	switch conf {
	case 1:
		return lo - gap(), math.Inf(1)
	case 2:
		return math.Inf(-1), hi + gap()
	case 3:
		return lo - gap(), hi + gap()
	}
	return 0, 0
}

func c12Points(rng *rand.Rand, xs []float64, h, bmin, bmax float64, bc bool, n int) []float64 {
	lo, hi, spread := c12Spread(xs)
	r := h
	if !(r > 0) {
		r = spread / 4
	}
	a, b := lo-1.5*r, hi+1.5*r
	if bc && !math.IsInf(bmin, -1) {
		a = math.Min(a, bmin-r/2)
	}
	if bc && !math.IsInf(bmax, 1) {
		b = math.Max(b, bmax+r/2)
	}
	// do not stretch the grid over a far-away boundary: keep it where the density lives
	a = math.Max(a, lo-4*r-spread)
	b = math.Min(b, hi+4*r+spread)
	var pts []float64
	for i := 0; i <= n; i++ {
		pts = append(pts, giDyadic(a+(b-a)*float64(i)/float64(n), 12))
	}
	if bc && !math.IsInf(bmin, -1) {
		pts = append(pts, bmin, math.Nextafter(bmin, math.Inf(-1)), math.Nextafter(bmin, math.Inf(1)), bmin-r/2, bmin+r/8)
	}
	if bc && !math.IsInf(bmax, 1) {
		pts = append(pts, bmax, math.Nextafter(bmax, math.Inf(-1)), math.Nextafter(bmax, math.Inf(1)), bmax+r/2, bmax-r/8)
	}
	// kernel support ends and the data points themselves
	for j := 0; j < 4 && len(xs) > 0; j++ {
		xi := xs[rng.Intn(len(xs))]
		pts = append(pts, xi, xi+h, xi-h)
		if j == 0 {
			pts = append(pts, math.Nextafter(xi+h, math.Inf(1)), math.Nextafter(xi-h, math.Inf(-1)), math.Nextafter(xi, math.Inf(-1)))
		}
	}
	pts = append(pts, lo, hi, a-spread, b+spread, a+(b-a)*rng.Float64(), a+(b-a)*rng.Float64())
	return pts
}

// c12Thin: set by c12Gen for the quick tier (see c12Random)
var c12Thin bool

func c12Random(rng *rand.Rand, kernel, conf, n int) c12Case {
	xs := c12Values(rng, n)
	lo, hi, spread := c12Spread(xs)
	var c c12Case
	c.Kernel = kernel
	c.Xs = toF64s(xs)
	if rng.Intn(2) == 0 {
		c.HasW = true
		c.Ws = toF64s(c12Weights(rng, n))
	}
	h := c12Bandwidth(rng, spread)
	bmin, bmax := c12Boundaries(rng, conf, lo, hi, spread, h)
	if conf == 3 && h/(2*(bmax-bmin)) > 30 {
		// keep the image series short: widen the interval
		bmax = bmin + giDyadic(h/40, 5) + (hi - lo)
		for bmax < hi || h/(2*(bmax-bmin)) > 30 {
			bmax = bmax + giDyadic(h/16, 4)
		}
	}
	c.H, c.Bmin, c.Bmax = F64(h), F64(bmin), F64(bmax)
	pts := c12Points(rng, xs, h, bmin, bmax, conf != 0, 12+rng.Intn(12))
	if c12Thin && n > 12 {
		// quick tier: the exact model costs O(points x sample size) rational additions; halve
		// the points of the large samples (every feature is hit by the small ones)
		var half []float64
		for i, p := range pts {
			if i%2 == 0 {
				half = append(half, p)
			}
		}
		pts = half
	}
	c.Pts = toF64s(pts)
	c.First = rng.Intn(3)
	if c.First == 2 && rng.Intn(2) == 0 {
		c.First = 0
	}
	c.Bounds = rng.Intn(2) == 0
	c.Quad = kernel != 2 && rng.Intn(2) == 0
	if rng.Intn(3) == 0 {
		c = c12SortCase(c)
	}
	return c
}

// c12ScottDegenerate reports whether BandwidthScott would return 0 for the unweighted sample:
// all values equal, or the R8 quartiles (sample.go Quantile, same float formula) coincide.
func c12ScottDegenerate(xs []float64) bool {
	if len(xs) == 0 {
		return true
	}
	s := append([]float64(nil), xs...)
	sort.Float64s(s)
	if s[0] == s[len(s)-1] {
		return true
	}
	quant := func(q float64) float64 {
		N := float64(len(s))
		n := 1/3.0 + q*(N+1/3.0)
		kf, frac := math.Modf(n)
		k := int(kf)
		if k <= 0 {
			return s[0]
		} else if k >= len(s) {
			return s[len(s)-1]
		}
		return s[k-1] + frac*(s[k]-s[k-1])
	}
	return !(quant(0.75)-quant(0.25) > 0)
}

// c12Outside: configurations the random generators can stumble into that are outside the
// property (c12Run rejects them): an empty support, and a lazy bandwidth of 0 under a double
// boundary (the implementation does not return there).
func c12Outside(c c12Case) bool {
	bmin, bmax := float64(c.Bmin), float64(c.Bmax)
	bc := bmin != 0 || bmax != 0
	if bc && !(bmin < bmax) {
		return true
	}
	both := bc && !math.IsInf(bmin, -1) && !math.IsInf(bmax, 1)
	return both && float64(c.H) == 0 && !c.HasW && c12ScottDegenerate(fromF64s(c.Xs))
}

// c12Scale multiplies every length of the case (data, bandwidth, boundaries, points) by 2^k.
// Powers of two keep every dyadic value and every float relation exact; densities scale by
// 2^-k, probabilities not at all.  BoundaryMin = BoundaryMax = 0 ("no boundary") stays 0.
func c12Scale(c c12Case, k int) c12Case {
	if k == 0 {
		return c
	}
	sc := func(v F64) F64 {
		x := float64(v)
		if x == 0 || math.IsInf(x, 0) || math.IsNaN(x) {
			return v
		}
		return F64(math.Ldexp(x, k))
	}
	scs := func(vs []F64) []F64 {
		out := make([]F64, len(vs))
		for i, v := range vs {
			out[i] = sc(v)
		}
		return out
	}
	c.Xs, c.Pts = scs(c.Xs), scs(c.Pts)
	c.H, c.Bmin, c.Bmax = sc(c.H), sc(c.Bmin), sc(c.Bmax)
	return c
}

// the scale dimension of the random generators: two cases in five are moved to another scale,
// 2^k with k in -40..40 (nanosecond time stamps, byte counts, ... as well as tiny magnitudes)
func c12RandScale(rng *rand.Rand) int {
	switch rng.Intn(5) {
	case 0:
		return rng.Intn(81) - 40
	case 1:
		return []int{-40, -30, -20, 20, 30, 40}[rng.Intn(6)]
	}
	return 0
}

// c12Grid: deterministic cases that put every (kernel x boundary configuration x weighted)
// cell through every feature the comparator tags (points AT the boundaries, at kernel support
// ends, Bounds, quadrature, far images, lazy bandwidth in the three call orders, both branches
// of Scott's rule), at scale 1 and at the scales 2^40 and 2^-40.
func c12Grid(emit func(c interface{})) {
	inf := math.Inf(1)
	bounds := func(conf int, lo, hi float64) (float64, float64) {
		switch conf {
		case 1:
			return lo, inf
		case 2:
			return -inf, hi
		case 3:
			return lo, hi
		}
		return 0, 0
	}
	xs := []float64{1, 2, 4}
	wts := []float64{1, 2.5, 0.5}
	scales := []int{0, 40, -40}
	for kernel := 0; kernel < 3; kernel++ {
		for conf := 0; conf < 4; conf++ {
			for w := 0; w < 2; w++ {
				for _, k := range scales {
					// bandwidth 1: supports [0,2], [1,3], [3,5] against the boundaries 0.5 and 4.5
					c := c12Case{Xs: toF64s(xs), Kernel: kernel, H: 1, Bounds: true, Quad: kernel != 2}
					if w == 1 {
						c.HasW, c.Ws = true, toF64s(wts)
					}
					bmin, bmax := bounds(conf, 0.5, 4.5)
					c.Bmin, c.Bmax = F64(bmin), F64(bmax)
					var pts []float64
					for q := -6; q <= 26; q++ {
						pts = append(pts, float64(q)/4) // contains 0.5, 4.5, every x_i and every x_i +- h
					}
					c.Pts = toF64s(pts)
					c.First = (kernel + conf + w) % 3
					emit(c12Scale(c, k))
				}
				if kernel == 2 || conf != 3 {
					continue
				}
				// bandwidth larger than the interval: images beyond the nearest ones contribute
				for _, k := range []int{0, 40, -40, 20} {
					c := c12Case{Xs: toF64s(xs), Kernel: kernel, H: 6, Bmin: 0.5, Bmax: 4.5, Bounds: true, Quad: true}
					if w == 1 {
						c.HasW, c.Ws = true, toF64s(wts)
					}
					c.Pts = toF64s([]float64{0, 0.5, 0.75, 1, 2, 2.5, 3.75, 4, 4.25, 4.5, 5})
					emit(c12Scale(c, k))
				}
			}
		}
	}
	// lazy bandwidth: every kernel x configuration x call order, on a sample where Scott's rule
	// takes the StdDev branch (uniform) and one where it takes the IQR branch (heavy tails)
	sdS := []float64{1, 2, 3, 4, 5, 6, 7, 8}
	iqrS := []float64{0, 4, 4.25, 4.5, 4.75, 5, 5.25, 12}
	i := 0
	for kernel := 0; kernel < 3; kernel++ {
		for conf := 0; conf < 4; conf++ {
			for first := 0; first < 3; first++ {
				for si, smp := range [][]float64{sdS, iqrS} {
					lo, hi, _ := c12Spread(smp)
					c := c12Case{Xs: toF64s(smp), Kernel: kernel, H: 0, First: first, Bounds: true, Quad: kernel != 2 && si == 0 && first == 0}
					bmin, bmax := bounds(conf, lo-0.5, hi+1)
					c.Bmin, c.Bmax = F64(bmin), F64(bmax)
					var pts []float64
					for q := -4; q <= 28; q++ {
						pts = append(pts, float64(q)/2)
					}
					pts = append(pts, lo-0.5, hi+1)
					c.Pts = toF64s(pts)
					emit(c12Scale(c, scales[i%3]))
					i++
				}
			}
		}
	}
}

func c12Size(rng *rand.Rand) int {
	switch rng.Intn(4) {
	case 0:
		return 1 + rng.Intn(4)
	case 1:
		return 1 + rng.Intn(12)
	default:
		return 1 + rng.Intn(40)
	}
}

// c12SortCase puts the sample in ascending order (weights stay with their values) and sets the
// Sorted flag: the documented fast paths of Sample (Bounds, Quantile without sorting) and any
// other use of the flag must not change a result.
func c12SortCase(c c12Case) c12Case {
	n := len(c.Xs)
	idx := make([]int, n)
	for i := range idx {
		idx[i] = i
	}
	sort.SliceStable(idx, func(a, b int) bool { return float64(c.Xs[idx[a]]) < float64(c.Xs[idx[b]]) })
	xs := make([]F64, n)
	for i, j := range idx {
		xs[i] = c.Xs[j]
	}
	if c.HasW && len(c.Ws) == n {
		ws := make([]F64, n)
		for i, j := range idx {
			ws[i] = c.Ws[j]
		}
		c.Ws = ws
	}
	c.Xs = xs
	c.Sorted = true
	return c
}

// c12SortedGrid: ascending data with non-uniform weights and bandwidths smaller than the spread
// (a window of the sample reaches each x), every kernel x boundary configuration x weighted.
func c12SortedGrid(emit func(c interface{})) {
	inf := math.Inf(1)
	xs := []float64{0, 1, 2.5, 4, 7, 7, 9}
	wts := []float64{1, 3, 2, 5, 1, 4, 2}
	for kernel := 0; kernel < 3; kernel++ {
		for conf := 0; conf < 4; conf++ {
			for w := 0; w < 2; w++ {
				for _, h := range []float64{1, 3} {
					if kernel == 2 && h != 1 {
						continue
					}
					c := c12Case{Xs: toF64s(xs), Kernel: kernel, H: F64(h), Bounds: true, Quad: kernel != 2, Sorted: true}
					if w == 1 {
						c.HasW, c.Ws = true, toF64s(wts)
					}
					switch conf {
					case 1:
						c.Bmin, c.Bmax = -0.5, F64(inf)
					case 2:
						c.Bmin, c.Bmax = F64(-inf), 9.5
					case 3:
						c.Bmin, c.Bmax = -0.5, 9.5
					}
					var pts []float64
					for q := -4; q <= 22; q++ {
						pts = append(pts, float64(q)/2)
					}
					c.Pts = toF64s(pts)
					c.First = (kernel + conf + w) % 3
					emit(c)
				}
			}
		}
	}
}

// c12OffsetCase: data = offset + small spread with |offset| / spread between 1e4 and 1e9 (exact:
// values with 6 fractional bits below a multiple of a power of two), no boundary (reflections
// would round at the magnitude of the offset), unweighted: the bandwidth rules and the lazily
// filled Bandwidth must keep their relative accuracy ("1.06*s*n^(-1/5)" to within rounding).
func c12OffsetCase(rng *rand.Rand, kernel int, lazy bool) c12Case {
	n := 2 + rng.Intn(39)
	small := make([]float64, n)
	for i := range small {
		switch rng.Intn(3) {
		case 0:
			small[i] = float64(rng.Intn(17) - 8)
		default:
			small[i] = float64(rng.Intn(1<<10)-(1<<9)) / 64
		}
	}
	small[0], small[n-1] = -3, 5 // at least two distinct values
	if n > 4 && rng.Intn(3) == 0 {
		for i := 1; i < n-1; i++ {
			if rng.Intn(2) == 0 {
				small[i] = small[1+rng.Intn(n-2)] // ties: IQR branch
			}
		}
	}
	_, _, spread := c12Spread(small)
	// |offset| = m * 2^e with offset/spread in [1e4, 1e9]
	ratio := math.Exp(math.Log(1e4) + rng.Float64()*(math.Log(1e9)-math.Log(1e4)))
	if rng.Intn(4) == 0 {
		ratio = []float64{1e4, 1e6, 1e8, 1e9}[rng.Intn(4)]
	}
	off := giDyadic(ratio*spread, 0)
	_, ex := math.Frexp(off)
	if ex > 12 {
		off = math.Ldexp(math.Round(math.Ldexp(off, 12-ex)), ex-12) // 12 significant bits
	}
	if rng.Intn(2) == 0 {
		off = -off
	}
	xs := make([]float64, n)
	for i := range xs {
		xs[i] = off + small[i]
	}
	lo, hi, spread := c12Spread(xs)
	c := c12Case{Xs: toF64s(xs), Kernel: kernel}
	h := 0.0
	r := spread / 2
	if !lazy {
		h = giDyadic(spread*(0.05+rng.Float64()), 6)
		r = h
	}
	c.H = F64(h)
	var pts []float64
	for i := 0; i <= 12; i++ {
		pts = append(pts, giDyadic(lo-1.5*r+(hi-lo+3*r)*float64(i)/12, 8))
	}
	for j := 0; j < 3; j++ {
		xi := xs[rng.Intn(n)]
		pts = append(pts, xi)
		if h > 0 {
			pts = append(pts, xi+h, xi-h)
		}
	}
	c.Pts = toF64s(pts)
	c.First = rng.Intn(3)
	c.Bounds = rng.Intn(2) == 0 || c.First == 2
	c.Quad = kernel != 2 && rng.Intn(2) == 0
	if rng.Intn(3) == 0 {
		c = c12SortCase(c)
	}
	return c
}

// ---------- object histories ----------

func c12ConfOf(c c12Case) int {
	bmin, bmax := float64(c.Bmin), float64(c.Bmax)
	switch {
	case bmin == 0 && bmax == 0:
		return 0
	case math.IsInf(bmax, 1):
		return 1
	case math.IsInf(bmin, -1):
		return 2
	}
	return 3
}

// c12Refit recomputes boundaries (configuration conf) and points of c for its current sample,
// with r the length scale of the kernel (the bandwidth, or the spread for a lazy one).
func c12Refit(rng *rand.Rand, c c12Case, conf int, r float64) c12Case {
	xs := fromF64s(c.Xs)
	lo, hi, spread := c12Spread(xs)
	bmin, bmax := c12Boundaries(rng, conf, lo, hi, spread, r)
	if conf == 3 && (!(bmin < bmax) || r/(2*(bmax-bmin)) > 20) {
		bmin, bmax = lo-giDyadic(r/8, 6), hi+r/2+giDyadic(r/8, 6)
		if !(bmin < bmax) {
			bmax = bmin + 1
		}
	}
	if c.Kernel == 2 && conf != 0 { // delta kernel with reflection: keep the image arithmetic exact
		if !math.IsInf(bmin, 0) {
			bmin = math.Floor(bmin*8) / 8
		}
		if !math.IsInf(bmax, 0) {
			bmax = math.Ceil(bmax*8) / 8
		}
	}
	if bmin == 0 && bmax == 0 {
		conf = 0
	}
	c.Bmin, c.Bmax = F64(bmin), F64(bmax)
	pts := c12Points(rng, xs, r, bmin, bmax, conf != 0, 6)
	if c.Kernel == 2 {
		for j := range pts {
			pts[j] = giDyadic(pts[j], 10)
		}
	}
	var fin []float64
	for _, p := range pts {
		if !math.IsInf(p, 0) && !math.IsNaN(p) {
			fin = append(fin, p)
		}
	}
	c.Pts = toF64s(fin)
	return c
}

// c12Histories: ONE *KDE value is configured, evaluated, then has one or more of its fields
// changed (Bandwidth, Kernel, BoundaryMin/Max, Sample: a different one, or the same backing
// array overwritten) and is evaluated again, ...  Stage j is emitted as a case of its own whose
// prelude is stages 0..j-1: every observation of every stage is compared with the model of the
// configuration current at that moment.  The only documented state is the lazy fill of a zero
// Bandwidth (KeepH stages keep the filled value).
func c12Histories(rng *rand.Rand, count int, emit func(c interface{})) {
	for hno := 0; hno < count; hno++ {
		n := 2 + rng.Intn(9)
		kernel := rng.Intn(3)
		conf := rng.Intn(4)
		cur := c12Random(rng, kernel, conf, n)
		// small dyadic data keeps every stage cheap and the delta kernel exact
		xs := fromF64s(cur.Xs)
		for j := range xs {
			xs[j] = giDyadic(xs[j], 6)
		}
		if cur.Sorted {
			sort.Float64s(xs) // (rounding keeps the order; ties stay in place)
		}
		cur.Xs = toF64s(xs)
		_, _, spread := c12Spread(xs)
		lazy0 := hno%4 == 0 && !cur.HasW && !c12ScottDegenerate(xs)
		if lazy0 {
			cur.H = 0
			cur = c12Refit(rng, cur, conf, spread/2)
		} else {
			cur.H = F64(giDyadic(float64(cur.H), 6))
			if !(float64(cur.H) > 0) {
				cur.H = F64(spread / 4)
			}
			cur = c12Refit(rng, cur, conf, float64(cur.H))
		}
		cur.Quad, cur.Bounds = false, hno%3 == 0 && !(kernel == 2 && spread == 0)
		if cur.First == 2 && !cur.Bounds {
			cur.First = 0
		}
		if _, _, _, err := c12Check(cur, float64(cur.H)); err != nil || c12Outside(cur) {
			continue
		}
		stages := []c12Case{cur}
		nst := 2 + rng.Intn(3)
		for st := 1; st <= nst; st++ {
			nx := stages[st-1]
			nx.Pre, nx.KeepH, nx.Overwrite = nil, false, false
			xs := fromF64s(nx.Xs)
			_, _, spread := c12Spread(xs)
			wasLazy := float64(nx.H) == 0
			r := float64(nx.H)
			if wasLazy {
				r = spread / 2
			}
			cf := c12ConfOf(nx)
			kind := rng.Intn(6)
			if wasLazy && st == 1 {
				kind = 5
			}
			switch kind {
			case 0: // Bandwidth
				f := []float64{0.25, 0.5, 2, 3}[rng.Intn(4)]
				r = giDyadic(r*f, 8)
				if !(r > 0) {
					r = 1
				}
				nx.H = F64(r)
			case 1: // Kernel
				nx.Kernel = (nx.Kernel + 1 + rng.Intn(2)) % 3
				if wasLazy {
					nx.H = F64(giDyadic(r, 8))
				}
			case 2: // boundaries
				cf = (cf + 1 + rng.Intn(3)) % 4
				if wasLazy {
					nx.H = F64(giDyadic(r, 8))
				}
			case 3: // Sample: same backing array overwritten with other values
				sh := giDyadic(spread/4+1, 4)
				for j := range xs {
					xs[j] = xs[j] + sh*float64(1+j%3)
				}
				if nx.Sorted {
					sort.Float64s(xs)
				}
				nx.Xs = toF64s(xs)
				nx.Overwrite = true
				if wasLazy {
					nx.H = F64(giDyadic(r, 8))
				}
			case 4: // Sample: a different one (other length, other weights)
				m := 1 + rng.Intn(10)
				ys := c12Values(rng, m)
				for j := range ys {
					ys[j] = giDyadic(ys[j], 6)
				}
				nx.Sorted = false
				nx.Xs = toF64s(ys)
				nx.HasW, nx.Ws = false, nil
				if rng.Intn(2) == 0 {
					nx.HasW, nx.Ws = true, toF64s(c12Weights(rng, m))
				}
				_, _, sp := c12Spread(ys)
				r = giDyadic(sp/3+0.25, 6)
				nx.H = F64(r)
			default: // keep the Bandwidth the object holds (after a lazy fill: the filled value), change the kernel
				nx.KeepH = true
				nx.Kernel = (nx.Kernel + 1) % 3
				if !wasLazy {
					nx.H = stages[st-1].H
				}
			}
			nx = c12Refit(rng, nx, cf, r)
			nx.First = rng.Intn(3)
			nx.Bounds = rng.Intn(3) == 0
			nx.Quad = nx.Kernel != 2 && rng.Intn(3) == 0 && !nx.KeepH
			lo, hi, _ := c12Spread(fromF64s(nx.Xs))
			if nx.Kernel == 2 && lo == hi {
				nx.Bounds = false
			}
			if nx.First == 2 && !nx.Bounds {
				nx.First = 0
			}
			hv := float64(nx.H)
			if nx.KeepH {
				hv = r // the value the object holds is Scott's: positive, at most 1.06 ranges
			}
			if _, _, _, err := c12Check(nx, hv); err != nil || c12Outside(nx) || !(hv > 0) {
				break
			}
			stages = append(stages, nx)
		}
		for j := 1; j < len(stages); j++ {
			c := stages[j]
			c.Pre = append([]c12Case(nil), stages[:j]...)
			emit(c)
		}
	}
}

// c12HistoryGrid: every kernel x boundary configuration x weighted as the SECOND configuration of
// one KDE object whose first configuration had another kernel, bandwidth, boundary setting and
// (every other case) sample contents in the same backing array.
func c12HistoryGrid(emit func(c interface{})) {
	inf := math.Inf(1)
	bounds := func(conf int) (F64, F64) {
		switch conf {
		case 1:
			return 0.5, F64(inf)
		case 2:
			return F64(-inf), 4.5
		case 3:
			return 0.5, 4.5
		}
		return 0, 0
	}
	var pts []float64
	for q := -2; q <= 20; q += 2 {
		pts = append(pts, float64(q)/4)
	}
	pts = append(pts, 0.5, 4.5, 1, 3)
	i := 0
	for kernel := 0; kernel < 3; kernel++ {
		for conf := 0; conf < 4; conf++ {
			for w := 0; w < 2; w++ {
				i++
				pre := c12Case{Xs: toF64s([]float64{1, 2, 4}), Kernel: (kernel + 1) % 3, H: 2, Pts: toF64s(pts[:6]), First: i % 2}
				pre.Bmin, pre.Bmax = bounds((conf + 1) % 4)
				c := c12Case{Xs: toF64s([]float64{1, 2, 4}), Kernel: kernel, H: 1, Pts: toF64s(pts), First: i % 3, Bounds: true, Quad: kernel != 2}
				if i%2 == 0 {
					pre.Xs = toF64s([]float64{1.5, 3, 3.5})
					c.Overwrite = true
				}
				if w == 1 {
					c.HasW, c.Ws = true, toF64s([]float64{1, 2.5, 0.5})
				} else {
					pre.HasW, pre.Ws = true, toF64s([]float64{2, 1, 1})
				}
				c.Bmin, c.Bmax = bounds(conf)
				c.Pre = []c12Case{pre}
				emit(c)
			}
		}
	}
}

func c12Gen(tier string, rng *rand.Rand, emit func(c interface{})) {
	thorough := tier == "thorough"
	c12Thin = !thorough
	emitAll := emit
	emit = func(ci interface{}) {
		if c, ok := ci.(c12Case); ok && c12Outside(c) {
			return // outside the property (see c12Outside); the deterministic degenerate cases below stay
		}
		emitAll(ci)
	}

	// ---- deterministic feature grid (both tiers)
	c12Grid(emit)
	c12SortedGrid(emit)
	// ---- object histories: one KDE value re-configured by field assignment and re-evaluated
	nhist := 14
	if thorough {
		nhist = 150
	}
	c12HistoryGrid(emit)
	c12Histories(rng, nhist, emit)
	// ---- offset dimension (bandwidth rules, lazy bandwidth): |offset| up to 1e9 spreads
	noff := 36
	if thorough {
		noff = 400
	}
	for i := 0; i < noff; i++ {
		emit(c12OffsetCase(rng, i%3, i%2 == 0))
	}

	// ---- exhaustive small space: multisets of size 1..3 over {0,1,2,3}, half-integer
	// bandwidths, boundaries on the half-integer grid, points on the quarter-integer grid:
	// every comparison (guards, kernel support ends, images) is hit EXACTLY.
	var msets [][]float64
	for a := 0; a < 4; a++ {
		msets = append(msets, []float64{float64(a)})
		for b := a; b < 4; b++ {
			msets = append(msets, []float64{float64(a), float64(b)})
			for cc := b; cc < 4; cc++ {
				msets = append(msets, []float64{float64(b), float64(a), float64(cc)}) // not sorted
			}
		}
	}
	hs := []float64{0.5, 1, 2, 4}
	type bd struct{ gapLo, gapHi float64 } // NaN = no bound on that side
	nan := math.NaN()
	bds := []bd{{nan, nan}, {0, nan}, {0.5, nan}, {nan, 0}, {nan, 1}, {0, 0.5}, {0.5, 0}, {1, 1}, {0.5, 2.5}}
	for _, ms := range msets {
		lo, hi, _ := c12Spread(ms)
		for _, kernel := range []int{0, 2} {
			for _, h := range hs {
				if kernel == 2 && h != 1 {
					continue // the delta kernel ignores the bandwidth
				}
				for bi, b := range bds {
					if !thorough && rng.Intn(4) != 0 {
						continue
					}
					c := c12Case{Xs: toF64s(ms), Kernel: kernel, H: F64(h)}
					switch {
					case math.IsNaN(b.gapLo) && math.IsNaN(b.gapHi):
					case math.IsNaN(b.gapHi):
						c.Bmin, c.Bmax = F64(lo-b.gapLo), F64(math.Inf(1))
					case math.IsNaN(b.gapLo):
						c.Bmin, c.Bmax = F64(math.Inf(-1)), F64(hi+b.gapHi)
					default:
						c.Bmin, c.Bmax = F64(lo-b.gapLo), F64(hi+b.gapHi)
					}
					if float64(c.Bmin) == 0 && float64(c.Bmax) == 0 && bi != 0 {
						continue // [0,0] means "no boundary"
					}
					if !math.IsInf(float64(c.Bmax), 0) && !math.IsInf(float64(c.Bmin), 0) && float64(c.Bmin) == float64(c.Bmax) && bi != 0 {
						continue
					}
					var pts []float64
					for q := -12; q <= 28; q++ {
						pts = append(pts, float64(q)/4)
					}
					c.Pts = toF64s(pts)
					c.Quad = kernel == 0 && bi%3 == 0
					c.Bounds = bi%2 == 0 && !(kernel == 2 && lo == hi)
					if rng.Intn(4) == 0 {
						c = c12Scale(c, []int{-40, -12, 12, 40}[rng.Intn(4)])
					}
					emit(c)
				}
			}
		}
	}

	// ---- structured random: every kernel x every boundary configuration
	nrand := 14
	if thorough {
		nrand = 250
	}
	for kernel := 0; kernel < 3; kernel++ {
		for conf := 0; conf < 4; conf++ {
			k := nrand
			if kernel == 0 {
				k = 2 * nrand
			}
			for i := 0; i < k; i++ {
				c := c12Random(rng, kernel, conf, c12Size(rng))
				if kernel == 2 {
					// delta kernel with reflection: keep every image computation exact
					xs := fromF64s(c.Xs)
					for j := range xs {
						xs[j] = giDyadic(xs[j], 10)
					}
					c.Xs = toF64s(xs)
					lo, hi, spread := c12Spread(xs)
					bmin, bmax := c12Boundaries(rng, conf, math.Floor(lo*8)/8, math.Ceil(hi*8)/8, spread, 1)
					if conf != 0 {
						bmin, bmax = giDyadic(bmin, 12), giDyadic(bmax, 12)
						if !math.IsInf(bmin, 0) && bmin > lo {
							bmin = lo
						}
						if !math.IsInf(bmax, 0) && bmax < hi {
							bmax = hi
						}
					}
					c.Bmin, c.Bmax = F64(bmin), F64(bmax)
					pts := c12Points(rng, xs, spread/4, bmin, bmax, conf != 0, 16)
					for j := range pts {
						pts[j] = giDyadic(pts[j], 14)
					}
					// the reflections of the data, where the folded step function jumps
					for j := 0; j < 3; j++ {
						xi := xs[rng.Intn(len(xs))]
						if conf == 1 || conf == 3 {
							pts = append(pts, 2*bmin-xi)
						}
						if conf == 2 || conf == 3 {
							pts = append(pts, 2*bmax-xi)
						}
					}
					var fin []float64
					for _, p := range pts {
						if !math.IsInf(p, 0) && !math.IsNaN(p) {
							fin = append(fin, p)
						}
					}
					c.Pts = toF64s(fin)
					c.Quad = false
					if lo == hi {
						c.Bounds = false
						if c.First == 2 {
							c.First = 0
						}
					}
				}
				emit(c12Scale(c, c12RandScale(rng)))
			}
		}
	}

	// ---- lazy bandwidth (Bandwidth == 0): unweighted samples of >= 2 distinct values
	nlazy := 30
	if thorough {
		nlazy = 400
	}
	for i := 0; i < nlazy; i++ {
		kernel := rng.Intn(3)
		conf := rng.Intn(4)
		n := 2 + rng.Intn(39)
		c := c12Random(rng, kernel, conf, n)
		xs := fromF64s(c.Xs)
		lo, hi, spread := c12Spread(xs)
		c.HasW, c.Ws = false, nil
		c.H = 0
		// Scott's bandwidth is at most 1.06*s: use the spread as the scale of boundaries and points
		bmin, bmax := c12Boundaries(rng, conf, lo, hi, spread, spread/2)
		c.Bmin, c.Bmax = F64(bmin), F64(bmax)
		lpts := c12Points(rng, xs, spread/2, bmin, bmax, conf != 0, 14)
		if c12Thin && n > 12 {
			var half []float64
			for i, p := range lpts {
				if i%2 == 0 {
					half = append(half, p)
				}
			}
			lpts = half
		}
		c.Pts = toF64s(lpts)
		if kernel == 2 && lo == hi {
			c.Bounds = false
			if c.First == 2 {
				c.First = 0
			}
		}
		emit(c12Scale(c, c12RandScale(rng)))
	}

	// ---- Gaussian kernel on 1..4 dyadic values with few points (the window of the M2
	// certificates of bin/plugins/C12.py)
	ngs := 16
	if thorough {
		ngs = 120
	}
	for i := 0; i < ngs; i++ {
		n := 1 + rng.Intn(4)
		xs := make([]float64, n)
		for j := range xs {
			xs[j] = float64(rng.Intn(33)-16) / 4
		}
		lo, hi, spread := c12Spread(xs)
		h := float64(1+rng.Intn(16)) / 4
		conf := rng.Intn(4)
		bmin, bmax := 0.0, 0.0
		switch conf {
		case 1:
			bmin, bmax = lo-float64(rng.Intn(5))/2, math.Inf(1)
		case 2:
			bmin, bmax = math.Inf(-1), hi+float64(rng.Intn(5))/2
		case 3:
			bmin, bmax = lo-float64(rng.Intn(5))/2, hi+float64(1+rng.Intn(5))/2
		}
		if bmin == 0 && bmax == 0 {
			conf = 0
		}
		c := c12Case{Xs: toF64s(xs), Kernel: 1, H: F64(h), Bmin: F64(bmin), Bmax: F64(bmax)}
		if rng.Intn(3) == 0 {
			c.HasW = true
			ws := make([]float64, n)
			for j := range ws {
				ws[j] = float64(1 + rng.Intn(4))
			}
			c.Ws = toF64s(ws)
		}
		var pts []float64
		for j := 0; j < 6; j++ {
			pts = append(pts, float64(rng.Intn(int(8*(spread+4*h))+1))/8+lo-2*h)
		}
		if conf == 1 || conf == 3 {
			pts = append(pts, bmin)
		}
		if conf == 2 || conf == 3 {
			pts = append(pts, bmax)
		}
		c.Pts = toF64s(pts)
		c.Quad = true
		c.Bounds = rng.Intn(2) == 0
		if rng.Intn(3) == 0 {
			c = c12Scale(c, []int{-40, -20, 20, 40}[rng.Intn(4)])
		}
		emit(c)
	}

	// ---- degenerate and malformed inputs
	inf := math.Inf(1)
	grid := toF64s([]float64{-3, -1, -0.5, 0, 0.5, 1, 1.5, 2, 3, 7})
	// empty sample: Sum()/Weight() = 0/0
	for kernel := 0; kernel < 3; kernel++ {
		emit(c12Case{Xs: []F64{}, Kernel: kernel, H: 1, Pts: grid})
		emit(c12Case{Xs: []F64{}, Kernel: kernel, H: 1, Bmin: -1, Bmax: F64(inf), Pts: grid})
		emit(c12Case{Xs: []F64{}, Kernel: kernel, H: 1, Bmin: F64(-inf), Bmax: 2, Pts: grid})
	}
	// lazy bandwidth on a weighted sample: Sample.StdDev panics ("not implemented")
	emit(c12Case{Xs: toF64s([]float64{1, 2, 4}), HasW: true, Ws: toF64s([]float64{1, 2, 1}), Kernel: 0, H: 0, Pts: grid})
	emit(c12Case{Xs: toF64s([]float64{1, 2, 4}), HasW: true, Ws: toF64s([]float64{1, 2, 1}), Kernel: 1, H: 0, Pts: grid, First: 1})
	// lazy bandwidth on degenerate samples: Scott's rule gives 0
	emit(c12Case{Xs: toF64s([]float64{2}), Kernel: 0, H: 0, Pts: grid})
	emit(c12Case{Xs: toF64s([]float64{2, 2, 2}), Kernel: 0, H: 0, Pts: grid})
	// IQR = 0 but positive variance: min(s, IQR/1.349) = 0
	emit(c12Case{Xs: toF64s([]float64{1, 1, 1, 1, 1, 1, 1, 9}), Kernel: 0, H: 0, Pts: grid})
	// single value, every kernel and boundary configuration
	for kernel := 0; kernel < 3; kernel++ {
		for conf := 0; conf < 4; conf++ {
			c := c12Case{Xs: toF64s([]float64{1}), Kernel: kernel, H: 0.5, Pts: grid, Quad: kernel != 2, Bounds: kernel != 2}
			switch conf {
			case 1:
				c.Bmin, c.Bmax = 0.75, F64(inf)
			case 2:
				c.Bmin, c.Bmax = F64(-inf), 1.25
			case 3:
				c.Bmin, c.Bmax = 0.75, 1.5
			}
			emit(c)
		}
	}
	// BoundaryMin = 0 with an infinite BoundaryMax (bc is true through BoundaryMax alone),
	// and a double boundary one of whose ends is 0
	emit(c12Case{Xs: toF64s([]float64{0.5, 1, 3}), Kernel: 0, H: 1, Bmin: 0, Bmax: F64(inf), Pts: grid, Quad: true, Bounds: true})
	emit(c12Case{Xs: toF64s([]float64{0.5, 1, 3}), Kernel: 0, H: 1, Bmin: 0, Bmax: 4, Pts: grid, Quad: true, Bounds: true})
	emit(c12Case{Xs: toF64s([]float64{-3, -1, -0.5}), Kernel: 0, H: 1, Bmin: -4, Bmax: 0, Pts: grid, Quad: true, Bounds: true})
	emit(c12Case{Xs: toF64s([]float64{-3, -1, -0.5}), Kernel: 0, H: 1, Bmin: F64(-inf), Bmax: 0, Pts: grid, Quad: true, Bounds: true})
}

func init() {
	register(&Prop{ID: "C12", Num: 12, Gen: c12Gen, Run: c12Run})
}

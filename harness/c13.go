package main

import (
	"encoding/json"
	"fmt"
	"math"
	"math/rand"

	"github.com/aclements/go-moremath/stats"
)

// C13: StreamStats histories. Op: T=0 Add(acc I, X); T=1 Combine(acc I, acc J) (I == J allowed); T=2 observe acc I.
// Values must be finite (the model is over Q); every op is followed by the nine observables of acc I.
type c13Op struct {
	T int `json:"t"`
	I int `json:"i"`
	J int `json:"j,omitempty"`
	X F64 `json:"x,omitempty"`
}
type c13Case struct {
	K   int     `json:"k"`
	Ops []c13Op `json:"ops"`
}

func c13Observe(l *Line, s *stats.StreamStats) {
	l.U(uint64(s.Count)).F(s.Total).F(s.Min).F(s.Max).F(s.Mean()).F(s.Variance()).F(s.StdDev()).F(s.RMS()).F(s.Weight())
}

func c13Run(raw []byte) (*Line, error) {
	var c c13Case
	if err := json.Unmarshal(raw, &c); err != nil {
		return nil, err
	}
	if c.K < 1 || c.K > 64 {
		return nil, fmt.Errorf("bad k")
	}
	accs := make([]stats.StreamStats, c.K)
	l := &Line{}
	l.I(13).I(c.K)
	// what a fresh (zero value, never touched) accumulator reports: the reference for every
	// accumulator that is still or again empty (Check/C13.v compares Min/Max/Mean/RMS of an
	// empty accumulator with these)
	var fresh stats.StreamStats
	c13Observe(l, &fresh)
	l.I(len(c.Ops))
	for _, op := range c.Ops {
		if op.I < 0 || op.I >= c.K || op.J < 0 || op.J >= c.K {
			return nil, fmt.Errorf("bad index")
		}
		switch op.T {
		case 0:
			if x := float64(op.X); math.IsNaN(x) || math.IsInf(x, 0) {
				return nil, fmt.Errorf("non-finite value") // the model is over Q (meta/C13.json, assumptions)
			}
			accs[op.I].Add(float64(op.X))
			l.I(0).I(op.I).F(float64(op.X))
		case 1:
			// op.I == op.J is s.Combine(s): the statistics of the values taken twice
			accs[op.I].Combine(&accs[op.J])
			l.I(1).I(op.I).I(op.J)
		case 2:
			l.I(2).I(op.I).I(0)
		default:
			return nil, fmt.Errorf("bad op")
		}
		c13Observe(l, &accs[op.I])
	}
	return l, nil
}

func c13Values(rng *rand.Rand, n int) []float64 {
	kind := rng.Intn(4)
	off := 0.0
	switch rng.Intn(4) {
	case 1:
		off = float64(rng.Intn(2000001) - 1000000)
	case 2: // offset up to 1e9 spreads
		off = float64(rng.Int63n(2e9)-1e9) * 8
	}
	xs := make([]float64, n)
	for i := range xs {
		xs[i] = genValue(rng, kind) + off
	}
	return xs
}

// all ways to merge a stream cut into parts: emit every binary bracketing of parts 0..m-1
// as a sequence of Combine ops; parts live in accumulators 0..m-1.
func c13Bracketings(lo, hi int) [][]c13Op {
	// returns op sequences that leave the merged result in accumulator lo
	if lo == hi {
		return [][]c13Op{{}}
	}
	var res [][]c13Op
	for mid := lo; mid < hi; mid++ {
		for _, a := range c13Bracketings(lo, mid) {
			for _, b := range c13Bracketings(mid+1, hi) {
				seq := append(append(append([]c13Op{}, a...), b...), c13Op{T: 1, I: lo, J: mid + 1})
				res = append(res, seq)
			}
		}
	}
	return res
}

// special value sets: all-equal, signed zeros, two values, magnitudes near the ends of the range in
// which squares and products of deviations neither overflow nor underflow (|x| in 2^-400..2^400)
func c13Special(rng *rand.Rand, n int) []float64 {
	xs := make([]float64, n)
	kind := rng.Intn(6)
	v := genValue(rng, rng.Intn(4))
	if rng.Intn(2) == 0 {
		v += float64(rng.Int63n(2e9)-1e9) * 8
	}
	for i := range xs {
		switch kind {
		case 0: // all equal
			xs[i] = v
		case 1: // signed zeros and small integers
			switch rng.Intn(4) {
			case 0:
				xs[i] = math.Copysign(0, -1)
			case 1:
				xs[i] = 0
			default:
				xs[i] = float64(rng.Intn(3) - 1)
			}
		case 2: // only signed zeros
			if rng.Intn(2) == 0 {
				xs[i] = math.Copysign(0, -1)
			}
		case 3: // tiny magnitudes
			xs[i] = math.Ldexp(float64(rng.Intn(17)-8), -400)
		case 4: // huge magnitudes
			xs[i] = math.Ldexp(float64(rng.Intn(17)-8), 400)
		default: // two distinct values, many repeats
			xs[i] = v
			if rng.Intn(2) == 0 {
				xs[i] = v + 1
			}
		}
	}
	return xs
}

func c13Structured(thorough bool, rng *rand.Rand, emit func(interface{})) {
	reps := 2
	if thorough {
		reps = 12
	}
	vals := func(n int) []float64 {
		if rng.Intn(2) == 0 {
			return c13Special(rng, n)
		}
		return c13Values(rng, n)
	}
	add := func(ops []c13Op, a int, xs []float64) []c13Op {
		for _, x := range xs {
			ops = append(ops, c13Op{T: 0, I: a, X: F64(x)})
		}
		return ops
	}
	for r := 0; r < reps; r++ {
		// d1: special value sets through the split test (one split point, both directions)
		for n := 1; n <= 6; n++ {
			xs := c13Special(rng, n)
			p := rng.Intn(n + 1)
			ops := add(add(nil, 0, xs[:p]), 1, xs[p:])
			ops = append(ops, c13Op{T: 1, I: 0, J: 1}, c13Op{T: 2, I: 1}, c13Op{T: 1, I: 1, J: 0}, c13Op{T: 2, I: 0})
			emit(c13Case{K: 2, Ops: ops})
		}
		// d2: Combine INTO an empty accumulator, then Add to it; Add after Combine; the argument observed
		for n := 1; n <= 4; n++ {
			xs := vals(n + 3)
			ops := add(nil, 1, xs[:n])
			ops = append(ops, c13Op{T: 1, I: 0, J: 1}, c13Op{T: 2, I: 1})
			ops = add(ops, 0, xs[n:n+2])
			ops = append(ops, c13Op{T: 1, I: 2, J: 0}, c13Op{T: 1, I: 0, J: 2}, c13Op{T: 2, I: 2})
			ops = add(ops, 0, xs[n+2:])
			ops = add(ops, 2, xs[:1])
			emit(c13Case{K: 3, Ops: ops})
		}
		// d3: one side has exactly one value (either side), other side 1..5
		for n := 1; n <= 5; n++ {
			xs := vals(n + 1)
			for dir := 0; dir < 2; dir++ {
				ops := add(add(nil, 0, xs[:1]), 1, xs[1:])
				ops = append(ops, c13Op{T: 1, I: dir, J: 1 - dir}, c13Op{T: 2, I: 1 - dir})
				ops = add(ops, dir, xs[:1])
				emit(c13Case{K: 2, Ops: ops})
			}
		}
		// d4: only empty accumulators are combined (also with themselves), observed, then used
		{
			xs := vals(3)
			ops := []c13Op{{T: 2, I: 0}, {T: 1, I: 0, J: 1}, {T: 2, I: 1}, {T: 1, I: 1, J: 1}, {T: 1, I: 2, J: 0}, {T: 1, I: 0, J: 2}}
			ops = add(ops, 0, xs)
			ops = append(ops, c13Op{T: 1, I: 0, J: 1}, c13Op{T: 1, I: 1, J: 2}, c13Op{T: 2, I: 1}, c13Op{T: 1, I: 2, J: 0})
			emit(c13Case{K: 3, Ops: ops})
		}
		// d5: s.Combine(s) chains: the count doubles; then Add, then merge with a small accumulator
		for _, dbl := range []int{1, 2, 5, 24, 31, 33, 52, 54, 60} {
			n := 1 + rng.Intn(4)
			xs := vals(n + 4)
			ops := add(nil, 0, xs[:n])
			for i := 0; i < dbl; i++ {
				ops = append(ops, c13Op{T: 1, I: 0, J: 0})
			}
			ops = add(ops, 0, xs[n:n+2])
			ops = add(ops, 1, xs[n+2:])
			ops = append(ops, c13Op{T: 1, I: 1, J: 0}, c13Op{T: 1, I: 0, J: 1}, c13Op{T: 2, I: 1})
			emit(c13Case{K: 2, Ops: ops})
		}
		// d6: two accumulators with counts that have many significant bits (double-and-add), both
		// beyond 2^32 resp. 2^53, merged both ways: float64(Count) conversions, products of counts
		for _, bits := range []int{20, 33, 40, 55, 60} {
			xs := vals(8)
			var ops []c13Op
			for a := 0; a < 2; a++ {
				ops = add(ops, a, xs[4*a:4*a+1])
				for i := 0; i < bits-a; i++ {
					ops = append(ops, c13Op{T: 1, I: a, J: a})
					if rng.Intn(2) == 0 {
						ops = append(ops, c13Op{T: 0, I: a, X: F64(xs[4*a+1+rng.Intn(3)])})
					}
				}
			}
			ops = append(ops, c13Op{T: 1, I: 2, J: 0}, c13Op{T: 1, I: 2, J: 1}, c13Op{T: 1, I: 1, J: 0}, c13Op{T: 2, I: 0}, c13Op{T: 0, I: 1, X: F64(xs[7])})
			emit(c13Case{K: 3, Ops: ops})
		}
		// d7: unequal parts: a chain of merges of fresh singletons into one accumulator (left comb),
		// then the singletons merged backwards into each other (right comb, repeated combination)
		{
			n := 6 + rng.Intn(10)
			xs := vals(n)
			var ops []c13Op
			for i := 0; i < n; i++ {
				ops = append(ops, c13Op{T: 0, I: i + 1, X: F64(xs[i])}, c13Op{T: 1, I: 0, J: i + 1})
			}
			// right comb: merge backwards into the last
			for i := n - 1; i >= 1; i-- {
				ops = append(ops, c13Op{T: 1, I: i, J: i + 1})
			}
			ops = append(ops, c13Op{T: 2, I: 0})
			emit(c13Case{K: n + 2, Ops: ops})
		}
	}
}

func c13Gen(tier string, rng *rand.Rand, emit func(interface{})) {
	thorough := tier == "thorough"
	// (a) every split point of short streams, both combine directions, empty parts included
	maxN := 8
	if thorough {
		maxN = 12
	}
	for n := 0; n <= maxN; n++ {
		reps := 2
		for r := 0; r < reps; r++ {
			xs := c13Values(rng, n)
			for p := 0; p <= n; p++ {
				for dir := 0; dir < 2; dir++ {
					var ops []c13Op
					for i, x := range xs {
						a := 0
						if i >= p {
							a = 1
						}
						ops = append(ops, c13Op{T: 0, I: a, X: F64(x)})
					}
					if dir == 0 {
						ops = append(ops, c13Op{T: 1, I: 0, J: 1}, c13Op{T: 2, I: 1})
					} else {
						ops = append(ops, c13Op{T: 1, I: 1, J: 0}, c13Op{T: 2, I: 0})
					}
					emit(c13Case{K: 2, Ops: ops})
				}
			}
		}
	}
	// (b) every binary bracketing of a stream cut into m parts (m <= 5 quick, 6 thorough)
	maxM := 5
	if thorough {
		maxM = 6
	}
	for m := 2; m <= maxM; m++ {
		xs := c13Values(rng, 2*m+1)
		var adds []c13Op
		for i, x := range xs {
			part := rng.Intn(m)
			if i < m && rng.Intn(3) > 0 {
				part = i
			}
			adds = append(adds, c13Op{T: 0, I: part, X: F64(x)})
		}
		for _, seq := range c13Bracketings(0, m-1) {
			ops := append(append([]c13Op{}, adds...), seq...)
			emit(c13Case{K: m, Ops: ops})
		}
	}
	// (d) structured histories the random stream reaches rarely (audit round 2b)
	c13Structured(thorough, rng, emit)
	// (c) random histories: merge trees, repeated combination, interleaved adds
	nRand := 330
	if thorough {
		nRand = 6000
	}
	for it := 0; it < nRand; it++ {
		k := 1 + rng.Intn(6)
		total := rng.Intn(201)
		if rng.Intn(3) == 0 {
			total = rng.Intn(12)
		}
		xs := c13Values(rng, total)
		var ops []c13Op
		pc := 0.02 + rng.Float64()*0.3
		// repeated combination multiplies counts; keep them below 2^62 (uint wraps at 2^64;
		// above 2^53 float64(Count) rounds, which the tolerances allow for)
		cnt := make([]uint64, k)
		combine := func(i, j int) {
			if cnt[i]+cnt[j] < 1<<62 {
				cnt[i] += cnt[j]
				ops = append(ops, c13Op{T: 1, I: i, J: j})
				if rng.Intn(2) == 0 { // Combine must leave its argument alone
					ops = append(ops, c13Op{T: 2, I: j})
				}
			}
		}
		pself := 0.0
		if rng.Intn(4) == 0 {
			pself = 0.05 + rng.Float64()*0.3
		}
		for _, x := range xs {
			a := rng.Intn(k)
			cnt[a]++
			ops = append(ops, c13Op{T: 0, I: a, X: F64(x)})
			if rng.Float64() < pself {
				i := rng.Intn(k)
				combine(i, i)
			}
			for k > 1 && rng.Float64() < pc {
				i := rng.Intn(k)
				j := rng.Intn(k - 1)
				if j >= i {
					j++
				}
				combine(i, j)
			}
		}
		for i := 0; i < k; i++ {
			if k > 1 && rng.Intn(2) == 0 {
				j := rng.Intn(k - 1)
				if j >= i {
					j++
				}
				combine(i, j)
			}
			ops = append(ops, c13Op{T: 2, I: i})
		}
		emit(c13Case{K: k, Ops: ops})
	}
}

func init() { register(&Prop{ID: "C13", Num: 13, Gen: c13Gen, Run: c13Run}) }

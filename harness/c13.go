package main

import (
	"encoding/json"
	"fmt"
	"math/rand"

	"github.com/aclements/go-moremath/stats"
)

// C13: StreamStats histories. Op: T=0 Add(acc I, X); T=1 Combine(acc I, acc J); T=2 observe acc I.
type c13Op struct {
	T int `json:"t"`
	I int `json:"i"`
	J int `json:"j,omitempty"`
	X F64 `json:"x,omitempty"`
}
type c13Case struct {
	K   int     `json:"k"`
	Ops []c13Op `json:"ops"`
}

func c13Observe(l *Line, s *stats.StreamStats) {
	l.U(uint64(s.Count)).F(s.Total).F(s.Min).F(s.Max).F(s.Mean()).F(s.Variance()).F(s.StdDev()).F(s.RMS()).F(s.Weight())
}

func c13Run(raw []byte) (*Line, error) {
	var c c13Case
	if err := json.Unmarshal(raw, &c); err != nil {
		return nil, err
	}
	if c.K < 1 || c.K > 64 {
		return nil, fmt.Errorf("bad k")
	}
	accs := make([]stats.StreamStats, c.K)
	l := &Line{}
	l.I(13).I(c.K).I(len(c.Ops))
	for _, op := range c.Ops {
		if op.I < 0 || op.I >= c.K || op.J < 0 || op.J >= c.K {
			return nil, fmt.Errorf("bad index")
		}
		switch op.T {
		case 0:
			accs[op.I].Add(float64(op.X))
			l.I(0).I(op.I).F(float64(op.X))
		case 1:
			if op.I == op.J {
				return nil, fmt.Errorf("self combine")
			}
			accs[op.I].Combine(&accs[op.J])
			l.I(1).I(op.I).I(op.J)
		case 2:
			l.I(2).I(op.I).I(0)
		default:
			return nil, fmt.Errorf("bad op")
		}
		c13Observe(l, &accs[op.I])
	}
	return l, nil
}

func c13Values(rng *rand.Rand, n int) []float64 {
	kind := rng.Intn(4)
	off := 0.0
	switch rng.Intn(4) {
	case 1:
		off = float64(rng.Intn(2000001) - 1000000)
	case 2: // offset up to 1e9 spreads
		off = float64(rng.Int63n(2e9)-1e9) * 8
	}
	xs := make([]float64, n)
	for i := range xs {
		xs[i] = genValue(rng, kind) + off
	}
	return xs
}

// all ways to merge a stream cut into parts: emit every binary bracketing of parts 0..m-1
// as a sequence of Combine ops; parts live in accumulators 0..m-1.
func c13Bracketings(lo, hi int) [][]c13Op {
	// returns op sequences that leave the merged result in accumulator lo
	if lo == hi {
		return [][]c13Op{{}}
	}
	var res [][]c13Op
	for mid := lo; mid < hi; mid++ {
		for _, a := range c13Bracketings(lo, mid) {
			for _, b := range c13Bracketings(mid+1, hi) {
				seq := append(append(append([]c13Op{}, a...), b...), c13Op{T: 1, I: lo, J: mid + 1})
				res = append(res, seq)
			}
		}
	}
	return res
}

func c13Gen(tier string, rng *rand.Rand, emit func(interface{})) {
	thorough := tier == "thorough"
	// (a) every split point of short streams, both combine directions, empty parts included
	maxN := 8
	if thorough {
		maxN = 12
	}
	for n := 0; n <= maxN; n++ {
		reps := 2
		for r := 0; r < reps; r++ {
			xs := c13Values(rng, n)
			for p := 0; p <= n; p++ {
				for dir := 0; dir < 2; dir++ {
					var ops []c13Op
					for i, x := range xs {
						a := 0
						if i >= p {
							a = 1
						}
						ops = append(ops, c13Op{T: 0, I: a, X: F64(x)})
					}
					if dir == 0 {
						ops = append(ops, c13Op{T: 1, I: 0, J: 1}, c13Op{T: 2, I: 1})
					} else {
						ops = append(ops, c13Op{T: 1, I: 1, J: 0}, c13Op{T: 2, I: 0})
					}
					emit(c13Case{K: 2, Ops: ops})
				}
			}
		}
	}
	// (b) every binary bracketing of a stream cut into m parts (m <= 5 quick, 6 thorough)
	maxM := 5
	if thorough {
		maxM = 6
	}
	for m := 2; m <= maxM; m++ {
		xs := c13Values(rng, 2*m+1)
		var adds []c13Op
		for i, x := range xs {
			part := rng.Intn(m)
			if i < m && rng.Intn(3) > 0 {
				part = i
			}
			adds = append(adds, c13Op{T: 0, I: part, X: F64(x)})
		}
		for _, seq := range c13Bracketings(0, m-1) {
			ops := append(append([]c13Op{}, adds...), seq...)
			emit(c13Case{K: m, Ops: ops})
		}
	}
	// (c) random histories: merge trees, repeated combination, interleaved adds
	nRand := 400
	if thorough {
		nRand = 6000
	}
	for it := 0; it < nRand; it++ {
		k := 1 + rng.Intn(6)
		total := rng.Intn(201)
		if rng.Intn(3) == 0 {
			total = rng.Intn(12)
		}
		xs := c13Values(rng, total)
		var ops []c13Op
		pc := 0.02 + rng.Float64()*0.3
		// repeated combination multiplies counts; keep them far below 2^53 (exact in float64)
		cnt := make([]uint64, k)
		combine := func(i, j int) {
			if cnt[i]+cnt[j] < 1<<40 {
				cnt[i] += cnt[j]
				ops = append(ops, c13Op{T: 1, I: i, J: j})
			}
		}
		for _, x := range xs {
			a := rng.Intn(k)
			cnt[a]++
			ops = append(ops, c13Op{T: 0, I: a, X: F64(x)})
			for k > 1 && rng.Float64() < pc {
				i := rng.Intn(k)
				j := rng.Intn(k - 1)
				if j >= i {
					j++
				}
				combine(i, j)
			}
		}
		for i := 0; i < k; i++ {
			if k > 1 && rng.Intn(2) == 0 {
				j := rng.Intn(k - 1)
				if j >= i {
					j++
				}
				combine(i, j)
			}
			ops = append(ops, c13Op{T: 2, I: i})
		}
		emit(c13Case{K: k, Ops: ops})
	}
}

func init() { register(&Prop{ID: "C13", Num: 13, Gen: c13Gen, Run: c13Run}) }

package main

import (
	"encoding/json"
	"fmt"
	"math"
	"math/rand"

	"github.com/aclements/go-moremath/stats"
)

// C14: histograms. A case is a histogram shape plus a history of operations.
//
//	Kind 0 LinearHist(Min, Max, NBins); Kind 1 LogHist(B, M, Max);
//	Kind 2 a harness-defined Histogram with fixed counters and BinToValue(bin) = bin.
//
// Op T: 0 Add(X); 1 BinToValue(X); 2 HistogramQuantile(h, X); 3 Counts(); 4 HistogramIQR(h).
type c14Op struct {
	T int `json:"t"`
	X F64 `json:"x,omitempty"`
}
type c14Case struct {
	Kind   int     `json:"kind"`
	Min    F64     `json:"min,omitempty"`
	Max    F64     `json:"max,omitempty"`
	NBins  int     `json:"nbins,omitempty"`
	B      int     `json:"b,omitempty"`
	M      int     `json:"m,omitempty"`
	Under  uint    `json:"under,omitempty"`
	Counts []uint  `json:"counts,omitempty"`
	Over   uint    `json:"over,omitempty"`
	Ops    []c14Op `json:"ops"`
}

// fixed counters, identity BinToValue: lets HistogramQuantile be driven on any count vector
type c14Fixed struct {
	under, over uint
	counts      []uint
}

func (h *c14Fixed) Add(x float64)                  {}
func (h *c14Fixed) Counts() (uint, []uint, uint)   { return h.under, h.counts, h.over }
func (h *c14Fixed) BinToValue(bin float64) float64 { return bin }

// recording wrapper: which fractional bin did HistogramQuantile ask for, and what came back
type c14Spy struct {
	h    stats.Histogram
	args []float64
	rets []float64
}

func (s *c14Spy) Add(x float64)                { s.h.Add(x) }
func (s *c14Spy) Counts() (uint, []uint, uint) { return s.h.Counts() }
func (s *c14Spy) BinToValue(bin float64) float64 {
	r := s.h.BinToValue(bin)
	s.args = append(s.args, bin)
	s.rets = append(s.rets, r)
	return r
}

func c14Snapshot(h stats.Histogram) (uint, []uint, uint) {
	u, c, o := h.Counts()
	return u, append([]uint(nil), c...), o
}

func c14QBlock(l *Line, h stats.Histogram, q float64) {
	spy := &c14Spy{h: h}
	var res float64
	pan, _ := catch(func() { res = stats.HistogramQuantile(spy, q) })
	status := 0
	if pan {
		status, res = 2, 0
	}
	arg, ret := 0.0, 0.0
	if len(spy.args) > 0 {
		arg, ret = spy.args[0], spy.rets[0]
	}
	l.I(status).I(len(spy.args)).F(arg).F(ret).F(res)
}

func c14Run(raw []byte) (*Line, error) {
	var c c14Case
	if err := json.Unmarshal(raw, &c); err != nil {
		return nil, err
	}
	fin := func(x float64) bool { return !math.IsNaN(x) && !math.IsInf(x, 0) }
	l := &Line{}
	l.I(14).I(c.Kind)
	var h stats.Histogram
	switch c.Kind {
	case 0:
		mn, mx := float64(c.Min), float64(c.Max)
		if !fin(mn) || !fin(mx) || !(mn < mx) || c.NBins < 1 || c.NBins > 1000 || !fin(mx-mn) || mx-mn == 0 || !fin(float64(c.NBins)/(mx-mn)) {
			return nil, fmt.Errorf("bad linear shape")
		}
		h = stats.NewLinearHist(mn, mx, c.NBins)
		_, cs, _ := h.Counts()
		l.F(mn).F(mx).I(c.NBins).I(len(cs))
	case 1:
		mx := float64(c.Max)
		if c.B < 2 || c.B > 16 || c.M < 1 || c.M > 8 || !fin(mx) || mx < 1 || mx > 1e60 {
			return nil, fmt.Errorf("bad log shape")
		}
		var lh *stats.LogHist
		pan, _ := catch(func() { lh = stats.NewLogHist(c.B, float64(c.M), mx) })
		l.I(c.B).I(c.M).F(mx)
		if pan {
			l.I(2).I(0)
			l.I(0)
			return l, nil
		}
		h = lh
		_, cs, _ := h.Counts()
		l.I(0).I(len(cs))
	case 2:
		if len(c.Counts) > 1000 {
			return nil, fmt.Errorf("bad fixed shape")
		}
		var tot uint64
		for _, v := range c.Counts {
			if v > 1<<40 {
				return nil, fmt.Errorf("count too large")
			}
			tot += uint64(v)
		}
		if c.Under > 1<<40 || c.Over > 1<<40 {
			return nil, fmt.Errorf("count too large")
		}
		h = &c14Fixed{under: c.Under, over: c.Over, counts: append([]uint{}, c.Counts...)}
		l.U(uint64(c.Under)).I(len(c.Counts))
		for _, v := range c.Counts {
			l.U(uint64(v))
		}
		l.U(uint64(c.Over))
	default:
		return nil, fmt.Errorf("bad kind")
	}
	_, cs0, _ := h.Counts()
	nb := len(cs0)
	l.I(len(c.Ops))
	for _, op := range c.Ops {
		x := float64(op.X)
		if !fin(x) {
			return nil, fmt.Errorf("non-finite operand")
		}
		switch op.T {
		case 0:
			if c.Kind == 2 {
				return nil, fmt.Errorf("Add on the fixed histogram")
			}
			// linear: beyond 2^63 bin widths the int conversion of the bin index overflows (meta: assumptions);
			// a LogHist index is m*log_b x, so values up to the widest shape (base^50 <= 1e50) and beyond are fine
			lim := 1e18
			if c.Kind == 1 {
				lim = 1e60
			}
			if math.Abs(x) > lim {
				return nil, fmt.Errorf("value out of the generated range")
			}
			u0, c0, o0 := c14Snapshot(h)
			if pan, _ := catch(func() { h.Add(x) }); pan {
				// a panic inside Add is an observation (no counter named), not a harness failure
				l.I(0).F(x).I(-1).I(-2).I(0)
				continue
			}
			u1, c1, o1 := c14Snapshot(h)
			if len(c1) != len(c0) {
				return nil, fmt.Errorf("number of bins changed")
			}
			nch, idx, delta := 0, -2, 0
			note := func(i int, a, b uint) {
				if a != b {
					if nch == 0 {
						idx, delta = i, int(int64(b)-int64(a))
					}
					nch++
				}
			}
			note(-1, u0, u1)
			for i := range c0 {
				note(i, c0[i], c1[i])
			}
			note(len(c0), o0, o1)
			l.I(0).F(x).I(nch).I(idx).I(delta)
		case 1:
			if x < 0 || x > float64(nb+2) {
				return nil, fmt.Errorf("bin out of range")
			}
			if c.Kind == 1 && x*8 != math.Floor(x*8) {
				return nil, fmt.Errorf("log bin must be a multiple of 1/8")
			}
			l.I(1).F(x).F(h.BinToValue(x))
		case 2:
			if x < 0 || x > 1.5 {
				return nil, fmt.Errorf("q out of range")
			}
			l.I(2).F(x)
			c14QBlock(l, h, x)
		case 3:
			u, cs, o := h.Counts()
			l.I(3).U(uint64(u)).I(len(cs))
			for _, v := range cs {
				l.U(uint64(v))
			}
			l.U(uint64(o))
		case 4:
			l.I(4)
			c14QBlock(l, h, 0.75)
			c14QBlock(l, h, 0.25)
			var r float64
			pan, _ := catch(func() { r = stats.HistogramIQR(h) })
			if pan {
				l.I(2).F(0)
			} else {
				l.I(0).F(r)
			}
		default:
			return nil, fmt.Errorf("bad op")
		}
	}
	return l, nil
}

// ---------- generators ----------

func c14Ulps(x float64, n int) float64 {
	for ; n > 0; n-- {
		x = math.Nextafter(x, math.Inf(1))
	}
	for ; n < 0; n++ {
		x = math.Nextafter(x, math.Inf(-1))
	}
	return x
}

// quantile / IQR / BinToValue / Counts queries appended after a history with [total] samples
func c14Queries(rng *rand.Rand, total int, nb int, kind int, many bool) []c14Op {
	ops := []c14Op{{T: 3}}
	qs := []float64{0, 1, 0.5, 0.25, 0.75, 0.125, 0.875, 0.3, 0.9, 0.999}
	if total > 0 {
		// rank boundaries k/total (k-th smallest sample) and just around them
		ks := []int{1, total, total - 1, total / 2, rng.Intn(total + 1), rng.Intn(total + 1)}
		if many && total <= 40 {
			ks = ks[:0]
			for k := 0; k <= total; k++ {
				ks = append(ks, k)
			}
		}
		for _, k := range ks {
			if k < 0 {
				continue
			}
			// (k+0.5)/total selects rank k whatever the rounding; k/total itself is a
			// rounding decision (borderline) unless the quotient is exact
			qs = append(qs, (float64(k)+0.5)/float64(total))
		}
		qs = append(qs, float64(ks[len(ks)-1])/float64(total))
	}
	for i := 0; i < 3; i++ {
		qs = append(qs, rng.Float64())
	}
	for i := 0; i <= 16 && many; i++ {
		qs = append(qs, float64(i)/16)
	}
	for _, q := range qs {
		if q >= 0 && q <= 1 {
			ops = append(ops, c14Op{T: 2, X: F64(q)})
		}
	}
	ops = append(ops, c14Op{T: 4})
	// BinToValue at edges and inside bins (multiples of 1/8 so that the log model is exact)
	for i := 0; i < 6; i++ {
		b := float64(rng.Intn(nb+2)) + float64(rng.Intn(8))/8
		if b > float64(nb+1) {
			b = float64(nb + 1)
		}
		ops = append(ops, c14Op{T: 1, X: F64(b)})
	}
	ops = append(ops, c14Op{T: 1, X: 0}, c14Op{T: 1, X: F64(nb)}, c14Op{T: 1, X: 0.5})
	return ops
}

func c14Shuffle(rng *rand.Rand, xs []float64) {
	rng.Shuffle(len(xs), func(i, j int) { xs[i], xs[j] = xs[j], xs[i] })
}

func c14AddOps(xs []float64, rng *rand.Rand, nb int, kind int) []c14Op {
	var ops []c14Op
	for i, x := range xs {
		ops = append(ops, c14Op{T: 0, X: F64(x)})
		// interleave a few queries so that stale state across calls would show
		if rng.Intn(40) == 0 {
			ops = append(ops, c14Op{T: 3})
			ops = append(ops, c14Op{T: 2, X: F64(float64(rng.Intn(9)) / 8)})
		}
		_ = i
	}
	return ops
}

// values for a linear shape: every edge, its float neighbours, bin centres, the window of one
// bin width below the first edge, far below / far above
func c14LinearValues(rng *rand.Rand, mn, mx float64, nb int, n int, edgy bool) []float64 {
	w := (mx - mn) / float64(nb)
	var xs []float64
	edge := func(k int) float64 { return mn + float64(k)*(mx-mn)/float64(nb) }
	for len(xs) < n {
		c := rng.Intn(10)
		if !edgy && (c == 2 || c == 3) {
			c = 4
		}
		switch c {
		case 0, 1: // just below the first edge (D7 window)
			f := []float64{1.0 / 1024, 0.25, 0.5, 0.75, 1023.0 / 1024, rng.Float64()}[rng.Intn(6)]
			xs = append(xs, mn-f*w)
		case 2, 3: // an edge and its neighbours
			k := rng.Intn(nb+5) - 2
			e := edge(k)
			xs = append(xs, c14Ulps(e, rng.Intn(5)-2))
		case 4: // near an edge but clearly on one side
			k := rng.Intn(nb+3) - 1
			e := edge(k)
			s := float64(rng.Intn(2)*2 - 1)
			xs = append(xs, e+s*w/1048576)
		case 5: // far away
			s := float64(rng.Intn(2)*2 - 1)
			xs = append(xs, mn+s*(mx-mn)*math.Exp(rng.Float64()*12))
		case 6: // bin centre
			k := rng.Intn(nb+4) - 2
			xs = append(xs, edge(k)+w/2)
		default: // uniform over an enlarged range
			xs = append(xs, mn-(mx-mn)+rng.Float64()*3*(mx-mn))
		}
	}
	return xs
}

func c14LogValues(rng *rand.Rand, b, m int, mx float64, nb int, n int, edgy bool) []float64 {
	var xs []float64
	edge := func(k int) float64 { return math.Pow(float64(b), float64(k)/float64(m)) }
	for len(xs) < n {
		c := rng.Intn(10)
		if !edgy && (c == 2 || c == 4) {
			c = 3
		}
		switch c {
		case 0, 1: // within one bin below the first edge (x in (b^(-1/m), 1))
			lo := edge(-1)
			f := []float64{1.0 / 1024, 0.5, 1023.0 / 1024, rng.Float64()}[rng.Intn(4)]
			xs = append(xs, 1-f*(1-lo))
		case 2: // an edge and its float neighbours
			k := rng.Intn(nb+4) - 2
			xs = append(xs, c14Ulps(edge(k), rng.Intn(5)-2))
		case 3: // near an edge, clearly on one side
			k := rng.Intn(nb+3) - 1
			s := float64(rng.Intn(2)*2 - 1)
			xs = append(xs, edge(k)*(1+s/1048576))
		case 4: // exact integer powers of the base
			k := rng.Intn(nb/m+3) - 1
			xs = append(xs, math.Pow(float64(b), float64(k)))
		case 5: // small integers (often exact powers of the base) / half-integers (never)
			if edgy {
				xs = append(xs, float64(rng.Intn(40)))
			} else {
				xs = append(xs, float64(rng.Intn(40))+0.5)
			}
		case 6: // far away, zero, negative
			switch rng.Intn(4) {
			case 0:
				xs = append(xs, 0)
			case 1:
				xs = append(xs, -float64(rng.Intn(100))/8)
			case 2:
				xs = append(xs, mx*math.Exp(rng.Float64()*10))
			default:
				xs = append(xs, math.Exp(-rng.Float64()*20))
			}
		default: // log-uniform over an enlarged range
			lo, hi := math.Log(edge(-3)), math.Log(mx)+2
			xs = append(xs, math.Exp(lo+rng.Float64()*(hi-lo)))
		}
	}
	return xs
}

func c14Size(rng *rand.Rand, max int) int {
	// log-uniform 1..max
	return int(math.Exp(rng.Float64() * math.Log(float64(max)+0.99)))
}

func c14Gen(tier string, rng *rand.Rand, emit func(interface{})) {
	thorough := tier == "thorough"
	// (d) HistogramQuantile on every small counter vector (identity BinToValue), every rank.
	//     Emitted first: a rank-walk defect is then reported (and shrunk) on a case without Adds.
	maxC, maxLen, maxUO := uint(3), 3, uint(2)
	if thorough {
		maxC, maxLen, maxUO = 4, 4, 3
	}
	var rec func(cs []uint, n int)
	rec = func(cs []uint, n int) {
		if len(cs) == n {
			for u := uint(0); u <= maxUO; u++ {
				for o := uint(0); o <= maxUO; o++ {
					total := int(u + o)
					for _, v := range cs {
						total += int(v)
					}
					var ops []c14Op
					for k := 0; k < total; k++ {
						ops = append(ops, c14Op{T: 2, X: F64((float64(k) + 0.5) / float64(total))})
					}
					ops = append(ops, c14Op{T: 2, X: 1}, c14Op{T: 2, X: 0})
					if total > 0 && (u+o)%2 == 0 {
						ops = append(ops, c14Op{T: 2, X: F64(float64(rng.Intn(total+1)) / float64(total))})
					}
					for i := 0; i <= 8; i++ {
						ops = append(ops, c14Op{T: 2, X: F64(float64(i) / 8)})
					}
					ops = append(ops, c14Op{T: 4}, c14Op{T: 3})
					emit(c14Case{Kind: 2, Under: u, Over: o, Counts: append([]uint{}, cs...), Ops: ops})
				}
			}
			return
		}
		for v := uint(0); v <= maxC; v++ {
			rec(append(cs, v), n)
		}
	}
	for n := 1; n <= maxLen; n++ {
		rec(nil, n)
	}
	// (a) dyadic linear shapes (delta exact in float64): every edge, its neighbours, the bin
	//     centres and the window below the first edge, exhaustively; checked strictly
	maxNB := 6
	if thorough {
		maxNB = 12
	}
	type sh struct{ mn, w float64 }
	for _, s := range []sh{{0, 1}, {-2, 0.5}, {1, 2}, {0.5, 0.25}, {-8, 4}, {3, 0.125}} {
		for nb := 1; nb <= maxNB; nb++ {
			if float64(nb)/(s.w*float64(nb)) != 1/s.w {
				continue
			}
			mx := s.mn + s.w*float64(nb)
			var xs []float64
			for k := -3; k <= nb+2; k++ {
				e := s.mn + float64(k)*s.w
				xs = append(xs, e, c14Ulps(e, 1), c14Ulps(e, -1), e+s.w/2, e-s.w/1024, e+s.w/1024)
			}
			c14Shuffle(rng, xs)
			ops := c14AddOps(xs, rng, nb, 0)
			ops = append(ops, c14Queries(rng, len(xs), nb, 0, false)...)
			emit(c14Case{Kind: 0, Min: F64(s.mn), Max: F64(mx), NBins: nb, Ops: ops})
		}
	}
	// (b) random linear shapes
	nLin := 300
	if thorough {
		nLin = 2500
	}
	for it := 0; it < nLin; it++ {
		nb := 1 + rng.Intn(50)
		if rng.Intn(3) == 0 {
			nb = 1 + rng.Intn(5)
		}
		var mn, mx float64
		switch rng.Intn(5) {
		case 0: // integers
			mn = float64(rng.Intn(41) - 20)
			mx = mn + float64(1+rng.Intn(100))
		case 1: // decimal fractions (inexact in binary)
			mn = float64(rng.Intn(2001)-1000) / 10
			mx = mn + float64(1+rng.Intn(1000))/10
		case 2: // full mantissas
			mn = rng.Float64()*20 - 10
			mx = mn + rng.Float64()*10 + 1e-3
		case 3: // large offset, small width
			mn = float64(rng.Int63n(2e9)-1e9) + rng.Float64()
			mx = mn + rng.Float64()*4 + 0.01
		default: // wide log-uniform
			mn = -math.Exp(rng.Float64()*30 - 15)
			mx = math.Exp(rng.Float64()*30 - 15)
		}
		if !(mn < mx) {
			continue
		}
		n := c14Size(rng, 500)
		if !thorough && rng.Intn(4) > 0 {
			n = c14Size(rng, 60)
		}
		xs := c14LinearValues(rng, mn, mx, nb, n, rng.Intn(4) == 0)
		ops := c14AddOps(xs, rng, nb, 0)
		ops = append(ops, c14Queries(rng, len(xs), nb, 0, len(xs) <= 40 && rng.Intn(3) == 0)...)
		emit(c14Case{Kind: 0, Min: F64(mn), Max: F64(mx), NBins: nb, Ops: ops})
	}
	// (c) log histograms: every base 2..10 x 1..4 bins per power
	reps := 2
	if thorough {
		reps = 12
	}
	for r := 0; r < reps; r++ {
		for b := 2; b <= 10; b++ {
			for m := 1; m <= 4; m++ {
				var mx float64
				edgy := rng.Intn(2) == 0
				k := rng.Intn(4)
				if !edgy && k == 0 {
					k = 1 + rng.Intn(3)
				}
				switch k {
				case 0: // an exact power of the base: nbins itself is a rounding decision
					mx = math.Pow(float64(b), float64(1+rng.Intn(6)))
				case 1:
					mx = float64(2+rng.Intn(2000)) + 0.5
				case 2:
					mx = 1 + rng.Float64()*50
				default:
					mx = math.Exp(rng.Float64() * 13)
				}
				nb := int(math.Ceil(float64(m) * math.Log(mx) / math.Log(float64(b))))
				n := c14Size(rng, 500)
				if !thorough && rng.Intn(4) > 0 {
					n = c14Size(rng, 60)
				}
				xs := c14LogValues(rng, b, m, mx, nb, n, edgy)
				ops := c14AddOps(xs, rng, nb, 1)
				ops = append(ops, c14Queries(rng, len(xs), nb, 1, len(xs) <= 40 && rng.Intn(3) == 0)...)
				emit(c14Case{Kind: 1, B: b, M: m, Max: F64(mx), Ops: ops})
			}
		}
	}
	// (c2) WIDE log histograms: every base 2..10 x 1..4 bins per power with up to 50 bins, i.e. edges up to
	//      base^50 (1e50 for base 10) - far beyond 2^63, where any integer arithmetic on the edges wraps.
	//      BinToValue at EVERY bin 0..nbins (and halves / eighths near the top), values added at and around
	//      the top edges, quantiles of samples lying there.
	for b := 2; b <= 10; b++ {
		for m := 1; m <= 4; m++ {
			for variant := 0; variant < 2; variant++ {
				K := 50 / m // whole powers: nbins = m*K <= 50
				if thorough && variant == 1 {
					K = 1 + rng.Intn(50/m)
				}
				mx := math.Pow(float64(b), float64(K))
				if variant == 1 {
					mx *= 0.7 // clearly inside the last power: nbins is no rounding decision
				}
				nb := int(math.Ceil(float64(m) * math.Log(mx) / math.Log(float64(b))))
				if nb < 1 || nb > 50 {
					continue
				}
				edge := func(k int) float64 { return math.Pow(float64(b), float64(k)/float64(m)) }
				var xs []float64
				// around the top edges and around every edge at a whole power of the base
				for k := nb - 4; k <= nb+1; k++ {
					if k < 0 {
						continue
					}
					xs = append(xs, edge(k)*(1+1.0/1048576), edge(k)*(1-1.0/1048576), c14Ulps(edge(k), rng.Intn(5)-2))
				}
				for k := 0; k <= nb; k += m {
					xs = append(xs, edge(k)*(1+1.0/1048576))
					if rng.Intn(3) == 0 {
						xs = append(xs, edge(k)*1.5)
					}
				}
				xs = append(xs, c14LogValues(rng, b, m, mx, nb, 10+rng.Intn(20), rng.Intn(2) == 0)...)
				c14Shuffle(rng, xs)
				ops := c14AddOps(xs, rng, nb, 1)
				ops = append(ops, c14Queries(rng, len(xs), nb, 1, len(xs) <= 40 && rng.Intn(3) == 0)...)
				// quantiles deep in the upper tail
				for _, q := range []float64{0.95, 0.97, 0.99, 0.995} {
					ops = append(ops, c14Op{T: 2, X: F64(q)})
				}
				for i := 0; i <= nb; i++ {
					ops = append(ops, c14Op{T: 1, X: F64(i)})
				}
				for i := nb - 3; i < nb; i++ {
					if i >= 0 {
						ops = append(ops, c14Op{T: 1, X: F64(float64(i) + 0.5)}, c14Op{T: 1, X: F64(float64(i) + float64(1+rng.Intn(7))/8)})
					}
				}
				emit(c14Case{Kind: 1, B: b, M: m, Max: F64(mx), Ops: ops})
			}
		}
	}
	// (e) random larger counter vectors
	nFix := 300
	if thorough {
		nFix = 3000
	}
	for it := 0; it < nFix; it++ {
		n := 1 + rng.Intn(50)
		cs := make([]uint, n)
		scale := []int{2, 10, 100, 1000}[rng.Intn(4)]
		for i := range cs {
			if rng.Intn(3) > 0 {
				cs[i] = uint(rng.Intn(scale))
			}
		}
		u, o := uint(0), uint(0)
		if rng.Intn(2) == 0 {
			u = uint(rng.Intn(scale))
		}
		if rng.Intn(2) == 0 {
			o = uint(rng.Intn(scale))
		}
		total := int(u + o)
		for _, v := range cs {
			total += int(v)
		}
		ops := c14Queries(rng, total, n, 2, false)
		// power-of-two totals make q*total exact for dyadic q: pad the over count
		emit(c14Case{Kind: 2, Under: u, Over: o, Counts: cs, Ops: ops})
	}
}

func init() { register(&Prop{ID: "C14", Num: 14, Gen: c14Gen, Run: c14Run}) }

package main

import (
	"encoding/json"
	"fmt"
	"math"
	"math/rand"
	"sort"

	"github.com/aclements/go-moremath/fit"
)

// C15: LinearLeastSquares (op 0), PolynomialRegression (op 1), LOESS (op 2).
// A basis term of op 0: kind 0 (x-A)^P, 1 sin(A x), 2 cos(A x), 3 exp(A x), 4 the polynomial sum_k C[k] x^k.
type c15Term struct {
	Kind int   `json:"kind"`
	A    F64   `json:"a"`
	P    int   `json:"p,omitempty"`
	C    []F64 `json:"c,omitempty"`
}
type c15Case struct {
	Op    int       `json:"op"`
	Xs    []F64     `json:"xs"`
	Ys    []F64     `json:"ys"`
	HasW  bool      `json:"hasw,omitempty"`
	W     []F64     `json:"w,omitempty"`
	Basis []c15Term `json:"basis,omitempty"`
	Deg   int       `json:"deg"`
	Span  F64       `json:"span,omitempty"`
	Qs    []F64     `json:"qs,omitempty"`
}

func c15TermValue(t c15Term, x float64) float64 {
	a := float64(t.A)
	switch t.Kind {
	case 0:
		v := 1.0
		for i := 0; i < t.P; i++ {
			v *= x - a
		}
		return v
	case 1:
		return math.Sin(a * x)
	case 2:
		return math.Cos(a * x)
	case 4:
		v := 0.0
		for k := len(t.C) - 1; k >= 0; k-- {
			v = v*x + float64(t.C[k])
		}
		return v
	default:
		return math.Exp(a * x)
	}
}

func sameBits(a, b []float64) bool {
	if len(a) != len(b) || (a == nil) != (b == nil) {
		return false
	}
	for i := range a {
		if math.Float64bits(a[i]) != math.Float64bits(b[i]) {
			return false
		}
	}
	return true
}
func cloneF(a []float64) []float64 {
	if a == nil {
		return nil
	}
	return append([]float64{}, a...)
}
func finiteAll(xs []float64) bool {
	for _, x := range xs {
		if math.IsNaN(x) || math.IsInf(x, 0) {
			return false
		}
	}
	return true
}
func status(pan bool) int {
	if pan {
		return 2
	}
	return 0
}

// c15Interfere runs OTHER fits while the caller still holds the results of the case's own fit: one of the SAME
// shape (same n, same number of terms, weighted alike - whatever storage a library might recycle between calls
// is then recycled at the same offsets) on different data, a larger and a smaller one, and a LOESS closure
// (itself one fit per evaluation).  Works on copies; never touches the case's slices.  Deterministic.
func c15Interfere(xs, ys, ws []float64, nterms int) {
	n := len(xs)
	if n == 0 || len(ys) != n || (ws != nil && len(ws) != n) || nterms < 1 {
		return
	}
	x2 := cloneF(xs)
	y2 := make([]float64, n)
	for i := range y2 {
		y2[i] = -0.5*ys[n-1-i] + float64(i%3) + 0.25
	}
	catch(func() { fit.PolynomialRegression(x2, y2, cloneF(ws), nterms-1) })
	catch(func() { fit.PolynomialRegression(x2, y2, cloneF(ws), nterms) })
	if nterms >= 2 {
		catch(func() { fit.PolynomialRegression(x2, y2, cloneF(ws), nterms-2) })
	}
	catch(func() {
		f := fit.LOESS(x2, y2, 1, 0.8)
		f(x2[n/2])
		f(x2[0] - 1)
	})
}

func c15Run(raw []byte) (*Line, error) {
	var c c15Case
	if err := json.Unmarshal(raw, &c); err != nil {
		return nil, err
	}
	xs, ys := fromF64s(c.Xs), fromF64s(c.Ys)
	var ws []float64
	if c.HasW {
		ws = fromF64s(c.W)
		if ws == nil {
			ws = []float64{}
		}
	}
	if len(xs) > 200 || len(ys) > 200 || len(ws) > 200 || len(c.Qs) > 200 || len(c.Basis) > 8 {
		return nil, fmt.Errorf("too large")
	}
	if !finiteAll(xs) || !finiteAll(ys) || !finiteAll(ws) || !finiteAll(fromF64s(c.Qs)) {
		return nil, fmt.Errorf("non-finite input")
	}
	for _, w := range ws {
		if w < 0 {
			return nil, fmt.Errorf("negative weight")
		}
	}
	if c.Deg > 8 || c.Deg < -2 {
		return nil, fmt.Errorf("degree out of the generated range")
	}
	if c.Op != 2 && len(xs) == 0 {
		return nil, fmt.Errorf("no abscissa") // gonum refuses a matrix without rows; outside the property (n >= 3)
	}
	if c.Op == 2 && (len(xs) != len(ys) || math.IsNaN(float64(c.Span)) || math.IsInf(float64(c.Span), 0)) {
		return nil, fmt.Errorf("LOESS: len(xs) != len(ys) or non-finite span") // LOESS does not check the lengths itself
	}
	xs0, ys0, ws0 := cloneF(xs), cloneF(ys), cloneF(ws)
	unmodified := func() bool { return sameBits(xs, xs0) && sameBits(ys, ys0) && sameBits(ws, ws0) }
	l := &Line{}
	l.I(15).I(c.Op)
	switch c.Op {
	case 0:
		if len(c.Basis) == 0 {
			return nil, fmt.Errorf("no basis")
		}
		for _, t := range c.Basis {
			if t.Kind == 4 && (len(t.C) == 0 || len(t.C) > 6 || !finiteAll(fromF64s(t.C))) {
				return nil, fmt.Errorf("bad polynomial term")
			}
			if t.Kind < 0 || t.Kind > 4 || t.P < 0 || t.P > 8 || math.IsNaN(float64(t.A)) || math.IsInf(float64(t.A), 0) || math.Abs(float64(t.A)) > 64 {
				return nil, fmt.Errorf("bad term")
			}
		}
		// The columns of the design the MODEL sees are the harness's own evaluation of the terms at the
		// abscissae of the case (never what the library handed to the term functions): a library that
		// passes other abscissae to the terms (reordered, shifted, a stale copy) fits another design.
		cols := make([][]float64, len(c.Basis))
		for j := range c.Basis {
			col := make([]float64, len(xs0))
			for i, x := range xs0 {
				col[i] = c15TermValue(c.Basis[j], x)
			}
			if !finiteAll(col) {
				return nil, fmt.Errorf("non-finite basis value")
			}
			cols[j] = col
		}
		terms := make([]func(xs, out []float64), len(c.Basis))
		for j := range c.Basis {
			j := j
			terms[j] = func(txs, out []float64) {
				for i := range out {
					out[i] = c15TermValue(c.Basis[j], txs[i])
				}
			}
		}
		var params []float64
		pan, _ := catch(func() { params = fit.LinearLeastSquares(xs, ys, ws, terms...) })
		// the line carries the arguments AS GIVEN (the copies taken before the call), never what the library
		// left in the caller's slices: the reference fit is the one of the case, and "unmodified" alone
		// says whether xs, ys AND the weights still hold these values, bit for bit
		l.Fs(xs0).Fs(ys0).B(c.HasW).Fs(ws0)
		l.I(len(c.Basis))
		for j := range c.Basis {
			l.Fs(cols[j])
		}
		l.I(status(pan)).Fs(params).B(unmodified())
		// HISTORY: other fits run while params is still held; params is then read again (a returned slice that
		// aliases storage the library reuses would have changed)
		c15Interfere(xs0, ys0, ws0, len(c.Basis))
		l.Fs(params)
	case 1:
		var res fit.PolynomialRegressionResult
		pan, _ := catch(func() { res = fit.PolynomialRegression(xs, ys, ws, c.Deg) })
		l.Fs(xs0).Fs(ys0).B(c.HasW).Fs(ws0).I(c.Deg).I(status(pan))
		if pan {
			l.I(0).I(0).I(0).I(0).B(unmodified())
			l.I(0).I(0).I(0)
			break
		}
		if len(c.Qs) == 0 {
			return nil, fmt.Errorf("no query of F")
		}
		l.Fs(res.Coefficients)
		l.I(len(c.Qs))
		for _, q := range c.Qs {
			l.F(float64(q)).F(res.F(float64(q)))
		}
		// the same fit through LinearLeastSquares on the monomial basis
		terms := make([]func(xs, out []float64), c.Deg+1)
		for d := range terms {
			d := d
			terms[d] = func(txs, out []float64) {
				for i, x := range txs {
					v := 1.0
					for k := 0; k < d; k++ {
						v *= x
					}
					out[i] = v
				}
			}
		}
		var lp []float64
		lpan, _ := catch(func() { lp = fit.LinearLeastSquares(xs, ys, ws, terms...) })
		l.I(status(lpan)).Fs(lp).B(unmodified())
		// HISTORY: other fits run while res and lp are still held; then Coefficients, F at every query and the
		// twin's parameters are read again
		c15Interfere(xs0, ys0, ws0, c.Deg+1)
		l.Fs(res.Coefficients)
		l.I(len(c.Qs))
		for _, q := range c.Qs {
			v := math.NaN()
			catch(func() { v = res.F(float64(q)) })
			l.F(v)
		}
		l.Fs(lp)
	case 2:
		var f func(float64) float64
		span := float64(c.Span)
		pan, _ := catch(func() { f = fit.LOESS(xs, ys, c.Deg, span) })
		l.Fs(xs0).Fs(ys0).I(c.Deg).F(span).I(status(pan))
		if pan {
			l.I(0).B(unmodified()).I(0)
			break
		}
		if len(c.Qs) == 0 {
			return nil, fmt.Errorf("no query of the LOESS closure")
		}
		pure := unmodified()
		l.I(len(c.Qs))
		for i, q := range c.Qs {
			if i == (len(c.Qs)+1)/2 {
				// HISTORY: other fits and another closure run between two evaluations of this closure; the
				// remaining queries are new abscissae evaluated after them
				c15Interfere(xs0, ys0, nil, c.Deg+1)
			}
			var v float64
			qpan, _ := catch(func() { v = f(float64(q)) })
			l.F(float64(q)).I(status(qpan)).F(v)
			pure = pure && unmodified()
		}
		l.B(pure && unmodified())
		// ... and every query is evaluated once more after further fits: the closure keeps no state between
		// calls and shares none with other fits (status and value are compared with the first evaluation)
		c15Interfere(xs0, ys0, nil, c.Deg+1)
		l.I(len(c.Qs))
		for _, q := range c.Qs {
			var v float64
			qpan, _ := catch(func() { v = f(float64(q)) })
			l.I(status(qpan)).F(v)
		}
	default:
		return nil, fmt.Errorf("bad op")
	}
	return l, nil
}

// ---------- generators ----------

// n distinct abscissae: a grid k/den in [-2,2] (mode 0/1), full-mantissa doubles (mode 2),
// then optionally rescaled by a power of two and shifted by a small dyadic.
func c15Xs(rng *rand.Rand, n int, mode int) []float64 {
	seen := map[float64]bool{}
	xs := make([]float64, 0, n)
	for len(xs) < n {
		var x float64
		switch mode {
		case 0:
			x = float64(rng.Intn(65)-32) / 16
		case 1:
			x = float64(rng.Intn(4097)-2048) / 1024
		default:
			x = rng.Float64()*4 - 2
		}
		if !seen[x] {
			seen[x] = true
			xs = append(xs, x)
		}
	}
	return xs
}
func c15Rescale(rng *rand.Rand, xs []float64, maxShift int) {
	sc := math.Ldexp(1, rng.Intn(2*maxShift+1)-maxShift)
	sh := 0.0
	if rng.Intn(3) == 0 {
		sh = float64(rng.Intn(9)-4) / 4
	}
	for i := range xs {
		xs[i] = xs[i]*sc + sh*sc
	}
}
func c15Weights(rng *rand.Rand, n int, wide bool) []float64 {
	ws := make([]float64, n)
	kind := rng.Intn(3)
	if kind == 1 && !wide {
		kind = 0
	}
	for i := range ws {
		switch kind {
		case 0:
			ws[i] = float64(1+rng.Intn(32)) / 8
		case 1:
			ws[i] = 0.05 + rng.Float64()*3
		default:
			ws[i] = float64(1 + rng.Intn(4))
		}
	}
	return ws
}
func c15Dyadic(rng *rand.Rand, scale int) float64 { return float64(rng.Intn(2*scale+1)-scale) / 8 }

func c15PolyVals(coef []float64, xs []float64) []float64 {
	ys := make([]float64, len(xs))
	for i, x := range xs {
		v := 0.0
		for k := len(coef) - 1; k >= 0; k-- {
			v = v*x + coef[k]
		}
		ys[i] = v
	}
	return ys
}

func c15Queries(rng *rand.Rand, xs []float64, n int) []float64 {
	s := append([]float64{}, xs...)
	sort.Float64s(s)
	lo, hi := s[0], s[len(s)-1]
	qs := []float64{lo, hi, (lo + hi) / 2, lo - (hi-lo)/8, hi + (hi-lo)/16, 0}
	for len(qs) < n {
		qs = append(qs, lo+(hi-lo)*float64(rng.Intn(257))/256)
	}
	return qs
}

// Weights of EXTREME magnitude (seeded change C20-8: LinearLeastSquares divided weights beyond 1e+-100 by their
// maximum in the caller's slice).  Only the RELATIVE weights matter - the minimiser of sum w_i r_i^2 is invariant
// under a common positive factor, and so are kappa(X^T W X) and every tolerance of Check/C15.v (orthogonality
// defect and its scale are both linear in w) - so the same comparator judges the scaled twin with no change; the
// powers of two and the decimal factors are all dyadic rationals (about 500 bits), which the exact solver
// handles at the same speed.  Every 6th weighted LinearLeastSquares / PolynomialRegression case of the
// generator (well-formed: one positive weight at least, lengths equal) is emitted a second time with ALL its
// weights multiplied by the next factor of this list; nothing overflows (|w x^(2 deg)| n < 1e190).
var c15WFactors = []float64{math.Ldexp(1, 500), math.Ldexp(1, -500), 1e150, 1e-150, 1e101, 1e-101, 1e102, 1e-103}

func c15ExtremeTwin(c c15Case, k int) (c15Case, bool) {
	if c.Op == 2 || !c.HasW || len(c.W) == 0 || len(c.W) != len(c.Xs) || len(c.Ys) != len(c.Xs) {
		return c, false
	}
	f := c15WFactors[k%len(c15WFactors)]
	w := make([]F64, len(c.W))
	pos := false
	for i, v := range c.W {
		w[i] = F64(float64(v) * f)
		if v > 0 {
			pos = true
		}
		if v < 0 || (v != 0 && (w[i] == 0 || math.IsInf(float64(w[i]), 0))) {
			return c, false
		}
	}
	c.W = w
	return c, pos
}

func c15Gen(tier string, rng *rand.Rand, emit0 func(interface{})) {
	weighted := 0
	emit := func(ci interface{}) {
		emit0(ci)
		if c, ok := ci.(c15Case); ok {
			if t, ok := c15ExtremeTwin(c, weighted/6); ok {
				weighted++
				if weighted%6 == 0 {
					emit0(t)
				}
			}
		}
	}
	thorough := tier == "thorough"
	mul := 1
	if thorough {
		mul = 12
	}
	// ---- malformed / degenerate ----
	emit(c15Case{Op: 1, Xs: toF64s([]float64{0, 1, 2}), Ys: toF64s([]float64{1, 2}), Deg: 1})
	emit(c15Case{Op: 1, Xs: toF64s([]float64{0, 1, 2}), Ys: toF64s([]float64{1, 2, 3}), HasW: true, W: toF64s([]float64{1, 1}), Deg: 1})
	emit(c15Case{Op: 1, Xs: toF64s([]float64{0, 1, 2}), Ys: toF64s([]float64{1, 2, 3}), Deg: -1})
	emit(c15Case{Op: 1, Xs: toF64s([]float64{0, 1}), Ys: toF64s([]float64{1, 2}), Deg: 2, Qs: toF64s([]float64{0})}) // singular
	emit(c15Case{Op: 0, Xs: toF64s([]float64{0, 1, 2}), Ys: toF64s([]float64{1, 2}), Basis: []c15Term{{Kind: 0, P: 0}}})
	emit(c15Case{Op: 0, Xs: toF64s([]float64{0, 1, 2}), Ys: toF64s([]float64{1, 2, 3}), HasW: true, W: toF64s([]float64{1, 2, 3, 4}), Basis: []c15Term{{Kind: 0, P: 0}}})
	emit(c15Case{Op: 0, Xs: toF64s([]float64{0, 1, 2}), Ys: toF64s([]float64{1, 2, 3}), HasW: true, W: []F64{}, Basis: []c15Term{{Kind: 0, P: 0}}})
	emit(c15Case{Op: 2, Xs: toF64s([]float64{0, 1, 2}), Ys: toF64s([]float64{1, 2, 3}), Deg: -1, Span: 0.5})
	emit(c15Case{Op: 2, Xs: toF64s([]float64{0, 1, 2}), Ys: toF64s([]float64{1, 2, 3}), Deg: 1, Span: 0})
	emit(c15Case{Op: 2, Xs: toF64s([]float64{0, 1, 2}), Ys: toF64s([]float64{1, 2, 3}), Deg: 1, Span: -0.25})
	emit(c15Case{Op: 2, Xs: []F64{}, Ys: []F64{}, Deg: 1, Span: 0.5, Qs: toF64s([]float64{0})})                                             // closest[0] panics
	emit(c15Case{Op: 2, Xs: toF64s([]float64{1}), Ys: toF64s([]float64{5}), Deg: 0, Span: 1, Qs: toF64s([]float64{1, 2})})                  // d = 0 / single point of weight 0
	emit(c15Case{Op: 2, Xs: toF64s([]float64{0, 1, 2, 3}), Ys: toF64s([]float64{1, 2, 3, 4}), Deg: 2, Span: 0.5, Qs: toF64s([]float64{1})}) // too few points

	// ---- PolynomialRegression ----
	for it := 0; it < 220*mul; it++ {
		deg := []int{0, 0, 1, 1, 1, 2, 2, 2, 3, 3, 3, 4, 4, 5, 5, 6, 6}[rng.Intn(17)]
		if it < 14 {
			deg = it % 7
		}
		n := deg + 1 + rng.Intn(8)
		switch rng.Intn(4) {
		case 0:
			n = 3 + rng.Intn(38)
		case 1:
			n = deg + 1 // interpolation
		}
		if n < 3 {
			n = 3
		}
		if n > 40 {
			n = 40
		}
		// exact arithmetic on the model side: keep the bit sizes of x^(2 deg) bounded
		mode := rng.Intn(6)
		if mode > 2 || (mode == 2 && deg > 2) || (mode == 1 && deg > 3) {
			mode = 0
		}
		xs := c15Xs(rng, n, mode)
		if rng.Intn(3) == 0 {
			sh := 1
			if deg <= 2 {
				sh = 4
			}
			c15Rescale(rng, xs, sh)
		}
		var ys []float64
		switch rng.Intn(3) {
		case 0: // exact polynomial of degree <= deg
			pd := rng.Intn(deg + 1)
			coef := make([]float64, pd+1)
			for k := range coef {
				coef[k] = float64(rng.Intn(17) - 8)
			}
			ys = c15PolyVals(coef, xs)
		case 1: // polynomial + noise
			coef := make([]float64, deg+1)
			for k := range coef {
				coef[k] = c15Dyadic(rng, 32)
			}
			ys = c15PolyVals(coef, xs)
			for i := range ys {
				ys[i] += c15Dyadic(rng, 8)
			}
		default:
			ys = make([]float64, n)
			for i := range ys {
				ys[i] = genValue(rng, 1+rng.Intn(2))
			}
		}
		c := c15Case{Op: 1, Xs: toF64s(xs), Ys: toF64s(ys), Deg: deg, Qs: toF64s(c15Queries(rng, xs, 8))}
		if rng.Intn(2) == 0 {
			c.HasW = true
			c.W = toF64s(c15Weights(rng, n, deg <= 2))
			if rng.Intn(6) == 0 && n > deg+3 { // a zero weight leaves the design regular
				c.W[rng.Intn(n)] = 0
			}
		}
		emit(c)
	}

	// ---- LinearLeastSquares with smooth bases ----
	for it := 0; it < 120*mul; it++ {
		var basis []c15Term
		switch it % 6 {
		case 0: // monomials about a centre
			d := rng.Intn(5)
			a := float64(rng.Intn(9)-4) / 4
			for p := 0; p <= d; p++ {
				basis = append(basis, c15Term{Kind: 0, A: F64(a), P: p})
			}
		case 1:
			basis = []c15Term{{Kind: 0, P: 0}, {Kind: 1, A: 1}, {Kind: 2, A: 1}}
		case 2:
			basis = []c15Term{{Kind: 0, P: 0}, {Kind: 3, A: 0.5}}
		case 3:
			basis = []c15Term{{Kind: 0, P: 0}, {Kind: 0, P: 1}, {Kind: 3, A: -1}}
		case 4:
			basis = []c15Term{{Kind: 0, P: 0}, {Kind: 0, P: 1}, {Kind: 1, A: 2}, {Kind: 2, A: 2}}
		default: // a basis without the constant term, in arbitrary order
			basis = []c15Term{{Kind: 2, A: 1.5}, {Kind: 0, P: 2}, {Kind: 0, A: 1, P: 1}}
		}
		n := len(basis) + rng.Intn(10)
		if rng.Intn(3) == 0 {
			n = 3 + rng.Intn(38)
		}
		if n < 3 {
			n = 3
		}
		mode := rng.Intn(4)
		if mode > 2 {
			mode = 0
		}
		xs := c15Xs(rng, n, mode)
		if it%6 == 0 && mode != 2 && rng.Intn(2) == 0 { // "or rescaled": polynomial bases stay exact and cheap
			c15Rescale(rng, xs, 2)
		}
		ys := make([]float64, n)
		beta := make([]float64, len(basis))
		for k := range beta {
			beta[k] = c15Dyadic(rng, 32)
		}
		noise := rng.Intn(3)
		for i, x := range xs {
			for k, t := range basis {
				ys[i] += beta[k] * c15TermValue(t, x)
			}
			switch noise {
			case 1:
				ys[i] += c15Dyadic(rng, 8)
			case 2:
				ys[i] = genValue(rng, 2) * 4
			}
		}
		c := c15Case{Op: 0, Xs: toF64s(xs), Ys: toF64s(ys), Basis: basis}
		if rng.Intn(2) == 0 {
			c.HasW = true
			c.W = toF64s(c15Weights(rng, n, len(basis) <= 3))
			if rng.Intn(4) == 0 && n > len(basis)+3 { // zero weights: those observations drop out of the fit
				c.W[rng.Intn(n)] = 0
				c.W[rng.Intn(n)] = 0
			}
		}
		emit(c)
	}

	// ---- LOESS ----
	// The model evaluates tricube weights exactly: (1-(a/d)^3)^3 has a denominator d^9, so the bulk of
	// the cases keeps x, xs on a coarse dyadic grid (d has <= 12 significant bits); a minority uses
	// full-mantissa abscissae and one-ulp neighbours of the cut-over points with small windows.
	for it := 0; it < 220*mul; it++ {
		deg := rng.Intn(3)
		n := 3 + rng.Intn(38)
		if rng.Intn(3) == 0 {
			n = 3 + rng.Intn(10)
		}
		mode := 0
		switch rng.Intn(24) {
		case 0, 1, 2, 3:
			mode = 1
		case 4:
			mode = 2
			n = 3 + rng.Intn(4)
			deg = 0
		}
		ulpCase := rng.Intn(6) == 0 && deg <= 1
		xs := c15Xs(rng, n, mode)
		sc := 1.0
		if rng.Intn(4) == 0 {
			sc = math.Ldexp(1, rng.Intn(7)-3)
			sh := float64(rng.Intn(9)-4) / 4
			for i := range xs {
				xs[i] = (xs[i] + sh) * sc
			}
		}
		shuffled := rng.Intn(2) == 0
		if !shuffled {
			sort.Float64s(xs)
		}
		var ys []float64
		switch rng.Intn(3) {
		case 0: // a polynomial of degree <= deg: reproduced exactly
			coef := make([]float64, rng.Intn(deg+1)+1)
			for k := range coef {
				coef[k] = float64(rng.Intn(17) - 8)
			}
			ys = c15PolyVals(coef, xs)
		case 1:
			ys = make([]float64, n)
			for i, x := range xs {
				ys[i] = math.Round(math.Sin(x/sc)*64)/64 + c15Dyadic(rng, 2)
			}
		default:
			ys = make([]float64, n)
			for i := range ys {
				ys[i] = genValue(rng, 1)
			}
		}
		var span float64
		switch rng.Intn(6) {
		case 0:
			span = 1
		case 1: // j/n: the product span*n is within rounding of an integer
			span = float64(deg+2+rng.Intn(n)) / float64(n)
		case 2:
			span = float64(1+rng.Intn(64)) / 64
		case 3:
			span = 0.33 + rng.Float64()*0.5
		case 4:
			span = 1 + float64(rng.Intn(3))/4
		default:
			span = (float64(deg+3) + float64(rng.Intn(4))) / float64(n)
		}
		if span <= 0 {
			span = 0.5
		}
		// queries: ends, data points, window cut-over mid-points and their neighbours, inside, just outside
		s := append([]float64{}, xs...)
		sort.Float64s(s)
		q := int(math.Ceil(span * float64(n)))
		if q > n {
			q = n
		}
		step := sc / 64
		snap := func(x float64) float64 { return math.Round(x/step) * step }
		qs := []float64{s[0], s[n-1], s[rng.Intn(n)], snap(s[0] - (s[n-1]-s[0])/16), snap(s[n-1] + (s[n-1]-s[0])/8)}
		var mids []float64
		for i := 0; i+q < n; i++ {
			mids = append(mids, (s[i]+s[i+q])/2)
		}
		rng.Shuffle(len(mids), func(i, j int) { mids[i], mids[j] = mids[j], mids[i] })
		maxMid := 4
		if mode == 2 {
			maxMid = 2
		}
		if len(mids) > maxMid {
			mids = mids[:maxMid]
		}
		ulpDone := false
		for _, m := range mids {
			qs = append(qs, m)
			r := rng.Intn(4)
			switch {
			case ulpCase && !ulpDone && q <= 6 && math.Abs(m) >= step:
				ulpDone = true
				if rng.Intn(2) == 0 {
					qs = append(qs, math.Nextafter(m, math.Inf(1)))
				} else {
					qs = append(qs, math.Nextafter(m, math.Inf(-1)))
				}
			case r == 1:
				qs = append(qs, m+step)
			case r == 2:
				qs = append(qs, m-step)
			}
		}
		for k := 0; k < 3 && mode != 2; k++ {
			qs = append(qs, snap(s[0]+(s[n-1]-s[0])*rng.Float64()))
		}
		emit(c15Case{Op: 2, Xs: toF64s(xs), Ys: toF64s(ys), Deg: deg, Span: F64(span), Qs: toF64s(qs)})
	}
	c15GenEdge(rng, mul, emit)
	c15GenRescaled(rng, mul, emit)
}

// c15GenRescaled: "or rescaled" taken seriously (seeded change C15-11: fitted coefficients below 1e-10 flushed
// to zero).  The data of a polynomial fit are multiplied by powers of two far from 1: ys by 2^k, |k| <= 80
// (the exact fit and every float64 operation of the code scale with it, so the comparator's relative tolerances
// are unchanged), and for degree <= 1 also xs by 2^j, |j| <= 20 (true slopes of order 2^-j).  Each case is sent
// through PolynomialRegression and through LinearLeastSquares on the monomial basis.  Placed last so that the
// streams above are unchanged for a given seed.
func c15GenRescaled(rng *rand.Rand, mul int, emit func(interface{})) {
	for it := 0; it < 40*mul; it++ {
		deg := it % 4
		n := deg + 2 + rng.Intn(8)
		if n < 3 {
			n = 3
		}
		xs := c15Xs(rng, n, 0)
		xk := 0
		if deg <= 1 && it%2 == 0 {
			xk = rng.Intn(41) - 20
		}
		yk := rng.Intn(161) - 80
		if it%5 == 4 {
			yk = 0 // x rescaling alone
			if xk == 0 && deg <= 1 {
				xk = 20 - 40*rng.Intn(2)
			}
		}
		for i := range xs {
			xs[i] = math.Ldexp(xs[i], xk)
		}
		coef := make([]float64, deg+1)
		for k := range coef {
			coef[k] = math.Ldexp(float64(rng.Intn(17)-8), -k*xk)
			if coef[k] == 0 && k == deg {
				coef[k] = math.Ldexp(3, -k*xk)
			}
		}
		ys := c15PolyVals(coef, xs)
		if it%3 == 2 {
			for i := range ys {
				ys[i] += c15Dyadic(rng, 8)
			}
		}
		for i := range ys {
			ys[i] = math.Ldexp(ys[i], yk)
		}
		qs := c15Queries(rng, xs, 4)
		c := c15Case{Op: 1, Xs: toF64s(xs), Ys: toF64s(ys), Deg: deg, Qs: toF64s(qs)}
		if it%4 == 1 {
			c.HasW = true
			c.W = toF64s(c15Weights(rng, n, true))
		}
		emit(c)
		var basis []c15Term
		for p := 0; p <= deg; p++ {
			basis = append(basis, c15Term{Kind: 0, P: p})
		}
		l := c15Case{Op: 0, Xs: c.Xs, Ys: c.Ys, HasW: c.HasW, W: c.W, Basis: basis}
		emit(l)
	}
}

// c15GenEdge: the thin places of the streams above, made explicit.
func c15GenEdge(rng *rand.Rand, mul int, emit func(interface{})) {
	ints := func(n, lo, hi int) []float64 {
		v := make([]float64, n)
		for i := range v {
			v[i] = float64(lo + rng.Intn(hi-lo+1))
		}
		return v
	}
	// ---- LinearLeastSquares called directly with 1, 2, 3, 4 terms drawn at random from non-constant
	// polynomials (x, x^2, 1+x, x^3-x, (x-a)^p ...), sin, cos, exp: in particular a SINGLE non-constant term,
	// two terms without a constant, the same basis in another order; with weights (some zero) and without ----
	for it := 0; it < 60*mul; it++ {
		k := 1 + it%4
		if it%8 >= 4 {
			k = 1 + rng.Intn(2)
		}
		var basis []c15Term
		for len(basis) < k {
			var t c15Term
			switch rng.Intn(8) {
			case 0, 1:
				t = c15Term{Kind: 0, A: F64(float64(rng.Intn(9)-4) / 4), P: 1 + rng.Intn(3)}
			case 2, 3, 4:
				d := 1 + rng.Intn(3)
				cf := make([]F64, d+1)
				for i := range cf {
					cf[i] = F64(rng.Intn(7) - 3)
				}
				if cf[d] == 0 {
					cf[d] = 1
				}
				t = c15Term{Kind: 4, C: cf}
			case 5:
				t = c15Term{Kind: 1 + rng.Intn(2), A: F64(float64(1+rng.Intn(4)) / 2)}
			case 6:
				t = c15Term{Kind: 3, A: F64(float64(rng.Intn(5)-2) / 2)}
				if t.A == 0 {
					t.A = 1
				}
			default:
				t = c15Term{Kind: 0, P: 0}
				if k == 1 {
					continue // a single constant term is covered above
				}
			}
			basis = append(basis, t)
		}
		n := k + 2 + rng.Intn(9)
		xs := c15Xs(rng, n, rng.Intn(2))
		ys := make([]float64, n)
		switch it % 3 {
		case 0: // in the span of the basis (up to rounding of the term values)
			for i, x := range xs {
				for _, t := range basis {
					ys[i] += 2 * c15TermValue(t, x)
				}
			}
		case 1:
			ys = ints(n, -16, 16)
		default:
			for i := range ys {
				ys[i] = c15Dyadic(rng, 64)
			}
		}
		c := c15Case{Op: 0, Xs: toF64s(xs), Ys: toF64s(ys), Basis: basis}
		if it%2 == 1 {
			c.HasW = true
			c.W = toF64s(c15Weights(rng, n, k <= 2))
			if it%6 == 1 {
				c.W[rng.Intn(n)] = 0
			}
		}
		emit(c)
	}
	// ---- singular designs: Go's solver reports an error that LinearLeastSquares drops; the model says
	// FSingular and makes no claim on the numbers, but a panic or a modified argument is still a mismatch ----
	for it := 0; it < 4*mul; it++ {
		deg := 1 + rng.Intn(3)
		n := deg + 2 + rng.Intn(4)
		vals := c15Xs(rng, deg, 0) // only deg distinct abscissae for deg+1 coefficients
		xs := make([]float64, n)
		for i := range xs {
			xs[i] = vals[i%deg]
		}
		emit(c15Case{Op: 1, Xs: toF64s(xs), Ys: toF64s(ints(n, -8, 8)), Deg: deg, Qs: toF64s([]float64{0, 1})})
		// the same term twice
		n = 4 + rng.Intn(5)
		emit(c15Case{Op: 0, Xs: toF64s(c15Xs(rng, n, 0)), Ys: toF64s(ints(n, -8, 8)),
			Basis: []c15Term{{Kind: 0, P: 0}, {Kind: 0, P: 1}, {Kind: 0, P: 1}}})
		// zero weights leave fewer positive-weight observations than terms
		w := make([]float64, n)
		w[rng.Intn(n)] = 1
		w[rng.Intn(n)] = 2
		emit(c15Case{Op: 0, Xs: toF64s(c15Xs(rng, n, 0)), Ys: toF64s(ints(n, -8, 8)), HasW: true, W: toF64s(w),
			Basis: []c15Term{{Kind: 0, P: 0}, {Kind: 0, P: 1}, {Kind: 0, P: 2}}})
	}
	// ---- PolynomialRegression with repeated abscissae (replicated observations), still >= deg+1 distinct,
	// and with several zero weights ----
	for it := 0; it < 24*mul; it++ {
		deg := rng.Intn(5)
		nd := deg + 1 + rng.Intn(4)
		vals := c15Xs(rng, nd, 0)
		n := nd + 1 + rng.Intn(6)
		xs := make([]float64, n)
		for i := range xs {
			if i < nd {
				xs[i] = vals[i]
			} else {
				xs[i] = vals[rng.Intn(nd)]
			}
		}
		rng.Shuffle(n, func(i, j int) { xs[i], xs[j] = xs[j], xs[i] })
		c := c15Case{Op: 1, Xs: toF64s(xs), Ys: toF64s(ints(n, -16, 16)), Deg: deg, Qs: toF64s(c15Queries(rng, xs, 7))}
		if it%2 == 0 {
			c.HasW = true
			c.W = toF64s(c15Weights(rng, n, false))
			if it%4 == 0 { // zero weights on the replicates only: the design stays regular
				for i := range xs {
					if rng.Intn(3) == 0 {
						first := true
						for j := 0; j < i; j++ {
							if xs[j] == xs[i] {
								first = false
							}
						}
						if !first {
							c.W[i] = 0
						}
					}
				}
			}
		}
		emit(c)
	}
	// ---- LOESS, sorted input with repeated abscissae (ties at the window boundary and inside) ----
	for it := 0; it < 24*mul; it++ {
		deg := rng.Intn(2)
		nd := 4 + rng.Intn(8)
		vals := c15Xs(rng, nd, 0)
		n := nd + 1 + rng.Intn(5)
		xs := make([]float64, n)
		for i := range xs {
			if i < nd {
				xs[i] = vals[i]
			} else {
				xs[i] = vals[rng.Intn(nd)]
			}
		}
		sort.Float64s(xs)
		span := float64(deg+3+rng.Intn(4)) / float64(n)
		q := int(math.Ceil(span * float64(n)))
		if q > n {
			q = n
		}
		qs := []float64{xs[0], xs[n-1], xs[rng.Intn(n)], xs[0] - 0.5, xs[n-1] + 0.25}
		for i := 0; i+q < n && len(qs) < 9; i += 1 + rng.Intn(3) {
			m := (xs[i] + xs[i+q]) / 2
			qs = append(qs, m, m+1.0/64)
		}
		emit(c15Case{Op: 2, Xs: toF64s(xs), Ys: toF64s(ints(n, -8, 8)), Deg: deg, Span: F64(span), Qs: toF64s(qs)})
	}
	// ---- exactly determined weighted fits: all weights zero except on deg+1 (PolynomialRegression) / k
	// (LinearLeastSquares) observations with distinct abscissae; n = k without weights ----
	for it := 0; it < 16*mul; it++ {
		deg := it % 5
		n := deg + 2 + rng.Intn(5)
		xs := c15Xs(rng, n, 0)
		w := make([]float64, n)
		for _, i := range rng.Perm(n)[:deg+1] {
			w[i] = float64(1+rng.Intn(8)) / 4
		}
		emit(c15Case{Op: 1, Xs: toF64s(xs), Ys: toF64s(ints(n, -16, 16)), HasW: true, W: toF64s(w), Deg: deg,
			Qs: toF64s(c15Queries(rng, xs, 7))})
		if it%2 == 0 {
			var basis []c15Term
			a := float64(rng.Intn(5)-2) / 2
			for p := 0; p <= deg; p++ {
				basis = append(basis, c15Term{Kind: 0, A: F64(a), P: p})
			}
			c := c15Case{Op: 0, Xs: toF64s(xs), Ys: toF64s(ints(n, -16, 16)), Basis: basis}
			if it%4 == 0 {
				c.HasW, c.W = true, toF64s(w)
			} else { // n = k: the square system
				c.Xs, c.Ys = c.Xs[:deg+1], c.Ys[:deg+1]
			}
			emit(c)
		}
	}
	// ---- LOESS, span*n an exact integer with n NOT a power of two (span = 1/2, 1/4, 3/4, 1/8 ...) ----
	for it := 0; it < 12*mul; it++ {
		deg := rng.Intn(3)
		den := []int{2, 4, 4, 8}[it%4]
		num := 1 + rng.Intn(den-1)
		n := den * (2 + rng.Intn(4)) // span*n = num*n/den, an integer
		for num*n/den < deg+2 {
			n += den
		}
		if n > 40 {
			continue
		}
		xs := c15Xs(rng, n, 0)
		if it%3 != 0 {
			sort.Float64s(xs)
		}
		s := append([]float64{}, xs...)
		sort.Float64s(s)
		q := num * n / den
		qs := []float64{s[0], s[n-1], s[n/3], s[0] - 0.25, s[n-1] + 0.5}
		if q < n {
			qs = append(qs, (s[0]+s[q])/2, (s[n-1-q]+s[n-1])/2, (s[(n-q)/2]+s[(n-q)/2+q])/2+1.0/64)
		}
		emit(c15Case{Op: 2, Xs: toF64s(xs), Ys: toF64s(ints(n, -8, 8)), Deg: deg, Span: F64(float64(num) / float64(den)), Qs: toF64s(qs)})
	}
	// ---- LOESS window width: span*n exactly an integer j, and span one ulp either side (ceil boundary);
	// n = q+1 (the search has a single position to decide); n = q; queries far outside the data ----
	for it := 0; it < 12*mul; it++ {
		deg := rng.Intn(3)
		n := deg + 4 + rng.Intn(12)
		if it%3 == 0 { // n a power of two: j/n is a binary64 number and span*n = j exactly
			n = 8 << uint(rng.Intn(2))
		}
		xs := c15Xs(rng, n, 0)
		if it%4 != 1 {
			sort.Float64s(xs)
		}
		s := append([]float64{}, xs...)
		sort.Float64s(s)
		ys := ints(n, -8, 8)
		j := deg + 2 + rng.Intn(n-deg-2) // deg+2 <= j <= n-1
		if it%4 == 0 {
			j = n - 1 // q = n-1: the search decides between two windows only
		}
		base := float64(j) / float64(n)
		lo, hi := s[0], s[n-1]
		qs := []float64{lo, hi, s[n/2], lo - 3*(hi-lo), hi + 3*(hi-lo), (lo + hi) / 2,
			(s[0] + s[j]) / 2, (s[n-1-j] + s[n-1]) / 2, (s[n-1-j]+s[n-1])/2 + 1.0/64}
		for _, span := range []float64{base, math.Nextafter(base, 0), math.Nextafter(base, 2)} {
			emit(c15Case{Op: 2, Xs: toF64s(xs), Ys: toF64s(ys), Deg: deg, Span: F64(span), Qs: toF64s(qs)})
		}
	}
}

func init() { register(&Prop{ID: "C15", Num: 15, Gen: c15Gen, Run: c15Run}) }

package main

import (
	"encoding/json"
	"fmt"
	"math"
	"math/big"
	"math/rand"
	"sort"

	"github.com/aclements/go-moremath/scale"
)

// C16: Linear / Log scales, NewLog, QQ.  Line formats: see coq/Check/C16.v.

type c16Scale struct {
	Kind  int  `json:"kind"` // 0 Linear, 1 Log
	Min   F64  `json:"min"`
	Max   F64  `json:"max"`
	Clamp bool `json:"clamp,omitempty"`
	Hint  int  `json:"hint,omitempty"` // integer whose powers have closed forms in the model; also the Base field
	// Via > 0: the scale is first built (and used once) with a DIFFERENT domain and the exported
	// Min/Max fields are then assigned (history: construct, use, re-domain, use). The scale the
	// property talks about is the one the fields describe at the time of the call.
	Via int `json:"via,omitempty"`
}

type c16Case struct {
	K int `json:"k"` // 0 NewLog, 1 one scale, 2 QQ
	// K == 0
	Min  F64 `json:"min,omitempty"`
	Max  F64 `json:"max,omitempty"`
	Base int `json:"base,omitempty"`
	// K == 1
	S     *c16Scale `json:"s,omitempty"`
	R     F64       `json:"r,omitempty"`
	Xs    []F64     `json:"xs,omitempty"`
	Grid  []F64     `json:"grid,omitempty"`
	Ys    []F64     `json:"ys,omitempty"`
	YGrid []F64     `json:"ygrid,omitempty"`
	// K == 2
	Src *c16Scale `json:"src,omitempty"`
	Dst *c16Scale `json:"dst,omitempty"`
	// Same: QQ.Src and QQ.Dest are THE VERY SAME scale object (one pointer); Dst is ignored and
	// described as Src on the line.  The property still reads Dest.Unmap(Src.Map(x)): not the
	// identity under Clamp outside the domain, for a Log scale at zero / wrong-sign x (NaN), for a
	// degenerate domain.
	Same bool `json:"same,omitempty"`
}

func finite(x float64) bool { return !math.IsNaN(x) && !math.IsInf(x, 0) }

// c16Make builds the scale the case describes through the public API: NewLog where
// NewLog can produce it (Min <= Max), a keyed literal for reversed Log domains.
func c16Make(s *c16Scale) (scale.Quantitative, error) {
	mn, mx := float64(s.Min), float64(s.Max)
	if !finite(mn) || !finite(mx) {
		return nil, fmt.Errorf("non-finite domain")
	}
	switch s.Kind {
	case 0:
		b := s.Hint
		if b < 2 {
			b = 0
		}
		if s.Via > 0 {
			l := &scale.Linear{Min: mn - 3, Max: mx*2 + 5, Base: b}
			_ = l.Map(mn)
			_ = l.Unmap(0.25)
			l.Min, l.Max = mn, mx
			l.SetClamp(s.Clamp)
			return l, nil
		}
		return &scale.Linear{Min: mn, Max: mx, Base: b, Clamp: s.Clamp}, nil
	case 1:
		if !(mn*mx > 0) || mn == 0 || mx == 0 || (mn < 0) != (mx < 0) {
			return nil, fmt.Errorf("log domain must not include 0")
		}
		b := s.Hint
		if b < 2 {
			b = 10
		}
		if s.Via > 0 {
			// same sign as the target domain, different ends
			o1, o2 := mn*3, mn*48
			if o1 > o2 {
				o1, o2 = o2, o1
			}
			l, err := scale.NewLog(o1, o2, b)
			if err != nil {
				return nil, fmt.Errorf("NewLog rejected a valid domain: %v", err)
			}
			_ = l.Map(o1)
			_ = l.Unmap(0.25)
			l.Min, l.Max = mn, mx
			l.SetClamp(s.Clamp)
			return &l, nil
		}
		if mn <= mx {
			l, err := scale.NewLog(mn, mx, b)
			if err != nil {
				return nil, fmt.Errorf("NewLog rejected a valid domain: %v", err)
			}
			if l.Min != mn || l.Max != mx || l.Base != b {
				return nil, fmt.Errorf("NewLog changed its arguments")
			}
			l.Clamp = s.Clamp
			return &l, nil
		}
		return &scale.Log{Min: mn, Max: mx, Base: b, Clamp: s.Clamp}, nil
	}
	return nil, fmt.Errorf("bad scale kind")
}

func (l *Line) c16Scale(s *c16Scale, withClamp bool) {
	l.I(s.Kind).F(float64(s.Min)).F(float64(s.Max))
	if withClamp {
		l.B(s.Clamp)
	}
	l.I(s.Hint)
}

// exactMul reports whether x*r is computed without rounding.
func exactMul(x, r float64) bool {
	p := x * r
	if !finite(p) {
		return false
	}
	bx, br := new(big.Float).SetPrec(200).SetFloat64(x), new(big.Float).SetPrec(200).SetFloat64(r)
	return new(big.Float).SetPrec(200).Mul(bx, br).Cmp(new(big.Float).SetPrec(200).SetFloat64(p)) == 0
}

func c16Run(raw []byte) (*Line, error) {
	var c c16Case
	if err := json.Unmarshal(raw, &c); err != nil {
		return nil, err
	}
	l := &Line{}
	l.I(16).I(c.K)
	switch c.K {
	case 0:
		var res scale.Log
		var err error
		pan, _ := catch(func() { res, err = scale.NewLog(float64(c.Min), float64(c.Max), c.Base) })
		st := 0
		if pan {
			st = 3
		} else if err != nil {
			if _, ok := err.(scale.RangeErr); ok {
				st = 1
			} else {
				st = 2
			}
		}
		l.F(float64(c.Min)).F(float64(c.Max)).I(c.Base).I(st).F(res.Min).F(res.Max).I(res.Base)
		return l, nil
	case 1:
		if c.S == nil {
			return nil, fmt.Errorf("no scale")
		}
		for _, v := range [][]F64{c.Xs, c.Grid, c.Ys, c.YGrid} {
			for _, x := range v {
				if !finite(float64(x)) {
					return nil, fmt.Errorf("non-finite probe")
				}
			}
		}
		if !sort.SliceIsSorted(c.Grid, func(i, j int) bool { return c.Grid[i] < c.Grid[j] }) ||
			!sort.SliceIsSorted(c.YGrid, func(i, j int) bool { return c.YGrid[i] < c.YGrid[j] }) {
			return nil, fmt.Errorf("grid not ascending")
		}
		s, err := c16Make(c.S)
		if err != nil {
			return nil, err
		}
		r := float64(c.R)
		if !finite(r) || r < 0 {
			return nil, fmt.Errorf("bad ratio")
		}
		for _, x := range c.Xs {
			if r != 0 && !exactMul(float64(x), r) {
				r = 0 // the shift law needs x*r exactly
			}
		}
		l.c16Scale(c.S, false)
		l.F(r)
		l.I(len(c.Xs))
		for _, xx := range c.Xs {
			x := float64(xx)
			x2 := x
			if r != 0 {
				x2 = x * r
			}
			s.SetClamp(false)
			m0 := s.Map(x)
			m02 := s.Map(x2)
			ux := s.Unmap(m0)
			s.SetClamp(true)
			m1 := s.Map(x)
			s.SetClamp(false)
			l.F(x).F(x2).F(m0).F(m1).F(m02).F(ux)
		}
		l.I(len(c.Grid))
		for _, x := range c.Grid {
			l.F(float64(x)).F(s.Map(float64(x)))
		}
		l.I(len(c.Ys))
		for _, y := range c.Ys {
			u := s.Unmap(float64(y))
			l.F(float64(y)).F(u).F(s.Map(u))
		}
		l.I(len(c.YGrid))
		for _, y := range c.YGrid {
			l.F(float64(y)).F(s.Unmap(float64(y)))
		}
		return l, nil
	case 2:
		if c.Same && c.Src != nil {
			d := *c.Src
			c.Dst = &d
		}
		if c.Src == nil || c.Dst == nil {
			return nil, fmt.Errorf("no scales")
		}
		for _, v := range [][]F64{c.Xs, c.Ys} {
			for _, x := range v {
				if !finite(float64(x)) {
					return nil, fmt.Errorf("non-finite probe")
				}
			}
		}
		src, err := c16Make(c.Src)
		if err != nil {
			return nil, err
		}
		dst, err := c16Make(c.Dst)
		if err != nil {
			return nil, err
		}
		if c.Same {
			dst = src
		}
		q := scale.QQ{Src: src, Dest: dst}
		l.c16Scale(c.Src, true)
		l.c16Scale(c.Dst, true)
		l.I(len(c.Xs))
		for _, xx := range c.Xs {
			x := float64(xx)
			sm := src.Map(x)
			du := dst.Unmap(sm)
			qm := q.Map(x)
			l.F(x).F(sm).F(du).F(qm).F(q.Unmap(qm))
		}
		l.I(len(c.Ys))
		for _, yy := range c.Ys {
			y := float64(yy)
			dm := dst.Map(y)
			su := src.Unmap(dm)
			qu := q.Unmap(y)
			l.F(y).F(dm).F(su).F(qu).F(q.Map(qu))
		}
		return l, nil
	}
	return nil, fmt.Errorf("bad kind")
}

// ---------- generators ----------

// powExact returns b^k when it is exactly representable as a float64.
func powExact(b, k int) (float64, bool) {
	n := new(big.Int).Exp(big.NewInt(int64(b)), big.NewInt(int64(abs(k))), nil)
	r := new(big.Rat).SetInt(n)
	if k < 0 {
		r.Inv(r)
	}
	f, exact := r.Float64()
	if !exact || !finite(f) || f == 0 {
		return 0, false
	}
	return f, true
}
func abs(k int) int {
	if k < 0 {
		return -k
	}
	return k
}

// exponent window of base b inside which powers are exact and within [1e-12,1e12]
func c16ExpRange(b int) (lo, hi int) {
	for hi = 0; ; hi++ {
		if f, ok := powExact(b, hi+1); !ok || f > 1e12 {
			break
		}
	}
	for lo = 0; ; lo-- {
		if f, ok := powExact(b, lo-1); !ok || f < 1e-12 {
			break
		}
	}
	return
}

func logUniform(rng *rand.Rand, lo, hi float64) float64 {
	return math.Exp(math.Log(lo) + rng.Float64()*(math.Log(hi)-math.Log(lo)))
}

// a random domain end with |v| in [1e-12,1e12]; mostly short mantissas
func c16End(rng *rand.Rand) float64 {
	var v float64
	switch rng.Intn(4) {
	case 0:
		v = float64(1 + rng.Intn(1000))
	case 1:
		v = float64(1+rng.Intn(1<<12)) / 64
	case 2:
		v = math.Ldexp(float64(1+rng.Intn(1<<10)), rng.Intn(60)-40)
	default:
		v = logUniform(rng, 1e-12, 1e12)
	}
	if v < 1e-12 {
		v = 1e-12
	}
	if v > 1e12 {
		v = 1e12
	}
	return v
}

func c16Ys(rng *rand.Rand, n int, den int) []F64 {
	ys := []F64{0, 1, 0.5}
	for i := 0; i < n; i++ {
		switch rng.Intn(4) {
		case 0:
			ys = append(ys, F64(float64(rng.Intn(161)-80)/16))
		case 1:
			ys = append(ys, F64(rng.Float64()*10-5))
		case 2:
			ys = append(ys, F64(rng.Float64()))
		default:
			if den != 0 {
				ys = append(ys, F64(float64(rng.Intn(10*abs(den)+1)-5*abs(den))/float64(den)))
			} else {
				ys = append(ys, F64(float64(rng.Intn(11)-5)))
			}
		}
	}
	return ys
}

var c16YGrid = func() []F64 {
	var g []F64
	for i := -8; i <= 8; i++ {
		g = append(g, F64(float64(i)*0.625))
	}
	return g
}()

func sortedF(xs []float64) []F64 {
	sort.Float64s(xs)
	var r []F64
	for i, x := range xs {
		if i == 0 || x != xs[i-1] {
			r = append(r, F64(x))
		}
	}
	return r
}

func c16LinearCase(rng *rand.Rand) c16Case {
	var mn, mx float64
	switch rng.Intn(8) {
	case 0: // small integers, possibly equal (degenerate)
		mn, mx = float64(rng.Intn(21)-10), float64(rng.Intn(21)-10)
	case 1: // degenerate
		mn = c16End(rng)
		mx = mn
	case 2: // narrow domain far from the origin
		mn = c16End(rng)
		mx = mn * (1 + float64(1+rng.Intn(64))/1024)
	default:
		mn, mx = c16End(rng), c16End(rng)
	}
	if rng.Intn(2) == 0 {
		mn = -mn
	}
	if rng.Intn(2) == 0 {
		mx = -mx
	}
	if rng.Intn(2) == 0 {
		mn, mx = mx, mn
	}
	w := mx - mn
	xs := []F64{F64(mn), F64(mx), F64((mn + mx) / 2), 0}
	for i := 0; i < 6; i++ {
		var t float64
		switch rng.Intn(4) {
		case 0:
			t = rng.Float64()
		case 1:
			t = float64(rng.Intn(33)-8) / 16
		case 2:
			t = (rng.Float64()*2 - 1) * 100
		default:
			t = float64(rng.Intn(201) - 100)
		}
		xs = append(xs, F64(mn+t*w))
	}
	var grid []float64
	for i := -4; i <= 12; i++ {
		grid = append(grid, mn+float64(i)/8*w)
	}
	return c16Case{K: 1, S: &c16Scale{Kind: 0, Min: F64(mn), Max: F64(mx)}, Xs: xs, Grid: sortedF(grid),
		Ys: c16Ys(rng, 6, 0), YGrid: c16YGrid}
}

var c16Bases = []int{2, 3, 4, 5, 8, 10, 16}

// a Log domain whose ends (and most probes) are exact powers of b
func c16LogExactCase(rng *rand.Rand) c16Case {
	b := c16Bases[rng.Intn(len(c16Bases))]
	lo, hi := c16ExpRange(b)
	i := lo + rng.Intn(hi-lo+1)
	j := lo + rng.Intn(hi-lo+1)
	if rng.Intn(12) != 0 {
		for j == i {
			j = lo + rng.Intn(hi-lo+1)
		}
	}
	if rng.Intn(3) == 0 && i+1 <= hi { // one decade
		j = i + 1
	}
	sgn := 1.0
	if rng.Intn(2) == 0 {
		sgn = -1
	}
	mn, _ := powExact(b, i)
	mx, _ := powExact(b, j)
	mn, mx = sgn*mn, sgn*mx
	xs := []F64{F64(mn), F64(mx), 0, F64(-mn), F64(-mx / 2)}
	a, z := i, j
	if a > z {
		a, z = z, a
	}
	for n := 0; n < 7; n++ {
		k := a - 3 + rng.Intn(z-a+7)
		if rng.Intn(5) == 0 {
			k = lo*3 + rng.Intn(3*(hi-lo)+1) // far outside the domain
		}
		if f, ok := powExact(b, k); ok {
			xs = append(xs, F64(sgn*f))
		} else {
			xs = append(xs, F64(sgn*math.Pow(float64(b), float64(k))))
		}
	}
	xs = append(xs, F64(sgn*float64(1+rng.Intn(1000))/8)) // not a power
	r := float64(b)
	switch rng.Intn(3) {
	case 0:
		r = float64(b * b)
	case 1:
		r = 2
	}
	var grid []float64
	for k := a - 2; k <= z+2; k++ {
		if f, ok := powExact(b, k); ok {
			grid = append(grid, sgn*f, sgn*f*1.5)
		}
	}
	if len(grid) > 40 {
		grid = grid[:40]
	}
	return c16Case{K: 1, S: &c16Scale{Kind: 1, Min: F64(mn), Max: F64(mx), Hint: b}, R: F64(r), Xs: xs, Grid: sortedF(grid),
		Ys: c16Ys(rng, 8, j-i), YGrid: c16YGrid}
}

// a general Log domain
func c16LogEnds(rng *rand.Rand) (mn, mx float64) {
	mn = c16End(rng)
	switch rng.Intn(6) {
	case 0: // narrow
		mx = mn * (1 + float64(1+rng.Intn(255))/256)
	case 1: // degenerate
		mx = mn
	case 2: // very narrow: ln max - ln min ~ 1e-3..1e-5
		mx = mn * (1 + math.Ldexp(float64(1+rng.Intn(16)), -20))
	default:
		mx = c16End(rng)
	}
	if mx > 1e12 {
		mx = 1e12
	}
	if rng.Intn(2) == 0 {
		mn, mx = -mn, -mx
	}
	if rng.Intn(2) == 0 {
		mn, mx = mx, mn
	}
	return
}

func c16LogCase(rng *rand.Rand) c16Case {
	mn, mx := c16LogEnds(rng)
	sgn := 1.0
	if mn < 0 {
		sgn = -1
	}
	a, z := math.Abs(mn), math.Abs(mx)
	if a > z {
		a, z = z, a
	}
	w := z - a
	xs := []F64{F64(mn), F64(mx), 0, F64(-mn)}
	for n := 0; n < 6; n++ {
		var x float64
		switch rng.Intn(4) {
		case 0: // inside
			x = a + rng.Float64()*w
		case 1: // within 100 widths above
			x = z + rng.Float64()*100*w + z*rng.Float64()
		case 2: // below, down to tiny
			x = a * math.Ldexp(1, -rng.Intn(40))
		default:
			x = logUniform(rng, a/4, z*4)
		}
		if rng.Intn(2) == 0 { // short mantissa
			x = float64(float32(x))
		}
		if x <= 0 || !finite(x) {
			x = a
		}
		xs = append(xs, F64(sgn*x))
	}
	xs = append(xs, F64(-sgn*z*2))
	r := []float64{2, 0.5, 4, 8}[rng.Intn(4)]
	var grid []float64
	step := math.Pow(16*z/a, 1.0/14)
	if step < 1.00001 {
		step = 1.00001
	}
	x := a / 4
	for n := 0; n < 15; n++ {
		grid = append(grid, sgn*x)
		x *= step
	}
	return c16Case{K: 1, S: &c16Scale{Kind: 1, Min: F64(mn), Max: F64(mx), Hint: 10}, R: F64(r), Xs: xs, Grid: sortedF(grid),
		Ys: c16Ys(rng, 6, 0), YGrid: c16YGrid}
}

// probes for a QQ side: values in and around the domain of s
func c16QQProbes(rng *rand.Rand, s *c16Scale, n int) []F64 {
	mn, mx := float64(s.Min), float64(s.Max)
	xs := []F64{F64(mn), F64(mx)}
	if s.Kind == 0 {
		w := mx - mn
		xs = append(xs, F64((mn+mx)/2))
		for i := 0; i < n; i++ {
			t := float64(rng.Intn(49)-16) / 16
			if rng.Intn(3) == 0 {
				t = rng.Float64()*3 - 1
			}
			xs = append(xs, F64(mn+t*w))
		}
		return xs
	}
	sgn := 1.0
	if mn < 0 {
		sgn = -1
	}
	a, z := math.Abs(mn), math.Abs(mx)
	if a > z {
		a, z = z, a
	}
	if s.Hint >= 2 {
		for i := 0; i < n; i++ {
			k := int(math.Round(math.Log(a)/math.Log(float64(s.Hint)))) - 2 + rng.Intn(int(math.Round(math.Log(z/a)/math.Log(float64(s.Hint))))+5)
			if f, ok := powExact(s.Hint, k); ok {
				xs = append(xs, F64(sgn*f))
			}
		}
	}
	for i := 0; i < n/2+1; i++ {
		xs = append(xs, F64(sgn*logUniform(rng, a/2, z*2)))
	}
	xs = append(xs, 0, F64(-mn))
	return xs
}

func c16QQScale(rng *rand.Rand, kind int) *c16Scale {
	clamp := rng.Intn(3) == 0
	if kind == 0 {
		c := c16LinearCase(rng)
		if rng.Intn(3) > 0 { // small-integer domains: exact composites stay small
			c.S.Min, c.S.Max = F64(rng.Intn(41)-20), F64(rng.Intn(41)-20)
		}
		c.S.Clamp = clamp
		return c.S
	}
	var c c16Case
	if rng.Intn(3) > 0 {
		c = c16LogExactCase(rng)
	} else {
		c = c16LogCase(rng)
		c.S.Hint = 10
	}
	c.S.Clamp = clamp
	return c.S
}

// c16Via marks about a third of the scales of generated cases as built through the
// construct / use / re-domain history.
func c16Via(c interface{}, rng *rand.Rand) interface{} {
	cc, ok := c.(c16Case)
	if !ok {
		return c
	}
	mark := func(s *c16Scale) {
		if s != nil && rng.Intn(3) == 0 && finite(float64(s.Min)*48) {
			s.Via = 1
		}
	}
	mark(cc.S)
	mark(cc.Src)
	mark(cc.Dst)
	return cc
}

func c16Gen(tier string, rng *rand.Rand, emit0 func(interface{})) {
	vrng := rand.New(rand.NewSource(rng.Int63()))
	emit := func(c interface{}) { emit0(c16Via(c, vrng)) }
	thorough := tier == "thorough"
	// (a) NewLog: every combination of boundary arguments, then random ones
	ends := []float64{math.Inf(-1), -100, -1, -1e-12, math.Copysign(0, -1), 0, 1e-12, 1, 100, math.Inf(1), math.NaN(), 5e-324, -5e-324}
	for _, mn := range ends {
		for _, mx := range ends {
			for _, b := range []int{-3, 0, 1, 2, 3, 10} {
				emit(c16Case{K: 0, Min: F64(mn), Max: F64(mx), Base: b})
			}
		}
	}
	n := 200
	if thorough {
		n = 5000
	}
	for i := 0; i < n; i++ {
		mn, mx := c16End(rng), c16End(rng)
		if rng.Intn(2) == 0 {
			mn = -mn
		}
		if rng.Intn(2) == 0 {
			mx = -mx
		}
		if rng.Intn(10) == 0 {
			mx = mn
		}
		emit(c16Case{K: 0, Min: F64(mn), Max: F64(mx), Base: rng.Intn(20) - 3})
	}
	// (b) single scales
	nl, ne, ng, nq := 1500, 1500, 1500, 400
	if thorough {
		nl, ne, ng, nq = 30000, 30000, 30000, 8000
	}
	for i := 0; i < nl; i++ {
		emit(c16LinearCase(rng))
	}
	for i := 0; i < ne; i++ {
		emit(c16LogExactCase(rng))
	}
	for i := 0; i < ng; i++ {
		emit(c16LogCase(rng))
	}
	// (c) QQ: every pairing of Linear and Log as source and destination
	for sk := 0; sk < 2; sk++ {
		for dk := 0; dk < 2; dk++ {
			for i := 0; i < nq; i++ {
				src, dst := c16QQScale(rng, sk), c16QQScale(rng, dk)
				emit(c16Case{K: 2, Src: src, Dst: dst, Xs: c16QQProbes(rng, src, 6), Ys: c16QQProbes(rng, dst, 6)})
			}
		}
	}
	// (d) QQ whose Src and Dest are the very same scale object (one pointer): Linear and Log,
	// Clamp on / off, as generated / degenerate / reversed domain (Log: negative domains come from
	// the generators), probes at the ends, inside, up to one width outside, zero and the wrong sign.
	// Expected by the model: Dest.Unmap(Src.Map(x)) - NOT the identity outside a clamped domain,
	// NaN for a Log scale at zero / wrong-sign x, Min for a degenerate domain.
	ns := 120
	if thorough {
		ns = 2500
	}
	for kind := 0; kind < 2; kind++ {
		for i := 0; i < ns; i++ {
			s := c16QQScale(rng, kind)
			s.Clamp = i%2 == 0
			switch i % 6 {
			case 3:
				s.Max = s.Min // degenerate
			case 4, 5:
				s.Min, s.Max = s.Max, s.Min // reversed (or back to ascending)
			}
			d := *s
			emit(c16Case{K: 2, Same: true, Src: s, Dst: &d, Xs: c16QQProbes(rng, s, 6), Ys: c16QQProbes(rng, s, 6)})
		}
	}
}

func init() { register(&Prop{ID: "C16", Num: 16, Gen: c16Gen, Run: c16Run}) }

package main

import (
	"encoding/json"
	"fmt"
	"math"
	"math/rand"
	"time"

	"github.com/aclements/go-moremath/scale"
)

// C17: FindLevel, Linear and Log ticks, Nice.  Line formats: see coq/Check/C17.v.

type c17Opts struct {
	Max      int `json:"max"`
	MinLevel int `json:"minlevel,omitempty"`
	MaxLevel int `json:"maxlevel,omitempty"`
}

type c17Case struct {
	K int     `json:"k"` // 0 FindLevel, 1 Linear, 2 Log
	O c17Opts `json:"o"`
	// K == 0: count(l) = Left for l < WLo, Vs[l-WLo] inside the window, Right above it
	Guess int   `json:"guess,omitempty"`
	WLo   int   `json:"wlo,omitempty"`
	Vs    []int `json:"vs,omitempty"`
	Left  int   `json:"left,omitempty"`
	Right int   `json:"right,omitempty"`
	// K == 1, 2
	Base   int   `json:"base,omitempty"`
	Min    F64   `json:"min,omitempty"`
	Max    F64   `json:"max,omitempty"`
	Levels []int `json:"levels,omitempty"`
	Hist   int   `json:"hist,omitempty"` // history on the scale object before the observed calls
	// options for Nice and for the calls after it; nil = the same as O
	NO *c17Opts `json:"no,omitempty"`
}

type c17Ticker struct {
	wlo         int
	vs          []int
	left, right int
}

func (t *c17Ticker) CountTicks(l int) int {
	if l < t.wlo {
		return t.left
	}
	if l-t.wlo >= len(t.vs) {
		return t.right
	}
	return t.vs[l-t.wlo]
}
func (t *c17Ticker) TicksAtLevel(l int) interface{} { return []float64{} }

func st(pan bool) int {
	if pan {
		return 2
	}
	return 0
}

func c17Run(raw []byte) (*Line, error) {
	var c c17Case
	if err := json.Unmarshal(raw, &c); err != nil {
		return nil, err
	}
	l := &Line{}
	l.I(17).I(c.K)
	o := scale.TickOptions{Max: c.O.Max, MinLevel: c.O.MinLevel, MaxLevel: c.O.MaxLevel}
	switch c.K {
	case 0:
		if len(c.Vs) > 64 {
			return nil, fmt.Errorf("window too wide")
		}
		t := &c17Ticker{c.WLo, c.Vs, c.Left, c.Right}
		var lev int
		var ok bool
		if pan, _ := catch(func() { lev, ok = o.FindLevel(t, c.Guess) }); pan {
			lev, ok = -999999, false
		}
		l.I(c.O.Max).I(c.O.MinLevel).I(c.O.MaxLevel).I(c.Guess).I(c.WLo).Is(c.Vs).I(c.Left).I(c.Right).B(ok).I(lev)
		return l, nil
	case 1, 2:
		mn, mx := float64(c.Min), float64(c.Max)
		if !finite(mn) || !finite(mx) {
			return nil, fmt.Errorf("non-finite domain")
		}
		if len(c.Levels) > 32 {
			return nil, fmt.Errorf("too many levels")
		}
		l.I(c.Base).F(mn).F(mx).I(c.O.Max).I(c.O.MinLevel).I(c.O.MaxLevel)
		// ONE scale object goes through the whole case: an optional history (Hist) of other
		// calls and of assignments to the exported fields first, then the observed calls, so
		// that state cached behind the exported fields would show.
		//   Hist 0: constructed with the target domain, used at once
		//   Hist 1: constructed with another domain and base, used (Ticks, Nice, CountTicks),
		//           then Min, Max, Base assigned
		//   Hist 2: SetClamp(true), Map, Ticks with other options, CountTicks, SetClamp(false)
		//   Hist 3: Ticks twice with other options, TicksAtLevel, then the observed calls
		//   Hist 4: constructed with the target domain but ANOTHER base, used with the observed
		//           options (Ticks, CountTicks, TicksAtLevel), then only Base assigned
		//   Hist 5: constructed with the target, Ticks(o), Min/Max assigned to another domain,
		//           Ticks(o), Min/Max assigned back (a result remembered per options would show)
		var ticksO func(o scale.TickOptions) ([]float64, []float64)
		var count func(level int) int
		var at func(level int) []float64
		var niceO func(o scale.TickOptions) (float64, float64) // Nice(o) on the object; returns the new bounds
		var mapf func(x float64) float64
		var setClamp func(bool)
		var assign func(mn, mx float64, base int)
		imn, imx, ibase := mn, mx, c.Base
		if c.Hist == 1 {
			imn, imx, ibase = 1, 1000, 10
			if c.K == 2 && mn < 0 {
				imn, imx = 3, 5e6
			}
			if c.Base == 10 {
				ibase = 2
			}
		}
		if c.Hist == 4 {
			ibase = 10
			if c.Base == 10 || c.Base == 0 {
				ibase = 2
			}
		}
		if c.K == 1 {
			if mn > mx && len(c.Levels) > 0 {
				return nil, fmt.Errorf("per-level observations need an ordered domain")
			}
			s := &scale.Linear{Min: imn, Max: imx, Base: ibase}
			ticksO = func(o scale.TickOptions) ([]float64, []float64) { return s.Ticks(o) }
			count = func(level int) int { return s.CountTicks(level) }
			at = func(level int) []float64 { return s.TicksAtLevel(level).([]float64) }
			niceO = func(o scale.TickOptions) (float64, float64) { s.Nice(o); return s.Min, s.Max }
			mapf = func(x float64) float64 { return s.Map(x) }
			setClamp = func(b bool) { s.SetClamp(b) }
			assign = func(a, b float64, base int) { s.Min, s.Max, s.Base = a, b, base }
		} else {
			if !(mn <= mx) || !(mn*mx > 0) || c.Base < 2 {
				return nil, fmt.Errorf("not a Log scale NewLog returns")
			}
			lg, err := scale.NewLog(imn, imx, ibase)
			if err != nil {
				return nil, fmt.Errorf("NewLog: %v", err)
			}
			s := &lg
			ticksO = func(o scale.TickOptions) ([]float64, []float64) { return s.Ticks(o) }
			count = func(level int) int { return s.CountTicks(level) }
			at = func(level int) []float64 { return s.TicksAtLevel(level).([]float64) }
			niceO = func(o scale.TickOptions) (float64, float64) { s.Nice(o); return s.Min, s.Max }
			mapf = func(x float64) float64 { return s.Map(x) }
			setClamp = func(b bool) { s.SetClamp(b) }
			assign = func(a, b float64, base int) { s.Min, s.Max, s.Base = a, b, base }
		}
		// a level for the TicksAtLevel calls of the histories whose spacing is at least the width of
		// the domain the object holds at that moment (at most two ticks: a fixed level such as 1 or 3
		// means 1e9 ticks = 8 GB on a domain of width 1e9)
		histLevel := func(a, b float64, base int) int {
			if c.K == 2 {
				return 3
			}
			if base == 0 {
				base = 10
			}
			w := math.Abs(b - a)
			if base < 2 || !(w > 0) || math.IsInf(w, 0) {
				return 0
			}
			return 2 * int(math.Ceil(math.Log(w)/math.Log(float64(base))))
		}
		// history calls at FIXED levels must not materialise millions of ticks on a wide domain (a 1e9-wide
		// domain at level 1 is 8 GB of ticks: on a machine with less memory that thrashes into the per-case
		// time limit and is reported as a hang of the library, which it is not): only list what CountTicks
		// says is small
		atSmall := func(level int) {
			if n := count(level); n >= 0 && n <= 20000 {
				at(level)
			}
		}
		o2 := scale.TickOptions{Max: c.O.Max + 3}
		if o2.Max < 1 {
			o2.Max = 4
		}
		switch c.Hist {
		case 1:
			catch(func() { ticksO(o2); niceO(o2); count(1); atSmall(2); ticksO(o) })
			assign(mn, mx, c.Base)
		case 2:
			catch(func() { setClamp(true); mapf(mn); mapf(mx * 2); ticksO(o2); count(2) })
			setClamp(false)
		case 3:
			catch(func() { ticksO(o2); ticksO(scale.TickOptions{Max: 1}); atSmall(histLevel(mn, mx, c.Base)) })
		case 4:
			catch(func() { ticksO(o); count(0); atSmall(histLevel(mn, mx, ibase)) })
			assign(mn, mx, c.Base)
		case 5:
			catch(func() { ticksO(o) })
			if c.K == 2 && mn < 0 {
				assign(-7e4, -0.3, c.Base)
			} else {
				assign(0.3, 7e4, c.Base)
			}
			catch(func() { ticksO(o) })
			assign(mn, mx, c.Base)
		}
		on := o
		if c.NO != nil {
			on = scale.TickOptions{Max: c.NO.Max, MinLevel: c.NO.MinLevel, MaxLevel: c.NO.MaxLevel}
		}
		ticks := func() ([]float64, []float64) { return ticksO(o) }
		ticksN := func() ([]float64, []float64) { return ticksO(on) }
		nice := func() (float64, float64) { return niceO(on) }
		var major, minor []float64
		pan, _ := catch(func() { major, minor = ticks() })
		// a result of more than 50000 ticks is reported as status 4 with the first 16 elements
		// (never accepted by the comparator: Max <= 20 in every generated case; the level below
		// the chosen one has at most Max * Base^2 ticks)
		tooLong := func(x []float64) bool { return len(x) > 50000 }
		cut := func(x []float64) []float64 {
			if tooLong(x) {
				return x[:16]
			}
			return x
		}
		stT := st(pan)
		if !pan && (tooLong(major) || tooLong(minor)) {
			stT = 4
		}
		l.I(stT).Fs(cut(major)).Fs(cut(minor))
		l.I(len(c.Levels))
		for _, lev := range c.Levels {
			var n int
			var t []float64
			// TicksAtLevel is not called where CountTicks reports more than 2000 ticks (far below
			// the natural level a tick list of 1e19 elements cannot exist): status 3
			skipped := false
			pan, _ := catch(func() {
				n = count(lev)
				if c.K == 1 && (n > 2000 || n < 0) {
					skipped = true
					return
				}
				t = at(lev)
			})
			status := st(pan)
			if skipped && !pan {
				status = 3
			} else if !pan && tooLong(t) {
				status, t = 4, t[:16]
			}
			l.I(lev).I(n).I(status).Fs(t)
		}
		l.I(on.Max).I(on.MinLevel).I(on.MaxLevel)
		var a, b float64
		pan, _ = catch(func() { a, b = nice() })
		l.I(st(pan)).F(a).F(b)
		// after Nice, on the same object: Map of the new bounds, Ticks, then Nice again
		var m0, m1 float64
		catch(func() { m0, m1 = mapf(a), mapf(b) })
		l.F(m0).F(m1)
		var major3 []float64
		pan3, _ := catch(func() { major3, _ = ticksN() })
		pan, _ = catch(func() { a, b = nice() })
		l.I(st(pan)).F(a).F(b)
		st3 := st(pan3)
		if !pan3 && tooLong(major3) {
			st3, major3 = 4, major3[:16]
		}
		l.I(st3).Fs(major3)
		return l, nil
	}
	return nil, fmt.Errorf("bad kind")
}

// ---------- generators ----------

// all non-increasing sequences of length n with values in [0, vmax]
func nonIncreasing(n, vmax int, emit func([]int)) {
	cur := make([]int, n)
	var rec func(i, hi int)
	rec = func(i, hi int) {
		if i == n {
			emit(append([]int{}, cur...))
			return
		}
		for v := hi; v >= 0; v-- {
			cur[i] = v
			rec(i+1, v)
		}
	}
	rec(0, vmax)
}

func c17GenFindLevel(thorough bool, rng *rand.Rand, emit func(interface{})) {
	widths, vmax, wlos := []int{5}, 4, []int{-2}
	if thorough {
		widths, vmax, wlos = []int{1, 3, 6, 8}, 5, []int{-3, 2}
	}
	for _, n := range widths {
		for _, wlo := range wlos {
			limits := [][2]int{{0, 0}, {wlo + 1, wlo + n - 2}, {wlo - 1, wlo + n}, {wlo + 2, wlo + 2}, {wlo + 3, wlo + 1}, {wlo - 5, wlo - 3}, {wlo + n + 1, wlo + n + 4}, {0, wlo + n - 1}, {wlo, 0}}
			nonIncreasing(n, vmax, func(vs []int) {
				for _, lim := range limits {
					for mx := 0; mx <= vmax; mx++ {
						for g := wlo - 3; g <= wlo+n+2; g++ {
							left, right := vs[0], vs[n-1]
							if (g+mx)%3 == 0 {
								left = vs[0] + 1
							}
							emit(c17Case{K: 0, O: c17Opts{mx, lim[0], lim[1]}, Guess: g, WLo: wlo, Vs: vs, Left: left, Right: right})
						}
					}
				}
			})
		}
	}
	// far guesses, windows near the default limits +-1000, and arbitrary (non-monotone) tables
	n := 600
	if thorough {
		n = 20000
	}
	for i := 0; i < n; i++ {
		w := 1 + rng.Intn(8)
		vs := make([]int, w)
		mono := rng.Intn(2) == 0
		v := rng.Intn(8)
		for j := range vs {
			if mono {
				if v > 0 && rng.Intn(2) == 0 {
					v -= 1 + rng.Intn(v)
				}
			} else {
				v = rng.Intn(8)
			}
			vs[j] = v
		}
		wlo := rng.Intn(21) - 10
		switch rng.Intn(6) {
		case 0:
			wlo = 995 + rng.Intn(10)
		case 1:
			wlo = -1005 + rng.Intn(10)
		}
		left, right := vs[0], vs[w-1]
		if !mono {
			left, right = rng.Intn(8), rng.Intn(8)
		}
		g := wlo - 4 + rng.Intn(w+8)
		if rng.Intn(8) == 0 {
			g = rng.Intn(4001) - 2000
		}
		o := c17Opts{Max: rng.Intn(9) - 1}
		if rng.Intn(3) == 0 {
			o.MinLevel = wlo - 3 + rng.Intn(w+6)
			o.MaxLevel = o.MinLevel - 1 + rng.Intn(w+4)
		}
		emit(c17Case{K: 0, O: o, Guess: g, WLo: wlo, Vs: vs, Left: left, Right: right})
	}
}

var c17LinBases = []int{0, 0, 0, 2, 3, 5, 10, 16}

func c17Opt(rng *rand.Rand, nat int, span int) c17Opts {
	o := c17Opts{Max: 1 + rng.Intn(20)}
	if rng.Intn(3) == 0 {
		o.Max = 1 + rng.Intn(6)
	}
	if rng.Intn(10) < 3 {
		o.MinLevel = nat - span + rng.Intn(span+3)
		o.MaxLevel = o.MinLevel + rng.Intn(span+1)
		if o.MinLevel == 0 && o.MaxLevel == 0 {
			o.MaxLevel = 1
		}
	}
	return o
}

func c17LinearCase(rng *rand.Rand) c17Case {
	base := c17LinBases[rng.Intn(len(c17LinBases))]
	eb := base
	if eb == 0 {
		eb = 10
	}
	var mn, mx float64
	tickDelta := false
	switch rng.Intn(6) {
	case 5: // ends at a tick +- delta, delta on a log grid 1e-13..1e-6 of the width (the code's slack is
		// 1e-10 of the width), both sides, both ends, |centre|/width about 1, 30 or 1e3
		ratio := []float64{1, 30, 950}[rng.Intn(3)]
		j := rng.Intn(7) - 3
		u := math.Pow(float64(eb), float64(j))
		if base == 0 && rng.Intn(2) == 0 {
			u *= 5
		}
		m := 1 + rng.Intn(15)
		a := int(ratio * float64(m) * (0.45 + 0.5*rng.Float64()))
		if rng.Intn(2) == 0 {
			a = -a - m
		}
		w := float64(m) * u
		d := func() float64 {
			x := w * math.Pow(10, -13+7*rng.Float64())
			if rng.Intn(2) == 0 {
				x = -x
			}
			if rng.Intn(6) == 0 {
				x = 0
			}
			return x
		}
		mn, mx = float64(a)*u+d(), float64(a+m)*u+d()
		tickDelta = true
	case 0: // ends on small integers
		mn = float64(rng.Intn(41) - 20)
		mx = mn + float64(1+rng.Intn(40))
	case 1: // ends on tick values k * eb^j (or 5k * 10^j)
		j := rng.Intn(13) - 6
		u := math.Pow(float64(eb), float64(j))
		if base == 0 && rng.Intn(2) == 0 {
			u *= 5
		}
		a := rng.Intn(61) - 30
		mn = float64(a) * u
		mx = float64(a+1+rng.Intn(30)) * u
	case 2: // decimal fractions
		mn = float64(rng.Intn(2001)-1000) / 100
		mx = mn + float64(1+rng.Intn(1000))/100
		switch rng.Intn(6) { // one end exactly 0
		case 0:
			mn, mx = 0, mx-mn
		case 1:
			mn, mx = mn-mx, 0
		}
	default: // width 1e-9..1e9, |centre|/width <= 1e3
		w := logUniform(rng, 1e-9, 1e9)
		c := (rng.Float64()*2 - 1) * w * math.Pow(10, rng.Float64()*3)
		if rng.Intn(3) == 0 {
			c = (rng.Float64()*2 - 1) * w
		}
		mn, mx = c-w/2, c+w/2
		if rng.Intn(2) == 0 {
			mn, mx = float64(float32(mn)), float64(float32(mx))
		}
	}
	nearInt := rng.Intn(60) == 0
	if nearInt {
		// (end + slack)/spacing within rounding of an integer: min = 0, max = n/(1+1e-10) or mirrored
		// (exercises the admissible set of the Linear floor/ceil decisions)
		n := float64(1 + rng.Intn(60))
		if rng.Intn(3) == 0 {
			n *= math.Pow(float64(eb), float64(rng.Intn(5)-2))
		}
		mn, mx = 0, n/(1+1e-10)
		if rng.Intn(2) == 0 {
			mn, mx = -mx, 0
		}
	}
	if !(mn < mx) {
		mx = mn + 1
	}
	nat := 2 * int(math.Round(math.Log(mx-mn)/math.Log(float64(eb))))
	c := c17Case{K: 1, Base: base, O: c17Opt(rng, nat, 6)}
	if tickDelta && rng.Intn(4) != 0 {
		// enough ticks allowed that the chosen level has the two ends (nearly) on ticks
		c.O.Max = 16 + rng.Intn(5)
	}
	for lev := nat - 2; lev <= nat+3; lev++ {
		c.Levels = append(c.Levels, lev)
	}
	switch rng.Intn(20) {
	case 0: // reversed
		mn, mx = mx, mn
		c.Levels = nil
	case 1: // degenerate: Nice and Ticks widen it to [mn-0.5, mn+0.5], i.e. width 1, so the
		// property's domain |centre|/width <= 1e3 means |mn| <= 1e3 (beyond that the 1e-10 slack
		// is below the rounding error of the ends: thorough seed 1 produced Min = Max = 8389871,
		// base 5, whose niced Max 8389871.6 is not a float and falls just below its own tick)
		if math.Abs(mn) > 1e3 {
			mn = math.Mod(mn, 1e3)
		}
		mx = mn
		c.Levels = nil
	case 2:
		c.O.Max = rng.Intn(2) - 1
	case 3:
		c.Base = []int{1, -2}[rng.Intn(2)]
		c.Levels = nil
	}
	if rng.Intn(40) == 0 && c.Base != 1 && c.Base >= 0 {
		// level limits (and per-level observations) around the level where the spacing eb^(l/2)
		// (x5) overflows float64 (findings hI-c17-1, hI-c17-2)
		ov := 2 * int(math.Ceil(1024*math.Ln2/math.Log(float64(eb))))
		c.O.MinLevel = ov - 5 + rng.Intn(9)
		c.O.MaxLevel = c.O.MinLevel + rng.Intn(4)
		// Nice: only levels whose spacing has overflowed.  (At the last levels BEFORE that the
		// spacing is finite but the niced domain [-spacing, spacing] has an infinite width:
		// finding hI-c17-4, outside the property's domains.)
		if c.O.MinLevel < ov {
			c.NO = &c17Opts{Max: c.O.Max, MinLevel: ov, MaxLevel: ov + rng.Intn(3)}
		}
		if c.Levels != nil {
			c.Levels = []int{ov - 3, ov - 2, ov - 1, ov, ov + 1, ov + 4}
		}
	}
	if c.NO == nil && c.O.MinLevel < 400 && rng.Intn(40) == 0 && c.Base != 1 && c.Base >= 0 {
		// level limits (and CountTicks observations) far BELOW the natural level, where the number
		// of ticks passes 2^53 (float-rounded) and 2^63 (CountTicks saturates at maxInt): finding hI-c17-3
		d0 := 126 / math.Log2(float64(eb)) // levels below the natural one at which the count reaches 2^63
		c.O.MaxLevel = nat - int(d0*(0.7+0.9*rng.Float64()))
		c.O.MinLevel = c.O.MaxLevel - rng.Intn(3)
		if c.O.MinLevel == 0 && c.O.MaxLevel == 0 {
			c.O.MinLevel = -1
		}
		if c.Levels != nil {
			c.Levels = nil
			for _, f := range []float64{1.4, 1.15, 1.02, 0.98, 0.85, 0.5, 0.2} {
				c.Levels = append(c.Levels, nat-int(d0*f))
			}
		}
	}
	c.Min, c.Max = F64(mn), F64(mx)
	if rng.Intn(2) == 0 {
		c.Hist = 1 + rng.Intn(5)
	}
	return c
}

var c17LogBases = []int{2, 3, 5, 10, 10, 10, 16}

func c17LogCase(rng *rand.Rand) c17Case {
	b := c17LogBases[rng.Intn(len(c17LogBases))]
	var mn, mx float64
	pw := func(k int) float64 {
		if f, ok := powExact(b, k); ok {
			return f
		}
		return math.Pow(float64(b), float64(k))
	}
	kmax := int(100 / math.Log10(float64(b)))
	switch rng.Intn(6) {
	case 0: // ends at (representable or nearest) powers of the base
		i := rng.Intn(2*kmax+1) - kmax
		j := i + rng.Intn(kmax+1-i/2+kmax/2)
		if j > kmax {
			j = kmax
		}
		mn, mx = pw(i), pw(j)
	case 1: // small exponents: powers exactly representable
		i := rng.Intn(12)
		mn, mx = pw(i), pw(i+rng.Intn(8))
	case 2: // inside one decade or a few
		mn = float64(1+rng.Intn(50)) * pw(rng.Intn(7)-3)
		mx = mn * (1 + rng.Float64()*float64(b*b))
	case 3: // multiples of powers (minor-tick positions)
		k := rng.Intn(9) - 4
		mn = float64(1+rng.Intn(b)) * pw(k)
		mx = float64(1+rng.Intn(b)) * pw(k+1+rng.Intn(3))
	default:
		mn = logUniform(rng, 1e-100, 1e100)
		mx = mn * math.Exp(rng.Float64()*rng.Float64()*460)
		if rng.Intn(2) == 0 {
			mn, mx = float64(float32(mn)), float64(float32(mx))
		}
	}
	if mx > 1e100 {
		mx = 1e100
	}
	if mn < 1e-100 {
		mn = 1e-100
	}
	if !(mn <= mx) || mn == 0 || !finite(mn) || !finite(mx) {
		mn, mx = 1, 10
	}
	if rng.Intn(25) == 0 {
		mx = mn
	}
	if rng.Intn(2) == 0 {
		mn, mx = -mx, -mn
	}
	c := c17Case{K: 2, Base: b, Min: F64(mn), Max: F64(mx), O: c17Opt(rng, 1, 3)}
	if rng.Intn(2) == 0 {
		c.Hist = 1 + rng.Intn(5)
	}
	if c.O.MinLevel != 0 || c.O.MaxLevel != 0 { // level limits: around the levels Log scales use
		c.O.MinLevel = rng.Intn(5) - 1
		c.O.MaxLevel = c.O.MinLevel + rng.Intn(4)
		if rng.Intn(8) == 0 {
			c.O.MaxLevel = c.O.MinLevel - 1
		}
		if c.O.MinLevel == 0 && c.O.MaxLevel == 0 {
			c.O.MaxLevel = 2
		}
	}
	if rng.Intn(25) == 0 {
		c.O.Max = rng.Intn(2) - 1
	}
	// levels: mostly those whose effective base Base^(2^level) is a finite float64 (level <= 7 for base 16)
	if mn == mx {
		// CountTicks of a degenerate domain has no slack at all; Ticks handles Min == Max itself
	} else if math.Abs(math.Log(mx/mn)) > 100 {
		c.Levels = []int{2, 3, 4, 5, 6, 7} // wide domains: skip the levels with hundreds of ticks
	} else {
		c.Levels = []int{-1, 0, 1, 2, 3}
	}
	if rng.Intn(30) == 0 {
		// level limits (and per-level observations) around the level where the effective base
		// overflows float64 (findings hI-c17-1, hI-c17-2)
		ov := int(math.Ceil(math.Log2(1024 * math.Ln2 / math.Log(float64(b)))))
		c.O.MinLevel = ov - 2 + rng.Intn(4)
		c.O.MaxLevel = c.O.MinLevel + rng.Intn(3)
		if c.Levels != nil {
			c.Levels = []int{ov - 2, ov - 1, ov, ov + 1, ov + 3}
		}
	}
	return c
}

func c17Gen(tier string, rng *rand.Rand, emit func(interface{})) {
	thorough := tier == "thorough"
	c17GenFindLevel(thorough, rng, emit)
	nlin, nlog := 1500, 800
	if thorough {
		nlin, nlog = 30000, 12000
	}
	for i := 0; i < nlin; i++ {
		emit(c17LinearCase(rng))
	}
	for i := 0; i < nlog; i++ {
		emit(c17LogCase(rng))
	}
}

func init() {
	register(&Prop{ID: "C17", Num: 17, Gen: c17Gen, Run: c17Run, Timeout: 10 * time.Second})
}

package main

import (
	"encoding/json"
	"fmt"
	"math/rand"

	"github.com/aclements/go-moremath/graph/graphalg"
)

// C18: graph package. One case struct for all slices; Op selects the slice
// (second integer of the line):
//
//	1  NodeMarks history        Ops = [[code,id]...]  code 0 Mark 1 Unmark 2 Test 3 Next
type c18Case struct {
	Op  int      `json:"op"`
	Ops [][2]int `json:"ops,omitempty"`
}

const c18MaxID = 1 << 22

func c18Run(raw []byte) (*Line, error) {
	var c c18Case
	if err := json.Unmarshal(raw, &c); err != nil {
		return nil, err
	}
	l := &Line{}
	l.I(18).I(c.Op)
	switch c.Op {
	case 1:
		return c18RunMarks(&c, l)
	}
	return nil, fmt.Errorf("bad op %d", c.Op)
}

// ---------------------------------------------------------------- op 1: NodeMarks
func c18RunMarks(c *c18Case, l *Line) (*Line, error) {
	for _, op := range c.Ops {
		if op[0] < 0 || op[0] > 3 || op[1] > c18MaxID || op[1] < -c18MaxID {
			return nil, fmt.Errorf("bad marks op")
		}
		if op[0] <= 1 && op[1] < 0 {
			return nil, fmt.Errorf("Mark/Unmark of a negative id is outside the property")
		}
	}
	m := graphalg.NewNodeMarks()
	type rec struct{ code, id, obs int }
	var recs []rec
	for _, op := range c.Ops {
		code, id := op[0], op[1]
		obs := 0
		pan, _ := catch(func() {
			switch code {
			case 0:
				m.Mark(id)
			case 1:
				m.Unmark(id)
			case 2:
				if m.Test(id) {
					obs = 1
				}
			case 3:
				obs = m.Next(id)
			}
		})
		if pan {
			// a panic is an observable (status 2); the history stops there
			recs = append(recs, rec{code, id, 2})
			if code >= 2 {
				// Test/Next have no status slot: report an impossible value
				recs[len(recs)-1].obs = -2
			}
			break
		}
		recs = append(recs, rec{code, id, obs})
	}
	l.I(len(recs))
	for _, r := range recs {
		l.I(r.code).I(r.id).I(r.obs)
	}
	return l, nil
}

var c18Bounds = []int{32, 64, 96, 992, 1024, 1056, 2048, 4096, 8192, 16384, 32768, 65536, 131072, 200000}

func c18PickID(rng *rand.Rand, scale int, marked []int) int {
	switch rng.Intn(6) {
	case 0, 1:
		if len(marked) > 0 {
			return marked[rng.Intn(len(marked))] + rng.Intn(3) - 1
		}
		fallthrough
	case 2, 3:
		b := c18Bounds[rng.Intn(len(c18Bounds))]
		for b > scale {
			b = c18Bounds[rng.Intn(len(c18Bounds))]
			if scale < 32 {
				b = 32
				break
			}
		}
		return b + rng.Intn(5) - 3
	case 4:
		return rng.Intn(scale + 1)
	default:
		return rng.Intn(70)
	}
}

func c18GenMarks(tier string, rng *rand.Rand, emit func(interface{})) {
	thorough := tier == "thorough"
	// (a) every history of length <= 3 (thorough 4 over a smaller alphabet) over boundary ids
	ids := []int{0, 31, 32, 1023, 1024}
	var alpha [][2]int
	for code := 0; code < 4; code++ {
		for _, id := range ids {
			alpha = append(alpha, [2]int{code, id})
		}
	}
	alpha = append(alpha, [2]int{3, -1}, [2]int{3, -5}, [2]int{2, -1}, [2]int{2, 2047}, [2]int{0, 2048}, [2]int{3, 2047})
	for _, a := range alpha {
		emit(c18Case{Op: 1, Ops: [][2]int{a}})
		for _, b := range alpha {
			emit(c18Case{Op: 1, Ops: [][2]int{a, b}})
			if a[0] >= 2 {
				continue // a leading Test/Next does not change the state
			}
			for _, c := range alpha {
				if c[0] >= 2 && (b[0] < 2 || thorough) {
					emit(c18Case{Op: 1, Ops: [][2]int{a, b, c}})
				}
			}
		}
	}
	// (b) random histories; a shadow set drives the choice of ids and the Next loops
	nRand := 500
	if thorough {
		nRand = 8000
	}
	for it := 0; it < nRand; it++ {
		scale := 40
		switch rng.Intn(4) {
		case 1:
			scale = 1100
		case 2:
			scale = 1 << uint(5+rng.Intn(13))
		case 3:
			scale = 200000
		}
		nops := 5 + rng.Intn(120)
		if rng.Intn(8) == 0 {
			nops = 300 + rng.Intn(300)
		}
		set := map[int]bool{}
		var marked []int
		var ops [][2]int
		clamp := func(id int) int {
			if id < 0 {
				return 0
			}
			if id > 200001 {
				return 200001
			}
			return id
		}
		for len(ops) < nops {
			id := c18PickID(rng, scale, marked)
			switch r := rng.Intn(20); {
			case r < 8:
				id = clamp(id)
				ops = append(ops, [2]int{0, id})
				if !set[id] {
					set[id] = true
					marked = append(marked, id)
				}
			case r < 11:
				id = clamp(id)
				ops = append(ops, [2]int{1, id})
				delete(set, id)
			case r < 15:
				ops = append(ops, [2]int{2, id})
			case r < 19:
				ops = append(ops, [2]int{3, id})
			default:
				// the documented loop: for i := Next(-1); i >= 0; i = Next(i)
				ops = append(ops, [2]int{3, -1})
				for _, j := range marked {
					if set[j] && rng.Intn(3) > 0 {
						ops = append(ops, [2]int{3, j})
					}
				}
			}
		}
		// finish with a full sweep over the boundaries
		ops = append(ops, [2]int{3, -1})
		for _, j := range marked {
			ops = append(ops, [2]int{2, j}, [2]int{3, j}, [2]int{3, j - 1})
		}
		emit(c18Case{Op: 1, Ops: ops})
	}
	// (c) ascending and descending fills across every growth boundary
	for _, b := range c18Bounds {
		if !thorough && b > 40000 {
			continue
		}
		var up, down [][2]int
		for d := -2; d <= 2; d++ {
			up = append(up, [2]int{0, b + d}, [2]int{2, b + d}, [2]int{3, b + d - 1}, [2]int{3, -1})
		}
		for d := 2; d >= -2; d-- {
			down = append(down, [2]int{0, b + d}, [2]int{2, b + d}, [2]int{3, b + d - 1}, [2]int{3, -1})
		}
		emit(c18Case{Op: 1, Ops: up})
		emit(c18Case{Op: 1, Ops: down})
	}
}

func c18Gen(tier string, rng *rand.Rand, emit func(interface{})) {
	c18GenMarks(tier, rng, emit)
}

func init() { register(&Prop{ID: "C18", Num: 18, Gen: c18Gen, Run: c18Run}) }

package main

import (
	"encoding/json"
	"fmt"
	"math/rand"

	"github.com/aclements/go-moremath/graph"
	"github.com/aclements/go-moremath/graph/graphalg"
)

// C18: graph package. One case struct for all slices; Op selects the slice
// (second integer of the line):
//
//	1  NodeMarks history        Ops = [[code,id]...]  code 0 Mark 1 Unmark 2 Test 3 Next
//	2  PreOrder/PostOrder/Reverse/Euler on graph G from every root in Roots
//	3  SCC(G, Flags)
type c18Case struct {
	Op    int      `json:"op"`
	Ops   [][2]int `json:"ops,omitempty"`
	G     [][]int  `json:"g,omitempty"`
	Roots []int    `json:"roots,omitempty"`
	Flags int      `json:"flags,omitempty"`
}

const c18MaxID = 1 << 22

func c18Run(raw []byte) (*Line, error) {
	var c c18Case
	if err := json.Unmarshal(raw, &c); err != nil {
		return nil, err
	}
	l := &Line{}
	l.I(18).I(c.Op)
	switch c.Op {
	case 1:
		return c18RunMarks(&c, l)
	case 2:
		return c18RunTrav(&c, l)
	case 3:
		return c18RunSCC(&c, l)
	}
	return nil, fmt.Errorf("bad op %d", c.Op)
}

// ---------------------------------------------------------------- op 1: NodeMarks
func c18RunMarks(c *c18Case, l *Line) (*Line, error) {
	for _, op := range c.Ops {
		if op[0] < 0 || op[0] > 3 || op[1] > c18MaxID || op[1] < -c18MaxID {
			return nil, fmt.Errorf("bad marks op")
		}
		if op[0] <= 1 && op[1] < 0 {
			return nil, fmt.Errorf("Mark/Unmark of a negative id is outside the property")
		}
	}
	m := graphalg.NewNodeMarks()
	type rec struct{ code, id, obs int }
	var recs []rec
	for _, op := range c.Ops {
		code, id := op[0], op[1]
		obs := 0
		pan, _ := catch(func() {
			switch code {
			case 0:
				m.Mark(id)
			case 1:
				m.Unmark(id)
			case 2:
				if m.Test(id) {
					obs = 1
				}
			case 3:
				obs = m.Next(id)
			}
		})
		if pan {
			// a panic is an observable (status 2); the history stops there
			recs = append(recs, rec{code, id, 2})
			if code >= 2 {
				// Test/Next have no status slot: report an impossible value
				recs[len(recs)-1].obs = -2
			}
			break
		}
		recs = append(recs, rec{code, id, obs})
	}
	l.I(len(recs))
	for _, r := range recs {
		l.I(r.code).I(r.id).I(r.obs)
	}
	return l, nil
}

var c18Bounds = []int{32, 64, 96, 992, 1024, 1056, 2048, 4096, 8192, 16384, 32768, 65536, 131072, 200000}

func c18PickID(rng *rand.Rand, scale int, marked []int) int {
	switch rng.Intn(6) {
	case 0, 1:
		if len(marked) > 0 {
			return marked[rng.Intn(len(marked))] + rng.Intn(3) - 1
		}
		fallthrough
	case 2, 3:
		b := c18Bounds[rng.Intn(len(c18Bounds))]
		for b > scale {
			b = c18Bounds[rng.Intn(len(c18Bounds))]
			if scale < 32 {
				b = 32
				break
			}
		}
		return b + rng.Intn(5) - 3
	case 4:
		return rng.Intn(scale + 1)
	default:
		return rng.Intn(70)
	}
}

func c18GenMarks(tier string, rng *rand.Rand, emit func(interface{})) {
	thorough := tier == "thorough"
	// (a) every history of length <= 3 (thorough 4 over a smaller alphabet) over boundary ids
	ids := []int{0, 31, 32, 1023, 1024}
	var alpha [][2]int
	for code := 0; code < 4; code++ {
		for _, id := range ids {
			alpha = append(alpha, [2]int{code, id})
		}
	}
	alpha = append(alpha, [2]int{3, -1}, [2]int{3, -5}, [2]int{2, -1}, [2]int{2, 2047}, [2]int{0, 2048}, [2]int{3, 2047})
	for _, a := range alpha {
		emit(c18Case{Op: 1, Ops: [][2]int{a}})
		for _, b := range alpha {
			emit(c18Case{Op: 1, Ops: [][2]int{a, b}})
			if a[0] >= 2 {
				continue // a leading Test/Next does not change the state
			}
			for _, c := range alpha {
				if c[0] >= 2 && (b[0] < 2 || thorough) {
					emit(c18Case{Op: 1, Ops: [][2]int{a, b, c}})
				}
			}
		}
	}
	// (b) random histories; a shadow set drives the choice of ids and the Next loops
	nRand := 500
	if thorough {
		nRand = 8000
	}
	for it := 0; it < nRand; it++ {
		scale := 40
		switch rng.Intn(4) {
		case 1:
			scale = 1100
		case 2:
			scale = 1 << uint(5+rng.Intn(13))
		case 3:
			scale = 200000
		}
		nops := 5 + rng.Intn(120)
		if rng.Intn(8) == 0 {
			nops = 300 + rng.Intn(300)
		}
		set := map[int]bool{}
		var marked []int
		var ops [][2]int
		clamp := func(id int) int {
			if id < 0 {
				return 0
			}
			if id > 200001 {
				return 200001
			}
			return id
		}
		for len(ops) < nops {
			id := c18PickID(rng, scale, marked)
			switch r := rng.Intn(20); {
			case r < 8:
				id = clamp(id)
				ops = append(ops, [2]int{0, id})
				if !set[id] {
					set[id] = true
					marked = append(marked, id)
				}
			case r < 11:
				id = clamp(id)
				ops = append(ops, [2]int{1, id})
				delete(set, id)
			case r < 15:
				ops = append(ops, [2]int{2, id})
			case r < 19:
				ops = append(ops, [2]int{3, id})
			default:
				// the documented loop: for i := Next(-1); i >= 0; i = Next(i)
				ops = append(ops, [2]int{3, -1})
				for _, j := range marked {
					if set[j] && rng.Intn(3) > 0 {
						ops = append(ops, [2]int{3, j})
					}
				}
			}
		}
		// finish with a full sweep over the boundaries
		ops = append(ops, [2]int{3, -1})
		for _, j := range marked {
			ops = append(ops, [2]int{2, j}, [2]int{3, j}, [2]int{3, j - 1})
		}
		emit(c18Case{Op: 1, Ops: ops})
	}
	// (c) ascending and descending fills across every growth boundary
	for _, b := range c18Bounds {
		if !thorough && b > 40000 {
			continue
		}
		var up, down [][2]int
		for d := -2; d <= 2; d++ {
			up = append(up, [2]int{0, b + d}, [2]int{2, b + d}, [2]int{3, b + d - 1}, [2]int{3, -1})
		}
		for d := 2; d >= -2; d-- {
			down = append(down, [2]int{0, b + d}, [2]int{2, b + d}, [2]int{3, b + d - 1}, [2]int{3, -1})
		}
		emit(c18Case{Op: 1, Ops: up})
		emit(c18Case{Op: 1, Ops: down})
	}
}

// ---------------------------------------------------------------- graphs
func c18ValidGraph(g [][]int) error {
	if len(g) > 1<<21 {
		return fmt.Errorf("graph too large")
	}
	for _, l := range g {
		for _, v := range l {
			if v < 0 || v >= len(g) {
				return fmt.Errorf("edge target outside the graph")
			}
		}
	}
	return nil
}

func c18Copy(g [][]int) [][]int {
	r := make([][]int, len(g))
	for i, l := range g {
		r[i] = append([]int{}, l...)
	}
	return r
}

func c18Same(a, b [][]int) bool {
	if len(a) != len(b) {
		return false
	}
	for i := range a {
		if len(a[i]) != len(b[i]) {
			return false
		}
		for j := range a[i] {
			if a[i][j] != b[i][j] {
				return false
			}
		}
	}
	return true
}

// graph on the line: n { deg target* }^n
func (l *Line) c18Graph(g [][]int) *Line {
	l.I(len(g))
	for _, a := range g {
		l.Is(a)
	}
	return l
}

// ---------------------------------------------------------------- op 2: traversals
func c18RunTrav(c *c18Case, l *Line) (*Line, error) {
	if err := c18ValidGraph(c.G); err != nil {
		return nil, err
	}
	for _, r := range c.Roots {
		if r < -c18MaxID || r > c18MaxID {
			return nil, fmt.Errorf("bad root")
		}
	}
	orig := c18Copy(c.G)
	g := graph.IntGraph(c.G)
	l.c18Graph(orig)
	l.I(len(c.Roots))
	for _, root := range c.Roots {
		var pre, post, rev, eul, ent, ext []int
		pan, _ := catch(func() {
			pre = graphalg.PreOrder(g, root)
			post = graphalg.PostOrder(g, root)
			rev = graphalg.Reverse(graphalg.PostOrder(g, root))
			graphalg.Euler{Enter: func(n int) { eul = append(eul, 2*n) }, Exit: func(n int) { eul = append(eul, 2*n+1) }}.Visit(g, root)
			graphalg.Euler{Enter: func(n int) { ent = append(ent, 2*n) }}.Visit(g, root)
			graphalg.Euler{Exit: func(n int) { ext = append(ext, 2*n+1) }}.Visit(g, root)
		})
		if pan {
			l.I(root).I(2).I(0).I(0).I(0).I(0).I(0).I(0)
			continue
		}
		l.I(root).I(0).Is(pre).Is(post).Is(rev).Is(eul).Is(ent).Is(ext)
	}
	l.B(c18Same(orig, c.G))
	return l, nil
}

// every digraph on n nodes (self-loops allowed) is a mask of n*n bits; adjacency ascending
func c18MaskGraph(n int, mask uint64) [][]int {
	g := make([][]int, n)
	for i := 0; i < n; i++ {
		g[i] = []int{}
		for j := 0; j < n; j++ {
			if mask>>(uint(i*n+j))&1 == 1 {
				g[i] = append(g[i], j)
			}
		}
	}
	return g
}

// shuffle adjacency order and double some edges (multiplicity <= 2)
func c18Variant(rng *rand.Rand, g [][]int) [][]int {
	r := make([][]int, len(g))
	for i, l := range g {
		a := append([]int{}, l...)
		for _, v := range l {
			if rng.Intn(3) == 0 {
				a = append(a, v)
			}
		}
		rng.Shuffle(len(a), func(x, y int) { a[x], a[y] = a[y], a[x] })
		r[i] = a
	}
	return r
}

func c18RandGraph(rng *rand.Rand, n int) [][]int {
	g := make([][]int, n)
	avg := []float64{0.3, 1, 1.5, 2.5, 5}[rng.Intn(5)]
	for i := range g {
		g[i] = []int{}
		d := 0
		for rng.Float64() < avg/(avg+1) && d < 3*n+3 {
			d++
		}
		for k := 0; k < d; k++ {
			switch rng.Intn(8) {
			case 0:
				g[i] = append(g[i], i) // self-loop
			case 1:
				if len(g[i]) > 0 {
					g[i] = append(g[i], g[i][rng.Intn(len(g[i]))]) // parallel edge
					break
				}
				fallthrough
			default:
				g[i] = append(g[i], rng.Intn(n))
			}
		}
	}
	return g
}

// structured graphs on n nodes under a relabelling of the node ids:
// kind 0 path, 1 cycle, 2 binary tree, 3 DAG layers, 4 cycle chain (many SCCs), 5 random tree with back edges
func c18Structured(rng *rand.Rand, kind, n, relabel int) [][]int {
	perm := make([]int, n)
	for i := range perm {
		perm[i] = i
	}
	switch relabel {
	case 1:
		for i := range perm {
			perm[i] = n - 1 - i
		}
	case 2:
		rng.Shuffle(n, func(x, y int) { perm[x], perm[y] = perm[y], perm[x] })
	}
	g := make([][]int, n)
	for i := range g {
		g[i] = []int{}
	}
	add := func(u, v int) { g[perm[u]] = append(g[perm[u]], perm[v]) }
	switch kind {
	case 0:
		for i := 0; i+1 < n; i++ {
			add(i, i+1)
		}
	case 1:
		for i := 0; i < n; i++ {
			add(i, (i+1)%n)
		}
	case 2:
		for i := 0; i < n; i++ {
			if 2*i+1 < n {
				add(i, 2*i+1)
			}
			if 2*i+2 < n {
				add(i, 2*i+2)
			}
		}
	case 3:
		w := 1 + rng.Intn(40)
		for i := 0; i < n; i++ {
			layer := i / w
			for k := 0; k < 1+rng.Intn(3); k++ {
				j := (layer+1)*w + rng.Intn(w)
				if j < n {
					add(i, j)
				}
			}
		}
	case 4:
		w := 2 + rng.Intn(30)
		for i := 0; i < n; i++ {
			base := i / w * w
			j := base + (i-base+1)%w
			if j >= n {
				j = base
			}
			add(i, j)
			if i%w == 0 && i+w < n {
				add(i, i+w)
			}
		}
	default:
		for i := 1; i < n; i++ {
			add(rng.Intn(i), i)
		}
		for k := 0; k < n/8; k++ {
			add(rng.Intn(n), rng.Intn(n))
		}
	}
	return g
}

func c18Sizes(tier string) []int {
	s := []int{31, 33, 1023, 1024, 1025, 2047, 2049, 4097, 5000}
	if tier == "thorough" {
		s = append(s, 8191, 8193, 16385, 32769, 65537, 100000)
	}
	return s
}

func c18Roots(rng *rand.Rand, n, k int) []int {
	var r []int
	if n == 0 {
		return []int{0}
	}
	for i := 0; i < k; i++ {
		r = append(r, rng.Intn(n))
	}
	return r
}

func c18AllRoots(n int) []int {
	r := []int{}
	for i := 0; i < n; i++ {
		r = append(r, i)
	}
	return r
}

func c18GenTrav(tier string, rng *rand.Rand, emit func(interface{})) {
	thorough := tier == "thorough"
	// (a) every digraph on <= 4 nodes with every root; a shuffled / doubled-edge variant of a sample
	for n := 1; n <= 4; n++ {
		for mask := uint64(0); mask < 1<<uint(n*n); mask++ {
			g := c18MaskGraph(n, mask)
			emit(c18Case{Op: 2, G: g, Roots: c18AllRoots(n)})
			if n < 4 || rng.Intn(4) == 0 || thorough {
				emit(c18Case{Op: 2, G: c18Variant(rng, g), Roots: c18AllRoots(n)})
			}
		}
	}
	if thorough {
		// 5 nodes: every loop-free digraph, self-loops / doubling / order drawn at random
		for mask := uint64(0); mask < 1<<20; mask++ {
			var full uint64
			b := 0
			for i := 0; i < 5; i++ {
				for j := 0; j < 5; j++ {
					if i == j {
						if rng.Intn(4) == 0 {
							full |= 1 << uint(i*5+j)
						}
						continue
					}
					if mask>>uint(b)&1 == 1 {
						full |= 1 << uint(i*5+j)
					}
					b++
				}
			}
			g := c18MaskGraph(5, full)
			if rng.Intn(2) == 0 {
				g = c18Variant(rng, g)
			}
			emit(c18Case{Op: 2, G: g, Roots: c18AllRoots(5)})
		}
	}
	// malformed: roots outside the graph, empty graph
	emit(c18Case{Op: 2, G: [][]int{}, Roots: []int{0, -1}})
	emit(c18Case{Op: 2, G: [][]int{{0}}, Roots: []int{1, -1, 0}})
	emit(c18Case{Op: 2, G: [][]int{{1}, {0}}, Roots: []int{2, 0, -3}})
	// (b) random multigraphs up to 60 nodes
	nRand := 1500
	if thorough {
		nRand = 30000
	}
	for it := 0; it < nRand; it++ {
		n := 1 + rng.Intn(60)
		if rng.Intn(4) == 0 {
			n = 1 + rng.Intn(8)
		}
		emit(c18Case{Op: 2, G: c18RandGraph(rng, n), Roots: c18Roots(rng, n, 3)})
	}
	// (c) structured graphs whose node ids cross the storage growth boundaries
	for _, n := range c18Sizes(tier) {
		for kind := 0; kind < 6; kind++ {
			for relabel := 0; relabel < 3; relabel++ {
				if n > 20000 && relabel == 1 && kind > 1 {
					continue
				}
				g := c18Structured(rng, kind, n, relabel)
				roots := []int{0, n - 1}
				if relabel == 2 {
					roots = c18Roots(rng, n, 2)
				}
				emit(c18Case{Op: 2, G: g, Roots: roots})
			}
		}
	}
}

// ---------------------------------------------------------------- op 3: SCC
func c18RunSCC(c *c18Case, l *Line) (*Line, error) {
	if err := c18ValidGraph(c.G); err != nil {
		return nil, err
	}
	if c.Flags < 0 || c.Flags > 3 {
		return nil, fmt.Errorf("bad flags")
	}
	orig := c18Copy(c.G)
	g := graph.IntGraph(c.G)
	l.c18Graph(orig).I(c.Flags)
	var comps, outs [][]int
	var cof []int
	pan, _ := catch(func() {
		s := graphalg.SCC(g, graphalg.SCCFlags(c.Flags))
		nc := s.NumNodes()
		for cid := 0; cid < nc; cid++ {
			comps = append(comps, append([]int{}, s.Subnodes(cid)...))
			outs = append(outs, append([]int{}, s.Out(cid)...))
		}
		if c.Flags != 0 {
			for v := 0; v < len(c.G); v++ {
				cof = append(cof, s.SubnodeComponent(v))
			}
		}
	})
	if pan {
		l.I(2).I(0).I(0).I(0).I(0)
	} else {
		l.I(0).I(len(comps))
		for _, x := range comps {
			l.Is(x)
		}
		if c.Flags != 0 {
			l.I(1)
		} else {
			l.I(0)
		}
		l.Is(cof)
		l.I(len(outs))
		for _, x := range outs {
			l.Is(x)
		}
	}
	l.B(c18Same(orig, c.G))
	return l, nil
}

func c18GenSCC(tier string, rng *rand.Rand, emit func(interface{})) {
	thorough := tier == "thorough"
	k := 0
	flags := func() int { k++; return []int{3, 3, 2, 3, 1, 3, 0, 3}[k%8] }
	emit(c18Case{Op: 3, G: [][]int{}, Flags: 3})
	emit(c18Case{Op: 3, G: [][]int{}, Flags: 0})
	for n := 1; n <= 4; n++ {
		for mask := uint64(0); mask < 1<<uint(n*n); mask++ {
			g := c18MaskGraph(n, mask)
			emit(c18Case{Op: 3, G: g, Flags: flags()})
			if n < 4 || rng.Intn(8) == 0 || thorough {
				emit(c18Case{Op: 3, G: c18Variant(rng, g), Flags: flags()})
			}
		}
	}
	if thorough {
		for mask := uint64(0); mask < 1<<20; mask++ {
			var full uint64
			b := 0
			for i := 0; i < 5; i++ {
				for j := 0; j < 5; j++ {
					if i == j {
						if rng.Intn(4) == 0 {
							full |= 1 << uint(i*5+j)
						}
						continue
					}
					if mask>>uint(b)&1 == 1 {
						full |= 1 << uint(i*5+j)
					}
					b++
				}
			}
			emit(c18Case{Op: 3, G: c18MaskGraph(5, full), Flags: flags()})
		}
	}
	nRand := 1500
	if thorough {
		nRand = 30000
	}
	for it := 0; it < nRand; it++ {
		n := 1 + rng.Intn(60)
		if rng.Intn(4) == 0 {
			n = 1 + rng.Intn(8)
		}
		emit(c18Case{Op: 3, G: c18RandGraph(rng, n), Flags: flags()})
	}
	for _, n := range c18Sizes(tier) {
		for kind := 0; kind < 6; kind++ {
			for relabel := 0; relabel < 3; relabel++ {
				if n > 20000 && relabel == 1 && kind > 1 {
					continue
				}
				emit(c18Case{Op: 3, G: c18Structured(rng, kind, n, relabel), Flags: flags()})
			}
		}
	}
}

func c18Gen(tier string, rng *rand.Rand, emit func(interface{})) {
	c18GenMarks(tier, rng, emit)
	c18GenTrav(tier, rng, emit)
	c18GenSCC(tier, rng, emit)
}

func init() { register(&Prop{ID: "C18", Num: 18, Gen: c18Gen, Run: c18Run}) }

package main

import (
	"encoding/json"
	"fmt"
	"math/rand"
	"os"
	"strconv"
	"strings"

	"github.com/aclements/go-moremath/graph"
	"github.com/aclements/go-moremath/graph/graphalg"
	"github.com/aclements/go-moremath/graph/graphout"
)

// C18: graph package. One case struct for all slices; Op selects the slice
// (second integer of the line):
//
//	1  NodeMarks history        Ops = [[code,id]...]  code 0 Mark 1 Unmark 2 Test 3 Next
//	2  PreOrder/PostOrder/Reverse/Euler on graph G from every root in Roots
//	3  SCC(G, Flags)
//	4  MakeBiGraph(G)
//	5  Equal(G, G2)
//	6  SimplifyMulti(G with weights W; W absent = plain graph)
//	7  SubgraphKeep(G, Nodes, Edges)      Edges = [[node, edge index]...]
//	8  SubgraphRemove(G, Nodes, Edges)
//	9  DotString(S)                        strings are byte lists
//	10 Dot{Name, Label, NodeAttrs, EdgeAttrs}.Sprint(G); HasL/HasN/HasE = the func is non-nil
//	11 a history Steps (operations 2-8, 10; their G is ignored) on ONE graph object built from G
//	   (Bi: the object is MakeBiGraph(G), built once); no copy is made between the calls
type c18Attr struct {
	N []int `json:"n"`           // attribute name
	K int   `json:"k"`           // 0 string S, 1 int I, 2 DotLiteral S, 3 bool (unsupported: panics), 4 uint I
	S []int `json:"s,omitempty"` // bytes
	I int   `json:"i,omitempty"`
}
type c18Case struct {
	Op     int           `json:"op"`
	Ops    [][2]int      `json:"ops,omitempty"`
	G      [][]int       `json:"g,omitempty"`
	Roots  []int         `json:"roots,omitempty"`
	Flags  int           `json:"flags,omitempty"`
	G2     [][]int       `json:"g2,omitempty"`
	W      [][]F64       `json:"w,omitempty"`
	Nodes  []int         `json:"nodes,omitempty"`
	Edges  [][2]int      `json:"edges,omitempty"`
	S      []int         `json:"s,omitempty"`
	Name   []int         `json:"name,omitempty"`
	HasL   bool          `json:"hasl,omitempty"`
	HasN   bool          `json:"hasn,omitempty"`
	HasE   bool          `json:"hase,omitempty"`
	Labels [][]int       `json:"labels,omitempty"`
	NAttrs [][]c18Attr   `json:"nattrs,omitempty"`
	EAttrs [][][]c18Attr `json:"eattrs,omitempty"`
	Bi     bool          `json:"bi,omitempty"`
	Steps  []c18Case     `json:"steps,omitempty"`

	obj graph.Graph // op 11: the shared object every step works on (nil: a graph of its own, IntGraph(G))
}

// the graph object a call receives
func (c *c18Case) graph() graph.Graph {
	if c.obj != nil {
		return c.obj
	}
	return graph.IntGraph(c.G)
}

const c18MaxID = 1 << 22

func c18Run(raw []byte) (*Line, error) {
	var c c18Case
	if err := json.Unmarshal(raw, &c); err != nil {
		return nil, err
	}
	l := &Line{}
	l.I(18).I(c.Op)
	switch c.Op {
	case 1:
		return c18RunMarks(&c, l)
	case 2:
		return c18RunTrav(&c, l)
	case 3:
		return c18RunSCC(&c, l)
	case 4:
		return c18RunBi(&c, l)
	case 5:
		return c18RunEqual(&c, l)
	case 6:
		return c18RunSimplify(&c, l)
	case 7, 8:
		return c18RunSub(&c, l)
	case 9:
		return c18RunDotString(&c, l)
	case 10:
		return c18RunSprint(&c, l)
	case 11:
		return c18RunHist(&c, l)
	}
	return nil, fmt.Errorf("bad op %d", c.Op)
}

// ---------------------------------------------------------------- op 11: a history on one graph object
func c18RunHist(c *c18Case, l *Line) (*Line, error) {
	if err := c18ValidGraph(c.G); err != nil {
		return nil, err
	}
	if len(c.Steps) == 0 || len(c.Steps) > 64 {
		return nil, fmt.Errorf("a history has 1..64 steps")
	}
	var obj graph.Graph = graph.IntGraph(c.G)
	if c.Bi {
		obj = graph.MakeBiGraph(obj)
	}
	l.I(len(c.Steps))
	for i := range c.Steps {
		st := c.Steps[i]
		st.G = c.G // the very same adjacency slices: what one call leaves behind is what the next call receives
		st.obj = obj
		st.Steps = nil
		sub := &Line{}
		sub.I(st.Op)
		var err error
		switch st.Op {
		case 2:
			_, err = c18RunTrav(&st, sub)
		case 3:
			_, err = c18RunSCC(&st, sub)
		case 4:
			_, err = c18RunBi(&st, sub)
		case 5:
			_, err = c18RunEqual(&st, sub)
		case 6:
			_, err = c18RunSimplify(&st, sub)
		case 7, 8:
			_, err = c18RunSub(&st, sub)
		case 10:
			_, err = c18RunSprint(&st, sub)
		default:
			err = fmt.Errorf("operation %d cannot be a step of a history", st.Op)
		}
		if err != nil {
			return nil, err
		}
		l.I(len(sub.toks))
		l.toks = append(l.toks, sub.toks...)
	}
	return l, nil
}

// ---------------------------------------------------------------- op 1: NodeMarks
func c18RunMarks(c *c18Case, l *Line) (*Line, error) {
	if len(c.Ops) == 0 {
		return nil, fmt.Errorf("empty history: nothing would be observed")
	}
	for _, op := range c.Ops {
		// Mark/Unmark allocate id/32 words: bounded ids. Test/Next are defined for EVERY int and run as given.
		if op[0] < 0 || op[0] > 3 || (op[0] <= 1 && op[1] > c18MaxID) {
			return nil, fmt.Errorf("bad marks op")
		}
		if op[0] <= 1 && op[1] < 0 {
			return nil, fmt.Errorf("Mark/Unmark of a negative id is outside the property")
		}
	}
	m := graphalg.NewNodeMarks()
	type rec struct{ code, id, obs int }
	var recs []rec
	for _, op := range c.Ops {
		code, id := op[0], op[1]
		obs := 0
		pan, _ := catch(func() {
			switch code {
			case 0:
				m.Mark(id)
			case 1:
				m.Unmark(id)
			case 2:
				if m.Test(id) {
					obs = 1
				}
			case 3:
				obs = m.Next(id)
			}
		})
		if pan {
			// a panic is an observable (status 2); the history stops there
			recs = append(recs, rec{code, id, 2})
			if code >= 2 {
				// Test/Next have no status slot: report an impossible value
				recs[len(recs)-1].obs = -2
			}
			break
		}
		recs = append(recs, rec{code, id, obs})
	}
	l.I(len(recs))
	for _, r := range recs {
		l.I(r.code).I(r.id).I(r.obs)
	}
	return l, nil
}

var c18Bounds = []int{32, 64, 96, 992, 1024, 1056, 2048, 4096, 8192, 16384, 32768, 65536, 131072, 200000}

func c18PickID(rng *rand.Rand, scale int, marked []int) int {
	switch rng.Intn(6) {
	case 0, 1:
		if len(marked) > 0 {
			return marked[rng.Intn(len(marked))] + rng.Intn(3) - 1
		}
		fallthrough
	case 2, 3:
		b := c18Bounds[rng.Intn(len(c18Bounds))]
		for b > scale {
			b = c18Bounds[rng.Intn(len(c18Bounds))]
			if scale < 32 {
				b = 32
				break
			}
		}
		return b + rng.Intn(5) - 3
	case 4:
		return rng.Intn(scale + 1)
	default:
		return rng.Intn(70)
	}
}

func c18GenMarks(tier string, rng *rand.Rand, emit func(interface{})) {
	thorough := tier == "thorough"
	// (a) every history of length <= 3 (thorough 4 over a smaller alphabet) over boundary ids
	ids := []int{0, 31, 32, 1023, 1024}
	var alpha [][2]int
	for code := 0; code < 4; code++ {
		for _, id := range ids {
			alpha = append(alpha, [2]int{code, id})
		}
	}
	alpha = append(alpha, [2]int{3, -1}, [2]int{3, -5}, [2]int{2, -1}, [2]int{2, 2047}, [2]int{0, 2048}, [2]int{3, 2047})
	for _, a := range alpha {
		emit(c18Case{Op: 1, Ops: [][2]int{a}})
		for _, b := range alpha {
			emit(c18Case{Op: 1, Ops: [][2]int{a, b}})
			if a[0] >= 2 {
				continue // a leading Test/Next does not change the state
			}
			for _, c := range alpha {
				if c[0] >= 2 && (b[0] < 2 || thorough) {
					emit(c18Case{Op: 1, Ops: [][2]int{a, b, c}})
				}
			}
		}
	}
	// (b) random histories; a shadow set drives the choice of ids and the Next loops
	nRand := 500
	if thorough {
		nRand = 8000
	}
	for it := 0; it < nRand; it++ {
		scale := 40
		switch rng.Intn(4) {
		case 1:
			scale = 1100
		case 2:
			scale = 1 << uint(5+rng.Intn(13))
		case 3:
			scale = 200000
		}
		nops := 5 + rng.Intn(120)
		if rng.Intn(8) == 0 {
			nops = 300 + rng.Intn(300)
		}
		set := map[int]bool{}
		var marked []int
		var ops [][2]int
		probe := it%2 == 0 // the state after EVERY Mark/Unmark is observed: Test of the id, Next around it
		nprobe := 0        // probe operations do not count towards nops (the random stream is the same with and without them)
		clamp := func(id int) int {
			if id < 0 {
				return 0
			}
			if id > 200001 {
				return 200001
			}
			return id
		}
		for len(ops)-nprobe < nops {
			id := c18PickID(rng, scale, marked)
			switch r := rng.Intn(20); {
			case r < 8:
				id = clamp(id)
				ops = append(ops, [2]int{0, id})
				if !set[id] {
					set[id] = true
					marked = append(marked, id)
				}
				if probe {
					ops = append(ops, [2]int{2, id}, [2]int{3, id - 1}, [2]int{3, id})
					nprobe += 3
				}
			case r < 11:
				id = clamp(id)
				ops = append(ops, [2]int{1, id})
				delete(set, id)
				if probe {
					ops = append(ops, [2]int{2, id}, [2]int{3, id - 1}, [2]int{3, -1})
					nprobe += 3
				}
			case r < 15:
				ops = append(ops, [2]int{2, id})
			case r < 19:
				ops = append(ops, [2]int{3, id})
			default:
				// the documented loop: for i := Next(-1); i >= 0; i = Next(i)
				ops = append(ops, [2]int{3, -1})
				for _, j := range marked {
					if set[j] && rng.Intn(3) > 0 {
						ops = append(ops, [2]int{3, j})
					}
				}
			}
		}
		// finish with a full sweep over the boundaries
		ops = append(ops, [2]int{3, -1})
		for _, j := range marked {
			ops = append(ops, [2]int{2, j}, [2]int{3, j}, [2]int{3, j - 1})
		}
		emit(c18Case{Op: 1, Ops: ops})
	}
	// (c) ascending and descending fills across every growth boundary
	for _, b := range c18Bounds {
		var up, down [][2]int
		for d := -2; d <= 2; d++ {
			up = append(up, [2]int{0, b + d}, [2]int{2, b + d}, [2]int{3, b + d - 1}, [2]int{3, -1})
		}
		for d := 2; d >= -2; d-- {
			down = append(down, [2]int{0, b + d}, [2]int{2, b + d}, [2]int{3, b + d - 1}, [2]int{3, -1})
		}
		emit(c18Case{Op: 1, Ops: up})
		emit(c18Case{Op: 1, Ops: down})
	}
	// (d) growth by more than one doubling from a non-empty small set (the old words must survive), then
	//     Unmark of the far id, a second far Mark, and Unmark beyond the storage of a fresh set
	for _, a := range []int{0, 31, 992, 1023} {
		for _, b := range c18Bounds {
			if b < 2048 {
				continue
			}
			emit(c18Case{Op: 1, Ops: [][2]int{{0, a}, {0, b - 1}, {2, a}, {3, -1}, {3, a}, {2, b - 1}, {3, b - 2}, {3, b - 1},
				{1, b - 1}, {2, b - 1}, {3, a}, {2, a}, {0, b}, {3, a}, {1, a}, {3, -1}, {2, a}, {1, b}, {3, -1}}})
		}
	}
	for _, b := range c18Bounds {
		emit(c18Case{Op: 1, Ops: [][2]int{{1, b}, {2, b}, {3, -1}, {3, b - 1}, {0, 5}, {1, b + 31}, {2, 5}, {3, -1}, {3, 5},
			{0, b}, {1, 2*b + 64}, {2, b}, {3, 5}, {1, b}, {3, 5}, {2, b}}})
	}
	// (e) Test/Next are defined for every int: negative and extreme arguments on a non-empty set
	//     (Next(math.MaxInt) once returned the smallest mark: i++ overflowed; corpus/C18/next-maxint.jsonl)
	const maxInt = int(^uint(0) >> 1)
	for _, x := range []int{-1, -2, -31, -32, -33, -63, -64, -65, -1023, -1024, -1025, -(1 << 22), -(1 << 40), -maxInt, -maxInt - 1,
		1 << 22, 1 << 40, maxInt - 32, maxInt - 1, maxInt} {
		for _, first := range []int{0, 1, 31, 33, 1023} {
			emit(c18Case{Op: 1, Ops: [][2]int{{2, x}, {3, x}, {0, first}, {2, x}, {3, x}, {0, 1500}, {2, x}, {3, x}, {1, first}, {3, x}, {2, x}}})
		}
	}
	emit(c18Case{Op: 1, Ops: [][2]int{{0, 7}, {2, maxInt}, {2, -maxInt - 1}, {3, maxInt - 1}, {3, -maxInt - 1}}})
	// (f) word sweeps: one bit position in EVERY word up to id 4500 (ascending: the storage grows step by step;
	//     descending: it grows once), each Mark probed at both ends of its word and by the scans around it
	for _, bit := range []int{0, 31, 17} {
		for _, desc := range []bool{false, true} {
			var ops [][2]int
			for k := 0; k <= 140; k++ {
				w := k
				if desc {
					w = 140 - k
				}
				id := 32*w + bit
				ops = append(ops, [2]int{0, id}, [2]int{2, 32 * w}, [2]int{2, 32*w + 31}, [2]int{2, id}, [2]int{3, 32*w - 1}, [2]int{3, id},
					[2]int{3, id - 33})
			}
			ops = append(ops, [2]int{3, -1})
			for w := 0; w <= 141; w++ { // the final state, word by word
				ops = append(ops, [2]int{2, 32*w + bit}, [2]int{2, 32*w + (bit+1)%32}, [2]int{3, 32*w + bit}, [2]int{3, 32*w - 1})
			}
			for w := 0; w <= 140; w += 2 { // unmark every other one and scan again
				ops = append(ops, [2]int{1, 32*w + bit}, [2]int{2, 32*w + bit}, [2]int{3, 32*w - 1})
			}
			emit(c18Case{Op: 1, Ops: ops})
		}
	}
}

// ---------------------------------------------------------------- graphs
func c18ValidGraph(g [][]int) error {
	if len(g) > 1<<21 {
		return fmt.Errorf("graph too large")
	}
	for _, l := range g {
		for _, v := range l {
			if v < 0 || v >= len(g) {
				return fmt.Errorf("edge target outside the graph")
			}
		}
	}
	return nil
}

func c18Copy(g [][]int) [][]int {
	r := make([][]int, len(g))
	for i, l := range g {
		r[i] = append([]int{}, l...)
	}
	return r
}

func c18Same(a, b [][]int) bool {
	if len(a) != len(b) {
		return false
	}
	for i := range a {
		if len(a[i]) != len(b[i]) {
			return false
		}
		for j := range a[i] {
			if a[i][j] != b[i][j] {
				return false
			}
		}
	}
	return true
}

// graph on the line: n { deg target* }^n
func (l *Line) c18Graph(g [][]int) *Line {
	l.I(len(g))
	for _, a := range g {
		l.Is(a)
	}
	return l
}

// ---------------------------------------------------------------- op 2: traversals
func c18RunTrav(c *c18Case, l *Line) (*Line, error) {
	if err := c18ValidGraph(c.G); err != nil {
		return nil, err
	}
	if len(c.Roots) == 0 {
		return nil, fmt.Errorf("no root: nothing would be observed")
	}
	for _, r := range c.Roots {
		if r < -c18MaxID || r > c18MaxID {
			return nil, fmt.Errorf("bad root")
		}
	}
	orig := c18Copy(c.G)
	g := c.graph()
	l.c18Graph(orig)
	l.I(len(c.Roots))
	for _, root := range c.Roots {
		var pre, post, rev, rva, eul, ent, ext []int
		pan, _ := catch(func() {
			pre = graphalg.PreOrder(g, root)
			post = graphalg.PostOrder(g, root)
			// Reverse "reverses xs in place and returns the slice": the returned slice (rev) and the
			// argument after the call (rva) are both transported; post comes from a call of its own
			rva = graphalg.PostOrder(g, root)
			rev = append([]int{}, graphalg.Reverse(rva)...)
			graphalg.Euler{}.Visit(g, root) // both callbacks nil: must return without touching anything
			graphalg.Euler{Enter: func(n int) { eul = append(eul, 2*n) }, Exit: func(n int) { eul = append(eul, 2*n+1) }}.Visit(g, root)
			graphalg.Euler{Enter: func(n int) { ent = append(ent, 2*n) }}.Visit(g, root)
			graphalg.Euler{Exit: func(n int) { ext = append(ext, 2*n+1) }}.Visit(g, root)
		})
		if pan {
			l.I(root).I(2).I(0).I(0).I(0).I(0).I(0).I(0).I(0)
			continue
		}
		l.I(root).I(0).Is(pre).Is(post).Is(rev).Is(rva).Is(eul).Is(ent).Is(ext)
	}
	l.B(c18Same(orig, c.G)).c18Graph(c.G)
	return l, nil
}

// every digraph on n nodes (self-loops allowed) is a mask of n*n bits; adjacency ascending
func c18MaskGraph(n int, mask uint64) [][]int {
	g := make([][]int, n)
	for i := 0; i < n; i++ {
		g[i] = []int{}
		for j := 0; j < n; j++ {
			if mask>>(uint(i*n+j))&1 == 1 {
				g[i] = append(g[i], j)
			}
		}
	}
	return g
}

// shuffle adjacency order and double some edges (multiplicity <= 2)
func c18Variant(rng *rand.Rand, g [][]int) [][]int {
	r := make([][]int, len(g))
	for i, l := range g {
		a := append([]int{}, l...)
		for _, v := range l {
			if rng.Intn(3) == 0 {
				a = append(a, v)
			}
		}
		rng.Shuffle(len(a), func(x, y int) { a[x], a[y] = a[y], a[x] })
		r[i] = a
	}
	return r
}

func c18RandGraph(rng *rand.Rand, n int) [][]int {
	g := make([][]int, n)
	avg := []float64{0.3, 1, 1.5, 2.5, 5}[rng.Intn(5)]
	for i := range g {
		g[i] = []int{}
		d := 0
		for rng.Float64() < avg/(avg+1) && d < 3*n+3 {
			d++
		}
		for k := 0; k < d; k++ {
			switch rng.Intn(8) {
			case 0:
				g[i] = append(g[i], i) // self-loop
			case 1:
				if len(g[i]) > 0 {
					g[i] = append(g[i], g[i][rng.Intn(len(g[i]))]) // parallel edge
					break
				}
				fallthrough
			default:
				g[i] = append(g[i], rng.Intn(n))
			}
		}
	}
	return g
}

// structured graphs on n nodes under a relabelling of the node ids:
// kind 0 path, 1 cycle, 2 binary tree, 3 DAG layers, 4 cycle chain (many SCCs), 5 random tree with back edges
func c18Structured(rng *rand.Rand, kind, n, relabel int) [][]int {
	perm := make([]int, n)
	for i := range perm {
		perm[i] = i
	}
	switch relabel {
	case 1:
		for i := range perm {
			perm[i] = n - 1 - i
		}
	case 2:
		rng.Shuffle(n, func(x, y int) { perm[x], perm[y] = perm[y], perm[x] })
	}
	g := make([][]int, n)
	for i := range g {
		g[i] = []int{}
	}
	add := func(u, v int) { g[perm[u]] = append(g[perm[u]], perm[v]) }
	switch kind {
	case 0:
		for i := 0; i+1 < n; i++ {
			add(i, i+1)
		}
	case 1:
		for i := 0; i < n; i++ {
			add(i, (i+1)%n)
		}
	case 2:
		for i := 0; i < n; i++ {
			if 2*i+1 < n {
				add(i, 2*i+1)
			}
			if 2*i+2 < n {
				add(i, 2*i+2)
			}
		}
	case 3:
		w := 1 + rng.Intn(40)
		for i := 0; i < n; i++ {
			layer := i / w
			for k := 0; k < 1+rng.Intn(3); k++ {
				j := (layer+1)*w + rng.Intn(w)
				if j < n {
					add(i, j)
				}
			}
		}
	case 4:
		w := 2 + rng.Intn(30)
		for i := 0; i < n; i++ {
			base := i / w * w
			j := base + (i-base+1)%w
			if j >= n {
				j = base
			}
			add(i, j)
			if i%w == 0 && i+w < n {
				add(i, i+w)
			}
		}
	default:
		for i := 1; i < n; i++ {
			add(rng.Intn(i), i)
		}
		for k := 0; k < n/8; k++ {
			add(rng.Intn(n), rng.Intn(n))
		}
	}
	return g
}

func c18Sizes(tier string) []int {
	s := []int{31, 33, 1023, 1024, 1025, 2047, 2049, 4097, 5000}
	if tier == "thorough" {
		s = append(s, 8191, 8193, 16385, 32769, 65537, 100000)
	}
	return s
}

func c18Roots(rng *rand.Rand, n, k int) []int {
	var r []int
	if n == 0 {
		return []int{0}
	}
	for i := 0; i < k; i++ {
		r = append(r, rng.Intn(n))
	}
	return r
}

func c18AllRoots(n int) []int {
	r := []int{}
	for i := 0; i < n; i++ {
		r = append(r, i)
	}
	return r
}

func c18GenTrav(tier string, rng *rand.Rand, emit func(interface{})) {
	thorough := tier == "thorough"
	// (a) every digraph on <= 4 nodes with every root; a shuffled / doubled-edge variant of a sample
	for n := 1; n <= 4; n++ {
		for mask := uint64(0); mask < 1<<uint(n*n); mask++ {
			g := c18MaskGraph(n, mask)
			emit(c18Case{Op: 2, G: g, Roots: c18AllRoots(n)})
			if n < 4 || rng.Intn(4) == 0 || thorough {
				v := c18Variant(rng, g)
				// quick: one in five of the sampled 4-node variants is left out (the variant is still drawn, so the
				// random stream is unchanged); the histories of c18GenHist run 1200 such variants from every root
				if n < 4 || thorough || mask%5 != 0 {
					emit(c18Case{Op: 2, G: v, Roots: c18AllRoots(n)})
				}
			}
		}
	}
	if thorough {
		// 5 nodes: every loop-free digraph, self-loops / doubling / order drawn at random
		for mask := uint64(0); mask < 1<<20; mask++ {
			var full uint64
			b := 0
			for i := 0; i < 5; i++ {
				for j := 0; j < 5; j++ {
					if i == j {
						if rng.Intn(4) == 0 {
							full |= 1 << uint(i*5+j)
						}
						continue
					}
					if mask>>uint(b)&1 == 1 {
						full |= 1 << uint(i*5+j)
					}
					b++
				}
			}
			g := c18MaskGraph(5, full)
			if rng.Intn(2) == 0 {
				g = c18Variant(rng, g)
			}
			emit(c18Case{Op: 2, G: g, Roots: c18AllRoots(5)})
		}
	}
	// malformed: roots outside the graph, empty graph
	emit(c18Case{Op: 2, G: [][]int{}, Roots: []int{0, -1}})
	emit(c18Case{Op: 2, G: [][]int{{0}}, Roots: []int{1, -1, 0}})
	emit(c18Case{Op: 2, G: [][]int{{1}, {0}}, Roots: []int{2, 0, -3}})
	// (b) random multigraphs up to 60 nodes
	nRand := 1500
	if thorough {
		nRand = 30000
	}
	for it := 0; it < nRand; it++ {
		n := 1 + rng.Intn(60)
		if rng.Intn(4) == 0 {
			n = 1 + rng.Intn(8)
		}
		emit(c18Case{Op: 2, G: c18RandGraph(rng, n), Roots: c18Roots(rng, n, 3)})
	}
	// (c) structured graphs whose node ids cross the storage growth boundaries
	for _, n := range c18Sizes(tier) {
		for kind := 0; kind < 6; kind++ {
			for relabel := 0; relabel < 3; relabel++ {
				if n > 20000 && relabel == 1 && kind > 1 {
					continue
				}
				g := c18Structured(rng, kind, n, relabel)
				roots := []int{0, n - 1}
				if relabel == 2 {
					roots = c18Roots(rng, n, 2)
				}
				if n > 20000 { // one root: the start of the structure under the relabelling
					roots = roots[:1]
					if relabel == 1 {
						roots = []int{n - 1}
					}
				}
				emit(c18Case{Op: 2, G: g, Roots: roots})
			}
		}
	}
}

// ---------------------------------------------------------------- op 3: SCC
// the value a caller appends to result slices (not a node or component id)
const c18AppendSentinel = -7

// c18Independent: as a caller may, append a sentinel to EVERY slice a result hands out (read returns
// the live slices, not copies), then read all of them again and compare with the first reading.
// Appending to one result must never change another result (cap == len is not demanded).
func c18Independent(read func() [][]int, first [][]int) bool {
	ok := true
	if p, _ := catch(func() {
		for _, s := range read() {
			_ = append(s, c18AppendSentinel)
		}
		again := read()
		if len(again) != len(first) {
			ok = false
			return
		}
		for i := range again {
			if len(again[i]) != len(first[i]) {
				ok = false
				return
			}
			for k := range again[i] {
				if again[i][k] != first[i][k] {
					ok = false
					return
				}
			}
		}
	}); p {
		ok = false
	}
	return ok
}

func c18RunSCC(c *c18Case, l *Line) (*Line, error) {
	if err := c18ValidGraph(c.G); err != nil {
		return nil, err
	}
	if c.Flags < 0 || c.Flags > 3 {
		return nil, fmt.Errorf("bad flags")
	}
	orig := c18Copy(c.G)
	g := c.graph()
	l.c18Graph(orig).I(c.Flags)
	var comps, outs [][]int
	var cof []int
	hascof := 0 // 1: flags != 0, SubnodeComponent listed; 0: no flag and SubnodeComponent(0) panics; 2: no flag and it returned
	if c.Flags != 0 {
		hascof = 1
	}
	var scc *graphalg.SCCGraph
	pan, _ := catch(func() {
		s := graphalg.SCC(g, graphalg.SCCFlags(c.Flags))
		scc = s
		nc := s.NumNodes()
		for cid := 0; cid < nc; cid++ {
			comps = append(comps, append([]int{}, s.Subnodes(cid)...))
			outs = append(outs, append([]int{}, s.Out(cid)...))
		}
		if c.Flags != 0 {
			for v := 0; v < len(c.G); v++ {
				cof = append(cof, s.SubnodeComponent(v))
			}
		} else if len(c.G) > 0 {
			// without a flag SubnodeComponent is documented to be unavailable: it panics
			if p2, _ := catch(func() { s.SubnodeComponent(0) }); !p2 {
				hascof = 2
			}
		}
	})
	if pan {
		l.I(2).I(0).I(0).I(0).I(0)
	} else {
		l.I(0).I(len(comps))
		for _, x := range comps {
			l.Is(x)
		}
		l.I(hascof)
		l.Is(cof)
		l.I(len(outs))
		for _, x := range outs {
			l.Is(x)
		}
	}
	indep := true
	if !pan {
		indep = c18Independent(func() [][]int {
			var r [][]int
			for cid := 0; cid < scc.NumNodes(); cid++ {
				r = append(r, scc.Subnodes(cid))
			}
			for cid := 0; cid < scc.NumNodes(); cid++ {
				r = append(r, scc.Out(cid))
			}
			if c.Flags != 0 {
				again := []int{}
				for v := 0; v < len(c.G); v++ {
					again = append(again, scc.SubnodeComponent(v))
				}
				r = append(r, again)
			}
			return r
		}, func() [][]int {
			first := append(append([][]int{}, comps...), outs...)
			if c.Flags != 0 {
				first = append(first, append([]int{}, cof...))
			}
			return first
		}())
	}
	l.B(c18Same(orig, c.G) && indep).c18Graph(c.G)
	return l, nil
}

func c18GenSCC(tier string, rng *rand.Rand, emit func(interface{})) {
	thorough := tier == "thorough"
	k := 0
	flags := func() int { k++; return []int{3, 3, 2, 3, 1, 3, 0, 3}[k%8] }
	for f := 0; f <= 3; f++ {
		emit(c18Case{Op: 3, G: [][]int{}, Flags: f})
		emit(c18Case{Op: 3, G: [][]int{{}}, Flags: f})
		emit(c18Case{Op: 3, G: [][]int{{0, 0}}, Flags: f})
	}
	for n := 1; n <= 4; n++ {
		for mask := uint64(0); mask < 1<<uint(n*n); mask++ {
			g := c18MaskGraph(n, mask)
			emit(c18Case{Op: 3, G: g, Flags: flags()})
			if n < 4 || rng.Intn(8) == 0 || thorough {
				emit(c18Case{Op: 3, G: c18Variant(rng, g), Flags: flags()})
			}
		}
	}
	if thorough {
		for mask := uint64(0); mask < 1<<20; mask++ {
			var full uint64
			b := 0
			for i := 0; i < 5; i++ {
				for j := 0; j < 5; j++ {
					if i == j {
						if rng.Intn(4) == 0 {
							full |= 1 << uint(i*5+j)
						}
						continue
					}
					if mask>>uint(b)&1 == 1 {
						full |= 1 << uint(i*5+j)
					}
					b++
				}
			}
			emit(c18Case{Op: 3, G: c18MaskGraph(5, full), Flags: flags()})
		}
	}
	nRand := 1500
	if thorough {
		nRand = 30000
	}
	for it := 0; it < nRand; it++ {
		n := 1 + rng.Intn(60)
		if rng.Intn(4) == 0 {
			n = 1 + rng.Intn(8)
		}
		emit(c18Case{Op: 3, G: c18RandGraph(rng, n), Flags: flags()})
	}
	for _, n := range c18Sizes(tier) {
		for kind := 0; kind < 6; kind++ {
			for relabel := 0; relabel < 3; relabel++ {
				if n > 20000 && relabel == 1 && kind > 1 {
					continue
				}
				emit(c18Case{Op: 3, G: c18Structured(rng, kind, n, relabel), Flags: flags()})
			}
		}
	}
}

// ---------------------------------------------------------------- op 4: MakeBiGraph
func c18RunBi(c *c18Case, l *Line) (*Line, error) {
	if err := c18ValidGraph(c.G); err != nil {
		return nil, err
	}
	orig := c18Copy(c.G)
	g := c.graph()
	l.c18Graph(orig)
	var ins, bout [][]int
	idem := true
	var big graph.BiGraph
	pan, _ := catch(func() {
		b := graph.MakeBiGraph(g)
		big = b
		// the result's own NumNodes / Out are transported (bout); In is asked for every node of the argument
		nb := b.NumNodes()
		bout = [][]int{}
		for j := 0; j < nb; j++ {
			bout = append(bout, append([]int{}, b.Out(j)...))
		}
		for j := 0; j < len(orig); j++ {
			ins = append(ins, append([]int{}, b.In(j)...))
		}
		// "If g is already a BiGraph, this returns g": interface identity, a Go-level predicate
		if graph.MakeBiGraph(b) != b {
			idem = false
		}
	})
	if pan {
		l.I(2).I(0).I(0).I(0)
	} else {
		l.I(0).I(len(ins))
		for _, x := range ins {
			l.Is(x)
		}
		l.c18Graph(bout).B(idem)
	}
	indep := true
	if !pan {
		// In lists only: Out(j) of the result is the argument's own list
		indep = c18Independent(func() [][]int {
			var r [][]int
			for j := 0; j < len(orig); j++ {
				r = append(r, big.In(j))
			}
			return r
		}, ins)
	}
	l.B(c18Same(orig, c.G) && indep).c18Graph(c.G)
	return l, nil
}

// ---------------------------------------------------------------- op 5: Equal
func c18RunEqual(c *c18Case, l *Line) (*Line, error) {
	if err := c18ValidGraph(c.G); err != nil {
		return nil, err
	}
	if err := c18ValidGraph(c.G2); err != nil {
		return nil, err
	}
	o1, o2 := c18Copy(c.G), c18Copy(c.G2)
	l.c18Graph(o1).c18Graph(o2)
	res, res21 := false, false
	pan, _ := catch(func() {
		res = graph.Equal(c.graph(), graph.IntGraph(c.G2))
		res21 = graph.Equal(graph.IntGraph(c.G2), c.graph())
	})
	if pan {
		l.I(2).I(0).I(0)
	} else {
		l.I(0).B(res).B(res21)
	}
	l.B(c18Same(o1, c.G) && c18Same(o2, c.G2)).c18Graph(c.G).c18Graph(c.G2)
	return l, nil
}

// ---------------------------------------------------------------- op 6: SimplifyMulti
type c18Weighted struct {
	graph.IntGraph
	w [][]float64
}

func (x c18Weighted) OutWeight(i, e int) float64 { return x.w[i][e] }

func c18RunSimplify(c *c18Case, l *Line) (*Line, error) {
	if err := c18ValidGraph(c.G); err != nil {
		return nil, err
	}
	weighted := c.W != nil
	var w [][]float64
	if weighted {
		if len(c.W) != len(c.G) {
			return nil, fmt.Errorf("weights do not match the graph")
		}
		for i := range c.W {
			if len(c.W[i]) != len(c.G[i]) {
				return nil, fmt.Errorf("weights do not match the graph")
			}
			row := fromF64s(c.W[i])
			for _, x := range row {
				if x != x || x > 1e9 || x < -1e9 || x*1024 != float64(int64(x*1024)) {
					return nil, fmt.Errorf("weights must be small dyadic numbers (exact sums)")
				}
			}
			w = append(w, row)
		}
	}
	orig := c18Copy(c.G)
	l.c18Graph(orig).B(weighted)
	if weighted {
		l.I(len(w))
		for _, row := range w {
			l.Fs(row)
		}
	} else {
		l.I(0)
	}
	var rg [][]int
	var rw [][]float64
	var simp graph.Graph
	pan, _ := catch(func() {
		in := c.graph()
		if weighted {
			in = c18Weighted{graph.IntGraph(c.G), w}
		}
		r := graphalg.SimplifyMulti(in)
		simp = r
		for i := 0; i < r.NumNodes(); i++ {
			o := append([]int{}, r.Out(i)...)
			rg = append(rg, o)
			ws := make([]float64, len(o))
			for e := range o {
				ws[e] = r.OutWeight(i, e)
			}
			rw = append(rw, ws)
		}
	})
	if pan {
		l.I(2).I(0).I(0)
	} else {
		l.I(0).c18Graph(rg).I(len(rw))
		for _, row := range rw {
			l.Fs(row)
		}
	}
	pure := c18Same(orig, c.G)
	if !pan && !c18Independent(func() [][]int {
		var r [][]int
		for i := 0; i < simp.NumNodes(); i++ {
			r = append(r, simp.Out(i))
		}
		return r
	}, rg) {
		pure = false
	}
	if weighted {
		for i := range w {
			for j := range w[i] {
				if w[i][j] != float64(c.W[i][j]) {
					pure = false
				}
			}
		}
	}
	l.B(pure).c18Graph(c.G)
	return l, nil
}

// ---------------------------------------------------------------- op 7/8: SubgraphKeep / SubgraphRemove
func c18RunSub(c *c18Case, l *Line) (*Line, error) {
	if err := c18ValidGraph(c.G); err != nil {
		return nil, err
	}
	const lim = 1 << 16
	for _, v := range c.Nodes {
		if v < -lim || v > lim {
			return nil, fmt.Errorf("node id too large")
		}
	}
	for _, e := range c.Edges {
		if e[0] < -lim || e[0] > lim || e[1] < -lim || e[1] > lim {
			return nil, fmt.Errorf("edge id too large")
		}
	}
	orig := c18Copy(c.G)
	nodes := append([]int{}, c.Nodes...)
	edges := make([]graph.Edge, len(c.Edges))
	for i, e := range c.Edges {
		edges[i] = graph.Edge{Node: e[0], Edge: e[1]}
	}
	l.c18Graph(orig).Is(c.Nodes).I(2 * len(c.Edges))
	for _, e := range c.Edges {
		l.I(e[0]).I(e[1])
	}
	type nd struct {
		old  int
		out  []int
		emap []int
	}
	var res []nd
	var sub graph.Subgraph
	pan, _ := catch(func() {
		var s graph.Subgraph
		defer func() { sub = s }()
		if c.Op == 7 {
			s = graph.SubgraphKeep(c.graph(), nodes, edges)
		} else {
			s = graph.SubgraphRemove(c.graph(), nodes, edges)
		}
		nm := s.NodeMap(func(node int) interface{} { return node })
		em := s.EdgeMap(func(node, edge int) interface{} { return [2]int{node, edge} })
		for i := 0; i < s.NumNodes(); i++ {
			x := nd{old: nm(i).(int), out: append([]int{}, s.Out(i)...)}
			for j := range x.out {
				p := em(i, j).([2]int)
				x.emap = append(x.emap, p[0], p[1])
			}
			res = append(res, x)
		}
	})
	if pan {
		l.I(2).I(0)
	} else {
		l.I(0).I(len(res))
		for _, x := range res {
			l.I(x.old).Is(x.out).Is(x.emap)
		}
	}
	pure := c18Same(orig, c.G) && len(nodes) == len(c.Nodes)
	if !pan {
		first := make([][]int, len(res))
		for i := range res {
			first[i] = res[i].out
		}
		if !c18Independent(func() [][]int {
			var r [][]int
			for i := 0; i < sub.NumNodes(); i++ {
				r = append(r, sub.Out(i))
			}
			return r
		}, first) {
			pure = false
		}
	}
	for i := range nodes {
		if pure && nodes[i] != c.Nodes[i] {
			pure = false
		}
	}
	for i := range edges {
		if edges[i].Node != c.Edges[i][0] || edges[i].Edge != c.Edges[i][1] {
			pure = false
		}
	}
	// the arguments after the call: graph, node list, edge list
	l.B(pure).c18Graph(c.G).Is(nodes).I(2 * len(edges))
	for _, e := range edges {
		l.I(e.Node).I(e.Edge)
	}
	return l, nil
}

// all lists of length <= maxLen over targets 0..n-1
func c18AllLists(n, maxLen int) [][]int {
	res := [][]int{{}}
	prev := [][]int{{}}
	for k := 0; k < maxLen; k++ {
		var next [][]int
		for _, p := range prev {
			for t := 0; t < n; t++ {
				next = append(next, append(append([]int{}, p...), t))
			}
		}
		res = append(res, next...)
		prev = next
	}
	return res
}

func c18GenGraphOps(tier string, rng *rand.Rand, emit func(interface{})) {
	thorough := tier == "thorough"
	scale := 1
	if thorough {
		scale = 12
	}
	// pool of graphs: every digraph on <= 3 nodes, a sample of the 4-node ones, variants, random multigraphs
	var pool [][][]int
	for n := 0; n <= 3; n++ {
		for mask := uint64(0); mask < 1<<uint(n*n); mask++ {
			g := c18MaskGraph(n, mask)
			pool = append(pool, g, c18Variant(rng, g))
		}
	}
	for k := 0; k < 1500*scale; k++ {
		g := c18MaskGraph(4, uint64(rng.Intn(1<<16)))
		if k%2 == 0 {
			g = c18Variant(rng, g)
		}
		pool = append(pool, g)
	}
	for k := 0; k < 500*scale; k++ {
		n := 1 + rng.Intn(60)
		if rng.Intn(3) == 0 {
			n = 1 + rng.Intn(9)
		}
		pool = append(pool, c18RandGraph(rng, n))
	}
	var big [][][]int
	for _, n := range []int{1023, 1025, 2049, 5000} {
		for kind := 0; kind < 6; kind++ {
			big = append(big, c18Structured(rng, kind, n, rng.Intn(3)))
		}
	}
	// ---- op 4
	for _, g := range pool {
		emit(c18Case{Op: 4, G: g})
	}
	for _, g := range big {
		emit(c18Case{Op: 4, G: g})
	}
	// ---- op 5: every pair of 2-node graphs with adjacency lists of length <= 2, then perturbations
	l2 := c18AllLists(2, 2)
	var g2s [][][]int
	for _, a := range l2 {
		for _, b := range l2 {
			g2s = append(g2s, [][]int{a, b})
		}
	}
	for _, a := range g2s {
		for _, b := range g2s {
			emit(c18Case{Op: 5, G: c18Copy(a), G2: c18Copy(b)})
		}
	}
	for _, a := range c18AllLists(3, 3) { // one node of a 3-node graph against every other list
		for _, b := range c18AllLists(3, 3) {
			if len(a) == len(b) || rng.Intn(10) == 0 {
				emit(c18Case{Op: 5, G: [][]int{a, {}, {}}, G2: [][]int{b, {}, {}}})
			}
		}
	}
	for _, g := range pool {
		if len(g) == 0 {
			emit(c18Case{Op: 5, G: g, G2: [][]int{}})
			emit(c18Case{Op: 5, G: g, G2: [][]int{{}}})
			continue
		}
		h := c18Copy(g)
		switch rng.Intn(7) {
		case 0: // identical
		case 1, 2: // same multisets, other order
			for i := range h {
				a := h[i]
				rng.Shuffle(len(a), func(x, y int) { a[x], a[y] = a[y], a[x] })
			}
		case 3: // one target changed
			i := rng.Intn(len(h))
			if len(h[i]) > 0 {
				h[i][rng.Intn(len(h[i]))] = rng.Intn(len(h))
			}
		case 4: // same sets, different multiplicities: [a a b] vs [a b b]
			i := rng.Intn(len(h))
			if len(h[i]) >= 2 {
				h[i][0] = h[i][len(h[i])-1]
			}
			a := h[i]
			rng.Shuffle(len(a), func(x, y int) { a[x], a[y] = a[y], a[x] })
		case 5: // one more / one fewer node
			if rng.Intn(2) == 0 {
				h = append(h, []int{})
			} else {
				h = c18RandGraph(rng, len(h))
			}
		default: // an edge added or dropped
			i := rng.Intn(len(h))
			if len(h[i]) > 0 && rng.Intn(2) == 0 {
				h[i] = h[i][1:]
			} else {
				h[i] = append(h[i], rng.Intn(len(h)))
			}
		}
		emit(c18Case{Op: 5, G: g, G2: h})
	}
	for _, g := range big[:8] {
		h := c18Copy(g)
		i := rng.Intn(len(h))
		if len(h[i]) > 0 && rng.Intn(2) == 0 {
			h[i][0] = (h[i][0] + 1) % len(h)
		}
		emit(c18Case{Op: 5, G: g, G2: h})
	}
	// ---- op 6
	wts := func(g [][]int) [][]F64 {
		w := make([][]F64, len(g))
		for i := range g {
			w[i] = make([]F64, len(g[i]))
			for j := range w[i] {
				switch rng.Intn(4) {
				case 0:
					w[i][j] = F64(float64(rng.Intn(7) - 3))
				case 1:
					w[i][j] = 1
				default:
					w[i][j] = F64(float64(rng.Intn(161)-80) / 8)
				}
			}
		}
		return w
	}
	l3 := c18AllLists(2, 3)
	for _, a := range l3 {
		for _, b := range l3 {
			g := [][]int{a, b}
			emit(c18Case{Op: 6, G: c18Copy(g)})
			emit(c18Case{Op: 6, G: c18Copy(g), W: wts(g)})
		}
	}
	for _, a := range c18AllLists(3, 4) {
		g := [][]int{{}, a, {}}
		if rng.Intn(2) == 0 {
			emit(c18Case{Op: 6, G: g})
		} else {
			emit(c18Case{Op: 6, G: g, W: wts(g)})
		}
	}
	for k, g := range pool {
		if k%3 == 0 {
			continue
		}
		h := c18Copy(g)
		if k%2 == 0 { // heavy duplication
			for i := range h {
				for r := rng.Intn(4); r > 0 && len(h[i]) > 0; r-- {
					h[i] = append(h[i], h[i][rng.Intn(len(h[i]))])
				}
			}
		}
		if rng.Intn(2) == 0 {
			emit(c18Case{Op: 6, G: h})
		} else {
			emit(c18Case{Op: 6, G: h, W: wts(h)})
		}
	}
	for _, g := range big[:6] {
		emit(c18Case{Op: 6, G: c18Variant(rng, g)})
	}
	// ---- op 7 / 8
	allEdges := func(g [][]int) [][2]int {
		var es [][2]int
		for i := range g {
			for j := range g[i] {
				es = append(es, [2]int{i, j})
			}
		}
		return es
	}
	subset := func(n int, p float64) []int {
		r := []int{}
		for i := 0; i < n; i++ {
			if rng.Float64() < p {
				r = append(r, i)
			}
		}
		return r
	}
	keepCase := func(g [][]int, nodes []int, p float64) c18Case {
		in := map[int]bool{}
		for _, v := range nodes {
			in[v] = true
		}
		es := [][2]int{}
		for _, e := range allEdges(g) {
			if in[e[0]] && in[g[e[0]][e[1]]] && rng.Float64() < p {
				es = append(es, e)
			}
		}
		rng.Shuffle(len(es), func(x, y int) { es[x], es[y] = es[y], es[x] })
		return c18Case{Op: 7, G: g, Nodes: nodes, Edges: es}
	}
	// every graph on <= 3 nodes x every node subset (ascending and shuffled), all induced edges
	for n := 1; n <= 3; n++ {
		for mask := uint64(0); mask < 1<<uint(n*n); mask++ {
			g := c18MaskGraph(n, mask)
			if rng.Intn(3) == 0 {
				g = c18Variant(rng, g)
			}
			for sub := 0; sub < 1<<uint(n); sub++ {
				nodes := []int{}
				for i := 0; i < n; i++ {
					if sub>>uint(i)&1 == 1 {
						nodes = append(nodes, i)
					}
				}
				c := keepCase(g, nodes, 1)
				emit(c)
				sh := append([]int{}, nodes...)
				rng.Shuffle(len(sh), func(x, y int) { sh[x], sh[y] = sh[y], sh[x] })
				emit(keepCase(g, sh, 0.7))
				// remove: the complement view, with some edges removed by name
				es := allEdges(g)
				rme := [][2]int{}
				for _, e := range es {
					if rng.Intn(3) == 0 {
						rme = append(rme, e)
					}
				}
				emit(c18Case{Op: 8, G: g, Nodes: nodes, Edges: rme})
			}
		}
	}
	for k, g := range append(append([][][]int{}, pool...), big[:12]...) {
		n := len(g)
		if n == 0 {
			emit(c18Case{Op: 7, G: g, Nodes: []int{}, Edges: [][2]int{}})
			emit(c18Case{Op: 8, G: g, Nodes: []int{}, Edges: [][2]int{}})
			emit(c18Case{Op: 8, G: g, Nodes: []int{0}, Edges: [][2]int{}})
			continue
		}
		if n <= 3 && k%4 != 0 {
			continue
		}
		p := []float64{0.2, 0.5, 0.8, 1}[rng.Intn(4)]
		nodes := subset(n, p)
		if rng.Intn(2) == 0 {
			rng.Shuffle(len(nodes), func(x, y int) { nodes[x], nodes[y] = nodes[y], nodes[x] })
		}
		c := keepCase(g, nodes, []float64{0.3, 0.7, 1}[rng.Intn(3)])
		switch rng.Intn(12) { // malformed requests
		case 0:
			if len(c.Nodes) > 0 {
				c.Nodes = append(c.Nodes, c.Nodes[rng.Intn(len(c.Nodes))]) // duplicate node: panics
			}
		case 1:
			c.Nodes = append(c.Nodes, n+rng.Intn(3)) // node outside the graph: panics
		case 2:
			c.Nodes = append([]int{-1 - rng.Intn(2)}, c.Nodes...)
		case 3:
			es := allEdges(g) // edges whose endpoints are not all kept: the Go maps answer 0
			if len(es) > 0 {
				c.Edges = append(c.Edges, es[rng.Intn(len(es))])
			}
		case 4:
			i := rng.Intn(n)
			c.Edges = append(c.Edges, [2]int{i, len(g[i]) + rng.Intn(2)}) // edge index out of range: panics
		case 5:
			if len(c.Edges) > 0 {
				c.Edges = append(c.Edges, c.Edges[rng.Intn(len(c.Edges))]) // the same edge twice
			}
		case 6:
			c.Edges = append(c.Edges, [2]int{n + rng.Intn(2), 0}) // edge of a node outside the graph
		}
		emit(c)
		// remove
		rm := subset(n, []float64{0, 0.15, 0.4, 0.8}[rng.Intn(4)])
		rng.Shuffle(len(rm), func(x, y int) { rm[x], rm[y] = rm[y], rm[x] })
		rme := [][2]int{}
		for _, e := range allEdges(g) {
			if rng.Intn(4) == 0 {
				rme = append(rme, e)
			}
		}
		switch rng.Intn(10) {
		case 0:
			if len(rm) > 0 {
				rm = append(rm, rm[rng.Intn(len(rm))]) // duplicates are harmless
			}
		case 1:
			rm = append(rm, n+rng.Intn(3), -1) // ids outside the graph are ignored ...
		case 2:
			for x := 0; x < n+2; x++ { // ... until there are more of them than nodes: negative capacity, panics
				rm = append(rm, n+x)
			}
		case 3:
			rme = append(rme, [2]int{rng.Intn(n), 50}, [2]int{n + 1, 0}, [2]int{-1, 0}) // edges that do not exist
		case 4:
			if len(rme) > 0 {
				rme = append(rme, rme[0])
			}
		}
		emit(c18Case{Op: 8, G: g, Nodes: rm, Edges: rme})
	}
}

// ---------------------------------------------------------------- op 9/10: Dot
func c18Bytes(b []int) (string, error) {
	r := make([]byte, len(b))
	for i, x := range b {
		if x < 0 || x > 255 {
			return "", fmt.Errorf("not a byte")
		}
		r[i] = byte(x)
	}
	return string(r), nil
}

func (l *Line) c18Str(s string) *Line {
	l.I(len(s))
	for i := 0; i < len(s); i++ {
		l.I(int(s[i]))
	}
	return l
}

func c18RunDotString(c *c18Case, l *Line) (*Line, error) {
	s, err := c18Bytes(c.S)
	if err != nil {
		return nil, err
	}
	l.c18Str(s)
	var r string
	pan, _ := catch(func() { r = graphout.DotString(s) })
	if pan {
		l.I(2).I(0)
	} else {
		l.I(0).c18Str(r)
	}
	return l, nil
}

const c18Sentinel = "\x00sentinel"

func c18MkAttrs(as []c18Attr) ([]graphout.DotAttr, error) {
	// spare capacity with a sentinel behind the end: Fprint must not write into the caller's slice
	r := make([]graphout.DotAttr, len(as), len(as)+1)
	for i, a := range as {
		name, err := c18Bytes(a.N)
		if err != nil {
			return nil, err
		}
		sv, err := c18Bytes(a.S)
		if err != nil {
			return nil, err
		}
		if a.I > 1<<40 || a.I < -(1<<40) {
			return nil, fmt.Errorf("attribute integer too large")
		}
		var v interface{}
		switch a.K {
		case 0:
			v = sv
		case 1:
			v = a.I
		case 2:
			v = graphout.DotLiteral(sv)
		case 3:
			v = a.I != 0
		case 4:
			if a.I < 0 {
				return nil, fmt.Errorf("negative uint")
			}
			v = uint(a.I)
		default:
			return nil, fmt.Errorf("bad attribute kind")
		}
		r[i] = graphout.DotAttr{Name: name, Val: v}
	}
	r[:len(as)+1][len(as)] = graphout.DotAttr{Name: c18Sentinel}
	return r, nil
}

func (l *Line) c18Attrs(as []c18Attr) *Line {
	l.I(len(as))
	for _, a := range as {
		l.Is(a.N).I(a.K)
		switch a.K {
		case 0, 2:
			l.Is(a.S)
		case 1, 4:
			l.I(a.I)
		}
	}
	return l
}

func c18RunSprint(c *c18Case, l *Line) (*Line, error) {
	if err := c18ValidGraph(c.G); err != nil {
		return nil, err
	}
	n := len(c.G)
	if n > 4096 {
		return nil, fmt.Errorf("graph too large for Dot")
	}
	name, err := c18Bytes(c.Name)
	if err != nil {
		return nil, err
	}
	d := graphout.Dot{Name: name}
	orig := c18Copy(c.G)
	l.c18Graph(orig).Is(c.Name)
	// Label
	l.B(c.HasL)
	if c.HasL {
		if len(c.Labels) != n {
			return nil, fmt.Errorf("labels do not match the graph")
		}
		labels := make([]string, n)
		l.I(n)
		for i := range labels {
			if labels[i], err = c18Bytes(c.Labels[i]); err != nil {
				return nil, err
			}
			l.Is(c.Labels[i])
		}
		d.Label = func(node int) string { return labels[node] }
	} else {
		l.I(0)
	}
	// NodeAttrs
	var ntab [][]graphout.DotAttr
	l.B(c.HasN)
	if c.HasN {
		if len(c.NAttrs) != n {
			return nil, fmt.Errorf("node attributes do not match the graph")
		}
		l.I(n)
		for i := 0; i < n; i++ {
			as, err := c18MkAttrs(c.NAttrs[i])
			if err != nil {
				return nil, err
			}
			ntab = append(ntab, as)
			l.c18Attrs(c.NAttrs[i])
		}
		d.NodeAttrs = func(node int) []graphout.DotAttr { return ntab[node] }
	} else {
		l.I(0)
	}
	// EdgeAttrs
	var etab [][][]graphout.DotAttr
	l.B(c.HasE)
	if c.HasE {
		if len(c.EAttrs) != n {
			return nil, fmt.Errorf("edge attributes do not match the graph")
		}
		l.I(n)
		for i := 0; i < n; i++ {
			if len(c.EAttrs[i]) != len(c.G[i]) {
				return nil, fmt.Errorf("edge attributes do not match the graph")
			}
			var row [][]graphout.DotAttr
			l.I(len(c.EAttrs[i]))
			for j := range c.EAttrs[i] {
				as, err := c18MkAttrs(c.EAttrs[i][j])
				if err != nil {
					return nil, err
				}
				row = append(row, as)
				l.c18Attrs(c.EAttrs[i][j])
			}
			etab = append(etab, row)
		}
		d.EdgeAttrs = func(node, edge int) []graphout.DotAttr { return etab[node][edge] }
	} else {
		l.I(0)
	}
	var out string
	pan, _ := catch(func() { out = d.Sprint(c.graph()) })
	if pan {
		l.I(2).I(0)
	} else {
		l.I(0).c18Str(out)
	}
	pure := c18Same(orig, c.G)
	chk := func(as []graphout.DotAttr, src []c18Attr) {
		if len(as) != len(src) || as[:len(as)+1][len(as)].Name != c18Sentinel {
			pure = false
		}
	}
	for i := range ntab {
		chk(ntab[i], c.NAttrs[i])
	}
	for i := range etab {
		for j := range etab[i] {
			chk(etab[i][j], c.EAttrs[i][j])
		}
	}
	l.B(pure).c18Graph(c.G)
	return l, nil
}

func c18GenDot(tier string, rng *rand.Rand, emit func(interface{})) {
	thorough := tier == "thorough"
	special := []int{'\\', '"', 'n', '\n', '{', '}', '<', '>', '|', 'a', 0, 255, ' ', '\r', '\t', 'l', 'N'}
	emit(c18Case{Op: 9, S: []int{}})
	for b := 0; b < 256; b++ {
		emit(c18Case{Op: 9, S: []int{b}})
		emit(c18Case{Op: 9, S: []int{'\\', b}})
		emit(c18Case{Op: 9, S: []int{b, '"'}})
	}
	for _, a := range special {
		for _, b := range special {
			emit(c18Case{Op: 9, S: []int{a, b}})
			for _, c := range special {
				if thorough || rng.Intn(3) == 0 {
					emit(c18Case{Op: 9, S: []int{a, b, c}})
				}
			}
		}
	}
	randBytes := func(maxLen int) []int {
		k := rng.Intn(maxLen + 1)
		r := make([]int, k)
		mode := rng.Intn(3)
		for i := range r {
			switch {
			case mode == 0 || rng.Intn(3) == 0:
				r[i] = special[rng.Intn(len(special))]
			case mode == 1:
				r[i] = rng.Intn(256)
			default:
				r[i] = 32 + rng.Intn(95)
			}
		}
		return r
	}
	nStr := 1500
	if thorough {
		nStr = 30000
	}
	for k := 0; k < nStr; k++ {
		emit(c18Case{Op: 9, S: randBytes(40)})
	}
	// Sprint
	toInts := func(s string) []int {
		r := make([]int, len(s))
		for i := range r {
			r[i] = int(s[i])
		}
		return r
	}
	var names [][]int
	for _, nm := range []string{"label", "color", "shape", "x", "Label", "labe", "labels"} {
		names = append(names, toInts(nm))
	}
	wide := false // second block: attribute names with bytes DotString would escape (names are written raw), up to 7 attributes
	randAttrs := func(bad bool) []c18Attr {
		k := rng.Intn(4)
		if rng.Intn(3) == 0 {
			k = 0
		} else if wide && rng.Intn(4) == 0 {
			k = 4 + rng.Intn(4)
		}
		as := make([]c18Attr, k)
		for i := range as {
			a := c18Attr{N: names[rng.Intn(len(names))]}
			switch rng.Intn(8) {
			case 0, 1, 2:
				a.K, a.S = 0, randBytes(8)
			case 3:
				a.K, a.I = 1, rng.Intn(2001)-1000
			case 4:
				a.K, a.I = 1, []int{0, -1, 9, 10, 99, 100, 1 << 31, -(1 << 33), 1<<40 - 1}[rng.Intn(9)]
			case 5:
				a.K, a.S = 2, randBytes(6)
			case 6:
				a.K, a.I = 4, rng.Intn(100000)
			default:
				a.K, a.S = 0, []int{}
				if bad {
					a.K, a.S, a.I = 3, nil, rng.Intn(2)
				}
			}
			as[i] = a
		}
		return as
	}
	nDot := 2500
	if thorough {
		nDot = 40000
	}
	nWide := nDot / 10
	for k := 0; k < nDot+nWide; k++ {
		if k == nDot {
			wide = true
			for _, nm := range []string{"LABEL", "", "a b", "q\"q", "b\\s", "n\nl", "\xc3\xa9", "{r}", "label ", "label"} {
				names = append(names, toInts(nm))
			}
		}
		var g [][]int
		switch {
		case k < 600:
			n := k % 4
			g = c18MaskGraph(n, uint64(rng.Intn(1<<uint(n*n))))
			if rng.Intn(2) == 0 {
				g = c18Variant(rng, g)
			}
		case k%50 == 0:
			kind := rng.Intn(6)
			sz := []int{9, 10, 11, 99, 101, 1001}[rng.Intn(6)]
			if wide && sz > 101 { // the model's printer is quadratic in the output: no further 1001-node graphs
				sz = 101
			}
			if !thorough && sz > 301 { // quick: 301 nodes (a tenth of the comparator time of 1001)
				sz = 301
			}
			g = c18Structured(rng, kind, sz, rng.Intn(3))
		default:
			g = c18RandGraph(rng, 1+rng.Intn(12))
		}
		c := c18Case{Op: 10, G: g, Name: randBytes(6)}
		if rng.Intn(3) == 0 {
			c.Name = []int{}
		}
		bad := rng.Intn(25) == 0
		if rng.Intn(2) == 0 {
			c.HasL = true
			c.Labels = make([][]int, len(g))
			for i := range g {
				c.Labels[i] = randBytes(10)
			}
		}
		if rng.Intn(2) == 0 {
			c.HasN = true
			c.NAttrs = make([][]c18Attr, len(g))
			for i := range g {
				c.NAttrs[i] = randAttrs(bad)
			}
		}
		if rng.Intn(2) == 0 {
			c.HasE = true
			c.EAttrs = make([][][]c18Attr, len(g))
			for i := range g {
				c.EAttrs[i] = make([][]c18Attr, len(g[i]))
				for j := range g[i] {
					c.EAttrs[i][j] = randAttrs(bad)
				}
			}
		}
		emit(c)
	}
}

// fan: a spine 0 -> 1 -> ... -> n/2-1 whose nodes each point (twice or more) into the leaves n/2..n-1, so that
// every leaf id is reached again after it has been visited; relabel as in c18Structured
func c18Fan(rng *rand.Rand, n, relabel int) [][]int {
	perm := make([]int, n)
	for i := range perm {
		perm[i] = i
		if relabel == 1 {
			perm[i] = n - 1 - i
		}
	}
	if relabel == 2 {
		rng.Shuffle(n, func(x, y int) { perm[x], perm[y] = perm[y], perm[x] })
	}
	g := make([][]int, n)
	for i := range g {
		g[i] = []int{}
	}
	h := n / 2
	for i := 0; i < h; i++ {
		for k := 2 + rng.Intn(3); k > 0; k-- {
			g[perm[i]] = append(g[perm[i]], perm[h+rng.Intn(n-h)])
		}
		g[perm[i]] = append(g[perm[i]], perm[h+(2*i)%(n-h)], perm[h+(2*i+1)%(n-h)]) // every leaf is hit by the spine
		if i+1 < h {
			g[perm[i]] = append(g[perm[i]], perm[i+1])
		}
	}
	return g
}

func c18GenExtra(tier string, rng *rand.Rand, emit func(interface{})) {
	fanSizes := []int{1100, 4097, 5000}
	if tier == "thorough" {
		fanSizes = append(fanSizes, 32769, 100000)
	}
	// DotString / labels far longer than the 40 bytes of c18GenDot: 300 and 5000 bytes, special bytes throughout
	for it := 0; it < 12; it++ {
		k := []int{300, 5000}[it%2]
		str := make([]int, k)
		for i := range str {
			switch rng.Intn(4) {
			case 0:
				str[i] = []int{'\\', '"', '\n', '{', '}', '<', '>', '|', '\r', 0, 255, 128}[rng.Intn(12)]
			case 1:
				str[i] = rng.Intn(256)
			default:
				str[i] = 32 + rng.Intn(95)
			}
		}
		emit(c18Case{Op: 9, S: str})
		if it < 4 {
			emit(c18Case{Op: 10, G: [][]int{{1, 1}, {0}}, Name: str[:100], HasL: true, Labels: [][]int{str, str[:k/2]}})
		}
	}
	for _, n := range fanSizes {
		for relabel := 0; relabel < 3; relabel++ {
			g := c18Fan(rng, n, relabel)
			root := 0
			if relabel == 1 {
				root = n - 1
			} else if relabel == 2 {
				for len(g[root]) == 0 || rng.Intn(4) > 0 {
					root = rng.Intn(n)
				}
			}
			emit(c18Case{Op: 2, G: g, Roots: []int{root}})
			emit(c18Case{Op: 3, G: g, Flags: 3})
		}
	}
	// Equal / SimplifyMulti / SubgraphKeep / SubgraphRemove on structured graphs whose node ids go well beyond 1024
	// (c18GenGraphOps stops at 1025 nodes for these four)
	for _, n := range []int{1100, 2049, 5000} {
		for kind := 0; kind < 6; kind++ {
			g := c18Structured(rng, kind, n, rng.Intn(3))
			// Equal: a change in a late node / identical / reshuffled
			h := c18Copy(g)
			switch kind % 3 {
			case 0:
				i := n - 1 - rng.Intn(n/2)
				h[i] = append(h[i], rng.Intn(n))
			case 1:
				h = c18Variant(rng, h)
				for i := range h {
					if len(h[i]) != len(g[i]) {
						h[i] = append([]int{}, g[i]...)
						a := h[i]
						rng.Shuffle(len(a), func(x, y int) { a[x], a[y] = a[y], a[x] })
					}
				}
			}
			emit(c18Case{Op: 5, G: g, G2: h})
			// SimplifyMulti with doubled edges
			emit(c18Case{Op: 6, G: c18Variant(rng, g)})
			// Keep: a random half of the nodes in shuffled order with most induced edges; Remove: a tenth of the nodes, a fifth of the edges
			v := c18Variant(rng, g)
			var nodes []int
			in := map[int]bool{}
			for i := 0; i < n; i++ {
				if rng.Intn(2) == 0 {
					nodes = append(nodes, i)
					in[i] = true
				}
			}
			rng.Shuffle(len(nodes), func(x, y int) { nodes[x], nodes[y] = nodes[y], nodes[x] })
			es := [][2]int{}
			rme := [][2]int{}
			for i := range v {
				for j, t := range v[i] {
					if in[i] && in[t] && rng.Intn(4) > 0 {
						es = append(es, [2]int{i, j})
					}
					if rng.Intn(5) == 0 {
						rme = append(rme, [2]int{i, j})
					}
				}
			}
			rng.Shuffle(len(es), func(x, y int) { es[x], es[y] = es[y], es[x] })
			emit(c18Case{Op: 7, G: v, Nodes: nodes, Edges: es})
			rm := []int{}
			for i := 0; i < n; i++ {
				if rng.Intn(10) == 0 {
					rm = append(rm, i)
				}
			}
			rng.Shuffle(len(rm), func(x, y int) { rm[x], rm[y] = rm[y], rm[x] })
			emit(c18Case{Op: 8, G: v, Nodes: rm, Edges: rme})
		}
	}
	rounds := 1
	if tier == "thorough" {
		rounds = 10
	}
	for round := 0; round < rounds; round++ {
		// hubs: a few components with very many out-edges into many other components, with repeats
		// (the component-edge lists are long and unsorted before the dedup)
		for it := 0; it < 12; it++ {
			n := 150 + rng.Intn(200)
			g := make([][]int, n)
			for i := range g {
				g[i] = []int{}
			}
			for h := 0; h < 3; h++ { // hub h: a 2-cycle {2h, 2h+1} with 100..300 edges to later nodes
				g[2*h] = append(g[2*h], 2*h+1)
				g[2*h+1] = append(g[2*h+1], 2*h)
				for k := 100 + rng.Intn(200); k > 0; k-- {
					g[2*h+rng.Intn(2)] = append(g[2*h+rng.Intn(2)], 6+rng.Intn(n-6))
				}
			}
			for i := 6; i < n; i++ { // the rest: a sparse DAG on later ids with some 2-cycles
				for k := rng.Intn(3); k > 0 && i+1 < n; k-- {
					g[i] = append(g[i], i+1+rng.Intn(n-i-1))
				}
				if i+1 < n && rng.Intn(6) == 0 {
					g[i] = append(g[i], i+1)
					g[i+1] = append(g[i+1], i)
				}
			}
			emit(c18Case{Op: 3, G: g, Flags: []int{3, 2, 3, 3}[it%4]})
		}
		// SimplifyMulti with weights that need more than 24 significant bits: up to 2^29 with 10 fractional bits,
		// sums of a few dozen stay exact in float64 (but not in float32)
		for it := 0; it < 60; it++ {
			n := 1 + rng.Intn(12)
			g := c18RandGraph(rng, n)
			w := make([][]F64, n)
			for i := range g {
				for r := rng.Intn(4); r > 0 && len(g[i]) > 0 && len(g[i]) < 40; r-- {
					g[i] = append(g[i], g[i][rng.Intn(len(g[i]))])
				}
				w[i] = make([]F64, len(g[i]))
				for j := range w[i] {
					w[i][j] = F64(float64(rng.Intn(1<<29)-(1<<28)) + float64(rng.Intn(1024))/1024)
				}
			}
			emit(c18Case{Op: 6, G: g, W: w})
		}
		// Equal on long adjacency lists (beyond sort's small-slice path) that differ in ONE late entry of the sorted order
		for it := 0; it < 40; it++ {
			n := 20 + rng.Intn(30)
			g := make([][]int, 3)
			for i := range g {
				g[i] = []int{}
				for k := 13 + rng.Intn(40); k > 0; k-- {
					g[i] = append(g[i], rng.Intn(n))
				}
			}
			for len(g) < n {
				g = append(g, []int{})
			}
			h := c18Copy(g)
			for i := range h {
				a := h[i]
				rng.Shuffle(len(a), func(x, y int) { a[x], a[y] = a[y], a[x] })
			}
			if it%4 != 0 { // raise one of the largest entries of one list: the sorted lists differ only near the end
				i := rng.Intn(3)
				big := 0
				for k, v := range h[i] {
					if v >= h[i][big] {
						big = k
					}
				}
				if h[i][big] < n-1 {
					h[i][big]++
				}
			}
			emit(c18Case{Op: 5, G: g, G2: h})
		}
		// SubgraphRemove / Keep around nodes with many out-edges and named removals of most of them
		for it := 0; it < 40; it++ {
			n := 5 + rng.Intn(20)
			g := c18RandGraph(rng, n)
			u := rng.Intn(n)
			for k := 17 + rng.Intn(30); k > 0; k-- {
				g[u] = append(g[u], rng.Intn(n))
			}
			rme := [][2]int{}
			for j := range g[u] {
				if rng.Intn(3) > 0 {
					rme = append(rme, [2]int{u, j})
				}
			}
			rm := []int{}
			if v := rng.Intn(n); v != u && rng.Intn(2) == 0 {
				rm = append(rm, v)
			}
			emit(c18Case{Op: 8, G: g, Nodes: rm, Edges: rme})
		}
	}
}

// ---------------------------------------------------------------- op 11: histories on one graph object
// every algorithm in turn on the SAME object, the traversals again after each of them: a call that returns the right
// answer but leaves the adjacency lists changed (sorted, filtered or compacted in place) is seen by the argument
// comparison of that step and by the results of the later steps
func c18HistCase(rng *rand.Rand, g [][]int, bi bool, small bool) c18Case {
	n := len(g)
	roots := func() []int {
		if n == 0 {
			return []int{0}
		}
		var r []int
		if n <= 4 {
			r = c18AllRoots(n)
		} else if n > 1000 {
			r = c18Roots(rng, n, 1)
		} else {
			r = c18Roots(rng, n, 3)
		}
		return append(r, r[0]) // the first root once more
	}
	trav := func() c18Case { return c18Case{Op: 2, Roots: roots()} }
	keep := func() c18Case {
		in := map[int]bool{}
		nodes := []int{}
		for i := 0; i < n; i++ {
			if rng.Intn(3) > 0 {
				nodes = append(nodes, i)
				in[i] = true
			}
		}
		rng.Shuffle(len(nodes), func(x, y int) { nodes[x], nodes[y] = nodes[y], nodes[x] })
		es := [][2]int{}
		for i := range g {
			for j, t := range g[i] {
				if in[i] && in[t] && rng.Intn(4) > 0 {
					es = append(es, [2]int{i, j})
				}
			}
		}
		rng.Shuffle(len(es), func(x, y int) { es[x], es[y] = es[y], es[x] })
		return c18Case{Op: 7, Nodes: nodes, Edges: es}
	}
	remove := func() c18Case {
		rm := []int{}
		rme := [][2]int{}
		for i := range g {
			if rng.Intn(5) == 0 {
				rm = append(rm, i)
			}
			for j := range g[i] {
				if rng.Intn(4) == 0 {
					rme = append(rme, [2]int{i, j})
				}
			}
		}
		rng.Shuffle(len(rm), func(x, y int) { rm[x], rm[y] = rm[y], rm[x] })
		return c18Case{Op: 8, Nodes: rm, Edges: rme}
	}
	equal := func() c18Case {
		h := c18Copy(g)
		for i := range h {
			a := h[i]
			rng.Shuffle(len(a), func(x, y int) { a[x], a[y] = a[y], a[x] }) // not identical: Equal has to sort
		}
		if n > 0 && rng.Intn(3) == 0 {
			i := rng.Intn(n)
			h[i] = append(h[i], rng.Intn(n))
		}
		return c18Case{Op: 5, G2: h}
	}
	steps := []c18Case{trav(), {Op: 3, Flags: 3}, trav()}
	mid := []c18Case{keep(), remove(), {Op: 3, Flags: rng.Intn(3)}, {Op: 4}, equal(), {Op: 6}}
	if n > 1000 { // large graph: few steps (every step prints the graph before and after the call)
		mid = []c18Case{[]c18Case{keep(), remove(), equal(), {Op: 6}}[rng.Intn(4)]}
	}
	if small {
		d := c18Case{Op: 10}
		if rng.Intn(2) == 0 {
			d.HasL = true
			d.Labels = make([][]int, n)
			for i := range d.Labels {
				d.Labels[i] = []int{'v', '0' + i%10}
			}
		}
		mid = append(mid, d)
	}
	rng.Shuffle(len(mid), func(x, y int) { mid[x], mid[y] = mid[y], mid[x] })
	for k, m := range mid {
		steps = append(steps, m)
		if bi && m.Op != 4 {
			steps = append(steps, c18Case{Op: 4}) // In of the BiGraph object after the call
		}
		if k%2 == 1 || (!small && n <= 1000) {
			steps = append(steps, trav())
		}
	}
	if n > 1000 {
		steps = steps[2:] // trav, one of Keep/Remove/Equal/SimplifyMulti (+ In), then SCC and trav again
	}
	steps = append(steps, c18Case{Op: 3, Flags: 3}, trav())
	return c18Case{Op: 11, G: g, Bi: bi, Steps: steps}
}

func c18GenHist(tier string, rng *rand.Rand, emit func(interface{})) {
	scale := 1
	if tier == "thorough" {
		scale = 12
	}
	k := 0
	bi := func() bool { k++; return k%3 == 0 }
	for n := 0; n <= 3; n++ {
		for mask := uint64(0); mask < 1<<uint(n*n); mask++ {
			g := c18MaskGraph(n, mask)
			if mask%2 == 1 {
				g = c18Variant(rng, g)
			}
			emit(c18HistCase(rng, g, bi(), true))
		}
	}
	for it := 0; it < 1200*scale; it++ {
		g := c18MaskGraph(4, uint64(rng.Intn(1<<16)))
		if it%2 == 0 {
			g = c18Variant(rng, g)
		}
		emit(c18HistCase(rng, g, bi(), true))
	}
	for it := 0; it < 400*scale; it++ {
		n := 1 + rng.Intn(60)
		if rng.Intn(3) == 0 {
			n = 1 + rng.Intn(9)
		}
		emit(c18HistCase(rng, c18RandGraph(rng, n), bi(), n <= 12))
	}
	for i, n := range []int{1100, 2049, 4200} {
		for kind := 0; kind < 7; kind++ {
			if scale == 1 && kind != []int{3, 5, 6}[i] { // quick: one large history per growth boundary (DAG layers, tree with back edges, fan)
				continue
			}
			var g [][]int
			if kind < 6 {
				g = c18Structured(rng, kind, n, rng.Intn(3))
			} else {
				g = c18Fan(rng, n, rng.Intn(3))
			}
			emit(c18HistCase(rng, c18Variant(rng, g), bi(), false))
		}
	}
}

// c18DeepSpine: a spine s_0 -> s_1 -> ... of the given depth (so the depth-first walk is that
// deep: beyond 2^14, 2^15, 2^16 nodes of recursion) whose nodes at many depths - densely around
// the powers of two, and every few hundred nodes - carry a BRANCH WITH A CROSS EDGE: the spine node
// has two unvisited successors a, b and b is also reachable from a, so that a walk that marks
// nodes when they are pushed on an explicit stack (instead of when they are visited) emits b's
// region in the wrong position.  Three gadget shapes, plus back edges into the spine (cycles):
//
//	A: s_i -> [a, s_{i+1}], a -> [s_{i+1}, c]              (c is visited after the whole rest)
//	B: s_i -> [a, b], a -> [c, b], c -> [b], b -> [s_{i+1}]
//	C: s_i -> [s_{i+1}, a], a -> [s_{i+2}, c], c -> [s_j] for some j < i (a back edge)
//
// relabel: 0 identity, 1 reversed, 2 random permutation.  Returns the graph and the id of s_0.
func c18DeepSpine(rng *rand.Rand, depth, relabel int) ([][]int, int) {
	type edge struct{ u, v int }
	var es []edge
	n := depth // spine nodes are 0..depth-1; gadget nodes are appended
	fresh := func() int { n++; return n - 1 }
	gadget := map[int]bool{1: true, 100: true}
	for _, p := range []int{1 << 10, 1 << 14, 1 << 15, 1 << 16} {
		for d := -3; d <= 6; d++ {
			gadget[p+d] = true
		}
	}
	for i := 0; i < depth; i += 200 + rng.Intn(600) {
		gadget[i] = true
	}
	for i := 0; i+1 < depth; i++ {
		if !gadget[i] || i+2 >= depth {
			es = append(es, edge{i, i + 1})
			continue
		}
		switch rng.Intn(3) {
		case 0:
			a, c := fresh(), fresh()
			es = append(es, edge{i, a}, edge{i, i + 1}, edge{a, i + 1}, edge{a, c})
		case 1:
			a, b, c := fresh(), fresh(), fresh()
			es = append(es, edge{i, a}, edge{i, b}, edge{a, c}, edge{a, b}, edge{c, b}, edge{b, i + 1})
		default:
			a, c := fresh(), fresh()
			es = append(es, edge{i, i + 1}, edge{i, a}, edge{a, i + 2}, edge{a, c}, edge{c, rng.Intn(i + 1)})
		}
	}
	perm := make([]int, n)
	for i := range perm {
		perm[i] = i
	}
	switch relabel {
	case 1:
		for i := range perm {
			perm[i] = n - 1 - i
		}
	case 2:
		rng.Shuffle(n, func(x, y int) { perm[x], perm[y] = perm[y], perm[x] })
	}
	g := make([][]int, n)
	for i := range g {
		g[i] = []int{}
	}
	for _, e := range es {
		g[perm[e.u]] = append(g[perm[e.u]], perm[e.v])
	}
	return g, perm[0]
}

// deep graphs with branching and cross edges (seeded change C18-6: PreOrder finishing regions deeper
// than 16384 with an explicit stack that marks at push time passed, because the deep graphs were
// paths, cycles and trees only).  Quick: depth 17000 (beyond 2^14) for the traversals and SCC and
// depth 34000 (beyond 2^15) for the traversals; thorough: 20000, 40000, 70000 (beyond 2^16) under
// the three relabellings.
func c18GenDeep(tier string, rng *rand.Rand, emit func(interface{})) {
	type dc struct {
		depth, relabel int
		scc            bool
	}
	cs := []dc{{17000, 0, true}, {34000, 0, false}, {17000, 2, false}}
	if tier == "thorough" {
		cs = nil
		for _, d := range []int{20000, 40000, 70000} {
			for r := 0; r < 3; r++ {
				cs = append(cs, dc{d, r, true})
			}
		}
	}
	k := 0
	for _, c := range cs {
		g, root := c18DeepSpine(rng, c.depth, c.relabel)
		emit(c18Case{Op: 2, G: g, Roots: []int{root}})
		if c.scc {
			k++
			emit(c18Case{Op: 3, G: g, Flags: []int{3, 1, 2, 0}[k%4]})
		}
	}
}

func c18Gen(tier string, rng *rand.Rand, emit func(interface{})) {
	// debugging aid for mutation experiments only: VERIF_C18_OPS=1,6 runs just the cases of the listed operations
	// (every case is still generated, so the random stream and the selected cases are those of the full run)
	if f := os.Getenv("VERIF_C18_OPS"); f != "" {
		sel := map[int]bool{}
		for _, t := range strings.Split(f, ",") {
			if v, err := strconv.Atoi(strings.TrimSpace(t)); err == nil {
				sel[v] = true
			}
		}
		inner := emit
		emit = func(c interface{}) {
			if cc, ok := c.(c18Case); ok && sel[cc.Op] {
				inner(c)
			}
		}
	}
	c18GenMarks(tier, rng, emit)
	c18GenTrav(tier, rng, emit)
	c18GenSCC(tier, rng, emit)
	c18GenGraphOps(tier, rng, emit)
	c18GenDot(tier, rng, emit)
	c18GenExtra(tier, rng, emit)
	c18GenHist(tier, rng, emit)
	c18GenDeep(tier, rng, emit) // last: the random stream of everything before it is unchanged
}

func init() { register(&Prop{ID: "C18", Num: 18, Gen: c18Gen, Run: c18Run}) }

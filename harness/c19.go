package main

import (
	"encoding/json"
	"fmt"
	"math"
	"math/rand"
	"time"

	"github.com/aclements/go-moremath/graph"
	"github.com/aclements/go-moremath/graph/graphalg"
)

// C19: IDom / Dom / DomFrontier on a digraph given as adjacency lists, for a list of roots.
// Line: 19 n {len succ...}*n  nroots { root nil stI [n]idom stD numNodes [n]{IDom(k) [..]In(k) [..]Out(k)}
//
//	stF [n][..]df  mutated }*
//
// st*: 0 = returned, 2 = panicked (then the lists that follow are empty).
type c19Case struct {
	G     [][]int `json:"g"`
	Roots []int   `json:"roots"`
	Nil   bool    `json:"nil,omitempty"` // call DomFrontier(g, root, nil) instead of passing IDom's result
}

func c19Run(raw []byte) (*Line, error) {
	var c c19Case
	if err := json.Unmarshal(raw, &c); err != nil {
		return nil, err
	}
	n := len(c.G)
	if n < 1 || n > 6000 {
		return nil, fmt.Errorf("bad node count")
	}
	adj := make([][]int, n)
	for i, l := range c.G {
		adj[i] = make([]int, len(l))
		for k, v := range l {
			if v < 0 || v >= n {
				return nil, fmt.Errorf("edge target out of range")
			}
			adj[i][k] = v
		}
	}
	if len(c.Roots) == 0 {
		return nil, fmt.Errorf("no root: nothing would be observed")
	}
	for _, r := range c.Roots {
		if r < 0 || r >= n {
			return nil, fmt.Errorf("root out of range")
		}
	}
	l := &Line{}
	l.I(19).I(n)
	for _, s := range adj {
		l.Is(s)
	}
	l.I(len(c.Roots))
	same := func(a, b []int) bool {
		if len(a) != len(b) {
			return false
		}
		for i := range a {
			if a[i] != b[i] {
				return false
			}
		}
		return true
	}
	// ONE graph object goes through the whole case: the BiGraph is built once and analysed from
	// every root of the list in turn (the generators repeat the first root at the end), so that a
	// call that damages the graph it was given (its In/Out lists are the graph's own storage)
	// shows both in the snapshot comparison of that call and in the results of the later calls.
	work := make([][]int, n) // the graph handed to the library
	for i := range adj {
		work[i] = append([]int{}, adj[i]...)
	}
	bg := graph.MakeBiGraph(graph.IntGraph(work))
	ins0 := make([][]int, n) // the In lists as MakeBiGraph built them
	for i := 0; i < n; i++ {
		ins0[i] = append([]int{}, bg.In(i)...)
	}
	graphSame := func() bool {
		if bg.NumNodes() != n {
			return false
		}
		for i := 0; i < n; i++ {
			if !same(adj[i], work[i]) || !same(adj[i], bg.Out(i)) || !same(ins0[i], bg.In(i)) {
				return false
			}
		}
		return true
	}
	for _, root := range c.Roots {
		l.I(root).B(c.Nil)
		mutated := false
		domReread := func() bool { return true } // re-reads the DomTree of this root, once there is one
		// IDom
		var idom []int
		p, _ := catch(func() { idom = graphalg.IDom(bg, root) })
		var idomSnap []int
		if p {
			l.I(2).I(0)
			idom = nil
		} else {
			l.I(0).Is(idom)
			idomSnap = append([]int{}, idom...)
			if !graphSame() {
				mutated = true
			}
		}
		// Dom
		if idom == nil {
			l.I(2).I(0).I(0)
		} else {
			var nn int
			ids := make([]int, 0, n)
			ins := make([][]int, 0, n)
			outs := make([][]int, 0, n)
			var tree *graphalg.DomTree
			p, _ = catch(func() {
				t := graphalg.Dom(idom)
				tree = t
				nn = t.NumNodes()
				for k := 0; k < nn; k++ {
					ids = append(ids, t.IDom(k))
					ins = append(ins, append([]int{}, t.In(k)...))
					outs = append(outs, append([]int{}, t.Out(k)...))
				}
			})
			if !p {
				domReread = func() bool { return c19DomUnchanged(tree, nn, ids, ins, outs, same) }
				// a caller may append to any slice a result hands out; that must not change any
				// OTHER result (nor the argument): sentinel appends, then everything is read again
				if pa, _ := catch(func() {
					for k := 0; k < nn; k++ {
						_ = append(tree.Out(k), c19Sentinel)
						_ = append(tree.In(k), c19Sentinel)
					}
					_ = append(idom, c19Sentinel)
				}); pa || !domReread() {
					mutated = true
				}
			}
			if p {
				l.I(2).I(0).I(0)
			} else {
				l.I(0).I(nn).I(len(ids))
				for k := range ids {
					l.I(ids[k]).Is(ins[k]).Is(outs[k])
				}
			}
			if !same(idom, idomSnap) || !graphSame() {
				mutated = true
			}
		}
		// DomFrontier
		var df [][]int
		p, _ = catch(func() {
			if c.Nil || idom == nil {
				df = graphalg.DomFrontier(bg, root, nil)
			} else {
				df = graphalg.DomFrontier(bg, root, idom)
			}
		})
		if p {
			l.I(2).I(0)
		} else {
			l.I(0).I(len(df))
			for _, s := range df {
				l.Is(s)
			}
			// the frontier lists must not alias each other (nor the graph, nor idom): append a
			// sentinel to every one of them, then compare all of them with what was written above
			snap := make([][]int, len(df))
			for i, s := range df {
				snap[i] = append([]int{}, s...)
			}
			for _, s := range df {
				_ = append(s, c19Sentinel)
			}
			for i, s := range df {
				if !same(s, snap[i]) {
					mutated = true
				}
			}
		}
		// the tree built before DomFrontier ran must still read the same
		if pr, _ := catch(func() {
			if !domReread() {
				mutated = true
			}
		}); pr {
			mutated = true
		}
		if idom != nil && !same(idom, idomSnap) {
			mutated = true
		}
		if !graphSame() {
			mutated = true
		}
		l.B(mutated)
	}
	return l, nil
}

// the value a caller appends to result slices: not a node id, so an overwritten entry never
// coincides with a correct one
const c19Sentinel = -7

// every accessor of the tree read again and compared with the first reading
func c19DomUnchanged(t *graphalg.DomTree, nn int, ids []int, ins, outs [][]int, same func(a, b []int) bool) bool {
	if t.NumNodes() != nn {
		return false
	}
	for k := 0; k < nn; k++ {
		if t.IDom(k) != ids[k] || !same(t.In(k), ins[k]) || !same(t.Out(k), outs[k]) {
			return false
		}
	}
	return true
}

// ---------- generators ----------

func c19Empty(n int) [][]int {
	g := make([][]int, n)
	for i := range g {
		g[i] = []int{}
	}
	return g
}

func c19AllRoots(n int) []int {
	r := make([]int, n)
	for i := range r {
		r[i] = i
	}
	return r
}

// every node as root, starting at node (k mod n); for every third k the first root once more at
// the end (the graph object is analysed from it again after all the others)
func c19RootsFrom(n int, k uint64) []int {
	r := make([]int, 0, n+1)
	for i := 0; i < n; i++ {
		r = append(r, (i+int(k%uint64(n)))%n)
	}
	if k%3 == 0 {
		r = append(r, r[0])
	}
	return r
}

// adjacency matrix code -> graph; bit i*n+j = edge i->j (self-loops included)
func c19FromCode(n int, code uint64) [][]int {
	g := c19Empty(n)
	for i := 0; i < n; i++ {
		for j := 0; j < n; j++ {
			if code>>(uint(i*n+j))&1 == 1 {
				g[i] = append(g[i], j)
			}
		}
	}
	return g
}

// loop-free code: bit k enumerates ordered pairs i != j
func c19FromCodeNoLoops(n int, code uint64) [][]int {
	g := c19Empty(n)
	k := uint(0)
	for i := 0; i < n; i++ {
		for j := 0; j < n; j++ {
			if i == j {
				continue
			}
			if code>>k&1 == 1 {
				g[i] = append(g[i], j)
			}
			k++
		}
	}
	return g
}

// a structured (reducible) control-flow graph: sequence / if-else / while / do-while, built
// recursively on node budget; returns entry and exit of the region.
func c19Structured(rng *rand.Rand, g *[][]int, budget int) (entry, exit int) {
	newNode := func() int {
		*g = append(*g, []int{})
		return len(*g) - 1
	}
	edge := func(a, b int) { (*g)[a] = append((*g)[a], b) }
	if budget <= 1 {
		n := newNode()
		return n, n
	}
	switch rng.Intn(5) {
	case 0: // sequence
		k := 1 + rng.Intn(budget-1)
		e1, x1 := c19Structured(rng, g, k)
		e2, x2 := c19Structured(rng, g, budget-k)
		edge(x1, e2)
		return e1, x2
	case 1: // if-then-else with join
		if budget < 4 {
			n := newNode()
			return n, n
		}
		c := newNode()
		j := newNode()
		k := 1 + rng.Intn(budget-3)
		e1, x1 := c19Structured(rng, g, k)
		e2, x2 := c19Structured(rng, g, budget-2-k)
		edge(c, e1)
		edge(c, e2)
		edge(x1, j)
		edge(x2, j)
		return c, j
	case 2: // if-then (one arm empty)
		if budget < 3 {
			n := newNode()
			return n, n
		}
		c := newNode()
		j := newNode()
		e1, x1 := c19Structured(rng, g, budget-2)
		edge(c, e1)
		edge(c, j)
		edge(x1, j)
		return c, j
	case 3: // while loop: header -> body -> header, header -> exit
		if budget < 3 {
			n := newNode()
			return n, n
		}
		h := newNode()
		x := newNode()
		e1, x1 := c19Structured(rng, g, budget-2)
		edge(h, e1)
		edge(x1, h)
		edge(h, x)
		return h, x
	default: // do-while: body, back edge from its exit to its entry
		e1, x1 := c19Structured(rng, g, budget-1)
		x := newNode()
		edge(x1, e1)
		edge(x1, x)
		return e1, x
	}
}

// relabel nodes by a random permutation and shuffle each adjacency list
func c19Shuffle(rng *rand.Rand, g [][]int, roots []int) ([][]int, []int) {
	n := len(g)
	perm := rng.Perm(n)
	h := c19Empty(n)
	for i, l := range g {
		for _, j := range l {
			h[perm[i]] = append(h[perm[i]], perm[j])
		}
	}
	for i := range h {
		rng.Shuffle(len(h[i]), func(a, b int) { h[i][a], h[i][b] = h[i][b], h[i][a] })
	}
	rs := make([]int, len(roots))
	for i, r := range roots {
		rs[i] = perm[r]
	}
	return h, rs
}

func c19LogSize(rng *rand.Rand, lo, hi int) int {
	// log-uniform in [lo, hi]
	x := float64(lo) * pow(float64(hi)/float64(lo), rng.Float64())
	n := int(x + 0.5)
	if n < lo {
		n = lo
	}
	if n > hi {
		n = hi
	}
	return n
}

func pow(b, e float64) float64 { return math.Pow(b, e) }

// c19Random builds one random case of the given style.
func c19Random(rng *rand.Rand, maxN int) c19Case {
	n := c19LogSize(rng, 2, maxN)
	var g [][]int
	root := 0
	style := rng.Intn(7)
	switch style {
	case 0: // random tree plus a few extra edges (tree-like)
		g = c19Empty(n)
		for i := 1; i < n; i++ {
			p := rng.Intn(i)
			g[p] = append(g[p], i)
		}
		for k := rng.Intn(n/2 + 1); k > 0; k-- {
			g[rng.Intn(n)] = append(g[rng.Intn(n)], rng.Intn(n))
		}
	case 1: // Erdos-Renyi at a random density from 1/n to 1
		g = c19Empty(n)
		p := 1.0 / float64(n) * pow(float64(n), rng.Float64())
		for i := 0; i < n; i++ {
			for j := 0; j < n; j++ {
				if rng.Float64() < p {
					g[i] = append(g[i], j)
				}
			}
		}
	case 2: // complete (with or without self-loops), minus a few edges
		g = c19Empty(n)
		loops := rng.Intn(2) == 0
		drop := rng.Intn(4)
		for i := 0; i < n; i++ {
			for j := 0; j < n; j++ {
				if (i != j || loops) && !(drop > 0 && rng.Intn(n) == 0) {
					g[i] = append(g[i], j)
				}
			}
		}
	case 3, 4: // structured = reducible; style 4 adds jumps into regions = irreducible loops
		gg := [][]int{}
		e, _ := c19Structured(rng, &gg, n)
		g = gg
		root = e
		if style == 4 {
			for k := 1 + rng.Intn(3); k > 0; k-- {
				a, b := rng.Intn(len(g)), rng.Intn(len(g))
				g[a] = append(g[a], b)
			}
		}
	case 5: // chain of irreducible triangles: root -> a, root -> b, a <-> b, then onwards (CHK's hard case)
		g = c19Empty(n)
		for i := 0; i+2 < n; i += 2 {
			g[i] = append(g[i], i+1, i+2)
			g[i+1] = append(g[i+1], i+2)
			g[i+2] = append(g[i+2], i+1)
		}
		if rng.Intn(2) == 0 { // and a long back edge chain from the end
			for i := n - 1; i > 0; i-- {
				if rng.Intn(3) == 0 {
					g[i] = append(g[i], rng.Intn(i))
				}
			}
		}
	default: // layered DAG with back edges
		g = c19Empty(n)
		w := 1 + rng.Intn(4)
		for i := 0; i < n; i++ {
			for k := 1 + rng.Intn(3); k > 0; k-- {
				j := i + 1 + rng.Intn(w+1)
				if j < n {
					g[i] = append(g[i], j)
				}
			}
			if rng.Intn(5) == 0 {
				g[i] = append(g[i], rng.Intn(i+1))
			}
		}
	}
	// decorations
	n = len(g)
	if rng.Intn(3) == 0 { // self-loops
		for k := 1 + rng.Intn(3); k > 0; k-- {
			i := rng.Intn(n)
			g[i] = append(g[i], i)
		}
	}
	if rng.Intn(3) == 0 { // parallel edges
		for k := 1 + rng.Intn(3); k > 0; k-- {
			i := rng.Intn(n)
			if len(g[i]) > 0 {
				g[i] = append(g[i], g[i][rng.Intn(len(g[i]))])
			}
		}
	}
	if rng.Intn(3) == 0 { // edges back into the root: none, one or several incoming edges
		for k := rng.Intn(3); k > 0; k-- {
			i := rng.Intn(n)
			g[i] = append(g[i], root)
		}
	}
	if rng.Intn(2) == 0 && n < maxN { // unreachable nodes feeding (reachable) joins, and each other
		extra := 1 + rng.Intn(3)
		if n+extra > maxN {
			extra = maxN - n
		}
		for k := 0; k < extra; k++ {
			g = append(g, []int{})
			u := len(g) - 1
			for m := 1 + rng.Intn(3); m > 0; m-- {
				g[u] = append(g[u], rng.Intn(len(g))) // old nodes or unreachable ones (incl. itself)
			}
		}
	}
	// a history of roots on the one graph object: the main root, up to 4 others (any node,
	// unreachable ones included), and in half of the cases the main root again at the end
	roots := []int{root}
	for k := rng.Intn(5); k > 0; k-- {
		roots = append(roots, rng.Intn(len(g)))
	}
	if len(roots) > 1 && rng.Intn(2) == 0 {
		roots = append(roots, root)
	}
	if rng.Intn(4) != 0 {
		g, roots = c19Shuffle(rng, g, roots)
	}
	return c19Case{G: g, Roots: roots, Nil: rng.Intn(2) == 0}
}

// c19Ladder: a two-way chain 1..m that the root 0 enters at both ends.  Every chain node is
// dominated by the root only, but the reverse-post-order sweep of Cooper-Harvey-Kennedy moves
// that fact one chain node per sweep: IDom needs m sweeps (measured: m = 3..39 -> m sweeps),
// so a bound on the number of sweeps, or any shortcut that settles nodes early, shows here.
// order bit 0: which end the root enters first; bit 1: adjacency order of the chain nodes.
func c19Ladder(m, order int) [][]int {
	g := c19Empty(m + 1)
	if order&1 == 0 {
		g[0] = []int{1, m}
	} else {
		g[0] = []int{m, 1}
	}
	for i := 1; i <= m; i++ {
		var fw, bw []int
		if i < m {
			fw = []int{i + 1}
		}
		if i > 1 {
			bw = []int{i - 1}
		}
		if order&2 == 0 {
			g[i] = append(fw, bw...)
		} else {
			g[i] = append(bw, fw...)
		}
	}
	return g
}

func c19Gen(tier string, rng *rand.Rand, emit func(interface{})) {
	thorough := tier == "thorough"
	// (a) exhaustive: every digraph (self-loops included) on 1..4 nodes, every root
	for n := 1; n <= 4; n++ {
		for code := uint64(0); code < 1<<uint(n*n); code++ {
			emit(c19Case{G: c19FromCode(n, code), Roots: c19RootsFrom(n, code/2), Nil: code%2 == 1})
		}
	}
	if thorough { // every loop-free digraph on 5 nodes, every root
		for code := uint64(0); code < 1<<20; code++ {
			emit(c19Case{G: c19FromCodeNoLoops(5, code), Roots: c19RootsFrom(5, code/2), Nil: code%2 == 1})
		}
	}
	// (b) unreachable predecessors of reachable joins, systematically on 5 nodes:
	// reachable core 0 -> {1,2} -> 3 (a diamond) or a loop, node 4 unreachable with every set of out-edges
	cores := [][][]int{
		{{1, 2}, {3}, {3}, {}, {}},
		{{1}, {2}, {1, 3}, {}, {}},
		{{1, 2}, {2}, {1}, {0}, {}},
		{{0, 1}, {1, 0}, {}, {}, {}},
	}
	for _, core := range cores {
		for mask := 0; mask < 32; mask++ {
			g := c19Empty(5)
			for i := range core {
				g[i] = append(g[i], core[i]...)
			}
			for j := 0; j < 5; j++ {
				if mask>>uint(j)&1 == 1 {
					g[4] = append(g[4], j)
				}
			}
			emit(c19Case{G: g, Roots: [][]int{{0, 1, 4, 0}, {4, 0, 1}, {1, 4, 0, 4}}[mask%3], Nil: mask%2 == 0})
		}
	}
	// (c) random graphs up to 40 nodes
	nRand := 1500
	if thorough {
		nRand = 30000
	}
	for it := 0; it < nRand; it++ {
		emit(c19Random(rng, 40))
	}
	// (e) ladders: graphs that need as many sweeps as they have nodes (2..39 chain nodes, i.e. up to
	// the 40 nodes of the property; plus longer ones), plain and renumbered, second root inside the chain
	for m := 2; m <= 39; m++ {
		g := c19Ladder(m, m)
		emit(c19Case{G: g, Roots: []int{0}, Nil: m%2 == 0})
		h, rs := c19Shuffle(rng, c19Ladder(m, rng.Intn(4)), []int{0, 1 + rng.Intn(m)})
		emit(c19Case{G: h, Roots: rs, Nil: m%2 == 1})
	}
	long := []int{60, 100}
	if thorough {
		long = []int{60, 100, 150, 250}
	}
	for _, m := range long {
		h, rs := c19Shuffle(rng, c19Ladder(m, rng.Intn(4)), []int{0})
		emit(c19Case{G: h, Roots: rs})
	}
	// (d) node ids across the 1024 boundary of the mark set: a small reachable region whose
	// ids straddle 1023/1024 inside a graph of 1030 (thorough also 2050) nodes
	sizes := []int{1030}
	if thorough {
		sizes = append(sizes, 2050, 4100)
	}
	for _, n := range sizes {
		for rep := 0; rep < 2; rep++ {
			g := c19Empty(n)
			base := 1021
			if n > 2047 && rep == 1 {
				base = n - 9
			}
			// diamond with a loop and an unreachable feeder: base -> base+1, base+2 -> base+3 -> base+4 -> base+1
			g[base] = []int{base + 1, base + 2}
			g[base+1] = []int{base + 3}
			g[base+2] = []int{base + 3}
			g[base+3] = []int{base + 4, base + 5}
			g[base+4] = []int{base + 1}
			g[base+5] = []int{}
			g[base+6] = []int{base + 3, base + 6} // unreachable
			g[rng.Intn(1000)] = []int{base + 1}   // unreachable, low id
			roots := []int{base, base + 3}
			if rep == 1 {
				roots = []int{base + 4}
			}
			emit(c19Case{G: g, Roots: roots, Nil: rep == 1})
		}
	}
}

func init() {
	register(&Prop{ID: "C19", Num: 19, Gen: c19Gen, Run: c19Run, Timeout: 10 * time.Second})
}

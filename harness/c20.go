package main

// C20: purity, determinism and race-freedom of the API.
//
// Every entry of c20Table is one exported function or method together with the
// ARRAY PROGRAM (routine id of coq/Model/Heap.v) that models its memory
// behaviour, and the arrays it is handed (in the order of the routine's
// arguments). One case = one call on seeded inputs:
//   1. deep snapshot of every tracked array, call, compare  -> mutated flags
//   2. unrelated intervening calls, then the same call on freshly built equal
//      arguments                                           -> det (bit-identical?)
//   3. 16 goroutines issue the call on SHARED inputs (own receivers for the
//      in-place operations)                                -> conc (same results,
//      shared inputs untouched?).  The same program built with -race and run by
//      bin/plugins/C20.py reports data races.
// Line: 20 routine nargs mutated[nargs] det conc panics callIndex seedLow32 size
// (booleans are printed as 0/1 and the comparator accepts nothing else)

import (
	"bytes"
	"encoding/json"
	"fmt"
	"math"
	"math/rand"
	"os"
	"os/exec"
	"reflect"
	"runtime"
	"sort"
	"strconv"
	"strings"
	"sync"
	"sync/atomic"

	"github.com/aclements/go-moremath/fit"
	"github.com/aclements/go-moremath/graph"
	"github.com/aclements/go-moremath/graph/graphalg"
	"github.com/aclements/go-moremath/graph/graphout"
	"github.com/aclements/go-moremath/mathx"
	"github.com/aclements/go-moremath/scale"
	"github.com/aclements/go-moremath/stats"
	"github.com/aclements/go-moremath/vec"
)

type c20Case struct {
	Call string `json:"call"`
	Seed int64  `json:"seed"`
	Size int    `json:"size"`
	Cap  int    `json:"cap"` // spare capacity of the argument windows: 0 mixed per array, 1 all tight, 2 all generous
	// Shape of the graphs: 0 sparse random, 1 a hub component with 100+ edges leaving it into 64+
	// distinct components, 2 long adjacency lists (> 64 and > 1024 entries) with many parallel
	// edges, 3 dense
	Shape int `json:"shape"`
	// Shape of the Samples: Sorted flag = samp%2 (ascending data), weights = samp/2: 0 all
	// positive, 1 exact zeros scattered (one directly followed by a non-zero weight), 2 zero at
	// the first and at the last position (unweighted entries ignore the weights)
	Samp int `json:"samp"`
	Sp   int `json:"sp,omitempty"` // 1: the float data contain NaN, +Inf, -Inf, -0, the largest and the smallest positive double; 2: the same without NaN
	// extreme-magnitude flavour (0: off): every float array handed to the library is multiplied by the
	// factor c20MagFactors[(Mag-1)%6] (1e101, 1e-103, 1e150, 1e-150, 2^500, 2^-500: all values stay finite
	// and non-zero values stay normal); (Mag-1)/6 = 0: data AND weights, 1: weights only, 2: data only
	Mag int `json:"mag,omitempty"`
}

// The extreme-magnitude flavour (seeded change C20-8: LinearLeastSquares divided weights beyond 1e+-100 by
// their maximum IN THE CALLER'S SLICE).  A routine that rescales / normalises / clamps its input in place
// only when the magnitudes are extreme is seen by the whole-backing-array comparison only if such
// magnitudes occur: every table entry that takes a float array is run with all its float arrays scaled
// (houseF is the single door through which float arrays reach the library).
// The decimal factors straddle the 1e+-100 marks with the weights 1..51 of c20Weights (51e-103 < 1e-100);
// the powers of two scale exactly.
var c20MagFactors = []float64{1e101, 1e-103, 1e150, 1e-150, math.Ldexp(1, 500), math.Ldexp(1, -500)}
var c20Mag float64    // 0: off
var c20MagTarget int  // 0 data and weights, 1 weights only, 2 data only
var c20InWeights bool // houseF is called for a weights array
// set by houseF / c20Weights: the generator asks which entries take float arrays / weights at all
var c20SawFloat, c20SawWeights bool

func c20SetMag(name string, m int) {
	c20Mag, c20MagTarget = 0, 0
	if m > 0 {
		c20Mag, c20MagTarget = c20MagFactors[(m-1)%6], (m-1)/6
		if c20MagReduced(name) {
			c20Mag = math.Ldexp(1, 200-400*((m-1)%2))
		}
	}
}

// scales a freshly housed window in place (extreme-magnitude flavour)
func c20MagApply(w []float64, isWeights bool) {
	if c20Mag != 0 && (isWeights && c20MagTarget != 2 || !isWeights && c20MagTarget != 1) {
		for i := range w {
			w[i] *= c20Mag
		}
	}
}

// the factor the weights carry (for the weights written after housing: exact zeros stay zeros)
func c20WUnit() float64 {
	if c20Mag != 0 && c20MagTarget != 2 {
		return c20Mag
	}
	return 1
}

// the factor the data carry (scalars that live on the data's axis - a KDE's fixed bandwidth, its support,
// the evaluation point - are scaled along, otherwise the input is not a meaningful one: a support of
// width 10 under a bandwidth of 1e150 makes the reflection series 1e149 terms long)
func c20DUnit() float64 {
	if c20Mag != 0 && c20MagTarget != 1 {
		return c20Mag
	}
	return 1
}

// Entries run with REDUCED extreme magnitudes (factors 2^+200 / 2^-200 instead of the six above; documented
// in meta/C20.json, assumptions).
// OPEN OBSERVATION on the unchanged tree: stats.TwoSampleWelchTTest PANICS ("betainc: a or b too big; failed
// to converge") on finite, ordinary-shaped samples once the data are beyond about 1e+-77, e.g.
// {1e78,2e78,4e78} vs {2e78,3e78,3e78,7e78}: the Welch-Satterthwaite degrees of freedom square the variances,
// (v1/n1+v2/n2)^2 overflows to +Inf (underflows to 0 for tiny data), dof = Inf/Inf = NaN reaches BetaInc.
// The panic is deterministic and the arguments are untouched, so no clause of C20 is broken, but a call
// that panics has compared nothing (the comparator rejects it): the entry gets factors it survives.
func c20MagReduced(name string) bool {
	return name == "stats.TwoSampleWelchTTest"
}

// which special-values flavour an entry is run with (in addition to its ordinary cases).
// OPEN OBSERVATIONS on the unchanged tree (reported, outside C20's quantifier "random inputs that are
// unsorted and contain ties"): stats.MannWhitneyUTest never returns when a sample contains a NaN
// (utest.go tie loop: merged[i] == v1 is false for NaN, i never advances); KDE.Bounds/PDF/CDF do not
// return for NaN, +-Inf or +-MaxFloat64 data (bracket expansion / reflection series never terminate).
// Those entries are therefore not run on such data - every other entry is.
func c20SpecialFor(name string) int {
	switch {
	case strings.Contains(name, "KDE"):
		return 0
	case name == "stats.MannWhitneyUTest":
		return 2
	case name == "stats.Sample.Sort":
		// "the in-place operation must change something" is demanded: with a NaN the weighted sort's
		// plain < comparison may leave an unsorted sample as it is
		return 2
	}
	return 1
}

var c20CapMode int
var c20Shape, c20Samp int
var c20Special int

var c20SpecialVals = []float64{math.NaN(), math.Inf(1), math.Inf(-1), math.Copysign(0, -1), math.MaxFloat64, 5e-324, math.Float64frombits(0x7ff8000000000123)}

// an instantiated call
type c20Inst struct {
	args []func() []uint64 // snapshot functions of the tracked arrays, routine-argument order
	call func() []uint64   // performs the call; canonical result
}

type c20Call struct {
	name    string
	routine int
	nargs   int
	// build creates the inputs from the PRNG and returns a factory of instances; instances
	// of one factory SHARE the read-only inputs and own the in-place targets.
	build func(rng *rand.Rand, size int) func() *c20Inst
}

func fb(xs []float64) []uint64 {
	r := make([]uint64, len(xs))
	for i, x := range xs {
		r[i] = math.Float64bits(x)
	}
	return r
}
func ib(xs []int) []uint64 {
	r := make([]uint64, len(xs))
	for i, x := range xs {
		r[i] = uint64(int64(x))
	}
	return r
}

// snapshots cover the WHOLE backing array (up to cap), so a write into the spare capacity of
// an argument (e.g. an append that does not reallocate) is seen as well; the length is
// part of the snapshot
// float slices registered by the snapshot constructors since the last reset (build time is
// single-threaded); used for the buffer-reuse history step
var c20Floats []*[]float64

// Every slice handed to the library is a WINDOW back[off : off+n : off+n+spare] of a larger
// backing array: guard cells before and after hold a sentinel, the spare capacity behind the
// visible part is tight (0), generous (enough for an append of every other argument) or
// random.  The backing arrays are registered by the address of the window's first cell, and
// a snapshot covers the WHOLE backing array (guards and spare capacity included) plus the
// length, so an append that does not reallocate, a sort of arg[:n] reached through such an
// append, or a write outside the window is seen.
var c20BackF = map[*float64][]float64{}
var c20BackI = map[*int][]int{}

const c20Guard = 4
const c20SentF = -12345.5
const c20SentI = -777

func c20Spare(rng *rand.Rand, n int) int {
	k := rng.Intn(3)
	if c20CapMode == 1 {
		k = 0
	} else if c20CapMode == 2 {
		k = 1
	}
	switch k {
	case 0:
		return 0 // tight: cap == len
	case 1:
		return 2*n + 8 + rng.Intn(8) // generous: room for every other argument of the call
	}
	return rng.Intn(n + 2)
}
func houseF(rng *rand.Rand, xs []float64) []float64 {
	n := len(xs)
	spare := c20Spare(rng, n)
	back := make([]float64, c20Guard+n+spare+c20Guard)
	for i := range back {
		back[i] = c20SentF
	}
	w := back[c20Guard : c20Guard+n : c20Guard+n+spare]
	copy(w, xs)
	if n > 0 {
		c20SawFloat = true
	}
	c20MagApply(w, c20InWeights)
	if n+spare > 0 {
		c20BackF[&back[c20Guard]] = back
	}
	return w
}
func houseI(rng *rand.Rand, xs []int) []int {
	n := len(xs)
	spare := c20Spare(rng, n)
	back := make([]int, c20Guard+n+spare+c20Guard)
	for i := range back {
		back[i] = c20SentI
	}
	w := back[c20Guard : c20Guard+n : c20Guard+n+spare]
	copy(w, xs)
	if n+spare > 0 {
		c20BackI[&back[c20Guard]] = back
	}
	return w
}
func wholeF(xs []float64) []float64 {
	if cap(xs) > 0 {
		if b, ok := c20BackF[&xs[:1][0]]; ok {
			return b
		}
	}
	return xs[:cap(xs)]
}
func wholeI(xs []int) []int {
	if cap(xs) > 0 {
		if b, ok := c20BackI[&xs[:1][0]]; ok {
			return b
		}
	}
	return xs[:cap(xs)]
}

// in-place scramblers of the registered argument arrays (history step "same buffers, other
// data"): each rewrites one argument array deterministically, keeping it in its domain
var c20Scramble []func() func() // each returns the function that restores the old contents

func snapF(p *[]float64) func() []uint64 {
	c20Floats = append(c20Floats, p)
	c20Scramble = append(c20Scramble, func() func() {
		saved := append([]float64(nil), (*p)...)
		wasSorted := sort.Float64sAreSorted(saved)
		for j := range *p {
			(*p)[j] = saved[len(saved)-1-j]*0.5 + float64(j%3)
		}
		if wasSorted { // ascending data stays ascending: a Sample flagged Sorted must remain one
			sort.Float64s(*p)
		}
		return func() { copy(*p, saved) }
	})
	return func() []uint64 { return append([]uint64{uint64(len(*p))}, fb(wholeF(*p))...) }
}
func snapI(p *[]int) func() []uint64 {
	c20Scramble = append(c20Scramble, func() func() {
		saved := append([]int(nil), (*p)...)
		for j := range *p {
			(*p)[j] = saved[len(saved)-1-j]
		}
		return func() { copy(*p, saved) }
	})
	return func() []uint64 { return append([]uint64{uint64(len(*p))}, ib(wholeI(*p))...) }
}
func snapNone() []uint64 { return nil }
func flatG(g graph.IntGraph) []uint64 {
	var r []uint64
	for _, o := range g {
		r = append(r, uint64(len(o)))
		r = append(r, ib(wholeI(o))...)
	}
	return r
}
func flatGraph(g graph.Graph) []uint64 {
	var r []uint64
	for i := 0; i < g.NumNodes(); i++ {
		o := g.Out(i)
		r = append(r, uint64(len(o)))
		r = append(r, ib(o)...)
	}
	return r
}
func snapG(g graph.IntGraph) func() []uint64 {
	c20Scramble = append(c20Scramble, func() func() { // other edges in the same adjacency arrays
		n := len(g)
		saved := make([][]int, n)
		for i := range g {
			o := g[i]
			saved[i] = append([]int(nil), o...)
			for a, b := 0, len(o)-1; a < b; a, b = a+1, b-1 {
				o[a], o[b] = o[b], o[a]
			}
			for k := range o {
				o[k] = (o[k] + 1 + k) % n
			}
		}
		return func() {
			for i := range g {
				copy(g[i], saved[i])
			}
		}
	})
	return func() []uint64 { return flatG(g) }
}
func eqU(a, b []uint64) bool {
	if len(a) != len(b) {
		return false
	}
	for i := range a {
		if a[i] != b[i] {
			return false
		}
	}
	return true
}
func errBits(err error) uint64 {
	if err == nil {
		return 0
	}
	h := uint64(1)
	for _, c := range err.Error() {
		h = h*131 + uint64(c)
	}
	return h
}

// unsorted data with ties, so that any internal sort or reordering is visible
func c20Data(rng *rand.Rand, n int) []float64 {
	xs := make([]float64, n)
	for i := range xs {
		xs[i] = float64(rng.Intn(2*n+3)) / 4
	}
	// make sure it is not sorted (n >= 3)
	if n >= 2 && sort.Float64sAreSorted(xs) {
		xs[0], xs[n-1] = xs[n-1]+1, xs[0]-1
	}
	if c20Special != 0 && n >= 3 { // special values at random places (sorting with NaN, -0 == 0 ties, overflow)
		for k := 0; k < 1+n/8; k++ {
			v := c20SpecialVals[rng.Intn(len(c20SpecialVals))]
			if c20Special == 2 && v != v {
				v = math.Inf(1)
			}
			xs[rng.Intn(n)] = v
		}
		if sort.Float64sAreSorted(xs) { // still not sorted (NaNs sort first)
			xs[0], xs[n-1] = xs[n-1], xs[0]
			if sort.Float64sAreSorted(xs) {
				xs[0], xs[n-1] = 3, 2
			}
		}
	}
	return houseF(rng, xs)
}
func c20Weights(rng *rand.Rand, n int) []float64 {
	ws := make([]float64, n)
	for i := range ws {
		ws[i] = float64(1+rng.Intn(50)) + float64(i)/1024 // distinct, so a pair-sort moves them visibly
	}
	c20SawWeights = true
	c20InWeights = true
	defer func() { c20InWeights = false }()
	return houseF(rng, ws)
}

// high-degree structure (shapes 1 and 2; the requested size is only a lower bound there)
func c20HubGraph(rng *rand.Rand, n int) graph.IntGraph {
	N := 130 + rng.Intn(40)
	if n > N {
		N = n
	}
	g := make(graph.IntGraph, N)
	// the hub component 0 -> 1 -> 2 -> 0; every other node is a component of its own or part of
	// a small cycle further down, so that more than 64 DISTINCT components are entered
	g[0], g[1], g[2] = []int{1}, []int{2}, []int{0}
	for h, cnt := range []int{90, 50, 30} {
		for k := 0; k < cnt; k++ {
			g[h] = append(g[h], 3+rng.Intn(N-3))
		}
		// plus every third node once more: parallel edges, and all targets covered by hub node 0
		if h == 0 {
			for t := 3; t < N; t++ {
				g[0] = append(g[0], t)
				if t%3 == 0 {
					g[0] = append(g[0], t)
				}
			}
		}
		rng.Shuffle(len(g[h]), func(a, b int) { g[h][a], g[h][b] = g[h][b], g[h][a] })
	}
	for i := 3; i < N; i++ {
		switch rng.Intn(4) {
		case 0:
			if i+1 < N {
				g[i] = append(g[i], i+1)
			}
		case 1:
			if i+2 < N {
				g[i] = append(g[i], i+2, i+1, i+2)
			}
		case 2:
			if i > 4 && i%5 == 0 { // a small cycle i -> i-1 -> i (when i-1 points forward to i)
				g[i] = append(g[i], i-1)
				g[i-1] = append(g[i-1], i)
			}
		}
	}
	for i := range g {
		g[i] = houseI(rng, g[i])
	}
	return g
}
func c20LongAdjGraph(rng *rand.Rand, n int) graph.IntGraph {
	N := 40 + rng.Intn(30)
	if n > N {
		N = n
	}
	g := make(graph.IntGraph, N)
	for k := 0; k < 1100+rng.Intn(200); k++ { // > 1024 entries, mostly parallel edges
		g[0] = append(g[0], rng.Intn(N))
	}
	for k := 0; k < 70+rng.Intn(30); k++ { // > 64
		g[1] = append(g[1], rng.Intn(N))
	}
	for i := 2; i < N; i++ {
		d := rng.Intn(3)
		for k := 0; k < d; k++ {
			g[i] = append(g[i], rng.Intn(N))
		}
		if rng.Intn(5) == 0 {
			for k := 0; k < 66; k++ {
				g[i] = append(g[i], (i+k*k)%N)
			}
		}
	}
	for i := range g {
		g[i] = houseI(rng, g[i])
	}
	return g
}

// Sample shapes (c20Samp): Sorted flag with ascending data x weights nil / all positive / exact
// zeros (scattered with a zero directly followed by a non-zero weight; at both ends)
func c20Sample(rng *rand.Rand, n int, weighted bool) stats.Sample {
	sorted := c20Samp%2 == 1
	xs := c20Data(rng, n)
	if sorted {
		sort.Float64s(xs) // in its window; ties stay
	}
	s := stats.Sample{Xs: xs, Sorted: sorted}
	if !weighted {
		return s
	}
	ws := c20Weights(rng, n)
	if n >= 2 {
		switch c20Samp / 2 {
		case 1:
			for i := range ws {
				if rng.Intn(3) == 0 {
					ws[i] = 0
				}
			}
			p := rng.Intn(n - 1)
			ws[p], ws[p+1] = 0, (1.5+float64(p)/64)*c20WUnit()
		case 2:
			ws[0], ws[n-1] = 0, 0
			if n >= 3 {
				ws[1] = 2.25 * c20WUnit()
			} else {
				ws[1] = 2.25 * c20WUnit() // n == 2: only the first is zero
			}
		}
	}
	s.Weights = ws
	return s
}

func c20Graph(rng *rand.Rand, n int) graph.IntGraph {
	switch c20Shape {
	case 1:
		return c20HubGraph(rng, n)
	case 2:
		return c20LongAdjGraph(rng, n)
	}
	dense := c20Shape == 3
	g := make(graph.IntGraph, n)
	for i := range g {
		d := rng.Intn(4)
		if dense {
			d = n/2 + rng.Intn(n+1)
		}
		for k := 0; k < d; k++ {
			g[i] = append(g[i], rng.Intn(n))
		}
		if i+1 < n && rng.Intn(3) > 0 {
			g[i] = append(g[i], i+1)
		}
		// unsorted adjacency with a duplicate now and then
		if len(g[i]) > 0 && rng.Intn(4) == 0 {
			g[i] = append(g[i], g[i][0])
		}
	}
	if n >= 2 {
		g[0] = append(g[0], n-1, 1, n-1)
		if len(g[0]) >= 2 && sort.IntsAreSorted(g[0]) {
			g[0][0], g[0][len(g[0])-1] = g[0][len(g[0])-1], g[0][0]
		}
	}
	for i := range g {
		g[i] = houseI(rng, g[i])
	}
	return g
}

func one(inst *c20Inst) func() *c20Inst { return func() *c20Inst { return inst } }

type identHist struct {
	under, over uint
	bins        []uint
}

func (h *identHist) Add(float64)                  {}
func (h *identHist) Counts() (uint, []uint, uint) { return h.under, h.bins, h.over }
func (h *identHist) BinToValue(b float64) float64 { return b }
func statsRes(r *stats.TTestResult, err error) []uint64 {
	if err != nil {
		return []uint64{errBits(err)}
	}
	return []uint64{0, uint64(r.N1), uint64(r.N2), math.Float64bits(r.T), math.Float64bits(r.DoF), math.Float64bits(r.P)}
}

var c20Table []c20Call

func init() {
	alts := []stats.LocationHypothesis{stats.LocationLess, stats.LocationDiffers, stats.LocationGreater}
	add := func(c c20Call) { c20Table = append(c20Table, c) }

	// ---- routine 1: MannWhitneyUTest
	add(c20Call{"stats.MannWhitneyUTest", 1, 2, func(rng *rand.Rand, n int) func() *c20Inst {
		x1, x2 := c20Data(rng, n), c20Data(rng, n+1)
		alt := alts[rng.Intn(3)]
		return one(&c20Inst{[]func() []uint64{snapF(&x1), snapF(&x2)}, func() []uint64 {
			r, err := stats.MannWhitneyUTest(x1, x2, alt)
			if err != nil {
				return []uint64{errBits(err)}
			}
			return []uint64{0, uint64(r.N1), uint64(r.N2), math.Float64bits(r.U), math.Float64bits(r.P)}
		}})
	}})
	// ---- routines 2, 3: Sample.Quantile / IQR on unsorted (weighted and unweighted) samples
	for _, weighted := range []bool{false, true} {
		weighted := weighted
		suffix := ""
		if weighted {
			suffix = "/weighted"
		}
		add(c20Call{"stats.Sample.Quantile" + suffix, 2, 2, func(rng *rand.Rand, n int) func() *c20Inst {
			s := c20Sample(rng, n, weighted)
			q := rng.Float64()
			return one(&c20Inst{[]func() []uint64{snapF(&s.Xs), snapF(&s.Weights)}, func() []uint64 {
				return []uint64{math.Float64bits(s.Quantile(q)), math.Float64bits(s.Quantile(0)), math.Float64bits(s.Quantile(1))}
			}})
		}})
		add(c20Call{"stats.Sample.IQR" + suffix, 3, 2, func(rng *rand.Rand, n int) func() *c20Inst {
			s := c20Sample(rng, n, weighted)
			return one(&c20Inst{[]func() []uint64{snapF(&s.Xs), snapF(&s.Weights)}, func() []uint64 {
				return []uint64{math.Float64bits(s.IQR())}
			}})
		}})
	}
	// ---- routine 4: SampleCI
	add(c20Call{"stats.QuantileCIResult.SampleCI", 4, 1, func(rng *rand.Rand, n int) func() *c20Inst {
		s := c20Sample(rng, n, false)
		q, c := 0.1+0.8*rng.Float64(), 0.5+0.45*rng.Float64()
		return one(&c20Inst{[]func() []uint64{snapF(&s.Xs)}, func() []uint64 {
			ci := stats.QuantileCI(len(s.Xs), q, c)
			a, lo, hi := ci.SampleCI(s)
			return []uint64{uint64(ci.LoOrder), uint64(ci.HiOrder), math.Float64bits(ci.Confidence), math.Float64bits(a), math.Float64bits(lo), math.Float64bits(hi)}
		}})
	}})
	// ---- routine 5: LOESS (unsorted input) and evaluation of the returned closure
	add(c20Call{"fit.LOESS", 5, 2, func(rng *rand.Rand, n int) func() *c20Inst {
		if n < 6 {
			n = 6
		}
		xs := make([]float64, n)
		for i := range xs {
			xs[i] = float64(i) + float64(rng.Intn(8))/16
		}
		rng.Shuffle(n, func(i, j int) { xs[i], xs[j] = xs[j], xs[i] })
		xs = houseF(rng, xs)
		ys := c20Data(rng, n)
		deg := rng.Intn(3)
		span := 0.5 + 0.5*rng.Float64()
		at := []float64{xs[0], xs[1] + 0.25, float64(n) / 2}
		return one(&c20Inst{[]func() []uint64{snapF(&xs), snapF(&ys)}, func() []uint64 {
			f := fit.LOESS(xs, ys, deg, span)
			var r []uint64
			for _, x := range at {
				r = append(r, math.Float64bits(f(x)))
			}
			return r
		}})
	}})
	// ---- routine 6: least squares
	add(c20Call{"fit.PolynomialRegression", 6, 3, func(rng *rand.Rand, n int) func() *c20Inst {
		if n < 6 {
			n = 6
		}
		xs := make([]float64, n)
		for i := range xs {
			xs[i] = float64(i)/4 - 1
		}
		rng.Shuffle(n, func(i, j int) { xs[i], xs[j] = xs[j], xs[i] })
		xs = houseF(rng, xs)
		ys := c20Data(rng, n)
		ws := c20Weights(rng, n)
		deg := rng.Intn(4)
		return one(&c20Inst{[]func() []uint64{snapF(&xs), snapF(&ys), snapF(&ws)}, func() []uint64 {
			pr := fit.PolynomialRegression(xs, ys, ws, deg)
			r := fb(pr.Coefficients)
			r = append(r, math.Float64bits(pr.F(0.5)))
			return r
		}})
	}})
	add(c20Call{"fit.LinearLeastSquares", 6, 3, func(rng *rand.Rand, n int) func() *c20Inst {
		if n < 6 {
			n = 6
		}
		xs := make([]float64, n)
		for i := range xs {
			xs[i] = float64(i)/4 - 1
		}
		rng.Shuffle(n, func(i, j int) { xs[i], xs[j] = xs[j], xs[i] })
		xs = houseF(rng, xs)
		ys := c20Data(rng, n)
		var ws []float64
		if rng.Intn(2) == 0 || c20Mag != 0 && c20MagTarget != 2 { // extreme weights: always weighted
			ws = c20Weights(rng, n)
		}
		return one(&c20Inst{[]func() []uint64{snapF(&xs), snapF(&ys), snapF(&ws)}, func() []uint64 {
			p := fit.LinearLeastSquares(xs, ys, ws,
				func(xs, out []float64) {
					for i := range xs {
						out[i] = 1
					}
				},
				func(xs, out []float64) { copy(out, xs) })
			return fb(p)
		}})
	}})
	// ---- routine 7: graph.Equal
	add(c20Call{"graph.Equal", 7, 2, func(rng *rand.Rand, n int) func() *c20Inst {
		g1 := c20Graph(rng, n)
		n = len(g1)
		g2 := make(graph.IntGraph, len(g1))
		same := rng.Intn(2) == 0
		for i := range g1 {
			g2[i] = append([]int(nil), g1[i]...)
			rng.Shuffle(len(g2[i]), func(a, b int) { g2[i][a], g2[i][b] = g2[i][b], g2[i][a] })
		}
		if !same && n > 0 {
			g2[n-1] = append(g2[n-1], 0)
		}
		for i := range g2 {
			g2[i] = houseI(rng, g2[i])
		}
		return one(&c20Inst{[]func() []uint64{snapG(g1), snapG(g2)}, func() []uint64 {
			if graph.Equal(g1, g2) {
				return []uint64{1}
			}
			return []uint64{0}
		}})
	}})
	// ---- routine 8: SCC
	add(c20Call{"graphalg.SCC", 8, 1, func(rng *rand.Rand, n int) func() *c20Inst {
		g := c20Graph(rng, n)
		n = len(g)
		return one(&c20Inst{[]func() []uint64{snapG(g)}, func() []uint64 {
			var r []uint64
			// every flag setting; the full observable: every Subnodes and Out list in order
			for _, flags := range []graphalg.SCCFlags{graphalg.SCCSubnodeComponent | graphalg.SCCEdges, graphalg.SCCEdges, graphalg.SCCSubnodeComponent, 0} {
				s := graphalg.SCC(g, flags)
				r = append(r, uint64(s.NumNodes()))
				for c := 0; c < s.NumNodes(); c++ {
					r = append(r, uint64(len(s.Subnodes(c))))
					r = append(r, ib(s.Subnodes(c))...)
					r = append(r, uint64(len(s.Out(c))))
					r = append(r, ib(s.Out(c))...)
				}
				if flags&graphalg.SCCSubnodeComponent != 0 {
					for i := 0; i < n; i++ {
						r = append(r, uint64(s.SubnodeComponent(i)))
					}
				}
			}
			return r
		}})
	}})
	// ---- routine 9: subgraphs
	for _, keep := range []bool{true, false} {
		keep := keep
		name := "graph.SubgraphRemove"
		if keep {
			name = "graph.SubgraphKeep"
		}
		add(c20Call{name, 9, 3, func(rng *rand.Rand, n int) func() *c20Inst {
			g := c20Graph(rng, n)
			n = len(g)
			var nodes []int
			for i := n - 1; i >= 0; i-- { // descending: unsorted on purpose
				if rng.Intn(2) == 0 {
					nodes = append(nodes, i)
				}
			}
			var edges []graph.Edge
			kept := map[int]bool{}
			for _, v := range nodes {
				kept[v] = true
			}
			for i := n - 1; i >= 0; i-- {
				for e := len(g[i]) - 1; e >= 0; e-- {
					// SubgraphKeep's edges must join kept nodes (anything else is outside its domain: it panics
					// or silently attaches the edge to node 0)
					if rng.Intn(3) == 0 && (!keep || (kept[i] && kept[g[i][e]])) {
						edges = append(edges, graph.Edge{Node: i, Edge: e})
					}
				}
			}
			nodes = houseI(rng, nodes)
			// the edge list is a guarded window as well (whole backing array in the snapshot)
			espare := c20Spare(rng, len(edges))
			eback := make([]graph.Edge, c20Guard+len(edges)+espare+c20Guard)
			for i := range eback {
				eback[i] = graph.Edge{Node: c20SentI, Edge: c20SentI}
			}
			copy(eback[c20Guard:], edges)
			edges = eback[c20Guard : c20Guard+len(edges) : c20Guard+len(edges)+espare]
			snapE := func() []uint64 {
				r := []uint64{uint64(len(edges))}
				for _, e := range eback {
					r = append(r, uint64(e.Node), uint64(e.Edge))
				}
				return r
			}
			return one(&c20Inst{[]func() []uint64{snapG(g), snapI(&nodes), snapE}, func() []uint64 {
				var sg graph.Subgraph
				if keep {
					sg = graph.SubgraphKeep(g, nodes, edges)
				} else {
					sg = graph.SubgraphRemove(g, nodes, edges)
				}
				r := flatGraph(sg)
				nm := sg.NodeMap(func(n int) interface{} { return n })
				for i := 0; i < sg.NumNodes(); i++ {
					r = append(r, uint64(nm(i).(int)))
				}
				return r
			}})
		}})
	}
	// ---- routine 10: read-only graph algorithms (one tracked array: the adjacency lists)
	gcall := func(name string, f func(g graph.IntGraph, root int) []uint64) {
		add(c20Call{name, 10, 1, func(rng *rand.Rand, n int) func() *c20Inst {
			g := c20Graph(rng, n)
			root := 0
			return one(&c20Inst{[]func() []uint64{snapG(g)}, func() []uint64 { return f(g, root) }})
		}})
	}
	gcall("graphalg.PreOrder", func(g graph.IntGraph, r int) []uint64 { return ib(graphalg.PreOrder(g, r)) })
	gcall("graphalg.PostOrder", func(g graph.IntGraph, r int) []uint64 { return ib(graphalg.PostOrder(g, r)) })
	gcall("graphalg.Euler.Visit", func(g graph.IntGraph, r int) []uint64 {
		var ev []uint64
		graphalg.Euler{Enter: func(n int) { ev = append(ev, uint64(2*n)) }, Exit: func(n int) { ev = append(ev, uint64(2*n+1)) }}.Visit(g, r)
		return ev
	})
	gcall("graphalg.IDom+Dom+DomFrontier", func(g graph.IntGraph, r int) []uint64 {
		bg := graph.MakeBiGraph(g)
		idom := graphalg.IDom(bg, r)
		keep := append([]int(nil), idom...)
		out := ib(idom)
		t := graphalg.Dom(idom)
		for i := 0; i < t.NumNodes(); i++ {
			out = append(out, uint64(len(t.Out(i))))
			out = append(out, ib(t.Out(i))...)
		}
		for _, f := range graphalg.DomFrontier(bg, r, idom) {
			out = append(out, uint64(len(f)))
			out = append(out, ib(f)...)
		}
		for i := range keep { // IDom's result must not be modified by Dom/DomFrontier
			if keep[i] != idom[i] {
				out = append(out, 0xdead)
			}
		}
		return out
	})
	gcall("graph.MakeBiGraph", func(g graph.IntGraph, r int) []uint64 {
		bg := graph.MakeBiGraph(g)
		var out []uint64
		for i := 0; i < bg.NumNodes(); i++ {
			out = append(out, uint64(len(bg.In(i))))
			out = append(out, ib(bg.In(i))...)
		}
		return out
	})
	gcall("graphalg.SimplifyMulti", func(g graph.IntGraph, r int) []uint64 {
		w := graphalg.SimplifyMulti(g)
		out := flatGraph(w)
		for i := 0; i < w.NumNodes(); i++ {
			for e := range w.Out(i) {
				out = append(out, math.Float64bits(w.OutWeight(i, e)))
			}
		}
		return out
	})
	gcall("graphout.Dot.Sprint", func(g graph.IntGraph, r int) []uint64 {
		s := graphout.Dot{Name: "g"}.Sprint(g)
		out := make([]uint64, len(s))
		for i := 0; i < len(s); i++ {
			out[i] = uint64(s[i])
		}
		return out
	})
	// ---- routine 11: read-only numeric functions (up to two tracked arrays)
	two := func(name string, f func(xs, ys []float64, rng *rand.Rand) func() []uint64) {
		add(c20Call{name, 11, 2, func(rng *rand.Rand, n int) func() *c20Inst {
			xs, ys := c20Data(rng, n), c20Data(rng, n)
			call := f(xs, ys, rng)
			return one(&c20Inst{[]func() []uint64{snapF(&xs), snapF(&ys)}, call})
		}})
	}
	// ... for functions taking a Sample: ascending data with the Sorted flag set when samp is odd
	sampleOf := func(xs []float64) stats.Sample {
		return stats.Sample{Xs: xs, Sorted: len(xs) > 0 && sort.Float64sAreSorted(xs)}
	}
	twoS := func(name string, f func(xs, ys []float64, rng *rand.Rand) func() []uint64) {
		add(c20Call{name, 11, 2, func(rng *rand.Rand, n int) func() *c20Inst {
			xs, ys := c20Data(rng, n), c20Data(rng, n)
			if c20Samp%2 == 1 {
				sort.Float64s(xs)
				sort.Float64s(ys)
			}
			call := f(xs, ys, rng)
			return one(&c20Inst{[]func() []uint64{snapF(&xs), snapF(&ys)}, call})
		}})
	}
	f1 := func(g func(xs []float64) float64) func(xs, ys []float64, rng *rand.Rand) func() []uint64 {
		return func(xs, ys []float64, rng *rand.Rand) func() []uint64 {
			return func() []uint64 { return []uint64{math.Float64bits(g(xs))} }
		}
	}
	two("stats.Mean", f1(stats.Mean))
	two("stats.Variance", f1(stats.Variance))
	two("stats.StdDev", f1(stats.StdDev))
	two("stats.GeoMean", f1(func(xs []float64) float64 {
		// shift to positive without touching the argument
		return stats.GeoMean(xs) // may be NaN/0 for zeros; still deterministic
	}))
	two("stats.Bounds", func(xs, ys []float64, rng *rand.Rand) func() []uint64 {
		return func() []uint64 { a, b := stats.Bounds(xs); return []uint64{math.Float64bits(a), math.Float64bits(b)} }
	})
	two("stats.MeanCI", func(xs, ys []float64, rng *rand.Rand) func() []uint64 {
		c := 0.5 + 0.49*rng.Float64()
		return func() []uint64 {
			m, lo, hi := stats.MeanCI(xs, c)
			return []uint64{math.Float64bits(m), math.Float64bits(lo), math.Float64bits(hi)}
		}
	})
	// every Sample method, on every Sample shape (Sorted flag x weights nil / positive / with zeros);
	// each method is called under its own recover (Variance, StdDev, MeanCI panic on weighted samples)
	for _, weighted := range []bool{true, false} {
		weighted := weighted
		name := "stats.Sample.{Mean,Variance,StdDev,GeoMean,Sum,Weight,Bounds,MeanCI,Copy}"
		if !weighted {
			name += "/unweighted"
		}
		add(c20Call{name, 11, 2, func(rng *rand.Rand, n int) func() *c20Inst {
			s := c20Sample(rng, n, weighted)
			conf := 0.5 + 0.45*rng.Float64()
			return one(&c20Inst{[]func() []uint64{snapF(&s.Xs), snapF(&s.Weights)}, func() []uint64 {
				var r []uint64
				try := func(f func()) {
					defer func() {
						if e := recover(); e != nil {
							r = append(r, 0xbad0bad0, errBits(fmt.Errorf("%v", e)))
						}
					}()
					f()
				}
				try(func() { a, b := s.Bounds(); r = append(r, math.Float64bits(a), math.Float64bits(b)) })
				try(func() { r = append(r, math.Float64bits(s.Mean())) })
				try(func() { r = append(r, math.Float64bits(s.GeoMean())) })
				try(func() { r = append(r, math.Float64bits(s.Sum())) })
				try(func() { r = append(r, math.Float64bits(s.Weight())) })
				try(func() { r = append(r, math.Float64bits(s.Variance())) })
				try(func() { r = append(r, math.Float64bits(s.StdDev())) })
				try(func() {
					m, lo, hi := s.MeanCI(conf)
					r = append(r, math.Float64bits(m), math.Float64bits(lo), math.Float64bits(hi))
				})
				try(func() {
					r = append(r, math.Float64bits(s.Quantile(0.5)), math.Float64bits(s.Quantile(0.999)), math.Float64bits(s.IQR()))
				})
				try(func() {
					c := s.Copy()
					r = append(r, fb(c.Xs)...)
					r = append(r, fb(c.Weights)...)
					if c.Sorted {
						r = append(r, 1)
					}
					// Copy shares no storage: scribbling on the copy must not reach the original
					for i := range c.Xs {
						c.Xs[i] = -1
					}
					for i := range c.Weights {
						c.Weights[i] = -1
					}
				})
				return r
			}})
		}})
	}
	twoS("stats.TwoSampleTTest", func(xs, ys []float64, rng *rand.Rand) func() []uint64 {
		alt := alts[rng.Intn(3)]
		return func() []uint64 { return statsRes(stats.TwoSampleTTest(sampleOf(xs), sampleOf(ys), alt)) }
	})
	twoS("stats.TwoSampleWelchTTest", func(xs, ys []float64, rng *rand.Rand) func() []uint64 {
		alt := alts[rng.Intn(3)]
		return func() []uint64 { return statsRes(stats.TwoSampleWelchTTest(sampleOf(xs), sampleOf(ys), alt)) }
	})
	two("stats.PairedTTest", func(xs, ys []float64, rng *rand.Rand) func() []uint64 {
		alt := alts[rng.Intn(3)]
		return func() []uint64 { return statsRes(stats.PairedTTest(xs, ys, 0.25, alt)) }
	})
	twoS("stats.OneSampleTTest", func(xs, ys []float64, rng *rand.Rand) func() []uint64 {
		alt := alts[rng.Intn(3)]
		return func() []uint64 { return statsRes(stats.OneSampleTTest(sampleOf(xs), 1.5, alt)) }
	})
	twoS("stats.BandwidthScott/Silverman", func(xs, ys []float64, rng *rand.Rand) func() []uint64 {
		return func() []uint64 {
			return []uint64{math.Float64bits(stats.BandwidthScott(sampleOf(xs))), math.Float64bits(stats.BandwidthSilverman(sampleOf(xs)))}
		}
	})
	two("vec.Concat/prefix-slices", func(xs, ys []float64, rng *rand.Rand) func() []uint64 {
		// first argument is a short prefix of a longer array: plenty of spare capacity behind it
		k, m := 1+rng.Intn(2), 1+rng.Intn(2)
		if k > len(xs) { // size 1: the prefix cannot be longer than the slice (xs[:2] would panic in the HARNESS)
			k = len(xs)
		}
		if m > len(ys) {
			m = len(ys)
		}
		return func() []uint64 {
			c := vec.Concat(xs[:k], ys[:m], ys[len(ys)-1:])
			r := fb(c)
			for i := range c { // the result must be fresh
				c[i] = -7
			}
			return r
		}
	})
	two("vec.Map/Vectorize/Concat/Sum", func(xs, ys []float64, rng *rand.Rand) func() []uint64 {
		return func() []uint64 {
			f := func(x float64) float64 { return 2*x + 1 }
			a := vec.Map(f, xs)
			b := vec.Vectorize(f)(ys)
			c := vec.Concat(xs, ys, a)
			r := append(append(fb(a), fb(b)...), fb(c)...)
			r = append(r, math.Float64bits(vec.Sum(xs)))
			for i := range a { // outputs are fresh: scribbling on them must not reach the inputs
				a[i] = -7
			}
			for i := range c {
				c[i] = -7
			}
			return r
		}
	})
	two("vec.Linspace/Logspace", func(xs, ys []float64, rng *rand.Rand) func() []uint64 {
		n := 2 + rng.Intn(9)
		return func() []uint64 { return append(fb(vec.Linspace(-1, 3, n)), fb(vec.Logspace(0, 3, n, 10))...) }
	})
	add(c20Call{"stats.UDist.{PMF,CDF}", 11, 2, func(rng *rand.Rand, n int) func() *c20Inst {
		// tie vectors that are NOT palindromes: the in-place reversal of the history step changes them
		t := houseI(rng, [][]int{{1, 2, 3, 1, 2}, {3, 1, 2, 2, 1}, {2, 2, 1, 1, 3}, {1, 1, 1, 2, 4}}[rng.Intn(4)])
		d := stats.UDist{N1: 4, N2: 5, T: t}
		u := float64(rng.Intn(41)) / 2
		none := []float64(nil)
		return one(&c20Inst{[]func() []uint64{snapI(&t), snapF(&none)}, func() []uint64 {
			d0 := stats.UDist{N1: 5, N2: 6}
			return []uint64{math.Float64bits(d.PMF(u)), math.Float64bits(d.CDF(u)), math.Float64bits(d0.PMF(u)), math.Float64bits(d0.CDF(u))}
		}})
	}})
	add(c20Call{"stats.HistogramQuantile/IQR", 11, 2, func(rng *rand.Rand, n int) func() *c20Inst {
		h := &identHist{under: uint(rng.Intn(3)), over: uint(rng.Intn(3))}
		for i := 0; i < n; i++ {
			h.bins = append(h.bins, uint(rng.Intn(5)))
		}
		h.bins = append(h.bins, 3)
		// the counts the library obtains through Counts() are a guarded window too
		bspare := c20Spare(rng, len(h.bins))
		bback := make([]uint, c20Guard+len(h.bins)+bspare+c20Guard)
		for i := range bback {
			bback[i] = 777777
		}
		copy(bback[c20Guard:], h.bins)
		h.bins = bback[c20Guard : c20Guard+len(h.bins) : c20Guard+len(h.bins)+bspare]
		q := 0.2 + 0.6*rng.Float64()
		snapB := func() []uint64 {
			r := []uint64{uint64(h.under), uint64(h.over), uint64(len(h.bins))}
			for _, b := range bback {
				r = append(r, uint64(b))
			}
			return r
		}
		return one(&c20Inst{[]func() []uint64{snapB, snapNone}, func() []uint64 {
			return []uint64{math.Float64bits(stats.HistogramQuantile(h, q)), math.Float64bits(stats.HistogramIQR(h))}
		}})
	}})
	add(c20Call{"stats.InvCDF/dist methods", 11, 2, func(rng *rand.Rand, n int) func() *c20Inst {
		y := 0.05 + 0.9*rng.Float64()
		none := []float64(nil)
		return one(&c20Inst{[]func() []uint64{snapF(&none), snapF(&none)}, func() []uint64 {
			b := stats.BinomialDist{N: 12, P: 0.3}
			h := stats.HypergeometicDist{N: 20, K: 7, Draws: 5}
			t := stats.TDist{V: 4.5}
			nd := stats.NormalDist{Mu: 1, Sigma: 2}
			return []uint64{
				math.Float64bits(stats.InvCDF(b)(y)), math.Float64bits(stats.InvCDF(h)(y)), math.Float64bits(stats.InvCDF(t)(y)),
				math.Float64bits(stats.InvCDF(nd)(y)), math.Float64bits(b.CDF(4)), math.Float64bits(h.PMF(2)), math.Float64bits(t.CDF(y)),
				math.Float64bits(nd.PDF(y)), math.Float64bits(stats.Rand(t)(rand.New(rand.NewSource(7)))),
			}
		}})
	}})
	// a BiGraph built once and shared by all goroutines (IDom, DomFrontier and In read it)
	add(c20Call{"graphalg.IDom/DomFrontier on a shared BiGraph", 10, 1, func(rng *rand.Rand, n int) func() *c20Inst {
		g := c20Graph(rng, n)
		bg := graph.MakeBiGraph(g)
		return one(&c20Inst{[]func() []uint64{snapG(g)}, func() []uint64 {
			idom := graphalg.IDom(bg, 0)
			out := ib(idom)
			for _, f := range graphalg.DomFrontier(bg, 0, idom) {
				out = append(out, uint64(len(f)))
				out = append(out, ib(f)...)
			}
			for i := 0; i < bg.NumNodes(); i++ {
				out = append(out, ib(bg.In(i))...)
			}
			return out
		}})
	}})
	// scalar functions whose results must not depend on what was evaluated before
	add(c20Call{"mathx.{Choose,Lchoose,BetaInc,GammaInc}+Hypergeometric/Binomial", 11, 2, func(rng *rand.Rand, n int) func() *c20Inst {
		N := 21 + rng.Intn(8) // few n, so that (n,k) and (n,n-k) recur across cases
		k := rng.Intn(N + 1)
		K, D := rng.Intn(N+1), rng.Intn(N+1)
		p := float64(rng.Intn(17)) / 16
		none := []float64(nil)
		return one(&c20Inst{[]func() []uint64{snapF(&none), snapF(&none)}, func() []uint64 {
			h := stats.HypergeometicDist{N: N, K: K, Draws: D}
			b := stats.BinomialDist{N: N, P: p}
			return []uint64{math.Float64bits(mathx.Choose(N, k)), math.Float64bits(mathx.Lchoose(N, k)),
				math.Float64bits(h.PMF(float64(k % (D + 1)))), math.Float64bits(h.CDF(float64(k % (D + 1)))),
				math.Float64bits(b.PMF(float64(k))), math.Float64bits(b.CDF(float64(k))),
				math.Float64bits(mathx.BetaInc(p, float64(k)+0.5, 2.5)), math.Float64bits(mathx.GammaInc(float64(k)+0.5, 3*p))}
		}})
	}})
	// ---- routine 12 / 25: KDE with the bandwidth set / lazily filled
	for _, lazy := range []bool{false, true} {
		lazy := lazy
		routine, name := 12, "stats.KDE.{PDF,CDF,Bounds}"
		if lazy {
			routine, name = 25, "stats.KDE.{PDF,CDF,Bounds}/lazy-bandwidth"
		}
		add(c20Call{name, routine, 3, func(rng *rand.Rand, n int) func() *c20Inst {
			if n < 4 {
				n = 4
			}
			smp := c20Sample(rng, n, rng.Intn(2) == 0 && !lazy) // Scott's rule is not implemented for weighted samples
			xs, ws := smp.Xs, smp.Weights
			kern := stats.KDEKernel(rng.Intn(2))
			bmin, bmax := 0.0, 0.0
			switch rng.Intn(3) {
			case 1:
				bmin, bmax = -1, math.Inf(1)
			case 2:
				bmin, bmax = -1, float64(n)+3
			}
			x := float64(rng.Intn(4*n)) / 8 * c20DUnit()
			bmin, bmax = bmin*c20DUnit(), bmax*c20DUnit()
			bw0 := 0.75 * c20DUnit()
			if lazy {
				bw0 = 0
			}
			return func() *c20Inst { // own KDE struct per instance (the Bandwidth cell is the in-place target), shared sample
				k := &stats.KDE{Sample: stats.Sample{Xs: xs, Weights: ws, Sorted: smp.Sorted}, Kernel: kern, Bandwidth: bw0, BoundaryMin: bmin, BoundaryMax: bmax}
				sx := snapF(&xs)
				// argument 0 = the sample's Xs AND every field of the KDE other than Bandwidth and Weights (Kernel,
				// BoundaryMin/Max, BoundaryMethod, Sample.Sorted, the slice headers): only the Bandwidth cell may change
				snap0 := func() []uint64 {
					kk := *k
					kk.Bandwidth, kk.Sample.Xs, kk.Sample.Weights = 0, nil, nil
					o := sx()
					deepU(reflect.ValueOf(kk), true, &o, 0)
					o = append(o, uint64(len(k.Sample.Xs)), uint64(cap(k.Sample.Xs)), uint64(len(k.Sample.Weights)), uint64(cap(k.Sample.Weights)))
					return o
				}
				return &c20Inst{[]func() []uint64{snap0, snapF(&ws), func() []uint64 { return []uint64{math.Float64bits(k.Bandwidth)} }}, func() []uint64 {
					lo, hi := k.Bounds()
					return []uint64{math.Float64bits(k.PDF(x)), math.Float64bits(k.CDF(x)), math.Float64bits(lo), math.Float64bits(hi)}
				}}
			}
		}})
	}
	// ---- routine 20: Sample.Sort
	add(c20Call{"stats.Sample.Sort", 20, 2, func(rng *rand.Rand, n int) func() *c20Inst {
		if n < 3 {
			n = 3
		}
		xs0, ws0 := c20Data(rng, n), c20Weights(rng, n)
		weighted := rng.Intn(2) == 0
		return func() *c20Inst {
			s := &stats.Sample{Xs: append([]float64(nil), xs0...)}
			if weighted {
				s.Weights = append([]float64(nil), ws0...)
			}
			return &c20Inst{[]func() []uint64{snapF(&s.Xs), snapF(&s.Weights)}, func() []uint64 {
				s.Sort()
				return append(fb(s.Xs), fb(s.Weights)...)
			}}
		}
	}})
	// ---- routine 21: Reverse
	add(c20Call{"graphalg.Reverse", 21, 1, func(rng *rand.Rand, n int) func() *c20Inst {
		if n < 2 {
			n = 2
		}
		base := make([]int, n)
		for i := range base {
			base[i] = i * i
		}
		return func() *c20Inst {
			xs := append([]int(nil), base...)
			return &c20Inst{[]func() []uint64{snapI(&xs)}, func() []uint64 { return ib(graphalg.Reverse(xs)) }}
		}
	}})
	// ---- routine 22: Nice / SetClamp
	add(c20Call{"scale.Linear.{Nice,SetClamp}", 22, 1, func(rng *rand.Rand, n int) func() *c20Inst {
		lo := float64(rng.Intn(100)) + 0.37
		hi := lo + 3.21 + float64(rng.Intn(50))
		max := 3 + rng.Intn(8)
		return func() *c20Inst {
			s := &scale.Linear{Min: lo, Max: hi}
			snap := func() []uint64 {
				return []uint64{math.Float64bits(s.Min), math.Float64bits(s.Max), math.Float64bits(s.Map(lo - 10))}
			}
			return &c20Inst{[]func() []uint64{snap}, func() []uint64 {
				s.Nice(scale.TickOptions{Max: max})
				s.SetClamp(true)
				maj, min := s.Ticks(scale.TickOptions{Max: max})
				return append(append(snap(), fb(maj)...), fb(min)...)
			}}
		}
	}})
	add(c20Call{"scale.Log.{Nice,SetClamp}", 22, 1, func(rng *rand.Rand, n int) func() *c20Inst {
		lo := float64(rng.Intn(100)) + 1.37
		hi := lo*7.3 + float64(rng.Intn(5000))
		max := 3 + rng.Intn(8)
		return func() *c20Inst {
			s, _ := scale.NewLog(lo, hi, 10)
			snap := func() []uint64 {
				return []uint64{math.Float64bits(s.Min), math.Float64bits(s.Max), math.Float64bits(s.Map(lo / 10))}
			}
			return &c20Inst{[]func() []uint64{snap}, func() []uint64 {
				s.Nice(scale.TickOptions{Max: max})
				s.SetClamp(true)
				maj, min := s.Ticks(scale.TickOptions{Max: max})
				return append(append(snap(), fb(maj)...), fb(min)...)
			}}
		}
	}})
	// ---- routine 23: receiver-only updates
	add(c20Call{"stats.StreamStats.Add", 23, 1, func(rng *rand.Rand, n int) func() *c20Inst {
		xs := c20Data(rng, n+1)
		return func() *c20Inst {
			s := &stats.StreamStats{}
			snap := func() []uint64 {
				return []uint64{uint64(s.Count), math.Float64bits(s.Total), math.Float64bits(s.Min), math.Float64bits(s.Max), math.Float64bits(s.Mean()), math.Float64bits(s.RMS())}
			}
			return &c20Inst{[]func() []uint64{snap}, func() []uint64 {
				for _, x := range xs {
					s.Add(x)
				}
				return snap()
			}}
		}
	}})
	add(c20Call{"stats.LinearHist.Add/LogHist.Add", 23, 1, func(rng *rand.Rand, n int) func() *c20Inst {
		xs := c20Data(rng, n+1)
		return func() *c20Inst {
			h := stats.NewLinearHist(0, float64(n)/2+1, 5)
			g := stats.NewLogHist(2, 2, 64)
			snap := func() []uint64 {
				u, b, o := h.Counts()
				r := []uint64{uint64(u), uint64(o)}
				for _, c := range b {
					r = append(r, uint64(c))
				}
				u, b, o = g.Counts()
				r = append(r, uint64(u), uint64(o))
				for _, c := range b {
					r = append(r, uint64(c))
				}
				return r
			}
			return &c20Inst{[]func() []uint64{snap}, func() []uint64 {
				for _, x := range xs {
					h.Add(x)
					g.Add(x + 1)
				}
				return snap()
			}}
		}
	}})
	add(c20Call{"graphalg.NodeMarks.{Mark,Unmark}", 23, 1, func(rng *rand.Rand, n int) func() *c20Inst {
		ids := make([]int, n+2)
		for i := range ids {
			ids[i] = rng.Intn(300)
		}
		return func() *c20Inst {
			m := graphalg.NewNodeMarks()
			snap := func() []uint64 {
				var r []uint64
				for i := m.Next(-1); i >= 0; i = m.Next(i) {
					r = append(r, uint64(i))
				}
				return r
			}
			return &c20Inst{[]func() []uint64{snap}, func() []uint64 {
				for _, i := range ids {
					m.Mark(i)
				}
				m.Unmark(ids[0])
				return snap()
			}}
		}
	}})
	// ---- routine 24: Combine
	add(c20Call{"stats.StreamStats.Combine", 24, 2, func(rng *rand.Rand, n int) func() *c20Inst {
		xs, ys := c20Data(rng, n+1), c20Data(rng, n+2)
		o := &stats.StreamStats{} // shared, read-only for Combine
		for _, y := range ys {
			o.Add(y)
		}
		sn := func(s *stats.StreamStats) func() []uint64 {
			return func() []uint64 {
				return []uint64{uint64(s.Count), math.Float64bits(s.Total), math.Float64bits(s.Min), math.Float64bits(s.Max), math.Float64bits(s.Mean()), math.Float64bits(s.RMS()), math.Float64bits(s.Variance())}
			}
		}
		return func() *c20Inst {
			s := &stats.StreamStats{}
			for _, x := range xs {
				s.Add(x)
			}
			return &c20Inst{[]func() []uint64{sn(s), sn(o)}, func() []uint64 {
				s.Combine(o)
				return sn(s)()
			}}
		}
	}})
}

func c20Find(name string) (int, *c20Call) {
	for i := range c20Table {
		if c20Table[i].name == name {
			return i, &c20Table[i]
		}
	}
	for i := range c20Canaries {
		if c20Canaries[i].name == name {
			return len(c20Table) + i, &c20Canaries[i]
		}
	}
	return -1, nil
}

func hashU(r []uint64) uint64 {
	h := uint64(1469598103934665603)
	for _, v := range r {
		for b := 0; b < 8; b++ {
			h ^= (v >> (8 * uint(b))) & 0xff
			h *= 1099511628211
		}
	}
	return h >> 1 // keep it positive when read back as a signed integer
}

// c20FreshRef runs the case in a fresh child process (one per case, so the child has no
// history whatsoever) and returns the hash of its result.
// mode "1": the case's call as the first call of the process; mode "2": the argument arrays
// are first overwritten with the second contents (the scramblers), then the call is made
var c20FreshRef = func(raw []byte, mode string) (uint64, error) {
	cmd := exec.Command(os.Args[0], "run", "C20")
	cmd.Env = append(os.Environ(), "C20_FRESH="+mode)
	cmd.Stdin = bytes.NewReader(append(append([]byte{}, raw...), '\n'))
	out, err := cmd.Output()
	if err != nil {
		return 0, fmt.Errorf("fresh-process reference failed: %v", err)
	}
	f := strings.Fields(string(out))
	if len(f) < 2 || f[0] != "14" {
		return 0, fmt.Errorf("fresh-process reference: unexpected output %q", string(out))
	}
	return strconv.ParseUint(f[1], 16, 64)
}

const c20Threads = 16

// a panic of the code under test is a result like any other (it must be the same
// result every time); its message is folded into the canonical result
func c20Call1(inst *c20Inst) (r []uint64) {
	defer func() {
		if e := recover(); e != nil {
			atomic.AddInt64(&c20PanicCount, 1)
			r = []uint64{0xbad0bad0, errBits(fmt.Errorf("%v", e))}
		}
	}()
	return inst.call()
}

// number of library calls that ended in a panic (hand-written entries: the whole call; reflective
// entries: each method call).  A call that panics has compared nothing: the count observed during
// the FIRST sequential call of a case is part of the line and the comparator rejects a non-zero
// count (position 5) - on the unchanged tree no entry panics.
var c20PanicCount int64

// a result that cannot be canonicalised (a closure of a shape the harness cannot evaluate, a
// channel): the case is refused (harness failure), never passed unexamined
var c20Uncomparable atomic.Value

// number of cases this process has run before/including the current one, not counting the
// reference runs of a fresh child process (C20_FRESH): read by the process-history canary
var c20RunsInProcess int64

// API names exercised by the hand-written entries above (the reflect:* entries add, at run
// time, every method they call)
var c20StaticCovered = []string{
	"stats.MannWhitneyUTest", "stats.Sample.Quantile", "stats.Sample.IQR", "stats.QuantileCIResult.SampleCI",
	"fit.LOESS", "fit.PolynomialRegression", "fit.LinearLeastSquares", "graph.Equal", "graphalg.SCC",
	"graphalg.SCCGraph.NumNodes", "graphalg.SCCGraph.Subnodes", "graphalg.SCCGraph.Out", "graphalg.SCCGraph.SubnodeComponent",
	"graph.SubgraphKeep", "graph.SubgraphRemove", "graphalg.PreOrder", "graphalg.PostOrder", "graphalg.Euler.Visit",
	"graphalg.IDom", "graphalg.Dom", "graphalg.DomFrontier", "graphalg.DomTree.NumNodes", "graphalg.DomTree.Out",
	"graph.MakeBiGraph", "graphalg.SimplifyMulti", "graphout.Dot.Sprint",
	"stats.Mean", "stats.Variance", "stats.StdDev", "stats.GeoMean", "stats.Bounds", "stats.MeanCI",
	"stats.Sample.Mean", "stats.Sample.Variance", "stats.Sample.StdDev", "stats.Sample.GeoMean", "stats.Sample.Sum",
	"stats.Sample.Weight", "stats.Sample.Bounds", "stats.Sample.MeanCI", "stats.Sample.Copy",
	"stats.PairedTTest", "vec.Concat", "vec.Map", "vec.Sum", "stats.UDist.PMF", "stats.UDist.CDF",
	"stats.InvCDF", "stats.Rand", "stats.KDE.PDF", "stats.KDE.CDF", "stats.KDE.Bounds",
	"stats.Sample.Sort", "graphalg.Reverse", "graphalg.NodeMarks.Mark", "graphalg.NodeMarks.Unmark",
	"stats.LinearHist.Add", "stats.LogHist.Add",
	"stats.TwoSampleTTest", "stats.TwoSampleWelchTTest", "stats.OneSampleTTest", "stats.BandwidthScott", "stats.BandwidthSilverman",
	"vec.Vectorize",
}

// API functions that cannot be called from inside the harness, with the reason (reported in
// the machinery note of every run)
var c20Waived = map[string]string{
	"graphout.Dot.Print": "writes to os.Stdout, which is the harness's own result channel; it is Fprint(os.Stdout, g) (dot.go) and Fprint/Sprint are exercised",
}

// the API surface, and the part of it that no table entry exercises
func c20Uncovered() (api []apiFunc, uncovered []apiFunc, err error) {
	api, err = c20APISurface()
	if err != nil {
		return nil, nil, err
	}
	cov := map[string]bool{}
	for _, n := range c20StaticCovered {
		cov[n] = true
	}
	for n := range c20Waived {
		cov[n] = true
	}
	for _, r := range c20Receivers {
		called, _ := c20ReflectMethods(r)
		for _, n := range called {
			cov[n] = true
		}
	}
	for _, a := range api {
		if !cov[a.Name] {
			uncovered = append(uncovered, a)
		}
	}
	return api, uncovered, nil
}

// "@api" (the scan itself) and "@unlisted:<name>" cases: pseudo-routine 30; det = 0 reports an
// exported function/method in the property's domain that no table entry exercises
// "@warmup" (emitted first when C20_CONC_FIRST=1, i.e. in the -race twin): the FIRST use of
// every table entry in this process is made by 16 goroutines at once, at three sizes, before
// any sequential call has been made - so an unsynchronised lazy initialisation anywhere below
// the API is executed concurrently and the race detector sees it.  det = all goroutines of an
// entry returned the same result.
func c20RunWarmup() (*Line, error) {
	ok := true
	for ti := range c20Table {
		for _, size := range []int{4, 12, 60} {
			c20CapMode, c20Shape, c20Samp = 0, (ti+size)%4, (ti+size)%6
			fac := c20Table[ti].build(rand.New(rand.NewSource(int64(1000*ti+size))), size)
			insts := make([]*c20Inst, c20Threads)
			for i := range insts {
				insts[i] = fac()
			}
			res := make([][]uint64, c20Threads)
			var wg sync.WaitGroup
			for i := range insts {
				wg.Add(1)
				go func(i int) { defer wg.Done(); res[i] = c20Call1(insts[i]) }(i)
			}
			wg.Wait()
			for i := range res {
				if !eqU(res[i], res[0]) {
					ok = false
					fmt.Fprintf(os.Stderr, "[C20] warm-up: concurrent first calls of %s (size %d) disagree\n", c20Table[ti].name, size)
				}
			}
		}
	}
	l := &Line{}
	l.I(20).I(30).I(0).B(true).B(ok).I(0).I(len(c20Table)).Int(0).I(3)
	return l, nil
}

func c20RunAPI(c c20Case) (*Line, error) {
	if c.Call == "@warmup" {
		return c20RunWarmup()
	}
	api, unc, err := c20Uncovered()
	if err != nil {
		return nil, fmt.Errorf("API scan failed: %v", err)
	}
	// the scan must SEE what the table calls: a scan that has gone blind (wrong directory, a parse
	// that silently yields nothing) would otherwise report "nothing uncovered"
	inAPI := map[string]bool{}
	for _, a := range api {
		inAPI[a.Name] = true
	}
	for _, n := range c20StaticCovered {
		if !inAPI[n] {
			return nil, fmt.Errorf("API scan is blind: it does not find %s, which the table calls (%d functions found)", n, len(api))
		}
	}
	ok := true
	if strings.HasPrefix(c.Call, "@unlisted:") {
		name := strings.TrimPrefix(c.Call, "@unlisted:")
		for _, u := range unc {
			if u.Name == name {
				ok = false
				fmt.Fprintf(os.Stderr, "[C20] exported %s (%s) is exercised by no entry of the table\n", u.Name, u.Why)
			}
		}
	}
	l := &Line{}
	l.I(20).I(30).I(0).B(ok).B(true).I(0).I(len(api)).Int(0).I(len(unc))
	return l, nil
}

func c20Run(raw []byte) (*Line, error) {
	var c c20Case
	if err := json.Unmarshal(raw, &c); err != nil {
		return nil, err
	}
	if strings.HasPrefix(c.Call, "@") {
		return c20RunAPI(c)
	}
	idx, call := c20Find(c.Call)
	if call == nil {
		return nil, fmt.Errorf("unknown call %q", c.Call)
	}
	if c.Size < 1 || c.Size > 400 {
		return nil, fmt.Errorf("bad size")
	}
	mk := func() func() *c20Inst { return call.build(rand.New(rand.NewSource(c.Seed)), c.Size) }
	if os.Getenv("C20_FRESH") == "" {
		atomic.AddInt64(&c20RunsInProcess, 1)
	}
	c20Uncomparable.Store("")
	// 1. mutation
	if c.Cap < 0 || c.Cap > 2 {
		return nil, fmt.Errorf("bad cap mode")
	}
	if c.Shape < 0 || c.Shape > 3 || c.Samp < 0 || c.Samp > 5 {
		return nil, fmt.Errorf("bad shape")
	}
	c20Shape, c20Samp = c.Shape, c.Samp
	c20CapMode = c.Cap
	if c.Sp < 0 || c.Sp > 2 {
		return nil, fmt.Errorf("bad sp")
	}
	c20Special = c.Sp
	if c.Mag < 0 || c.Mag > 18 || c.Mag != 0 && c.Sp != 0 {
		return nil, fmt.Errorf("bad mag")
	}
	c20SetMag(c.Call, c.Mag)
	c20Floats, c20Scramble = nil, nil
	c20BackF, c20BackI = map[*float64][]float64{}, map[*int][]int{}
	inst := mk()()
	scramblers := c20Scramble
	if len(inst.args) != call.nargs {
		return nil, fmt.Errorf("table error: %s tracks %d arrays, routine has %d", call.name, len(inst.args), call.nargs)
	}
	// C20_CONC_FIRST=1 (set for the -race twin): the very first use of the routine in this
	// case happens CONCURRENTLY, on instances of their own, so that an unsynchronised lazy
	// initialisation is exercised by several goroutines at once
	var early [][]uint64
	if os.Getenv("C20_CONC_FIRST") == "1" {
		efac := mk()
		einst := make([]*c20Inst, c20Threads)
		for i := range einst {
			einst[i] = efac()
		}
		early = make([][]uint64, c20Threads)
		var ewg sync.WaitGroup
		for i := range einst {
			ewg.Add(1)
			go func(i int) { defer ewg.Done(); early[i] = c20Call1(einst[i]) }(i)
		}
		ewg.Wait()
	}
	before := make([][]uint64, len(inst.args))
	for i, a := range inst.args {
		before[i] = a()
	}
	if os.Getenv("C20_FRESH") == "2" {
		for _, sc := range scramblers {
			sc()
		}
	}
	atomic.StoreInt64(&c20PanicCount, 0)
	atomic.StoreInt32(&c20CanaryFirstCall, 1)
	r1 := c20Call1(inst)
	panics := atomic.LoadInt64(&c20PanicCount)
	if os.Getenv("C20_FRESH") != "" {
		// reference mode: this process has made no other call; report only a hash of the result
		l := &Line{}
		l.I(20).U(hashU(r1))
		return l, nil
	}
	mutated := make([]bool, len(inst.args))
	for i, a := range inst.args {
		mutated[i] = !eqU(before[i], a())
	}
	// the same call on the same arguments, three times in all: the FULL canonical result (every
	// list in order) must repeat - e.g. an order taken from a map iteration does not
	det3 := true
	if call.routine < 20 {
		for k := 0; k < 2; k++ {
			if !eqU(r1, c20Call1(inst)) {
				det3 = false
			}
		}
	}
	// 2. history: unrelated calls, then the same call on freshly built equal arguments
	hr := rand.New(rand.NewSource(c.Seed ^ 0x5eed))
	c20Special = 0 // the unrelated calls run on ordinary data
	c20SetMag("", 0)
	for k := 0; k < 4; k++ {
		o := &c20Table[hr.Intn(len(c20Table))]
		c20Call1(o.build(rand.New(rand.NewSource(hr.Int63())), 3+hr.Intn(20))())
	}
	c20Special = c.Sp
	c20SetMag(c.Call, c.Mag)
	det := det3 && eqU(r1, c20Call1(mk()()))
	// ... also when the SAME buffers hold different data at a later call (a cache keyed by slice
	// identity would go stale): overwrite the argument arrays in place with other values v2 and
	// call again; the result must equal, bit for bit, that of a call on NEWLY ALLOCATED arrays
	// holding v2 which the library has never seen; then restore the contents and call once more
	if det && (call.routine < 20 || call.routine == c20CanaryNondet) {
		c20Call1(inst) // the library has just seen these arrays with the old contents
		var restore []func()
		for _, sc := range scramblers {
			restore = append(restore, sc())
		}
		r2 := c20Call1(inst)
		c20Scramble = nil
		ref := mk()()
		for _, sc := range c20Scramble {
			sc()
		}
		det = eqU(r2, c20Call1(ref))
		// ... and what a FRESH process computes for the second contents
		if det && c20FreshRef != nil && os.Getenv("C20_NOFRESH") != "1" {
			h, err := c20FreshRef(raw, "2")
			if err != nil {
				return nil, err
			}
			det = h == hashU(r2)
		}
		for _, un := range restore {
			un()
		}
		det = det && eqU(r1, c20Call1(inst))
	}
	// ... and the result must be what a FRESH process (no call made before) computes
	if det && c20FreshRef != nil && os.Getenv("C20_NOFRESH") != "1" {
		h, err := c20FreshRef(raw, "1")
		if err != nil {
			return nil, err
		}
		det = h == hashU(r1)
	}
	// 3. schedules: 16 goroutines on shared inputs
	fac := mk()
	insts := make([]*c20Inst, c20Threads)
	for i := range insts {
		insts[i] = fac()
	}
	fp := map[int]bool{}
	for i, m := range mutated {
		if m {
			fp[i] = true
		}
	}
	sharedBefore := make([][]uint64, call.nargs)
	for i, a := range insts[0].args {
		sharedBefore[i] = a()
	}
	res := make([][]uint64, c20Threads)
	// schedule variety, chosen by the case seed: GOMAXPROCS 1 / 4 / 16, and the threads are
	// released together (barrier), staggered (thread i yields i*7 times first) or as a
	// pipeline (thread i starts when thread i-1 has started its call)
	procs := []int{1, 4, 16}[int(uint64(c.Seed)%3)]
	mode := int(uint64(c.Seed) / 3 % 3)
	oldProcs := runtime.GOMAXPROCS(procs)
	var wg sync.WaitGroup
	start := make(chan struct{})
	started := make([]chan struct{}, c20Threads+1)
	for i := range started {
		started[i] = make(chan struct{})
	}
	close(started[0])
	for i := range insts {
		wg.Add(1)
		go func(i int) {
			defer wg.Done()
			<-start
			switch mode {
			case 1:
				for k := 0; k < 7*i; k++ {
					runtime.Gosched()
				}
			case 2:
				<-started[i]
			}
			close(started[i+1])
			res[i] = c20Call1(insts[i])
		}(i)
	}
	close(start)
	wg.Wait()
	runtime.GOMAXPROCS(oldProcs)
	conc := true
	for i := range early {
		if !eqU(early[i], r1) {
			conc = false
		}
	}
	for i := range res {
		if !eqU(res[i], r1) {
			conc = false
		}
	}
	for i, a := range insts[len(insts)-1].args {
		if !fp[i] && !eqU(sharedBefore[i], a()) { // arrays the sequential call left alone must be untouched
			conc = false
		}
	}
	l := &Line{}
	l.I(20).I(call.routine).I(call.nargs)
	for _, m := range mutated {
		l.B(m)
	}
	l.B(det).B(conc).I(int(panics)).I(idx).Int(c.Seed & 0xffffffff).I(c.Size)
	if u, _ := c20Uncomparable.Load().(string); u != "" {
		return nil, fmt.Errorf("%s: a result cannot be canonicalised (%s): add a hand-written entry that evaluates it", call.name, u)
	}
	return l, nil
}

func c20ProbeFloats() (takesF, takesW map[string]bool, err error) {
	takesF, takesW = map[string]bool{}, map[string]bool{}
	if os.Getenv("C20_LIST_FLOATS") != "" { // the child: probe and print
		for _, c := range c20Table {
			c20SawFloat, c20SawWeights = false, false
			c20Special, c20Samp, c20Shape, c20CapMode = 0, 0, 0, 0
			c20SetMag("", 0)
			for _, sz := range []int{7, 8, 9, 10} { // some entries draw "weighted or not" from the PRNG
				c.build(rand.New(rand.NewSource(int64(sz))), sz)()
			}
			fmt.Printf("%s\t%v\t%v\n", c.name, c20SawFloat, c20SawWeights)
		}
		return nil, nil, nil
	}
	cmd := exec.Command(os.Args[0], "gen", "C20", "quick", "1")
	cmd.Env = append(os.Environ(), "C20_LIST_FLOATS=1")
	out, err := cmd.Output()
	if err != nil {
		return nil, nil, err
	}
	for _, l := range strings.Split(strings.TrimSpace(string(out)), "\n") {
		f := strings.Split(l, "\t")
		if len(f) != 3 {
			return nil, nil, fmt.Errorf("unexpected probe line %q", l)
		}
		takesF[f[0]], takesW[f[0]] = f[1] == "true", f[2] == "true"
	}
	if len(takesF) != len(c20Table) {
		return nil, nil, fmt.Errorf("probe listed %d entries, table has %d", len(takesF), len(c20Table))
	}
	return takesF, takesW, nil
}

func c20Gen(tier string, rng *rand.Rand, emit0 func(interface{})) {
	// the number of cases emitted is printed at the very end: a run that dies half-way is
	// recognised by the missing sentinel (bin/plugins/C20.py checks it for the -race twin)
	emitted := 0
	emit := func(c interface{}) { emitted++; emit0(c) }
	defer func() { fmt.Fprintf(os.Stderr, "[C20] gen complete: %d cases\n", emitted) }()
	// the API surface of the tree under test: one case for the scan, one per uncovered function
	api, unc, err := c20Uncovered()
	if os.Getenv("C20_LIST_API") != "" {
		fmt.Fprintln(os.Stderr, "api surface:", len(api), "uncovered:", len(unc), err)
		for _, a := range api {
			fmt.Fprintln(os.Stderr, a.Name, "\t", a.Why)
		}
		for _, a := range unc {
			fmt.Fprintln(os.Stderr, "UNCOVERED", a.Name, "\t", a.Why)
		}
		return
	}
	if os.Getenv("C20_LIST_FLOATS") != "" {
		c20ProbeFloats()
		return
	}
	if os.Getenv("C20_CONC_FIRST") == "1" {
		emit(c20Case{Call: "@warmup", Size: 3})
	}
	emit(c20Case{Call: "@api", Size: len(api)})
	for _, u := range unc {
		emit(c20Case{Call: "@unlisted:" + u.Name, Size: 3})
	}
	reps := 6
	if tier == "thorough" {
		reps = 60
	}
	// which entries take float arrays / weights at all: probe builds on ordinary data, made in a CHILD
	// process (some builds construct their receivers through library calls; this process must not have
	// made any before the warm-up of the -race twin)
	takesF, takesW, err := c20ProbeFloats()
	if err != nil {
		panic("C20: probe of the float-taking entries failed: " + err.Error())
	}
	magFlip := rng.Intn(2)
	for r := 0; r < reps; r++ {
		for _, c := range c20Table {
			size := 3 + rng.Intn(30)
			if r%3 == 2 {
				size = 30 + rng.Intn(120)
			}
			if r == 3 || r == 4 {
				size = 5 - r // 2 and 1: the smallest inputs, special-cased paths
			}
			emit(c20Case{Call: c.name, Seed: rng.Int63(), Size: size, Cap: (r + 2) % 3, Shape: r % 4, Samp: r % 6})
			if sp := c20SpecialFor(c.name); sp != 0 && r%3 == 1 { // the same entry on data with NaN, +-Inf, -0, extremes
				emit(c20Case{Call: c.name, Seed: rng.Int63(), Size: size, Cap: r % 3, Sp: sp})
			}
			// the same entry with every float array scaled to an extreme magnitude: quick r = 0 (data and
			// weights) and r = 5 (weights only where the entry has weights), one of them huge, the other
			// tiny; thorough: every r = 0, 2 mod 3 but the size-2 round, weights only / data only alternating
			if takesF[c.name] && r%3 != 1 && r != 3 && (tier == "thorough" || r == 0 || r == 5) {
				tgt := 0
				if r%3 == 2 && takesW[c.name] {
					tgt = 2 - (r/3)%2
				}
				mag := 1 + 6*tgt + 2*rng.Intn(3) + (r+magFlip)%2
				emit(c20Case{Call: c.name, Seed: rng.Int63(), Size: size, Cap: (r + 1) % 3, Samp: r % 6, Mag: mag})
			}
			if strings.HasPrefix(c.name, "mathx.") { // scalar calls are cheap: many more parameter draws
				for x := 0; x < 15; x++ {
					emit(c20Case{Call: c.name, Seed: rng.Int63(), Size: size})
				}
			}
		}
		// the harness's self-test: deliberately impure / history-dependent / schedule-dependent functions
		// defined in c20canary.go go through exactly the same pipeline; the comparator DEMANDS that they
		// are flagged, so a harness that has gone blind in one of its stages fails the run
		if r < 6 {
			for _, c := range c20Canaries {
				cc := c20Case{Call: c.name, Seed: rng.Int63(), Size: 3 + rng.Intn(30), Cap: (r + 2) % 3}
				if c.name == "canary:impure/extreme" { // flagged ONLY when the extreme-magnitude flavour really scales the arrays
					cc.Mag = 1 + 6*(r%2) + 2*rng.Intn(3) + (r/2+magFlip)%2
				}
				if c.name == "canary:nondet/process" && os.Getenv("C20_NOFRESH") == "1" {
					continue // only the fresh-process reference can see it, and the -race twin makes none
				}
				emit(cc)
			}
		}
	}
}

func init() { register(&Prop{ID: "C20", Num: 20, Gen: c20Gen, Run: c20Run}) }

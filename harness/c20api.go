package main

// C20, API surface: "every exported function and method taking a slice, Sample, graph or
// distribution".  The set is computed on every run with go/parser over the tree the harness
// was built against (the module's replace directive), so a function or method added to the
// library is noticed: it must be claimed by an entry of c20Table (field covers) or the run
// reports it (see c20Gen / c20RunAPI).

import (
	"fmt"
	"go/ast"
	"go/parser"
	"go/token"
	"os"
	"path/filepath"
	"runtime/debug"
	"sort"
	"strings"
)

type apiFunc struct {
	Name string // pkg.Func or pkg.Type.Method
	Why  string // which parameter/receiver puts it into the property's domain
}

// directory of the library under test: the replace target recorded in the build info
func c20RepoDir() (string, error) {
	if d := os.Getenv("C20_REPO_DIR"); d != "" {
		return d, nil
	}
	bi, ok := debug.ReadBuildInfo()
	if !ok {
		return "", fmt.Errorf("no build info")
	}
	for _, d := range bi.Deps {
		if d.Path == "github.com/aclements/go-moremath" {
			if d.Replace != nil {
				return d.Replace.Path, nil
			}
			return "", fmt.Errorf("go-moremath is not replaced by a directory")
		}
	}
	return "", fmt.Errorf("go-moremath not among the dependencies")
}

var c20APIPkgs = []string{"stats", "fit", "vec", "scale", "mathx", "graph", "graph/graphalg", "graph/graphout"}

type typeInfo struct {
	pkg  string
	spec *ast.TypeSpec
}

// c20APISurface parses the exported API and returns the functions/methods in the domain.
func c20APISurface() ([]apiFunc, error) {
	root, err := c20RepoDir()
	if err != nil {
		return nil, err
	}
	fset := token.NewFileSet()
	type fileOf struct {
		pkg string
		f   *ast.File
	}
	var files []fileOf
	types := map[string]typeInfo{} // "pkg.Type"
	// packages: the fixed list plus any other non-internal, non-cmd directory with Go files
	seen := map[string]bool{}
	dirs := append([]string{}, c20APIPkgs...)
	filepath.Walk(root, func(p string, info os.FileInfo, err error) error {
		if err != nil || !info.IsDir() {
			return nil
		}
		rel, _ := filepath.Rel(root, p)
		base := filepath.Base(p)
		if rel == "." {
			return nil
		}
		if strings.HasPrefix(base, ".") || base == "internal" || base == "cmd" || base == "testdata" || base == "vendor" {
			return filepath.SkipDir
		}
		dirs = append(dirs, filepath.ToSlash(rel))
		return nil
	})
	for _, d := range dirs {
		if seen[d] {
			continue
		}
		seen[d] = true
		pkgs, err := parser.ParseDir(fset, filepath.Join(root, d), func(fi os.FileInfo) bool {
			return !strings.HasSuffix(fi.Name(), "_test.go")
		}, 0)
		if err != nil {
			if os.IsNotExist(err) {
				continue
			}
			return nil, err
		}
		for pname, p := range pkgs {
			if pname == "main" || strings.HasSuffix(pname, "_test") {
				continue
			}
			for _, f := range p.Files {
				files = append(files, fileOf{pname, f})
				for _, decl := range f.Decls {
					gd, ok := decl.(*ast.GenDecl)
					if !ok || gd.Tok != token.TYPE {
						continue
					}
					for _, s := range gd.Specs {
						ts := s.(*ast.TypeSpec)
						types[pname+"."+ts.Name.Name] = typeInfo{pname, ts}
					}
				}
			}
		}
	}
	// the method set of Sample (by name): an interface all of whose methods Sample has (TTestSample, the
	// anonymous interface of BandwidthScott/Silverman, ...) is a parameter "taking a Sample"
	sampleMethods := map[string]bool{}
	for _, fo := range files {
		for _, decl := range fo.f.Decls {
			if fd, ok := decl.(*ast.FuncDecl); ok && fd.Recv != nil && len(fd.Recv.List) == 1 && fo.pkg == "stats" {
				rt := fd.Recv.List[0].Type
				if st, ok := rt.(*ast.StarExpr); ok {
					rt = st.X
				}
				if id, ok := rt.(*ast.Ident); ok && id.Name == "Sample" {
					sampleMethods[fd.Name.Name] = true
				}
			}
		}
	}
	sampleIface := func(u *ast.InterfaceType) bool {
		if u.Methods == nil || len(u.Methods.List) == 0 {
			return false
		}
		for _, m := range u.Methods.List {
			if len(m.Names) == 0 {
				return false
			}
			for _, n := range m.Names {
				if !sampleMethods[n.Name] {
					return false
				}
			}
		}
		return true
	}
	// is the type expression (seen from package pkg) a slice, Sample, graph or distribution?
	var inDomain func(pkg string, e ast.Expr, depth int) string
	inDomain = func(pkg string, e ast.Expr, depth int) string {
		if depth > 6 {
			return ""
		}
		switch t := e.(type) {
		case *ast.ArrayType:
			if t.Len == nil {
				return "slice"
			}
			return inDomain(pkg, t.Elt, depth+1)
		case *ast.Ellipsis:
			return "slice (variadic)"
		case *ast.StarExpr:
			return inDomain(pkg, t.X, depth+1)
		case *ast.ParenExpr:
			return inDomain(pkg, t.X, depth+1)
		case *ast.FuncType: // a callback or returned closure that takes a slice, Sample, graph or distribution
			if t.Params != nil {
				for _, p := range t.Params.List {
					if w := inDomain(pkg, p.Type, depth+1); w != "" {
						return "func taking a " + w
					}
				}
			}
		case *ast.InterfaceType:
			if pkg == "stats" && sampleIface(t) {
				return "interface satisfied by Sample"
			}
		case *ast.SelectorExpr:
			if id, ok := t.X.(*ast.Ident); ok {
				return inDomain(id.Name, ast.NewIdent(t.Sel.Name), depth+1)
			}
		case *ast.Ident:
			name := t.Name
			ti, ok := types[pkg+"."+name]
			if !ok {
				return ""
			}
			if name == "Sample" {
				return "Sample"
			}
			if strings.HasSuffix(name, "Dist") || name == "KDE" || name == "DistCommon" {
				return "distribution " + name
			}
			if u, ok := ti.spec.Type.(*ast.InterfaceType); ok && ti.pkg == "stats" && sampleIface(u) {
				return "interface " + name + " satisfied by Sample"
			}
			if strings.HasPrefix(ti.pkg, "graph") {
				switch u := ti.spec.Type.(type) {
				case *ast.InterfaceType:
					// Graph, BiGraph, Weighted ...: interfaces with an Out/In method
					for _, m := range u.Methods.List {
						for _, n := range m.Names {
							if n.Name == "Out" || n.Name == "In" || n.Name == "NumNodes" {
								return "graph " + name
							}
						}
						if len(m.Names) == 0 { // embedded interface
							if w := inDomain(ti.pkg, m.Type, depth+1); w != "" {
								return w
							}
						}
					}
				}
			}
			switch u := ti.spec.Type.(type) {
			case *ast.ArrayType:
				if u.Len == nil {
					return "slice type " + name
				}
			case *ast.StructType:
				for _, f := range u.Fields.List {
					if w := inDomain(ti.pkg, f.Type, depth+1); w != "" {
						return "struct " + name + " holding a " + w
					}
				}
			}
		}
		return ""
	}
	var out []apiFunc
	for _, fo := range files {
		for _, decl := range fo.f.Decls {
			fd, ok := decl.(*ast.FuncDecl)
			if !ok || !fd.Name.IsExported() {
				continue
			}
			name := fo.pkg + "." + fd.Name.Name
			why := ""
			if fd.Recv != nil && len(fd.Recv.List) == 1 {
				rt := fd.Recv.List[0].Type
				if s, ok := rt.(*ast.StarExpr); ok {
					rt = s.X
				}
				id, ok := rt.(*ast.Ident)
				if !ok || !id.IsExported() {
					continue
				}
				name = fo.pkg + "." + id.Name + "." + fd.Name.Name
				if w := inDomain(fo.pkg, fd.Recv.List[0].Type, 0); w != "" {
					why = "receiver: " + w
				}
			}
			if why == "" {
				for _, p := range fd.Type.Params.List {
					if w := inDomain(fo.pkg, p.Type, 0); w != "" {
						why = "parameter: " + w
						break
					}
				}
			}
			if why == "" && fd.Type.Results != nil { // a returned closure that takes a slice, Sample, graph or distribution
				for _, p := range fd.Type.Results.List {
					if ft, ok := p.Type.(*ast.FuncType); ok {
						if w := inDomain(fo.pkg, ft, 0); w != "" {
							why = "result: " + w
							break
						}
					}
				}
			}
			if why != "" {
				out = append(out, apiFunc{name, why})
			}
		}
	}
	sort.Slice(out, func(i, j int) bool { return out[i].Name < out[j].Name })
	return out, nil
}

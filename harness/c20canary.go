package main

// C20, the harness's SELF-TEST ("canaries").  The comparator of C20 sees only flags that this
// harness computes (mutated[i], det, conc): a harness that has gone blind in one of its stages
// (snapshot taken after the call, only the visible window compared, the repeated result compared
// with itself, the fresh-process reference dropped, the concurrent results not compared, the race
// twin's report lost) would report "fine" for every library function.  The functions below are
// DEFINED HERE, are deliberately impure / history-dependent / schedule-dependent / racy, and go
// through exactly the same pipeline (c20Run) as the library entries, under routine ids of their
// own; coq/Check/C20.v (canary_expect) DEMANDS that they are flagged, each in the one stage it
// is built to trip, so that a blinded stage fails every run (observable 6).
//
//   id 40  canary:impure              sorts xs inside its window, writes ONE cell into the spare
//                                     capacity behind ys (len unchanged), only reads zs
//                                     -> mutated must be exactly [1 1 0]
//          canary:impure/extreme      normalises xs and the weights ws IN PLACE (divides by the maximum)
//                                     only when the maximum is beyond 1e+-100 (the shape of seeded
//                                     C20-8), only reads zs; run with the extreme-magnitude flavour
//                                     (mag: data and weights / weights only... see c20Gen)
//                                     -> mutated must be exactly [1 1 0]: a flavour that no longer
//                                     scales the arrays leaves the canary unflagged
//   id 41  canary:nondet/repeat       returns a call counter            -> det = 0 (plain repeat)
//          canary:nondet/stale-cache  memoises by the ADDRESS of xs     -> det = 0 (only the "same
//                                     arrays, other contents" history step sees it)
//          canary:nondet/process      sticky "had this process run anything before my first call"
//                                     -> det = 0 (only the fresh-process reference sees it)
//   id 42  canary:conc/overlap        returns whether another call was in flight (atomics only: no
//                                     data race, sequentially constant)  -> det = 1, conc = 0
//   id 43  canary:conc/race           unsynchronised write to a harness global, constant result
//                                     -> flags all fine; bin/plugins/C20.py demands that the -race
//                                     twin REPORTS this race (and nothing but canary races)
//   id 45  canary:nondet/first-call   the first sequential call of a case returns 0, every later call 1 (in
//                                     every process alike) -> det = 0, seen ONLY by the plain repeat on
//                                     rebuilt arguments (ids >= 20 skip the reused-arrays step, like the
//                                     library's in-place operations)
//   id 44  canary:panic               always panics                      -> panics = 1 (a panic that is
//                                     swallowed uncounted would let a call that compared nothing pass)

import (
	"math"
	"math/rand"
	"runtime"
	"sort"
	"sync"
	"sync/atomic"
)

const (
	c20CanaryImpure = 40
	c20CanaryNondet = 41
	c20CanaryConc   = 42
	c20CanaryRace   = 43
	c20CanaryPanic  = 44
	c20CanaryFirst  = 45
)

// set by c20Run immediately before the first sequential call of every case
var c20CanaryFirstCall int32

var c20Canaries []c20Call

// a window with a given spare capacity (independent of the case's capacity mode)
func houseFx(xs []float64, spare int) []float64 {
	n := len(xs)
	back := make([]float64, c20Guard+n+spare+c20Guard)
	for i := range back {
		back[i] = c20SentF
	}
	w := back[c20Guard : c20Guard+n : c20Guard+n+spare]
	copy(w, xs)
	c20BackF[&back[c20Guard]] = back
	return w
}

var (
	c20CanaryCounter uint64
	c20CanaryCacheMu sync.Mutex
	c20CanaryCache   = map[*float64]uint64{}
	c20CanarySticky  int32 // 0 not yet called, 1 the process had run cases before, 2 it had not
	c20CanaryBusy    int32
	c20CanaryRaceVar int
)

//go:noinline
func c20CanaryImpureFn(xs, ys, zs []float64) uint64 {
	sort.Float64s(xs)       // inside the visible window
	_ = append(ys, 4242.25) // ONE cell of the spare capacity behind the window; len(ys) unchanged
	t := 0.0
	for _, z := range zs {
		t += z
	}
	_ = t
	return uint64(len(xs) + len(ys) + len(zs))
}

//go:noinline
func c20CanaryStaleFn(xs []float64) uint64 {
	c20CanaryCacheMu.Lock()
	defer c20CanaryCacheMu.Unlock()
	if v, ok := c20CanaryCache[&xs[0]]; ok {
		return v
	}
	t := 0.0
	for i, x := range xs {
		t += x * float64(i+1)
	}
	c20CanaryCache[&xs[0]] = math.Float64bits(t)
	return math.Float64bits(t)
}

//go:noinline
func c20CanaryStickyFn() uint64 {
	v := int32(2)
	if atomic.LoadInt64(&c20RunsInProcess) > 0 {
		v = 1
	}
	atomic.CompareAndSwapInt32(&c20CanarySticky, 0, v)
	return uint64(atomic.LoadInt32(&c20CanarySticky))
}

//go:noinline
func c20CanaryOverlapFn() uint64 {
	atomic.AddInt32(&c20CanaryBusy, 1)
	defer atomic.AddInt32(&c20CanaryBusy, -1)
	for k := 0; k < 400; k++ {
		if atomic.LoadInt32(&c20CanaryBusy) > 1 {
			// stay in flight a little longer so that the other call sees this one too
			for j := 0; j < 20; j++ {
				runtime.Gosched()
			}
			return 1
		}
		if k < 200 { // a sequential call returns after its probes; concurrent ones yield to each other
			runtime.Gosched()
		}
	}
	return 0
}

//go:noinline
func c20CanaryRaceFn(xs []float64) uint64 {
	c20CanaryRaceVar++ // unsynchronised: a data race when two goroutines call this
	return uint64(len(xs))
}

// the shape of seeded C20-8: input of extreme magnitude is brought to unit scale in the caller's arrays
func c20CanaryExtremeFn(xs, ws, zs []float64) uint64 {
	for _, a := range [][]float64{xs, ws} {
		m := 0.0
		for _, v := range a {
			if math.Abs(v) > m {
				m = math.Abs(v)
			}
		}
		if m > 1e100 || (0 < m && m < 1e-100) {
			for i := range a {
				a[i] /= m
			}
		}
	}
	s := 0.0
	for _, z := range zs {
		s += z
	}
	return uint64(len(xs)) + uint64(len(zs))<<20 + math.Float64bits(s)<<40
}

func init() {
	addc := func(c c20Call) { c20Canaries = append(c20Canaries, c) }
	plain := func(rng *rand.Rand, n int) []float64 {
		xs := make([]float64, n)
		for i := range xs {
			xs[i] = float64(rng.Intn(2*n+3)) / 4
		}
		if sort.Float64sAreSorted(xs) {
			xs[0], xs[n-1] = xs[n-1]+1, xs[0]-1
		}
		return xs
	}
	addc(c20Call{"canary:impure", c20CanaryImpure, 3, func(rng *rand.Rand, n int) func() *c20Inst {
		if n < 3 {
			n = 3
		}
		x0, y0, z0 := plain(rng, n), plain(rng, n), plain(rng, n)
		sx, sy, sz := rng.Intn(3), 1+rng.Intn(3), rng.Intn(3)
		return func() *c20Inst { // arrays of its own per instance: the concurrent stage shares nothing
			xs, ys, zs := houseFx(x0, sx), houseFx(y0, sy), houseFx(z0, sz)
			return &c20Inst{[]func() []uint64{snapF(&xs), snapF(&ys), snapF(&zs)}, func() []uint64 {
				return []uint64{c20CanaryImpureFn(xs, ys, zs)}
			}}
		}
	}})
	addc(c20Call{"canary:impure/extreme", c20CanaryImpure, 3, func(rng *rand.Rand, n int) func() *c20Inst {
		if n < 3 {
			n = 3
		}
		x0, w0, z0 := plain(rng, n), plain(rng, n), plain(rng, n)
		for i := range w0 {
			w0[i] = math.Abs(w0[i]) + 1
			x0[i] = math.Abs(x0[i]) + 0.5
		}
		sx, sw, sz := rng.Intn(3), rng.Intn(3), rng.Intn(3)
		return func() *c20Inst { // arrays of its own per instance: the concurrent stage shares nothing
			xs, ws, zs := houseFx(x0, sx), houseFx(w0, sw), houseFx(z0, sz)
			// both arrays carry the case's factor whatever the target (this canary tests the scaling itself)
			c20MagApply(xs, c20MagTarget == 1)
			c20MagApply(ws, c20MagTarget != 2)
			c20MagApply(zs, false)
			return &c20Inst{[]func() []uint64{snapF(&xs), snapF(&ws), snapF(&zs)}, func() []uint64 {
				return []uint64{c20CanaryExtremeFn(xs, ws, zs)}
			}}
		}
	}})
	addc(c20Call{"canary:nondet/repeat", c20CanaryNondet, 1, func(rng *rand.Rand, n int) func() *c20Inst {
		xs := c20Data(rng, n)
		return one(&c20Inst{[]func() []uint64{snapF(&xs)}, func() []uint64 {
			return []uint64{atomic.AddUint64(&c20CanaryCounter, 1)}
		}})
	}})
	addc(c20Call{"canary:nondet/stale-cache", c20CanaryNondet, 1, func(rng *rand.Rand, n int) func() *c20Inst {
		if n < 3 {
			n = 3
		}
		xs := c20Data(rng, n)
		return one(&c20Inst{[]func() []uint64{snapF(&xs)}, func() []uint64 { return []uint64{c20CanaryStaleFn(xs)} }})
	}})
	addc(c20Call{"canary:nondet/process", c20CanaryNondet, 1, func(rng *rand.Rand, n int) func() *c20Inst {
		xs := c20Data(rng, n)
		return one(&c20Inst{[]func() []uint64{snapF(&xs)}, func() []uint64 { return []uint64{c20CanaryStickyFn()} }})
	}})
	addc(c20Call{"canary:conc/overlap", c20CanaryConc, 1, func(rng *rand.Rand, n int) func() *c20Inst {
		xs := c20Data(rng, n)
		return one(&c20Inst{[]func() []uint64{snapF(&xs)}, func() []uint64 { return []uint64{c20CanaryOverlapFn()} }})
	}})
	addc(c20Call{"canary:nondet/first-call", c20CanaryFirst, 1, func(rng *rand.Rand, n int) func() *c20Inst {
		xs := c20Data(rng, n)
		return one(&c20Inst{[]func() []uint64{snapF(&xs)}, func() []uint64 {
			if atomic.CompareAndSwapInt32(&c20CanaryFirstCall, 1, 0) {
				return []uint64{0}
			}
			return []uint64{1}
		}})
	}})
	addc(c20Call{"canary:panic", c20CanaryPanic, 1, func(rng *rand.Rand, n int) func() *c20Inst {
		xs := c20Data(rng, n)
		return one(&c20Inst{[]func() []uint64{snapF(&xs)}, func() []uint64 { panic("canary: this call always panics") }})
	}})
	addc(c20Call{"canary:conc/race", c20CanaryRace, 1, func(rng *rand.Rand, n int) func() *c20Inst {
		xs := c20Data(rng, n)
		return one(&c20Inst{[]func() []uint64{snapF(&xs)}, func() []uint64 { return []uint64{c20CanaryRaceFn(xs)} }})
	}})
}

package main

// C20, generic exercise of METHODS by reflection: for every receiver type below, every
// exported method found at run time (so a method added to the library is exercised without
// touching this file) is called with arguments generated from its parameter types; the deep
// state of the receiver and of the arguments is snapshotted before and compared after, the
// results are canonicalised by a deep walk.  The documented in-place methods are excluded
// here (they have their own table entries with a footprint); any OTHER method that modifies
// its receiver or an argument is reported like any other modification outside the footprint.

import (
	"bytes"
	"fmt"
	"math"
	"math/rand"
	"reflect"
	"sort"
	"strings"
	"sync/atomic"

	"github.com/aclements/go-moremath/fit"
	"github.com/aclements/go-moremath/graph"
	"github.com/aclements/go-moremath/graph/graphalg"
	"github.com/aclements/go-moremath/graph/graphout"
	"github.com/aclements/go-moremath/stats"
)

// documented in-place methods (property text) - exercised by their own entries
var c20InPlace = map[string]bool{
	"stats.Sample.Sort": true, "stats.LinearHist.Add": true, "stats.LogHist.Add": true,
	"graphalg.NodeMarks.Mark": true, "graphalg.NodeMarks.Unmark": true,
	"stats.StreamStats.Add": true, "stats.StreamStats.Combine": true,
	"scale.Linear.Nice": true, "scale.Linear.SetClamp": true, "scale.Log.Nice": true, "scale.Log.SetClamp": true,
}

// deep canonical form of a value: every number, length, string byte; slices up to their
// capacity when whole is set (snapshots), up to their length otherwise (results)
func deepU(v reflect.Value, whole bool, out *[]uint64, depth int) {
	if depth > 12 || !v.IsValid() {
		if depth > 12 {
			c20Uncomparable.Store("a value nested deeper than 12 levels")
		}
		*out = append(*out, 0xdeadbeef)
		return
	}
	switch v.Kind() {
	case reflect.Bool:
		if v.Bool() {
			*out = append(*out, 1)
		} else {
			*out = append(*out, 0)
		}
	case reflect.Int, reflect.Int8, reflect.Int16, reflect.Int32, reflect.Int64:
		*out = append(*out, uint64(v.Int()))
	case reflect.Uint, reflect.Uint8, reflect.Uint16, reflect.Uint32, reflect.Uint64, reflect.Uintptr:
		*out = append(*out, v.Uint())
	case reflect.Float32, reflect.Float64:
		*out = append(*out, math.Float64bits(v.Float()))
	case reflect.String:
		s := v.String()
		*out = append(*out, uint64(len(s)))
		for i := 0; i < len(s); i++ {
			*out = append(*out, uint64(s[i]))
		}
	case reflect.Slice:
		if v.IsNil() {
			*out = append(*out, 0xffff0001)
			return
		}
		n := v.Len()
		*out = append(*out, uint64(n))
		if whole {
			// the window's whole backing array when it is one of ours, else up to the capacity
			switch xs := reflectSlice(v).(type) {
			case []float64:
				*out = append(*out, fb(wholeF(xs))...)
				return
			case []int:
				*out = append(*out, ib(wholeI(xs))...)
				return
			}
			v = v.Slice(0, v.Cap())
			n = v.Len()
		}
		for i := 0; i < n; i++ {
			deepU(v.Index(i), whole, out, depth+1)
		}
	case reflect.Array:
		for i := 0; i < v.Len(); i++ {
			deepU(v.Index(i), whole, out, depth+1)
		}
	case reflect.Struct:
		for i := 0; i < v.NumField(); i++ {
			deepU(v.Field(i), whole, out, depth+1)
		}
	case reflect.Ptr, reflect.Interface:
		if v.IsNil() {
			*out = append(*out, 0xffff0002)
			return
		}
		deepU(v.Elem(), whole, out, depth+1)
	case reflect.Map:
		keys := v.MapKeys()
		var ks [][]uint64
		for _, k := range keys {
			var e []uint64
			deepU(k, whole, &e, depth+1)
			deepU(v.MapIndex(k), whole, &e, depth+1)
			ks = append(ks, e)
		}
		sort.Slice(ks, func(i, j int) bool {
			for x := 0; x < len(ks[i]) && x < len(ks[j]); x++ {
				if ks[i][x] != ks[j][x] {
					return ks[i][x] < ks[j][x]
				}
			}
			return len(ks[i]) < len(ks[j])
		})
		for _, e := range ks {
			*out = append(*out, e...)
		}
	case reflect.Func, reflect.Chan, reflect.UnsafePointer:
		if v.IsNil() {
			*out = append(*out, 0xffff0003)
			return
		}
		*out = append(*out, 0xffff0004)
		if whole {
			return // inside a snapshot: a func-valued field can only be replaced, which nil/non-nil does not show; not an array
		}
		// a RESULT that is a closure is evaluated (its values are the result); a closure of another
		// shape, or a channel, cannot be compared: the case is refused instead of passed unexamined
		if v.Kind() == reflect.Func && v.Type() == reflect.TypeOf((func(float64) float64)(nil)) {
			for _, x := range []float64{0.25, 1, 2.5} {
				func() {
					defer func() {
						if e := recover(); e != nil {
							atomic.AddInt64(&c20PanicCount, 1)
							*out = append(*out, 0xbad0bad0)
						}
					}()
					*out = append(*out, math.Float64bits(v.Call([]reflect.Value{reflect.ValueOf(x)})[0].Float()))
				}()
			}
			return
		}
		c20Uncomparable.Store("a result of type " + v.Type().String())
	}
}

// the slice as a concrete []float64 / []int when it is one and can be obtained (exported path)
func reflectSlice(v reflect.Value) interface{} {
	if !v.CanInterface() {
		return nil
	}
	switch v.Type() {
	case reflect.TypeOf([]float64(nil)), reflect.TypeOf([]int(nil)):
		return v.Interface()
	}
	return nil
}

// registers in-place scramblers (c20Scramble) for the arrays of ours reachable from v through
// exported fields: []float64 / []int windows and IntGraph adjacency lists
func c20RegScramble(v reflect.Value, depth int) {
	if depth > 6 || !v.IsValid() || !v.CanInterface() {
		return
	}
	switch v.Kind() {
	case reflect.Ptr, reflect.Interface:
		if !v.IsNil() && v.Type() != tRandPtr && v.Type() != reflect.TypeOf(&bytes.Buffer{}) {
			c20RegScramble(v.Elem(), depth+1)
		}
	case reflect.Struct:
		for i := 0; i < v.NumField(); i++ {
			c20RegScramble(v.Field(i), depth+1)
		}
	case reflect.Slice:
		switch xs := v.Interface().(type) {
		case graph.IntGraph:
			snapG(xs)
		case []float64:
			if cap(xs) > 0 {
				if _, ours := c20BackF[&xs[:1][0]]; ours {
					snapF(&xs)
				}
			}
		case []int:
			if cap(xs) > 0 {
				if _, ours := c20BackI[&xs[:1][0]]; ours {
					snapI(&xs)
				}
			}
		}
	}
}

var (
	tFloat   = reflect.TypeOf(float64(0))
	tInt     = reflect.TypeOf(int(0))
	tBool    = reflect.TypeOf(false)
	tFloats  = reflect.TypeOf([]float64(nil))
	tInts    = reflect.TypeOf([]int(nil))
	tSample  = reflect.TypeOf(stats.Sample{})
	tRandPtr = reflect.TypeOf((*rand.Rand)(nil))
)

// an argument for a parameter of type t, or false when the type is not supported
func c20Arg(t reflect.Type, rng *rand.Rand, n int, k int) (reflect.Value, bool) {
	switch {
	case t == tFloat:
		return reflect.ValueOf(float64(rng.Intn(4*n+4))/8 + float64(k)/16), true
	case t == tInt:
		return reflect.ValueOf(rng.Intn(n)), true
	case t == tBool:
		return reflect.ValueOf(rng.Intn(2) == 0), true
	case t == tFloats:
		return reflect.ValueOf(c20Data(rng, n)), true
	case t == tInts:
		xs := make([]int, n)
		for i := range xs {
			xs[i] = rng.Intn(n)
		}
		return reflect.ValueOf(houseI(rng, xs)), true
	case t == tSample:
		return reflect.ValueOf(c20Sample(rng, n, false)), true
	case t == tRandPtr:
		return reflect.ValueOf(rand.New(rand.NewSource(11))), true
	case t.Kind() == reflect.Interface && t.NumMethod() > 0 && reflect.TypeOf(graph.IntGraph{}).Implements(t):
		return reflect.ValueOf(c20Graph(rng, n)), true
	case t.Kind() == reflect.Interface && t.NumMethod() > 0 && reflect.TypeOf(stats.NormalDist{}).Implements(t):
		return reflect.ValueOf(stats.NormalDist{Mu: 1, Sigma: 2}), true
	case t.Kind() == reflect.Interface && t.NumMethod() > 0 && reflect.TypeOf(&bytes.Buffer{}).Implements(t):
		return reflect.ValueOf(&bytes.Buffer{}), true
	case t.Kind() == reflect.Struct:
		// a struct of supported fields (e.g. option structs): zero value with numeric fields set
		v := reflect.New(t).Elem()
		for i := 0; i < t.NumField(); i++ {
			if !v.Field(i).CanSet() {
				continue
			}
			if a, ok := c20Arg(t.Field(i).Type, rng, n, k); ok && a.Type().AssignableTo(t.Field(i).Type) {
				v.Field(i).Set(a)
			}
		}
		return v, true
	}
	return reflect.Value{}, false
}

// whether c20Arg can build an argument of type t (decided on the type alone)
func c20ArgSupported(t reflect.Type, depth int) bool {
	switch {
	case t == tFloat, t == tInt, t == tBool, t == tFloats, t == tInts, t == tSample, t == tRandPtr:
		return true
	case t.Kind() == reflect.Interface && t.NumMethod() > 0:
		return reflect.TypeOf(graph.IntGraph{}).Implements(t) || reflect.TypeOf(stats.NormalDist{}).Implements(t) ||
			reflect.TypeOf(&bytes.Buffer{}).Implements(t)
	case t.Kind() == reflect.Struct:
		return true
	}
	return false
}

type c20Recv struct {
	name string                                  // pkg.Type
	typ  reflect.Type                            // *T (the method set that is exercised)
	mk   func(rng *rand.Rand, n int) interface{} // pointer to a fresh receiver
}

// methods that are NOT called on a particular receiver because they panic BY DESIGN there (the
// library's documented "not implemented" panics); each is called on another receiver of the list,
// and the comparator rejects a case in which any call panicked
var c20ReflectSkip = map[string]map[string]string{
	"stats.Sample/weighted": {
		"MeanCI": "panics by design: Weighted MeanCI not implemented (sample.go)", "Variance": "panics by design: Weighted Variance not implemented",
		"StdDev": "panics by design: Weighted StdDev not implemented",
	},
}

// the API name of a receiver entry: the part before "/" (variants of one type)
func (r c20Recv) api() string {
	if i := strings.Index(r.name, "/"); i >= 0 {
		return r.name[:i]
	}
	return r.name
}

var c20Receivers = []c20Recv{
	{"stats.Sample", reflect.TypeOf((*stats.Sample)(nil)), func(rng *rand.Rand, n int) interface{} {
		s := c20Sample(rng, n, false)
		return &s
	}},
	{"stats.Sample/weighted", reflect.TypeOf((*stats.Sample)(nil)), func(rng *rand.Rand, n int) interface{} {
		s := c20Sample(rng, n, true)
		return &s
	}},
	{"stats.NormalDist", reflect.TypeOf((*stats.NormalDist)(nil)), func(rng *rand.Rand, n int) interface{} { return &stats.NormalDist{Mu: 1, Sigma: 2} }},
	{"stats.TDist", reflect.TypeOf((*stats.TDist)(nil)), func(rng *rand.Rand, n int) interface{} { return &stats.TDist{V: 4.5} }},
	{"stats.DeltaDist", reflect.TypeOf((*stats.DeltaDist)(nil)), func(rng *rand.Rand, n int) interface{} { return &stats.DeltaDist{T: 2} }},
	{"stats.BinomialDist", reflect.TypeOf((*stats.BinomialDist)(nil)), func(rng *rand.Rand, n int) interface{} { return &stats.BinomialDist{N: n + 3, P: 0.3} }},
	{"stats.HypergeometicDist", reflect.TypeOf((*stats.HypergeometicDist)(nil)), func(rng *rand.Rand, n int) interface{} {
		return &stats.HypergeometicDist{N: 2*n + 5, K: n, Draws: n/2 + 1}
	}},
	{"stats.UDist", reflect.TypeOf((*stats.UDist)(nil)), func(rng *rand.Rand, n int) interface{} {
		return &stats.UDist{N1: 4, N2: 5, T: houseI(rng, [][]int{{1, 2, 3, 1, 2}, {3, 1, 2, 2, 1}, {2, 2, 1, 1, 3}}[rng.Intn(3)])}
	}},
	{"stats.KDE", reflect.TypeOf((*stats.KDE)(nil)), func(rng *rand.Rand, n int) interface{} {
		return &stats.KDE{Sample: c20Sample(rng, n+2, rng.Intn(2) == 0), Bandwidth: 0.75 * c20DUnit()}
	}},
	{"stats.LinearHist", reflect.TypeOf((*stats.LinearHist)(nil)), func(rng *rand.Rand, n int) interface{} {
		h := stats.NewLinearHist(0, float64(n)/2+1, 5)
		for _, x := range c20Data(rng, n) {
			h.Add(x)
		}
		return h
	}},
	{"stats.LogHist", reflect.TypeOf((*stats.LogHist)(nil)), func(rng *rand.Rand, n int) interface{} {
		h := stats.NewLogHist(2, 2, 64)
		for _, x := range c20Data(rng, n) {
			h.Add(x + 1)
		}
		return h
	}},
	{"stats.QuantileCIResult", reflect.TypeOf((*stats.QuantileCIResult)(nil)), func(rng *rand.Rand, n int) interface{} {
		r := stats.QuantileCI(n, 0.5, 0.9)
		return &r
	}},
	{"fit.PolynomialRegressionResult", reflect.TypeOf((*fit.PolynomialRegressionResult)(nil)), func(rng *rand.Rand, n int) interface{} {
		xs := make([]float64, n+3)
		for i := range xs {
			xs[i] = float64(i) / 4
		}
		r := fit.PolynomialRegression(xs, c20Data(rng, n+3), nil, 2)
		return &r
	}},
	{"graphout.Dot", reflect.TypeOf((*graphout.Dot)(nil)), func(rng *rand.Rand, n int) interface{} { return &graphout.Dot{Name: "g"} }},
	{"graph.IntGraph", reflect.TypeOf((*graph.IntGraph)(nil)), func(rng *rand.Rand, n int) interface{} { g := c20Graph(rng, n); return &g }},
	{"graph.WeightedUnit", reflect.TypeOf((*graph.WeightedUnit)(nil)), func(rng *rand.Rand, n int) interface{} { return &graph.WeightedUnit{Graph: c20Graph(rng, n)} }},
	{"graphalg.DomTree", reflect.TypeOf((*graphalg.DomTree)(nil)), func(rng *rand.Rand, n int) interface{} {
		g := c20Graph(rng, n)
		return graphalg.Dom(graphalg.IDom(graph.MakeBiGraph(g), 0))
	}},
	{"graphalg.SCCGraph", reflect.TypeOf((*graphalg.SCCGraph)(nil)), func(rng *rand.Rand, n int) interface{} {
		return graphalg.SCC(c20Graph(rng, n), graphalg.SCCSubnodeComponent|graphalg.SCCEdges)
	}},
	{"graphalg.NodeMarks", reflect.TypeOf((*graphalg.NodeMarks)(nil)), func(rng *rand.Rand, n int) interface{} {
		m := graphalg.NewNodeMarks()
		for i := 0; i < n; i++ {
			m.Mark(rng.Intn(200))
		}
		return m
	}},
}

// the methods of receiver type r that the generic exercise calls (name -> supported)
func c20ReflectMethods(r c20Recv) (called []string, skipped []string) {
	// from the TYPE only: no library call is made here (the scan runs before the first case and
	// must not initialise anything in the library)
	t := r.typ
	for i := 0; i < t.NumMethod(); i++ {
		m := t.Method(i)
		full := r.api() + "." + m.Name
		if c20InPlace[full] || c20Waived[full] != "" || c20ReflectSkip[r.name][m.Name] != "" {
			continue
		}
		ok := true
		for a := 1; a < m.Type.NumIn(); a++ {
			if !c20ArgSupported(m.Type.In(a), 0) {
				ok = false
			}
		}
		if ok {
			called = append(called, full)
		} else {
			skipped = append(skipped, full)
		}
	}
	return
}

func init() {
	for _, r := range c20Receivers {
		r := r
		c20Table = append(c20Table, c20Call{name: "reflect:" + r.name, routine: 11, nargs: 2,
			build: func(rng *rand.Rand, n int) func() *c20Inst {
				recv := reflect.ValueOf(r.mk(rng, n))
				t := recv.Type()
				if t != r.typ {
					panic("c20Receivers: " + r.name + " builds a " + t.String())
				}
				type mcall struct {
					m    reflect.Value
					args []reflect.Value
				}
				var calls []mcall
				var allArgs []reflect.Value
				for i := 0; i < t.NumMethod(); i++ {
					m := t.Method(i)
					if c20InPlace[r.api()+"."+m.Name] || c20Waived[r.api()+"."+m.Name] != "" || c20ReflectSkip[r.name][m.Name] != "" {
						continue
					}
					var args []reflect.Value
					ok := true
					for a := 1; a < m.Type.NumIn(); a++ {
						nn := n
						if m.Type.In(a) == tInt { // node / component ids: inside the receiver's graph
							if nm := recv.MethodByName("NumNodes"); nm.IsValid() && nm.Type().NumIn() == 0 {
								if k := int(nm.Call(nil)[0].Int()); k >= 1 {
									nn = k
								}
							}
						}
						v, s := c20Arg(m.Type.In(a), rng, nn, a)
						if !s {
							ok = false
							break
						}
						args = append(args, v)
					}
					if !ok {
						continue
					}
					calls = append(calls, mcall{recv.Method(i), args})
					allArgs = append(allArgs, args...)
				}
				// the claimed coverage (c20ReflectMethods, used by the API scan) is what is really called
				if claimed, _ := c20ReflectMethods(r); len(claimed) != len(calls) {
					panic(fmt.Sprintf("reflect:%s calls %d methods but claims %d", r.name, len(calls), len(claimed)))
				}
				// history step "same arrays, other contents": every housed array reachable from the receiver
				// and the arguments gets an in-place scrambler (as snapF/snapI/snapG register for the
				// hand-written entries)
				c20RegScramble(recv, 0)
				for _, a := range allArgs {
					c20RegScramble(a, 0)
				}
				snapRecv := func() []uint64 { var o []uint64; deepU(recv, true, &o, 0); return o }
				snapArgs := func() []uint64 {
					var o []uint64
					for _, a := range allArgs {
						if a.Type() == tRandPtr || a.Type() == reflect.TypeOf(&bytes.Buffer{}) {
							continue // consumed by design: the generator state / the output buffer
						}
						deepU(a, true, &o, 0)
					}
					return o
				}
				return one(&c20Inst{[]func() []uint64{snapRecv, snapArgs}, func() []uint64 {
					var o []uint64
					for _, c := range calls {
						// a fresh generator / buffer per call so that results do not depend on earlier calls
						args := make([]reflect.Value, len(c.args))
						for i, a := range c.args {
							switch a.Type() {
							case tRandPtr:
								args[i] = reflect.ValueOf(rand.New(rand.NewSource(11)))
							case reflect.TypeOf(&bytes.Buffer{}):
								args[i] = reflect.ValueOf(&bytes.Buffer{})
							default:
								args[i] = a
							}
						}
						func() {
							defer func() {
								if e := recover(); e != nil {
									atomic.AddInt64(&c20PanicCount, 1)
									o = append(o, 0xbad0bad0)
								}
							}()
							for _, res := range c.m.Call(args) {
								deepU(res, false, &o, 0)
							}
							for i, a := range args {
								if b, ok := a.Interface().(*bytes.Buffer); ok && c.args[i].Type() == reflect.TypeOf(&bytes.Buffer{}) {
									for _, ch := range b.Bytes() {
										o = append(o, uint64(ch))
									}
								}
							}
						}()
					}
					return o
				}})
			}})
	}
}

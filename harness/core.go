// Package main is the correspondence harness: it drives the real
// go-moremath implementation (module replaced by $VERIF_REPO, default /repo)
// and prints, per case, the exact inputs and the observed outputs as a flat
// line of hexadecimal integers followed by "# <case as JSON>".
//
//	vharness gen <Cxx> <quick|thorough> <seed>   generate cases, run them, print lines
//	vharness run <Cxx>                           read case JSON lines on stdin, run, print lines
//	vharness list                                registered properties
package main

import (
	"bufio"
	"encoding/json"
	"fmt"
	"math"
	"math/rand"
	"os"
	"sort"
	"strconv"
	"strings"
	"time"
)

// Line is a flat list of integers; floats are transported as IEEE-754 bit
// patterns, so model and implementation see the same real number.
type Line struct{ toks []string }

func (l *Line) Int(v int64) *Line {
	if v < 0 {
		l.toks = append(l.toks, "-"+strconv.FormatUint(uint64(-v), 16))
	} else {
		l.toks = append(l.toks, strconv.FormatUint(uint64(v), 16))
	}
	return l
}
func (l *Line) I(v int) *Line     { return l.Int(int64(v)) }
func (l *Line) U(v uint64) *Line  { l.toks = append(l.toks, strconv.FormatUint(v, 16)); return l }
func (l *Line) F(x float64) *Line { return l.U(math.Float64bits(x)) }
func (l *Line) B(b bool) *Line {
	if b {
		return l.I(1)
	}
	return l.I(0)
}
func (l *Line) Fs(xs []float64) *Line {
	l.I(len(xs))
	for _, x := range xs {
		l.F(x)
	}
	return l
}
func (l *Line) Is(xs []int) *Line {
	l.I(len(xs))
	for _, x := range xs {
		l.I(x)
	}
	return l
}
func (l *Line) String() string { return strings.Join(l.toks, " ") }

// F64 is a float64 that survives JSON exactly, including NaN and infinities.
type F64 float64

func (f F64) MarshalJSON() ([]byte, error) {
	x := float64(f)
	if math.IsNaN(x) || math.IsInf(x, 0) || (x == 0 && math.Signbit(x)) {
		return json.Marshal(strconv.FormatFloat(x, 'g', -1, 64))
	}
	return []byte(strconv.FormatFloat(x, 'g', -1, 64)), nil
}
func (f *F64) UnmarshalJSON(b []byte) error {
	s := strings.Trim(string(b), `"`)
	x, err := strconv.ParseFloat(s, 64)
	if err != nil {
		return err
	}
	*f = F64(x)
	return nil
}
func toF64s(xs []float64) []F64 {
	r := make([]F64, len(xs))
	for i, x := range xs {
		r[i] = F64(x)
	}
	return r
}
func fromF64s(xs []F64) []float64 {
	r := make([]float64, len(xs))
	for i, x := range xs {
		r[i] = float64(x)
	}
	return r
}

// Prop is one property's plug-in.
type Prop struct {
	ID  string
	Num int
	// Gen generates the cases of a tier from the PRNG and hands each to emit.
	Gen func(tier string, rng *rand.Rand, emit func(c interface{}))
	// Run decodes one case, runs it against the real implementation and
	// returns the case line (inputs + observed outputs).
	Run func(raw []byte) (*Line, error)
	// Timeout per case (0 = caseTimeout).
	Timeout time.Duration
}

var registry = map[string]*Prop{}

func register(p *Prop) { registry[p.ID] = p }

// catch runs f and reports whether it panicked.
func catch(f func()) (panicked bool, msg string) {
	defer func() {
		if r := recover(); r != nil {
			panicked = true
			msg = fmt.Sprint(r)
		}
	}()
	f()
	return
}

// caseTimeout bounds one case on the real implementation; a case that exceeds it
// is reported as "!HANG" (possible non-termination) and the harness stops.
var caseTimeout = 30 * time.Second

func runOne(p *Prop, raw []byte, out *bufio.Writer) {
	// A fatal runtime error of the code under test (stack overflow by unbounded recursion,
	// out of memory, concurrent map write) kills the process and cannot be recovered:
	// leave the case being run where the driver finds it (bin/check: replay kind "crash").
	noteCurrent(raw)
	type res struct {
		line *Line
		err  error
		pan  bool
		msg  string
	}
	ch := make(chan res, 1)
	go func() {
		var r res
		r.pan, r.msg = catch(func() { r.line, r.err = p.Run(raw) })
		ch <- r
	}()
	to := caseTimeout
	if p.Timeout > 0 {
		to = p.Timeout
	}
	select {
	case r := <-ch:
		if r.pan {
			fmt.Fprintf(out, "!HARNESS-PANIC %s # %s\n", strings.ReplaceAll(r.msg, "\n", " "), raw)
		} else if r.err != nil {
			fmt.Fprintf(out, "!BADCASE %v # %s\n", r.err, raw)
		} else {
			fmt.Fprintf(out, "%s # %s\n", r.line.String(), raw)
		}
		out.Flush()
	case <-time.After(to):
		fmt.Fprintf(out, "!HANG no result after %v # %s\n", to, raw)
		out.Flush()
		os.Exit(0)
	}
}

func main() {
	if len(os.Args) < 2 {
		fmt.Fprintln(os.Stderr, "usage: vharness gen|run|list ...")
		os.Exit(2)
	}
	out := bufio.NewWriterSize(os.Stdout, 1<<20)
	defer out.Flush()
	switch os.Args[1] {
	case "list":
		ids := []string{}
		for id := range registry {
			ids = append(ids, id)
		}
		sort.Strings(ids)
		fmt.Fprintln(out, strings.Join(ids, " "))
	case "gen":
		if len(os.Args) < 5 {
			fmt.Fprintln(os.Stderr, "usage: vharness gen Cxx tier seed")
			os.Exit(2)
		}
		p := registry[os.Args[2]]
		if p == nil {
			fmt.Fprintln(os.Stderr, "unknown property", os.Args[2])
			os.Exit(2)
		}
		seed, _ := strconv.ParseInt(os.Args[4], 10, 64)
		rng := rand.New(rand.NewSource(seed*1000003 + int64(p.Num)))
		p.Gen(os.Args[3], rng, func(c interface{}) {
			raw, err := json.Marshal(c)
			if err != nil {
				fmt.Fprintln(os.Stderr, "marshal:", err)
				os.Exit(2)
			}
			runOne(p, raw, out)
		})
	case "run":
		p := registry[os.Args[2]]
		if p == nil {
			fmt.Fprintln(os.Stderr, "unknown property", os.Args[2])
			os.Exit(2)
		}
		sc := bufio.NewScanner(os.Stdin)
		sc.Buffer(make([]byte, 1<<20), 1<<28)
		for sc.Scan() {
			t := strings.TrimSpace(sc.Text())
			if t == "" {
				continue
			}
			runOne(p, []byte(t), out)
		}
	default:
		fmt.Fprintln(os.Stderr, "unknown command")
		os.Exit(2)
	}
}

// ---------- shared generators ----------

// pick a "nice" float: small integers, dyadic fractions, occasionally wide.
func genValue(rng *rand.Rand, kind int) float64 {
	switch kind {
	case 0: // small integers, many ties
		return float64(rng.Intn(11) - 5)
	case 1: // dyadic with 10 fractional bits
		return float64(rng.Intn(1<<14)-(1<<13)) / 1024
	case 2: // uniform doubles in [-1,1] (53-bit mantissas)
		return rng.Float64()*2 - 1
	default: // log-uniform magnitude, random sign
		m := math.Exp(rng.Float64()*40 - 20)
		if rng.Intn(2) == 0 {
			m = -m
		}
		return m
	}
}

// noteCurrent records the case that is about to run in the file named by VHARNESS_CURRENT, so that
// the driver can name it when the process is killed by a fatal runtime error of the code under test
// (stack overflow, out of memory: no deferred function runs). One file is kept open and overwritten
// in place; the content is terminated by a newline and the rest of an older, longer case is blanked
// (an open/write/close per case cost 50 s on C18's 200,000 cases).
var (
	curFile *os.File
	curLen  int
	curInit bool
)

func noteCurrent(raw []byte) {
	if !curInit {
		curInit = true
		if f := os.Getenv("VHARNESS_CURRENT"); f != "" {
			curFile, _ = os.OpenFile(f, os.O_CREATE|os.O_WRONLY|os.O_TRUNC, 0o644)
		}
	}
	if curFile == nil {
		return
	}
	buf := make([]byte, 0, len(raw)+1)
	buf = append(buf, raw...)
	buf = append(buf, '\n')
	for len(buf) < curLen {
		buf = append(buf, ' ')
	}
	curFile.WriteAt(buf, 0)
	curLen = len(raw) + 1
}

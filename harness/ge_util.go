package main

// Shared by c01.go and c03.go (group gE): one "run" of MannWhitneyUTest on fixed samples and
// limits under several alternatives, written in the format of coq/Check/GEMw.v.

import (
	"fmt"
	"math"
	"math/rand"
	"sort"

	"github.com/aclements/go-moremath/stats"
)

type mwRun struct {
	EL   int   `json:"el"`
	TL   int   `json:"tl"`
	X1   []F64 `json:"x1"`
	X2   []F64 `json:"x2"`
	Alts []int `json:"alts"`
	// WarmT: tie vectors (each summing to len(X1)+len(X2)) whose exact distributions
	// UDist{n1,n2,T'} are evaluated IN THE SAME PROCESS, at the very U values the calls below
	// will ask for, before the calls: a result must not depend on what was computed before.
	WarmT [][]int `json:"warm_t,omitempty"`
}

func mwValidate(r *mwRun) error {
	if len(r.X1) > 2000 || len(r.X2) > 2000 || len(r.Alts) > 16 {
		return fmt.Errorf("run too large")
	}
	for _, xs := range [][]F64{r.X1, r.X2} {
		for _, x := range xs {
			if math.IsNaN(float64(x)) || math.IsInf(float64(x), 0) {
				return fmt.Errorf("non-finite value")
			}
		}
	}
	for _, a := range r.Alts {
		if a < -1 || a > 1 {
			return fmt.Errorf("bad alternative")
		}
	}
	if len(r.WarmT) > 4096 {
		return fmt.Errorf("too many warm-up vectors")
	}
	for _, t := range r.WarmT {
		sum := 0
		for _, x := range t {
			if x < 1 {
				return fmt.Errorf("bad warm-up tie count")
			}
			sum += x
		}
		if len(t) < 2 || sum != len(r.X1)+len(r.X2) || len(r.X1) == 0 || len(r.X2) == 0 {
			return fmt.Errorf("bad warm-up tie vector")
		}
	}
	if r.EL < -1<<40 || r.EL > 1<<40 || r.TL < -1<<40 || r.TL > 1<<40 {
		return fmt.Errorf("bad limit")
	}
	return nil
}

// mwOracleZ computes, in plain float64 arithmetic and independently of the library, the z of
// the normal approximation for the alternative.  It is NOT trusted: the Coq comparator checks
// it against the model's exact z^2 and sign before using Phi(z).
func mwOracleZ(x1, x2 []float64, alt int) float64 {
	n1, n2 := len(x1), len(x2)
	if n1 == 0 || n2 == 0 {
		return 0
	}
	twoU := 0
	for _, a := range x1 {
		for _, b := range x2 {
			if a > b {
				twoU += 2
			} else if a == b {
				twoU++
			}
		}
	}
	pool := append(append([]float64{}, x1...), x2...)
	sort.Float64s(pool)
	t := 0.0
	for i := 0; i < len(pool); {
		j := i
		for j < len(pool) && pool[j] == pool[i] {
			j++
		}
		g := float64(j - i)
		t += g*g*g - g
		i = j
	}
	N := float64(n1 + n2)
	s2 := float64(n1*n2) * ((N + 1) - t/(N*(N-1))) / 12
	if s2 <= 0 {
		return 0
	}
	numer := float64(twoU)/2 - float64(n1*n2)/2
	switch alt {
	case 0:
		if numer > 0 {
			numer -= 0.5
		} else if numer < 0 {
			numer += 0.5
		}
	case -1:
		numer += 0.5
	case 1:
		numer -= 0.5
	}
	return numer / math.Sqrt(s2)
}

// Argument layouts (property clause "leaves its arguments unmodified"): every slice argument is a
// window of a larger backing array with guard cells (a sentinel NaN bit pattern) before and after it,
// and the WHOLE backing array is compared bitwise after every call.  The layout rotates with the call:
//
//	0  tight capacity (cap == len), x1 and x2 in separate regions
//	1  generous capacity (cap(x1) >= len(x1)+len(x2)+guard, likewise x2): an append onto the argument
//	   writes into the caller's memory instead of allocating
//	2  x2 lies directly behind x1 inside x1's capacity (the two arguments are neighbours in one array)
const mwSentinel = 0x7ff8dead0000beef
const mwGuard = 5

type mwArgs struct {
	backing []float64
	snap    []uint64
	x1, x2  []float64
}

func mwLayout(kind int, v1, v2 []float64, nil1, nil2 bool) *mwArgs {
	n1, n2 := len(v1), len(v2)
	var size, o1, c1, o2, c2 int
	switch kind % 3 {
	case 0:
		o1, c1 = mwGuard, mwGuard+n1
		o2 = c1 + mwGuard
		c2 = o2 + n2
		size = c2 + mwGuard
	case 1:
		o1 = mwGuard
		c1 = o1 + n1 + n1 + n2 + mwGuard
		o2 = c1 + mwGuard
		c2 = o2 + n2 + n1 + n2 + mwGuard
		size = c2 + mwGuard
	default:
		o1 = mwGuard
		o2 = o1 + n1
		size = o2 + n2 + n1 + n2 + 2*mwGuard
		c1, c2 = size, size
	}
	a := &mwArgs{backing: make([]float64, size)}
	for i := range a.backing {
		a.backing[i] = math.Float64frombits(mwSentinel)
	}
	a.x1 = a.backing[o1 : o1+n1 : c1]
	a.x2 = a.backing[o2 : o2+n2 : c2]
	copy(a.x1, v1)
	copy(a.x2, v2)
	a.snap = make([]uint64, size)
	for i, v := range a.backing {
		a.snap[i] = math.Float64bits(v)
	}
	if nil1 {
		a.x1 = nil
	}
	if nil2 {
		a.x2 = nil
	}
	return a
}

// intact reports whether the whole backing array still has its original bit patterns.
func (a *mwArgs) intact() bool {
	for i, v := range a.backing {
		if math.Float64bits(v) != a.snap[i] {
			return false
		}
	}
	return true
}

// mwEmit runs the calls of r against the real library and appends the run to l.
func mwEmit(l *Line, r *mwRun) {
	s1 := fromF64s(r.X1)
	s2 := fromF64s(r.X2)
	oldE, oldT := stats.MannWhitneyExactLimit, stats.MannWhitneyTiesExactLimit
	stats.MannWhitneyExactLimit, stats.MannWhitneyTiesExactLimit = r.EL, r.TL
	l.I(r.EL).I(r.TL).Fs(s1).Fs(s2).I(len(r.Alts))
	pure := true
	if len(r.WarmT) > 0 {
		twoU := 0
		for _, a := range s1 {
			for _, b := range s2 {
				if a > b {
					twoU += 2
				} else if a == b {
					twoU++
				}
			}
		}
		u1 := float64(twoU) / 2
		u2 := float64(len(s1)*len(s2)) - u1
		for _, t := range r.WarmT {
			d := stats.UDist{N1: len(s1), N2: len(s2), T: append([]int{}, t...)}
			catch(func() {
				for _, u := range []float64{u1, u1 - 0.5, u2, u2 - 0.5} {
					d.CDF(u)
					d.PMF(u)
				}
			})
		}
	}
	for k, alt := range r.Alts {
		args := mwLayout(k+len(s1)+len(s2), s1, s2, r.X1 == nil, r.X2 == nil)
		x1, x2 := args.x1, args.x2
		var res *stats.MannWhitneyUTestResult
		var err error
		pan, _ := catch(func() { res, err = stats.MannWhitneyUTest(x1, x2, stats.LocationHypothesis(alt)) })
		if !args.intact() || len(x1) != len(s1) || len(x2) != len(s2) {
			pure = false
		}
		status := 0
		switch {
		case pan:
			status = 4
		case err == stats.ErrSampleSize:
			status = 1
		case err == stats.ErrSamplesEqual:
			status = 2
		case err != nil || res == nil:
			status = 3
		}
		l.I(alt).I(status)
		if status == 0 {
			l.I(res.N1).I(res.N2).F(res.U).F(res.P).I(int(res.AltHypothesis))
		} else {
			l.I(0).I(0).F(0).F(0).I(0)
		}
		zf := mwOracleZ(s1, s2, alt)
		l.F(zf).F(stats.StdNormal.CDF(zf))
	}
	if stats.MannWhitneyExactLimit != r.EL || stats.MannWhitneyTiesExactLimit != r.TL {
		pure = false
	}
	stats.MannWhitneyExactLimit, stats.MannWhitneyTiesExactLimit = oldE, oldT
	l.B(pure)
}

// mwOnePair returns distinct integer values split into samples of sizes n1, n2 (n1+n2 >= 3) in which
// exactly one value occurs twice: the smallest possible tie, at a random position of the order and
// at random places of the two samples.
func mwOnePair(rng *rand.Rand, n1, n2 int) ([]float64, []float64) {
	n := n1 + n2
	vals := make([]float64, n)
	for i := range vals {
		vals[i] = float64(i)
	}
	k := rng.Intn(n - 1)
	vals[k+1] = vals[k]
	rng.Shuffle(n, func(i, j int) { vals[i], vals[j] = vals[j], vals[i] })
	return append([]float64{}, vals[:n1]...), append([]float64{}, vals[n1:]...)
}

// extremeTies lists every tie vector with 2..4 groups summing to n in which all groups but one have
// size <= 3 — one huge group, in every position.
func extremeTies(n int) [][]int {
	var out [][]int
	for k := 2; k <= 4; k++ {
		small := make([]int, k-1)
		var rec func(i int)
		rec = func(i int) {
			if i == k-1 {
				sum := 0
				for _, x := range small {
					sum += x
				}
				big := n - sum
				if big <= 3 {
					return // counted among the vectors with only small groups; not extreme
				}
				for pos := 0; pos < k; pos++ {
					t := make([]int, 0, k)
					t = append(t, small[:pos]...)
					t = append(t, big)
					t = append(t, small[pos:]...)
					out = append(out, t)
				}
				return
			}
			for small[i] = 1; small[i] <= 3; small[i]++ {
				rec(i + 1)
			}
		}
		rec(0)
	}
	return out
}

// mwNearEqual builds two samples from "near-equal distinct values": around a base value v at one of
// several magnitudes the pool holds v, nextafter(v, +inf) applied k times for k = 1..8, the same
// downwards, mixed with exact repetitions of some of them (true ties); the values are dealt to the
// two samples at random, so near-equal neighbours occur inside one sample and across the samples.
// They are DISTINCT real numbers: the pair count, the tie vector and hasTies must treat them so.
func mwNearEqual(rng *rand.Rand, n1, n2 int) ([]float64, []float64) {
	bases := []float64{1e-300, 0.3, 0.1 + 0.2, 1, 1e6, 1e300, -0.3, -1e6, 5e-324, 0}
	n := n1 + n2
	var pool []float64
	for len(pool) < n {
		v := bases[rng.Intn(len(bases))]
		if rng.Intn(4) == 0 {
			v *= float64(1 + rng.Intn(7))
		}
		cluster := []float64{v}
		up, down := v, v
		for k := 1 + rng.Intn(3); k <= 8 && len(cluster) < 6; k += 1 + rng.Intn(3) {
			for j := 0; j < k; j++ {
				up = math.Nextafter(up, math.Inf(1))
				down = math.Nextafter(down, math.Inf(-1))
			}
			if rng.Intn(2) == 0 {
				cluster = append(cluster, up)
			} else {
				cluster = append(cluster, down)
			}
			up, down = v, v
		}
		for _, c := range cluster {
			if math.IsInf(c, 0) {
				continue
			}
			pool = append(pool, c)
			if rng.Intn(4) == 0 {
				pool = append(pool, c) // an exact tie next to the near-ties
			}
		}
	}
	pool = pool[:n]
	rng.Shuffle(n, func(i, j int) { pool[i], pool[j] = pool[j], pool[i] })
	return append([]float64{}, pool[:n1]...), append([]float64{}, pool[n1:]...)
}

// mwSignedZeros (seeded C03-8 class, group hK): pools that contain BOTH zeros of float64, -0.0 and +0.0.
// They are ONE real number: they tie with each other (pair count 1/2, one group of the tie vector), a pool made
// of zeros of mixed sign is "all values equal" (ErrSamplesEqual), swapping / reordering the samples must not
// tell them apart. A rank pass that groups by bit pattern (math.Float64bits) instead of == splits them:
// {-0,1,3} vs {0,2} then gives U = 4 instead of 3.5. The values travel as bit patterns (Line.F; F64 writes -0 as
// the JSON string "-0"), the model decodes both patterns to the rational 0.
// The first pairs are fixed witnesses (zeros inside one sample, across the samples, all-zero pools of mixed
// sign, zeros next to the smallest denormals); the rest is random: a zero-heavy pool of -0, +0, +-5e-324,
// +-1e-310 and a few ordinary values dealt to the two samples.
func mwSignedZeros(rng *rand.Rand, random int, maxN int) [][2][]float64 {
	nz := math.Copysign(0, -1)
	d := 5e-324
	out := [][2][]float64{
		{{nz, 1, 3}, {0, 2}},
		{{0, 1, 3}, {nz, 2}},
		{{0, 0}, {nz, nz}},
		{{nz}, {0}},
		{{0}, {nz}},
		{{nz, 0}, {1}},
		{{nz, 0}, {0, nz}},
		{{0, nz, nz}, {0, nz}},
		{{nz, 0, nz, 0, 0}, {nz}},
		{{nz, d, -d}, {0, d}},
		{{0, -d}, {nz, d, nz}},
		{{nz, -1, 2}, {0, 0, nz, 1}},
		{{-d, nz, d, 0}, {nz, 0, -d, d}},
		{{1, 2, nz}, {0, 3, 4, 5}},
	}
	vals := []float64{nz, 0, nz, 0, d, -d, 1e-310, -1e-310, 1, -1, 2, 3}
	for it := 0; it < random; it++ {
		n1, n2 := 1+rng.Intn(maxN), 1+rng.Intn(maxN)
		k := len(vals)
		switch it % 4 {
		case 0:
			k = 2 // zeros only, mixed sign: all pooled values are equal
		case 1:
			k = 6 // zeros and the smallest denormals
		}
		pool := make([]float64, n1+n2)
		for i := range pool {
			pool[i] = vals[rng.Intn(k)]
		}
		// make sure both zeros are there whenever there is room
		if len(pool) >= 2 {
			i := rng.Intn(len(pool))
			j := (i + 1 + rng.Intn(len(pool)-1)) % len(pool)
			pool[i], pool[j] = nz, 0
		}
		out = append(out, [2][]float64{append([]float64{}, pool[:n1]...), append([]float64{}, pool[n1:]...)})
	}
	return out
}

package main

import "math"

// Shared helpers of group gH (real-valued layer): composite Gauss-Legendre quadrature,
// a scripted rand.Source.

var glNodes, glWeights = gaussLegendre(20)

// nodes and weights on [-1,1] by Newton iteration on the Legendre polynomial P_n
func gaussLegendre(n int) ([]float64, []float64) {
	xs := make([]float64, n)
	ws := make([]float64, n)
	for i := 0; i < n; i++ {
		x := math.Cos(math.Pi * (float64(i) + 0.75) / (float64(n) + 0.5))
		var dp float64
		for it := 0; it < 100; it++ {
			p0, p1 := 1.0, x
			for k := 2; k <= n; k++ {
				p0, p1 = p1, ((2*float64(k)-1)*x*p1-(float64(k)-1)*p0)/float64(k)
			}
			dp = float64(n) * (x*p1 - p0) / (x*x - 1)
			dx := p1 / dp
			x -= dx
			if math.Abs(dx) < 1e-16 {
				break
			}
		}
		xs[i] = x
		ws[i] = 2 / ((1 - x*x) * dp * dp)
	}
	return xs, ws
}

// ghQuad integrates f over [a,b] with `pieces` panels of 20-point Gauss-Legendre.
func ghQuad(f func(float64) float64, a, b float64, pieces int) float64 {
	if pieces < 1 {
		pieces = 1
	}
	sum := 0.0
	h := (b - a) / float64(pieces)
	for p := 0; p < pieces; p++ {
		lo := a + float64(p)*h
		mid, half := lo+h/2, h/2
		s := 0.0
		for i, x := range glNodes {
			s += glWeights[i] * f(mid+half*x)
		}
		sum += s * half
	}
	return sum
}

// ghQuadSplit integrates over [a,b] split at the given interior break points
// (kernel support ends), each part with panels of width <= maxw.
func ghQuadSplit(f func(float64) float64, a, b float64, breaks []float64, maxw float64, maxPieces int) (float64, bool) {
	pts := []float64{a}
	for _, c := range breaks {
		if c > a && c < b {
			pts = append(pts, c)
		}
	}
	pts = append(pts, b)
	// breaks are expected sorted; sort defensively (tiny lists)
	for i := 1; i < len(pts); i++ {
		for j := i; j > 0 && pts[j] < pts[j-1]; j-- {
			pts[j], pts[j-1] = pts[j-1], pts[j]
		}
	}
	total := 0.0
	used := 0
	for i := 0; i+1 < len(pts); i++ {
		w := pts[i+1] - pts[i]
		if w <= 0 {
			continue
		}
		n := int(math.Ceil(w / maxw))
		if n < 1 {
			n = 1
		}
		used += n
		if used > maxPieces {
			return math.NaN(), false
		}
		total += ghQuad(f, pts[i], pts[i+1], n)
	}
	return total, true
}

// scriptSource is a deterministic rand.Source64 replaying a script derived from a seed
// (splitmix64); two sources with the same seed produce the same stream.
type scriptSource struct{ state uint64 }

func (s *scriptSource) next() uint64 {
	s.state += 0x9e3779b97f4a7c15
	z := s.state
	z = (z ^ (z >> 30)) * 0xbf58476d1ce4e5b9
	z = (z ^ (z >> 27)) * 0x94d049bb133111eb
	return z ^ (z >> 31)
}
func (s *scriptSource) Int63() int64    { return int64(s.next() >> 1) }
func (s *scriptSource) Uint64() uint64  { return s.next() }
func (s *scriptSource) Seed(seed int64) { s.state = uint64(seed) }

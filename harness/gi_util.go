package main

import (
	"math"
	"sort"
)

// Composite 20-point Gauss-Legendre quadrature for the C12 checks (group gI).
// Nodes and weights of the 20-point rule on [-1,1] (positive half; the rule is symmetric).
var giGL20 = [10][2]float64{
	{0.076526521133497338, 0.15275338713072628},
	{0.22778585114164507, 0.14917298647260424},
	{0.37370608871541955, 0.1420961093183824},
	{0.51086700195082713, 0.13168863844917689},
	{0.63605368072651502, 0.11819453196151861},
	{0.7463319064601508, 0.10193011981724071},
	{0.83911697182221878, 0.083276741576704713},
	{0.91223442825132595, 0.06267204833410879},
	{0.96397192727791381, 0.040601429800386446},
	{0.993128599185095, 0.017614007139150893},
}

// giPanel integrates f over [a,b] with one 20-point rule (exact for polynomials of degree <= 39).
func giPanel(f func(float64) float64, a, b float64) float64 {
	c, r := (a+b)/2, (b-a)/2
	s := 0.0
	for _, nw := range giGL20 {
		s += nw[1] * (f(c-r*nw[0]) + f(c+r*nw[0]))
	}
	return s * r
}

// giQuadSplit integrates f over [a,b], split at the given break points (kernel support ends,
// sample points and their images) and then into panels no wider than maxw.  ok is false when
// the number of panels would exceed maxPanels (the caller then omits the observable).
// Summation is compensated (Neumaier) so that thousands of panels do not cost accuracy.
func giQuadSplit(f func(float64) float64, a, b float64, breaks []float64, maxw float64, maxPanels int) (float64, bool) {
	if !(a < b) {
		return 0, true
	}
	pts := []float64{a}
	bs := append([]float64(nil), breaks...)
	sort.Float64s(bs)
	for _, x := range bs {
		if x > pts[len(pts)-1] && x < b {
			pts = append(pts, x)
		}
	}
	pts = append(pts, b)
	total := 0
	for i := 0; i+1 < len(pts); i++ {
		n := 1
		if maxw > 0 {
			n = int(math.Ceil((pts[i+1] - pts[i]) / maxw))
			if n < 1 {
				n = 1
			}
		}
		total += n
		if total > maxPanels {
			return 0, false
		}
	}
	sum, comp := 0.0, 0.0
	add := func(v float64) {
		t := sum + v
		if math.Abs(sum) >= math.Abs(v) {
			comp += (sum - t) + v
		} else {
			comp += (v - t) + sum
		}
		sum = t
	}
	for i := 0; i+1 < len(pts); i++ {
		lo, hi := pts[i], pts[i+1]
		n := 1
		if maxw > 0 {
			n = int(math.Ceil((hi - lo) / maxw))
			if n < 1 {
				n = 1
			}
		}
		for j := 0; j < n; j++ {
			pa := lo + (hi-lo)*float64(j)/float64(n)
			pb := lo + (hi-lo)*float64(j+1)/float64(n)
			if j == n-1 {
				pb = hi
			}
			add(giPanel(f, pa, pb))
		}
	}
	return sum + comp, true
}

// giDyadic rounds x to `bits` significant bits (a small dyadic rational).
func giDyadic(x float64, bits uint) float64 {
	if x == 0 || math.IsInf(x, 0) || math.IsNaN(x) {
		return x
	}
	fr, ex := math.Frexp(x)
	s := float64(uint64(1) << bits)
	return math.Ldexp(math.Round(fr*s)/s, ex)
}

package main

import (
	"math"
	"sort"
)

// Discontinuity hunt for functions that the properties call monotone in x (normal and
// Student-t CDF, BetaInc in x, GammaInc/GammaIncComp in x).  The true functions are smooth, so
// on a fine uniform grid the increments d_i = F(x_{i+1}) - F(x_i) vary by O(h^2) and their
// second difference s_i = d_{i+1} - 2 d_i + d_{i-1} by O(h^3); a jump J of the IMPLEMENTATION
// inside cell i (an iteration count ticking over, a branch switch, a table boundary) shows as
// s_i = -2J.  Cells with |s_i| above scanThreshold are refined (a second uniform scan of the
// three neighbouring cells, then bisection down to two adjacent floats).  The search itself is
// heuristic and untrusted: what is REPORTED are pairs of real inputs lo < hi with the values
// the real code returned for them, and the Coq comparator decides dir*(F(hi)-F(lo)) >= -1e-12
// on exactly those values.  The pair of consecutive grid points with the smallest increment is
// always reported first, so every scan checks monotonicity along the whole grid.
type scanPair struct {
	Lo, Hi, FLo, FHi float64
}

const scanThreshold = 1e-11

func hbFinite(x float64) bool { return !math.IsNaN(x) && !math.IsInf(x, 0) }

// scanGrid returns the grid values, the index of the smallest dir-increment, and the cells
// whose second difference of increments exceeds the threshold (largest first, at most k).
func scanGrid(f func(float64) float64, lo, hi float64, n int, dir float64, k int) (xs, fs []float64, worst int, cells []int) {
	xs = make([]float64, n+1)
	fs = make([]float64, n+1)
	h := (hi - lo) / float64(n)
	for i := 0; i <= n; i++ {
		xs[i] = lo + float64(i)*h
		if i == n {
			xs[i] = hi
		}
		fs[i] = f(xs[i])
	}
	worst = -1
	worstD := math.Inf(1)
	for i := 0; i < n; i++ {
		if !hbFinite(fs[i]) || !hbFinite(fs[i+1]) {
			// a non-finite value in the middle of the range is reported as the worst pair
			worst, worstD = i, math.Inf(-1)
			continue
		}
		if d := dir * (fs[i+1] - fs[i]); d < worstD {
			worst, worstD = i, d
		}
	}
	type cand struct {
		i int
		s float64 // second difference of the increments around cell i: -2J for a jump J inside the cell
	}
	sd := func(i int) (float64, bool) {
		if i < 1 || i+2 > n || !hbFinite(fs[i-1]) || !hbFinite(fs[i]) || !hbFinite(fs[i+1]) || !hbFinite(fs[i+2]) {
			return 0, false
		}
		return (fs[i+2] - fs[i+1]) - 2*(fs[i+1]-fs[i]) + (fs[i] - fs[i-1]), true
	}
	var cs []cand
	for i := 1; i+2 <= n; i++ {
		s, ok := sd(i)
		if !ok || math.Abs(s) <= scanThreshold {
			continue
		}
		// the jump cell is the local maximum of |s| (its two neighbours see +J each)
		if l, ok := sd(i - 1); ok && math.Abs(l) > math.Abs(s) {
			continue
		}
		if r, ok := sd(i + 1); ok && math.Abs(r) > math.Abs(s) {
			continue
		}
		cs = append(cs, cand{i, s})
	}
	// steps AGAINST the direction of monotonicity first (J = -s/2, so dir*s large and positive), largest first
	sort.Slice(cs, func(a, b int) bool { return dir*cs[a].s > dir*cs[b].s })
	for _, c := range cs {
		if len(cells) >= k {
			break
		}
		cells = append(cells, c.i)
	}
	return
}

// bisectJump narrows [a,b] (containing one jump of size about j on top of a smooth increment
// of slope per unit x) to two adjacent floats.
func bisectJump(f func(float64) float64, a, b, fa, fb, slope, j float64) scanPair {
	for iter := 0; iter < 200; iter++ {
		m := a + (b-a)/2
		if !(m > a && m < b) {
			break
		}
		fm := f(m)
		if !hbFinite(fm) {
			break
		}
		excess := (fm - fa) - slope*(m-a)
		if math.Abs(excess) > math.Abs(j)/2 {
			b, fb = m, fm
		} else {
			a, fa = m, fm
		}
	}
	return scanPair{a, b, fa, fb}
}

// monoScan: see the comment at the top of the file.  dir = +1 for a non-decreasing function,
// -1 for a non-increasing one.
func monoScan(f func(float64) float64, lo, hi float64, n int, dir float64, k int) []scanPair {
	if !(lo < hi) || n < 8 {
		return nil
	}
	xs, fs, worst, cells := scanGrid(f, lo, hi, n, dir, k)
	var out []scanPair
	if worst >= 0 {
		out = append(out, scanPair{xs[worst], xs[worst+1], fs[worst], fs[worst+1]})
	}
	for _, c := range cells {
		// second level: the three cells around c on a 3000 times finer grid
		a, b := xs[c-1], xs[c+2]
		const n2 = 3000
		xs2, fs2, worst2, cells2 := scanGrid(f, a, b, n2, dir, 1)
		if len(cells2) == 0 {
			// no single jump stands out at the finer scale: report the finest worst pair
			if worst2 >= 0 {
				out = append(out, scanPair{xs2[worst2], xs2[worst2+1], fs2[worst2], fs2[worst2+1]})
			}
			continue
		}
		i := cells2[0]
		h2 := xs2[i+1] - xs2[i]
		davg := ((fs2[i] - fs2[i-1]) + (fs2[i+2] - fs2[i+1])) / 2
		j := (fs2[i+1] - fs2[i]) - davg
		out = append(out, bisectJump(f, xs2[i], xs2[i+1], fs2[i], fs2[i+1], davg/h2, j))
	}
	return out
}

package main

import (
	"fmt"
	"math"

	"github.com/aclements/go-moremath/stats"
)

func main() {
	fmt.Printf("%+v\n", stats.QuantileCI(100, 0.5, math.NaN()))
	fmt.Printf("%+v\n", stats.QuantileCI(10, 0.5, math.NaN()))
	fmt.Printf("%+v\n", stats.QuantileCI(100, 0.5, math.Inf(-1)))
	fmt.Printf("%+v\n", stats.QuantileCI(100, 0.5, math.Inf(1)))
	fmt.Printf("%+v\n", stats.QuantileCI(100, 0, 0.9))
	fmt.Printf("%+v\n", stats.QuantileCI(100, 1, 0.9))
	fmt.Printf("%+v\n", stats.QuantileCI(100, 0.5, 0.079655674554058))
	fmt.Printf("%+v\n", stats.QuantileCI(2000, 0.5, 1-math.Ldexp(1, -53)))
	fmt.Printf("%+v\n", stats.QuantileCI(0, 0.5, 0.9))
	fmt.Printf("%+v\n", stats.QuantileCI(40, 1e-300, 0.9))
}

package main

import (
	"fmt"
	"math"

	"github.com/aclements/go-moremath/stats"
)

func main() {
	b := stats.BinomialDist{N: 1, P: 0.5}
	h := stats.HypergeometicDist{N: 2, K: 1, Draws: 1}
	below := math.Nextafter(math.Ldexp(1, 63), 0)
	for _, k := range []float64{below, math.Ldexp(1, 63), math.Inf(1)} {
		fmt.Printf("k=%v  BinomialDist{1,0.5}.CDF=%v  HypergeometicDist{2,1,1}.CDF=%v   (want 1: k is above the support)\n", k, b.CDF(k), h.CDF(k))
	}
}

package main

import (
	"fmt"
	"math"
	"os"
	"time"

	"github.com/aclements/go-moremath/stats"
)

func try(name string, f func() string) {
	done := make(chan string, 1)
	go func() {
		defer func() {
			if e := recover(); e != nil {
				done <- fmt.Sprint("panic: ", e)
			}
		}()
		done <- f()
	}()
	select {
	case s := <-done:
		fmt.Println(name, "->", s)
	case <-time.After(3 * time.Second):
		fmt.Println(name, "-> HANG (no result after 3s)")
		os.Stdout.Sync()
	}
}

func main() {
	nan, inf := math.NaN(), math.Inf(1)
	for _, xs := range [][]float64{{nan}, {1, nan}, {inf, 1}, {-inf, 1}, {math.MaxFloat64, 1}, {5e-324, 1}, {math.Copysign(0, -1), 1}, {math.MaxFloat64, -math.MaxFloat64}} {
		xs := xs
		for _, b := range [][2]float64{{0, 0}, {-1, inf}, {-1, 7}} {
			for _, kern := range []stats.KDEKernel{stats.GaussianKernel, stats.DeltaKernel} {
				b, kern := b, kern
				mk := func() *stats.KDE {
					return &stats.KDE{Sample: stats.Sample{Xs: xs}, Kernel: kern, Bandwidth: 0.75, BoundaryMin: b[0], BoundaryMax: b[1]}
				}
				try(fmt.Sprint("Bounds ", xs, b, kern), func() string { lo, hi := mk().Bounds(); return fmt.Sprint(lo, hi) })
				try(fmt.Sprint("PDF ", xs, b, kern), func() string { return fmt.Sprint(mk().PDF(0.5)) })
				try(fmt.Sprint("CDF ", xs, b, kern), func() string { return fmt.Sprint(mk().CDF(0.5)) })
			}
		}
	}
}

package main

import (
	"fmt"
	"math"
	"os"
	"time"

	"github.com/aclements/go-moremath/stats"
)

func try(name string, x1, x2 []float64, alt stats.LocationHypothesis) {
	done := make(chan string, 1)
	go func() {
		defer func() {
			if e := recover(); e != nil {
				done <- fmt.Sprint("panic: ", e)
			}
		}()
		r, err := stats.MannWhitneyUTest(x1, x2, alt)
		done <- fmt.Sprint(r, err)
	}()
	select {
	case s := <-done:
		fmt.Println(name, x1, x2, alt, "->", s)
	case <-time.After(3 * time.Second):
		fmt.Println(name, x1, x2, alt, "-> HANG (no result after 3s)")
		os.Stdout.Sync()
	}
}

func main() {
	nan, inf := math.NaN(), math.Inf(1)
	for _, alt := range []stats.LocationHypothesis{stats.LocationLess, stats.LocationDiffers, stats.LocationGreater} {
		try("nan1", []float64{nan}, []float64{1}, alt)
		try("nan2", []float64{1, nan}, []float64{2, 3}, alt)
		try("inf", []float64{1, inf}, []float64{2, 3}, alt)
		try("-inf", []float64{1, -inf}, []float64{2, 3}, alt)
		try("negzero", []float64{0, math.Copysign(0, -1)}, []float64{0, 3}, alt)
		try("max", []float64{1, math.MaxFloat64}, []float64{2, 5e-324}, alt)
		try("2nan", []float64{nan, nan}, []float64{2, 3}, alt)
		try("nan-tie", []float64{1, nan, 1}, []float64{1, 3}, alt)
	}
}

(* Feasibility prototype (design phase): the Klotz/Cheung tied recurrence on
   cumulative counts equals the weighted count of splits, for every tie vector,
   every n1 and every integer threshold w (negative ones included). *)
From Coq Require Import List ZArith Lia Arith Bool.
Import ListNotations.
Open Scope Z_scope.

Fixpoint C (n k : nat) : Z :=
  match n, k with
  | _, O => 1
  | O, S _ => 0
  | S n', S k' => C n' k' + C n' (S k')
  end.

Fixpoint lsum (l : list nat) : nat := match l with [] => 0%nat | a :: t => (a + lsum t)%nat end.
Fixpoint zsum {A} (f : A -> Z) (l : list A) : Z :=
  match l with [] => 0 | a :: t => f a + zsum f t end.

Lemma zsum_app {A} (f : A -> Z) l1 l2 : zsum f (l1 ++ l2) = zsum f l1 + zsum f l2.
Proof. induction l1 as [|a l IH]; cbn; [reflexivity|]. rewrite IH. lia. Qed.
Lemma zsum_map {A B} (f : B -> Z) (g : A -> B) l : zsum f (map g l) = zsum (fun a => f (g a)) l.
Proof. induction l as [|a l IH]; cbn; [reflexivity|]. now rewrite IH. Qed.
Lemma zsum_flat_map {A B} (f : B -> Z) (g : A -> list B) l :
  zsum f (flat_map g l) = zsum (fun a => zsum f (g a)) l.
Proof. induction l as [|a l IH]; cbn; [reflexivity|]. now rewrite zsum_app, IH. Qed.
Lemma zsum_ext_in {A} (f g : A -> Z) l : (forall a, In a l -> f a = g a) -> zsum f l = zsum g l.
Proof. induction l as [|a l IH]; cbn; intros H; [reflexivity|]. rewrite H, IH; auto. Qed.
Lemma zsum_scale {A} c (f : A -> Z) l : zsum (fun a => c * f a) l = c * zsum f l.
Proof. induction l as [|a l IH]; cbn; [lia|]. rewrite IH. lia. Qed.

(* Tie vector highest rank first: Tr = [t_K; ...; t_1]. *)
Definition stepw (tK srest n1 r : nat) : Z :=
  Z.of_nat r * (2 * Z.of_nat srest + Z.of_nat tK - 2 * Z.of_nat n1 + Z.of_nat r).

(* The recurrence of stats/udist.go (makeUmemo), without the memo table. *)
Fixpoint A (Tr : list nat) (n1 : nat) (w : Z) : Z :=
  match Tr with
  | [] => if (n1 =? 0)%nat && (0 <=? w) then 1 else 0
  | tK :: rest =>
      zsum (fun r => C tK r * A rest (n1 - r) (w - stepw tK (lsum rest) n1 r))
           (seq 0 (Nat.min n1 tK + 1))
  end.

(* Specification: splits r of n1 over the ranks, weighted by prod C(t_k, r_k). *)
Fixpoint splits (Tr : list nat) (n1 : nat) : list (list nat) :=
  match Tr with
  | [] => if (n1 =? 0)%nat then [[]] else []
  | tK :: rest => flat_map (fun r => map (cons r) (splits rest (n1 - r))) (seq 0 (Nat.min n1 tK + 1))
  end.

Fixpoint twoU (Tr r : list nat) : Z :=
  match Tr, r with
  | tK :: rest, rK :: rr =>
      Z.of_nat rK * (2 * (Z.of_nat (lsum rest) - Z.of_nat (lsum rr)) + (Z.of_nat tK - Z.of_nat rK))
      + twoU rest rr
  | _, _ => 0
  end.

Fixpoint weight (Tr r : list nat) : Z :=
  match Tr, r with
  | tK :: rest, rK :: rr => C tK rK * weight rest rr
  | _, _ => 1
  end.

Definition cntS (Tr : list nat) (n1 : nat) (w : Z) : Z :=
  zsum (fun r => if twoU Tr r <=? w then weight Tr r else 0) (splits Tr n1).

Lemma splits_sum Tr : forall n1 r, In r (splits Tr n1) -> lsum r = n1.
Proof.
  induction Tr as [|tK rest IH]; intros n1 r; cbn [splits].
  - destruct (Nat.eqb_spec n1 0); cbn; [intros [<-|[]]; cbn; lia | intros []].
  - rewrite in_flat_map. intros (rK & HrK & Hin). apply in_seq in HrK.
    apply in_map_iff in Hin as (rr & <- & Hrr). apply IH in Hrr. cbn. lia.
Qed.

Theorem A_counts_splits Tr : forall n1 w, A Tr n1 w = cntS Tr n1 w.
Proof.
  induction Tr as [|tK rest IH]; intros n1 w; unfold cntS; cbn [A splits].
  - destruct (Nat.eqb_spec n1 0); cbn; [|reflexivity]. destruct (0 <=? w); reflexivity.
  - rewrite zsum_flat_map. apply zsum_ext_in. intros rK HrK. apply in_seq in HrK.
    rewrite zsum_map, IH. unfold cntS. rewrite <- zsum_scale. apply zsum_ext_in. intros rr Hrr.
    apply splits_sum in Hrr. cbn [twoU weight]. unfold stepw.
    replace (Z.of_nat (lsum rr)) with (Z.of_nat n1 - Z.of_nat rK) by lia.
    destruct (Z.leb_spec (twoU rest rr) (w - Z.of_nat rK * (2 * Z.of_nat (lsum rest) + Z.of_nat tK - 2 * Z.of_nat n1 + Z.of_nat rK)));
    destruct (Z.leb_spec (Z.of_nat rK * (2 * (Z.of_nat (lsum rest) - (Z.of_nat n1 - Z.of_nat rK)) + (Z.of_nat tK - Z.of_nat rK)) + twoU rest rr) w);
    try lia; nia.
Qed.

(* Two-rank base case as the code computes it, with FLOOR division (Z.div). *)
Lemma C_out n k : (n < k)%nat -> C n k = 0.
Proof. revert k; induction n as [|n IH]; intros [|k] H; cbn; try lia. rewrite !IH by lia. lia. Qed.

Definition base2 (t0 t1 n1 : nat) (w : Z) : Z :=
  let hi := (w - Z.of_nat n1 * (Z.of_nat t0 - Z.of_nat n1)) / (Z.of_nat t0 + Z.of_nat t1) in
  zsum (fun r2 => if Z.of_nat r2 <=? hi then C t0 (n1 - r2) * C t1 r2 else 0)
       (seq (n1 - t0) (Nat.min n1 t1 + 1 - (n1 - t0))).

Lemma A_one t0 n w : A [t0] n w = if (n <=? t0)%nat && (Z.of_nat n * (Z.of_nat t0 - Z.of_nat n) <=? w) then C t0 n else 0.
Proof.
  cbn [A lsum]. unfold stepw.
  destruct (Nat.leb_spec n t0) as [Hn|Hn]; cbn [andb].
  - replace (Nat.min n t0 + 1)%nat with (S n) by lia. rewrite seq_S, zsum_app. cbn [zsum Nat.add].
    rewrite Nat.sub_diag. cbn [Nat.eqb andb].
    rewrite (zsum_ext_in _ (fun _ => 0)).
    + assert (Z0: forall l : list nat, zsum (fun _ => 0) l = 0) by (induction l; cbn; lia). rewrite Z0.
      destruct (Z.leb_spec (Z.of_nat n * (Z.of_nat t0 - Z.of_nat n)) w), (Z.leb_spec 0 (w - Z.of_nat n * (2 * Z.of_nat 0 + Z.of_nat t0 - 2 * Z.of_nat n + Z.of_nat n))); try lia; nia.
    + intros r Hr. apply in_seq in Hr. destruct (Nat.eqb_spec (n - r) 0); [lia|]. cbn. lia.
  - replace (Nat.min n t0 + 1)%nat with (S t0) by lia. rewrite (zsum_ext_in _ (fun _ => 0)).
    + clear. induction (seq 0 (S t0)); cbn; lia.
    + intros r Hr. apply in_seq in Hr. destruct (Nat.eqb_spec (n - r) 0); [lia|]. cbn. lia.
Qed.

Lemma zsum_zero {A} (l : list A) : zsum (fun _ => 0) l = 0.
Proof. induction l; cbn; lia. Qed.

Lemma zsum_seq_skip (g : nat -> Z) a len : (forall r, (r < a)%nat -> g r = 0) ->
  zsum g (seq 0 len) = zsum g (seq a (len - a)).
Proof.
  intros Hz. destruct (Nat.le_gt_cases a len) as [Hle|Hgt].
  - replace len with (a + (len - a))%nat at 1 by lia. rewrite seq_app, zsum_app. cbn [Nat.add].
    rewrite (zsum_ext_in g (fun _ => 0)), zsum_zero; [lia|]. intros r Hr. apply in_seq in Hr. apply Hz. lia.
  - replace (len - a)%nat with 0%nat by lia. cbn. rewrite (zsum_ext_in g (fun _ => 0)), zsum_zero; [lia|].
    intros r Hr. apply in_seq in Hr. apply Hz. lia.
Qed.

Lemma le_div_iff r x d : 0 < d -> (r <= x / d <-> r * d <= x).
Proof.
  intros Hd. split; intros H.
  - pose proof (Z.mul_div_le x d Hd). nia.
  - apply Z.div_le_lower_bound; lia.
Qed.

(* The closed-form two-rank base case of makeUmemo (udist.go:263-273) agrees with
   the general recurrence for EVERY integer w -- provided the division is floor
   (Z.div). With Go's truncating division it is false for negative numerators:
   that is defect D1. *)
Lemma A_cons tK rest n1 w : A (tK :: rest) n1 w =
  zsum (fun r => C tK r * A rest (n1 - r) (w - stepw tK (lsum rest) n1 r)) (seq 0 (Nat.min n1 tK + 1)).
Proof. reflexivity. Qed.

Theorem base2_is_A t0 t1 n1 w : (0 < t0 + t1)%nat -> A [t1; t0] n1 w = base2 t0 t1 n1 w.
Proof.
  intros Hpos. unfold base2. cbn zeta.
  set (hi := (w - Z.of_nat n1 * (Z.of_nat t0 - Z.of_nat n1)) / (Z.of_nat t0 + Z.of_nat t1)).
  set (g := fun r2 : nat => if (n1 - r2 <=? t0)%nat && (Z.of_nat r2 <=? hi) then C t0 (n1 - r2) * C t1 r2 else 0).
  transitivity (zsum g (seq 0 (Nat.min n1 t1 + 1))).
  - rewrite A_cons. apply zsum_ext_in. intros r Hr. apply in_seq in Hr. rewrite A_one. unfold g, stepw. cbn [lsum].
    assert (Hiff: Z.of_nat r <= hi <-> Z.of_nat r * (Z.of_nat t0 + Z.of_nat t1) <= w - Z.of_nat n1 * (Z.of_nat t0 - Z.of_nat n1))
      by (apply le_div_iff; lia).
    destruct (Nat.leb_spec (n1 - r) t0); cbn [andb]; [|lia].
    destruct (Z.leb_spec (Z.of_nat r) hi) as [H1|H1];
    destruct (Z.leb_spec (Z.of_nat (n1 - r) * (Z.of_nat t0 - Z.of_nat (n1 - r)))
               (w - Z.of_nat r * (2 * Z.of_nat (t0 + 0) + Z.of_nat t1 - 2 * Z.of_nat n1 + Z.of_nat r))) as [H2|H2];
    try lia; exfalso; rewrite Nat2Z.inj_sub in H2 by lia; nia.
  - rewrite (zsum_seq_skip g (n1 - t0)).
    + apply zsum_ext_in. intros r Hr. apply in_seq in Hr. unfold g.
      destruct (Nat.leb_spec (n1 - r) t0); [reflexivity|lia].
    + intros r Hr. unfold g. destruct (Nat.leb_spec (n1 - r) t0); [lia|reflexivity].
Qed.

(* Witness that truncation is wrong (D1): T=[2;1], n1=1, w=0 (CDF(0)). *)
Definition base2_trunc (t0 t1 n1 : nat) (w : Z) : Z :=
  let hi := Z.quot (w - Z.of_nat n1 * (Z.of_nat t0 - Z.of_nat n1)) (Z.of_nat t0 + Z.of_nat t1) in
  zsum (fun r2 => if Z.of_nat r2 <=? hi then C t0 (n1 - r2) * C t1 r2 else 0)
       (seq (n1 - t0) (Nat.min n1 t1 + 1 - (n1 - t0))).
Example D1_refuted : base2_trunc 2 1 1 0 = 2 /\ A [1%nat; 2%nat] 1 0 = 0.
Proof. split; vm_compute; reflexivity. Qed.

Print Assumptions base2_is_A.
Print Assumptions A_counts_splits.

From Coq Require Import List ZArith Lia Arith Bool.
Import ListNotations.

Fixpoint labs (N n : nat) : list (list bool) :=
  match N with
  | O => if n =? 0 then [[]] else []
  | S N' => (match n with O => [] | S n' => map (cons true) (labs N' n') end)
            ++ map (cons false) (labs N' n)
  end.

Definition nfalse (l : list bool) := length (filter negb l).
Definition ntrue (l : list bool) := length (filter (fun b => b) l).

Fixpoint ustat (l : list bool) : nat :=
  match l with
  | [] => 0
  | true :: t => nfalse t + ustat t
  | false :: t => ustat t
  end.

Definition cnt (N n u : nat) : nat := length (filter (fun l => ustat l =? u) (labs N n)).

Lemma labs_spec N : forall n l, In l (labs N n) <-> (length l = N /\ ntrue l = n).
Proof.
  induction N as [|N IH]; intros n l; cbn [labs].
  - destruct (Nat.eqb_spec n 0) as [->|Hn]; cbn.
    + split. intros [<-|[]]; auto. intros [Hl _]. destruct l; [auto|discriminate].
    + split. intros []. intros [Hl Ht]. destruct l; [|discriminate]. cbn in Ht. congruence.
  - rewrite in_app_iff. split.
    + intros [H|H].
      * destruct n as [|n']; [destruct H|]. apply in_map_iff in H as (t & <- & Ht).
        apply IH in Ht as [H1 H2]. unfold ntrue in *; cbn. split; lia.
      * apply in_map_iff in H as (t & <- & Ht). apply IH in Ht as [H1 H2]. unfold ntrue in *; cbn. split; lia.
    + intros [Hl Ht]. destruct l as [|[|] t]; [discriminate| |]; unfold ntrue in *; cbn in *.
      * left. destruct n as [|n']; [discriminate|]. apply in_map. apply IH. unfold ntrue. split; lia.
      * right. apply in_map. apply IH. unfold ntrue. split; lia.
Qed.

Lemma ntrue_nfalse l : ntrue l + nfalse l = length l.
Proof. unfold ntrue, nfalse. induction l as [|[|] t IH]; cbn; lia. Qed.

Lemma filter_map_cons {A} (f : list A -> bool) (a : A) (ls : list (list A)) :
  length (filter f (map (cons a) ls)) = length (filter (fun t => f (a :: t)) ls).
Proof. induction ls as [|x xs IH]; cbn; [reflexivity|]. destruct (f (a :: x)); cbn; lia. Qed.

Lemma filter_ext_in_len {A} (f g : A -> bool) l : (forall x, In x l -> f x = g x) ->
  length (filter f l) = length (filter g l).
Proof. intros H. rewrite (filter_ext_in _ _ _ H). reflexivity. Qed.

(* the Mann-Whitney recurrence on counts *)
Lemma cnt_rec N n u : n <= N ->
  cnt (S N) (S n) u = (if N - n <=? u then cnt N n (u - (N - n)) else 0) + cnt N (S n) u.
Proof.
  intros Hn. unfold cnt. cbn [labs]. rewrite filter_app, app_length, !filter_map_cons. f_equal.
  destruct (Nat.leb_spec (N - n) u) as [Hu|Hu].
  - apply filter_ext_in_len. intros l Hl. apply labs_spec in Hl as [H1 H2]. cbn [ustat].
    pose proof (ntrue_nfalse l). destruct (Nat.eqb_spec (nfalse l + ustat l) u), (Nat.eqb_spec (ustat l) (u - (N - n))); lia.
  - rewrite (filter_ext_in_len _ (fun _ => false)).
    + clear. induction (labs N n); cbn; auto.
    + intros l Hl. apply labs_spec in Hl as [H1 H2]. cbn [ustat]. pose proof (ntrue_nfalse l).
      apply Nat.eqb_neq. lia.
Qed.

Lemma cnt_n0 N u : cnt N 0 u = if u =? 0 then 1 else 0.
Proof.
  unfold cnt. assert (H: labs N 0 = [repeat false N]).
  { induction N as [|N IH]; cbn; [reflexivity|]. rewrite IH. reflexivity. }
  rewrite H. cbn. clear H. assert (ustat (repeat false N) = 0) as -> by (induction N; cbn; auto).
  destruct u; reflexivity.
Qed.

Lemma cnt_nN N u : cnt N N u = if u =? 0 then 1 else 0.
Proof.
  unfold cnt. assert (H: forall l, In l (labs N N) -> ustat l = 0).
  { intros l Hl. apply labs_spec in Hl as [H1 H2]. pose proof (ntrue_nfalse l) as H3.
    assert (Hf: nfalse l = 0) by lia. clear - Hf. induction l as [|[|] t IH]; cbn in *; auto.
    - unfold nfalse in *. cbn in Hf. rewrite IH; lia.
    - unfold nfalse in Hf. cbn in Hf. discriminate. }
  assert (L: length (labs N N) = 1).
  { clear H. induction N as [|N IH]; cbn; [reflexivity|]. rewrite app_length, !map_length, IH.
    assert (E0: labs N (S N) = []).
    { destruct (labs N (S N)) as [|l0 r] eqn:E; [reflexivity|].
      assert (Hin: In l0 (labs N (S N))) by (rewrite E; left; reflexivity).
      apply labs_spec in Hin as [H1 H2]. pose proof (ntrue_nfalse l0). lia. }
    rewrite E0. reflexivity. }
  destruct (labs N N) as [|l [|]] eqn:E; try discriminate. cbn. rewrite (H l) by (left; reflexivity).
  destruct u; reflexivity.
Qed.

(* model: the recurrence as the code runs it, on integer counts *)
Fixpoint cmodel (fuel n m : nat) (u : Z) : Z :=
  if (u <? 0)%Z then 0%Z else
  match fuel with
  | O => 0%Z
  | S f =>
    match n, m with
    | O, _ | _, O => if (u =? 0)%Z then 1%Z else 0%Z
    | S n', S m' => (cmodel f n' m (u - Z.of_nat m) + cmodel f n m' u)%Z
    end
  end.

Theorem cmodel_counts_subsets : forall fuel n m u, n + m < fuel ->
  cmodel fuel n m u = if (u <? 0)%Z then 0%Z else Z.of_nat (cnt (n + m) n (Z.to_nat u)).
Proof.
  induction fuel as [|f IH]; intros n m u Hf; [lia|]. cbn [cmodel].
  destruct (Z.ltb_spec u 0) as [Hu|Hu]; [reflexivity|].
  destruct n as [|n']; [|destruct m as [|m']].
  - cbn [Nat.add]. rewrite cnt_n0. destruct (Z.eqb_spec u 0) as [->|]; [reflexivity|].
    destruct (Nat.eqb_spec (Z.to_nat u) 0); [lia|reflexivity].
  - rewrite Nat.add_0_r, cnt_nN. destruct (Z.eqb_spec u 0) as [->|]; [reflexivity|].
    destruct (Nat.eqb_spec (Z.to_nat u) 0); [lia|reflexivity].
  - rewrite !IH by lia. replace (S n' + S m') with (S (n' + S m')) by lia.
    rewrite cnt_rec by lia. replace (n' + S m' - n') with (S m') by lia.
    replace (S n' + m') with (n' + S m') by lia.
    destruct (Z.ltb_spec u 0) as [Hu'|_]; [lia|].
    destruct (Z.ltb_spec (u - Z.of_nat (S m')) 0), (Nat.leb_spec (S m') (Z.to_nat u)); try lia.
    rewrite Nat2Z.inj_add. do 3 f_equal. lia.
Qed.
Print Assumptions cmodel_counts_subsets.

(* driver.ml — generic glue around the extracted check functions.
   stdin : one case per line: hexadecimal integers separated by blanks, optional
           trailing "# free text".  The first integer is the property number.
   stdout: one verdict per line (hexadecimal integers): code tag pos diag...
   Integers are converted digit-by-digit to the extracted Coq type Z (binary
   positives), never to OCaml ints. *)
open Vmodel_ext

let rec pos_of_bits (bits : bool list) : positive =
  (* bits: least significant first, last element is the leading 1 *)
  match bits with
  | [] -> failwith "pos_of_bits"
  | [_] -> XH
  | b :: r -> if b then XI (pos_of_bits r) else XO (pos_of_bits r)

let hexval c =
  match c with
  | '0'..'9' -> Char.code c - 48
  | 'a'..'f' -> Char.code c - 87
  | 'A'..'F' -> Char.code c - 55
  | _ -> failwith "bad hex digit"

let z_of_hex (s : string) : z =
  let neg = String.length s > 0 && s.[0] = '-' in
  let start = if neg then 1 else 0 in
  (* collect bits, least significant first *)
  let bits = ref [] in
  for i = start to String.length s - 1 do
    let v = hexval s.[i] in
    (* most significant digit first: push so that final list is LSB first after reversal *)
    bits := (v land 1 = 1) :: (v land 2 = 2) :: (v land 4 = 4) :: (v land 8 = 8) :: !bits
  done;
  (* !bits is LSB-first of the whole number: the last hex digit was pushed last and sits at the head,
     in order bit0,bit1,bit2,bit3 -- correct.  Strip leading zeros (at the tail). *)
  let l = List.rev !bits in                 (* MSB first *)
  let rec strip = function false :: r -> strip r | l -> l in
  match strip l with
  | [] -> Z0
  | msb_first -> let p = pos_of_bits (List.rev msb_first) in if neg then Zneg p else Zpos p

let rec bits_of_pos (p : positive) (acc : bool list) : bool list =   (* returns MSB first *)
  match p with
  | XH -> true :: acc
  | XO q -> bits_of_pos q (false :: acc)
  | XI q -> bits_of_pos q (true :: acc)

let hex_of_pos (p : positive) : string =
  let msb = bits_of_pos p [] in
  let n = List.length msb in
  let pad = (4 - n mod 4) mod 4 in
  let rec padl k l = if k = 0 then l else padl (k - 1) (false :: l) in
  let l = padl pad msb in
  let buf = Buffer.create (n / 4 + 2) in
  let rec go = function
    | a :: b :: c :: d :: r ->
        let v = (if a then 8 else 0) + (if b then 4 else 0) + (if c then 2 else 0) + (if d then 1 else 0) in
        Buffer.add_char buf "0123456789abcdef".[v]; go r
    | [] -> ()
    | _ -> failwith "hex_of_pos"
  in
  go l; Buffer.contents buf

let hex_of_z = function
  | Z0 -> "0"
  | Zpos p -> hex_of_pos p
  | Zneg p -> "-" ^ hex_of_pos p

let split_ws (s : string) : string list =
  List.filter (fun t -> t <> "") (String.split_on_char ' ' s)

let strip_comment (s : string) : string =
  match String.index_opt s '#' with Some i -> String.sub s 0 i | None -> s

let () =
  let table = Dispatch.table in
  try
    while true do
      let line = input_line stdin in
      let body = String.trim (strip_comment line) in
      if body = "" then (print_string "\n"; flush stdout) else begin
        let toks = split_ws body in
        let out =
          try
            let zs = List.map z_of_hex toks in
            let pid = int_of_string ("0x" ^ List.hd toks) in
            (match List.assoc_opt pid table with
             | Some f -> String.concat " " (List.map hex_of_z (f zs))
             | None -> "3 0 -1")
          with
          | Stack_overflow -> "ERROR stack-overflow"
          | Failure m -> "ERROR " ^ m
        in
        print_string out; print_char '\n'; flush stdout
      end
    done
  with End_of_file -> ()

package main

// A function that RETURNS A CLOSURE,
//
//	func InvCDF(dist DistCommon) func(y float64) (x float64) { ...; return func(y float64) (x float64) { body } }
//
// is translated UNCURRIED: the generated definition takes the closure's parameters after the
// function's own and yields the closure's results,  gen_InvCDF <opaque> fuel y : option Q.
// Every return statement of the function must return
//   - a function literal: its body is translated in place, its parameters bound to the extra
//     parameters (the literal is called exactly once, with them, after the function has
//     returned: nothing it captures can change any more), or
//   - a method value x.M of an opaque interface method: the application of the opaque parameter.
// Calls of such a function from other translated functions are refused.
// This form is used only where the closure cannot be a Gallina fun value: some return yields
// something other than a function literal, or a returned literal contains a loop with fuel or a
// recursive closure.  Otherwise (LOESS) the result is an ordinary function value (fuel.go funcLit).
//
// The comma-ok type assertion  v, ok := x.(I)  on an interface-typed parameter x to an INTERFACE
// type I (does the dynamic type have these methods?) is a property of the value that is not
// represented: ok is the opaque boolean named by the directive "assert:I", and v is an interface
// local that may only receive opaque method calls / be used in opaque method values.

import (
	"fmt"
	"go/ast"
	"go/token"
	"go/types"
	"strings"
)

func curriedSig(sig *types.Signature) *types.Signature {
	if sig.Results().Len() != 1 {
		return nil
	}
	inner, _ := sig.Results().At(0).Type().Underlying().(*types.Signature)
	return inner
}

// mustUncurry: see above.
func (c *fctx) mustUncurry(body *ast.BlockStmt) bool {
	must := false
	ast.Inspect(body, func(n ast.Node) bool {
		switch x := n.(type) {
		case *ast.FuncLit:
			return false
		case *ast.ReturnStmt:
			if len(x.Results) == 1 {
				if lit, ok := unparen(x.Results[0]).(*ast.FuncLit); ok {
					if c.needsFuel(lit.Body) || hasRecClosure(lit.Body) {
						must = true
					}
				} else {
					must = true
				}
			}
			return false
		}
		return true
	})
	return must
}

// returnedLits: the function literals returned by the function body (not those nested in other literals).
func returnedLits(body *ast.BlockStmt) []*ast.FuncLit {
	var out []*ast.FuncLit
	ast.Inspect(body, func(n ast.Node) bool {
		switch x := n.(type) {
		case *ast.FuncLit:
			return false
		case *ast.ReturnStmt:
			if len(x.Results) == 1 {
				if lit, ok := unparen(x.Results[0]).(*ast.FuncLit); ok {
					out = append(out, lit)
				}
			}
			return false
		}
		return true
	})
	return out
}

func (c *fctx) curriedReturn(s *ast.ReturnStmt) string {
	if len(s.Results) != 1 {
		c.fail(s.Pos(), "return in a function that returns a closure")
	}
	inner := c.curried
	switch x := unparen(s.Results[0]).(type) {
	case *ast.FuncLit:
		lsig, ok := c.info.TypeOf(x).(*types.Signature)
		if !ok || lsig.Params().Len() != inner.Params().Len() || lsig.Variadic() {
			c.fail(x.Pos(), "returned function literal")
		}
		if c.inLoop > 0 {
			c.fail(x.Pos(), "function literal (closure) inside a loop")
		}
		// the literal's body in place; its parameters are the extra parameters of the definition
		oSig, oRes, oCur := c.sig, c.resTys, c.curried
		saved := c.copyEnv()
		defer func() { c.sig, c.resTys, c.curried = oSig, oRes, oCur; c.env = saved }()
		c.sig = lsig
		c.curried = nil
		for i := 0; i < lsig.Params().Len(); i++ {
			v := lsig.Params().At(i)
			if v.Name() != "" && v.Name() != "_" {
				c.env[envKey{v, ""}] = c.curNames[i]
			}
		}
		pre := ""
		named := false
		for i := 0; i < lsig.Results().Len(); i++ {
			rv := lsig.Results().At(i)
			if rv.Name() != "" && rv.Name() != "_" {
				named = true
			}
		}
		if named {
			for i := 0; i < lsig.Results().Len(); i++ {
				rv := lsig.Results().At(i)
				if rv.Name() == "" || rv.Name() == "_" {
					c.fail(x.Pos(), "mixture of named and blank results")
				}
				t := c.typeOf(rv.Type(), x.Pos())
				if t.k == kRec {
					pre += c.writeWhole(rv, c.record(t.rec, x.Pos()), c.zero(t, x.Pos()))
					continue
				}
				n := c.bind(rv, rv.Name())
				pre += fmt.Sprintf("let %s := %s in\n", n, c.zero(t, x.Pos()))
			}
		}
		body := c.stmts(x.Body.List, func() string {
			if named {
				return c.retK(c.namedResults())
			}
			c.fail(x.Body.Rbrace, "control reaches the end of a function literal with results")
			return ""
		})
		return pre + body
	case *ast.SelectorExpr:
		sel, ok := c.info.Selections[x]
		if !ok || sel.Kind() != types.MethodVal {
			c.fail(x.Pos(), "returned function value that is neither a function literal nor a method value")
		}
		f := sel.Obj().(*types.Func)
		name, isOpaque := c.opaqueName(f)
		if !isOpaque || !isInterface(c.info.TypeOf(x.X)) {
			c.fail(x.Pos(), "returned method value %s (only opaque interface methods)", f.Name())
		}
		id, isId := unparen(x.X).(*ast.Ident)
		var v *types.Var
		if isId {
			v, _ = c.info.Uses[id].(*types.Var)
		}
		if v == nil || !(c.isParam(v) || c.ifaceLocals[v]) {
			c.fail(x.Pos(), "opaque interface method %s taken from something other than an interface-typed parameter", name)
		}
		c.addOpq(opq{name: name, typ: c.coqSig(f.Type().(*types.Signature), x.Pos())}, x.Pos())
		if f.Type().(*types.Signature).Results().Len() != len(c.resTys) {
			c.fail(x.Pos(), "returned method value with another number of results")
		}
		term := "(" + strings.Join(append([]string{name}, c.curNames...), " ") + ")"
		if len(c.resTys) == 1 {
			return c.retK([]string{term})
		}
		names := make([]string, len(c.resTys))
		for i := range names {
			names[i] = c.fresh("r")
		}
		return fmt.Sprintf("let %s := %s in\n%s", pattern(names), term, c.retK(names))
	}
	c.fail(s.Pos(), "returned function value that is neither a function literal nor a method value")
	return ""
}

// assertOK recognises  v, ok := x.(I)  (the initialiser of an if statement or a statement of
// its own) with an interface type I and an opaque directive "assert:I"; it binds ok to the
// opaque boolean and registers v as an interface local.
func (c *fctx) assertOK(s *ast.AssignStmt) (string, bool) {
	if s.Tok != token.DEFINE || len(s.Lhs) != 2 || len(s.Rhs) != 1 {
		return "", false
	}
	ta, ok := unparen(s.Rhs[0]).(*ast.TypeAssertExpr)
	if !ok || ta.Type == nil {
		return "", false
	}
	want := c.info.TypeOf(ta.Type)
	if !isInterface(want) {
		c.fail(s.Pos(), "comma-ok type assertion to the concrete type %s", want)
	}
	tn := ""
	if n, isNamed := want.(*types.Named); isNamed {
		tn = n.Obj().Name()
	}
	name, has := c.u.group.Opaque["assert:"+tn]
	if tn == "" || !has {
		c.fail(s.Pos(), "comma-ok type assertion to %s (no \"assert:%s\" directive for this target group)", want, tn)
	}
	id, isId := unparen(ta.X).(*ast.Ident)
	var xv *types.Var
	if isId {
		xv, _ = c.info.Uses[id].(*types.Var)
	}
	if xv == nil || !c.isParam(xv) || !isInterface(xv.Type()) {
		c.fail(s.Pos(), "comma-ok type assertion on something other than an interface-typed parameter")
	}
	c.addOpq(opq{name: name, typ: "bool"}, s.Pos())
	if v, isV := s.Lhs[0].(*ast.Ident); isV && v.Name != "_" {
		if vo, _ := c.info.Defs[v].(*types.Var); vo != nil {
			c.ifaceLocals[vo] = true
		} else {
			c.fail(s.Pos(), "comma-ok type assertion assigned to an existing variable")
		}
	}
	out := ""
	if okId, isV := s.Lhs[1].(*ast.Ident); isV && okId.Name != "_" {
		o := c.info.Defs[okId]
		if o == nil {
			c.fail(s.Pos(), "comma-ok type assertion assigned to an existing variable")
		}
		n := c.bind(o, okId.Name)
		out = fmt.Sprintf("let %s := %s in\n", n, name)
	}
	return out, true
}

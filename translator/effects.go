// effects.go — `go2coq -effects`: a static MAY-WRITE analysis of the module's exported API
// (the structural tie of property C20, checked by coq/Tie/Effects.v).
//
// For every exported function / exported method of an exported type of every non-test,
// non-main, non-internal package the analysis derives from the type-checked source
//   - the parameter positions (receiver = 0 for methods) whose reachable memory may be written,
//     with an access path ("*.Bandwidth", ".Xs[]", "[]", "…~" = somewhere at or below) and the
//     source position of the write,
//   - "may write a package-level variable",
//   - "unknown": a call the analysis cannot see through (interface / function value / foreign
//     package) received memory of a parameter or a global.
//
// Method: abstract interpretation over root sets.  Every expression of a type that can hold
// references evaluates to a set of roots {param k + access path, fresh allocation site, global,
// address of a local, function literal, named function, unknown}.  Straight-line code and
// if/else are flow-sensitive (strong updates: `x1 = append([]float64(nil), x1...)` makes x1
// fresh from there on), loops are iterated to a fixpoint with break/continue states, switch
// clauses are joined; variables assigned inside function literals, after a function literal that
// captures them, or whose address is taken, and all variables of a function with labels / goto /
// fallthrough are flow-insensitive.  Stores of
// references into heap objects are recorded per object ("contents", field-insensitive) and read
// back on every dereference.  Module calls use per-function summaries (writes, stores, result
// aliases, callbacks, unknowns) computed by a fixpoint over the whole module.  Function literals
// are analysed inline where they are defined; their effects belong to the defining function.
package main

import (
	"encoding/json"
	"fmt"
	"go/ast"
	"go/token"
	"go/types"
	"os"
	"path/filepath"
	"sort"
	"strings"
)

// ---------------------------------------------------------------- trusted tables

// pureInterfaceMethods: methods of the library's EXPORTED (or anonymous) interfaces that are
// read-only BY CONTRACT: an implementation outside the module could do anything, the library's
// documentation says these only read the receiver.  Key: <package name>.<method name>.
// Value: which of (receiver = 0, arguments 1..) the method may write (nil = nothing).
// Calls of interface methods that are not listed (and not resolvable inside the module because
// the method name is unexported) make the caller "unknown" when they receive parameter memory.
// sort.Interface is NOT here: sort.Sort/Stable are resolved through the concrete type.
var pureInterfaceMethods = map[string][]int{
	// stats.Dist / DistCommon / DiscreteDist and the anonymous interfaces of dist.go, kde.go
	"stats.PDF": nil, "stats.PMF": nil, "stats.CDF": nil, "stats.InvCDF": nil, "stats.Bounds": nil, "stats.Step": nil,
	"stats.Rand": {1}, // Rand(*rand.Rand) advances the generator it is handed
	// stats.TTestSample and the `data` interfaces of BandwidthScott/Silverman
	"stats.Weight": nil, "stats.Mean": nil, "stats.Variance": nil, "stats.StdDev": nil, "stats.Quantile": nil,
	// stats.Histogram
	"stats.Counts": nil, "stats.BinToValue": nil,
	"stats.Add": {0}, // Histogram.Add updates the receiver
	// scale.Quantitative / Ticker
	"scale.Map": nil, "scale.Unmap": nil, "scale.CountTicks": nil, "scale.TicksAtLevel": nil, "scale.Ticks": nil,
	"scale.SetClamp": {0}, "scale.Nice": {0},
	// graph.Graph / BiGraph / Weighted / Subgraph
	"graph.NumNodes": nil, "graph.Out": nil, "graph.In": nil, "graph.OutWeight": nil, "graph.Underlying": nil, "graph.NodeMap": nil,
	// error / fmt.Stringer
	"builtin.Error": nil, "fmt.String": nil,
}

// Standard-library packages all of whose functions only read their arguments and return
// fresh (or immutable) results.
var purePkgs = map[string]bool{"math": true, "math/bits": true, "math/cmplx": true, "strconv": true, "strings": true,
	"errors": true, "unicode": true, "unicode/utf8": true, "sync/atomic": false}

// Standard-library functions: argument positions written (others read-only, result fresh).
var stdFuncs = map[string][]int{
	"sort.Float64s": {0}, "sort.Ints": {0}, "sort.Strings": {0}, "sort.Slice": {0}, "sort.SliceStable": {0},
	"sort.Float64sAreSorted": nil, "sort.IntsAreSorted": nil, "sort.StringsAreSorted": nil, "sort.SliceIsSorted": nil,
	"sort.Search": nil, "sort.SearchInts": nil, "sort.SearchFloat64s": nil, "sort.SearchStrings": nil,
	"fmt.Sprintf": nil, "fmt.Sprint": nil, "fmt.Sprintln": nil, "fmt.Errorf": nil,
	"fmt.Printf": nil, "fmt.Print": nil, "fmt.Println": nil, // I/O on the process's stdout: no memory of the caller
	"fmt.Fprintf": {0}, "fmt.Fprint": {0}, "fmt.Fprintln": {0},
	"math/rand.New": nil, "math/rand.NewSource": nil,
	"math/rand.Float64": nil, "math/rand.NormFloat64": nil, "math/rand.Intn": nil, "math/rand.Int": nil, // the locked global source of math/rand
}

// Methods of standard-library types: written positions (0 = receiver).
var stdMethods = map[string][]int{
	"math/rand.Rand.*":       {0},
	"strings.Builder.String": nil, "strings.Builder.Len": nil, "strings.Builder.*": {0},
	"io.Writer.Write": {0}, "sync.Mutex.*": nil, "sync.RWMutex.*": nil,
}

// gonum.org/v1/gonum/mat is not available to the type checker (the Loader stubs it).  Calls
// into it are recognised BY NAME (assumed summaries, listed in effects.json as "assumed"):
const gonumMat = "gonum.org/v1/gonum/mat"

var gonumFuncs = map[string]string{"NewDense": "wrap2", "NewVecDense": "wrap1", "DenseCopyOf": "fresh", "VecDenseCopyOf": "fresh", "NewDiagDense": "wrap1"}
var gonumMethods = map[string]string{ // on a receiver without type information in a file that imports mat
	"T": "alias", "RowView": "alias", "ColView": "alias", "RawMatrix": "alias", "RawVector": "alias", "Slice": "alias",
	"Mul": "wrecv", "MulVec": "wrecv", "MulElemVec": "wrecv", "SolveVec": "wrecv", "Solve": "wrecv", "Add": "wrecv", "Sub": "wrecv",
	"Scale": "wrecv", "ScaleVec": "wrecv", "AddVec": "wrecv", "SubVec": "wrecv", "Set": "wrecv", "SetVec": "wrecv", "Copy": "wrecv", "CopyVec": "wrecv",
	"At": "pure", "AtVec": "pure", "Dims": "pure", "Len": "pure",
}

// ---------------------------------------------------------------- roots

type rkind uint8

const (
	ekParam  rkind = iota // memory reachable from parameter i; path = access path from the parameter's value
	ekFresh               // allocated by this function (site i)
	ekGlobal              // package-level variable obj
	ekLocal               // address of the local variable obj
	ekLit                 // function literal i of this function
	ekFunc                // named function obj
	ekUnk                 // a reference of unknown origin
)

type Root struct {
	k    rkind
	i    int
	obj  types.Object
	path string
	coll bool // collapsed: "at or somewhere below path" (navigation no longer extends the path)
	full bool // a slice value x[i:j:j] without spare capacity: append to it never writes in place
}

type RootSet map[Root]struct{}

func (s RootSet) add(r Root) bool {
	if _, ok := s[r]; ok {
		return false
	}
	s[r] = struct{}{}
	return true
}
func (s RootSet) addAll(t RootSet) bool {
	ch := false
	for r := range t {
		if s.add(r) {
			ch = true
		}
	}
	return ch
}
func effUnion(a ...RootSet) RootSet {
	r := RootSet{}
	for _, s := range a {
		r.addAll(s)
	}
	return r
}
func effCollapse(s RootSet) RootSet {
	r := RootSet{}
	for x := range s {
		if x.k == ekParam {
			x.coll = true
		}
		r.add(x)
	}
	return r
}
func (s RootSet) external() bool { // holds memory the caller (or everybody) can see
	for r := range s {
		if r.k == ekParam || r.k == ekGlobal || r.k == ekUnk {
			return true
		}
	}
	return false
}

const effMaxSteps = 6

func effSplitPath(p string) []string {
	var st []string
	for i := 0; i < len(p); {
		switch p[i] {
		case '*', '~', '&':
			st = append(st, p[i:i+1])
			i++
		case '[':
			st = append(st, "[]")
			i += 2
		default: // '.' name
			j := i + 1
			for j < len(p) && p[j] != '.' && p[j] != '*' && p[j] != '[' && p[j] != '~' && p[j] != '&' {
				j++
			}
			st = append(st, p[i:j])
			i = j
		}
	}
	return st
}
func effIsDeref(step string) bool { return step == "*" || step == "[]" }

// ---------------------------------------------------------------- summaries

type effWkey struct {
	p    int
	path string
}
type cbEffect struct {
	p    int
	path string
	args []RootSet
}
type EffSummary struct {
	writes    map[effWkey]string      // -> first source position
	global    map[string]string       // what -> position
	unknown   map[string]map[int]bool // reason@pos -> parameter positions concerned (-1: unconditional)
	ret       RootSet
	stores    map[int]RootSet
	callbacks map[string]*cbEffect
	assumed   map[string]bool
}

func effNewSummary() *EffSummary {
	return &EffSummary{writes: map[effWkey]string{}, global: map[string]string{}, unknown: map[string]map[int]bool{}, ret: RootSet{},
		stores: map[int]RootSet{}, callbacks: map[string]*cbEffect{}, assumed: map[string]bool{}}
}

type effAnalysis struct {
	ld      *Loader
	funcs   map[*types.Func]*funcAn
	order   []*funcAn
	changed bool
	named   []*types.Named // all named types of the module (class hierarchy for unexported interface methods)
}

// ---------------------------------------------------------------- per-function state

type funcAn struct {
	a       *effAnalysis
	pkg     *Pkg
	fn      *types.Func
	decl    *ast.FuncDecl
	name    string
	params  []*types.Var
	pindex  map[*types.Var]int
	weakVar map[*types.Var]bool
	allWeak bool
	weak    map[*types.Var]RootSet
	cont    map[Root]RootSet // contents of heap objects (keys: param i / fresh site / global)
	sites   map[ast.Node]int
	lits    map[*ast.FuncLit]int
	litRet  map[int]RootSet
	sum     *EffSummary
	usesMat bool
	ctx     []*effFlow
}

type effState map[*types.Var]RootSet

func (s effState) clone() effState {
	c := effState{}
	for k, v := range s {
		c[k] = v
	}
	return c
}
func effJoinState(a, b effState) effState {
	c := effState{}
	for k, v := range a {
		c[k] = v
	}
	for k, v := range b {
		if w, ok := c[k]; ok {
			c[k] = effUnion(w, v)
		} else {
			c[k] = v
		}
	}
	return c
}

func (f *funcAn) mark() { f.a.changed = true }

func (f *funcAn) pos(n ast.Node) string {
	p := f.a.ld.fset.Position(n.Pos())
	rel, err := filepath.Rel(f.a.ld.repo, p.Filename)
	if err != nil {
		rel = p.Filename
	}
	return fmt.Sprintf("%s:%d", rel, p.Line)
}

func (f *funcAn) site(n ast.Node) Root {
	id, ok := f.sites[n]
	if !ok {
		id = len(f.sites) + 1
		f.sites[n] = id
	}
	return Root{k: ekFresh, i: id}
}

func (f *funcAn) addUnknown(reason string, at ast.Node, ps map[int]bool) {
	key := reason + " @" + f.pos(at)
	m := f.sum.unknown[key]
	if m == nil {
		m = map[int]bool{}
		f.sum.unknown[key] = m
	}
	for p := range ps {
		if !m[p] {
			m[p] = true
			f.mark()
		}
	}
}

// the parameter positions a root set exposes (-1 if it holds a global / unknown reference)
func (f *funcAn) exposed(sets ...RootSet) map[int]bool {
	m := map[int]bool{}
	for _, s := range sets {
		for r := range f.closure(s) {
			switch r.k {
			case ekParam:
				m[r.i] = true
			case ekGlobal, ekUnk:
				m[-1] = true
			}
		}
	}
	return m
}

func (f *funcAn) addGlobal(what string, at string) {
	if old, ok := f.sum.global[what]; !ok || at < old {
		f.sum.global[what] = at
		f.mark()
	}
}

func (f *funcAn) contKey(r Root) (Root, bool) {
	switch r.k {
	case ekParam:
		return Root{k: ekParam, i: r.i}, true
	case ekFresh:
		return Root{k: ekFresh, i: r.i}, true
	}
	return Root{}, false
}

func (f *funcAn) contentsOf(r Root) RootSet {
	if k, ok := f.contKey(r); ok {
		return f.cont[k]
	}
	return nil
}

func (f *funcAn) addContents(r Root, v RootSet) {
	if len(v) == 0 {
		return
	}
	k, ok := f.contKey(r)
	if !ok {
		return
	}
	c := f.cont[k]
	if c == nil {
		c = RootSet{}
		f.cont[k] = c
	}
	if c.addAll(effCollapse(v)) {
		f.mark()
	}
}

func (f *funcAn) lookup(st effState, v *types.Var) RootSet {
	if f.weakVar[v] || f.allWeak {
		return f.weak[v]
	}
	return effUnion(st[v], f.weak[v])
}

func (f *funcAn) setVar(st effState, v *types.Var, r RootSet, partial bool) {
	if f.weakVar[v] || f.allWeak || st == nil {
		w := f.weak[v]
		if w == nil {
			w = RootSet{}
			f.weak[v] = w
		}
		if w.addAll(r) {
			f.mark()
		}
		return
	}
	if partial {
		st[v] = effUnion(st[v], r)
	} else {
		st[v] = effUnion(r)
	}
}

// transitive closure under contents (and through addresses of locals)
func (f *funcAn) closure(s RootSet) RootSet {
	out := RootSet{}
	var work []Root
	for r := range s {
		if out.add(r) {
			work = append(work, r)
		}
	}
	for len(work) > 0 {
		r := work[len(work)-1]
		work = work[:len(work)-1]
		var more RootSet
		if r.k == ekLocal {
			more = effCollapse(f.weak[r.obj.(*types.Var)])
		} else {
			more = f.contentsOf(r)
		}
		for x := range more {
			if out.add(x) {
				work = append(work, x)
			}
		}
	}
	return out
}

// navStep: the roots of the value obtained from a value with roots s by one access step.
func (f *funcAn) navStep(st effState, s RootSet, step string) RootSet {
	out := RootSet{}
	for r := range s {
		r.full = false
		switch r.k {
		case ekParam:
			if r.coll {
				out.add(r)
			} else if step == "*" && strings.HasSuffix(r.path, "&") {
				out.add(Root{k: ekParam, i: r.i, path: strings.TrimSuffix(r.path, "&")})
			} else if strings.HasSuffix(r.path, "&") || len(effSplitPath(r.path)) >= effMaxSteps {
				out.add(Root{k: ekParam, i: r.i, path: strings.TrimSuffix(r.path, "&"), coll: true})
			} else {
				out.add(Root{k: ekParam, i: r.i, path: r.path + step})
			}
			if effIsDeref(step) || r.coll {
				out.addAll(f.contentsOf(r))
			}
		case ekFresh:
			out.add(r)
			out.addAll(f.contentsOf(r))
		case ekLocal:
			if effIsDeref(step) {
				out.addAll(f.lookup(st, r.obj.(*types.Var)))
			} else {
				out.add(r)
			}
		default:
			out.add(r)
		}
	}
	return out
}

func (f *funcAn) nav(st effState, s RootSet, steps []string) RootSet {
	for _, p := range steps {
		if p == "~" {
			return effCollapse(f.closure(s))
		}
		s = f.navStep(st, s, p)
	}
	return s
}

// heapWrite: the objects referenced by the values objs are written at suffix (first step of
// suffix is the dereference); v = roots of the stored value.
func (f *funcAn) heapWrite(st effState, objs RootSet, suffix string, v RootSet, at string) {
	if suffix == "~" {
		objs = f.closure(objs)
	}
	for r := range objs {
		r.full = false
		switch r.k {
		case ekParam:
			p := r.path + suffix
			if r.coll {
				p = r.path + "~"
			} else if strings.HasSuffix(r.path, "&") {
				if strings.HasPrefix(suffix, "*") {
					p = strings.TrimSuffix(r.path, "&") + suffix[1:]
				} else {
					p = strings.TrimSuffix(r.path, "&") + "~"
				}
			}
			p = strings.Replace(p, "~~", "~", -1)
			k := effWkey{r.i, p}
			if old, ok := f.sum.writes[k]; !ok || at < old { // the smallest position: deterministic output
				f.sum.writes[k] = at
				f.mark()
			}
			f.addContents(r, v)
			if len(v) > 0 {
				s := f.sum.stores[r.i]
				if s == nil {
					s = RootSet{}
					f.sum.stores[r.i] = s
				}
				if s.addAll(f.summarise(st, effCollapse(v))) {
					f.mark()
				}
			}
		case ekFresh:
			f.addContents(r, v)
		case ekGlobal:
			f.addGlobal("write through "+r.obj.Pkg().Name()+"."+r.obj.Name(), at)
		case ekLocal:
			f.setVar(nil, r.obj.(*types.Var), effCollapse(v), true)
		case ekUnk:
			key := "write through a reference of unknown origin @" + at
			if f.sum.unknown[key] == nil {
				f.sum.unknown[key] = map[int]bool{-1: true}
				f.mark()
			}
		}
	}
}

// summarise: a root set in terms a caller understands (no locals, literals, sites).
func (f *funcAn) summarise(st effState, s RootSet) RootSet {
	out := RootSet{}
	for r := range f.closure(s) {
		r.full = false
		switch r.k {
		case ekParam, ekGlobal, ekUnk:
			out.add(r)
		case ekFresh, ekLit, ekFunc:
			out.add(Root{k: ekFresh})
		case ekLocal:
			out.add(Root{k: ekFresh})
		}
	}
	return out
}

// ---------------------------------------------------------------- prepass: which variables are flow-insensitive

func (f *funcAn) prepass() {
	info := f.pkg.info
	type asg struct {
		v   *types.Var
		pos token.Pos
	}
	var asgs []asg
	captured := map[*types.Var]token.Pos{}
	varOf := func(e ast.Expr) *types.Var {
		for {
			switch x := e.(type) {
			case *ast.ParenExpr:
				e = x.X
				continue
			case *ast.SelectorExpr: // x.f = ... on a struct value: partial assignment of x
				if sel, ok := info.Selections[x]; ok && sel.Kind() == types.FieldVal && !sel.Indirect() {
					e = x.X
					continue
				}
				return nil
			case *ast.IndexExpr:
				if tv, ok := info.Types[x.X]; ok && tv.Type != nil {
					if _, isArr := tv.Type.Underlying().(*types.Array); isArr {
						e = x.X
						continue
					}
				}
				return nil
			case *ast.Ident:
				if v, ok := info.Uses[x].(*types.Var); ok {
					return v
				}
				if v, ok := info.Defs[x].(*types.Var); ok {
					return v
				}
				return nil
			default:
				return nil
			}
		}
	}
	var walk func(n ast.Node, weakCtx bool, lit *ast.FuncLit)
	note := func(e ast.Expr, weakCtx bool) {
		if v := varOf(e); v != nil {
			if weakCtx {
				f.weakVar[v] = true
			}
			asgs = append(asgs, asg{v, e.Pos()})
		}
	}
	walk = func(n ast.Node, weakCtx bool, lit *ast.FuncLit) {
		if n == nil {
			return
		}
		switch x := n.(type) {
		case *ast.FuncLit:
			if _, ok := f.lits[x]; !ok {
				f.lits[x] = len(f.lits) + 1
			}
			// parameters and results of a literal: bound at call sites
			for _, fl := range []*ast.FieldList{x.Type.Params, x.Type.Results} {
				if fl != nil {
					for _, fd := range fl.List {
						for _, nm := range fd.Names {
							if v, ok := info.Defs[nm].(*types.Var); ok {
								f.weakVar[v] = true
							}
						}
					}
				}
			}
			ast.Inspect(x.Body, func(m ast.Node) bool {
				if id, ok := m.(*ast.Ident); ok {
					if v, ok := info.Uses[id].(*types.Var); ok && !v.IsField() && v.Pkg() == f.pkg.tpkg && v.Parent() != f.pkg.tpkg.Scope() {
						if v.Pos() < x.Pos() || v.Pos() > x.End() {
							if p, ok := captured[v]; !ok || x.Pos() < p {
								captured[v] = x.Pos()
							}
						}
					}
				}
				return true
			})
			walk(x.Body, true, x)
			return
		case *ast.RangeStmt:
			if x.Key != nil {
				note(x.Key, weakCtx)
			}
			if x.Value != nil {
				note(x.Value, weakCtx)
			}
		case *ast.TypeSwitchStmt:
			walk(x.Init, weakCtx, lit)
			walk(x.Assign, true, lit)
			walk(x.Body, weakCtx, lit)
			return
		case *ast.LabeledStmt:
			f.allWeak = true
		case *ast.BranchStmt:
			if x.Tok == token.GOTO || x.Tok == token.FALLTHROUGH || x.Label != nil {
				f.allWeak = true
			}
		case *ast.AssignStmt:
			for _, l := range x.Lhs {
				note(l, weakCtx)
			}
		case *ast.IncDecStmt:
			note(x.X, weakCtx)
		case *ast.ValueSpec:
			for _, nm := range x.Names {
				note(nm, weakCtx)
			}
		case *ast.UnaryExpr:
			if x.Op == token.AND {
				if v := varOf(x.X); v != nil {
					f.weakVar[v] = true
				}
			}
		case *ast.SliceExpr: // arr[:] of a local array
			if tv, ok := info.Types[x.X]; ok && tv.Type != nil {
				if _, isArr := tv.Type.Underlying().(*types.Array); isArr {
					if v := varOf(x.X); v != nil {
						f.weakVar[v] = true
					}
				}
			}
		case *ast.CallExpr: // x.M() with a pointer-receiver method on an addressable variable: &x
			if se, ok := x.Fun.(*ast.SelectorExpr); ok {
				if sel, ok := info.Selections[se]; ok && sel.Kind() == types.MethodVal {
					if sig, ok := sel.Obj().Type().(*types.Signature); ok && sig.Recv() != nil {
						if _, isPtr := sig.Recv().Type().(*types.Pointer); isPtr {
							if tv, ok := info.Types[se.X]; ok && tv.Type != nil {
								if _, xptr := tv.Type.Underlying().(*types.Pointer); !xptr {
									if v := varOf(se.X); v != nil {
										f.weakVar[v] = true
									}
								}
							}
						}
					}
				}
			}
		}
		// generic descent
		ast.Inspect(n, func(m ast.Node) bool {
			if m == n || m == nil {
				return true
			}
			walk(m, weakCtx, lit)
			return false
		})
	}
	walk(f.decl.Body, false, nil)
	for _, a := range asgs {
		if p, ok := captured[a.v]; ok && a.pos > p {
			f.weakVar[a.v] = true
		}
	}
}

// ---------------------------------------------------------------- expressions

func effHasRefs(t types.Type) bool { return effHasRefsD(t, 0) }
func effHasRefsD(t types.Type, d int) bool {
	if t == nil || d > 8 {
		return true
	}
	switch u := t.Underlying().(type) {
	case *types.Basic:
		return u.Kind() == types.Invalid || u.Kind() == types.UnsafePointer
	case *types.Struct:
		for i := 0; i < u.NumFields(); i++ {
			if effHasRefsD(u.Field(i).Type(), d+1) {
				return true
			}
		}
		return false
	case *types.Array:
		return effHasRefsD(u.Elem(), d+1)
	case *types.Tuple:
		for i := 0; i < u.Len(); i++ {
			if effHasRefsD(u.At(i).Type(), d+1) {
				return true
			}
		}
		return false
	}
	return true
}

func effInvalid(t types.Type) bool {
	for d := 0; d < 6 && t != nil; d++ {
		switch u := t.(type) {
		case *types.Basic:
			return u.Kind() == types.Invalid
		case *types.Pointer:
			t = u.Elem()
		case *types.Slice:
			t = u.Elem()
		default:
			return false
		}
	}
	return t == nil
}

func (f *funcAn) typeOf(e ast.Expr) types.Type {
	if tv, ok := f.pkg.info.Types[e]; ok && tv.Type != nil {
		if effInvalid(tv.Type) {
			return nil
		}
		return tv.Type
	}
	if id, ok := e.(*ast.Ident); ok {
		if o := f.pkg.info.ObjectOf(id); o != nil && o.Type() != nil {
			if effInvalid(o.Type()) {
				return nil
			}
			return o.Type()
		}
	}
	return nil
}

func effUnparen(e ast.Expr) ast.Expr {
	for {
		p, ok := e.(*ast.ParenExpr)
		if !ok {
			return e
		}
		e = p.X
	}
}

func (f *funcAn) isLocalVar(v *types.Var) bool {
	return !v.IsField() && v.Parent() != nil && v.Parent() != v.Pkg().Scope() && v.Parent() != types.Universe
}

// selWalk follows a field/method selection x.sel from the value x.  It returns the roots of the
// selected field (or of the value holding the method), and the location as (roots of the
// references dereferenced last, path suffix from there); derefd = false: the location is inside
// the value x itself (no memory access).
func (f *funcAn) selWalk(st effState, x ast.Expr, sel *types.Selection) (val RootSet, objs RootSet, suffix string, derefd bool, holder types.Type) {
	val = f.eval(st, x)
	t := f.typeOf(x)
	idx := sel.Index()
	for n, i := range idx {
		if t == nil {
			return effCollapse(val), objs, "~", derefd, nil
		}
		if p, ok := t.Underlying().(*types.Pointer); ok {
			objs, suffix, derefd = val, "*", true
			val = f.navStep(st, val, "*")
			t = p.Elem()
		}
		if n == len(idx)-1 && sel.Kind() != types.FieldVal {
			break
		}
		s, ok := t.Underlying().(*types.Struct)
		if !ok {
			return effCollapse(val), objs, "~", derefd, nil
		}
		fd := s.Field(i)
		val = f.navStep(st, val, "."+fd.Name())
		suffix += "." + fd.Name()
		t = fd.Type()
	}
	return val, objs, suffix, derefd, t
}

// addrOf: roots of &e
func (f *funcAn) addrOf(st effState, e ast.Expr) RootSet {
	e = effUnparen(e)
	switch x := e.(type) {
	case *ast.CompositeLit:
		r := f.site(x)
		f.addContents(r, f.eval(st, x))
		return RootSet{r: {}}
	case *ast.Ident:
		if v, ok := f.pkg.info.Uses[x].(*types.Var); ok {
			if f.isLocalVar(v) {
				return RootSet{Root{k: ekLocal, obj: v}: {}}
			}
			return RootSet{Root{k: ekGlobal, obj: v}: {}}
		}
	case *ast.SelectorExpr:
		if sel, ok := f.pkg.info.Selections[x]; ok && sel.Kind() == types.FieldVal {
			val, _, _, derefd, _ := f.selWalk(st, x.X, sel)
			if !derefd {
				return f.addrOf(st, x.X)
			}
			return effAddrMark(val)
		}
		return f.eval(st, x) // pkg.Var
	case *ast.IndexExpr:
		if t := f.typeOf(x.X); t != nil {
			if _, ok := t.Underlying().(*types.Array); ok {
				return f.addrOf(st, x.X)
			}
		}
		return effAddrMark(f.eval(st, x))
	case *ast.StarExpr:
		return f.eval(st, x.X)
	}
	return effCollapse(f.eval(st, e))
}

// effAddrMark: pointers to the locations whose VALUES have roots s
func effAddrMark(s RootSet) RootSet {
	out := RootSet{}
	for r := range s {
		if r.k == ekParam && !r.coll && !strings.HasSuffix(r.path, "&") {
			r.path += "&"
		} else if r.k == ekParam {
			r.coll = true
			r.path = strings.TrimSuffix(r.path, "&")
		}
		out.add(r)
	}
	return out
}

func (f *funcAn) eval(st effState, e ast.Expr) RootSet {
	if e == nil {
		return RootSet{}
	}
	info := f.pkg.info
	switch x := e.(type) {
	case *ast.ParenExpr:
		return f.eval(st, x.X)
	case *ast.BasicLit:
		return RootSet{}
	case *ast.FuncLit:
		id := f.lits[x]
		f.funcLit(st, x)
		return RootSet{Root{k: ekLit, i: id}: {}}
	case *ast.Ident:
		switch o := info.Uses[x].(type) {
		case *types.Var:
			if o.IsField() {
				return RootSet{}
			}
			if !f.isLocalVar(o) {
				if !effHasRefs(o.Type()) {
					return RootSet{}
				}
				return RootSet{Root{k: ekGlobal, obj: o}: {}}
			}
			if t := o.Type(); t != nil && !effHasRefs(t) {
				return RootSet{}
			}
			return effUnion(f.lookup(st, o))
		case *types.Func:
			return RootSet{Root{k: ekFunc, obj: o}: {}}
		}
		return RootSet{}
	case *ast.CallExpr:
		return f.call(st, x)
	case *ast.CompositeLit:
		out := RootSet{}
		for _, el := range x.Elts {
			if kv, ok := el.(*ast.KeyValueExpr); ok {
				out.addAll(effCollapse(f.eval(st, kv.Key)))
				el = kv.Value
			}
			if cl, ok := el.(*ast.CompositeLit); ok && cl.Type == nil { // elided &T{} possible
				out.addAll(effCollapse(f.eval(st, cl)))
				continue
			}
			out.addAll(effCollapse(f.eval(st, el)))
		}
		t := f.typeOf(x)
		if t != nil {
			switch t.Underlying().(type) {
			case *types.Slice, *types.Map:
				r := f.site(x)
				f.addContents(r, out)
				return RootSet{r: {}}
			}
		}
		return out
	case *ast.StarExpr:
		return f.navStep(st, f.eval(st, x.X), "*")
	case *ast.UnaryExpr:
		if x.Op == token.AND {
			return f.addrOf(st, x.X)
		}
		r := f.eval(st, x.X)
		if x.Op == token.ARROW {
			return f.navStep(st, r, "[]")
		}
		return RootSet{}
	case *ast.BinaryExpr:
		f.eval(st, x.X)
		f.eval(st, x.Y)
		return RootSet{}
	case *ast.KeyValueExpr:
		return f.eval(st, x.Value)
	case *ast.TypeAssertExpr:
		r := f.eval(st, x.X)
		if t := f.typeOf(x); t != nil && !effHasRefs(t) {
			if tu, ok := t.(*types.Tuple); !ok || !effHasRefs(tu.At(0).Type()) {
				return RootSet{}
			}
		}
		return r
	case *ast.SliceExpr:
		f.eval(st, x.Low)
		f.eval(st, x.High)
		f.eval(st, x.Max)
		if t := f.typeOf(x.X); t != nil {
			switch u := t.Underlying().(type) {
			case *types.Array:
				return f.addrOf(st, x.X)
			case *types.Pointer:
				return f.eval(st, x.X)
			case *types.Basic:
				_ = u
				return RootSet{}
			}
		}
		if x.Slice3 && x.High != nil && x.Max != nil && types.ExprString(x.High) == types.ExprString(x.Max) {
			out := RootSet{}
			for r := range f.eval(st, x.X) {
				r.full = true
				out.add(r)
			}
			return out
		}
		return f.eval(st, x.X)
	case *ast.IndexExpr:
		f.eval(st, x.Index)
		if tv, ok := info.Types[x.X]; ok && tv.Type != nil {
			if _, isSig := tv.Type.Underlying().(*types.Signature); isSig { // generic instantiation
				return f.eval(st, x.X)
			}
		}
		r := f.eval(st, x.X)
		t := f.typeOf(x.X)
		if t == nil {
			return effCollapse(r)
		}
		var out RootSet
		switch u := t.Underlying().(type) {
		case *types.Array:
			out = f.navStep(st, r, ".#")
		case *types.Pointer:
			_ = u
			out = f.navStep(st, f.navStep(st, r, "*"), ".#")
		case *types.Basic:
			return RootSet{}
		default:
			out = f.navStep(st, r, "[]")
		}
		if et := f.typeOf(x); et != nil && !effHasRefs(et) {
			if tu, ok := et.(*types.Tuple); !ok || !effHasRefs(tu.At(0).Type()) {
				return RootSet{}
			}
		}
		return out
	case *ast.SelectorExpr:
		if sel, ok := info.Selections[x]; ok {
			val, _, _, _, holder := f.selWalk(st, x.X, sel)
			if sel.Kind() == types.FieldVal {
				if t := f.typeOf(x); t != nil && !effHasRefs(t) {
					return RootSet{}
				}
				return val
			}
			// method value: the bound receiver
			_ = holder
			return effCollapse(val)
		}
		// qualified identifier
		switch o := info.Uses[x.Sel].(type) {
		case *types.Var:
			if !effHasRefs(o.Type()) {
				return RootSet{}
			}
			return RootSet{Root{k: ekGlobal, obj: o}: {}}
		case *types.Func:
			return RootSet{Root{k: ekFunc, obj: o}: {}}
		case nil:
			if f.isMatPkg(x.X) {
				return RootSet{}
			}
			f.addUnknown("missing type information for "+effExprStr(x), x, map[int]bool{-1: true})
		}
		return RootSet{}
	case *ast.ArrayType, *ast.MapType, *ast.ChanType, *ast.FuncType, *ast.StructType, *ast.InterfaceType, *ast.Ellipsis:
		return RootSet{}
	}
	f.addUnknown(fmt.Sprintf("unhandled expression %T", e), e, map[int]bool{-1: true})
	return RootSet{}
}

func effExprStr(e ast.Expr) string {
	switch x := e.(type) {
	case *ast.Ident:
		return x.Name
	case *ast.SelectorExpr:
		return effExprStr(x.X) + "." + x.Sel.Name
	case *ast.StarExpr:
		return "*" + effExprStr(x.X)
	case *ast.CallExpr:
		return effExprStr(x.Fun) + "(...)"
	case *ast.IndexExpr:
		return effExprStr(x.X) + "[...]"
	case *ast.ParenExpr:
		return "(" + effExprStr(x.X) + ")"
	}
	return fmt.Sprintf("%T", e)
}

func (f *funcAn) isMatPkg(e ast.Expr) bool {
	id, ok := e.(*ast.Ident)
	if !ok {
		return false
	}
	pn, ok := f.pkg.info.Uses[id].(*types.PkgName)
	return ok && pn.Imported().Path() == gonumMat
}

// ---------------------------------------------------------------- statements

// writeTo: the location denoted by lhs receives a value with roots v.
func (f *funcAn) writeTo(st effState, lhs ast.Expr, v RootSet, partial bool, at ast.Node) {
	info := f.pkg.info
	lhs = effUnparen(lhs)
	switch x := lhs.(type) {
	case *ast.Ident:
		if x.Name == "_" {
			return
		}
		var o types.Object = info.Defs[x]
		if o == nil {
			o = info.Uses[x]
		}
		vr, ok := o.(*types.Var)
		if !ok {
			return
		}
		if !f.isLocalVar(vr) {
			f.addGlobal("assignment to "+vr.Pkg().Name()+"."+vr.Name(), f.pos(at))
			return
		}
		f.setVar(st, vr, v, partial)
	case *ast.StarExpr:
		f.heapWrite(st, f.eval(st, x.X), "*", v, f.pos(at))
	case *ast.IndexExpr:
		f.eval(st, x.Index)
		t := f.typeOf(x.X)
		if t == nil {
			f.addUnknown("missing type information for "+effExprStr(x.X), at, map[int]bool{-1: true})
			return
		}
		switch t.Underlying().(type) {
		case *types.Array:
			f.writeTo(st, x.X, effCollapse(v), true, at)
		case *types.Pointer:
			f.heapWrite(st, f.eval(st, x.X), "*.#", v, f.pos(at))
		default:
			f.heapWrite(st, f.eval(st, x.X), "[]", v, f.pos(at))
		}
	case *ast.SelectorExpr:
		sel, ok := info.Selections[x]
		if !ok {
			if vr, ok := info.Uses[x.Sel].(*types.Var); ok {
				f.addGlobal("assignment to "+vr.Pkg().Name()+"."+vr.Name(), f.pos(at))
			} else {
				f.addUnknown("missing type information for "+effExprStr(x), at, map[int]bool{-1: true})
			}
			return
		}
		_, objs, suffix, derefd, _ := f.selWalk(st, x.X, sel)
		if !derefd {
			f.writeTo(st, x.X, effCollapse(v), true, at)
			return
		}
		f.heapWrite(st, objs, suffix, v, f.pos(at))
	default:
		f.addUnknown(fmt.Sprintf("assignment to %T", lhs), at, map[int]bool{-1: true})
	}
}

func (f *funcAn) block(st effState, l []ast.Stmt) effState {
	for _, s := range l {
		st = f.stmt(st, s)
	}
	return st
}

func (f *funcAn) stmt(st effState, s ast.Stmt) effState {
	info := f.pkg.info
	switch x := s.(type) {
	case nil, *ast.EmptyStmt:
	case *ast.BranchStmt:
		// labels, goto, fallthrough make the whole function flow-insensitive (prepass)
		if x.Label == nil {
			for i := len(f.ctx) - 1; i >= 0; i-- {
				c := f.ctx[i]
				if x.Tok == token.BREAK {
					c.breaks = append(c.breaks, st.clone())
					break
				}
				if x.Tok == token.CONTINUE && c.loop {
					c.conts = append(c.conts, st.clone())
					break
				}
			}
		}
	case *ast.BlockStmt:
		st = f.block(st, x.List)
	case *ast.ExprStmt:
		f.eval(st, x.X)
	case *ast.LabeledStmt:
		st = f.stmt(st, x.Stmt)
	case *ast.GoStmt:
		f.eval(st, x.Call)
	case *ast.DeferStmt:
		f.eval(st, x.Call)
	case *ast.SendStmt:
		f.heapWrite(st, f.eval(st, x.Chan), "[]", f.eval(st, x.Value), f.pos(x))
	case *ast.IncDecStmt:
		f.writeTo(st, x.X, RootSet{}, true, x)
	case *ast.AssignStmt:
		var vals []RootSet
		if len(x.Rhs) == 1 && len(x.Lhs) > 1 {
			r := f.eval(st, x.Rhs[0])
			for range x.Lhs {
				vals = append(vals, r)
			}
		} else {
			for _, r := range x.Rhs {
				vals = append(vals, f.eval(st, r))
			}
		}
		for i, l := range x.Lhs {
			v := vals[i]
			partial := x.Tok != token.ASSIGN && x.Tok != token.DEFINE
			if partial {
				v = RootSet{}
			}
			if t := f.typeOf(l); t != nil && !effHasRefs(t) {
				v = RootSet{}
			}
			f.writeTo(st, l, v, partial, x)
		}
	case *ast.DeclStmt:
		if gd, ok := x.Decl.(*ast.GenDecl); ok {
			for _, sp := range gd.Specs {
				if vs, ok := sp.(*ast.ValueSpec); ok {
					for i, nm := range vs.Names {
						v := RootSet{}
						if len(vs.Values) == len(vs.Names) {
							v = f.eval(st, vs.Values[i])
						} else if len(vs.Values) == 1 {
							v = f.eval(st, vs.Values[0])
						}
						f.writeTo(st, nm, v, false, x)
					}
				}
			}
		}
	case *ast.ReturnStmt:
		var r RootSet
		if len(x.Results) == 0 {
			r = RootSet{}
			if res := f.curResults(x); res != nil {
				for _, fd := range res.List {
					for _, nm := range fd.Names {
						if v, ok := info.Defs[nm].(*types.Var); ok && effHasRefs(v.Type()) {
							r.addAll(f.lookup(st, v))
						}
					}
				}
			}
		} else {
			r = RootSet{}
			for _, e := range x.Results {
				v := f.eval(st, e)
				if t := f.typeOf(e); t != nil && !effHasRefs(t) {
					continue
				}
				r.addAll(v)
			}
		}
		f.addRet(st, x, r)
	case *ast.IfStmt:
		st = f.stmt(st, x.Init)
		f.eval(st, x.Cond)
		a := f.stmt(st.clone(), x.Body)
		b := st
		if x.Else != nil {
			b = f.stmt(st.clone(), x.Else)
		}
		st = effJoinState(a, b)
	case *ast.ForStmt:
		st = f.stmt(st, x.Init)
		st = f.loop(st, func(in effState) effState {
			f.eval(in, x.Cond)
			return f.stmt(in, x.Body)
		}, func(in effState) effState { return f.stmt(in, x.Post) })
	case *ast.RangeStmt:
		st = f.loop(st, func(in effState) effState {
			f.rangeBind(in, x)
			return f.stmt(in, x.Body)
		}, nil)
	case *ast.SwitchStmt:
		st = f.stmt(st, x.Init)
		f.eval(st, x.Tag)
		f.ctx = append(f.ctx, &effFlow{})
		outs := []effState{}
		hasDefault := false
		for _, c := range x.Body.List {
			cc := c.(*ast.CaseClause)
			if cc.List == nil {
				hasDefault = true
			}
			for _, e := range cc.List {
				f.eval(st, e)
			}
			outs = append(outs, f.block(st.clone(), cc.Body))
		}
		st = f.endBranches(st, outs, hasDefault)
	case *ast.TypeSwitchStmt:
		st = f.stmt(st, x.Init)
		var r RootSet
		switch a := x.Assign.(type) {
		case *ast.ExprStmt:
			r = f.eval(st, a.X)
		case *ast.AssignStmt:
			r = f.eval(st, a.Rhs[0])
		}
		f.ctx = append(f.ctx, &effFlow{})
		outs := []effState{}
		hasDefault := false
		for _, c := range x.Body.List {
			cc := c.(*ast.CaseClause)
			if cc.List == nil {
				hasDefault = true
			}
			if v, ok := info.Implicits[cc].(*types.Var); ok {
				f.weakVar[v] = true
				f.setVar(st, v, r, true)
			}
			outs = append(outs, f.block(st.clone(), cc.Body))
		}
		st = f.endBranches(st, outs, hasDefault)
	case *ast.SelectStmt:
		f.ctx = append(f.ctx, &effFlow{})
		outs := []effState{}
		for _, c := range x.Body.List {
			cc := c.(*ast.CommClause)
			in := f.stmt(st.clone(), cc.Comm)
			outs = append(outs, f.block(in, cc.Body))
		}
		st = f.endBranches(st, outs, false)
	default:
		f.addUnknown(fmt.Sprintf("unhandled statement %T", s), s, map[int]bool{-1: true})
	}
	return st
}

type effFlow struct {
	loop          bool
	breaks, conts []effState
}

func effSameState(a, b effState) bool {
	if len(a) != len(b) {
		return false
	}
	for k, v := range a {
		w, ok := b[k]
		if !ok || len(v) != len(w) {
			return false
		}
		for r := range v {
			if _, ok := w[r]; !ok {
				return false
			}
		}
	}
	return true
}

// loop: fixpoint of the strong part of the state over the loop body
func (f *funcAn) loop(st effState, body func(effState) effState, post func(effState) effState) effState {
	in := st
	var fl *effFlow
	for n := 0; ; n++ {
		fl = &effFlow{loop: true}
		f.ctx = append(f.ctx, fl)
		out := body(in.clone())
		f.ctx = f.ctx[:len(f.ctx)-1]
		for _, c := range fl.conts {
			out = effJoinState(out, c)
		}
		if post != nil {
			out = post(out)
		}
		next := effJoinState(in, out)
		if effSameState(next, in) || n > 50 {
			break
		}
		in = next
	}
	exit := in
	for _, b := range fl.breaks {
		exit = effJoinState(exit, b)
	}
	return exit
}

func (f *funcAn) endBranches(before effState, outs []effState, exhaustive bool) effState {
	fl := f.ctx[len(f.ctx)-1]
	f.ctx = f.ctx[:len(f.ctx)-1]
	var st effState
	if !exhaustive || len(outs) == 0 {
		st = before
	}
	for _, o := range append(outs, fl.breaks...) {
		if st == nil {
			st = o
		} else {
			st = effJoinState(st, o)
		}
	}
	return st
}

func (f *funcAn) rangeBind(st effState, x *ast.RangeStmt) {
	r := f.eval(st, x.X)
	t := f.typeOf(x.X)
	var kv, vv RootSet = RootSet{}, RootSet{}
	if t == nil {
		vv = effCollapse(r)
	} else {
		switch u := t.Underlying().(type) {
		case *types.Slice, *types.Map, *types.Chan:
			vv = f.navStep(st, r, "[]")
			if _, isMap := u.(*types.Map); isMap {
				kv = vv
			}
			if _, isChan := u.(*types.Chan); isChan {
				kv = vv
			}
		case *types.Array:
			vv = f.navStep(st, r, ".#")
		case *types.Pointer:
			vv = f.navStep(st, f.navStep(st, r, "*"), ".#")
		case *types.Signature:
			f.addUnknown("range over a function", x, f.exposed(r))
		}
	}
	if x.Key != nil {
		if t := f.typeOf(x.Key); t != nil && !effHasRefs(t) {
			kv = RootSet{}
		}
		f.writeTo(st, x.Key, kv, false, x)
	}
	if x.Value != nil {
		if t := f.typeOf(x.Value); t != nil && !effHasRefs(t) {
			vv = RootSet{}
		}
		f.writeTo(st, x.Value, vv, false, x)
	}
}

// the result list of the function (literal) that encloses a return statement
func (f *funcAn) curResults(ret *ast.ReturnStmt) *ast.FieldList {
	var best *ast.FuncLit
	for l := range f.lits {
		if l.Pos() <= ret.Pos() && ret.End() <= l.End() {
			if best == nil || l.Pos() > best.Pos() {
				best = l
			}
		}
	}
	if best != nil {
		return best.Type.Results
	}
	return f.decl.Type.Results
}

func (f *funcAn) addRet(st effState, ret *ast.ReturnStmt, r RootSet) {
	var best *ast.FuncLit
	for l := range f.lits {
		if l.Pos() <= ret.Pos() && ret.End() <= l.End() {
			if best == nil || l.Pos() > best.Pos() {
				best = l
			}
		}
	}
	if best != nil {
		id := f.lits[best]
		if f.litRet[id] == nil {
			f.litRet[id] = RootSet{}
		}
		if f.litRet[id].addAll(r) {
			f.mark()
		}
		return
	}
	// a returned closure may hand out what its body returns
	for x := range r {
		if x.k == ekLit {
			r = effUnion(r, effCollapse(f.litRet[x.i]))
		}
	}
	if f.sum.ret.addAll(f.summarise(st, r)) {
		f.mark()
	}
}

// funcLit: the body of a function literal is analysed where the literal is created, in a copy of
// the current state; its effects are effects of the enclosing function.
func (f *funcAn) funcLit(st effState, l *ast.FuncLit) {
	inner := st.clone()
	saved := f.ctx
	f.ctx = nil
	f.block(inner, l.Body.List)
	f.ctx = saved
}

// ---------------------------------------------------------------- calls

func (f *funcAn) evalArgs(st effState, args []ast.Expr) []RootSet {
	out := make([]RootSet, len(args))
	for i, a := range args {
		out[i] = f.eval(st, a)
		if t := f.typeOf(a); t != nil && !effHasRefs(t) {
			out[i] = RootSet{}
		}
	}
	return out
}

func (f *funcAn) resultHasRefs(c *ast.CallExpr) bool {
	t := f.typeOf(c)
	return t == nil || effHasRefs(t)
}

func (f *funcAn) call(st effState, c *ast.CallExpr) RootSet {
	info := f.pkg.info
	fun := effUnparen(c.Fun)
	// conversion
	if tv, ok := info.Types[fun]; ok && tv.IsType() {
		if len(c.Args) != 1 {
			return RootSet{}
		}
		r := f.eval(st, c.Args[0])
		if at := f.typeOf(c.Args[0]); at != nil {
			if _, isStr := at.Underlying().(*types.Basic); isStr && effHasRefs(tv.Type) {
				return RootSet{f.site(c): {}}
			}
		}
		if !effHasRefs(tv.Type) {
			return RootSet{}
		}
		return r
	}
	if ix, ok := fun.(*ast.IndexExpr); ok {
		if tv, ok := info.Types[ix.X]; ok && tv.Type != nil {
			if _, isSig := tv.Type.Underlying().(*types.Signature); isSig {
				fun = effUnparen(ix.X)
			}
		}
	}
	if ix, ok := fun.(*ast.IndexListExpr); ok {
		fun = effUnparen(ix.X)
	}
	// builtins
	if id, ok := fun.(*ast.Ident); ok {
		if _, ok := info.Uses[id].(*types.Builtin); ok {
			return f.builtin(st, id.Name, c)
		}
	}
	switch x := fun.(type) {
	case *ast.Ident:
		if fn, ok := info.Uses[x].(*types.Func); ok {
			return f.staticCall(st, c, fn, nil, f.evalArgs(st, c.Args))
		}
	case *ast.SelectorExpr:
		if sel, ok := info.Selections[x]; ok {
			if sel.Kind() == types.MethodVal {
				fn := sel.Obj().(*types.Func)
				val, _, _, derefd, holder := f.selWalk(st, x.X, sel)
				sig := fn.Type().(*types.Signature)
				recv := val
				if holder != nil && !types.IsInterface(holder) && sig.Recv() != nil {
					_, wantPtr := sig.Recv().Type().(*types.Pointer)
					_, havePtr := holder.Underlying().(*types.Pointer)
					if wantPtr && !havePtr {
						if derefd {
							recv = effAddrMark(val)
						} else {
							recv = f.addrOf(st, effBaseOf(x.X))
							if len(sel.Index()) > 1 || effBaseOf(x.X) != effUnparen(x.X) {
								recv = effUnion(recv, effCollapse(val))
							}
						}
					} else if !wantPtr && havePtr {
						recv = f.navStep(st, val, "*")
					}
				}
				args := f.evalArgs(st, c.Args)
				if holder == nil {
					return f.untypedMethod(st, c, x, val, args)
				}
				if types.IsInterface(holder) {
					return f.ifaceCall(st, c, fn, holder, recv, args)
				}
				return f.staticCall(st, c, fn, recv, args)
			}
			if sel.Kind() == types.MethodExpr {
				fn := sel.Obj().(*types.Func)
				args := f.evalArgs(st, c.Args)
				if len(args) > 0 {
					return f.staticCall(st, c, fn, args[0], args[1:])
				}
				return RootSet{}
			}
			// function-valued field
		} else if fn, ok := info.Uses[x.Sel].(*types.Func); ok {
			return f.staticCall(st, c, fn, nil, f.evalArgs(st, c.Args))
		} else if info.Uses[x.Sel] == nil {
			args := f.evalArgs(st, c.Args)
			if f.isMatPkg(x.X) {
				return f.gonumFunc(st, c, x.Sel.Name, args)
			}
			if f.typeOf(x.X) == nil {
				return f.untypedMethod(st, c, x, f.eval(st, x.X), args)
			}
			f.addUnknown("missing type information for "+effExprStr(x), c, f.exposed(args...))
			return RootSet{Root{k: ekUnk}: {}}
		}
	}
	// call of a function value
	return f.valueCall(st, c, f.eval(st, fun), f.evalArgs(st, c.Args))
}

func effBaseOf(e ast.Expr) ast.Expr {
	for {
		switch x := effUnparen(e).(type) {
		case *ast.SelectorExpr:
			e = x.X
		case *ast.IndexExpr:
			e = x.X
		default:
			return effUnparen(e)
		}
	}
}

func (f *funcAn) builtin(st effState, name string, c *ast.CallExpr) RootSet {
	args := f.evalArgs(st, c.Args)
	switch name {
	case "append":
		if len(args) == 0 {
			return RootSet{}
		}
		fresh := f.site(c)
		out := RootSet{fresh: {}}
		out.addAll(args[0])
		// append may write into the spare capacity of the first argument's backing array
		tgt := RootSet{}
		for r := range args[0] {
			if !r.full {
				tgt.add(r)
			}
		}
		f.heapWrite(st, tgt, "[]", RootSet{}, f.pos(c)+" (append)")
		for i := 1; i < len(args); i++ {
			v := args[i]
			if c.Ellipsis.IsValid() && i == len(args)-1 {
				v = f.navStep(st, v, "[]")
				if t := f.typeOf(c.Args[i]); t != nil {
					if sl, ok := t.Underlying().(*types.Slice); ok && !effHasRefs(sl.Elem()) {
						v = RootSet{}
					}
					if _, ok := t.Underlying().(*types.Basic); ok {
						v = RootSet{}
					}
				}
			}
			if len(v) > 0 {
				for r := range out {
					f.addContents(r, v)
				}
				f.heapWriteStoreOnly(st, args[0], v)
			}
		}
		return out
	case "copy":
		if len(args) == 2 {
			v := f.navStep(st, args[1], "[]")
			if t := f.typeOf(c.Args[0]); t != nil {
				if sl, ok := t.Underlying().(*types.Slice); ok && !effHasRefs(sl.Elem()) {
					v = RootSet{}
				}
			}
			f.heapWrite(st, args[0], "[]", v, f.pos(c)+" (copy)")
		}
		return RootSet{}
	case "make", "new":
		return RootSet{f.site(c): {}}
	case "delete", "clear":
		if len(args) > 0 {
			f.heapWrite(st, args[0], "[]", RootSet{}, f.pos(c)+" ("+name+")")
		}
		return RootSet{}
	case "min", "max", "len", "cap", "panic", "print", "println", "real", "imag", "complex", "close", "recover":
		return RootSet{}
	}
	f.addUnknown("builtin "+name, c, f.exposed(args...))
	return RootSet{}
}

// a store that is already reported as an (append) write: only the contents
func (f *funcAn) heapWriteStoreOnly(st effState, objs RootSet, v RootSet) {
	for r := range objs {
		if r.k == ekParam {
			s := f.sum.stores[r.i]
			if s == nil {
				s = RootSet{}
				f.sum.stores[r.i] = s
			}
			if s.addAll(f.summarise(st, effCollapse(v))) {
				f.mark()
			}
		}
	}
}

func (f *funcAn) freshResult(c *ast.CallExpr) RootSet {
	if f.resultHasRefs(c) {
		return RootSet{f.site(c): {}}
	}
	return RootSet{}
}

// positional roots of a call: receiver (if any) then parameters, variadic arguments packed
func (f *funcAn) positional(st effState, c *ast.CallExpr, sig *types.Signature, recv RootSet, args []RootSet) []RootSet {
	var pos []RootSet
	if sig.Recv() != nil {
		pos = append(pos, recv)
	}
	n := sig.Params().Len()
	for i := 0; i < n; i++ {
		if sig.Variadic() && i == n-1 {
			if c.Ellipsis.IsValid() && i < len(args) {
				pos = append(pos, args[i])
			} else {
				pack := RootSet{}
				for j := i; j < len(args); j++ {
					pack.addAll(effCollapse(args[j]))
				}
				fr := Root{k: ekFresh, i: f.site(c).i}
				f.addContents(fr, pack)
				pos = append(pos, RootSet{fr: {}})
			}
		} else if i < len(args) {
			pos = append(pos, args[i])
		} else {
			pos = append(pos, RootSet{})
		}
	}
	return pos
}

// mapRoots: a root set of a callee summary in terms of the caller
func (f *funcAn) mapRoots(st effState, c *ast.CallExpr, s RootSet, pos []RootSet) RootSet {
	out := RootSet{}
	for r := range s {
		switch r.k {
		case ekParam:
			if r.i < len(pos) {
				m := f.nav(st, pos[r.i], effSplitPath(r.path))
				if r.coll {
					m = effCollapse(f.closure(m))
				}
				out.addAll(m)
			}
		case ekFresh, ekLit, ekFunc, ekLocal:
			out.add(f.site(c))
		default:
			out.add(r)
		}
	}
	return out
}

func (f *funcAn) applyWrite(st effState, pos []RootSet, p int, path string, at string) {
	if p >= len(pos) {
		return
	}
	steps := effSplitPath(path)
	d := -1
	for i, s := range steps {
		if effIsDeref(s) || s == "~" {
			d = i
		}
	}
	if d < 0 {
		return
	}
	objs := f.nav(st, pos[p], steps[:d])
	f.heapWrite(st, objs, strings.Join(steps[d:], ""), RootSet{}, at)
}

func (f *funcAn) applySummary(st effState, c *ast.CallExpr, name string, sum *EffSummary, pos []RootSet) RootSet {
	via := " via " + name + " @" + f.pos(c)
	for k, at := range sum.writes {
		f.applyWrite(st, pos, k.p, k.path, at+via)
	}
	for what, at := range sum.global {
		f.addGlobal(what, at+via)
	}
	for reason, ps := range sum.unknown {
		conc := map[int]bool{}
		for p := range ps {
			if p < 0 {
				conc[-1] = true
			} else if p < len(pos) {
				for q := range f.exposed(pos[p]) {
					conc[q] = true
				}
			}
		}
		if len(conc) > 0 {
			key := reason
			if !strings.Contains(key, " via ") {
				key += via
			}
			m := f.sum.unknown[key]
			if m == nil {
				m = map[int]bool{}
				f.sum.unknown[key] = m
			}
			for q := range conc {
				if !m[q] {
					m[q] = true
					f.mark()
				}
			}
		}
	}
	for p, s := range sum.stores {
		if p < len(pos) {
			v := f.mapRoots(st, c, s, pos)
			for r := range f.closure(pos[p]) {
				switch r.k {
				case ekParam:
					f.addContents(r, v)
					ss := f.sum.stores[r.i]
					if ss == nil {
						ss = RootSet{}
						f.sum.stores[r.i] = ss
					}
					if ss.addAll(f.summarise(st, effCollapse(v))) {
						f.mark()
					}
				case ekFresh:
					f.addContents(r, v)
				case ekLocal:
					f.setVar(nil, r.obj.(*types.Var), effCollapse(v), true)
				}
			}
		}
	}
	for _, cb := range sum.callbacks {
		if cb.p >= len(pos) {
			continue
		}
		fr := f.closure(f.nav(st, pos[cb.p], effSplitPath(cb.path)))
		args := make([]RootSet, len(cb.args))
		for i, a := range cb.args {
			args[i] = f.mapRoots(st, c, a, pos)
		}
		f.valueCallRoots(st, c, fr, args, true)
	}
	if !f.resultHasRefs(c) {
		return RootSet{}
	}
	out := f.mapRoots(st, c, sum.ret, pos)
	// what the fresh result holds: the collapsed part of the mapped roots
	fr := f.site(c)
	if _, ok := out[fr]; ok {
		held := RootSet{}
		for r := range out {
			if r.k == ekParam && r.coll {
				held.add(r)
			}
		}
		f.addContents(fr, held)
	}
	return out
}

func effQualName(fn *types.Func) string {
	p := ""
	if fn.Pkg() != nil {
		p = fn.Pkg().Path()
	}
	sig := fn.Type().(*types.Signature)
	if r := sig.Recv(); r != nil {
		t := r.Type()
		if pt, ok := t.(*types.Pointer); ok {
			t = pt.Elem()
		}
		if n, ok := t.(*types.Named); ok {
			return p + "." + n.Obj().Name() + "." + fn.Name()
		}
	}
	return p + "." + fn.Name()
}

func (f *funcAn) staticCall(st effState, c *ast.CallExpr, fn *types.Func, recv RootSet, args []RootSet) RootSet {
	sig := fn.Type().(*types.Signature)
	pos := f.positional(st, c, sig, recv, args)
	if fa := f.a.funcs[fn]; fa != nil {
		return f.applySummary(st, c, fa.name, fa.sum, pos)
	}
	if fn.Pkg() != nil && (fn.Pkg().Path() == f.a.ld.module || strings.HasPrefix(fn.Pkg().Path(), f.a.ld.module+"/")) {
		// a module function without a body we have seen (generic instance origin?)
		if o := fn.Origin(); o != fn {
			if fa := f.a.funcs[o]; fa != nil {
				return f.applySummary(st, c, fa.name, fa.sum, pos)
			}
		}
		f.addUnknown("module function without source: "+effQualName(fn), c, f.exposed(pos...))
		return f.freshResult(c)
	}
	return f.stdCall(st, c, fn, pos)
}

func (f *funcAn) stdCall(st effState, c *ast.CallExpr, fn *types.Func, pos []RootSet) RootSet {
	q := effQualName(fn)
	pkg := ""
	if fn.Pkg() != nil {
		pkg = fn.Pkg().Path()
	}
	sig := fn.Type().(*types.Signature)
	at := f.pos(c) + " (" + q + ")"
	if q == "sort.Sort" || q == "sort.Stable" {
		return f.sortCall(st, c, pos)
	}
	if sig.Recv() == nil {
		if purePkgs[pkg] {
			return f.freshResult(c)
		}
		if w, ok := stdFuncs[q]; ok {
			for _, p := range w {
				if p < len(pos) {
					f.heapWrite(st, pos[p], "[]", RootSet{}, at)
				}
			}
			// function-valued arguments (sort.Slice's less, sort.Search's predicate) are called with scalars only
			return f.freshResult(c)
		}
	} else {
		w, ok := stdMethods[q]
		if !ok {
			w, ok = stdMethods[q[:strings.LastIndex(q, ".")]+".*"]
		}
		if ok {
			for _, p := range w {
				if p < len(pos) {
					f.heapWrite(st, pos[p], "~", RootSet{}, at)
				}
			}
			return f.freshResult(c)
		}
	}
	if len(f.exposed(pos...)) > 0 {
		f.addUnknown("call of "+q+" (outside the module, no summary)", c, f.exposed(pos...))
	}
	if f.resultHasRefs(c) {
		return effUnion(RootSet{f.site(c): {}}, effCollapseAll(pos))
	}
	return RootSet{}
}

func effCollapseAll(pos []RootSet) RootSet {
	out := RootSet{}
	for _, p := range pos {
		out.addAll(effCollapse(p))
	}
	return out
}

// sort.Sort(v) / sort.Stable(v): calls v.Len, v.Less, v.Swap of the CONCRETE type of the argument
func (f *funcAn) sortCall(st effState, c *ast.CallExpr, pos []RootSet) RootSet {
	if len(c.Args) != 1 || len(pos) != 1 {
		return RootSet{}
	}
	t := f.typeOf(c.Args[0])
	if t == nil || types.IsInterface(t) {
		f.heapWrite(st, pos[0], "~", RootSet{}, f.pos(c)+" (sort.Sort of an interface value)")
		return RootSet{}
	}
	for _, m := range []string{"Len", "Less", "Swap"} {
		obj, _, _ := types.LookupFieldOrMethod(t, true, f.pkg.tpkg, m)
		fn, ok := obj.(*types.Func)
		if !ok {
			f.heapWrite(st, pos[0], "~", RootSet{}, f.pos(c)+" (sort.Sort)")
			continue
		}
		recv := pos[0]
		sig := fn.Type().(*types.Signature)
		_, wantPtr := sig.Recv().Type().(*types.Pointer)
		_, havePtr := t.Underlying().(*types.Pointer)
		if !wantPtr && havePtr {
			recv = f.navStep(st, recv, "*")
		}
		if fa := f.a.funcs[fn]; fa != nil {
			f.applySummary(st, c, fa.name, fa.sum, []RootSet{recv, {}, {}})
		} else if m == "Swap" {
			f.heapWrite(st, pos[0], "~", RootSet{}, f.pos(c)+" (sort.Sort, "+effQualName(fn)+")")
		}
	}
	return RootSet{}
}

// interface method call
func (f *funcAn) ifaceCall(st effState, c *ast.CallExpr, fn *types.Func, iface types.Type, recv RootSet, args []RootSet) RootSet {
	sig := fn.Type().(*types.Signature)
	pos := f.positional(st, c, sig, recv, args)
	pkgName := "builtin"
	if fn.Pkg() != nil {
		pkgName = fn.Pkg().Name()
	}
	key := pkgName + "." + fn.Name()
	out := RootSet{}
	if f.resultHasRefs(c) {
		out = effUnion(RootSet{f.site(c): {}}, effCollapse(f.closure(recv)))
	}
	w, listed := pureInterfaceMethods[key]
	for _, p := range w {
		if p < len(pos) {
			f.heapWrite(st, pos[p], "~", RootSet{}, f.pos(c)+" (interface method "+key+")")
		}
	}
	// the table is trusted for implementations OUTSIDE the module only: the module's own
	// implementations are looked at (class hierarchy)
	// class hierarchy: the module's own implementations
	inModule := fn.Pkg() != nil && (fn.Pkg().Path() == f.a.ld.module || strings.HasPrefix(fn.Pkg().Path(), f.a.ld.module+"/"))
	closed := inModule && !fn.Exported()
	if inModule {
		it, _ := iface.Underlying().(*types.Interface)
		for _, n := range f.a.named {
			for _, t := range []types.Type{n, types.NewPointer(n)} {
				if it == nil || types.IsInterface(n) || !types.Implements(t, it) {
					continue
				}
				obj, _, _ := types.LookupFieldOrMethod(t, false, fn.Pkg(), fn.Name())
				m, ok := obj.(*types.Func)
				if !ok {
					continue
				}
				fa := f.a.funcs[m]
				if fa == nil {
					continue
				}
				// the dynamic value is t; a value receiver of a pointer dynamic type is *recv
				p2 := append([]RootSet{}, pos...)
				msig := m.Type().(*types.Signature)
				_, wantPtr := msig.Recv().Type().(*types.Pointer)
				_, havePtr := t.(*types.Pointer)
				if !wantPtr && havePtr {
					p2[0] = f.navStep(st, pos[0], "*")
				} else if wantPtr && !havePtr {
					continue
				}
				out.addAll(f.applySummary(st, c, fa.name, fa.sum, p2))
			}
		}
	}
	if !closed && !listed {
		if ex := f.exposed(pos...); len(ex) > 0 {
			f.addUnknown("call of interface method "+key+" (not in pureInterfaceMethods)", c, ex)
		}
	}
	return out
}

func (f *funcAn) valueCall(st effState, c *ast.CallExpr, fr RootSet, args []RootSet) RootSet {
	return f.valueCallRoots(st, c, f.closure(fr), args, false)
}

// call of a function value with roots fr
func (f *funcAn) valueCallRoots(st effState, c *ast.CallExpr, fr RootSet, args []RootSet, fromCallee bool) RootSet {
	out := RootSet{}
	wantRes := fromCallee || f.resultHasRefs(c)
	called := false
	for r := range fr {
		switch r.k {
		case ekLit:
			called = true
			var lit *ast.FuncLit
			for l, id := range f.lits {
				if id == r.i {
					lit = l
				}
			}
			if lit == nil {
				continue
			}
			i := 0
			for _, fd := range lit.Type.Params.List {
				names := fd.Names
				if len(names) == 0 {
					i++
					continue
				}
				for _, nm := range names {
					if v, ok := f.pkg.info.Defs[nm].(*types.Var); ok && effHasRefs(v.Type()) {
						_, variadic := fd.Type.(*ast.Ellipsis)
						if variadic && !(c.Ellipsis.IsValid() && !fromCallee) {
							for j := i; j < len(args); j++ {
								f.setVar(nil, v, effCollapse(args[j]), true)
							}
							f.setVar(nil, v, RootSet{f.site(lit): {}}, true)
						} else if i < len(args) {
							f.setVar(nil, v, args[i], true)
						}
					}
					i++
				}
			}
			if wantRes {
				out.addAll(f.litRet[r.i])
			}
		case ekFunc:
			called = true
			fn := r.obj.(*types.Func)
			sig := fn.Type().(*types.Signature)
			if sig.Recv() != nil {
				continue
			}
			res := f.staticCall(st, c, fn, nil, args)
			if wantRes {
				out.addAll(res)
			}
		case ekParam:
			called = true
			// a callback: the function value comes from the caller
			if r.path != "" || true {
				cb := &cbEffect{p: r.i, path: r.path}
				if r.coll {
					cb.path += "~"
				}
				key := fmt.Sprintf("%d%s", cb.p, cb.path)
				old := f.sum.callbacks[key]
				if old == nil {
					old = cb
					f.sum.callbacks[key] = cb
					f.mark()
				}
				for i, a := range args {
					for len(old.args) <= i {
						old.args = append(old.args, RootSet{})
					}
					if old.args[i].addAll(f.summarise(st, a)) {
						f.mark()
					}
				}
			}
			if wantRes {
				out.add(f.site(c))
				out.addAll(effCollapseAll(args))
				out.add(Root{k: ekParam, i: r.i, path: r.path, coll: true})
			}
		case ekGlobal, ekUnk:
			called = true
			if ex := f.exposed(args...); len(ex) > 0 {
				f.addUnknown("call of a function value of unknown origin", c, ex)
			}
			if wantRes {
				out.add(Root{k: ekUnk})
			}
		}
	}
	if !called {
		if ex := f.exposed(args...); len(ex) > 0 && !fromCallee {
			f.addUnknown("call of an untracked function value "+effExprStr(c.Fun), c, ex)
		}
	}
	if wantRes && !fromCallee && f.resultHasRefs(c) {
		out.add(f.site(c))
		for r := range fr { // opaque closures may return what they hold
			if r.k == ekFresh || r.k == ekParam {
				out.add(r)
			}
		}
	}
	return out
}

// ---------------------------------------------------------------- gonum (no type information)

func (f *funcAn) gonumFunc(st effState, c *ast.CallExpr, name string, args []RootSet) RootSet {
	kind, ok := gonumFuncs[name]
	f.noteAssumed("mat." + name)
	if !ok {
		f.addUnknown("gonum mat."+name+" (no assumed summary)", c, f.exposed(args...))
		return RootSet{Root{k: ekUnk}: {}}
	}
	out := RootSet{f.site(c): {}}
	switch kind {
	case "wrap2":
		if len(args) > 2 {
			out.addAll(effCollapse(args[2]))
		}
	case "wrap1":
		if len(args) > 1 {
			out.addAll(effCollapse(args[1]))
		}
	}
	return out
}

func (f *funcAn) noteAssumed(s string) {
	if !f.sum.assumed[s] {
		f.sum.assumed[s] = true
		f.mark()
	}
}

func (f *funcAn) untypedMethod(st effState, c *ast.CallExpr, x *ast.SelectorExpr, recv RootSet, args []RootSet) RootSet {
	if !f.usesMat {
		f.addUnknown("missing type information for "+effExprStr(x), c, f.exposed(append(args, recv)...))
		return RootSet{Root{k: ekUnk}: {}}
	}
	kind, ok := gonumMethods[x.Sel.Name]
	f.noteAssumed("(mat)." + x.Sel.Name)
	if !ok {
		f.addUnknown("method "+x.Sel.Name+" on a value without type information (gonum?)", c, f.exposed(append(args, recv)...))
		return RootSet{Root{k: ekUnk}: {}}
	}
	switch kind {
	case "alias":
		return effCollapse(recv)
	case "wrecv":
		f.heapWrite(st, recv, "~", RootSet{}, f.pos(c)+" (gonum "+x.Sel.Name+", assumed)")
	}
	return RootSet{}
}

// ---------------------------------------------------------------- driver

func (f *funcAn) run() {
	f.ctx = nil
	st := effState{}
	for i, v := range f.params {
		if v == nil {
			continue
		}
		r := RootSet{}
		if effHasRefs(v.Type()) {
			r.add(Root{k: ekParam, i: i})
		}
		if f.weakVar[v] || f.allWeak {
			f.setVar(nil, v, r, true)
		} else {
			st[v] = r
		}
	}
	f.block(st, f.decl.Body.List)
}

type effOut struct {
	Name      string            `json:"name"`
	Pos       string            `json:"pos"`
	Written   []int             `json:"written"`
	Global    bool              `json:"global"`
	Unknown   bool              `json:"unknown"`
	Writes    []effWrite        `json:"writes,omitempty"`
	Globals   map[string]string `json:"global_writes,omitempty"`
	Unknowns  []string          `json:"unknown_reasons,omitempty"`
	Callbacks []effCb           `json:"callbacks,omitempty"`
	Assumed   []string          `json:"assumed_summaries,omitempty"`
}
type effWrite struct {
	Param int    `json:"param"`
	Path  string `json:"path"`
	At    string `json:"at"`
}
type effCb struct {
	Func  int    `json:"func_param"`
	Path  string `json:"path"`
	Param []int  `json:"exposes_params"`
}

func runEffects(ld *Loader, repo string, out string) int {
	// packages: every directory with non-test .go files, except cmd/, internal/, testdata, hidden
	var rels []string
	filepath.Walk(repo, func(p string, fi os.FileInfo, err error) error {
		if err != nil {
			return nil
		}
		if fi.IsDir() {
			b := fi.Name()
			if p != repo && (strings.HasPrefix(b, ".") || strings.HasPrefix(b, "_") || b == "testdata" || b == "vendor" || b == "cmd") {
				return filepath.SkipDir
			}
			return nil
		}
		if strings.HasSuffix(p, ".go") && !strings.HasSuffix(p, "_test.go") {
			rel, _ := filepath.Rel(repo, filepath.Dir(p))
			if rel == "." {
				rel = ""
			}
			if len(rels) == 0 || rels[len(rels)-1] != rel {
				rels = append(rels, rel)
			}
		}
		return nil
	})
	sort.Strings(rels)
	a := &effAnalysis{ld: ld, funcs: map[*types.Func]*funcAn{}}
	var pkgs []*Pkg
	seen := map[string]bool{}
	for _, rel := range rels {
		if seen[rel] {
			continue
		}
		seen[rel] = true
		p, err := ld.load(rel)
		if err != nil || p.tpkg == nil {
			fmt.Fprintf(os.Stderr, "go2coq -effects: cannot load %s: %v\n", rel, err)
			return 2
		}
		if p.tpkg.Name() == "main" {
			continue
		}
		pkgs = append(pkgs, p)
	}
	// packages pulled in as dependencies
	for _, p := range ld.pkgs {
		found := false
		for _, q := range pkgs {
			if p == q {
				found = true
			}
		}
		if !found && p.tpkg != nil && p.tpkg.Name() != "main" {
			pkgs = append(pkgs, p)
		}
	}
	sort.Slice(pkgs, func(i, j int) bool { return pkgs[i].path < pkgs[j].path })
	for _, p := range pkgs {
		sc := p.tpkg.Scope()
		for _, nm := range sc.Names() {
			if tn, ok := sc.Lookup(nm).(*types.TypeName); ok && !tn.IsAlias() {
				if n, ok := tn.Type().(*types.Named); ok {
					a.named = append(a.named, n)
				}
			}
		}
		var fns []*types.Func
		for fn := range p.decls {
			fns = append(fns, fn)
		}
		sort.Slice(fns, func(i, j int) bool { return fns[i].Pos() < fns[j].Pos() })
		for _, fn := range fns {
			fd := p.decls[fn]
			fa := &funcAn{a: a, pkg: p, fn: fn, decl: fd, name: p.tpkg.Name() + "." + funcKey(fn), pindex: map[*types.Var]int{},
				weakVar: map[*types.Var]bool{}, weak: map[*types.Var]RootSet{}, cont: map[Root]RootSet{}, sites: map[ast.Node]int{},
				lits: map[*ast.FuncLit]int{}, litRet: map[int]RootSet{}, sum: effNewSummary()}
			sig := fn.Type().(*types.Signature)
			if sig.Recv() != nil {
				fa.params = append(fa.params, sig.Recv())
			}
			for i := 0; i < sig.Params().Len(); i++ {
				fa.params = append(fa.params, sig.Params().At(i))
			}
			for _, f := range p.files {
				if f.Pos() <= fd.Pos() && fd.End() <= f.End() {
					for _, im := range f.Imports {
						if strings.Trim(im.Path.Value, `"`) == gonumMat {
							fa.usesMat = true
						}
					}
				}
			}
			a.funcs[fn] = fa
			a.order = append(a.order, fa)
			if fd.Body == nil {
				fa.sum.unknown["no Go body (assembly?) @"+fa.pos(fd)] = map[int]bool{-1: true}
				continue
			}
			fa.prepass()
		}
	}
	rounds := 0
	for {
		a.changed = false
		for _, fa := range a.order {
			if fa.decl.Body != nil {
				fa.run()
			}
		}
		rounds++
		if !a.changed {
			break
		}
		if rounds > 200 {
			fmt.Fprintf(os.Stderr, "go2coq -effects: no fixpoint after %d rounds\n", rounds)
			return 2
		}
	}
	// output: the exported API
	var outs []effOut
	for _, fa := range a.order {
		rel := fa.pkg.rel
		if !fa.fn.Exported() || strings.HasPrefix(rel, "internal") || strings.Contains(rel, "/internal") || strings.HasPrefix(rel, "cmd") {
			continue
		}
		sig := fa.fn.Type().(*types.Signature)
		if r := sig.Recv(); r != nil {
			t := r.Type()
			if pt, ok := t.(*types.Pointer); ok {
				t = pt.Elem()
			}
			n, ok := t.(*types.Named)
			if !ok || !n.Obj().Exported() {
				continue
			}
		}
		o := effOut{Name: fa.name, Pos: fa.pos(fa.decl), Written: []int{}}
		wr := map[int]bool{}
		for k, at := range fa.sum.writes {
			wr[k.p] = true
			o.Writes = append(o.Writes, effWrite{k.p, k.path, at})
		}
		sort.Slice(o.Writes, func(i, j int) bool {
			if o.Writes[i].Param != o.Writes[j].Param {
				return o.Writes[i].Param < o.Writes[j].Param
			}
			return o.Writes[i].Path < o.Writes[j].Path
		})
		for p := range wr {
			o.Written = append(o.Written, p)
		}
		sort.Ints(o.Written)
		o.Global = len(fa.sum.global) > 0
		if o.Global {
			o.Globals = fa.sum.global
		}
		for r := range fa.sum.unknown {
			o.Unknowns = append(o.Unknowns, r)
		}
		sort.Strings(o.Unknowns)
		o.Unknown = len(o.Unknowns) > 0
		for _, cb := range fa.sum.callbacks {
			ex := map[int]bool{}
			for _, s := range cb.args {
				for r := range s {
					if r.k == ekParam {
						ex[r.i] = true
					}
				}
			}
			if len(ex) == 0 {
				continue
			}
			c := effCb{Func: cb.p, Path: cb.path}
			for p := range ex {
				c.Param = append(c.Param, p)
			}
			sort.Ints(c.Param)
			o.Callbacks = append(o.Callbacks, c)
		}
		sort.Slice(o.Callbacks, func(i, j int) bool { return fmt.Sprint(o.Callbacks[i]) < fmt.Sprint(o.Callbacks[j]) })
		for s := range fa.sum.assumed {
			o.Assumed = append(o.Assumed, s)
		}
		sort.Strings(o.Assumed)
		outs = append(outs, o)
	}
	sort.Slice(outs, func(i, j int) bool { return outs[i].Name < outs[j].Name })
	for i := 1; i < len(outs); i++ {
		if outs[i].Name == outs[i-1].Name {
			fmt.Fprintf(os.Stderr, "go2coq -effects: duplicate name %s\n", outs[i].Name)
			return 2
		}
	}
	if err := os.MkdirAll(out, 0o755); err != nil {
		fmt.Fprintf(os.Stderr, "go2coq -effects: %v\n", err)
		return 2
	}
	js, _ := json.MarshalIndent(map[string]interface{}{"translator": Version, "repo": repo, "rounds": rounds,
		"type_errors": len(ld.errs), "functions": outs}, "", " ")
	if err := os.WriteFile(filepath.Join(out, "effects.json"), js, 0o644); err != nil {
		fmt.Fprintf(os.Stderr, "go2coq -effects: %v\n", err)
		return 2
	}
	var b strings.Builder
	fmt.Fprintf(&b, "(* GENERATED by %s -effects from %s — do not edit.\n", Version, repo)
	b.WriteString("   Static may-write effAnalysis of the exported API (translator/effects.go).\n")
	b.WriteString("   gen_effects: name -> (written parameter positions (receiver = 0 for methods), writes a\n")
	b.WriteString("   package-level variable, unknown).  gen_effects_paths: the written access paths per position.\n")
	b.WriteString("   gen_effects_callbacks: (function-valued parameter, parameters whose memory it is handed).\n")
	b.WriteString("   Definitions only; positions and reasons are in effects.json. *)\n")
	b.WriteString("From Coq Require Import String List.\nImport ListNotations.\nOpen Scope string_scope.\n\n")
	natList := func(l []int) string {
		s := make([]string, len(l))
		for i, x := range l {
			s[i] = fmt.Sprint(x)
		}
		return "[" + strings.Join(s, "; ") + "]"
	}
	b.WriteString("Definition gen_effects : list (string * (list nat * bool * bool)) := [\n")
	for i, o := range outs {
		sep := ";"
		if i == len(outs)-1 {
			sep = ""
		}
		fmt.Fprintf(&b, "  (%s, (%s, %v, %v))%s\n", effCoqStr(o.Name), natList(o.Written), o.Global, o.Unknown, sep)
	}
	b.WriteString("].\n\nDefinition gen_effects_paths : list (string * list (nat * string)) := [\n")
	first := true
	for _, o := range outs {
		if len(o.Writes) == 0 {
			continue
		}
		var ws []string
		for _, w := range o.Writes {
			ws = append(ws, fmt.Sprintf("(%d, %s)", w.Param, effCoqStr(w.Path)))
		}
		if !first {
			b.WriteString(";\n")
		}
		first = false
		fmt.Fprintf(&b, "  (%s, [%s])", effCoqStr(o.Name), strings.Join(ws, "; "))
	}
	b.WriteString("\n].\n\nDefinition gen_effects_callbacks : list (string * list (nat * list nat)) := [\n")
	first = true
	for _, o := range outs {
		if len(o.Callbacks) == 0 {
			continue
		}
		var cs []string
		for _, c := range o.Callbacks {
			cs = append(cs, fmt.Sprintf("(%d, %s)", c.Func, natList(c.Param)))
		}
		if !first {
			b.WriteString(";\n")
		}
		first = false
		fmt.Fprintf(&b, "  (%s, [%s])", effCoqStr(o.Name), strings.Join(cs, "; "))
	}
	b.WriteString("\n].\n")
	if err := os.WriteFile(filepath.Join(out, "Gen_effects.v"), []byte(b.String()), 0o644); err != nil {
		fmt.Fprintf(os.Stderr, "go2coq -effects: %v\n", err)
		return 2
	}
	nu, ng := 0, 0
	for _, o := range outs {
		if o.Unknown {
			nu++
		}
		if o.Global {
			ng++
		}
	}
	fmt.Printf("{\"effects\":\"ok\",\"functions\":%d,\"unknown\":%d,\"global\":%d,\"rounds\":%d}\n", len(outs), nu, ng, rounds)
	return 0
}

func effCoqStr(s string) string { return "\"" + strings.Replace(s, "\"", "\"\"", -1) + "\"" }

#!/bin/bash
# translator/effects_selftest.sh — test of the C20 structural tie (go2coq -effects + coq/Tie/Effects.v).
#
#   pristine /repo            -> Tie/Effects.v checks, every theorem closed under the global context
#   harmless rewrites (H*)    -> still checks
#   breaking changes (B*)     -> Tie/Effects.v fails and the error NAMES the API function
# Scratch copies live under /tmp/ttie-effects-* and are removed at exit.  The translator is built
# into the scratch directory (build/go2coq is not touched).
set -u
ROOT="$(cd "$(dirname "$0")/.." && pwd)"; cd "$ROOT"
export GOFLAGS=-mod=mod GOPROXY=off GOSUMDB=off GOTOOLCHAIN=local
SRC="${VERIF_REPO:-/repo}"
fail=0
scratch=()
cleanup() { for d in "${scratch[@]}"; do rm -rf "$d"; done; }
trap cleanup EXIT

T="/tmp/ttie-effects-bin-$$"; rm -rf "$T"; mkdir -p "$T"; scratch+=("$T")
(cd translator && go build -o "$T/go2coq" .) || { echo "FAIL translator does not build"; exit 2; }

mk() {  # mk <name>: fresh scratch copy of the repo in $D
  D="/tmp/ttie-effects-$1-$$"
  rm -rf "$D"; cp -r "$SRC" "$D"; rm -rf "$D/.git"
  scratch+=("$D")
}

edit() {  # edit <file> <python expression over s>  (must change the file)
  python3 - "$1" "$2" <<'EOF'
import sys
p, expr = sys.argv[1], sys.argv[2]
s = open(p).read()
t = eval(expr)
assert t != s, "selftest edit did not apply to " + p
open(p, "w").write(t)
EOF
}

THEOREMS="tie_effects_failing_none tie_effects_not_known_none tie_effects_consistent tie_effects_all_known tie_effects_callbacks tie_effects_footprint tie_effects_readonly tie_effects_known"

runtie() {  # runtie <repo>: analysis + Coq in <repo>/.effects; output in $OUT, status in $ST (ok | tie_failed | analysis_failed)
  local repo="$1" g="$1/.effects"
  rm -rf "$g"; mkdir -p "$g"
  OUT=$("$T/go2coq" -effects -repo "$repo" -targets translator/targets.json -out "$g" 2>&1) || { ST=analysis_failed; return; }
  cp coq/Tie/Effects.v "$g/Tie_Effects.v"
  { echo "From MMGen Require Import Tie_Effects."; for t in $THEOREMS; do echo "Print Assumptions $t."; done; } > "$g/TieCheck_Effects.v"
  local o
  if o=$(cd "$g" && timeout 300 coqc -Q "$ROOT/coq" MM -Q . MMGen Gen_effects.v 2>&1 \
            && timeout 300 coqc -Q "$ROOT/coq" MM -Q . MMGen Tie_Effects.v 2>&1 \
            && timeout 300 coqc -Q "$ROOT/coq" MM -Q . MMGen TieCheck_Effects.v 2>&1); then
    OUT="$OUT"$'\n'"$o"
    local n; n=$(printf '%s\n' "$o" | grep -c "Closed under the global context")
    if [ "$n" = "$(echo $THEOREMS | wc -w)" ] && ! printf '%s\n' "$o" | grep -q "Axioms:"; then ST=ok; else ST=tie_failed; OUT="$OUT"$'\n'"(assumptions not closed)"; fi
  else
    OUT="$OUT"$'\n'"$o"; ST=tie_failed
  fi
}

expect() {  # expect <label> <repo> <status> [<substring of the output> ...]
  local label="$1" repo="$2" want="$3"; shift 3
  runtie "$repo"
  if [ "$ST" != "$want" ]; then echo "FAIL $label: status $ST, expected $want"; printf '%s\n' "$OUT" | tail -15; fail=1; return; fi
  local sub
  for sub in "$@"; do
    if ! printf '%s' "$OUT" | grep -q -- "$sub"; then echo "FAIL $label: output does not mention '$sub'"; printf '%s\n' "$OUT" | tail -15; fail=1; return; fi
  done
  echo "ok   $label: $ST${1:+ ($*)}"
}

echo "== pristine"
mk P
expect "P  pristine repository" "$D" ok

echo "== harmless rewrites"
mk H1
edit "$D/stats/sample.go" 's.replace("""		s = *s.Copy().Sort()
	}

	if s.Weights == nil {
		N := float64""", """		if s.Weights == nil {
			sorted := append([]float64(nil), s.Xs...)
			sort.Float64s(sorted)
			s = Sample{Xs: sorted, Sorted: true}
		} else {
			s = *s.Copy().Sort()
		}
	}

	if s.Weights == nil {
		N := float64""")'
expect "H1 Quantile: append([]float64(nil), s.Xs...) + local sort" "$D" ok
mk H2
edit "$D/stats/utest.go" 's.replace("""	x1 = append([]float64(nil), x1...)
	x2 = append([]float64(nil), x2...)
	sort.Float64s(x1)
	sort.Float64s(x2)
	merged, labels := labeledMerge(x1, x2)""", """	a := make([]float64, len(x1))
	copy(a, x1)
	b := make([]float64, 0, len(x2))
	for _, v := range x2 {
		b = append(b, v)
	}
	sort.Float64s(a)
	sort.Float64s(b)
	merged, labels := labeledMerge(a, b)""")'
expect "H2 MannWhitneyUTest: copies by make+copy / loop, renamed locals" "$D" ok
mk H3
edit "$D/graph/eq.go" 's.replace("""		sort.Ints(e1)
		sort.Ints(e2)""", """		s1, s2 := e1, e2
		sort.Ints(s2)
		sort.Ints(s1)""")'
expect "H3 graph.Equal: scratch halves sorted through aliases" "$D" ok

echo "== breaking changes"
mk B1
edit "$D/stats/sample.go" 's.replace("""		s = *s.Copy().Sort()
	}

	if s.Weights == nil {
		N := float64""", """		sort.Float64s(s.Xs)
		s.Sorted = true
	}

	if s.Weights == nil {
		N := float64""")'
expect "B1 Quantile sorts s.Xs in place" "$D" tie_failed "Unable to unify" '"stats.Sample.Quantile"'
mk B2
edit "$D/stats/utest.go" 's.replace("""	x1 = append([]float64(nil), x1...)
""", "")'
expect "B2 MannWhitneyUTest without the defensive copy of x1" "$D" tie_failed "Unable to unify" '"stats.MannWhitneyUTest"'
mk B3
edit "$D/mathx/choose.go" 's.replace("""func Lchoose(n, k int) float64 {""", """var lchooseCache = map[[2]int]float64{}

func Lchoose(n, k int) float64 {
	if v, ok := lchooseCache[[2]int{n, k}]; ok {
		return v
	}
	lchooseCache[[2]int{n, k}] = lchoose(n, k)""")'
expect "B3 Lchoose memoises in a package-level map" "$D" tie_failed "Unable to unify" '"mathx.Lchoose"'
mk B4
edit "$D/stats/kde.go" 's.replace("""		wys := Sample{Xs: ys, Weights: kde.Sample.Weights}

		return wys.Sum() / wys.Weight()""", """		wys := Sample{Xs: ys, Weights: kde.Sample.Weights}
		wp := &wys
		wp.Weights[0] = 1

		return wys.Sum() / wys.Weight()""", 1)'
expect "B4 KDE.PDF normalises the caller's weights through an alias" "$D" tie_failed "Unable to unify" '"stats.KDE.PDF"'
mk B5
edit "$D/stats/sample.go" 's.replace("""func Mean(xs []float64) float64 {""", """var MeanHook func([]float64)

func Mean(xs []float64) float64 {
	if MeanHook != nil {
		MeanHook(xs)
	}""")'
expect "B5 Mean hands xs to a package-level function value (unknown)" "$D" tie_failed "Unable to unify" '"stats.Mean"'
mk B6
edit "$D/vec/vec.go" 's.replace("""	out := make([]float64, total)
	pos := 0
	for _, xs := range xss {
		pos += copy(out[pos:], xs)
	}
	return out""", """	if total == 0 {
		return nil
	}
	out := xss[0]
	for _, xs := range xss[1:] {
		out = append(out, xs...)
	}
	return out""")'
expect "B6 vec.Concat appends into the first argument's spare capacity" "$D" tie_failed "Unable to unify" '"vec.Concat"'
mk B7
edit "$D/graph/eq.go" 's.replace("""		e1, e2 = temp[:len(e1)], temp[len(e1):]""", """		e2 = temp[len(e1):]""")'
expect "B7 graph.Equal sorts g1's adjacency list itself" "$D" tie_failed "Unable to unify" '"graph.Equal"'
mk B8
edit "$D/vec/vec.go" 's.replace("func Sum(xs []float64) float64 {", "func Total(xs []float64) float64 {")'
edit "$D/stats/sample.go" 's.replace("vec.Sum(", "vec.Total(")'
expect "B8 vec.Sum renamed: the table entry is missing from gen_effects" "$D" tie_failed "Unable to unify" '"vec.Sum"'

if [ $fail = 0 ]; then echo "effects selftest: all expectations met"; else echo "effects selftest: FAILURES"; fi
exit $fail

package main

// Loops that are not counting loops ("for cond { ... }", "for init; cond; post { ... }" in
// general) are translated with EXPLICIT FUEL: the generated definition takes (fuel : nat),
// returns option, and every such loop is  go_while fuel cond body state  (Base/GoSem.v), which
// is None when the condition still holds after fuel iterations.  Functions that call such
// functions are fueled too (the same fuel is handed to every loop and callee).

import (
	"fmt"
	"go/ast"
	"go/constant"
	"go/token"
	"go/types"
	"strings"
)

// calledFunc: the statically known function or method a call expression calls (nil for
// conversions, builtins, function values).
func (c *fctx) calledFunc(x *ast.CallExpr) *types.Func {
	if tv := c.info.Types[x.Fun]; tv.IsType() {
		return nil
	}
	switch fn := unparen(x.Fun).(type) {
	case *ast.Ident:
		f, _ := c.info.Uses[fn].(*types.Func)
		return f
	case *ast.SelectorExpr:
		if sel, ok := c.info.Selections[fn]; ok {
			f, _ := sel.Obj().(*types.Func)
			return f
		}
		f, _ := c.info.Uses[fn.Sel].(*types.Func)
		return f
	}
	return nil
}

// fueledCallee: the translated unit of a call if that unit takes fuel (nil otherwise).
func (c *fctx) fueledCallee(x *ast.CallExpr) *unit {
	f := c.calledFunc(x)
	if f == nil {
		return nil
	}
	if _, isOpaque := c.opaqueName(f); isOpaque {
		return nil
	}
	if f.Pkg() == nil || c.t.ld.pkgs[f.Pkg().Path()] == nil {
		return nil
	}
	if _, ok := c.t.ld.pkgs[f.Pkg().Path()].decls[f]; !ok {
		return nil
	}
	cu := c.callee(f, x.Pos())
	if cu != nil && cu.fueled {
		return cu
	}
	return nil
}

// needsFuel: the node contains a non-counting for loop or a call of a fueled function.
func (c *fctx) needsFuel(n ast.Node) bool {
	found := false
	ast.Inspect(n, func(n ast.Node) bool {
		if found {
			return false
		}
		switch x := n.(type) {
		case *ast.FuncLit:
			return false
		case *ast.ForStmt:
			if c.countingForm(x) == nil {
				found = true
			}
		case *ast.CallExpr:
			if c.fueledCallee(x) != nil || c.recClosureOf(x) != nil {
				found = true
			}
		}
		return true
	})
	return found
}

func (c *fctx) containsFueled(n ast.Node) bool {
	if n == nil || !c.u.fueled {
		return false
	}
	return c.needsFuel(n)
}

// effectiveResults: the result types of the function; a result declared interface{} (or any
// interface) all of whose return statements yield values of ONE concrete static type has that
// type (the dynamic type is then statically known, and x.(T) on the call is the identity).
func (c *fctx) effectiveResults(d *ast.FuncDecl, sig *types.Signature) []types.Type {
	out := make([]types.Type, sig.Results().Len())
	for i := range out {
		out[i] = sig.Results().At(i).Type()
	}
	for i := range out {
		if !isInterface(out[i]) || isErrorType(out[i]) {
			continue
		}
		var conc types.Type
		bad := token.NoPos
		ast.Inspect(d.Body, func(n ast.Node) bool {
			switch r := n.(type) {
			case *ast.FuncLit:
				return false
			case *ast.ReturnStmt:
				if len(r.Results) != len(out) {
					bad = r.Pos()
					return false
				}
				t := c.resultTypeOf(r.Results[i])
				if t == nil || isInterface(t) {
					bad = r.Pos()
				} else if conc == nil {
					conc = t
				} else if !types.Identical(conc, t) {
					bad = r.Pos()
				}
			}
			return true
		})
		if bad != token.NoPos || conc == nil {
			p := d.Pos()
			if bad != token.NoPos {
				p = bad
			}
			c.fail(p, "interface-typed result %d whose dynamic type is not the same concrete type at every return", i)
		}
		out[i] = conc
	}
	return out
}

// resultTypeOf: static type of e, looking through calls of module functions with an
// interface result of known concrete type.
func (c *fctx) resultTypeOf(e ast.Expr) types.Type {
	if call, ok := unparen(e).(*ast.CallExpr); ok {
		if f := c.calledFunc(call); f != nil && f.Pkg() != nil && c.t.ld.pkgs[f.Pkg().Path()] != nil {
			if _, has := c.t.ld.pkgs[f.Pkg().Path()].decls[f]; has {
				if _, isOpaque := c.opaqueName(f); !isOpaque {
					cu := c.callee(f, call.Pos())
					if cu != nil && len(cu.resTys) == 1 {
						return cu.resTys[0]
					}
				}
			}
		}
	}
	return c.info.TypeOf(e)
}

// typeAssert: x.(T) is supported only where the dynamic type of x is statically known to be T.
func (c *fctx) typeAssert(x *ast.TypeAssertExpr) string {
	if x.Type == nil {
		c.fail(x.Pos(), "type switch")
	}
	want := c.info.TypeOf(x.Type)
	got := c.resultTypeOf(x.X)
	if got == nil || isInterface(got) || !types.Identical(got, want) {
		c.fail(x.Pos(), "type assertion on a value whose dynamic type is not statically known to be %s", want)
	}
	return c.expr(x.X)
}

// statePattern: binder for a tuple of state variables in a fun.
func statePattern(names []string) string {
	if len(names) == 0 {
		return "_"
	}
	return pattern(names)
}

func stateTuple(xs []string) string {
	if len(xs) == 0 {
		return "tt"
	}
	return tuple(xs)
}

// inCtl runs f with return / out-of-fuel continuations that produce go_ctl values.
func (c *fctx) inCtl(f func() string) string {
	oldW, oldF, oldTy := c.retWrap, c.fuelOut, c.retTy
	c.retWrap = func(r string) string { return "(Go_ret " + r + ")" }
	c.fuelOut = func() string { return "Go_fuel" }
	c.retTy = "?"
	out := f()
	c.retWrap, c.fuelOut, c.retTy = oldW, oldF, oldTy
	return out
}

// whileStmt: [init;] for cond { body; post }  with explicit fuel.
func (c *fctx) whileStmt(s *ast.ForStmt, next func() string) string {
	if !c.u.fueled || c.fuelOut == nil {
		c.fail(s.Pos(), "for loop that is not a counting loop, in a context without fuel")
	}
	pre := ""
	if s.Init != nil {
		pre = c.stmts([]ast.Stmt{s.Init}, func() string { return "\x00" })
		if !strings.HasSuffix(pre, "\x00") || strings.Count(pre, "\x00") != 1 {
			c.fail(s.Init.Pos(), "for-loop initialiser")
		}
		pre = strings.TrimSuffix(pre, "\x00")
	}
	c.loopBodyCheck(s.Body)
	ast.Inspect(s.Body, func(n ast.Node) bool {
		if fl, ok := n.(*ast.FuncLit); ok {
			c.fail(fl.Pos(), "function literal (closure) inside a loop")
		}
		return true
	})
	if c.containsPanic(s.Body) {
		c.fail(s.Body.Pos(), "panic inside a loop body")
	}
	list := append([]ast.Stmt{}, s.Body.List...)
	if s.Post != nil {
		list = append(list, s.Post)
	}
	blk := &ast.BlockStmt{Lbrace: s.Body.Lbrace, List: list, Rbrace: s.Body.Rbrace}
	w := c.assigned(blk)
	if s.Cond != nil && c.needsFuel(s.Cond) {
		c.fail(s.Cond.Pos(), "loop condition that calls a function with fuel")
	}
	saved := c.copyEnv()
	var initXs []string
	for _, k := range w {
		initXs = append(initXs, saved[k])
	}
	// condition over the state
	c.env = copyMap(saved)
	var cn []string
	for _, k := range w {
		cn = append(cn, c.bindKey(k))
	}
	cond := "true"
	if s.Cond != nil {
		cond = c.expr(s.Cond)
	}
	// body over the state
	c.env = copyMap(saved)
	var bn []string
	for _, k := range w {
		bn = append(bn, c.bindKey(k))
	}
	wt := func() string {
		var xs []string
		for _, k := range w {
			xs = append(xs, c.env[k])
		}
		return stateTuple(xs)
	}
	simple := !containsReturn(blk) && !c.containsFueled(blk)
	oldCont := c.contK
	c.contK = nil // continue in a for-cond loop would have to run the post statement: refused
	defer func() { c.contK = oldCont }()
	var body string
	if simple {
		body = c.stmts(list, wt)
	} else {
		body = c.inCtl(func() string {
			return c.stmts(list, func() string { return "(Go_next " + wt() + ")" })
		})
	}
	c.env = copyMap(saved)
	var names []string
	for _, k := range w {
		names = append(names, c.bindKey(k))
	}
	np := "_"
	if len(names) > 0 {
		np = tuple(names)
	}
	// a loop without condition ends only by return (or not at all): what follows it is
	// unreachable, and so is the Go_next / Some branch below (the condition is constantly true)
	rest := ""
	if s.Cond == nil {
		rest = c.fuelOut()
	} else {
		rest = next()
	}
	if simple {
		return pre + fmt.Sprintf("match go_while fuel\n    (fun %s => %s)\n    (fun %s =>\n%s)\n    %s with\n| None => %s\n| Some %s =>\n%s\nend",
			statePattern(cn), cond, statePattern(bn), indent(body, "      "), stateTuple(initXs), c.fuelOut(), np, indent(rest, "  "))
	}
	rv := c.fresh("r")
	return pre + fmt.Sprintf("match go_while_ctl (R := %s) fuel\n    (fun %s => %s)\n    (fun %s =>\n%s)\n    %s with\n| Go_fuel => %s\n| Go_ret %s => %s\n| Go_next %s =>\n%s\nend",
		c.rawTy, statePattern(cn), cond, statePattern(bn), indent(body, "      "), stateTuple(initXs), c.fuelOut(), rv, c.retWrap(rv), np, indent(rest, "  "))
}

// loopCtl: a range / counting loop whose body contains loops with fuel or calls of fueled
// functions (and possibly returns):  go_fold_ctl body items state.
func (c *fctx) loopCtl(body *ast.BlockStmt, items string, itemPat func() string, next func() string) string {
	if c.fuelOut == nil {
		c.fail(body.Pos(), "loop with fuel in a context without fuel")
	}
	w := c.assigned(body)
	saved := c.copyEnv()
	c.env = copyMap(saved)
	var initXs []string
	for _, k := range w {
		initXs = append(initXs, saved[k])
	}
	var bn []string
	for _, k := range w {
		bn = append(bn, c.bindKey(k))
	}
	ip := itemPat()
	wt := func() string {
		var xs []string
		for _, k := range w {
			xs = append(xs, c.env[k])
		}
		return stateTuple(xs)
	}
	oldCont := c.contK
	c.contK = func() string { return "(Go_next " + wt() + ")" }
	b := c.inCtl(func() string {
		return c.stmts(body.List, func() string { return "(Go_next " + wt() + ")" })
	})
	c.contK = oldCont
	c.env = copyMap(saved)
	var names []string
	for _, k := range w {
		names = append(names, c.bindKey(k))
	}
	np := "_"
	if len(names) > 0 {
		np = tuple(names)
	}
	rv := c.fresh("r")
	rest := next()
	return fmt.Sprintf("match go_fold_ctl (R := %s)\n    (fun %s %s =>\n%s)\n    %s %s with\n| Go_fuel => %s\n| Go_ret %s => %s\n| Go_next %s =>\n%s\nend",
		c.rawTy, statePattern(bn), ip, indent(b, "      "), items, stateTuple(initXs), c.fuelOut(), rv, c.retWrap(rv), np, indent(rest, "  "))
}

// fueledCallStmt: statements whose right-hand side is ONE call of a fueled function:
//   x, y := f(a)   x = f(a)   return f(a)   recv.M(a)
// become  match gen_f ... fuel ... with None => <out of fuel> | Some pat => ... end.
// Returns ok == false when the statement has no fueled call at its top.
func (c *fctx) fueledAssign(s *ast.AssignStmt, next func() string) (string, bool) {
	if len(s.Rhs) != 1 || (s.Tok != token.ASSIGN && s.Tok != token.DEFINE) {
		return "", false
	}
	call, ok := unparen(s.Rhs[0]).(*ast.CallExpr)
	if !ok {
		return "", false
	}
	cu := c.fueledCallee(call)
	if cu == nil {
		return "", false
	}
	f := c.calledFunc(call)
	term, mut := c.fueledCallTerm(cu, call, f)
	var names []string
	out := ""
	if mut != nil {
		tmp := c.fresh(mut.Name())
		names = append(names, tmp)
		out += c.writeWhole(mut, c.recOf(mut), tmp)
	}
	if f.Type().(*types.Signature).Results().Len() != len(s.Lhs) {
		c.fail(s.Pos(), "assignment count mismatch")
	}
	tmps := make([]string, len(s.Lhs))
	for i := range tmps {
		tmps[i] = c.fresh("t")
		names = append(names, tmps[i])
	}
	for i, l := range s.Lhs {
		out += c.store(l, tmps[i])
	}
	return fmt.Sprintf("match %s with\n| None => %s\n| Some %s =>\n%s\nend", term, c.fuelOut(), matchPattern(names), indent(out+next(), "  ")), true
}

func matchPattern(names []string) string {
	if len(names) == 1 {
		return names[0]
	}
	return "(" + strings.Join(names, ", ") + ")"
}

// fueledCallTerm: the application of a fueled callee; mut is the struct variable the callee
// updates through its pointer receiver (its new value is the first component of the result).
func (c *fctx) fueledCallTerm(cu *unit, call *ast.CallExpr, f *types.Func) (term string, mut types.Object) {
	if c.fuelOut == nil {
		c.fail(call.Pos(), "call of %s, which takes fuel, in a context without fuel", cu.key)
	}
	recv := ""
	if sel, ok := unparen(call.Fun).(*ast.SelectorExpr); ok {
		if _, isSel := c.info.Selections[sel]; isSel {
			recv = c.expr(sel.X)
			if len(cu.mutated) > 0 {
				if len(cu.mutated) != 1 || cu.mutated[0] != f.Type().(*types.Signature).Recv() {
					c.fail(call.Pos(), "call of %s, which writes through a pointer parameter other than its receiver", cu.key)
				}
				mut = c.baseVar(sel.X)
				if mut == nil || c.recOf(mut) == nil {
					c.fail(call.Pos(), "method call that updates something other than a struct variable")
				}
			}
		}
	}
	if mut == nil && len(cu.mutated) > 0 {
		c.fail(call.Pos(), "call of %s, which writes through a pointer parameter", cu.key)
	}
	return c.callTerm(cu, recv, call, f), mut
}

func (c *fctx) isParam(v *types.Var) bool {
	// (of the function being translated, also from inside its function literals)
	sig := c.u.obj.Type().(*types.Signature)
	if sig.Recv() == v {
		return true
	}
	for i := 0; i < sig.Params().Len(); i++ {
		if sig.Params().At(i) == v {
			return true
		}
	}
	return false
}

// ifaceArg: the actual value of the callee's opaque interface-method parameter o at this call.
// The callee calls o.method on its interface-typed parameter o.ifaceVar.  If the argument
// passed for that parameter has a concrete (struct) type, the method is statically known: the
// concrete method is translated and partially applied (devirtualisation).  If the argument is
// itself an interface-typed parameter of the caller, the caller gets the same opaque parameter.
func (c *fctx) ifaceArg(cu *unit, o opq, call *ast.CallExpr, f *types.Func) string {
	sig := f.Type().(*types.Signature)
	idx := -1
	for i := 0; i < sig.Params().Len(); i++ {
		if sig.Params().At(i) == o.ifaceVar {
			idx = i
		}
	}
	if idx < 0 || idx >= len(call.Args) {
		c.fail(call.Pos(), "call of %s: its opaque interface method %s is not called on one of its parameters", cu.key, o.name)
	}
	arg := call.Args[idx]
	at := c.info.TypeOf(arg)
	if isInterface(at) {
		id, isId := unparen(arg).(*ast.Ident)
		var v *types.Var
		if isId {
			v, _ = c.info.Uses[id].(*types.Var)
		}
		if v == nil || !c.isParam(v) {
			c.fail(arg.Pos(), "interface value passed to %s that is not a parameter", cu.key)
		}
		c.addOpq(opq{name: o.name, typ: o.typ, ifaceVar: v, method: o.method}, call.Pos())
		return o.name
	}
	obj, _, _ := types.LookupFieldOrMethod(at, true, o.method.Pkg(), o.method.Name())
	m, ok := obj.(*types.Func)
	if !ok {
		c.fail(arg.Pos(), "no method %s on the argument of type %s", o.method.Name(), at)
	}
	if _, isOpaque := c.opaqueName(m); isOpaque {
		c.fail(arg.Pos(), "devirtualised method %s is itself opaque", funcKey(m))
	}
	mu := c.callee(m, arg.Pos())
	if mu == nil {
		c.fail(arg.Pos(), "method %s of %s has no source in the module", m.Name(), at)
	}
	if mu.fueled || len(mu.mutated) > 0 {
		c.fail(arg.Pos(), "method %s (passed through the interface parameter of %s) takes fuel or updates its receiver", mu.key, cu.key)
	}
	msig := m.Type().(*types.Signature)
	parts := []string{mu.coqName}
	for _, mo := range mu.opaque {
		if mo.ifaceVar != nil {
			c.fail(arg.Pos(), "method %s has an opaque interface parameter of its own", mu.key)
		}
		c.addOpq(mo, call.Pos())
		parts = append(parts, mo.name)
	}
	parts = append(parts, c.expr(arg))
	var as []string
	for i := 0; i < msig.Params().Len(); i++ {
		if isInterface(msig.Params().At(i).Type()) {
			c.fail(arg.Pos(), "method %s has an interface parameter", mu.key)
		}
		as = append(as, fmt.Sprintf("a%d_", i+1))
	}
	parts = append(parts, as...)
	// the opaque parameter's type must be the type of the lambda
	var tys []string
	for i := 0; i < msig.Params().Len(); i++ {
		tys = append(tys, c.coqTy(c.typeOf(msig.Params().At(i).Type(), arg.Pos()), arg.Pos()))
	}
	var rs []string
	for i := range mu.resTys {
		rs = append(rs, c.coqTy(c.typeOf(mu.resTys[i], arg.Pos()), arg.Pos()))
	}
	tys = append(tys, strings.Join(rs, " * "))
	if got := strings.Join(tys, " -> "); got != o.typ {
		c.fail(arg.Pos(), "method %s has type %s where %s expects %s", mu.key, got, cu.key, o.typ)
	}
	if len(as) == 0 {
		return "(" + strings.Join(parts, " ") + ")"
	}
	return "(fun " + strings.Join(as, " ") + " => " + strings.Join(parts, " ") + ")"
}

// inPlaceOpaque: a statement call f(xs) of an opaque function without results whose single
// argument is a slice variable (sort.Float64s): xs becomes (f xs).
func (c *fctx) inPlaceOpaque(call *ast.CallExpr) (types.Object, string, string) {
	f := c.calledFunc(call)
	if f == nil {
		return nil, "", ""
	}
	name, ok := c.opaqueName(f)
	if !ok {
		return nil, "", ""
	}
	sig := f.Type().(*types.Signature)
	if sig.Results().Len() != 0 || sig.Recv() != nil || len(call.Args) != 1 {
		return nil, "", ""
	}
	id, isId := unparen(call.Args[0]).(*ast.Ident)
	if !isId {
		c.fail(call.Pos(), "opaque in-place function %s applied to something other than a slice variable", name)
	}
	o := c.info.Uses[id]
	t := c.typeOf(c.info.TypeOf(id), id.Pos())
	if o == nil || t.k != kSlice || !c.known(o) {
		c.fail(call.Pos(), "opaque in-place function %s applied to something other than a local slice variable", name)
	}
	lt := c.coqTy(t, id.Pos())
	c.addOpq(opq{name: name, typ: lt + " -> " + lt}, call.Pos())
	return o, name, c.expr(id)
}

// exactValue: go/types rounds a constant that is converted to float64 to the nearest double
// (1e-10 becomes 7737125245533627 / 2^86).  The T-tie reads float64 as exact rationals and
// ignores the rounding of every operation AND of every literal, so a constant expression is
// re-evaluated exactly from its literals (1e-10 is 1/10^10) where that is possible; the result
// must round to the value go/types computed.  Otherwise the go/types value is used.
func (c *fctx) exactValue(e ast.Expr, v constant.Value) constant.Value {
	if v.Kind() != constant.Float {
		return v
	}
	x := c.exactConst(e)
	if x == nil {
		return v
	}
	a, _ := constant.Float64Val(x)
	b, _ := constant.Float64Val(v)
	if a != b {
		return v
	}
	return x
}

func (c *fctx) exactConst(e ast.Expr) constant.Value {
	switch x := e.(type) {
	case *ast.ParenExpr:
		return c.exactConst(x.X)
	case *ast.BasicLit:
		if x.Kind == token.FLOAT || x.Kind == token.INT {
			v := constant.MakeFromLiteral(x.Value, x.Kind, 0)
			if v.Kind() == constant.Unknown {
				return nil
			}
			return v
		}
	case *ast.Ident:
		if k, ok := c.info.Uses[x].(*types.Const); ok {
			return numConst(k.Val())
		}
	case *ast.SelectorExpr:
		if k, ok := c.info.Uses[x.Sel].(*types.Const); ok {
			return numConst(k.Val())
		}
	case *ast.UnaryExpr:
		a := c.exactConst(x.X)
		if a == nil {
			return nil
		}
		switch x.Op {
		case token.ADD:
			return a
		case token.SUB:
			return constant.UnaryOp(token.SUB, a, 0)
		}
	case *ast.BinaryExpr:
		a, b := c.exactConst(x.X), c.exactConst(x.Y)
		if a == nil || b == nil {
			return nil
		}
		switch x.Op {
		case token.ADD, token.SUB, token.MUL:
			return constant.BinaryOp(a, x.Op, b)
		case token.QUO:
			// integer division of integer constants is not the rational quotient
			if t, ok := c.info.TypeOf(x).Underlying().(*types.Basic); !ok || t.Info()&types.IsInteger != 0 {
				return nil
			}
			if constant.Sign(b) == 0 {
				return nil
			}
			return constant.BinaryOp(constant.ToFloat(a), token.QUO, constant.ToFloat(b))
		}
	case *ast.CallExpr:
		// float64(k)
		if tv := c.info.Types[x.Fun]; tv.IsType() && len(x.Args) == 1 {
			if t, ok := tv.Type.Underlying().(*types.Basic); ok && t.Info()&types.IsFloat != 0 {
				return c.exactConst(x.Args[0])
			}
		}
	}
	return nil
}

func numConst(v constant.Value) constant.Value {
	if v.Kind() == constant.Int || v.Kind() == constant.Float {
		return v
	}
	return nil
}

// copyCall: the statement copy(dst, src) where dst is a local slice variable.
func (c *fctx) copyCall(call *ast.CallExpr) (types.Object, string, string, bool) {
	id, ok := call.Fun.(*ast.Ident)
	if !ok || len(call.Args) != 2 {
		return nil, "", "", false
	}
	if b, isB := c.info.Uses[id].(*types.Builtin); !isB || b.Name() != "copy" {
		return nil, "", "", false
	}
	did, isId := unparen(call.Args[0]).(*ast.Ident)
	if !isId {
		c.fail(call.Pos(), "copy into something other than a slice variable")
	}
	o := c.info.Uses[did]
	t := c.typeOf(c.info.TypeOf(did), did.Pos())
	if o == nil || t.k != kSlice || !c.known(o) {
		c.fail(call.Pos(), "copy into something other than a local slice variable")
	}
	if st := c.typeOf(c.info.TypeOf(call.Args[1]), call.Pos()); st.k != kSlice {
		c.fail(call.Pos(), "copy from a non-slice")
	}
	return o, c.expr(did), c.expr(call.Args[1]), true
}

// ifaceParams: the number of interface-typed parameters of the function (the error type
// excluded) and the 1-based position of v among them.  With more than one, the opaque
// parameters that stand for their methods are named <name>_<position>.
func (c *fctx) ifaceParams(v *types.Var) (n, idx int) {
	var all []*types.Var
	if r := c.sig.Recv(); r != nil {
		all = append(all, r)
	}
	for i := 0; i < c.sig.Params().Len(); i++ {
		all = append(all, c.sig.Params().At(i))
	}
	for _, p := range all {
		if isInterface(p.Type()) && !isErrorType(p.Type()) {
			n++
			if p == v {
				idx = n
			}
		}
	}
	return
}

// funcLit: a function literal  func(params) results { body }  as a Gallina fun.  Go closures
// capture variables by reference, the fun captures the current VALUES: every captured local
// variable must therefore not be assigned after the literal (in source order), and the literal
// must not stand inside a loop.  The body may not contain loops with fuel.
func (c *fctx) funcLit(x *ast.FuncLit) string {
	sig, ok := c.info.TypeOf(x).(*types.Signature)
	if !ok {
		c.fail(x.Pos(), "function literal")
	}
	if c.inLoop > 0 {
		c.fail(x.Pos(), "function literal (closure) inside a loop")
	}
	if sig.Variadic() || sig.Results().Len() == 0 {
		c.fail(x.Pos(), "function literal that is variadic or has no result")
	}
	if c.needsFuel(x.Body) {
		c.fail(x.Pos(), "function literal whose body contains a loop with fuel")
	}
	c.captureCheck(x, nil)
	// a nested translation context
	oSig, oK, oW, oF, oTy, oRaw, oRes := c.sig, c.retK, c.retWrap, c.fuelOut, c.retTy, c.rawTy, c.resTys
	saved := c.copyEnv()
	defer func() {
		c.sig, c.retK, c.retWrap, c.fuelOut, c.retTy, c.rawTy, c.resTys = oSig, oK, oW, oF, oTy, oRaw, oRes
		c.env = saved
	}()
	c.sig = sig
	c.resTys = make([]types.Type, sig.Results().Len())
	var rts []string
	for i := range c.resTys {
		c.resTys[i] = sig.Results().At(i).Type()
		rts = append(rts, c.coqTy(c.typeOf(c.resTys[i], x.Pos()), x.Pos()))
		if n := sig.Results().At(i).Name(); n != "" && n != "_" {
			c.fail(x.Pos(), "function literal with named results")
		}
	}
	c.rawTy = strings.Join(rts, " * ")
	c.retTy = c.rawTy
	c.retWrap = func(r string) string { return r }
	c.fuelOut = nil
	c.retK = func(vals []string) string { return tuple(vals) }
	var binders []string
	for i := 0; i < sig.Params().Len(); i++ {
		v := sig.Params().At(i)
		t := c.typeOf(v.Type(), x.Pos())
		name := v.Name()
		if name == "" || name == "_" {
			name = "unused"
		}
		pn := c.fresh(name)
		if t.k == kRec {
			c.writeWhole(v, c.record(t.rec, x.Pos()), pn)
		} else {
			c.env[envKey{v, ""}] = pn
		}
		binders = append(binders, fmt.Sprintf("(%s : %s)", pn, c.coqTy(t, x.Pos())))
	}
	body := c.stmts(x.Body.List, func() string {
		c.fail(x.Body.Rbrace, "control reaches the end of a function literal with results")
		return ""
	})
	return fmt.Sprintf("(fun %s =>\n%s)", strings.Join(binders, " "), indent(body, "  "))
}

// ifaceResult: component i of the multi-valued opaque call rhs is an interface value that is
// bound (with :=) to the fresh local variable l.  Such a value has no Gallina counterpart;
// the variable may only be used as the receiver of opaque method calls, which become
// uninterpreted parameters ("for every kernel that prepare() may return").
func (c *fctx) ifaceResult(rhs ast.Expr, i int, l ast.Expr) bool {
	call, ok := unparen(rhs).(*ast.CallExpr)
	if !ok {
		return false
	}
	f := c.calledFunc(call)
	if f == nil {
		return false
	}
	if _, isOpaque := c.opaqueName(f); !isOpaque {
		return false
	}
	sig := f.Type().(*types.Signature)
	if i >= sig.Results().Len() || sig.Results().Len() < 2 {
		return false
	}
	rt := sig.Results().At(i).Type()
	if !isInterface(rt) || isErrorType(rt) {
		return false
	}
	id, isId := l.(*ast.Ident)
	if !isId {
		c.fail(l.Pos(), "interface result of an opaque call assigned to something other than a new variable")
	}
	if id.Name == "_" {
		return true
	}
	v, _ := c.info.Defs[id].(*types.Var)
	if v == nil {
		c.fail(l.Pos(), "interface result of an opaque call assigned to an existing variable")
	}
	// never assigned again
	n := 0
	ast.Inspect(c.u.decl.Body, func(nd ast.Node) bool {
		if as, ok := nd.(*ast.AssignStmt); ok {
			for _, x := range as.Lhs {
				if xi, ok := x.(*ast.Ident); ok && (c.info.Defs[xi] == v || c.info.Uses[xi] == v) {
					n++
				}
			}
		}
		return true
	})
	if n != 1 {
		c.fail(l.Pos(), "interface variable %s is assigned more than once", id.Name)
	}
	c.ifaceLocals[v] = true
	return true
}

// sliceExpr: a[lo:hi] (also a[lo:], a[:hi]) as a VALUE: go_slice a lo hi.  Go shares the backing
// array; here the result is an independent list, so a variable bound to a slice expression must
// never be written through (checked), and three-index slices are refused.
func (c *fctx) sliceExpr(x *ast.SliceExpr) string {
	if x.Slice3 {
		c.fail(x.Pos(), "three-index slice expression")
	}
	t := c.typeOf(c.info.TypeOf(x.X), x.Pos())
	if t.k != kSlice {
		c.fail(x.Pos(), "slice expression on something other than a slice")
	}
	// the sliced variable and any variable the result is bound to must not be written in this function
	ast.Inspect(c.u.decl.Body, func(n ast.Node) bool {
		if as, ok := n.(*ast.AssignStmt); ok {
			for i, r := range as.Rhs {
				if unparen(r) == ast.Expr(x) && i < len(as.Lhs) {
					if id, isId := as.Lhs[i].(*ast.Ident); isId {
						v := c.info.Defs[id]
						if v == nil {
							v = c.info.Uses[id]
						}
						c.noIndexWrites(v, id.Name)
					} else {
						c.fail(as.Pos(), "slice expression stored into something other than a variable")
					}
				}
			}
		}
		return true
	})
	a := c.expr(x.X)
	lo, hi := "(0)%Z", fmt.Sprintf("(go_len %s)", a)
	if x.Low != nil {
		lo = c.indexTerm(x.Low)
	}
	if x.High != nil {
		hi = c.indexTerm(x.High)
	}
	return fmt.Sprintf("(go_slice %s %s %s)", a, lo, hi)
}

// noIndexWrites: variable v is never the root of an indexed assignment, copy target or in-place sort.
func (c *fctx) noIndexWrites(v types.Object, name string) {
	if v == nil {
		return
	}
	ast.Inspect(c.u.decl.Body, func(n ast.Node) bool {
		switch s := n.(type) {
		case *ast.AssignStmt:
			for _, l := range s.Lhs {
				if _, isIdx := unparen(l).(*ast.IndexExpr); isIdx && c.rootVar(l) == v {
					c.fail(l.Pos(), "write through %s, which is bound to a slice expression (sub-slices share memory in Go)", name)
				}
			}
		case *ast.IncDecStmt:
			if _, isIdx := unparen(s.X).(*ast.IndexExpr); isIdx && c.rootVar(s.X) == v {
				c.fail(s.Pos(), "write through %s, which is bound to a slice expression", name)
			}
		case *ast.ExprStmt:
			if call, ok := s.X.(*ast.CallExpr); ok {
				for _, a := range call.Args {
					if c.rootVar(a) == v {
						c.fail(s.Pos(), "%s, which is bound to a slice expression, is passed to a call statement", name)
					}
				}
			}
		}
		return true
	})
}

// inPlaceOpaqueLit: the statement f(&T{a, b, ...}) of an opaque function without results whose
// argument is a struct literal made of local slice variables (sort.Sort(&pairSlice{xs, ys})):
// the variables become the fields of (f (mk_T a b ...)).
func (c *fctx) inPlaceOpaqueLit(call *ast.CallExpr) (string, bool) {
	f := c.calledFunc(call)
	if f == nil || len(call.Args) != 1 {
		return "", false
	}
	name, ok := c.opaqueName(f)
	if !ok || f.Type().(*types.Signature).Results().Len() != 0 {
		return "", false
	}
	ue, ok := unparen(call.Args[0]).(*ast.UnaryExpr)
	if !ok || ue.Op != token.AND {
		return "", false
	}
	cl, ok := unparen(ue.X).(*ast.CompositeLit)
	if !ok {
		return "", false
	}
	t := c.typeOf(c.info.TypeOf(cl), cl.Pos())
	if t.k != kRec {
		c.fail(call.Pos(), "opaque in-place function %s applied to the address of a non-struct literal", name)
	}
	r := c.record(t.rec, cl.Pos())
	if len(r.omitted) > 0 || len(cl.Elts) != len(r.fields) {
		c.fail(call.Pos(), "opaque in-place function %s: the struct literal must give every field", name)
	}
	var vars []types.Object
	for _, el := range cl.Elts {
		if _, isKV := el.(*ast.KeyValueExpr); isKV {
			c.fail(el.Pos(), "opaque in-place function %s: keyed struct literal", name)
		}
		id, isId := unparen(el).(*ast.Ident)
		if !isId {
			c.fail(el.Pos(), "opaque in-place function %s: the struct literal must consist of slice variables", name)
		}
		o := c.info.Uses[id]
		if o == nil || !c.known(o) {
			c.fail(el.Pos(), "opaque in-place function %s: %s is not a local variable", name, id.Name)
		}
		vars = append(vars, o)
	}
	arg := c.expr(cl)
	rt := r.name + "_rec"
	c.addOpq(opq{name: name, typ: rt + " -> " + rt}, call.Pos())
	tmp := c.fresh("sorted")
	out := fmt.Sprintf("let %s := (%s %s) in\n", tmp, name, arg)
	for i, o := range vars {
		n := c.bind(o, o.Name())
		out += fmt.Sprintf("let %s := (%s_%s %s) in\n", n, r.name, r.fields[i].name, tmp)
	}
	return out, true
}

module go2coq

go 1.22

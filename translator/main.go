// go2coq — translate a small, precisely delimited subset of Go into Gallina definitions.
//
//	go2coq -repo <path> -targets translator/targets.json -out <dir> [-only C13,C16]
//
// For every target group of targets.json the CURRENT source of the listed functions is read
// from <repo>, type-checked with go/types, and one Gallina file per Go file is written to
// <dir>/Gen_<pkg>_<file>.v (logical path MMGen), plus <dir>/Gen_<pkg>_types.v with the records
// generated from the struct declarations and <dir>/report.json.  Anything outside the
// supported subset makes the translation of that function FAIL with a message naming the
// construct and its position; no definition is emitted for it (never a guess) and the exit
// status is 1.  See README.md for the subset and its semantics.
package main

import (
	"crypto/sha256"
	"encoding/hex"
	"encoding/json"
	"flag"
	"fmt"
	"go/ast"
	"go/importer"
	"go/parser"
	"go/token"
	"go/types"
	"os"
	"path/filepath"
	"sort"
	"strings"
)

const Version = "go2coq-1"

type Group struct {
	ID         string            `json:"id"`
	Properties []string          `json:"properties"`
	File       string            `json:"file"`
	Funcs      []string          `json:"funcs"`
	Opaque     map[string]string `json:"opaque,omitempty"`
	Tie        string            `json:"tie"`
	Theorems   []string          `json:"theorems"`
}

type Targets struct {
	Version int     `json:"version"`
	Module  string  `json:"module"`
	Groups  []Group `json:"groups"`
}

type FuncReport struct {
	Group   string `json:"group"`
	Func    string `json:"func"`
	GoFile  string `json:"go_file"`
	Lines   string `json:"lines,omitempty"`
	CoqName string `json:"coq_name,omitempty"`
	OutFile string `json:"out_file,omitempty"`
	Status  string `json:"status"` // ok | error
	Error   string `json:"error,omitempty"`
	SrcHash string `json:"src_sha256,omitempty"`
	Listed  bool   `json:"listed"` // named in targets.json (false: pulled in as a callee)
}

type Report struct {
	Translator string       `json:"translator"`
	Repo       string       `json:"repo"`
	Files      []string     `json:"files"` // generated .v files in compilation order
	Funcs      []FuncReport `json:"funcs"`
	OK         bool         `json:"ok"`
}

// ---------------------------------------------------------------- loading

type Pkg struct {
	path  string // import path
	rel   string // directory relative to the repo
	tpkg  *types.Package
	info  *types.Info
	files []*ast.File
	decls map[*types.Func]*ast.FuncDecl
	fileOf map[*ast.FuncDecl]string // base name of the Go file
}

type Loader struct {
	fset   *token.FileSet
	repo   string
	module string
	std    types.Importer
	pkgs   map[string]*Pkg
	tcache map[string]*types.Package
	errs   []string
}

func (l *Loader) Import(path string) (*types.Package, error) {
	if p, ok := l.tcache[path]; ok {
		return p, nil
	}
	if path == l.module || strings.HasPrefix(path, l.module+"/") {
		rel := strings.TrimPrefix(strings.TrimPrefix(path, l.module), "/")
		p, err := l.load(rel)
		if err != nil {
			return nil, err
		}
		return p.tpkg, nil
	}
	p, err := l.std.Import(path)
	if err != nil {
		// a dependency outside the module and the standard library (gonum): an empty stub;
		// uses of it are type errors, which only matter if a target function contains them
		p = types.NewPackage(path, filepath.Base(path))
		p.MarkComplete()
	}
	l.tcache[path] = p
	return p, nil
}

func (l *Loader) load(rel string) (*Pkg, error) {
	path := l.module
	if rel != "" {
		path += "/" + rel
	}
	if p, ok := l.pkgs[path]; ok {
		return p, nil
	}
	dir := filepath.Join(l.repo, rel)
	pkgs, err := parser.ParseDir(l.fset, dir, func(fi os.FileInfo) bool { return !strings.HasSuffix(fi.Name(), "_test.go") }, parser.ParseComments)
	if err != nil {
		return nil, fmt.Errorf("parse %s: %v", dir, err)
	}
	p := &Pkg{path: path, rel: rel, decls: map[*types.Func]*ast.FuncDecl{}, fileOf: map[*ast.FuncDecl]string{}}
	var names []string
	byName := map[string]*ast.File{}
	for _, ap := range pkgs {
		if strings.HasSuffix(ap.Name, "_test") || ap.Name == "main" && len(pkgs) > 1 {
			continue
		}
		for fn, f := range ap.Files {
			names = append(names, fn)
			byName[fn] = f
		}
	}
	sort.Strings(names)
	for _, fn := range names {
		p.files = append(p.files, byName[fn])
	}
	p.info = &types.Info{
		Types:      map[ast.Expr]types.TypeAndValue{},
		Defs:       map[*ast.Ident]types.Object{},
		Uses:       map[*ast.Ident]types.Object{},
		Selections: map[*ast.SelectorExpr]*types.Selection{},
		Implicits:  map[ast.Node]types.Object{},
	}
	conf := types.Config{Importer: l, Error: func(err error) { l.errs = append(l.errs, err.Error()) }}
	p.tpkg, _ = conf.Check(path, l.fset, p.files, p.info)
	l.tcache[path] = p.tpkg
	l.pkgs[path] = p
	for i, f := range p.files {
		for _, d := range f.Decls {
			if fd, ok := d.(*ast.FuncDecl); ok {
				if obj, ok := p.info.Defs[fd.Name].(*types.Func); ok {
					p.decls[obj] = fd
					p.fileOf[fd] = filepath.Base(names[i])
				}
			}
		}
	}
	return p, nil
}

func (l *Loader) pkgOf(f *types.Func) *Pkg {
	if f.Pkg() == nil {
		return nil
	}
	return l.pkgs[f.Pkg().Path()]
}

// ---------------------------------------------------------------- main

func main() {
	repo := flag.String("repo", "/repo", "working tree of the Go module")
	tfile := flag.String("targets", "translator/targets.json", "targets file")
	out := flag.String("out", "build/gen", "output directory")
	only := flag.String("only", "", "comma-separated property ids or group ids (default: all groups)")
	effects := flag.Bool("effects", false, "static may-write analysis of the exported API: writes <out>/Gen_effects.v and effects.json (C20 structural tie)")
	flag.Parse()

	raw, err := os.ReadFile(*tfile)
	if err != nil {
		fatal("cannot read targets: %v", err)
	}
	var tg Targets
	if err := json.Unmarshal(raw, &tg); err != nil {
		fatal("targets.json: %v", err)
	}
	if tg.Module == "" {
		tg.Module = "github.com/aclements/go-moremath"
	}
	want := map[string]bool{}
	for _, x := range strings.Split(*only, ",") {
		if x != "" {
			want[x] = true
		}
	}
	fset := token.NewFileSet()
	ld := &Loader{fset: fset, repo: *repo, module: tg.Module, std: importer.ForCompiler(fset, "source", nil),
		pkgs: map[string]*Pkg{}, tcache: map[string]*types.Package{}}
	if *effects {
		os.Exit(runEffects(ld, *repo, *out))
	}
	tr := newTr(ld)
	rep := Report{Translator: Version, Repo: *repo, OK: true}

	for gi := range tg.Groups {
		g := &tg.Groups[gi]
		sel := len(want) == 0 || want[g.ID]
		for _, p := range g.Properties {
			if want[p] {
				sel = true
			}
		}
		if !sel {
			continue
		}
		rel := filepath.Dir(g.File)
		if rel == "." {
			rel = ""
		}
		pkg, err := ld.load(rel)
		if err != nil {
			for _, fn := range g.Funcs {
				rep.Funcs = append(rep.Funcs, FuncReport{Group: g.ID, Func: fn, GoFile: g.File, Status: "error", Error: err.Error(), Listed: true})
			}
			rep.OK = false
			continue
		}
		for _, fn := range g.Funcs {
			obj, err := findFunc(pkg, fn, filepath.Base(g.File))
			if err != nil {
				rep.Funcs = append(rep.Funcs, FuncReport{Group: g.ID, Func: fn, GoFile: g.File, Status: "error", Error: err.Error(), Listed: true})
				rep.OK = false
				continue
			}
			tr.request(obj, g, true)
		}
	}
	tr.run()

	if err := os.MkdirAll(*out, 0o755); err != nil {
		fatal("%v", err)
	}
	// remove stale generated files
	old, _ := filepath.Glob(filepath.Join(*out, "Gen_*.v"))
	for _, f := range old {
		os.Remove(f)
	}
	files := tr.emit(*out)
	rep.Files = files
	for _, u := range tr.order {
		fr := FuncReport{Group: u.group.ID, Func: u.key, GoFile: u.goFile, Lines: u.lines, Listed: u.listed, SrcHash: u.srcHash}
		if u.err != nil {
			fr.Status, fr.Error = "error", u.err.Error()
			rep.OK = false
		} else {
			fr.Status, fr.CoqName, fr.OutFile = "ok", u.coqName, u.outFile
		}
		rep.Funcs = append(rep.Funcs, fr)
	}
	js, _ := json.MarshalIndent(rep, "", " ")
	os.WriteFile(filepath.Join(*out, "report.json"), js, 0o644)
	for _, f := range rep.Funcs {
		if f.Status != "ok" {
			fmt.Fprintf(os.Stderr, "go2coq: %s %s: TRANSLATION FAILED: %s\n", f.GoFile, f.Func, f.Error)
		}
	}
	if !rep.OK {
		os.Exit(1)
	}
}

func fatal(f string, a ...interface{}) {
	fmt.Fprintf(os.Stderr, "go2coq: "+f+"\n", a...)
	os.Exit(2)
}

// findFunc resolves "Recv.Method" or "func" in pkg; the declaration must be in file base.
func findFunc(p *Pkg, name, base string) (*types.Func, error) {
	for obj, fd := range p.decls {
		if funcKey(obj) == name {
			if p.fileOf[fd] != base {
				return nil, fmt.Errorf("%s is declared in %s, not in %s", name, p.fileOf[fd], base)
			}
			return obj, nil
		}
	}
	return nil, fmt.Errorf("function %s not found in package %s (removed or renamed?)", name, p.path)
}

// funcKey: "Recv.Method" for methods, "name" for functions.
func funcKey(f *types.Func) string {
	sig := f.Type().(*types.Signature)
	if r := sig.Recv(); r != nil {
		t := r.Type()
		if pt, ok := t.(*types.Pointer); ok {
			t = pt.Elem()
		}
		if n, ok := t.(*types.Named); ok {
			return n.Obj().Name() + "." + f.Name()
		}
		return "?." + f.Name()
	}
	return f.Name()
}

func sha(s string) string {
	h := sha256.Sum256([]byte(s))
	return hex.EncodeToString(h[:])
}

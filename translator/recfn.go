package main

// Recursive closures over captured mutable state:
//
//	var visit func(n int)
//	visit = func(n int) { ... out = append(out, n) ... visit(succ) ... }
//	visit(root)
//
// The closure has no results; its effect is on the captured variables it assigns (its STATE W,
// the variables of the enclosing function that the body assigns, directly or through a
// pointer-receiver method).  It becomes  go_rec F  (Base/GoSem.v), where F is the body with the
// recursive call abstracted; go_rec recurses on its own fuel (the recursion depth):
//
//	let visit := go_rec (fun visit (st_ : W) (n : Z) => let '(w1, w2) := st_ in <body>) in
//
// and every call  visit(a)  (a statement) is
//
//	match visit [fuel] (w1, w2) a with None => <out of fuel> | Some (w1', w2') => ... end
//
// with the function's fuel at the outer calls and no fuel argument at the recursive ones (there
// visit is the abstracted recursive call, to which go_rec passes the predecessor).  Several
// parameters are passed as a tuple.  Loops with fuel and calls of fueled functions inside the
// body use the function's fuel.  Variables the body only READS are captured by value, as for
// any other function literal (they must not be assigned after the literal).  The closure
// variable may only be called, in call statements; the enclosing function takes fuel.

import (
	"fmt"
	"go/ast"
	"go/token"
	"go/types"
	"strings"
)

type recClosure struct {
	name string   // Gallina name of the fixpoint
	w    []envKey // its state
	sig  *types.Signature
}

// hasRecClosure: the body declares  var f func(...)  without a value (the shape of a recursive closure).
func hasRecClosure(n ast.Node) bool {
	found := false
	ast.Inspect(n, func(n ast.Node) bool {
		if ds, ok := n.(*ast.DeclStmt); ok {
			if gd, ok := ds.Decl.(*ast.GenDecl); ok && gd.Tok == token.VAR {
				for _, sp := range gd.Specs {
					if vs, ok := sp.(*ast.ValueSpec); ok && len(vs.Values) == 0 {
						if _, isF := vs.Type.(*ast.FuncType); isF {
							found = true
						}
					}
				}
			}
		}
		return !found
	})
	return found
}

// recClosureOf: the recursive closure a call expression calls (nil if none).
func (c *fctx) recClosureOf(call *ast.CallExpr) *recClosure {
	if id, ok := unparen(call.Fun).(*ast.Ident); ok {
		if o := c.info.Uses[id]; o != nil {
			return c.recCl[o]
		}
	}
	return nil
}

// recClosureDecl recognises  var f func(..); f = func(..) {..}  at the head of list.
func (c *fctx) recClosureDecl(s *ast.DeclStmt, rest []ast.Stmt, k func() string) (string, bool) {
	gd, ok := s.Decl.(*ast.GenDecl)
	if !ok || gd.Tok != token.VAR || len(gd.Specs) != 1 {
		return "", false
	}
	vs := gd.Specs[0].(*ast.ValueSpec)
	if len(vs.Names) != 1 || len(vs.Values) != 0 {
		return "", false
	}
	if _, isF := vs.Type.(*ast.FuncType); !isF {
		return "", false
	}
	o := c.info.Defs[vs.Names[0]]
	if o == nil {
		return "", false
	}
	if len(rest) == 0 {
		c.fail(s.Pos(), "function variable %s that is not assigned a function literal by the next statement", o.Name())
	}
	as, ok := rest[0].(*ast.AssignStmt)
	if !ok || as.Tok != token.ASSIGN || len(as.Lhs) != 1 || len(as.Rhs) != 1 {
		c.fail(s.Pos(), "function variable %s that is not assigned a function literal by the next statement", o.Name())
	}
	id, ok := as.Lhs[0].(*ast.Ident)
	lit, isLit := unparen(as.Rhs[0]).(*ast.FuncLit)
	if !ok || c.info.Uses[id] != o || !isLit {
		c.fail(s.Pos(), "function variable %s that is not assigned a function literal by the next statement", o.Name())
	}
	return c.recClosure(o, id, lit, func() string { return c.stmts(rest[1:], k) }), true
}

func (c *fctx) keyTy(k envKey, p token.Pos) string {
	if k.field == "" {
		return c.coqTy(c.typeOf(k.obj.Type(), p), p)
	}
	if r := c.recOf(k.obj); r != nil {
		for _, f := range r.fields {
			if f.name == k.field {
				return c.coqTy(f.t, p)
			}
		}
	}
	c.fail(p, "type of the captured field %s.%s", k.obj.Name(), k.field)
	return ""
}

func (c *fctx) recClosure(o types.Object, lhs *ast.Ident, lit *ast.FuncLit, next func() string) string {
	sig, ok := c.info.TypeOf(lit).(*types.Signature)
	if !ok {
		c.fail(lit.Pos(), "function literal")
	}
	if sig.Variadic() || sig.Results().Len() != 0 {
		c.fail(lit.Pos(), "recursive closure that is variadic or has results")
	}
	if c.inLoop > 0 {
		c.fail(lit.Pos(), "function literal (closure) inside a loop")
	}
	if !c.u.fueled || c.fuelOut == nil || c.recFuel != "" {
		c.fail(lit.Pos(), "recursive closure in a context without fuel (or inside another recursive closure)")
	}
	// the closure variable may only be called, in call statements
	allowed := map[*ast.Ident]bool{lhs: true}
	ast.Inspect(c.u.decl.Body, func(n ast.Node) bool {
		if es, ok := n.(*ast.ExprStmt); ok {
			if call, ok := es.X.(*ast.CallExpr); ok {
				if id, ok := unparen(call.Fun).(*ast.Ident); ok && c.info.Uses[id] == o {
					allowed[id] = true
				}
			}
		}
		return true
	})
	ast.Inspect(c.u.decl.Body, func(n ast.Node) bool {
		if id, ok := n.(*ast.Ident); ok && c.info.Uses[id] == o && !allowed[id] {
			c.fail(id.Pos(), "use of the recursive closure %s other than calling it in a call statement", o.Name())
		}
		return true
	})
	w := c.assigned(lit.Body)
	except := map[types.Object]bool{}
	for _, k := range w {
		except[k.obj] = true
	}
	c.captureCheck(lit, except)
	name := c.fresh(o.Name())
	st := c.fresh("st")
	rc := &recClosure{name: name, w: w, sig: sig}
	if c.recCl == nil {
		c.recCl = map[types.Object]*recClosure{}
	}
	c.recCl[o] = rc
	var tys []string
	for _, k := range w {
		tys = append(tys, c.keyTy(k, lit.Pos()))
	}
	stTy := "unit"
	if len(tys) > 0 {
		stTy = strings.Join(tys, " * ")
	}
	// the body, in a nested context
	oSig, oK, oW, oF, oTy, oRaw, oRes, oCont, oLoop := c.sig, c.retK, c.retWrap, c.fuelOut, c.retTy, c.rawTy, c.resTys, c.contK, c.inLoop
	saved := c.copyEnv()
	c.sig, c.resTys = sig, nil
	c.rawTy, c.retTy = stTy, stTy
	c.retWrap = func(r string) string { return "(Some " + r + ")" }
	c.fuelOut = func() string { return "None" }
	c.contK, c.inLoop = nil, 0
	c.recFuel = "rec"
	wt := func() string {
		var xs []string
		for _, k := range w {
			xs = append(xs, c.env[k])
		}
		return stateTuple(xs)
	}
	c.retK = func(vals []string) string { return c.retWrap(wt()) }
	var sn []string
	for _, k := range w {
		sn = append(sn, c.bindKey(k))
	}
	var pnames, ptys []string
	for i := 0; i < sig.Params().Len(); i++ {
		v := sig.Params().At(i)
		t := c.typeOf(v.Type(), lit.Pos())
		pn := v.Name()
		if pn == "" || pn == "_" {
			pn = "unused"
		}
		pn = c.fresh(pn)
		if t.k == kRec {
			c.writeWhole(v, c.record(t.rec, lit.Pos()), pn)
		} else {
			c.env[envKey{v, ""}] = pn
		}
		pnames = append(pnames, pn)
		ptys = append(ptys, c.coqTy(t, lit.Pos()))
	}
	body := c.stmts(lit.Body.List, func() string { return c.retWrap(wt()) })
	c.sig, c.retK, c.retWrap, c.fuelOut, c.retTy, c.rawTy, c.resTys, c.contK, c.inLoop = oSig, oK, oW, oF, oTy, oRaw, oRes, oCont, oLoop
	c.env = saved
	c.recFuel = ""
	open := ""
	if len(sn) > 0 {
		open = fmt.Sprintf("let %s := %s in\n", pattern(sn), st)
	}
	args := c.fresh("args")
	aTy := "unit"
	if len(ptys) > 0 {
		aTy = strings.Join(ptys, " * ")
	}
	if len(pnames) > 0 {
		open = fmt.Sprintf("let %s := %s in\n", pattern(pnames), args) + open
	}
	text := fmt.Sprintf("let %s := go_rec (fun (%s : (%s) -> (%s) -> option (%s)) (%s : %s) (%s : %s) =>\n%s) in\n",
		name, name, stTy, aTy, stTy, st, stTy, args, aTy, indent(open+body, "    "))
	return text + next()
}

// recCall: the call statement  f(args)  of a recursive closure.
func (c *fctx) recCall(rc *recClosure, call *ast.CallExpr, next func() string) string {
	if c.fuelOut == nil {
		c.fail(call.Pos(), "call of a recursive closure in a context without fuel")
	}
	if len(call.Args) != rc.sig.Params().Len() {
		c.fail(call.Pos(), "argument count of the call of a recursive closure")
	}
	parts := []string{rc.name}
	if c.recFuel == "" {
		parts = append(parts, "fuel") // an outer call; inside the body the name is the abstracted recursive call
	}
	var cur []string
	for _, k := range rc.w {
		v, ok := c.env[k]
		if !ok {
			c.fail(call.Pos(), "call of a recursive closure where its captured variable %s is out of scope", k.obj.Name())
		}
		cur = append(cur, v)
	}
	parts = append(parts, stateTuple(cur))
	var as []string
	for i, a := range call.Args {
		as = append(as, c.exprAs(a, rc.sig.Params().At(i).Type()))
	}
	parts = append(parts, stateTuple(as))
	var names []string
	for _, k := range rc.w {
		names = append(names, c.bindKey(k))
	}
	pat := "_"
	if len(names) > 0 {
		pat = matchPattern(names)
	}
	return fmt.Sprintf("match %s with\n| None => %s\n| Some %s =>\n%s\nend", strings.Join(parts, " "), c.fuelOut(), pat, indent(next(), "  "))
}

// captureCheck: Go closures capture variables by reference, the Gallina fun captures the current
// VALUES: every captured local variable (other than those in except, which are threaded as
// state) must therefore not be assigned after the literal (in source order).
func (c *fctx) captureCheck(x *ast.FuncLit, except map[types.Object]bool) {
	inner := map[types.Object]bool{}
	ast.Inspect(x, func(n ast.Node) bool {
		if id, ok := n.(*ast.Ident); ok {
			if o := c.info.Defs[id]; o != nil {
				inner[o] = true
			}
		}
		return true
	})
	captured := map[types.Object]bool{}
	ast.Inspect(x.Body, func(n ast.Node) bool {
		if id, ok := n.(*ast.Ident); ok {
			if o, isVar := c.info.Uses[id].(*types.Var); isVar && !inner[o] && c.known(o) && !except[o] {
				captured[o] = true
			}
		}
		return true
	})
	ast.Inspect(c.u.decl.Body, func(n ast.Node) bool {
		var lhs []ast.Expr
		switch s := n.(type) {
		case *ast.AssignStmt:
			lhs = s.Lhs
		case *ast.IncDecStmt:
			lhs = []ast.Expr{s.X}
		case *ast.ExprStmt:
			if call, ok := s.X.(*ast.CallExpr); ok {
				if sel, ok := call.Fun.(*ast.SelectorExpr); ok {
					lhs = append(lhs, sel.X)
				}
				lhs = append(lhs, call.Args...)
			}
		}
		for _, l := range lhs {
			if o := c.rootVar(l); o != nil && captured[o] && n.Pos() > x.Pos() && !(n.Pos() >= x.Pos() && n.End() <= x.End()) {
				c.fail(n.Pos(), "assignment to %s after it was captured by a function literal (closures capture by reference)", o.Name())
			}
		}
		return true
	})
}

// ---------------------------------------------------------------- goto found

// The one supported use of goto: a SEARCH LOOP that jumps over the statements following it,
//
//	for _, x := range xs { if cond(x) { goto found } }
//	S...                       // skipped when some element satisfies cond
//	found:
//	T...
//
// where the loop body is exactly that if (no else, no initialiser), the label stands later in
// the same statement list and is the target of this goto only.  It becomes
//
//	if existsb (fun x => cond x) xs then T... else S...; T...
//
// searchGoto returns the index of the labelled statement in rest (-1: not this pattern).
func (c *fctx) searchGoto(s *ast.RangeStmt, rest []ast.Stmt) int {
	br := searchLoopGoto(s)
	if br == nil {
		return -1
	}
	lab := c.info.Uses[br.Label]
	for j, r := range rest {
		if ls, ok := r.(*ast.LabeledStmt); ok && c.info.Defs[ls.Label] == lab && lab != nil {
			// the label must have no other goto
			uses := 0
			ast.Inspect(c.u.decl.Body, func(n ast.Node) bool {
				if id, ok := n.(*ast.Ident); ok && c.info.Uses[id] == lab {
					uses++
				}
				return true
			})
			if uses != 1 {
				return -1
			}
			return j
		}
	}
	return -1
}

// searchLoopGoto: the goto of  for .. range .. { if cond { goto L } }  (nil if s has another shape).
func searchLoopGoto(s *ast.RangeStmt) *ast.BranchStmt {
	if len(s.Body.List) != 1 {
		return nil
	}
	ifs, ok := s.Body.List[0].(*ast.IfStmt)
	if !ok || ifs.Init != nil || ifs.Else != nil || len(ifs.Body.List) != 1 {
		return nil
	}
	br, ok := ifs.Body.List[0].(*ast.BranchStmt)
	if !ok || br.Tok != token.GOTO || br.Label == nil {
		return nil
	}
	return br
}

// gotoOK: the goto and label nodes of all search-loop patterns of the function.
func (c *fctx) gotoOK() map[ast.Node]bool {
	if c.gotos != nil {
		return c.gotos
	}
	c.gotos = map[ast.Node]bool{}
	ast.Inspect(c.u.decl.Body, func(n ast.Node) bool {
		var list []ast.Stmt
		switch b := n.(type) {
		case *ast.BlockStmt:
			list = b.List
		case *ast.CaseClause:
			list = b.Body
		}
		for i, st := range list {
			if rs, ok := st.(*ast.RangeStmt); ok {
				if j := c.searchGoto(rs, list[i+1:]); j >= 0 {
					c.gotos[searchLoopGoto(rs)] = true
					c.gotos[list[i+1+j]] = true
				}
			}
		}
		return true
	})
	return c.gotos
}

func (c *fctx) searchGotoStmt(s *ast.RangeStmt, rest []ast.Stmt, j int, k func() string) string {
	ifs := s.Body.List[0].(*ast.IfStmt)
	if c.needsFuel(ifs.Cond) {
		c.fail(ifs.Cond.Pos(), "search-loop condition that calls a function with fuel")
	}
	items, pat := c.rangeItems(s)
	saved := c.copyEnv()
	p := pat()
	cond := c.expr(ifs.Cond)
	c.env = copyMap(saved)
	lab := rest[j].(*ast.LabeledStmt)
	tail := append([]ast.Stmt{lab.Stmt}, rest[j+1:]...)
	fromLabel := func() string { return c.stmts(tail, k) }
	a := fromLabel()
	c.env = copyMap(saved)
	b := c.stmts(rest[:j], fromLabel)
	return fmt.Sprintf("if (existsb (fun %s => %s) %s)\nthen\n%s\nelse\n%s", p, cond, items, indent(a, "  "), indent(b, "  "))
}

#!/bin/bash
# translator/selftest.sh — test of the T-tie machinery itself.
#
#   translator/selftest.sh          ties only (bin/ttie), ~1 min
#   translator/selftest.sh --full   additionally runs bin/check on two mutants (both ties), ~4 min
#
# pristine /repo            -> every tie checks
# harmless rewrites (H*)    -> every tie still checks
# breaking changes (B*)     -> the named tie theorem fails
# untranslatable code (U*)  -> translation failure naming construct and position
# Scratch copies live under /tmp/ttie-selftest-* and are removed, with their build/ directories.
set -u
ROOT="$(cd "$(dirname "$0")/.." && pwd)"; cd "$ROOT"
export GOFLAGS=-mod=mod GOPROXY=off GOSUMDB=off GOTOOLCHAIN=local
SRC="${VERIF_REPO:-/repo}"
FULL=0; [ "${1:-}" = "--full" ] && FULL=1
fail=0
scratch=()

cleanup() {
  for d in "${scratch[@]}"; do
    key=$(printf '%s' "$d" | md5sum | cut -c1-8)
    rm -rf "$d" "build/gen-$key" "build/harness-$key"
  done
}
trap cleanup EXIT

mk() {  # mk <name>: fresh scratch copy; its path is left in $D (no subshell: the list for cleanup must survive)
  D="/tmp/ttie-selftest-$1-$$"
  rm -rf "$D"; cp -r "$SRC" "$D"; rm -rf "$D/.git"
  scratch+=("$D")
}

edit() {  # edit <file> <python expression over s>  (must change the file)
  python3 - "$1" "$2" <<'EOF'
import sys
p, expr = sys.argv[1], sys.argv[2]
s = open(p).read()
t = eval(expr)
assert t != s, "selftest edit did not apply to " + p
open(p, "w").write(t)
EOF
}

expect() {  # expect <label> <repo> <property> <status> [<substring of the JSON result>]
  local label="$1" repo="$2" pid="$3" want="$4" sub="${5:-}"
  local out; out=$(VERIF_REPO="$repo" bin/ttie "$pid" --json 2>&1)
  local got; got=$(printf '%s' "$out" | python3 -c 'import sys,json; print(json.load(sys.stdin)["status"])' 2>/dev/null || echo "machinery-failure")
  if [ "$got" != "$want" ]; then echo "FAIL $label: status $got, expected $want"; printf '%s\n' "$out" | tail -15; fail=1; return; fi
  if [ -n "$sub" ] && ! printf '%s' "$out" | grep -q -- "$sub"; then echo "FAIL $label: result does not mention '$sub'"; printf '%s\n' "$out" | tail -15; fail=1; return; fi
  echo "ok   $label: $pid -> $got${sub:+ ($sub)}"
}

echo "== translator correspondence: translator/testdata/tsem run natively vs. generated Gallina under vm_compute"
T=/tmp/ttie-selftest-sem-$$; rm -rf "$T"; mkdir -p "$T"; scratch+=("$T")
bin/ttie --build >/dev/null || { echo "FAIL translator does not build"; exit 2; }
if (cd translator/testdata/tsem && go run . > "$T/examples.txt") \
   && build/go2coq -repo translator/testdata/tsem -targets translator/testdata/tsem/targets.json -out "$T" -only SEM >/dev/null; then
  { cat <<'EOV'
From Coq Require Import ZArith NArith QArith List Bool.
From MM Require Import Base.Num Base.GoSem.
From MMGen Require Import Gen_sem_types Gen_sem_sem Gen_sem_fuel.
Import ListNotations.
Local Open Scope Q_scope.
Fixpoint qlist_eqb (a b : list Q) : bool :=
  match a, b with
  | [], [] => true
  | x :: a', y :: b' => Qeq_bool x y && qlist_eqb a' b'
  | _, _ => false
  end.
Fixpoint qins (x : Q) (l : list Q) : list Q :=
  match l with [] => [x] | y :: t => if Qle_bool x y then x :: l else y :: qins x t end.
Definition qsort (l : list Q) : list Q := fold_right qins [] l.
EOV
    cat "$T/examples.txt"; } > "$T/SemTest.v"
  okc=1
  for f in Gen_sem_types Gen_sem_sem Gen_sem_fuel SemTest; do
    (cd "$T" && timeout 600 coqc -Q "$ROOT/coq" MM -Q . MMGen $f.v) > "$T/$f.log" 2>&1 || { okc=0; echo "FAIL translator correspondence ($f.v):"; tail -5 "$T/$f.log"; break; }
  done
  if [ $okc = 1 ]; then echo "ok   translator correspondence: $(wc -l < "$T/examples.txt") native evaluations reproduced by the generated definitions"; else fail=1; fi
else echo "FAIL translator correspondence: native run or translation failed"; fail=1; fi

echo "== fail loudly: every function of testdata/tsem/sem/bad.go must be refused with the expected message"
TB=/tmp/ttie-selftest-bad-$$; rm -rf "$TB"; mkdir -p "$TB"; scratch+=("$TB")
build/go2coq -repo translator/testdata/tsem -targets translator/testdata/tsem/targets.json -out "$TB" -only bad >/dev/null 2>&1; rcb=$?
if [ $rcb != 1 ]; then echo "FAIL fail-loudly: go2coq exit $rcb, expected 1"; fail=1; else
  if python3 - "$TB/report.json" translator/testdata/tsem/bad_expect.txt <<'EOP'
import sys, json
rep = json.load(open(sys.argv[1]))
byf = {f["func"]: f for f in rep["funcs"]}
bad = 0
n = 0
for ln in open(sys.argv[2]):
    if not ln.strip():
        continue
    fn, sub = ln.rstrip("\n").split("\t")
    n += 1
    f = byf.get(fn)
    if f is None or f["status"] != "error" or sub not in f.get("error", "") or f.get("coq_name"):
        print("  unexpected:", fn, f)
        bad += 1
gen = open(sys.argv[1].replace("report.json", "Gen_sem_bad.v")).read()
for ln in open(sys.argv[2]):
    fn = ln.split("\t")[0].strip()
    if fn and ("Definition gen_%s " % fn) in gen:
        print("  a definition was emitted for the refused function", fn)
        bad += 1
print("  %d refused functions checked" % n)
sys.exit(1 if bad else 0)
EOP
  then echo "ok   fail loudly"; else echo "FAIL fail loudly"; fail=1; fi
fi

echo "== pristine $SRC: every tie checks"
if VERIF_REPO="$SRC" bin/ttie --all; then echo "ok   pristine"; else echo "FAIL pristine"; fail=1; fi

echo "== H1 harmless: Combine with the sum reordered and named temporaries"
mk H1; d=$D
edit "$d/stats/stream.go" 's.replace("vM2 := s.vM2 + o.vM2 + delta*delta*float64(s.Count)*float64(o.Count)/float64(count)", "n1, n2 := float64(s.Count), float64(o.Count)\n\tvM2 := o.vM2 + (n2*delta*delta*n1/float64(count) + s.vM2)")'
expect H1 "$d" C13 ok

echo "== H2 harmless: clamp tests the upper bound first; Map uses temporaries and an else branch"
mk H2; d=$D
edit "$d/scale/util.go" 's.replace("\tif x < 0 {\n\t\treturn 0\n\t}\n\tif x > 1 {\n\t\treturn 1\n\t}\n\treturn x", "\tif x > 1 {\n\t\treturn 1\n\t} else if x >= 0 {\n\t\treturn x\n\t}\n\treturn 0")'
edit "$d/scale/linear.go" 's.replace("\ty := (x - s.Min) / (s.Max - s.Min)\n\tif s.Clamp {\n\t\ty = clamp(y)\n\t}\n\treturn y", "\twidth, off := s.Max-s.Min, x-s.Min\n\tif !s.Clamp {\n\t\treturn off / width\n\t} else {\n\t\treturn clamp(off / width)\n\t}")'
expect H2 "$d" C16 ok

echo "== H3 harmless: LinearHist.Add tests the in-range case first"
mk H3; d=$D
edit "$d/stats/linearhist.go" 's.replace("\tif bin < 0 {\n\t\th.low++\n\t} else if bin >= len(h.bins) {\n\t\th.high++\n\t} else {\n\t\th.bins[bin]++\n\t}", "\tif n := len(h.bins); 0 <= bin && bin < n {\n\t\th.bins[bin] += 1\n\t} else if bin >= n {\n\t\th.high++\n\t} else {\n\t\th.low++\n\t}")'
expect H3 "$d" C14 ok

echo "== H4 harmless: hypergeometric Mean/Variance with the integer products reordered"
mk H4; d=$D
edit "$d/stats/hypergdist.go" 's.replace("float64(d.Draws*d.K*(d.N-d.K)*(d.N-d.Draws)) /\n\t\tfloat64(d.N*d.N*(d.N-1))", "float64((d.N-d.K)*d.K*(d.N-d.Draws)*d.Draws) /\n\t\tfloat64((d.N-1)*d.N*d.N)").replace("float64(d.Draws*d.K) / float64(d.N)", "float64(d.K*d.Draws) / float64(d.N)")'
expect H4 "$d" C06 ok

echo "== H5 harmless: Add updates Min and Max under or-conditions instead of nested ifs"
mk H5; d=$D
edit "$d/stats/stream.go" 's.replace("\tif s.Count == 0 {\n\t\ts.Min, s.Max = x, x\n\t} else {\n\t\tif x < s.Min {\n\t\t\ts.Min = x\n\t\t}\n\t\tif x > s.Max {\n\t\t\ts.Max = x\n\t\t}\n\t}\n", "\tif s.Count == 0 || x < s.Min {\n\t\ts.Min = x\n\t}\n\tif s.Count == 0 || x > s.Max {\n\t\ts.Max = x\n\t}\n")'
expect H5 "$d" C13 ok

echo "== B1 breaking: Combine drops the delta*delta term"
mk B1; d=$D
edit "$d/stats/stream.go" 's.replace("vM2 := s.vM2 + o.vM2 + delta*delta*float64(s.Count)*float64(o.Count)/float64(count)", "vM2 := s.vM2 + o.vM2")'
expect B1 "$d" C13 tie_failed tie_Combine
B1="$d"

echo "== B2 breaking: Combine without the empty-receiver early return"
mk B2; d=$D
edit "$d/stats/stream.go" 's.replace("\tif s.Count == 0 {\n\t\t*s = *o\n\t\treturn\n\t}\n", "")'
expect B2 "$d" C13 tie_failed tie_Combine

echo "== B3 breaking: LinearHist.bin truncates toward zero instead of math.Floor (defect D7 again)"
mk B3; d=$D
edit "$d/stats/linearhist.go" 's.replace("return int(math.Floor(h.delta * (x - h.min)))", "return int(h.delta * (x - h.min))").replace("import \"math\"\n", "")'
expect B3 "$d" C14 tie_failed tie_LinearHist_bin

echo "== B4 breaking: Epanechnikov CDF polynomial with coefficient 0.5 instead of 0.25"
mk B4; d=$D
edit "$d/stats/kde.go" 's.replace("ys[i] = 0.25 * (2 + 3*u - u*u*u)", "ys[i] = 0.5 * (2 + 3*u - u*u*u)")'
expect B4 "$d" C12 tie_failed tie_epan_cdfEach

echo "== B5 breaking: rank walk of HistogramQuantile tests count > goal instead of >= (defect D8 again)"
mk B5; d=$D
edit "$d/stats/hist.go" 's.replace("if count >= goal {", "if count > goal {")'
expect B5 "$d" C14 tie_failed tie_HistogramQuantile

echo "== B6 breaking: hypergeometric Variance with N-1 replaced by N in the denominator"
mk B6; d=$D
edit "$d/stats/hypergdist.go" 's.replace("float64(d.N*d.N*(d.N-1))", "float64(d.N*d.N*d.N)")'
expect B6 "$d" C06 tie_failed tie_hg_Variance

echo "== B7 breaking: Log.Map forgets to mirror y for a negative domain"
mk B7; d=$D
edit "$d/scale/log.go" 's.replace("\tif neg {\n\t\ty = 1 - y\n\t}\n\tif s.Clamp {", "\tif s.Clamp {")'
expect B7 "$d" C16 tie_failed tie_Log_Map

echo "== U1 untranslatable: Weight computed through a map (same results)"
mk U1; d=$D
edit "$d/stats/stream.go" 's.replace("\treturn float64(s.Count)\n", "\tw := map[int]float64{0: float64(s.Count)}\n\treturn w[0]\n")'
expect U1 "$d" C13 translation_failed "unsupported: type map"
U1="$d"

echo "== H6 harmless: FindLevel's down loop as a for-cond loop with the conjuncts swapped; parity of the level tested as level%2 != 0"
mk H6; d=$D
edit "$d/scale/ticks.go" 's.replace("\t\tfor l--; l >= minLevel && ticker.CountTicks(l) <= o.Max; l-- {\n\t\t}", "\t\tl -= 1\n\t\tfor ticker.CountTicks(l) <= o.Max && minLevel <= l {\n\t\t\tl = l - 1\n\t\t}")'
edit "$d/scale/linear.go" 's.replace("(level%2 == 1 || level%2 == -1)", "level%2 != 0")'
expect H6 "$d" C17 ok

echo "== B8 breaking: FindLevel's down loop stops one level early (l > minLevel)"
mk B8; d=$D
edit "$d/scale/ticks.go" 's.replace("for l--; l >= minLevel && ticker.CountTicks(l) <= o.Max; l-- {", "for l--; l > minLevel && ticker.CountTicks(l) <= o.Max; l-- {")'
expect B8 "$d" C17 tie_failed tie_FindLevel_fuel

echo "== B9 breaking: spacingAtLevel with a slack of 1e-9 instead of 1e-10"
mk B9; d=$D
edit "$d/scale/linear.go" 's.replace("slack := (s.Max - s.Min) * 1e-10", "slack := (s.Max - s.Min) * 1e-9")'
expect B9 "$d" C17 tie_failed tie_Linear_spacingAtLevel

echo "== B10 breaking: Nice moves the lower bound without the outwards-only guard (defect D10 again)"
mk B10; d=$D
edit "$d/scale/linear.go" 's.replace("min <= s.Min && !math.IsInf(min, 0)", "!math.IsInf(min, 0)")'
expect B10 "$d" C17 tie_failed tie_Linear_Nice

echo "== U2 untranslatable: FindLevel's up loop leaves through a break"
mk U2; d=$D
edit "$d/scale/ticks.go" 's.replace("\t\tfor l++; l <= maxLevel && ticker.CountTicks(l) > o.Max; l++ {\n\t\t}", "\t\tfor l++; l <= maxLevel; l++ {\n\t\t\tif ticker.CountTicks(l) <= o.Max {\n\t\t\t\tbreak\n\t\t\t}\n\t\t}")'
expect U2 "$d" C17 translation_failed "break inside a loop"

echo "== H7 harmless: Quantile tests the upper clamp first, interpolates through a temporary, and writes target = target - weight"
mk H7; d=$D
edit "$d/stats/sample.go" 's.replace("\t\tif k <= 0 {\n\t\t\treturn s.Xs[0]\n\t\t} else if k >= len(s.Xs) {\n\t\t\treturn s.Xs[len(s.Xs)-1]\n\t\t}\n\t\treturn s.Xs[k-1] + frac*(s.Xs[k]-s.Xs[k-1])", "\t\tif last := len(s.Xs) - 1; k > last {\n\t\t\treturn s.Xs[last]\n\t\t} else if k < 1 {\n\t\t\treturn s.Xs[0]\n\t\t}\n\t\tlo := s.Xs[k-1]\n\t\treturn lo + (s.Xs[k]-lo)*frac").replace("\t\t\ttarget -= weight\n\t\t\tif target < 0 {", "\t\t\ttarget = target - weight\n\t\t\tif 0 > target {")'
expect H7 "$d" C10 ok

echo "== B11 breaking: Quantile with the R6 plotting position q*(N+1) instead of R8"
mk B11; d=$D
edit "$d/stats/sample.go" 's.replace("n := 1/3.0 + q*(N+1/3.0) // R8", "n := q * (N + 1)")'
expect B11 "$d" C10 tie_failed tie_Sample_Quantile

echo "== B12 breaking: weighted Quantile returns at target <= 0"
mk B12; d=$D
edit "$d/stats/sample.go" 's.replace("\t\t\ttarget -= weight\n\t\t\tif target < 0 {", "\t\t\ttarget -= weight\n\t\t\tif target <= 0 {")'
expect B12 "$d" C10 tie_failed tie_Sample_Quantile

echo "== H8 harmless: Welch test with named temporaries, one square written as a product, sums reordered"
mk H8; d=$D
edit "$d/stats/ttest.go" 's.replace("\tdof := math.Pow(v1/n1+v2/n2, 2) /\n\t\t(math.Pow(v1/n1, 2)/(n1-1) + math.Pow(v2/n2, 2)/(n2-1))\n\ts := math.Sqrt(v1/n1 + v2/n2)", "\ta, b := v1/n1, v2/n2\n\tdof := math.Pow(a+b, 2) / (b*b/(n2-1) + math.Pow(a, 2)/(n1-1))\n\ts := math.Sqrt(b + a)")'
expect H8 "$d" C04 ok

echo "== B13 breaking: pooled t-test with n1+n2-1 degrees of freedom"
mk B13; d=$D
edit "$d/stats/ttest.go" 's.replace("dof := n1 + n2 - 2", "dof := n1 + n2 - 1")'
expect B13 "$d" C04 tie_failed tie_TwoSampleTTest

echo "== B14 breaking: the LocationLess tail is 1 - CDF(t)"
mk B14; d=$D
edit "$d/stats/ttest.go" 's.replace("\tcase LocationLess:\n\t\tp = dist.CDF(t)", "\tcase LocationLess:\n\t\tp = 1 - dist.CDF(t)")'
expect B14 "$d" C04 tie_failed tie_newTTestResult

echo "== H9 harmless: QuantileCI's greedy loop with the right step first (lp < rp) and accum = accum + ..."
mk H9; d=$D
edit "$d/stats/quantileci.go" 's.replace("\t\t\tif lp >= rp { // Left-bias\n\t\t\t\taccum += lp", "\t\t\tif !(lp < rp) { // Left-bias\n\t\t\t\taccum = accum + lp").replace("\t\tif r <= l {\n", "\t\tif l >= r {\n")'
expect H9 "$d" C11 ok

echo "== B15 breaking: the greedy loop prefers the right neighbour on ties (lp > rp)"
mk B15; d=$D
edit "$d/stats/quantileci.go" 's.replace("if lp >= rp { // Left-bias", "if lp > rp {")'
expect B15 "$d" C11 tie_failed tie_QuantileCI_small_fuel

echo "== B16 breaking: the normal branch keeps an empty band when r == l (fix 24cd30f undone in part)"
mk B16; d=$D
edit "$d/stats/quantileci.go" 's.replace("\t\tif r <= l {\n", "\t\tif r < l {\n")'
expect B16 "$d" C11 tie_failed tie_QuantileCI_normal

echo "== H10 harmless: labeledMerge with the branches swapped (x2 first unless x1[i] < x2[j]); rank computed as (rank1+i)/2"
mk H10; d=$D
edit "$d/stats/utest.go" 's.replace("\t\tif x1[i] < x2[j] {\n\t\t\tmerged[o] = x1[i]\n\t\t\tlabels[o] = 1\n\t\t\ti++\n\t\t} else {\n\t\t\tmerged[o] = x2[j]\n\t\t\tlabels[o] = 2\n\t\t\tj++\n\t\t}", "\t\tif !(x1[i] < x2[j]) {\n\t\t\tmerged[o] = x2[j]\n\t\t\tlabels[o] = 2\n\t\t\tj++\n\t\t} else {\n\t\t\tmerged[o] = x1[i]\n\t\t\tlabels[o] = 1\n\t\t\ti++\n\t\t}").replace("rank := float64(i+rank1) / 2", "rank := float64(rank1+i) / 2")'
expect H10 "$d" C01 ok

echo "== B17 breaking: labeledMerge takes x1 first on equal values (<=)"
mk B17; d=$D
edit "$d/stats/utest.go" 's.replace("\t\tif x1[i] < x2[j] {", "\t\tif x1[i] <= x2[j] {")'
expect B17 "$d" C01 tie_failed tie_labeledMerge

echo "== B18 breaking: the average rank of a tie group is off by a half"
mk B18; d=$D
edit "$d/stats/utest.go" 's.replace("rank := float64(i+rank1) / 2", "rank := float64(i+rank1+1) / 2")'
expect B18 "$d" C03 tie_failed tie_MannWhitneyUTest

echo "== B19 breaking: LocationGreater uses CDF(U1) without the half step (defect D3 again)"
mk B19; d=$D
edit "$d/stats/utest.go" 's.replace("p = 1 - dist.CDF(U1-0.5)", "p = 1 - dist.CDF(U1)")'
expect B19 "$d" C01 tie_failed tie_MannWhitneyUTest

echo "== H11 harmless: KDE.PDF tests the two boundary guards in separate ifs"
mk H11; d=$D
edit "$d/stats/kde.go" 's.replace("\tif bc && (x < kde.BoundaryMin || x >= kde.BoundaryMax) {\n\t\treturn 0\n\t}", "\tif bc {\n\t\tif x >= kde.BoundaryMax {\n\t\t\treturn 0\n\t\t}\n\t\tif x < kde.BoundaryMin {\n\t\t\treturn 0\n\t\t}\n\t}")'
expect H11 "$d" C12 ok

echo "== B20 breaking: the second image series of the bounded density reflects with +w (defect D5 again)"
mk B20; d=$D
edit "$d/stats/kde.go" 's.replace("return y(x-(n+1)*d-w) + y(x-(n+1)*d)", "return y(x-(n+1)*d+w) + y(x-(n+1)*d)")'
expect B20 "$d" C12 tie_failed tie_KDE_PDF

echo "== B21 breaking: CDF with an upper bound only subtracts the reflected tail"
mk B21; d=$D
edit "$d/stats/kde.go" 's.replace("return y(x) + (1 - y(2*kde.BoundaryMax-x))", "return y(x) - (1 - y(2*kde.BoundaryMax-x))")'
expect B21 "$d" C12 tie_failed tie_KDE_CDF

echo "== H12 harmless: bisectBool tests fmid != flow first (branches swapped)"
mk H12; d=$D
edit "$d/stats/alg.go" 's.replace("\t\tmid := (high + low) / 2\n\t\tif mid == high || mid == low {\n\t\t\treturn low, high\n\t\t}\n\t\tfmid := f(mid)\n\t\tif fmid == flow {\n\t\t\tlow = mid\n\t\t\tflow = fmid\n\t\t} else {\n\t\t\thigh = mid\n\t\t\tfhigh = fmid\n\t\t}", "\t\tmid := (high + low) / 2\n\t\tif mid == high || mid == low {\n\t\t\treturn low, high\n\t\t}\n\t\tfmid := f(mid)\n\t\tif fmid != flow {\n\t\t\thigh = mid\n\t\t\tfhigh = fmid\n\t\t} else {\n\t\t\tlow = mid\n\t\t\tflow = fmid\n\t\t}")'
expect H12 "$d" C07 ok

echo "== B22 breaking: bisectBool keeps the wrong half"
mk B22; d=$D
edit "$d/stats/alg.go" 's.replace("\t\tif fmid == flow {\n\t\t\tlow = mid\n\t\t\tflow = fmid", "\t\tif fmid != flow {\n\t\t\tlow = mid\n\t\t\tflow = fmid")'
expect B22 "$d" C07 tie_failed tie_bisectBool

echo "== H13 harmless: grow doubles with k *= 2 instead of k <<= 1"
mk H13; d=$D
edit "$d/graph/graphalg/marks.go" 's.replace("\t\tk <<= 1", "\t\tk *= 2")'
expect H13 "$d" C18 ok

echo "== B23 breaking: grow's loop is for k <= n (defect D11 again)"
mk B23; d=$D
edit "$d/graph/graphalg/marks.go" 's.replace("\tfor k < n {", "\tfor k <= n {")'
expect B23 "$d" C18 tie_failed tie_NodeMarks_grow

echo "== B24 breaking: Next starts the word scan at the word of i instead of the next one"
mk B24; d=$D
edit "$d/graph/graphalg/marks.go" 's.replace("for bi := (i / 32) + 1; bi < len(m.marks); bi++ {", "for bi := (i / 32); bi < len(m.marks); bi++ {")'
expect B24 "$d" C18 tie_failed tie_NodeMarks_Next

echo "== H14 harmless: LOESS computes the tricube weight through named cubes; clamps q with q > len(xs)"
mk H14; d=$D
edit "$d/fit/loess.go" 's.replace("\t\t\ttmp := 1 - u*u*u\n\t\t\tweights[i] = tmp * tmp * tmp", "\t\t\tu3 := u * u * u\n\t\t\ttmp := 1 - u3\n\t\t\tweights[i] = tmp * (tmp * tmp)").replace("\tif q >= len(xs) {\n\t\tq = len(xs)\n\t}", "\tif q > len(xs) {\n\t\tq = len(xs)\n\t}")'
expect H14 "$d" C15 ok

echo "== B25 breaking: the LOESS window search uses a strict comparison"
mk B25; d=$D
edit "$d/fit/loess.go" 's.replace("return (xs[i] + xs[i+q]) >= x*2", "return (xs[i] + xs[i+q]) > x*2")'
expect B25 "$d" C15 tie_failed tie_LOESS

echo "== B26 breaking: bisquare instead of tricube weights"
mk B26; d=$D
edit "$d/fit/loess.go" 's.replace("weights[i] = tmp * tmp * tmp", "weights[i] = tmp * tmp")'
expect B26 "$d" C15 tie_failed tie_LOESS

echo "== H15 harmless: Reverse swaps through a temporary and steps the two indices separately"
mk H15; d=$D
edit "$d/graph/graphalg/order.go" 's.replace("\tfor i, j := 0, len(xs)-1; i < j; i, j = i+1, j-1 {\n\t\txs[i], xs[j] = xs[j], xs[i]\n\t}", "\tfor i, j := 0, len(xs)-1; j > i; {\n\t\ttmp := xs[i]\n\t\txs[i] = xs[j]\n\t\txs[j] = tmp\n\t\ti++\n\t\tj--\n\t}")'
expect H15 "$d" C19 ok

echo "== B27 breaking: Reverse stops one swap early"
mk B27; d=$D
edit "$d/graph/graphalg/order.go" 's.replace("i < j; i, j = i+1, j-1 {", "i+2 < j; i, j = i+1, j-1 {")'
expect B27 "$d" C19 tie_failed tie_Reverse

echo "== H16 harmless: intersect compares with > and uses temporaries"
mk H16; d=$D
edit "$d/graph/graphalg/dom.go" 's.replace("\t\tfor poNum[b1] < poNum[b2] {\n\t\t\tb1 = idom[b1]\n\t\t}", "\t\tfor poNum[b2] > poNum[b1] {\n\t\t\tup := idom[b1]\n\t\t\tb1 = up\n\t\t}")'
expect H16 "$d" C19 ok

echo "== B28 breaking: intersect moves the wrong finger in the second loop"
mk B28; d=$D
edit "$d/graph/graphalg/dom.go" 's.replace("\t\tfor poNum[b2] < poNum[b1] {\n\t\t\tb2 = idom[b2]", "\t\tfor poNum[b2] < poNum[b1] {\n\t\t\tb2 = idom[b1]")'
expect B28 "$d" C19 tie_failed tie_intersect

echo "== B29 breaking: BinomialDist.CDF passes k instead of k+1 to BetaInc"
mk B29; d=$D
edit "$d/stats/binomdist.go" 's.replace("return mathx.BetaInc(1-d.P, float64(d.N-ki), k+1)", "return mathx.BetaInc(1-d.P, float64(d.N-ki), k)")'
expect B29 "$d" C06 tie_failed tie_binom_CDF

echo "== H17 harmless: IDom's predecessor loop without continue (nested ifs); the root test inverted"
mk H17; d=$D
edit "$d/graph/graphalg/dom.go" 's.replace("\t\t\t\tif idom[p] == -1 {\n\t\t\t\t\tcontinue\n\t\t\t\t}\n\t\t\t\tif newIdom == -1 {\n\t\t\t\t\tnewIdom = p\n\t\t\t\t\tcontinue\n\t\t\t\t}\n\t\t\t\tnewIdom = intersect(idom, poNum, p, newIdom)", "\t\t\t\tif idom[p] != -1 {\n\t\t\t\t\tif newIdom == -1 {\n\t\t\t\t\t\tnewIdom = p\n\t\t\t\t\t} else {\n\t\t\t\t\t\tnewIdom = intersect(idom, poNum, p, newIdom)\n\t\t\t\t\t}\n\t\t\t\t}")'
expect H17 "$d" C19 ok

echo "== B30 breaking: IDom also uses predecessors that have no idom yet"
mk B30; d=$D
edit "$d/graph/graphalg/dom.go" 's.replace("\t\t\t\tif idom[p] == -1 {\n\t\t\t\t\tcontinue\n\t\t\t\t}\n\t\t\t\tif newIdom == -1 {", "\t\t\t\tif newIdom == -1 {")'
expect B30 "$d" C19 tie_failed tie_IDom

echo "== H18 harmless: PreOrder marks the node before appending it; PostOrder skips visited successors with continue"
mk H18; d=$D
edit "$d/graph/graphalg/order.go" 's.replace("\t\tout = append(out, n)\n\t\tvisited.Mark(n)\n", "\t\tvisited.Mark(n)\n\t\tout = append(out, n)\n").replace("\t\tvisited.Mark(n)\n\t\tfor _, succ := range g.Out(n) {\n\t\t\tif !visited.Test(succ) {\n\t\t\t\tvisit(succ)\n\t\t\t}\n\t\t}\n\t\tout = append(out, n)", "\t\tvisited.Mark(n)\n\t\tfor _, succ := range g.Out(n) {\n\t\t\tif visited.Test(succ) {\n\t\t\t\tcontinue\n\t\t\t}\n\t\t\tvisit(succ)\n\t\t}\n\t\tout = append(out, n)")'
expect H18 "$d" C19 ok

echo "== B31 breaking: PostOrder records the node before its successors (a pre-order)"
mk B31; d=$D
edit "$d/graph/graphalg/order.go" 's.replace("\t\tvisited.Mark(n)\n\t\tfor _, succ := range g.Out(n) {\n\t\t\tif !visited.Test(succ) {\n\t\t\t\tvisit(succ)\n\t\t\t}\n\t\t}\n\t\tout = append(out, n)\n", "\t\tvisited.Mark(n)\n\t\tout = append(out, n)\n\t\tfor _, succ := range g.Out(n) {\n\t\t\tif !visited.Test(succ) {\n\t\t\t\tvisit(succ)\n\t\t\t}\n\t\t}\n")'
expect B31 "$d" C19 tie_failed tie_PostOrder

echo "== B32 breaking: PreOrder visits successors without testing the marks"
mk B32; d=$D
edit "$d/graph/graphalg/order.go" 's.replace("\t\t\tif !visited.Test(succ) {\n\t\t\t\tvisit(succ)\n\t\t\t}\n", "\t\t\tvisit(succ)\n", 1)'
expect B32 "$d" C19 tie_failed tie_PreOrder

echo "== H19 harmless: DomFrontier tests the unreachable predecessor with swapped conjuncts and operands"
mk H19; d=$D
edit "$d/graph/graphalg/dom.go" 's.replace("if pred != root && idom[pred] == -1 {", "if idom[pred] == -1 && root != pred {").replace("if rdf == b {", "if b == rdf {")'
expect H19 "$d" C19 ok

echo "== B33 breaking: DomFrontier walks up from unreachable predecessors too (defect D12 re-introduced)"
mk B33; d=$D
edit "$d/graph/graphalg/dom.go" 's.replace("\t\t\tif pred != root && idom[pred] == -1 {\n\t\t\t\t// pred is unreachable from root.\n\t\t\t\tcontinue\n\t\t\t}\n", "")'
expect B33 "$d" C19 tie_failed tie_DomFrontier

echo "== B34 breaking: DomFrontier's membership test compares with the runner instead of b"
mk B34; d=$D
edit "$d/graph/graphalg/dom.go" 's.replace("\t\t\t\t\tif rdf == b {", "\t\t\t\t\tif rdf == runner {")'
expect B34 "$d" C19 tie_failed tie_DomFrontier

echo "== H20 harmless: the InvCDF closure tests its guards and the bracket loop condition in the other order"
mk H20; d=$D
edit "$d/stats/dist.go" 's.replace("for hiY < y && hiX != inf {", "for hiX != inf && hiY < y {").replace("if y < 0 || y > 1 {", "if y > 1 || y < 0 {")'
expect H20 "$d" C07 ok

echo "== B35 breaking: the bracket expansion triples its step"
mk B35; d=$D
edit "$d/stats/dist.go" 's.replace("\t\t\t\thiY = dist.CDF(hiX)\n\t\t\t\txdelta *= 2", "\t\t\t\thiY = dist.CDF(hiX)\n\t\t\t\txdelta *= 3")'
expect B35 "$d" C07 tie_failed tie_InvCDF_bracket

echo "== B36 breaking: InvCDF(0) of a distribution with finite support returns 0 instead of the lower bound"
mk B36; d=$D
edit "$d/stats/dist.go" 's.replace("\t\t\tif dist.CDF(l) == 0 {\n\t\t\t\t// Finite support\n\t\t\t\treturn l", "\t\t\tif dist.CDF(l) == 0 {\n\t\t\t\t// Finite support\n\t\t\t\treturn 0")'
expect B36 "$d" C07 tie_failed tie_InvCDF_special

if [ $FULL = 1 ]; then
  echo "== full check on B1: both ties report (correspondence finds a failing input)"
  out=$(VERIF_REPO="$B1" bin/check C13 quick 2>&1); rc=$?
  if [ $rc = 1 ] && printf '%s' "$out" | grep -q "^VIOLATION property=C13 replay=replays/C13-case-" && printf '%s' "$out" | grep -q "T-TIE PROBLEM"; then
    echo "ok   B1 full: VIOLATION with a case replay, and the tie failure is logged"
  else echo "FAIL B1 full (rc=$rc)"; printf '%s\n' "$out" | tail -8; fail=1; fi
  echo "== full check on U1: only the T-tie can see it"
  out=$(VERIF_REPO="$U1" bin/check C13 quick 2>&1); rc=$?
  if [ $rc = 1 ] && printf '%s' "$out" | grep -q "^VIOLATION property=C13 replay=replays/C13-proof-.* no-failing-input-found"; then
    echo "ok   U1 full: VIOLATION ... no-failing-input-found"
  else echo "FAIL U1 full (rc=$rc)"; printf '%s\n' "$out" | tail -8; fail=1; fi
fi

if [ $fail = 0 ]; then echo "selftest: all expectations met"; else echo "selftest: FAILURES"; fi
exit $fail

module tsem

go 1.22

// Prints one Coq Example per native evaluation of the functions of package sem.
package main

import (
	"fmt"
	"math/big"
	"strings"

	"tsem/sem"
)

var n = 0

func z(i int64) string  { return fmt.Sprintf("(%d)%%Z", i) }
func u(i uint64) string { return fmt.Sprintf("(%d)%%N", i) }
func q(f float64) string {
	r := new(big.Rat)
	r.SetFloat64(f)
	if r.Sign() < 0 {
		return fmt.Sprintf("((%s) # %s)", r.Num(), r.Denom())
	}
	return fmt.Sprintf("(%s # %s)", r.Num(), r.Denom())
}
func b(x bool) string { return fmt.Sprint(x) }
func ql(xs []float64) string {
	var p []string
	for _, x := range xs {
		p = append(p, q(x))
	}
	return "[" + strings.Join(p, "; ") + "]"
}
func zl(xs []int) string {
	var p []string
	for _, x := range xs {
		p = append(p, z(int64(x)))
	}
	return "[" + strings.Join(p, "; ") + "]"
}
func ul(xs []uint) string {
	var p []string
	for _, x := range xs {
		p = append(p, u(uint64(x)))
	}
	return "(" + "[" + strings.Join(p, "; ") + "] : list N)"
}

// eq: results without rationals are compared with =, rationals with Qeq_bool
func eq(lhs, rhs string) {
	n++
	fmt.Printf("Example t%d : %s = %s. Proof. vm_compute. reflexivity. Qed.\n", n, lhs, rhs)
}
func qeq(lhs, rhs string) {
	n++
	fmt.Printf("Example t%d : Qeq_bool (%s) %s = true. Proof. vm_compute. reflexivity. Qed.\n", n, lhs, rhs)
}
func qleq(lhs, rhs string) {
	n++
	fmt.Printf("Example t%d : qlist_eqb (%s) %s = true. Proof. vm_compute. reflexivity. Qed.\n", n, lhs, rhs)
}

func main() {
	for _, p := range [][2]int{{7, 2}, {-7, 2}, {7, -2}, {-7, -2}, {0, 5}, {-9223372036854775808, -1}, {9223372036854775807, 3}} {
		a, c := sem.QuotRem(p[0], p[1])
		eq(fmt.Sprintf("gen_QuotRem %s %s", z(int64(p[0])), z(int64(p[1]))), fmt.Sprintf("(%s, %s)", z(int64(a)), z(int64(c))))
	}
	for _, a := range []int{0, 3, -3, 6000, -123456, 9223372036854775807} {
		eq("gen_Wrap "+z(int64(a)), z(int64(sem.Wrap(a))))
		eq("gen_Neg "+z(int64(a)), z(int64(sem.Neg(a))))
	}
	for _, p := range [][2]uint{{5, 3}, {3, 5}, {0, 1}, {18446744073709551615, 2}, {1 << 63, 1 << 63}} {
		eq(fmt.Sprintf("gen_USub %s %s", u(uint64(p[0])), u(uint64(p[1]))), u(uint64(sem.USub(p[0], p[1]))))
		eq(fmt.Sprintf("gen_UMix %s %s", u(uint64(p[0])), u(uint64(p[1]))), u(uint64(sem.UMix(p[0], p[1]))))
	}
	for _, w := range []uint32{0, 1, 0xdeadbeef, 0xffffffff, 0x80000000} {
		for _, i := range []int{0, 5, 31, 32, 77} {
			eq(fmt.Sprintf("gen_Bits %s %s", u(uint64(w)), z(int64(i))), u(uint64(sem.Bits(w, i))))
		}
	}
	for _, x := range []float64{0, 2.5, -2.5, 7, -7, 0.999, -0.001, 1e9 + 0.5} {
		a, c, d, e, f := sem.Conv(x, -3, 12)
		n++
		fmt.Printf("Example t%d : (let '(a, c, d, e, f) := gen_Conv %s (-3)%%Z (12)%%N in (a, c, d, e, Qeq_bool f %s)) = (%s, %s, %s, %s, true). Proof. vm_compute. reflexivity. Qed.\n",
			n, q(x), q(f), z(int64(a)), z(int64(c)), z(int64(d)), u(uint64(e)))
	}
	for _, k := range []int{0, -1, 300, 1 << 33, -(1 << 31) - 5, 4294967297} {
		a, c, d := sem.Narrow(k)
		eq("gen_Narrow "+z(int64(k)), fmt.Sprintf("(%s, %s, %s)", z(int64(a)), u(uint64(c)), u(uint64(d))))
	}
	for _, x := range []float64{-1, 0, 0.5, 1, 2, 3.75} {
		qeq(fmt.Sprintf("gen_Clamp3 %s %s %s", q(x), q(0.25), q(2)), q(sem.Clamp3(x, 0.25, 2)))
		for _, f := range []bool{true, false} {
			qeq(fmt.Sprintf("gen_Join %s %s", q(x), b(f)), q(sem.Join(x, f)))
		}
		for _, k := range []int{0, 1, 2, 3, -4} {
			qeq(fmt.Sprintf("gen_Switchy %s %s", z(int64(k)), q(x)), q(sem.Switchy(k, x)))
		}
	}
	xs := []float64{1.5, -2, 0.25, 4, 3, 0, 2.75, 8}
	// float results must be exact: divisions only by powers of two
	for _, k := range []int{1, 2, 4, 8} {
		qeq("gen_SumSq "+ql(xs[:k]), q(sem.SumSq(xs[:k])))
		qleq("gen_Fill "+ql(xs[:k]), ql(sem.Fill(xs[:k])))
	}
	for _, k := range []int{0, 1, 3, 7} { // RunAcc adds one more sample: counts 1, 2, 4, 8
		m, mn, cnt, h := sem.RunAcc(xs[:k], 4)
		n++
		fmt.Printf("Example t%d : (let '(m, mn, c, h) := gen_RunAcc %s (4)%%Z in (Qeq_bool m %s, Qeq_bool mn %s, c, h)) = (true, true, %s, %s). Proof. vm_compute. reflexivity. Qed.\n",
			n, ql(xs[:k]), q(m), q(mn), u(uint64(cnt)), ul(h))
	}
	is := []int{4, -1, 7, 7, 0, 9}
	for _, v := range []int{4, 7, 9, 5} {
		eq(fmt.Sprintf("gen_FindFirst %s %s", zl(is), z(int64(v))), z(int64(sem.FindFirst(is, v))))
	}
	eq("gen_FindFirst (@nil Z) (1)%Z", z(int64(sem.FindFirst(nil, 1))))
	for _, k := range []int{0, 1, 5, 12, -3} {
		eq("gen_CountDown "+z(int64(k)), z(int64(sem.CountDown(k))))
		a, c := sem.Fib(k)
		eq("gen_Fib "+z(int64(k)), fmt.Sprintf("(%s, %s)", z(int64(a)), z(int64(c))))
	}
	a, c := sem.Fib(95) // wraps
	eq("gen_Fib (95)%Z", fmt.Sprintf("(%s, %s)", z(int64(a)), z(int64(c))))
	// ---- loops with fuel
	opt := func(s string) string { return "Some (" + s + ")" }
	for _, x := range []float64{0.75, 3, 10, 12.5} {
		n++
		fmt.Printf("Example t%d : match gen_WhileDouble 100 %s with Some r => Qeq_bool r %s | None => false end = true. Proof. vm_compute. reflexivity. Qed.\n", n, q(x), q(sem.WhileDouble(x)))
	}
	eq("gen_WhileDouble 3 "+q(0.75), "None")
	eq("gen_WhileDouble 4 "+q(0.75), "None")
	n++
	fmt.Printf("Example t%d : match gen_WhileDouble 5 %s with Some r => Qeq_bool r %s | None => false end = true. Proof. vm_compute. reflexivity. Qed.\n", n, q(0.75), q(sem.WhileDouble(0.75)))
	for _, k := range []int{1, 2, 6, 7, 27, 97} {
		eq("gen_Collatz 200 "+z(int64(k)), opt(z(int64(sem.Collatz(k)))))
		eq("gen_UseCollatz 200 "+z(int64(k)), opt(z(int64(sem.UseCollatz(k)))))
	}
	eq("gen_Collatz 111 (27)%Z", "None")
	eq("gen_Collatz 112 (27)%Z", opt(z(int64(sem.Collatz(27)))))
	eq("gen_UseCollatz 50 (27)%Z", "None")
	for _, k := range []int{0, 1, 5, 10, 11} {
		eq("gen_SkipSum 100 "+z(int64(k)), opt(z(int64(sem.SkipSum(k)))))
	}
	for _, p := range [][2]int{{2, 100}, {3, 1}, {10, 0}, {0, 5}, {1 << 31, 1 << 62}} {
		a, c := sem.FirstPow(p[0], p[1])
		eq(fmt.Sprintf("gen_FirstPow 100 %s %s", z(int64(p[0])), z(int64(p[1]))), opt(fmt.Sprintf("%s, %s", z(int64(a)), b(c))))
	}
	eq("gen_FirstPow 3 (2)%Z (100)%Z", "None")
	for _, l := range [][]int{{}, {1}, {6, 7, 3}, {6, 27, 3}, {97, 1}} {
		eq("gen_SumCollatz 200 "+zl(l), opt(z(int64(sem.SumCollatz(l)))))
	}
	eq("gen_SumCollatz 10 "+zl([]int{6, 7, 3}), "None")
	for _, p := range [][2]int{{0, 5}, {4, 6}, {12, 18}, {7, 0}} {
		eq(fmt.Sprintf("gen_Gcds 50 %s %s", z(int64(p[0])), z(int64(p[1]))), opt(z(int64(sem.Gcds(p[0], p[1])))))
	}
	eq("gen_Gcds 3 (12)%Z (18)%Z", "None")
	// ---- devirtualised interface argument, interface{} result, decimal literal
	for _, p := range [][2]int{{2, 0}, {2, 4}, {-3, 5}} {
		eq(fmt.Sprintf("gen_UseApply %s %s", z(int64(p[0])), z(int64(p[1]))), z(int64(sem.UseApply(p[0], p[1]))))
	}
	eq("gen_Apply (fun i => (7 * i)%Z) (4)%Z", "(42)%Z")
	for _, x := range []float64{1.5, -2, 0} {
		qeq("gen_UseAny "+q(x), q(sem.UseAny(x)))
	}
	for _, x := range []float64{10, 20, 0, -50} {
		qeq("gen_Tenth "+q(x), q(sem.Tenth(x)))
	}
	// ---- second batch
	for _, p := range []struct {
		xs []int
		k  int
	}{{nil, 3}, {[]int{1, -2, 3}, 7}} {
		eq(fmt.Sprintf("gen_AppendSq %s %s", zl(p.xs), z(int64(p.k))), zl(sem.AppendSq(p.xs, p.k)))
	}
	ws := []float64{1.5, 2, -0.25, 8, 3}
	for _, p := range [][2]int{{0, 5}, {1, 2}, {4, 1}, {2, 0}} {
		qeq(fmt.Sprintf("gen_Window %s %s %s", ql(ws), z(int64(p[0])), z(int64(p[1]))), q(sem.Window(ws, p[0], p[1])))
	}
	for _, p := range [][2][]int{{{1, 2, 3}, {9}}, {{1, 2}, {7, 8, 9}}, {{}, {1}}, {{4, 5}, {}}} {
		eq(fmt.Sprintf("gen_CopyInto %s %s", zl(p[0]), zl(p[1])), zl(sem.CopyInto(p[0], p[1])))
	}
	eq("gen_NilOrLen (@nil Q)", z(int64(sem.NilOrLen(nil))))
	for _, k := range []int{1, 2, 5} {
		eq("gen_NilOrLen "+ql(ws[:k]), z(int64(sem.NilOrLen(ws[:k]))))
	}
	for _, x := range []float64{2.75, -2.75, 0, 5, -0.5} {
		ip, fr := sem.ModfParts(x)
		n++
		fmt.Printf("Example t%d : (let '(a, b) := gen_ModfParts %s in (Qeq_bool a %s, Qeq_bool b %s)) = (true, true). Proof. vm_compute. reflexivity. Qed.\n", n, q(x), q(ip), q(fr))
	}
	for _, k := range []int{-4, 0, 1, 15, 16, 17} {
		r, err := sem.SqrtInt(k)
		e := "None"
		if err != nil {
			e = "Some 77%N"
		}
		eq(fmt.Sprintf("gen_SqrtInt 77%%N 100 %s", z(int64(k))), opt(fmt.Sprintf("%s, %s", z(int64(r)), e)))
	}
	eq("gen_SqrtInt 77%N 3 (16)%Z", "None")
	for _, p := range [][2]float64{{0.5, 3}, {-1, 0.25}, {2, -8}} {
		qeq(fmt.Sprintf("gen_Closures %s %s", q(p[0]), q(p[1])), q(sem.Closures(p[0], p[1])))
	}
	for _, k := range []int{0, -5, 41} {
		eq("gen_DebugOff "+z(int64(k)), z(int64(sem.DebugOff(k))))
	}
	for _, p := range [][2]int{{1, 0}, {3, 4}, {-3, 62}, {1, 63}, {5, 64}, {-1, 3}} {
		eq(fmt.Sprintf("gen_ShiftL %s %s", z(int64(p[0])), z(int64(p[1]))), z(int64(sem.ShiftL(p[0], p[1]))))
	}
	// the opaque sort.Float64s is instantiated with an insertion sort written in Gallina (SemTest.v preamble)
	for _, l := range [][]float64{{3}, {2, 1}, {5, -1, 4, 0.5, 2}} {
		qeq("gen_SortedMid qsort "+ql(l), q(sem.SortedMid(l)))
	}
	for _, l := range [][]int{{}, {1, -2, 7, 3}, {-1, -1}, {7, 7, 5}} {
		eq("gen_SumSkip "+zl(l), z(int64(sem.SumSkip(l))))
	}
	for _, p := range []struct {
		xs  []int
		lim int
	}{{[]int{2, 4, 6}, 1}, {[]int{1, 2, 9, 11}, 5}, {[]int{3, 5}, 10}, {nil, 0}} {
		eq(fmt.Sprintf("gen_FirstBig %s %s", zl(p.xs), z(int64(p.lim))), z(int64(sem.FirstBig(p.xs, p.lim))))
	}
	// ---- recursive closures (go_rec)
	for _, l := range [][]int{{}, {5}, {1, 2, 3}, {4, -9, 7, 100, 3}} {
		eq("gen_RecSum 50 "+zl(l), opt(z(int64(sem.RecSum(l)))))
	}
	eq("gen_RecSum 3 "+zl([]int{1, 2, 3}), "None")
	eq("gen_RecSum 4 "+zl([]int{1, 2, 3}), opt(z(int64(sem.RecSum([]int{1, 2, 3})))))
	tl, tr := []int{1, 3, -1, -1, -1, -1}, []int{2, 4, 5, -1, -1, -1}
	for _, r := range []int{0, 1, 2, 5, -1, 9} {
		o, d := sem.TreeOrder(tl, tr, r)
		eq(fmt.Sprintf("gen_TreeOrder 20 %s %s %s", zl(tl), zl(tr), z(int64(r))), opt(fmt.Sprintf("%s, %s", zl(o), z(int64(d)))))
	}
	eq(fmt.Sprintf("gen_TreeOrder 3 %s %s (0)%%Z", zl(tl), zl(tr)), "None")
	off, adj := []int{0, 2, 4, 5, 6, 6}, []int{1, 2, 3, 0, 3, 1}
	for _, r := range []int{0, 1, 2, 3, 4} {
		eq(fmt.Sprintf("gen_Reach 20 %s %s %s", zl(off), zl(adj), z(int64(r))), opt(zl(sem.Reach(off, adj, r))))
	}
	eq(fmt.Sprintf("gen_Reach 2 %s %s (0)%%Z", zl(off), zl(adj)), "None")
	// ---- a function that returns a closure (uncurried), comma-ok assertion, method value
	for _, p := range [][2]int{{3, 10}, {1, 0}, {5, 23}, {2, 7}} {
		eq(fmt.Sprintf("gen_MakeScale (fun x => (100 - x)%%Z) false (fun x => (2 * x + 1)%%Z) 40 %s %s", z(int64(p[0])), z(int64(p[1]))),
			opt(z(int64(sem.MakeScale(sem.Dbl{}, p[0])(p[1])))))
		eq(fmt.Sprintf("gen_MakeScale (fun x => (100 - x)%%Z) true (fun x => (2 * x + 1)%%Z) 40 %s %s", z(int64(p[0])), z(int64(p[1]))),
			opt(z(int64(sem.MakeScale(sem.Quick{}, p[0])(p[1])))))
	}
	eq("gen_MakeScale (fun x => (100 - x)%Z) false (fun x => (2 * x + 1)%Z) 2 (1)%Z (7)%Z", "None")
	// ---- goto found out of a search loop
	for _, p := range [][2][]int{{{1, 2, 3}, {2, 5, 5, 1, 7}}, {{}, {4, 4}}, {{9}, {}}, {{3, 3}, {3, 8}}} {
		eq(fmt.Sprintf("gen_AddUnique %s %s", zl(p[0]), zl(p[1])), zl(sem.AddUnique(append([]int{}, p[0]...), p[1])))
		a, l := sem.CountNew(append([]int{}, p[0]...), p[1])
		eq(fmt.Sprintf("gen_CountNew %s %s", zl(p[0]), zl(p[1])), fmt.Sprintf("(%s, %s)", z(int64(a)), z(int64(l))))
	}
}

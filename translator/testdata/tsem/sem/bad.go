package sem

import "math"

// Functions that are OUTSIDE the go2coq subset: the translator must refuse each of them with
// a message naming the construct (bad_expect.txt); translator/selftest.sh checks that.

func BadSqrt(x float64) float64 { return math.Log(x) }

func BadMap(k int) float64 {
	m := map[int]float64{1: 2}
	return m[k]
}

func BadBreak(xs []int) int {
	s := 0
	for _, x := range xs {
		if x < 0 {
			break
		}
		s += x
	}
	return s
}

func BadRangeMod(xs []float64) float64 {
	s := 0.0
	for i, x := range xs {
		if i+1 < len(xs) {
			xs[i+1] = x
		}
		s += x
	}
	return s
}

func BadParallel(a []int) int {
	i := 0
	i, a[i] = 1, 2
	return i
}

// Go closures capture by reference: x is assigned after f captured it
func BadClosure(x float64) float64 {
	f := func(y float64) float64 { return y + x }
	x = 2
	return f(1)
}

// a sub-slice shares memory with xs: the write through w would be lost
func BadAppend(xs []float64) []float64 {
	w := xs[1:]
	w[0] = 1
	return xs
}

func BadSlice(xs []float64) []float64 { return xs[0:1:2] }

func BadRecursion(n int) int {
	if n <= 0 {
		return 0
	}
	return n + BadRecursion(n-1)
}

func BadGo(x float64) float64 {
	go WhileDouble(x)
	return x
}

func BadString(s string) int { return len(s) }

func BadPtr(x float64) float64 {
	p := &x
	return *p
}

func BadShiftSigned(k int) int { return k >> 1 }

func BadFloat32(x float32) float32 { return x * 2 }

type other struct{ v float64 }

func (o *other) set(a *Acc) { a.S = o.v }

func BadOtherPtr(a *Acc, o *other) {
	o.set(a)
}

// a call of a function with fuel nested in an expression
func BadFuelExpr(n int) int { return 2 * Collatz(n) }

func BadWhileBreak(x float64) float64 {
	for x < 10 {
		if x < 0 {
			break
		}
		x *= 2
	}
	return x
}

// an interface value chosen at run time: the opaque method would stand for two different values
func BadIfaceTwo(a, b Counter, pick bool) int {
	c := a
	if pick {
		c = b
	}
	return c.Count(1)
}

func BadAssert(v interface{}) float64 { return v.(float64) }

// the opaque name cntf stands for Counter.Count (int -> int) and for math.Sqrt (float -> float)
func BadOpaqueClash(c Counter, x float64) float64 { return math.Sqrt(x) + float64(c.Count(1)) }

func BadClosureLoop(xs []float64) float64 {
	s := 0.0
	for _, x := range xs {
		f := func(y float64) float64 { return y * 2 }
		s += f(x)
	}
	return s
}

// continue in a for-cond loop would have to run the post statement
func BadContinueWhile(x float64) float64 {
	for x < 10 {
		x *= 2
		if x < 3 {
			continue
		}
		x++
	}
	return x
}

// a recursive closure with a result
func BadRecResult(n int) int {
	var fact func(k int) int
	fact = func(k int) int {
		if k <= 1 {
			return 1
		}
		return k * fact(k-1)
	}
	return fact(n)
}

// a recursive closure used as a value
func BadRecEscape(n int) int {
	total := 0
	var f func(k int)
	f = func(k int) {
		if k > 0 {
			total += k
			f(k - 1)
		}
	}
	g := f
	g(n)
	return total
}

// a backward goto
func BadGotoBack(n int) int {
	i := 0
loop:
	i++
	if i < n {
		goto loop
	}
	return i
}

// goto out of a loop that is not a pure search loop
func BadGotoLoop(xs []int, v int) int {
	k := 0
	for _, x := range xs {
		if x == v {
			goto found
		}
		k++
	}
	k = -1
found:
	return k
}

// a call of a function that returns a closure
func BadCurriedCall(k int) int {
	f := MakeScale(Dbl{}, k)
	return f(10)
}

// comma-ok assertion to a concrete type
func BadAssertOk(s Scaler) int {
	if d, ok := s.(Dbl); ok {
		return d.Scale(1)
	}
	return 0
}

package sem

import (
	"errors"
	"math"
	"sort"
)

// Constructs added with the loops-with-fuel extension: for-cond loops, three-clause loops
// that are not counting loops, early return from such loops, calls of functions that take
// fuel (as statements, inside range loops), interface arguments of concrete type
// (devirtualisation), interface{} results of one concrete type with x.(T), decimal literals.

func WhileDouble(x float64) float64 {
	for x < 10 {
		x *= 2
	}
	return x
}

func Collatz(n int) int {
	steps := 0
	for n != 1 {
		if n%2 == 0 {
			n /= 2
		} else {
			n = 3*n + 1
		}
		steps++
	}
	return steps
}

// three-clause loop whose variable is changed by the body: not a counting loop
func SkipSum(n int) int {
	s := 0
	for i := 0; i < n; i++ {
		s += i
		if i%3 == 0 {
			i++
		}
	}
	return s
}

// early return from a loop without condition
func FirstPow(b, lim int) (int, bool) {
	for p := 1; ; p *= b {
		if p > lim {
			return p, true
		}
		if p <= 0 {
			return 0, false
		}
	}
}

func UseCollatz(n int) int {
	c := Collatz(n)
	return c + 1
}

func SumCollatz(ns []int) int {
	s := 0
	for _, n := range ns {
		c := Collatz(n)
		if c > 100 {
			return -1
		}
		s += c
	}
	return s
}

// nested for-cond loops
func Gcds(a, b int) int {
	g := 0
	for a > 0 {
		x, y := a, b
		for y != 0 {
			x, y = y, x%y
		}
		g += x
		a--
	}
	return g
}

type Counter interface {
	Count(i int) int
}

type sq struct{ k int }

func (s sq) Count(i int) int { return s.k * i * i }

func Apply(c Counter, n int) int {
	t := 0
	for i := 0; i < n; i++ {
		t += c.Count(i)
	}
	return t
}

func UseApply(k, n int) int { return Apply(sq{k}, n) + 1 }

func AnyRes(x float64) interface{} { return []float64{x, 2 * x} }

func UseAny(x float64) float64 {
	v := AnyRes(x).([]float64)
	return v[1]
}

func Tenth(x float64) float64 { return x * 0.1 }

// ---- round 3, second batch: append, slice expressions, copy, nil comparison, math.Modf, error
// results, function literals capturing values, constant conditions, signed shift, in-place
// opaque functions (the opaque ones are given a concrete meaning by the test driver)

func AppendSq(xs []int, k int) []int {
	out := []int{}
	for _, x := range xs {
		out = append(out, x*x)
	}
	out = append(out, k, k+1)
	return append([]int(nil), out...)
}

func Window(xs []float64, lo, n int) float64 {
	w := xs[lo : lo+n]
	s := 0.0
	for _, x := range w {
		s += x
	}
	return s + float64(len(xs[lo:])) + float64(len(xs[:lo]))
}

func CopyInto(dst, src []int) []int {
	tmp := make([]int, len(dst))
	copy(tmp, dst)
	copy(tmp, src)
	return tmp
}

func NilOrLen(xs []float64) int {
	if xs == nil {
		return -1
	}
	if xs != nil && len(xs) > 2 {
		return 2
	}
	return len(xs)
}

func ModfParts(x float64) (float64, float64) {
	ip, fr := math.Modf(x)
	return ip, fr
}

var ErrNeg = errors.New("negative")

func SqrtInt(n int) (int, error) {
	if n < 0 {
		return 0, ErrNeg
	}
	r := 0
	for (r+1)*(r+1) <= n {
		r++
	}
	return r, nil
}

func Closures(a, x float64) float64 {
	scale := a * 2
	f := func(t float64) float64 { return scale*t + 1 }
	g := func(t float64, k int) float64 {
		if k > 0 {
			return f(t) * float64(k)
		}
		return f(-t)
	}
	return g(x, 2) + g(x, 0)
}

func DebugOff(x int) int {
	const debug = false
	if debug {
		x = x * 1000
	}
	if !debug {
		x++
	}
	return x
}

func ShiftL(k, c int) int { return k << uint(c) }

func SortedMid(xs []float64) float64 {
	ys := append([]float64(nil), xs...)
	sort.Float64s(ys)
	return ys[len(ys)/2]
}

// continue in range and counting loops (with and without an early return in the same loop)
func SumSkip(xs []int) int {
	s := 0
	for _, x := range xs {
		if x < 0 {
			continue
		}
		if x == 7 {
			s += 100
			continue
		}
		s += x
	}
	return s
}

func FirstBig(xs []int, lim int) int {
	seen := 0
	for i := 0; i < len(xs); i++ {
		if xs[i]%2 == 0 {
			continue
		}
		seen++
		if xs[i] > lim {
			return i*1000 + seen
		}
	}
	return -seen
}

// recursive closures over captured mutable state (translated to go_rec)
func RecSum(xs []int) int {
	total := 0
	var walk func(i int)
	walk = func(i int) {
		if i >= len(xs) {
			return
		}
		total += xs[i]
		walk(i + 1)
	}
	walk(0)
	return total
}

// in-order traversal of a binary tree given by child indices (-1: none); two parameters,
// two captured variables, an early return
func TreeOrder(left, right []int, root int) ([]int, int) {
	order := []int{}
	depthMax := 0
	var visit func(n, depth int)
	visit = func(n, depth int) {
		if n < 0 || n >= len(left) {
			return
		}
		if depth > depthMax {
			depthMax = depth
		}
		visit(left[n], depth+1)
		order = append(order, n)
		visit(right[n], depth+1)
	}
	visit(root, 0)
	return order, depthMax
}

// depth-first search over adjacency lists adj[off[n]:off[n+1]]: the recursive call stands
// inside a loop, the visited set is a captured slice updated in place
func Reach(off, adj []int, root int) []int {
	seen := make([]bool, len(off)-1)
	out := []int{}
	var visit func(n int)
	visit = func(n int) {
		seen[n] = true
		out = append(out, n)
		for i := off[n]; i < off[n+1]; i++ {
			if !seen[adj[i]] {
				visit(adj[i])
			}
		}
	}
	visit(root)
	return out
}

// goto found out of a search loop (translated to existsb)
func AddUnique(xs []int, vs []int) []int {
	for _, v := range vs {
		for _, x := range xs {
			if x == v {
				goto found
			}
		}
		xs = append(xs, v)
	found:
	}
	return xs
}

func CountNew(xs, vs []int) (int, int) {
	added, seen := 0, 0
	for _, v := range vs {
		for i, x := range xs {
			if x == v && i >= 1 {
				goto found
			}
		}
		xs = append(xs, v)
		added++
	found:
		seen++
	}
	return added*100 + seen, len(xs)
}

// a function that returns a closure (translated uncurried); comma-ok assertion to an interface type;
// a method value as the returned function
type Scaler interface{ Scale(x int) int }
type fastScaler interface{ Fast(x int) int }

type Dbl struct{}

func (Dbl) Scale(x int) int { return 2*x + 1 }

type Quick struct{ Dbl }

func (Quick) Fast(x int) int { return 100 - x }

func MakeScale(s Scaler, k int) func(x int) (r int) {
	if s, ok := s.(fastScaler); ok {
		return s.Fast
	}
	k2 := k * 2
	return func(x int) (r int) {
		for r < x {
			r += k2
		}
		r = s.Scale(r)
		return
	}
}

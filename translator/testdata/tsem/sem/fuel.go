package sem

// Constructs added with the loops-with-fuel extension: for-cond loops, three-clause loops
// that are not counting loops, early return from such loops, calls of functions that take
// fuel (as statements, inside range loops), interface arguments of concrete type
// (devirtualisation), interface{} results of one concrete type with x.(T), decimal literals.

func WhileDouble(x float64) float64 {
	for x < 10 {
		x *= 2
	}
	return x
}

func Collatz(n int) int {
	steps := 0
	for n != 1 {
		if n%2 == 0 {
			n /= 2
		} else {
			n = 3*n + 1
		}
		steps++
	}
	return steps
}

// three-clause loop whose variable is changed by the body: not a counting loop
func SkipSum(n int) int {
	s := 0
	for i := 0; i < n; i++ {
		s += i
		if i%3 == 0 {
			i++
		}
	}
	return s
}

// early return from a loop without condition
func FirstPow(b, lim int) (int, bool) {
	for p := 1; ; p *= b {
		if p > lim {
			return p, true
		}
		if p <= 0 {
			return 0, false
		}
	}
}

func UseCollatz(n int) int {
	c := Collatz(n)
	return c + 1
}

func SumCollatz(ns []int) int {
	s := 0
	for _, n := range ns {
		c := Collatz(n)
		if c > 100 {
			return -1
		}
		s += c
	}
	return s
}

// nested for-cond loops
func Gcds(a, b int) int {
	g := 0
	for a > 0 {
		x, y := a, b
		for y != 0 {
			x, y = y, x%y
		}
		g += x
		a--
	}
	return g
}

type Counter interface {
	Count(i int) int
}

type sq struct{ k int }

func (s sq) Count(i int) int { return s.k * i * i }

func Apply(c Counter, n int) int {
	t := 0
	for i := 0; i < n; i++ {
		t += c.Count(i)
	}
	return t
}

func UseApply(k, n int) int { return Apply(sq{k}, n) + 1 }

func AnyRes(x float64) interface{} { return []float64{x, 2 * x} }

func UseAny(x float64) float64 {
	v := AnyRes(x).([]float64)
	return v[1]
}

func Tenth(x float64) float64 { return x * 0.1 }

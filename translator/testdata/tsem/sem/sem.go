// Package sem exercises every construct of the go2coq subset.  translator/selftest.sh runs
// these functions natively (main.go prints Coq Examples with the observed results) and checks
// by vm_compute that the generated Gallina definitions produce the same values.
package sem

import "math"

func QuotRem(a, b int) (int, int) { return a / b, a % b }

func Wrap(a int) int { return a*a*a*a*a - a }

func Neg(a int) int { return -a * 3 }

func USub(a, b uint) uint { return a - b }

func UMix(a, b uint) uint { return (a+b)*b/3 + a%7 }

func Bits(w uint32, i int) uint32 {
	x := w | 1<<uint(i%32)
	x &^= w >> 3
	x ^= 0xff
	if x&(1<<5) != 0 {
		x = ^x
	}
	return x << 2
}

func Conv(x float64, k int, u uint) (int, int, int, uint, float64) {
	return int(x), int(math.Floor(x)), int(math.Ceil(x)), uint(int(u) + k), float64(k)*0.5 + float64(u)
}

func Narrow(k int) (int32, uint32, uint8) { return int32(k), uint32(k), uint8(k) }

func Clamp3(x, lo, hi float64) float64 {
	if x < lo {
		return lo
	} else if x > hi {
		return hi
	}
	return x
}

func Join(x float64, flag bool) float64 {
	y, z := x, 1.0
	if flag && x >= 0 || x == -1 {
		y = y * 2
		z += y
	} else if !flag {
		z -= 0.25
	}
	return y + z*math.Abs(x) + math.Max(x, z) - math.Min(y, 3)
}

func SumSq(xs []float64) float64 {
	s := 0.0
	for _, x := range xs {
		s += x * x
	}
	return s / float64(len(xs))
}

func FindFirst(xs []int, v int) int {
	for i, x := range xs {
		if x == v {
			return i
		}
	}
	return -1
}

func CountDown(n int) int {
	s := 0
	for i := n; i > 0; i-- {
		s += i * i
	}
	for j := 0; j <= n; j++ {
		s -= j
	}
	return s
}

func Switchy(k int, x float64) float64 {
	switch k {
	case 0, 1:
		return x
	case 2:
		x = x * x
	default:
		x = -x
	}
	return x + 1
}

func Fib(n int) (a int, b int) {
	a, b = 0, 1
	for i := 0; i < n; i++ {
		a, b = b, a+b
	}
	return
}

type Acc struct {
	N      uint
	S, Min float64
	Hist   []uint
}

func (a *Acc) Add(x float64) {
	if a.N == 0 || x < a.Min {
		a.Min = x
	}
	a.N++
	a.S += x
	if k := int(math.Floor(x)); k >= 0 && k < len(a.Hist) {
		a.Hist[k]++
	}
}

func (a *Acc) Merge(o *Acc) bool {
	if o.N == 0 {
		return false
	}
	if a.N == 0 {
		*a = *o
		return true
	}
	a.N += o.N
	a.S += o.S
	if o.Min < a.Min {
		a.Min = o.Min
	}
	return true
}

func (a Acc) Mean() float64 { return a.S / float64(a.N) }

func RunAcc(xs []float64, nb int) (float64, float64, uint, []uint) {
	acc := Acc{Hist: make([]uint, nb)}
	for _, x := range xs {
		acc.Add(x)
	}
	var other Acc
	other.Add(-3)
	ok := acc.Merge(&other)
	if !ok {
		return 0, 0, 0, nil
	}
	return acc.Mean(), acc.Min, acc.N, acc.Hist
}

func Fill(xs []float64) []float64 {
	ys := make([]float64, len(xs))
	for i, x := range xs {
		if x > 0 {
			ys[i] = 2 * x
		}
	}
	return ys
}

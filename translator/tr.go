package main

import (
	"fmt"
	"go/ast"
	"go/constant"
	"go/token"
	"go/types"
	"math/big"
	"path/filepath"
	"sort"
	"strings"
)

// ---------------------------------------------------------------- types

type kind int

const (
	kFloat kind = iota
	kSInt
	kUInt
	kBool
	kRec
	kSlice
	kFunc
	kErr // the predeclared type error: option N (nil = None; a package-level error variable is Some of an opaque number)
)

type ty struct {
	k    kind
	bits int
	rec  *types.Named
	elem *ty
	sig  *types.Signature
}

type recInfo struct {
	named   *types.Named
	name    string // Coq base name (= Go type name)
	pkg     *Pkg
	fields  []recField
	omitted []string
}
type recField struct {
	name string
	t    ty
}

type opq struct {
	name, typ string
	// for an opaque INTERFACE method: the interface-typed parameter it is called on and the
	// method; a caller that passes a value of a concrete type for that parameter instantiates
	// the opaque parameter with the concrete method (static devirtualisation)
	ifaceVar *types.Var
	method   *types.Func
}

type unit struct {
	obj     *types.Func
	pkg     *Pkg
	decl    *ast.FuncDecl
	group   *Group
	listed  bool
	key     string
	goFile  string // path relative to the repo
	lines   string
	srcHash string
	coqName string
	outFile string
	text    string
	err     error
	deps    []*unit
	opaque  []opq
	mutated []*types.Var
	state   int
	fueled  bool         // contains a for-cond loop (or calls a function that does): takes (fuel : nat), returns option
	curried bool         // returns a closure: the definition takes the closure's parameters too (callers are refused)
	resTys  []types.Type // effective result types (an interface{} result all of whose returns have one concrete type has that type)
}

type Tr struct {
	ld       *Loader
	units    map[*types.Func]*unit
	order    []*unit
	queue    []*unit
	recs     map[*types.Named]*recInfo
	recOrder []*recInfo
}

func newTr(ld *Loader) *Tr {
	return &Tr{ld: ld, units: map[*types.Func]*unit{}, recs: map[*types.Named]*recInfo{}}
}

type trErr struct{ msg string }

// envKey: a scalar variable (field == "") or one field of a struct-typed variable.  Struct
// variables (receivers, parameters, locals; pointers to structs are treated as the struct)
// are split into one SSA variable per field, so that an if that assigns s.Min joins one
// number and not a whole record.
type envKey struct {
	obj   types.Object
	field string
}

func (e trErr) Error() string { return e.msg }

func (t *Tr) request(f *types.Func, g *Group, listed bool) *unit {
	if u, ok := t.units[f]; ok {
		if listed {
			u.listed = true
		}
		return u
	}
	p := t.ld.pkgOf(f)
	u := &unit{obj: f, pkg: p, group: g, listed: listed, key: funcKey(f)}
	if p != nil {
		u.decl = p.decls[f]
	}
	if u.decl != nil {
		a, b := t.ld.fset.Position(u.decl.Pos()), t.ld.fset.Position(u.decl.End())
		u.goFile = filepath.ToSlash(filepath.Join(p.rel, p.fileOf[u.decl]))
		u.lines = fmt.Sprintf("%d-%d", a.Line, b.Line)
		if src, err := readRange(a.Filename, a.Offset, b.Offset); err == nil {
			u.srcHash = sha(src)
		}
	}
	u.coqName = "gen_" + strings.ReplaceAll(u.key, ".", "_")
	t.units[f] = u
	t.queue = append(t.queue, u)
	return u
}

func (t *Tr) run() {
	for len(t.queue) > 0 {
		u := t.queue[0]
		t.queue = t.queue[1:]
		t.translate(u)
	}
}

func (t *Tr) translate(u *unit) {
	if u.state != 0 {
		return
	}
	u.state = 1
	defer func() {
		if r := recover(); r != nil {
			if e, ok := r.(trErr); ok {
				u.err = e
				u.text = ""
			} else {
				panic(r)
			}
		}
		u.state = 2
		t.order = append(t.order, u)
	}()
	if u.decl == nil || u.decl.Body == nil {
		panic(trErr{fmt.Sprintf("no Go source body for %s", u.key)})
	}
	c := &fctx{t: t, u: u, info: u.pkg.info, env: map[envKey]string{}, used: map[string]bool{}, opq: map[string]opq{}, ifaceLocals: map[*types.Var]bool{}}
	c.function()
}

func (t *Tr) pos(p token.Pos) string {
	ps := t.ld.fset.Position(p)
	rel, err := filepath.Rel(t.ld.repo, ps.Filename)
	if err != nil {
		rel = ps.Filename
	}
	return fmt.Sprintf("%s:%d:%d", filepath.ToSlash(rel), ps.Line, ps.Column)
}

// ---------------------------------------------------------------- per-function context

type fctx struct {
	t      *Tr
	u      *unit
	info   *types.Info
	env    map[envKey]string // current Gallina term of every scalar variable and of every field of a struct variable
	used   map[string]bool
	opq    map[string]opq // opaque parameters used, by Coq name
	sig    *types.Signature
	retTy  string                      // Coq type of the value the current return continuation produces
	retK   func(vals []string) string  // what a return statement produces
	recvOb *types.Var
	rawTy   string                     // Coq type of the function's result tuple (without option)
	retWrap func(r string) string      // a return of the (tupled) value r in the current context
	fuelOut func() string              // "out of fuel" in the current context (fueled functions only)
	resTys  []types.Type               // effective result types of the function (or function literal) being translated
	ifaceLocals map[*types.Var]bool    // local interface variables bound once to a result of an opaque call
	contK   func() string              // what an unlabelled continue produces in the innermost loop (nil: not allowed here)
	inLoop  int                        // nesting depth of loops at the current statement
	recCl   map[types.Object]*recClosure // recursive closures in scope (recfn.go)
	recFuel string                     // inside the body of a recursive closure: the fuel its recursive calls get
	gotos   map[ast.Node]bool          // goto / label nodes of the supported search-loop pattern (recfn.go: searchGoto)
	curried *types.Signature           // the function returns a closure of this signature: translated uncurried (curry.go)
	curNames []string                  // Gallina names of the closure's parameters
}

// addOpq registers an opaque parameter of the function being translated; one name must have
// one type (and, for interface methods, one interface value).
func (c *fctx) addOpq(o opq, p token.Pos) {
	if old, ok := c.opq[o.name]; ok {
		if old.typ != o.typ {
			c.fail(p, "opaque parameter %s is used at two types (%s and %s)", o.name, old.typ, o.typ)
		}
		if old.ifaceVar != nil && o.ifaceVar != nil && old.ifaceVar != o.ifaceVar {
			c.fail(p, "opaque interface method %s is called on two different interface values (%s and %s)", o.name, old.ifaceVar.Name(), o.ifaceVar.Name())
		}
		if o.ifaceVar == nil {
			o.ifaceVar, o.method = old.ifaceVar, old.method
		}
	}
	c.opq[o.name] = o
}

func (c *fctx) fail(p token.Pos, f string, a ...interface{}) {
	panic(trErr{fmt.Sprintf("%s: unsupported: %s", c.t.pos(p), fmt.Sprintf(f, a...))})
}

var reserved = map[string]bool{}

func init() {
	for _, w := range strings.Fields(`as at cofix else end exists exists2 fix for forall fun if IF in let match mod Prop return Set then Type using where with
		fst snd fold_left map rev seq nth length negb andb orb true false None Some pair nil cons inject_Z Qred Qabs Qfloor Qceiling
		Qltb Qleb Qeqb QofN repeat combine app Z N Q nat bool list option unit tt S O xH xI xO Z0 Zpos Zneg N0 Npos Qmake
		Qplus Qminus Qmult Qdiv Qopp Qinv Qnum Qden Qle_bool Qeq_bool id fuel Go_next Go_ret Go_fuel`) {
		reserved[w] = true
	}
}

func (c *fctx) fresh(base string) string {
	base = sanitize(base)
	if reserved[base] || strings.HasPrefix(base, "gen_") || strings.HasPrefix(base, "go_") || strings.HasPrefix(base, "set_") || strings.HasPrefix(base, "mk_") || strings.HasPrefix(base, "wrap_") {
		base += "_"
	}
	name := base
	for i := 1; c.used[name]; i++ {
		name = fmt.Sprintf("%s_%d", base, i)
	}
	c.used[name] = true
	return name
}

func sanitize(s string) string {
	var b strings.Builder
	for i, r := range s {
		switch {
		case r >= 'a' && r <= 'z', r >= 'A' && r <= 'Z', r == '_':
			b.WriteRune(r)
		case r >= '0' && r <= '9':
			if i == 0 {
				b.WriteRune('v')
			}
			b.WriteRune(r)
		default:
			fmt.Fprintf(&b, "u%x", r)
		}
	}
	if b.Len() == 0 || b.String() == "_" {
		return "v"
	}
	return b.String()
}

func (c *fctx) bind(o types.Object, base string) string {
	n := c.fresh(base)
	c.env[envKey{o, ""}] = n
	return n
}

func (c *fctx) bindKey(k envKey) string {
	base := k.obj.Name()
	if k.field != "" {
		base += "_" + k.field
	}
	n := c.fresh(base)
	c.env[k] = n
	return n
}

func (c *fctx) copyEnv() map[envKey]string { return copyMap(c.env) }

// recOf: the record of a struct-typed variable (nil for scalars).
func (c *fctx) recOf(o types.Object) *recInfo {
	if o == nil || o.Type() == nil {
		return nil
	}
	if _, isVar := o.(*types.Var); !isVar {
		return nil
	}
	t, ok := c.tryType(o.Type())
	if !ok || t.k != kRec {
		return nil
	}
	return c.record(t.rec, o.Pos())
}

func (c *fctx) known(o types.Object) bool {
	if r := c.recOf(o); r != nil {
		if len(r.fields) == 0 {
			_, ok := c.env[envKey{o, ""}]
			return ok
		}
		_, ok := c.env[envKey{o, r.fields[0].name}]
		return ok
	}
	_, ok := c.env[envKey{o, ""}]
	return ok
}

// readVar: the current value of a variable; a struct variable is rebuilt from its fields
// (or is the original record when no field has changed).
func (c *fctx) readVar(o types.Object) string {
	r := c.recOf(o)
	if r == nil || len(r.fields) == 0 {
		return c.env[envKey{o, ""}]
	}
	// unchanged record  (T_f1 x) (T_f2 x) ...  ->  x
	first := c.env[envKey{o, r.fields[0].name}]
	pre := "(" + r.name + "_" + r.fields[0].name + " "
	if strings.HasPrefix(first, pre) && strings.HasSuffix(first, ")") {
		base := strings.TrimSuffix(strings.TrimPrefix(first, pre), ")")
		same := !strings.ContainsAny(base, " ()")
		for _, f := range r.fields {
			if c.env[envKey{o, f.name}] != "("+r.name+"_"+f.name+" "+base+")" {
				same = false
			}
		}
		if same {
			return base
		}
	}
	parts := []string{"mk_" + r.name}
	for _, f := range r.fields {
		parts = append(parts, c.env[envKey{o, f.name}])
	}
	return "(" + strings.Join(parts, " ") + ")"
}

// writeWhole: variable o (a struct) becomes the record value val.
func (c *fctx) writeWhole(o types.Object, r *recInfo, val string) string {
	out := ""
	name := val
	if strings.ContainsAny(val, " ()") {
		name = c.fresh(o.Name())
		out = fmt.Sprintf("let %s := %s in\n", name, val)
	}
	if len(r.fields) == 0 {
		c.env[envKey{o, ""}] = name
	}
	for _, f := range r.fields {
		c.env[envKey{o, f.name}] = fmt.Sprintf("(%s_%s %s)", r.name, f.name, name)
	}
	return out
}

// keysOf: the environment keys an assignment to the expression may change.
func (c *fctx) keysOf(e ast.Expr) []envKey {
	switch x := unparen(e).(type) {
	case *ast.Ident:
		o := c.info.Uses[x]
		if o == nil {
			o = c.info.Defs[x]
		}
		return c.allKeys(o)
	case *ast.SelectorExpr:
		if _, ok := c.info.Selections[x]; !ok {
			return nil
		}
		if o := c.baseVar(x.X); o != nil {
			if r := c.recOf(o); r != nil {
				return []envKey{{o, x.Sel.Name}}
			}
		}
		return c.keysOf(x.X)
	case *ast.IndexExpr:
		return c.keysOf(x.X)
	case *ast.StarExpr:
		return c.keysOf(x.X)
	}
	return nil
}

func (c *fctx) allKeys(o types.Object) []envKey {
	if o == nil {
		return nil
	}
	if r := c.recOf(o); r != nil && len(r.fields) > 0 {
		var ks []envKey
		for _, f := range r.fields {
			ks = append(ks, envKey{o, f.name})
		}
		return ks
	}
	return []envKey{{o, ""}}
}

// baseVar: e is a variable x, (x) or *x.
func (c *fctx) baseVar(e ast.Expr) types.Object {
	for {
		switch x := e.(type) {
		case *ast.ParenExpr:
			e = x.X
		case *ast.StarExpr:
			e = x.X
		case *ast.Ident:
			if o := c.info.Uses[x]; o != nil {
				return o
			}
			return c.info.Defs[x]
		default:
			return nil
		}
	}
}

// ---------------------------------------------------------------- Go types -> Coq types

func (c *fctx) typeOf(t types.Type, p token.Pos) ty {
	switch x := t.(type) {
	case *types.Basic:
		switch x.Kind() {
		case types.Float64, types.UntypedFloat:
			return ty{k: kFloat}
		case types.Int, types.Int64, types.UntypedInt:
			return ty{k: kSInt, bits: 64}
		case types.Int32, types.UntypedRune:
			return ty{k: kSInt, bits: 32}
		case types.Int16:
			return ty{k: kSInt, bits: 16}
		case types.Int8:
			return ty{k: kSInt, bits: 8}
		case types.Uint, types.Uint64:
			return ty{k: kUInt, bits: 64}
		case types.Uint32:
			return ty{k: kUInt, bits: 32}
		case types.Uint16:
			return ty{k: kUInt, bits: 16}
		case types.Uint8:
			return ty{k: kUInt, bits: 8}
		case types.Bool, types.UntypedBool:
			return ty{k: kBool}
		}
		c.fail(p, "type %s", x.String())
	case *types.Pointer:
		if n, ok := x.Elem().(*types.Named); ok {
			if _, ok := n.Underlying().(*types.Struct); ok {
				return ty{k: kRec, rec: n}
			}
		}
		c.fail(p, "pointer type %s (only pointers to named structs)", x.String())
	case *types.Named:
		if _, ok := x.Underlying().(*types.Struct); ok {
			return ty{k: kRec, rec: x}
		}
		if x.Obj().Pkg() == nil && x.Obj().Name() == "error" {
			return ty{k: kErr}
		}
		if _, ok := x.Underlying().(*types.Interface); ok {
			c.fail(p, "interface type %s", x.String())
		}
		return c.typeOf(x.Underlying(), p)
	case *types.Slice:
		e := c.typeOf(x.Elem(), p)
		return ty{k: kSlice, elem: &e}
	case *types.Signature:
		return ty{k: kFunc, sig: x}
	case *types.Alias:
		return c.typeOf(types.Unalias(x), p)
	}
	c.fail(p, "type %s", t.String())
	return ty{}
}

func (c *fctx) coqTy(t ty, p token.Pos) string {
	switch t.k {
	case kFloat:
		return "Q"
	case kSInt:
		return "Z"
	case kUInt:
		return "N"
	case kBool:
		return "bool"
	case kRec:
		return c.record(t.rec, p).name + "_rec"
	case kSlice:
		return "(list " + c.coqTy(*t.elem, p) + ")"
	case kFunc:
		return "(" + c.coqSig(t.sig, p) + ")"
	case kErr:
		return "(option N)"
	}
	return "?"
}

func (c *fctx) coqSig(sig *types.Signature, p token.Pos) string {
	var parts []string
	for i := 0; i < sig.Params().Len(); i++ {
		parts = append(parts, c.coqTy(c.typeOf(sig.Params().At(i).Type(), p), p))
	}
	if sig.Variadic() {
		c.fail(p, "variadic function type")
	}
	if sig.Results().Len() == 0 {
		c.fail(p, "function type without result")
	}
	var rs []string
	for i := 0; i < sig.Results().Len(); i++ {
		rs = append(rs, c.coqTy(c.typeOf(sig.Results().At(i).Type(), p), p))
	}
	parts = append(parts, strings.Join(rs, " * "))
	return strings.Join(parts, " -> ")
}

func (c *fctx) zero(t ty, p token.Pos) string {
	switch t.k {
	case kFloat:
		return "(0 # 1)"
	case kSInt:
		return "(0)%Z"
	case kUInt:
		return "(0)%N"
	case kBool:
		return "false"
	case kSlice:
		return "(@nil " + c.coqTy(*t.elem, p) + ")"
	case kErr:
		return "(@None N)"
	case kRec:
		r := c.record(t.rec, p)
		s := "(mk_" + r.name
		for _, f := range r.fields {
			s += " " + c.zero(f.t, p)
		}
		return s + ")"
	}
	c.fail(p, "zero value of a function type")
	return ""
}

// record registers the Gallina record generated for a named struct type.  Fields whose type
// is outside the subset are omitted (any use of them is an error at the use site).
func (c *fctx) record(n *types.Named, p token.Pos) *recInfo {
	if r, ok := c.t.recs[n]; ok {
		return r
	}
	st := n.Underlying().(*types.Struct)
	r := &recInfo{named: n, name: n.Obj().Name()}
	if n.Obj().Pkg() != nil {
		r.pkg = c.t.ld.pkgs[n.Obj().Pkg().Path()]
	}
	if r.pkg == nil {
		c.fail(p, "struct type %s from outside the module", n.String())
	}
	c.t.recs[n] = r // before the fields: recursive types end up with the field omitted
	for i := 0; i < st.NumFields(); i++ {
		f := st.Field(i)
		ft, ok := c.tryType(f.Type())
		if !ok || f.Embedded() || (ft.k == kRec && ft.rec == n) || (ft.k == kSlice && ft.elem.k == kRec && ft.elem.rec == n) {
			r.omitted = append(r.omitted, f.Name()+" "+f.Type().String())
			continue
		}
		if ft.k == kRec {
			c.record(ft.rec, p)
		}
		if ft.k == kSlice && ft.elem.k == kRec {
			c.record(ft.elem.rec, p)
		}
		r.fields = append(r.fields, recField{f.Name(), ft})
	}
	c.t.recOrder = append(c.t.recOrder, r)
	return r
}

func (c *fctx) tryType(t types.Type) (res ty, ok bool) {
	defer func() {
		if r := recover(); r != nil {
			if _, is := r.(trErr); is {
				ok = false
				return
			}
			panic(r)
		}
	}()
	res = c.typeOf(t, token.NoPos)
	if res.k == kFunc {
		return res, false
	}
	if res.k == kRec {
		if _, isStruct := res.rec.Underlying().(*types.Struct); !isStruct {
			return res, false
		}
	}
	return res, true
}

func (c *fctx) fieldOf(t ty, name string, p token.Pos) (recField, *recInfo) {
	if t.k != kRec {
		c.fail(p, "field selection .%s on a non-struct value", name)
	}
	r := c.record(t.rec, p)
	for _, f := range r.fields {
		if f.name == name {
			return f, r
		}
	}
	c.fail(p, "field %s.%s has a type outside the subset", r.name, name)
	return recField{}, nil
}

// ---------------------------------------------------------------- function

func (c *fctx) function() {
	u := c.u
	d := u.decl
	sig := u.obj.Type().(*types.Signature)
	c.sig = sig
	if d.Type.TypeParams != nil {
		c.fail(d.Pos(), "generic function")
	}
	// mutated pointer parameters (receiver first)
	var ptrs []*types.Var
	var all []*types.Var
	if sig.Recv() != nil {
		all = append(all, sig.Recv())
		c.recvOb = sig.Recv()
	}
	for i := 0; i < sig.Params().Len(); i++ {
		all = append(all, sig.Params().At(i))
	}
	if sig.Variadic() {
		c.fail(d.Pos(), "variadic function")
	}
	for _, v := range all {
		if _, ok := v.Type().(*types.Pointer); ok && c.mutates(d.Body, v) {
			ptrs = append(ptrs, v)
		}
	}
	u.mutated = ptrs

	// parameters
	type prm struct{ name, typ string }
	var params []prm
	for _, v := range all {
		if (v.Name() == "_" || v.Name() == "") && isInterface(v.Type()) {
			continue
		}
		if v.Name() == "_" || v.Name() == "" {
			t := c.typeOf(v.Type(), d.Pos())
			params = append(params, prm{c.fresh("unused"), c.coqTy(t, d.Pos())})
			continue
		}
		if isInterface(v.Type()) {
			// an interface-typed parameter has no Gallina counterpart: it may only be used as
			// the receiver of opaque method calls (any other use fails at the use site)
			continue
		}
		t := c.typeOf(v.Type(), v.Pos())
		pn := c.fresh(v.Name())
		if t.k == kRec {
			c.writeWhole(v, c.record(t.rec, v.Pos()), pn)
		} else {
			c.env[envKey{v, ""}] = pn
		}
		params = append(params, prm{pn, c.coqTy(t, v.Pos())})
	}
	// results
	if inner := curriedSig(sig); inner != nil && c.mustUncurry(d.Body) {
		// the function returns a closure: translated uncurried (curry.go)
		u.curried = true
		c.curried = inner
		u.resTys = make([]types.Type, inner.Results().Len())
		for i := range u.resTys {
			u.resTys[i] = inner.Results().At(i).Type()
		}
		for i := 0; i < inner.Params().Len(); i++ {
			v := inner.Params().At(i)
			t := c.typeOf(v.Type(), d.Pos())
			if t.k == kRec || t.k == kFunc {
				c.fail(d.Pos(), "returned closure with a struct or function parameter")
			}
			name := v.Name()
			if name == "" || name == "_" {
				name = "arg"
			}
			for _, lit := range returnedLits(d.Body) {
				if i < len(lit.Type.Params.List) && len(lit.Type.Params.List[i].Names) == 1 {
					name = lit.Type.Params.List[i].Names[0].Name
					break
				}
			}
			pn := c.fresh(name)
			c.curNames = append(c.curNames, pn)
			params = append(params, prm{pn, c.coqTy(t, d.Pos())})
		}
	} else {
		u.resTys = c.effectiveResults(d, sig)
	}
	c.resTys = u.resTys
	u.fueled = c.needsFuel(d.Body) || hasRecClosure(d.Body)
	if u.curried {
		for _, lit := range returnedLits(d.Body) {
			if c.needsFuel(lit.Body) || hasRecClosure(lit.Body) {
				u.fueled = true
			}
		}
	}
	var rts []string
	for _, v := range ptrs {
		rts = append(rts, c.coqTy(c.typeOf(v.Type(), v.Pos()), v.Pos()))
	}
	named := false
	for i := 0; i < len(u.resTys); i++ {
		t := c.typeOf(u.resTys[i], d.Pos())
		rts = append(rts, c.coqTy(t, d.Pos()))
		if !u.curried {
			if rv := sig.Results().At(i); rv.Name() != "" && rv.Name() != "_" {
				named = true
			}
		}
	}
	if u.curried {
		if rv := sig.Results().At(0); rv.Name() != "" && rv.Name() != "_" {
			c.fail(d.Pos(), "named result of function type")
		}
	}
	if len(rts) == 0 {
		c.fail(d.Pos(), "function without result and without a modified pointer parameter")
	}
	c.retTy = strings.Join(rts, " * ")
	c.rawTy = c.retTy
	if u.fueled {
		c.retWrap = func(r string) string { return "(Some " + r + ")" }
		c.fuelOut = func() string { return "None" }
	} else {
		c.retWrap = func(r string) string { return r }
	}
	c.retK = func(vals []string) string {
		var xs []string
		for _, v := range ptrs {
			xs = append(xs, c.readVar(v))
		}
		xs = append(xs, vals...)
		return c.retWrap(tuple(xs))
	}
	// named results are ordinary variables initialised to zero
	pre := ""
	if named {
		for i := 0; i < sig.Results().Len(); i++ {
			rv := sig.Results().At(i)
			if rv.Name() == "" || rv.Name() == "_" {
				c.fail(d.Pos(), "mixture of named and blank results")
			}
			t := c.typeOf(u.resTys[i], d.Pos())
			if t.k == kRec {
				pre += c.writeWhole(rv, c.record(t.rec, d.Pos()), c.zero(t, d.Pos()))
				continue
			}
			n := c.bind(rv, rv.Name())
			pre += fmt.Sprintf("let %s := %s in\n", n, c.zero(t, d.Pos()))
		}
	}
	body := c.stmts(d.Body.List, func() string {
		// falling off the end
		if sig.Results().Len() == 0 {
			return c.retK(nil)
		}
		if named {
			return c.retK(c.namedResults())
		}
		c.fail(d.Body.Rbrace, "control reaches the end of a function with results (after a panic or an unsupported loop?)")
		return ""
	})
	// opaque parameters come first, sorted by name
	var ops []opq
	for _, o := range c.opq {
		ops = append(ops, o)
	}
	sort.Slice(ops, func(i, j int) bool { return ops[i].name < ops[j].name })
	u.opaque = ops
	var sb strings.Builder
	fmt.Fprintf(&sb, "(* %s:%s  func %s *)\n", u.goFile, u.lines, u.key)
	fmt.Fprintf(&sb, "Definition %s", u.coqName)
	for _, o := range ops {
		fmt.Fprintf(&sb, " (%s : %s)", o.name, o.typ)
	}
	if u.fueled {
		sb.WriteString(" (fuel : nat)")
	}
	for _, p := range params {
		fmt.Fprintf(&sb, " (%s : %s)", p.name, p.typ)
	}
	rt := c.rawTy
	if u.fueled {
		rt = "option (" + rt + ")"
	}
	fmt.Fprintf(&sb, " : %s :=\n%s.\n", rt, indent(pre+body, "  "))
	u.text = sb.String()
}

func (c *fctx) namedResults() []string {
	var xs []string
	for i := 0; i < c.sig.Results().Len(); i++ {
		xs = append(xs, c.readVar(c.sig.Results().At(i)))
	}
	return xs
}

func isInterface(t types.Type) bool {
	_, ok := t.Underlying().(*types.Interface)
	return ok
}

func isErrorType(t types.Type) bool {
	n, ok := t.(*types.Named)
	return ok && n.Obj().Pkg() == nil && n.Obj().Name() == "error"
}

func tuple(xs []string) string {
	if len(xs) == 1 {
		return xs[0]
	}
	return "(" + strings.Join(xs, ", ") + ")"
}

func pattern(xs []string) string {
	if len(xs) == 1 {
		return xs[0]
	}
	return "'(" + strings.Join(xs, ", ") + ")"
}

func indent(s, pre string) string {
	lines := strings.Split(strings.TrimRight(s, "\n"), "\n")
	for i := range lines {
		lines[i] = pre + lines[i]
	}
	return strings.Join(lines, "\n")
}

// root variable of an assignable expression (x, x.f, x.f[i], *x, ...)
func (c *fctx) rootVar(e ast.Expr) types.Object {
	for {
		switch x := e.(type) {
		case *ast.Ident:
			if o := c.info.Uses[x]; o != nil {
				return o
			}
			return c.info.Defs[x]
		case *ast.SelectorExpr:
			if _, ok := c.info.Selections[x]; !ok {
				return nil // package-qualified
			}
			e = x.X
		case *ast.IndexExpr:
			e = x.X
		case *ast.StarExpr:
			e = x.X
		case *ast.ParenExpr:
			e = x.X
		default:
			return nil
		}
	}
}

// assigned: the environment keys of outer variables (those present in env) that the
// statements may modify, in a deterministic order (first occurrence).
func (c *fctx) assigned(n ast.Node) []envKey {
	var out []envKey
	seen := map[envKey]bool{}
	add := func(ks []envKey) {
		for _, k := range ks {
			if seen[k] {
				continue
			}
			if _, ok := c.env[k]; !ok {
				continue
			}
			seen[k] = true
			out = append(out, k)
		}
	}
	ast.Inspect(n, func(n ast.Node) bool {
		switch s := n.(type) {
		case *ast.AssignStmt:
			for _, l := range s.Lhs {
				if id, ok := l.(*ast.Ident); ok && s.Tok == token.DEFINE {
					// := may still assign an existing variable of the same scope; Uses has it then
					if o := c.info.Uses[id]; o != nil {
						add(c.allKeys(o))
					}
					continue
				}
				add(c.keysOf(l))
			}
		case *ast.IncDecStmt:
			add(c.keysOf(s.X))
		case *ast.ExprStmt:
			if call, ok := s.X.(*ast.CallExpr); ok {
				if rc := c.recClosureOf(call); rc != nil {
					add(rc.w) // a call of a recursive closure updates the closure's state
				} else if o := c.mutatedReceiver(call); o != nil {
					add(c.allKeys(o))
				} else if id, ok := call.Fun.(*ast.Ident); ok && id.Name == "copy" && len(call.Args) == 2 {
					if b, isB := c.info.Uses[id].(*types.Builtin); isB && b.Name() == "copy" {
						add(c.keysOf(call.Args[0]))
					}
				} else if f := c.calledFunc(call); f != nil && len(call.Args) == 1 {
					if _, isOpaque := c.opaqueName(f); isOpaque && f.Type().(*types.Signature).Results().Len() == 0 {
						add(c.keysOf(call.Args[0])) // in-place opaque function (sort.Float64s)
						if ue, ok := unparen(call.Args[0]).(*ast.UnaryExpr); ok && ue.Op == token.AND {
							if cl, ok := unparen(ue.X).(*ast.CompositeLit); ok {
								for _, el := range cl.Elts {
									if kv, isKV := el.(*ast.KeyValueExpr); isKV {
										el = kv.Value
									}
									add(c.keysOf(el)) // sort.Sort(&pairSlice{xs, ys})
								}
							}
						}
					}
				}
			}
		case *ast.FuncLit:
			return false
		}
		return true
	})
	// canonical order: by the position of the variable's declaration (then by field), so that
	// the order in which a loop body or an if-arm happens to assign its variables does not
	// change the shape of the generated state tuple
	sort.SliceStable(out, func(a, b int) bool {
		pa, pb := out[a].obj.Pos(), out[b].obj.Pos()
		if pa != pb {
			return pa < pb
		}
		return c.fieldIndex(out[a]) < c.fieldIndex(out[b])
	})
	return out
}

func (c *fctx) fieldIndex(k envKey) int {
	if k.field == "" {
		return -1
	}
	if r := c.recOf(k.obj); r != nil {
		for i, f := range r.fields {
			if f.name == k.field {
				return i
			}
		}
	}
	return 0
}

// mutatedReceiver: for a statement call x.M(...) of a module method with pointer receiver
// that modifies its receiver, the variable x.
func (c *fctx) mutatedReceiver(call *ast.CallExpr) types.Object {
	sel, ok := call.Fun.(*ast.SelectorExpr)
	if !ok {
		return nil
	}
	s, ok := c.info.Selections[sel]
	if !ok || s.Kind() != types.MethodVal {
		return nil
	}
	f, ok := s.Obj().(*types.Func)
	if !ok {
		return nil
	}
	if _, ro, isOpaque := c.opaqueSpec(f); isOpaque {
		// an opaque method with pointer receiver is taken to modify its receiver unless the
		// directive says "name!ro"
		if _, ptr := f.Type().(*types.Signature).Recv().Type().(*types.Pointer); ptr && !ro {
			if o := c.baseVar(sel.X); o != nil && c.recOf(o) != nil {
				return o
			}
		}
		return nil
	}
	cu := c.callee(f, call.Pos())
	if cu == nil || len(cu.mutated) == 0 {
		return nil
	}
	if len(cu.mutated) != 1 || cu.mutated[0] != f.Type().(*types.Signature).Recv() {
		c.fail(call.Pos(), "call of %s, which writes through a pointer parameter other than its receiver", cu.key)
	}
	return c.rootVar(sel.X)
}

func (c *fctx) mutates(body ast.Node, v *types.Var) bool {
	found := false
	ast.Inspect(body, func(n ast.Node) bool {
		switch s := n.(type) {
		case *ast.AssignStmt:
			for _, l := range s.Lhs {
				if _, isId := l.(*ast.Ident); isId {
					if c.rootVar(l) == v {
						c.fail(l.Pos(), "assignment to the pointer parameter %s itself", v.Name())
					}
					continue
				}
				if c.rootVar(l) == v {
					found = true
				}
			}
		case *ast.IncDecStmt:
			if _, isId := s.X.(*ast.Ident); !isId && c.rootVar(s.X) == v {
				found = true
			}
		case *ast.ExprStmt:
			if call, ok := s.X.(*ast.CallExpr); ok {
				if c.mutatedReceiver(call) == v {
					found = true
				}
			}
		}
		return true
	})
	return found
}

// containsContinue: an unlabelled continue that belongs to the loop enclosing n (not to a loop inside n).
func containsContinue(n ast.Node) bool {
	found := false
	ast.Inspect(n, func(n ast.Node) bool {
		switch x := n.(type) {
		case *ast.BranchStmt:
			if x.Tok == token.CONTINUE {
				found = true
			}
		case *ast.ForStmt, *ast.RangeStmt, *ast.FuncLit:
			return false
		}
		return !found
	})
	return found
}

func containsReturn(n ast.Node) bool {
	found := false
	ast.Inspect(n, func(n ast.Node) bool {
		switch n.(type) {
		case *ast.ReturnStmt:
			found = true
		case *ast.FuncLit:
			return false
		}
		return !found
	})
	return found
}

func (c *fctx) isPanic(s ast.Stmt) (*ast.CallExpr, bool) {
	es, ok := s.(*ast.ExprStmt)
	if !ok {
		return nil, false
	}
	call, ok := es.X.(*ast.CallExpr)
	if !ok {
		return nil, false
	}
	id, ok := call.Fun.(*ast.Ident)
	if !ok {
		return nil, false
	}
	if b, ok := c.info.Uses[id].(*types.Builtin); ok && b.Name() == "panic" {
		return call, true
	}
	return nil, false
}

func (c *fctx) containsPanic(n ast.Node) bool {
	found := false
	ast.Inspect(n, func(n ast.Node) bool {
		if s, ok := n.(ast.Stmt); ok {
			if _, is := c.isPanic(s); is {
				found = true
			}
		}
		return !found
	})
	return found
}

// ---------------------------------------------------------------- statements (continuation style)

// stmts translates the list followed by the continuation k (called with c.env describing
// the state after the list).
func (c *fctx) stmts(list []ast.Stmt, k func() string) string {
	if len(list) == 0 {
		return k()
	}
	s, rest := list[0], list[1:]
	next := func() string { return c.stmts(rest, k) }
	switch s := s.(type) {
	case *ast.EmptyStmt:
		return next()
	case *ast.BlockStmt:
		return c.stmts(s.List, next)
	case *ast.ReturnStmt:
		if c.curried != nil && c.sig == c.u.obj.Type().(*types.Signature) {
			return c.curriedReturn(s)
		}
		var vals []string
		if len(s.Results) == 0 {
			if c.sig.Results().Len() > 0 {
				vals = c.namedResults()
				for _, v := range vals {
					if v == "" {
						c.fail(s.Pos(), "bare return without named results")
					}
				}
			}
		} else if call, isCall := unparen(s.Results[0]).(*ast.CallExpr); len(s.Results) == 1 && isCall && c.u.fueled && c.fueledCallee(call) != nil {
			cu := c.fueledCallee(call)
			f := c.calledFunc(call)
			term, mut := c.fueledCallTerm(cu, call, f)
			if mut != nil {
				c.fail(s.Pos(), "return of a call that updates its receiver")
			}
			names := make([]string, c.sig.Results().Len())
			for i := range names {
				names[i] = c.fresh("r")
			}
			return fmt.Sprintf("match %s with\n| None => %s\n| Some %s => %s\nend", term, c.fuelOut(), matchPattern(names), c.retK(names))
		} else if len(s.Results) == 1 && c.sig.Results().Len() > 1 {
			// return f() with a multi-valued f
			names := make([]string, c.sig.Results().Len())
			for i := range names {
				names[i] = c.fresh("r")
			}
			return fmt.Sprintf("let %s := %s in\n%s", pattern(names), c.callMulti(s.Results[0], len(names)), c.retK(names))
		} else {
			for i, e := range s.Results {
				vals = append(vals, c.exprAs(e, c.resTys[i]))
			}
		}
		return c.retK(vals)
	case *ast.DeclStmt:
		if out, ok := c.recClosureDecl(s, rest, k); ok {
			return out
		}
		gd, ok := s.Decl.(*ast.GenDecl)
		if ok && gd.Tok == token.CONST {
			return next() // local constants are folded by go/types at their uses
		}
		if ok && gd.Tok == token.TYPE {
			return next() // a local type declaration declares nothing to translate (uses of the type are checked where they occur)
		}
		if !ok || gd.Tok != token.VAR {
			c.fail(s.Pos(), "local declaration other than var")
		}
		out := ""
		for _, sp := range gd.Specs {
			vs := sp.(*ast.ValueSpec)
			if len(vs.Values) != 0 && len(vs.Values) != len(vs.Names) {
				c.fail(vs.Pos(), "var declaration with a multi-valued initialiser")
			}
			var terms []string
			for i, id := range vs.Names {
				o := c.info.Defs[id]
				if o == nil {
					c.fail(id.Pos(), "declaration of %s", id.Name)
				}
				if len(vs.Values) > 0 {
					terms = append(terms, c.exprAs(vs.Values[i], o.Type()))
				} else {
					terms = append(terms, c.zero(c.typeOf(o.Type(), id.Pos()), id.Pos()))
				}
			}
			for i, id := range vs.Names {
				if id.Name == "_" {
					continue
				}
				if r := c.recOf(c.info.Defs[id]); r != nil {
					out += c.writeWhole(c.info.Defs[id], r, terms[i])
					continue
				}
				n := c.bind(c.info.Defs[id], id.Name)
				out += fmt.Sprintf("let %s := %s in\n", n, terms[i])
			}
		}
		return out + next()
	case *ast.AssignStmt:
		if out, ok := c.assertOK(s); ok {
			return out + next()
		}
		if c.u.fueled {
			if out, ok := c.fueledAssign(s, next); ok {
				return out
			}
		}
		return c.assign(s) + next()
	case *ast.IncDecStmt:
		t := c.typeOf(c.info.TypeOf(s.X), s.Pos())
		op := token.ADD
		if s.Tok == token.DEC {
			op = token.SUB
		}
		one := c.constOne(t, s.Pos())
		val := c.binop(op, t, c.expr(s.X), one, t, s.Pos())
		return c.store(s.X, val) + next()
	case *ast.ExprStmt:
		if _, is := c.isPanic(s); is {
			// a panic ends the function: the value is the opaque parameter named by the
			// "panic" directive (the statements after it are unreachable)
			name, ok := c.u.group.Opaque["panic"]
			if !ok {
				c.fail(s.Pos(), "panic(...) (no \"panic\" directive for this target group)")
			}
			c.addOpq(opq{name: name, typ: c.rawTy}, s.Pos())
			return c.retWrap(name)
		}
		call, ok := s.X.(*ast.CallExpr)
		if !ok {
			c.fail(s.Pos(), "expression statement")
		}
		if rc := c.recClosureOf(call); rc != nil {
			return c.recCall(rc, call, next)
		}
		if c.u.fueled {
			if cu := c.fueledCallee(call); cu != nil {
				f := c.calledFunc(call)
				term, mut := c.fueledCallTerm(cu, call, f)
				if mut == nil {
					c.fail(s.Pos(), "call statement whose effect is not an update of a struct through its pointer receiver")
				}
				tmp := c.fresh(mut.Name())
				names := []string{tmp}
				for i := 0; i < f.Type().(*types.Signature).Results().Len(); i++ {
					names = append(names, "_")
				}
				out := c.writeWhole(mut, c.recOf(mut), tmp)
				return fmt.Sprintf("match %s with\n| None => %s\n| Some %s =>\n%s\nend", term, c.fuelOut(), matchPattern(names), indent(out+next(), "  "))
			}
		}
		if dst, old, src, ok := c.copyCall(call); ok {
			// copy(dst, src) on a slice variable dst
			n := c.bind(dst, dst.Name())
			return fmt.Sprintf("let %s := (go_copy %s %s) in\n", n, old, src) + next()
		}
		if out, ok := c.inPlaceOpaqueLit(call); ok {
			return out + next()
		}
		if o2, name, arg := c.inPlaceOpaque(call); o2 != nil {
			// f(xs) of an opaque function without results (sort.Float64s): xs becomes  f xs
			n := c.bind(o2, o2.Name())
			return fmt.Sprintf("let %s := (%s %s) in\n", n, name, arg) + next()
		}
		o := c.mutatedReceiver(call)
		if o == nil {
			c.fail(s.Pos(), "call statement whose effect is not an update of a struct through its pointer receiver")
		}
		sel := call.Fun.(*ast.SelectorExpr)
		if _, isId := unparen(sel.X).(*ast.Ident); !isId {
			c.fail(s.Pos(), "method call statement on something other than a variable")
		}
		f := c.info.Selections[sel].Obj().(*types.Func)
		if name, isOpaque := c.opaqueName(f); isOpaque {
			r := c.recOf(o)
			fsig := f.Type().(*types.Signature)
			parts := []string{name, c.expr(sel.X)}
			tys := []string{r.name + "_rec"}
			for i, a := range call.Args {
				parts = append(parts, c.exprAs(a, fsig.Params().At(i).Type()))
				tys = append(tys, c.coqTy(c.typeOf(fsig.Params().At(i).Type(), a.Pos()), a.Pos()))
			}
			tys = append(tys, r.name+"_rec")
			c.addOpq(opq{name: name, typ: strings.Join(tys, " -> ")}, s.Pos())
			tmp := c.fresh(o.Name())
			out := fmt.Sprintf("let %s := (%s) in\n", tmp, strings.Join(parts, " "))
			out += c.writeWhole(o, r, tmp)
			return out + next()
		}
		cu := c.callee(f, call.Pos())
		term := c.callTerm(cu, c.expr(sel.X), call, f)
		if len(cu.mutated) != 1 {
			c.fail(s.Pos(), "callee modifies more than its receiver")
		}
		r := c.recOf(o)
		if r == nil {
			c.fail(s.Pos(), "method call statement on a non-struct")
		}
		tmp := c.fresh(o.Name())
		names := []string{tmp}
		for i := 0; i < f.Type().(*types.Signature).Results().Len(); i++ {
			names = append(names, "_")
		}
		out := fmt.Sprintf("let %s := %s in\n", pattern(names), term)
		out += c.writeWhole(o, r, tmp)
		return out + next()
	case *ast.BranchStmt:
		if s.Tok == token.CONTINUE && s.Label == nil && c.contK != nil {
			return c.contK() // the rest of the body is skipped: the loop state as it is now
		}
		c.fail(s.Pos(), "%s (only an unlabelled continue directly inside a range or counting loop is supported)", s.Tok)
	case *ast.IfStmt:
		return c.ifStmt(s, next)
	case *ast.SwitchStmt:
		return c.switchStmt(s, next)
	case *ast.RangeStmt:
		if j := c.searchGoto(s, rest); j >= 0 {
			return c.searchGotoStmt(s, rest, j, k)
		}
		return c.rangeStmt(s, next)
	case *ast.ForStmt:
		return c.forStmt(s, next)
	}
	c.fail(s.Pos(), "statement %T", s)
	return ""
}

func unparen(e ast.Expr) ast.Expr {
	for {
		p, ok := e.(*ast.ParenExpr)
		if !ok {
			return e
		}
		e = p.X
	}
}

func (c *fctx) constOne(t ty, p token.Pos) string {
	switch t.k {
	case kFloat:
		return "(1 # 1)"
	case kSInt:
		return "(1)%Z"
	case kUInt:
		return "(1)%N"
	}
	c.fail(p, "++/-- on a non-numeric value")
	return ""
}

// store: the let-binding(s) that make lhs hold the term val.
func (c *fctx) store(lhs ast.Expr, val string) string {
	switch x := unparen(lhs).(type) {
	case *ast.Ident:
		if x.Name == "_" {
			return ""
		}
		o := c.info.Defs[x]
		if o == nil {
			o = c.info.Uses[x]
		}
		v, ok := o.(*types.Var)
		if !ok {
			c.fail(x.Pos(), "assignment to %s", x.Name)
		}
		if !c.known(o) && c.info.Defs[x] == nil {
			c.fail(x.Pos(), "assignment to the package-level variable %s", x.Name)
		}
		if r := c.recOf(v); r != nil {
			return c.writeWhole(v, r, val)
		}
		n := c.bind(v, x.Name)
		return fmt.Sprintf("let %s := %s in\n", n, val)
	case *ast.SelectorExpr:
		if _, ok := c.info.Selections[x]; !ok {
			c.fail(x.Pos(), "assignment to a package-level variable")
		}
		xt := c.typeOf(c.info.TypeOf(x.X), x.Pos())
		_, r := c.fieldOf(xt, x.Sel.Name, x.Pos())
		if o := c.baseVar(x.X); o != nil && c.recOf(o) != nil && c.known(o) {
			n := c.bindKey(envKey{o, x.Sel.Name})
			return fmt.Sprintf("let %s := %s in\n", n, val)
		}
		return c.store(x.X, fmt.Sprintf("(set_%s_%s %s %s)", r.name, x.Sel.Name, c.expr(x.X), val))
	case *ast.IndexExpr:
		xt := c.typeOf(c.info.TypeOf(x.X), x.Pos())
		if xt.k != kSlice {
			c.fail(x.Pos(), "indexed assignment into a non-slice")
		}
		return c.store(x.X, fmt.Sprintf("(go_upd %s %s %s)", c.expr(x.X), c.indexTerm(x.Index), val))
	case *ast.StarExpr:
		return c.store(x.X, val)
	}
	c.fail(lhs.Pos(), "assignment target %T", lhs)
	return ""
}

func (c *fctx) assign(s *ast.AssignStmt) string {
	// x, y := recv.M(args)  where M updates its receiver through the pointer
	if (s.Tok == token.ASSIGN || s.Tok == token.DEFINE) && len(s.Rhs) == 1 {
		if call, ok := unparen(s.Rhs[0]).(*ast.CallExpr); ok {
			if o := c.mutatedReceiver(call); o != nil {
				sel := call.Fun.(*ast.SelectorExpr)
				f := c.info.Selections[sel].Obj().(*types.Func)
				if _, isOpaque := c.opaqueName(f); isOpaque {
					c.fail(s.Pos(), "result of an opaque method that modifies its receiver")
				}
				cu := c.callee(f, call.Pos())
				r := c.recOf(o)
				if len(cu.mutated) != 1 || r == nil || c.baseVar(sel.X) == nil {
					c.fail(s.Pos(), "call of %s, which modifies more than a struct variable receiver", cu.key)
				}
				if f.Type().(*types.Signature).Results().Len() != len(s.Lhs) {
					c.fail(s.Pos(), "assignment count mismatch")
				}
				term := c.callTerm(cu, c.readVar(o), call, f)
				tmp := c.fresh(o.Name())
				names := []string{tmp}
				tmps := make([]string, len(s.Lhs))
				for i := range tmps {
					tmps[i] = c.fresh("t")
					names = append(names, tmps[i])
				}
				out := fmt.Sprintf("let %s := %s in\n", pattern(names), term)
				out += c.writeWhole(o, r, tmp)
				for i, l := range s.Lhs {
					out += c.store(l, tmps[i])
				}
				return out
			}
		}
	}
	switch s.Tok {
	case token.ASSIGN, token.DEFINE:
		if len(s.Lhs) != len(s.Rhs) {
			if len(s.Rhs) != 1 {
				c.fail(s.Pos(), "assignment count mismatch")
			}
			if _, ok := unparen(s.Rhs[0]).(*ast.CallExpr); !ok {
				c.fail(s.Pos(), "multi-valued assignment from %T (map lookup, type assertion or channel receive)", s.Rhs[0])
			}
			term := c.callMulti(s.Rhs[0], len(s.Lhs))
			var tmps []string
			var keep []int
			for i, l := range s.Lhs {
				if c.ifaceResult(s.Rhs[0], i, l) {
					continue // an interface value returned by an opaque call: only its opaque methods are used
				}
				tmps = append(tmps, c.fresh("t"))
				keep = append(keep, i)
			}
			if len(tmps) == 0 {
				return ""
			}
			out := fmt.Sprintf("let %s := %s in\n", pattern(tmps), term)
			for k, i := range keep {
				out += c.store(s.Lhs[i], tmps[k])
			}
			return out
		}
		if len(s.Lhs) == 1 {
			return c.store(s.Lhs[0], c.exprAs(s.Rhs[0], c.lhsType(s.Lhs[0], s.Rhs[0])))
		}
		// parallel assignment: all right-hand sides first.  Go also evaluates the index and
		// pointer operands of the targets before assigning; targets whose operands mention a
		// variable assigned by the same statement are rejected
		assignedHere := map[types.Object]bool{}
		for _, l := range s.Lhs {
			if id, ok := unparen(l).(*ast.Ident); ok {
				if o := c.info.Uses[id]; o != nil {
					assignedHere[o] = true
				} else if o := c.info.Defs[id]; o != nil {
					assignedHere[o] = true
				}
			}
		}
		for _, l := range s.Lhs {
			if _, ok := unparen(l).(*ast.Ident); ok {
				continue
			}
			ast.Inspect(l, func(n ast.Node) bool {
				if id, ok := n.(*ast.Ident); ok && assignedHere[c.info.Uses[id]] {
					c.fail(id.Pos(), "parallel assignment whose target %s mentions the variable %s assigned by the same statement", exprString(l), id.Name)
				}
				return true
			})
		}
		out := ""
		tmps := make([]string, len(s.Lhs))
		for i := range s.Lhs {
			tmps[i] = c.fresh("t")
			out += fmt.Sprintf("let %s := %s in\n", tmps[i], c.exprAs(s.Rhs[i], c.lhsType(s.Lhs[i], s.Rhs[i])))
		}
		for i, l := range s.Lhs {
			out += c.store(l, tmps[i])
		}
		return out
	}
	// op=
	ops := map[token.Token]token.Token{token.ADD_ASSIGN: token.ADD, token.SUB_ASSIGN: token.SUB, token.MUL_ASSIGN: token.MUL,
		token.QUO_ASSIGN: token.QUO, token.REM_ASSIGN: token.REM, token.AND_ASSIGN: token.AND, token.OR_ASSIGN: token.OR,
		token.XOR_ASSIGN: token.XOR, token.SHL_ASSIGN: token.SHL, token.SHR_ASSIGN: token.SHR, token.AND_NOT_ASSIGN: token.AND_NOT}
	op, ok := ops[s.Tok]
	if !ok || len(s.Lhs) != 1 {
		c.fail(s.Pos(), "assignment operator %s", s.Tok)
	}
	lt := c.typeOf(c.info.TypeOf(s.Lhs[0]), s.Pos())
	var rhs string
	rt := lt
	if op == token.SHL || op == token.SHR {
		rt = c.typeOf(c.info.TypeOf(s.Rhs[0]), s.Pos())
		rhs = c.expr(s.Rhs[0])
	} else {
		rhs = c.exprAs(s.Rhs[0], c.info.TypeOf(s.Lhs[0]))
	}
	return c.store(s.Lhs[0], c.binop(op, lt, c.expr(s.Lhs[0]), rhs, rt, s.Pos()))
}

func (c *fctx) lhsType(l, r ast.Expr) types.Type {
	if id, ok := l.(*ast.Ident); ok && id.Name == "_" {
		return c.info.TypeOf(r)
	}
	if t := c.info.TypeOf(l); t != nil {
		return t
	}
	if id, ok := l.(*ast.Ident); ok {
		if o := c.info.Defs[id]; o != nil {
			return o.Type()
		}
	}
	return c.info.TypeOf(r)
}

func (c *fctx) ifStmt(s *ast.IfStmt, next func() string) string {
	pre := ""
	if s.Init != nil {
		pre = c.stmts([]ast.Stmt{s.Init}, func() string { return "\x00" })
		if !strings.HasSuffix(pre, "\x00") {
			c.fail(s.Init.Pos(), "if-initialiser")
		}
		pre = strings.TrimSuffix(pre, "\x00")
	}
	var elseList []ast.Stmt
	if s.Else != nil {
		elseList = []ast.Stmt{s.Else}
	}
	if tv := c.info.Types[s.Cond]; tv.Value != nil && tv.Value.Kind() == constant.Bool {
		// a constant condition (if debug { ... } with const debug = false): only the live arm exists
		if constant.BoolVal(tv.Value) {
			return pre + c.stmts(s.Body.List, next)
		}
		return pre + c.stmts(elseList, next)
	}
	cond := c.expr(s.Cond)
	if !containsReturn(s.Body) && (s.Else == nil || !containsReturn(s.Else)) && !c.containsPanic(s) && !c.containsFueled(s) && !containsContinue(s) {
		// join: the arms only update variables
		w := c.assigned(s)
		if len(w) == 0 {
			return pre + next()
		}
		saved := c.copyEnv()
		arm := func(list []ast.Stmt) string {
			c.env = copyMap(saved)
			return c.stmts(list, func() string {
				var xs []string
				for _, o := range w {
					xs = append(xs, c.env[o])
				}
				return tuple(xs)
			})
		}
		a := arm(s.Body.List)
		b := arm(elseList)
		c.env = copyMap(saved)
		var names []string
		for _, o := range w {
			names = append(names, c.bindKey(o))
		}
		return pre + fmt.Sprintf("let %s :=\n  if %s\n  then\n%s\n  else\n%s in\n", pattern(names), cond, indent(a, "    "), indent(b, "    ")) + next()
	}
	// an arm returns (or panics): the continuation is pushed into both arms
	saved := c.copyEnv()
	c.env = copyMap(saved)
	a := c.stmts(s.Body.List, func() string { c.dropInner(saved); return next() })
	c.env = copyMap(saved)
	b := c.stmts(elseList, func() string { c.dropInner(saved); return next() })
	return pre + fmt.Sprintf("if %s\nthen\n%s\nelse\n%s", cond, indent(a, "  "), indent(b, "  "))
}

// dropInner removes variables declared inside an arm from the environment.
func (c *fctx) dropInner(outer map[envKey]string) {
	for o := range c.env {
		if _, ok := outer[o]; !ok {
			delete(c.env, o)
		}
	}
}

func copyMap(m map[envKey]string) map[envKey]string {
	n := make(map[envKey]string, len(m))
	for k, v := range m {
		n[k] = v
	}
	return n
}

// switchStmt: switch [tag] { case a, b: ...; default: ... } without fallthrough, as an if-chain.
func (c *fctx) switchStmt(s *ast.SwitchStmt, next func() string) string {
	pre := ""
	if s.Init != nil {
		pre = c.stmts([]ast.Stmt{s.Init}, func() string { return "\x00" })
		pre = strings.TrimSuffix(pre, "\x00")
	}
	tag := ""
	var tagT ty
	if s.Tag != nil {
		tagT = c.typeOf(c.info.TypeOf(s.Tag), s.Tag.Pos())
		tag = c.fresh("tag")
		pre += fmt.Sprintf("let %s := %s in\n", tag, c.expr(s.Tag))
	}
	var clauses []*ast.CaseClause
	var def *ast.CaseClause
	for _, st := range s.Body.List {
		cc := st.(*ast.CaseClause)
		for _, b := range cc.Body {
			if br, ok := b.(*ast.BranchStmt); ok {
				c.fail(br.Pos(), "%s in a switch", br.Tok)
			}
		}
		if cc.List == nil {
			def = cc
		} else {
			clauses = append(clauses, cc)
		}
	}
	joinable := !containsReturn(s.Body) && !c.containsPanic(s.Body) && !c.containsFueled(s.Body) && !containsContinue(s.Body)
	var w []envKey
	if joinable {
		w = c.assigned(s.Body)
		if len(w) == 0 {
			return pre + next()
		}
	}
	saved := c.copyEnv()
	finish := func() string {
		if joinable {
			var xs []string
			for _, o := range w {
				xs = append(xs, c.env[o])
			}
			return tuple(xs)
		}
		c.dropInner(saved)
		return next()
	}
	var build func(i int) string
	build = func(i int) string {
		if i == len(clauses) {
			c.env = copyMap(saved)
			if def == nil {
				return finish()
			}
			return c.stmts(def.Body, finish)
		}
		cc := clauses[i]
		var conds []string
		c.env = copyMap(saved)
		for _, e := range cc.List {
			if s.Tag == nil {
				conds = append(conds, c.expr(e))
			} else {
				conds = append(conds, c.compare(token.EQL, tagT, tag, c.exprAs(e, c.info.TypeOf(s.Tag)), e.Pos()))
			}
		}
		cond := conds[0]
		for _, x := range conds[1:] {
			cond = fmt.Sprintf("(orb %s %s)", cond, x)
		}
		a := c.stmts(cc.Body, finish)
		b := build(i + 1)
		return fmt.Sprintf("if %s\nthen\n%s\nelse\n%s", cond, indent(a, "  "), indent(b, "  "))
	}
	body := build(0)
	c.env = copyMap(saved)
	if joinable {
		var names []string
		for _, o := range w {
			names = append(names, c.bindKey(o))
		}
		return pre + fmt.Sprintf("let %s :=\n%s in\n", pattern(names), indent(body, "  ")) + next()
	}
	return pre + body
}

func (c *fctx) loopBodyCheck(body *ast.BlockStmt) {
	ast.Inspect(body, func(n ast.Node) bool {
		switch x := n.(type) {
		case *ast.BranchStmt:
			if x.Tok == token.CONTINUE && x.Label == nil {
				return true // translated where it stands (range / counting loops); refused in for-cond loops
			}
			if c.gotoOK()[x] {
				return true // goto found out of a search loop (recfn.go: searchGoto)
			}
			c.fail(x.Pos(), "%s inside a loop", x.Tok)
		case *ast.LabeledStmt:
			if !c.gotoOK()[x] {
				c.fail(n.Pos(), "%T inside a loop", n)
			}
		case *ast.GoStmt, *ast.DeferStmt, *ast.SelectStmt, *ast.SendStmt:
			c.fail(n.Pos(), "%T inside a loop", n)
		}
		return true
	})
}

// loop emits  let W := fold_left (fun W item => body) items W in next   and, when the body
// may return, threads an option through the fold (the first return wins).
func (c *fctx) loop(s ast.Stmt, body *ast.BlockStmt, items string, itemPat func() string, next func() string) string {
	ast.Inspect(body, func(n ast.Node) bool {
		if fl, ok := n.(*ast.FuncLit); ok {
			c.fail(fl.Pos(), "function literal (closure) inside a loop")
		}
		return true
	})
	c.loopBodyCheck(body)
	if c.containsPanic(body) {
		c.fail(body.Pos(), "panic inside a loop body")
	}
	if c.containsFueled(body) {
		return c.loopCtl(body, items, itemPat, next)
	}
	w := c.assigned(body)
	mayReturn := containsReturn(body)
	if len(w) == 0 && !mayReturn {
		return "(* loop without effect on the translated state omitted *)\n" + next()
	}
	saved := c.copyEnv()
	c.env = copyMap(saved)
	var accNames []string
	for _, o := range w {
		accNames = append(accNames, c.bindKey(o))
	}
	inner := copyMap(c.env)
	ip := itemPat()
	wt := func() string {
		var xs []string
		for _, o := range w {
			xs = append(xs, c.env[o])
		}
		if len(xs) == 0 {
			return "tt"
		}
		return tuple(xs)
	}
	accPat := "_"
	if len(accNames) > 0 {
		accPat = pattern(accNames)
	}
	var initXs []string
	for _, o := range w {
		initXs = append(initXs, saved[o])
	}
	initT := "tt"
	if len(initXs) > 0 {
		initT = tuple(initXs)
	}
	_ = inner
	oldCont := c.contK
	defer func() { c.contK = oldCont }()
	if !mayReturn {
		c.contK = wt
		b := c.stmts(body.List, wt)
		c.contK = oldCont
		c.env = copyMap(saved)
		var names []string
		for _, o := range w {
			names = append(names, c.bindKey(o))
		}
		return fmt.Sprintf("let %s :=\n  fold_left (fun %s %s =>\n%s)\n    %s %s in\n", pattern(names), accPat, ip, indent(b, "      "), items, initT) + next()
	}
	// early return: accumulator (option R * W)
	oldW, oldTy := c.retWrap, c.retTy
	rty := c.rawTy
	c.retWrap = func(r string) string { return fmt.Sprintf("(Some %s, %s)", r, wt()) }
	c.retTy = "?"
	c.contK = func() string { return fmt.Sprintf("(@None (%s), %s)", rty, wt()) }
	b := c.stmts(body.List, func() string { return fmt.Sprintf("(@None (%s), %s)", rty, wt()) })
	c.contK = oldCont
	c.retWrap, c.retTy = oldW, oldTy
	c.env = copyMap(saved)
	ret := c.fresh("ret")
	done := c.fresh("ret")
	var names []string
	for _, o := range w {
		names = append(names, c.bindKey(o))
	}
	np := "_"
	if len(names) > 0 {
		np = tuple(names)
	}
	ap := "_"
	if len(accNames) > 0 {
		ap = tuple(accNames)
	}
	rv := c.fresh("r")
	return fmt.Sprintf("let '(%s, %s) :=\n  fold_left (fun '(%s, %s) %s =>\n      match %s with\n      | Some _ => (%s, %s)\n      | None =>\n%s\n      end)\n    %s (@None (%s), %s) in\nmatch %s with\n| Some %s => %s\n| None =>\n%s\nend",
		ret, np, done, ap, ip, done, done, func() string {
			if len(accNames) > 0 {
				return tuple(accNames)
			}
			return "tt"
		}(), indent(b, "        "), items, rty, initT, ret, rv, c.retWrap(rv), indent(next(), "  "))
}

func (c *fctx) rangeStmt(s *ast.RangeStmt, next func() string) string {
	items, pat := c.rangeItems(s)
	return c.loop(s, s.Body, items, pat, next)
}

// rangeItems: the list a range statement folds over and the binder of one item.
func (c *fctx) rangeItems(s *ast.RangeStmt) (string, func() string) {
	xt := c.typeOf(c.info.TypeOf(s.X), s.X.Pos())
	if xt.k != kSlice {
		c.fail(s.Pos(), "range over %s (only slices)", c.info.TypeOf(s.X))
	}
	if s.Tok == token.ASSIGN {
		c.fail(s.Pos(), "range with = (assignment to existing variables)")
	}
	// Go reads the elements during the iteration: a body that writes the ranged slice would see
	// its own writes, the fold over the pre-loop list would not
	// (with the index only — for i := range xs — nothing is read from xs: the length is fixed at the
	// start in Go too, and an in-place update xs[i] = ... is fine as long as the length stays)
	if s.Value != nil && !isBlank(s.Value) {
		for _, k := range c.assigned(s.Body) {
			for _, rk := range c.keysOf(s.X) {
				if k == rk {
					c.fail(s.X.Pos(), "range over a slice that the loop body modifies")
				}
			}
		}
	} else {
		// the body must not change the LENGTH of the ranged slice: no whole-slice assignment to it
		ast.Inspect(s.Body, func(n ast.Node) bool {
			if as, ok := n.(*ast.AssignStmt); ok {
				for _, l := range as.Lhs {
					if id, isId := unparen(l).(*ast.Ident); isId {
						for _, rk := range c.keysOf(s.X) {
							if o := c.info.Uses[id]; o != nil && rk.obj == o && rk.field == "" {
								c.fail(l.Pos(), "assignment to the ranged slice %s inside the loop", id.Name)
							}
						}
					}
				}
			}
			return true
		})
	}
	xs := c.expr(s.X)
	keyUsed := s.Key != nil && !isBlank(s.Key)
	valUsed := s.Value != nil && !isBlank(s.Value)
	var items string
	switch {
	case keyUsed && valUsed:
		items = fmt.Sprintf("(go_enum %s)", xs)
	case keyUsed:
		items = fmt.Sprintf("(go_range 0 (go_len %s))", xs)
	default:
		items = xs
	}
	// the loop variables must not be assigned in the body
	pat := func() string {
		var k, v string
		if keyUsed {
			k = c.bind(c.info.Defs[s.Key.(*ast.Ident)], s.Key.(*ast.Ident).Name)
		}
		if valUsed {
			vo := c.info.Defs[s.Value.(*ast.Ident)]
			if r := c.recOf(vo); r != nil {
				v = c.fresh(vo.Name())
				c.writeWhole(vo, r, v)
			} else {
				v = c.bind(vo, s.Value.(*ast.Ident).Name)
			}
		}
		switch {
		case keyUsed && valUsed:
			return fmt.Sprintf("'(%s, %s)", k, v)
		case keyUsed:
			return k
		case valUsed:
			return v
		}
		return "_"
	}
	for _, e := range []ast.Expr{s.Key, s.Value} {
		if id, ok := e.(*ast.Ident); ok && id.Name != "_" {
			c.noAssign(s.Body, c.info.Defs[id], id.Name)
		}
	}
	return items, pat
}

func isBlank(e ast.Expr) bool {
	id, ok := e.(*ast.Ident)
	return ok && id.Name == "_"
}

func (c *fctx) noAssign(body ast.Node, o types.Object, name string) {
	ast.Inspect(body, func(n ast.Node) bool {
		switch s := n.(type) {
		case *ast.AssignStmt:
			for _, l := range s.Lhs {
				if c.rootVar(l) == o {
					c.fail(l.Pos(), "assignment to the loop variable %s inside the loop", name)
				}
			}
		case *ast.IncDecStmt:
			if c.rootVar(s.X) == o {
				c.fail(s.Pos(), "assignment to the loop variable %s inside the loop", name)
			}
		}
		return true
	})
}

// countInfo: a loop of the counting form  for i := a; i < b; i++  (also <=, and the descending
// forms with > / >= and i--), with a signed loop variable that the body does not assign and a
// bound that the body does not change.  Every other for statement is a "while" loop and is
// translated with explicit fuel (whileStmt).
type countInfo struct {
	id    *ast.Ident
	iv    types.Object
	start ast.Expr
	bound ast.Expr
	op    token.Token
	step  int
}

func (c *fctx) countingForm(s *ast.ForStmt) *countInfo {
	if s.Init == nil || s.Cond == nil || s.Post == nil {
		return nil
	}
	as, ok := s.Init.(*ast.AssignStmt)
	if !ok || as.Tok != token.DEFINE || len(as.Lhs) != 1 || len(as.Rhs) != 1 {
		return nil
	}
	id, ok := as.Lhs[0].(*ast.Ident)
	if !ok {
		return nil
	}
	iv := c.info.Defs[id]
	if iv == nil {
		return nil
	}
	if it, ok := c.tryType(iv.Type()); !ok || it.k != kSInt {
		return nil
	}
	step := 0
	switch p := s.Post.(type) {
	case *ast.IncDecStmt:
		if pid, ok := unparen(p.X).(*ast.Ident); ok && c.info.Uses[pid] == iv {
			if p.Tok == token.INC {
				step = 1
			} else {
				step = -1
			}
		}
	case *ast.AssignStmt:
		if len(p.Lhs) == 1 && len(p.Rhs) == 1 {
			if pid, ok := unparen(p.Lhs[0]).(*ast.Ident); ok && c.info.Uses[pid] == iv {
				if tv := c.info.Types[p.Rhs[0]]; tv.Value != nil && constant.Compare(tv.Value, token.EQL, constant.MakeInt64(1)) {
					if p.Tok == token.ADD_ASSIGN {
						step = 1
					} else if p.Tok == token.SUB_ASSIGN {
						step = -1
					}
				}
			}
		}
	}
	if step == 0 {
		return nil
	}
	be, ok := unparen(s.Cond).(*ast.BinaryExpr)
	if !ok {
		return nil
	}
	op := be.Op
	var bound ast.Expr
	if idl, ok := unparen(be.X).(*ast.Ident); ok && c.info.Uses[idl] == iv {
		bound = be.Y
	} else if idr, ok := unparen(be.Y).(*ast.Ident); ok && c.info.Uses[idr] == iv {
		bound = be.X
		op = map[token.Token]token.Token{token.LSS: token.GTR, token.GTR: token.LSS, token.LEQ: token.GEQ, token.GEQ: token.LEQ}[op]
	} else {
		return nil
	}
	switch {
	case step == 1 && (op == token.LSS || op == token.LEQ):
	case step == -1 && (op == token.GTR || op == token.GEQ):
	default:
		return nil
	}
	// the bound must be loop-invariant: it mentions neither the loop variable nor anything the body may assign
	okb := true
	assignedObjs := c.assignedObjs(s.Body)
	ast.Inspect(bound, func(n ast.Node) bool {
		if idn, ok := n.(*ast.Ident); ok {
			o := c.info.Uses[idn]
			if o == iv || (o != nil && assignedObjs[o]) {
				okb = false
			}
		}
		return true
	})
	if !okb || assignedObjs[iv] {
		return nil
	}
	return &countInfo{id: id, iv: iv, start: as.Rhs[0], bound: bound, op: op, step: step}
}

// assignedObjs: the root variables of all assignment targets in n (independent of c.env).
func (c *fctx) assignedObjs(n ast.Node) map[types.Object]bool {
	out := map[types.Object]bool{}
	ast.Inspect(n, func(n ast.Node) bool {
		switch s := n.(type) {
		case *ast.AssignStmt:
			for _, l := range s.Lhs {
				if o := c.rootVar(l); o != nil {
					out[o] = true
				}
			}
		case *ast.IncDecStmt:
			if o := c.rootVar(s.X); o != nil {
				out[o] = true
			}
		case *ast.ExprStmt:
			// x.M(...) may update x through a pointer receiver
			if call, ok := s.X.(*ast.CallExpr); ok {
				if sel, ok := call.Fun.(*ast.SelectorExpr); ok {
					if _, isSel := c.info.Selections[sel]; isSel {
						if o := c.rootVar(sel.X); o != nil {
							out[o] = true
						}
					}
				}
				// f(xs) of an opaque in-place function (sort.Float64s) updates xs
				for _, a := range call.Args {
					if o := c.rootVar(a); o != nil {
						out[o] = true
					}
				}
			}
		}
		return true
	})
	return out
}

func (c *fctx) forStmt(s *ast.ForStmt, next func() string) string {
	ci := c.countingForm(s)
	if ci == nil {
		return c.whileStmt(s, next)
	}
	iv, id := ci.iv, ci.id
	start := c.exprAs(ci.start, iv.Type())
	b := c.exprAs(ci.bound, iv.Type())
	var items string
	switch {
	case ci.step == 1 && ci.op == token.LSS:
		items = fmt.Sprintf("(go_range %s %s)", start, b)
	case ci.step == 1 && ci.op == token.LEQ:
		items = fmt.Sprintf("(go_range %s (%s + 1)%%Z)", start, b)
	case ci.step == -1 && ci.op == token.GTR:
		items = fmt.Sprintf("(go_range_down (%s + 1)%%Z (%s + 1)%%Z)", b, start)
	case ci.step == -1 && ci.op == token.GEQ:
		items = fmt.Sprintf("(go_range_down %s (%s + 1)%%Z)", b, start)
	}
	c.noAssign(s.Body, iv, id.Name)
	pat := func() string { return c.bind(iv, id.Name) }
	return c.loop(s, s.Body, items, pat, next)
}

func (c *fctx) isLenCall(call *ast.CallExpr) bool {
	id, ok := call.Fun.(*ast.Ident)
	if !ok {
		return false
	}
	b, ok := c.info.Uses[id].(*types.Builtin)
	return ok && b.Name() == "len"
}

// ---------------------------------------------------------------- expressions

// exprAs translates e as a value of type want (untyped constants take that type).
func (c *fctx) exprAs(e ast.Expr, want types.Type) string {
	tv := c.info.Types[e]
	if tv.IsNil() && want != nil {
		// a nil slice is the empty list; a nil error is None; a nil *T is read as the zero
		// record (README, semantics assumptions: the accompanying error value discriminates)
		if t := c.typeOf(want, e.Pos()); t.k == kSlice || t.k == kErr || t.k == kRec {
			return c.zero(t, e.Pos())
		}
	}
	if tv.Value != nil && want != nil {
		return c.constant(c.exactValue(e, tv.Value), c.typeOf(want, e.Pos()), e.Pos())
	}
	return c.expr(e)
}

func (c *fctx) constant(v constant.Value, t ty, p token.Pos) string {
	switch t.k {
	case kBool:
		if v.Kind() != constant.Bool {
			c.fail(p, "constant %s as bool", v)
		}
		if constant.BoolVal(v) {
			return "true"
		}
		return "false"
	case kSInt, kUInt:
		iv := constant.ToInt(v)
		if iv.Kind() != constant.Int {
			c.fail(p, "constant %s as integer", v)
		}
		sc := "%Z"
		if t.k == kUInt {
			sc = "%N"
		}
		return fmt.Sprintf("(%s)%s", iv.ExactString(), sc)
	case kFloat:
		fv := constant.ToFloat(v)
		if fv.Kind() != constant.Float && fv.Kind() != constant.Int {
			c.fail(p, "constant %s as float", v)
		}
		var r *big.Rat
		switch x := constant.Val(fv).(type) {
		case *big.Rat:
			r = x
		case *big.Float:
			r, _ = x.Rat(nil)
		case int64:
			r = new(big.Rat).SetInt64(x)
		case *big.Int:
			r = new(big.Rat).SetInt(x)
		}
		if r == nil {
			c.fail(p, "constant %s has no exact rational value", v)
		}
		if r.Sign() < 0 {
			return fmt.Sprintf("((%s) # %s)", r.Num().String(), r.Denom().String())
		}
		return fmt.Sprintf("(%s # %s)", r.Num().String(), r.Denom().String())
	}
	c.fail(p, "constant of this type")
	return ""
}

func (c *fctx) expr(e ast.Expr) string {
	tv, has := c.info.Types[e]
	if has && tv.Value != nil && tv.Type != nil {
		if b, ok := tv.Type.Underlying().(*types.Basic); ok && b.Info()&types.IsString == 0 {
			return c.constant(c.exactValue(e, tv.Value), c.typeOf(tv.Type, e.Pos()), e.Pos())
		}
	}
	switch x := e.(type) {
	case *ast.ParenExpr:
		return c.expr(x.X)
	case *ast.Ident:
		o := c.info.Uses[x]
		if o == nil {
			o = c.info.Defs[x]
		}
		if o != nil && c.known(o) {
			return c.readVar(o)
		}
		switch o := o.(type) {
		case *types.Var:
			if name, ok := c.opaqueVar(o); ok {
				t := c.typeOf(o.Type(), x.Pos())
				if t.k == kErr {
					c.addOpq(opq{name: name, typ: "N"}, x.Pos())
					return "(Some " + name + ")"
				}
				c.addOpq(opq{name: name, typ: c.coqTy(t, x.Pos())}, x.Pos())
				return name
			}
			if isInterface(o.Type()) && !isErrorType(o.Type()) {
				c.fail(x.Pos(), "use of the interface value %s other than as the receiver of an opaque method call or as an argument passed on", x.Name)
			}
			c.fail(x.Pos(), "package-level variable %s (not constant; declare it opaque to pass it as a parameter)", x.Name)
		case *types.Nil:
			c.fail(x.Pos(), "nil")
		}
		c.fail(x.Pos(), "identifier %s", x.Name)
	case *ast.BasicLit:
		c.fail(x.Pos(), "literal %s", x.Value)
	case *ast.SelectorExpr:
		if sel, ok := c.info.Selections[x]; ok {
			if sel.Kind() != types.FieldVal {
				c.fail(x.Pos(), "method value %s", x.Sel.Name)
			}
			if len(sel.Index()) != 1 {
				c.fail(x.Pos(), "selection of the promoted field %s", x.Sel.Name)
			}
			xt := c.typeOf(c.info.TypeOf(x.X), x.Pos())
			_, r := c.fieldOf(xt, x.Sel.Name, x.Pos())
			if o := c.baseVar(x.X); o != nil && c.recOf(o) != nil && c.known(o) {
				return c.env[envKey{o, x.Sel.Name}]
			}
			return fmt.Sprintf("(%s_%s %s)", r.name, x.Sel.Name, c.expr(x.X))
		}
		// package-qualified variable
		if o, ok := c.info.Uses[x.Sel].(*types.Var); ok {
			if name, ok := c.opaqueVar(o); ok {
				t := c.typeOf(o.Type(), x.Pos())
				c.addOpq(opq{name: name, typ: c.coqTy(t, x.Pos())}, x.Pos())
				return name
			}
		}
		c.fail(x.Pos(), "qualified identifier %s", exprString(x))
	case *ast.StarExpr:
		t := c.typeOf(c.info.TypeOf(x.X), x.Pos())
		if t.k != kRec {
			c.fail(x.Pos(), "pointer dereference of a non-struct")
		}
		return c.expr(x.X)
	case *ast.UnaryExpr:
		t := c.typeOf(c.info.TypeOf(x), x.Pos())
		switch x.Op {
		case token.ADD:
			return c.expr(x.X)
		case token.SUB:
			switch t.k {
			case kFloat:
				return fmt.Sprintf("(- %s)", c.expr(x.X))
			case kSInt:
				return fmt.Sprintf("(go_sneg %d %s)", t.bits, c.expr(x.X))
			}
		case token.NOT:
			return fmt.Sprintf("(negb %s)", c.expr(x.X))
		case token.XOR:
			if t.k == kUInt {
				return fmt.Sprintf("(go_unot %d %s)", t.bits, c.expr(x.X))
			}
		case token.AND:
			if cl, ok := unparen(x.X).(*ast.CompositeLit); ok {
				return c.expr(cl)
			}
			if o := c.baseVar(x.X); o != nil && c.recOf(o) != nil && c.known(o) {
				// &x of a struct variable passed to a callee that only reads it (a callee that
				// writes through a non-receiver pointer is rejected at the call)
				return c.readVar(o)
			}
			c.fail(x.Pos(), "address-of operator")
		}
		c.fail(x.Pos(), "unary operator %s on %s", x.Op, c.info.TypeOf(x.X))
	case *ast.BinaryExpr:
		return c.binary(x)
	case *ast.CallExpr:
		return c.call(x)
	case *ast.IndexExpr:
		xt := c.typeOf(c.info.TypeOf(x.X), x.Pos())
		if xt.k != kSlice {
			c.fail(x.Pos(), "index expression on %s (only slices)", c.info.TypeOf(x.X))
		}
		return fmt.Sprintf("(go_idx %s %s %s)", c.zero(*xt.elem, x.Pos()), c.expr(x.X), c.indexTerm(x.Index))
	case *ast.CompositeLit:
		t := c.typeOf(c.info.TypeOf(x), x.Pos())
		switch t.k {
		case kRec:
			r := c.record(t.rec, x.Pos())
			st := t.rec.Underlying().(*types.Struct)
			if len(r.omitted) > 0 {
				c.fail(x.Pos(), "composite literal of %s, which has fields outside the subset (%s)", r.name, strings.Join(r.omitted, "; "))
			}
			vals := make([]string, len(r.fields))
			for i, f := range r.fields {
				vals[i] = c.zero(f.t, x.Pos())
			}
			for i, el := range x.Elts {
				if kv, ok := el.(*ast.KeyValueExpr); ok {
					name := kv.Key.(*ast.Ident).Name
					for j, f := range r.fields {
						if f.name == name {
							vals[j] = c.exprAs(kv.Value, st.Field(j).Type())
						}
					}
				} else {
					vals[i] = c.exprAs(el, st.Field(i).Type())
				}
			}
			return "(mk_" + r.name + " " + strings.Join(vals, " ") + ")"
		case kSlice:
			var vals []string
			et := c.info.TypeOf(x).Underlying().(*types.Slice).Elem()
			for _, el := range x.Elts {
				if _, ok := el.(*ast.KeyValueExpr); ok {
					c.fail(el.Pos(), "keyed slice literal")
				}
				vals = append(vals, c.exprAs(el, et))
			}
			if len(vals) == 0 {
				return c.zero(t, x.Pos())
			}
			return "[" + strings.Join(vals, "; ") + "]"
		}
		c.fail(x.Pos(), "composite literal of type %s", c.info.TypeOf(x))
	case *ast.FuncLit:
		return c.funcLit(x)
	case *ast.SliceExpr:
		return c.sliceExpr(x)
	case *ast.TypeAssertExpr:
		return c.typeAssert(x)
	}
	c.fail(e.Pos(), "expression %T", e)
	return ""
}

func exprString(e ast.Expr) string {
	switch x := e.(type) {
	case *ast.Ident:
		return x.Name
	case *ast.SelectorExpr:
		return exprString(x.X) + "." + x.Sel.Name
	}
	return fmt.Sprintf("%T", e)
}

// indexTerm: a slice index as a Z term.
func (c *fctx) indexTerm(e ast.Expr) string {
	t := c.typeOf(c.info.TypeOf(e), e.Pos())
	switch t.k {
	case kSInt:
		return c.exprAs(e, types.Typ[types.Int])
	case kUInt:
		return fmt.Sprintf("(Z.of_N %s)", c.expr(e))
	}
	c.fail(e.Pos(), "index of type %s", c.info.TypeOf(e))
	return ""
}

func (c *fctx) binary(x *ast.BinaryExpr) string {
	lt0, rt0 := c.info.TypeOf(x.X), c.info.TypeOf(x.Y)
	switch x.Op {
	case token.LAND:
		return fmt.Sprintf("(andb %s %s)", c.expr(x.X), c.expr(x.Y))
	case token.LOR:
		return fmt.Sprintf("(orb %s %s)", c.expr(x.X), c.expr(x.Y))
	case token.SHL, token.SHR:
		lt := c.typeOf(c.info.TypeOf(x), x.Pos())
		rt := c.typeOf(rt0, x.Y.Pos())
		return c.binop(x.Op, lt, c.exprAs(x.X, c.info.TypeOf(x)), c.expr(x.Y), rt, x.Pos())
	case token.EQL, token.NEQ, token.LSS, token.LEQ, token.GTR, token.GEQ:
		if x.Op == token.EQL || x.Op == token.NEQ {
			// xs == nil for a slice: read as len(xs) == 0 (a non-nil empty slice is not
			// distinguished from nil; README, semantics assumptions)
			var sl ast.Expr
			if c.info.Types[x.Y].IsNil() {
				sl = x.X
			} else if c.info.Types[x.X].IsNil() {
				sl = x.Y
			}
			if sl != nil {
				if st, ok := c.tryType(c.info.TypeOf(sl)); ok && st.k == kSlice {
					t := fmt.Sprintf("(go_isnil %s)", c.expr(sl))
					if x.Op == token.NEQ {
						t = "(negb " + t + ")"
					}
					return t
				}
				c.fail(x.Pos(), "comparison with nil of something other than a slice")
			}
		}
		// operand type: the typed side decides
		ot := lt0
		if b, ok := ot.(*types.Basic); ok && b.Info()&types.IsUntyped != 0 {
			ot = rt0
		}
		if b, ok := ot.(*types.Basic); ok && b.Info()&types.IsUntyped != 0 {
			c.fail(x.Pos(), "comparison of two untyped constants that is not itself constant")
		}
		t := c.typeOf(ot, x.Pos())
		return c.compare(x.Op, t, c.exprAs(x.X, ot), c.exprAs(x.Y, ot), x.Pos())
	}
	rtT := c.info.TypeOf(x)
	t := c.typeOf(rtT, x.Pos())
	return c.binop(x.Op, t, c.exprAs(x.X, rtT), c.exprAs(x.Y, rtT), t, x.Pos())
}

func (c *fctx) compare(op token.Token, t ty, a, b string, p token.Pos) string {
	switch t.k {
	case kFloat:
		switch op {
		case token.LSS:
			return fmt.Sprintf("(Qltb %s %s)", a, b)
		case token.LEQ:
			return fmt.Sprintf("(Qleb %s %s)", a, b)
		case token.GTR:
			return fmt.Sprintf("(Qltb %s %s)", b, a)
		case token.GEQ:
			return fmt.Sprintf("(Qleb %s %s)", b, a)
		case token.EQL:
			return fmt.Sprintf("(Qeqb %s %s)", a, b)
		case token.NEQ:
			return fmt.Sprintf("(negb (Qeqb %s %s))", a, b)
		}
	case kSInt, kUInt:
		sc := "%Z"
		if t.k == kUInt {
			sc = "%N"
		}
		switch op {
		case token.LSS:
			return fmt.Sprintf("(%s <? %s)%s", a, b, sc)
		case token.LEQ:
			return fmt.Sprintf("(%s <=? %s)%s", a, b, sc)
		case token.GTR:
			return fmt.Sprintf("(%s <? %s)%s", b, a, sc)
		case token.GEQ:
			return fmt.Sprintf("(%s <=? %s)%s", b, a, sc)
		case token.EQL:
			return fmt.Sprintf("(%s =? %s)%s", a, b, sc)
		case token.NEQ:
			return fmt.Sprintf("(negb (%s =? %s)%s)", a, b, sc)
		}
	case kBool:
		switch op {
		case token.EQL:
			return fmt.Sprintf("(Bool.eqb %s %s)", a, b)
		case token.NEQ:
			return fmt.Sprintf("(negb (Bool.eqb %s %s))", a, b)
		}
	}
	c.fail(p, "comparison %s on this type", op)
	return ""
}

func (c *fctx) binop(op token.Token, t ty, a, b string, rt ty, p token.Pos) string {
	switch t.k {
	case kFloat:
		switch op {
		case token.ADD:
			return fmt.Sprintf("(%s + %s)", a, b)
		case token.SUB:
			return fmt.Sprintf("(%s - %s)", a, b)
		case token.MUL:
			return fmt.Sprintf("(%s * %s)", a, b)
		case token.QUO:
			return fmt.Sprintf("(%s / %s)", a, b)
		}
	case kSInt:
		fn := map[token.Token]string{token.ADD: "go_sadd", token.SUB: "go_ssub", token.MUL: "go_smul", token.QUO: "go_squot", token.REM: "go_srem"}[op]
		if fn != "" {
			return fmt.Sprintf("(%s %d %s %s)", fn, t.bits, a, b)
		}
		if op == token.SHL {
			// k << c on a signed integer: multiplication by 2^c with wrap-around (c >= 0: Go panics on a negative count)
			cnt := b
			switch rt.k {
			case kSInt:
			case kUInt:
				cnt = fmt.Sprintf("(Z.of_N %s)", b)
			default:
				c.fail(p, "shift count of this type")
			}
			return fmt.Sprintf("(go_sshl %d %s %s)", t.bits, a, cnt)
		}
	case kUInt:
		fn := map[token.Token]string{token.ADD: "go_uadd", token.SUB: "go_usub", token.MUL: "go_umul", token.QUO: "go_udiv", token.REM: "go_urem",
			token.AND: "go_uand", token.OR: "go_uor", token.XOR: "go_uxor", token.AND_NOT: "go_uandnot"}[op]
		if fn != "" {
			return fmt.Sprintf("(%s %d %s %s)", fn, t.bits, a, b)
		}
		if op == token.SHL || op == token.SHR {
			cnt := b
			switch rt.k {
			case kSInt:
				cnt = fmt.Sprintf("(Z.to_N %s)", b)
			case kUInt:
			default:
				c.fail(p, "shift count of this type")
			}
			if op == token.SHL {
				return fmt.Sprintf("(go_ushl %d %s %s)", t.bits, a, cnt)
			}
			return fmt.Sprintf("(go_ushr %d %s %s)", t.bits, a, cnt)
		}
	}
	c.fail(p, "operator %s on this type", op)
	return ""
}

// ---------------------------------------------------------------- calls

var mathFuncs = map[string]string{"Modf": "go_modf", "Floor": "go_floor", "Ceil": "go_ceil", "Abs": "go_abs", "Max": "go_fmax", "Min": "go_fmin", "Trunc": "go_trunc"}

func (c *fctx) opaqueName(f *types.Func) (string, bool) {
	n, _, ok := c.opaqueSpec(f)
	return n, ok
}

// opaqueSpec: the opaque parameter name of f and whether the directive marks it read-only
// ("name!ro": an opaque method with pointer receiver that does not update its receiver).
func (c *fctx) opaqueSpec(f *types.Func) (string, bool, bool) {
	if c.u.group.Opaque == nil {
		return "", false, false
	}
	key := funcKey(f)
	n, ok := "", false
	if f.Pkg() != nil {
		if n, ok = c.u.group.Opaque[f.Pkg().Name()+"."+key]; !ok && f.Pkg().Path() != c.u.pkg.path {
			return "", false, false
		}
	}
	if !ok {
		n, ok = c.u.group.Opaque[key]
	}
	if !ok {
		return "", false, false
	}
	if strings.HasSuffix(n, "!ro") {
		return strings.TrimSuffix(n, "!ro"), true, true
	}
	return n, false, true
}

func (c *fctx) opaqueVar(v *types.Var) (string, bool) {
	if c.u.group.Opaque == nil || v.Pkg() == nil {
		return "", false
	}
	if n, ok := c.u.group.Opaque[v.Pkg().Name()+"."+v.Name()]; ok {
		return n, true
	}
	if v.Pkg().Path() == c.u.pkg.path {
		n, ok := c.u.group.Opaque[v.Name()]
		return n, ok
	}
	return "", false
}

func (c *fctx) callee(f *types.Func, p token.Pos) *unit {
	if f.Pkg() == nil || c.t.ld.pkgs[f.Pkg().Path()] == nil {
		return nil
	}
	if _, ok := c.t.ld.pkgs[f.Pkg().Path()].decls[f]; !ok {
		return nil // interface method or no source
	}
	cu := c.t.request(f, c.u.group, false)
	if cu.state == 1 {
		c.fail(p, "recursive call of %s", cu.key)
	}
	if cu.state == 0 {
		// translate the callee now (depth first) so that its parameters are known
		for i, q := range c.t.queue {
			if q == cu {
				c.t.queue = append(c.t.queue[:i], c.t.queue[i+1:]...)
				break
			}
		}
		c.t.translate(cu)
	}
	if cu.err != nil {
		c.fail(p, "call of %s, which is not translatable: %v", cu.key, cu.err)
	}
	if cu.curried {
		c.fail(p, "call of %s, which returns a closure (such a function is only translated uncurried, as a target of its own)", cu.key)
	}
	found := false
	for _, d := range c.u.deps {
		if d == cu {
			found = true
		}
	}
	if !found {
		c.u.deps = append(c.u.deps, cu)
	}
	return cu
}

// callTerm: application of a translated module function; recv == "" for plain functions.
func (c *fctx) callTerm(cu *unit, recv string, call *ast.CallExpr, f *types.Func) string {
	sig := f.Type().(*types.Signature)
	parts := []string{cu.coqName}
	for _, o := range cu.opaque {
		if o.ifaceVar != nil {
			parts = append(parts, c.ifaceArg(cu, o, call, f))
			continue
		}
		c.addOpq(o, call.Pos())
		parts = append(parts, o.name)
	}
	if cu.fueled {
		parts = append(parts, "fuel")
	}
	if recv != "" {
		parts = append(parts, recv)
	}
	if len(call.Args) != sig.Params().Len() {
		c.fail(call.Pos(), "call with a multi-valued or variadic argument list")
	}
	for i, a := range call.Args {
		if isInterface(sig.Params().At(i).Type()) {
			continue
		}
		parts = append(parts, c.exprAs(a, sig.Params().At(i).Type()))
	}
	return "(" + strings.Join(parts, " ") + ")"
}

// callMulti: a call used where n values are expected.
func (c *fctx) callMulti(e ast.Expr, n int) string {
	call, ok := unparen(e).(*ast.CallExpr)
	if !ok {
		c.fail(e.Pos(), "multi-valued expression %T", e)
	}
	return c.callN(call, n)
}

func (c *fctx) call(x *ast.CallExpr) string { return c.callN(x, 1) }

func (c *fctx) callN(x *ast.CallExpr, nres int) string {
	// conversion
	if tv := c.info.Types[x.Fun]; tv.IsType() {
		if len(x.Args) != 1 {
			c.fail(x.Pos(), "conversion")
		}
		return c.convert(x.Args[0], tv.Type, x.Pos())
	}
	fun := unparen(x.Fun)
	// builtins
	if id, ok := fun.(*ast.Ident); ok {
		if b, ok := c.info.Uses[id].(*types.Builtin); ok {
			switch b.Name() {
			case "len":
				at := c.typeOf(c.info.TypeOf(x.Args[0]), x.Pos())
				if at.k != kSlice {
					c.fail(x.Pos(), "len of %s", c.info.TypeOf(x.Args[0]))
				}
				return fmt.Sprintf("(go_len %s)", c.expr(x.Args[0]))
			case "make":
				t := c.typeOf(c.info.TypeOf(x), x.Pos())
				if t.k != kSlice || len(x.Args) != 2 {
					c.fail(x.Pos(), "make of something other than a slice with a length")
				}
				return fmt.Sprintf("(go_make %s %s)", c.zero(*t.elem, x.Pos()), c.indexTerm(x.Args[1]))
			case "append":
				// append(xs, v1, ..., vk) and append(xs, ys...): the new slice value (slices are
				// values here: the write into spare capacity that Go may share with xs is not modelled)
				t := c.typeOf(c.info.TypeOf(x), x.Pos())
				if t.k != kSlice || len(x.Args) < 1 {
					c.fail(x.Pos(), "append on something other than a slice")
				}
				base := c.exprAs(x.Args[0], c.info.TypeOf(x))
				if x.Ellipsis != token.NoPos {
					if len(x.Args) != 2 {
						c.fail(x.Pos(), "append with a spread argument and other arguments")
					}
					return fmt.Sprintf("(%s ++ %s)", base, c.expr(x.Args[1]))
				}
				et := c.info.TypeOf(x).Underlying().(*types.Slice).Elem()
				var vs []string
				for _, a := range x.Args[1:] {
					vs = append(vs, c.exprAs(a, et))
				}
				if len(vs) == 0 {
					return base
				}
				return fmt.Sprintf("(%s ++ [%s])", base, strings.Join(vs, "; "))
			}
			c.fail(x.Pos(), "builtin %s", b.Name())
		}
	}
	var f *types.Func
	recv := ""
	var recvExpr ast.Expr
	switch fn := fun.(type) {
	case *ast.Ident:
		switch o := c.info.Uses[fn].(type) {
		case *types.Func:
			f = o
		case *types.Var:
			// call of a function-typed variable or parameter
			if n, ok := c.env[envKey{o, ""}]; ok {
				sig := o.Type().Underlying().(*types.Signature)
				parts := []string{n}
				for i, a := range x.Args {
					parts = append(parts, c.exprAs(a, sig.Params().At(i).Type()))
				}
				return "(" + strings.Join(parts, " ") + ")"
			}
			c.fail(x.Pos(), "call of the function variable %s", fn.Name)
		}
	case *ast.CallExpr:
		// f(a)(b): the call of a function returned by a call
		if sig, ok := c.info.TypeOf(fn).Underlying().(*types.Signature); ok {
			parts := []string{c.expr(fn)}
			for i, a := range x.Args {
				parts = append(parts, c.exprAs(a, sig.Params().At(i).Type()))
			}
			return "(" + strings.Join(parts, " ") + ")"
		}
	case *ast.SelectorExpr:
		if sel, ok := c.info.Selections[fn]; ok {
			if sel.Kind() == types.FieldVal {
				// r.F(args) with the directive "T.F": an opaque function of the record and the arguments
				if rt, ok := c.tryType(c.info.TypeOf(fn.X)); ok && rt.k == kRec && c.u.group.Opaque != nil {
					if name, has := c.u.group.Opaque[c.record(rt.rec, x.Pos()).name+"."+fn.Sel.Name]; has {
						fsig, _ := sel.Obj().Type().Underlying().(*types.Signature)
						if fsig == nil {
							c.fail(x.Pos(), "call of the non-function field %s", fn.Sel.Name)
						}
						parts := []string{name, c.expr(fn.X)}
						tys := []string{c.coqTy(rt, x.Pos())}
						for i, a := range x.Args {
							parts = append(parts, c.exprAs(a, fsig.Params().At(i).Type()))
							tys = append(tys, c.coqTy(c.typeOf(fsig.Params().At(i).Type(), x.Pos()), x.Pos()))
						}
						var rs []string
						for i := 0; i < fsig.Results().Len(); i++ {
							rs = append(rs, c.coqTy(c.typeOf(fsig.Results().At(i).Type(), x.Pos()), x.Pos()))
						}
						tys = append(tys, strings.Join(rs, " * "))
						c.addOpq(opq{name: name, typ: strings.Join(tys, " -> ")}, x.Pos())
						return "(" + strings.Join(parts, " ") + ")"
					}
				}
				c.fail(x.Pos(), "call of a function-valued field %s", fn.Sel.Name)
			}
			f, _ = sel.Obj().(*types.Func)
			recvExpr = fn.X
		} else {
			f, _ = c.info.Uses[fn.Sel].(*types.Func)
		}
	}
	if f == nil {
		c.fail(x.Pos(), "call of %T", fun)
	}
	sig := f.Type().(*types.Signature)
	if sig.Results().Len() != nres && !(nres == 1 && sig.Results().Len() == 1) {
		if sig.Results().Len() != nres {
			c.fail(x.Pos(), "call of %s yields %d values where %d are used", f.Name(), sig.Results().Len(), nres)
		}
	}
	// opaque callee: a parameter of the generated definition
	if name, ok := c.opaqueName(f); ok {
		// the receiver is not passed: an opaque method is a function of its arguments only
		// unless the receiver is a translatable record
		parts := []string{name}
		var tys []string
		var ifv *types.Var
		if recvExpr != nil {
			if rt, ok := c.tryType(c.info.TypeOf(recvExpr)); ok && rt.k == kRec {
				parts = append(parts, c.expr(recvExpr))
				tys = append(tys, c.coqTy(rt, x.Pos()))
			} else if isInterface(c.info.TypeOf(recvExpr)) {
				// the receiver is not passed: the opaque method stands for the method of ONE
				// interface value, which must be a parameter of the function
				id, isId := unparen(recvExpr).(*ast.Ident)
				if isId {
					ifv, _ = c.info.Uses[id].(*types.Var)
				}
				if ifv == nil || !(c.isParam(ifv) || c.ifaceLocals[ifv]) {
					c.fail(x.Pos(), "opaque interface method %s called on something other than an interface-typed parameter", name)
				}
				if n, idx := c.ifaceParams(ifv); n > 1 {
					name = fmt.Sprintf("%s_%d", name, idx)
					parts[0] = name
				}
			}
		}
		for i, a := range x.Args {
			pt := sig.Params().At(i).Type()
			if isInterface(pt) && !isErrorType(pt) && isInterface(c.info.TypeOf(a)) {
				// an interface value handed on to an opaque function: not represented (the opaque
				// function stands for "the callee applied to that value"); it must be a parameter
				id, isId := unparen(a).(*ast.Ident)
				var v *types.Var
				if isId {
					v, _ = c.info.Uses[id].(*types.Var)
				}
				if v == nil || !(c.isParam(v) || c.ifaceLocals[v]) {
					c.fail(a.Pos(), "interface value passed to the opaque %s that is not a parameter", name)
				}
				continue
			}
			if isInterface(pt) && !isErrorType(pt) && !isInterface(c.info.TypeOf(a)) {
				pt = c.info.TypeOf(a) // an opaque function applied to a value of concrete type
			}
			parts = append(parts, c.exprAs(a, pt))
			tys = append(tys, c.coqTy(c.typeOf(pt, x.Pos()), x.Pos()))
		}
		var rs []string
		for i := 0; i < sig.Results().Len(); i++ {
			rt := sig.Results().At(i).Type()
			if isInterface(rt) && !isErrorType(rt) && sig.Results().Len() > 1 {
				continue // not represented: see ifaceResult
			}
			rs = append(rs, c.coqTy(c.typeOf(rt, x.Pos()), x.Pos()))
		}
		tys = append(tys, strings.Join(rs, " * "))
		c.addOpq(opq{name: name, typ: strings.Join(tys, " -> "), ifaceVar: ifv, method: f}, x.Pos())
		if ifv == nil {
			o := c.opq[name]
			o.method = nil
			c.opq[name] = o
		}
		return "(" + strings.Join(parts, " ") + ")"
	}
	// package math
	if f.Pkg() != nil && f.Pkg().Path() == "math" {
		if g, ok := mathFuncs[f.Name()]; ok {
			parts := []string{g}
			for i, a := range x.Args {
				parts = append(parts, c.exprAs(a, sig.Params().At(i).Type()))
			}
			return "(" + strings.Join(parts, " ") + ")"
		}
		c.fail(x.Pos(), "math.%s (not rational; declare it opaque to pass it as a parameter)", f.Name())
	}
	cu := c.callee(f, x.Pos())
	if cu == nil {
		where := ""
		if f.Pkg() != nil {
			where = f.Pkg().Path() + "."
		}
		c.fail(x.Pos(), "call of %s%s (no source in the module, or an interface method)", where, funcKey(f))
	}
	if len(cu.mutated) > 0 {
		c.fail(x.Pos(), "call of %s, which modifies a struct through a pointer, inside an expression", cu.key)
	}
	if cu.fueled {
		c.fail(x.Pos(), "call of %s, which contains a loop with fuel, inside an expression (assign its result to a variable first)", cu.key)
	}
	if recvExpr != nil {
		recv = c.expr(recvExpr)
	}
	return c.callTerm(cu, recv, x, f)
}

func (c *fctx) convert(arg ast.Expr, to types.Type, p token.Pos) string {
	tt := c.typeOf(to, p)
	if c.info.Types[arg].IsNil() && tt.k == kSlice {
		return c.zero(tt, p) // []T(nil)
	}
	if tv := c.info.Types[arg]; tv.Value != nil {
		// constant conversion: go/types has the converted constant on the call expression; here
		// only the representable cases
		switch tt.k {
		case kFloat, kSInt, kUInt:
			return c.constant(c.exactValue(arg, tv.Value), tt, p)
		}
	}
	ft := c.typeOf(c.info.TypeOf(arg), p)
	a := c.expr(arg)
	switch {
	case ft.k == tt.k && ft.bits == tt.bits && ft.k != kRec && ft.k != kSlice && ft.k != kFunc:
		return a
	case ft.k == kSInt && tt.k == kFloat:
		return fmt.Sprintf("(go_i2f %s)", a)
	case ft.k == kUInt && tt.k == kFloat:
		return fmt.Sprintf("(go_u2f %s)", a)
	case ft.k == kFloat && tt.k == kSInt:
		if tt.bits != 64 {
			c.fail(p, "conversion of a float to a %d-bit integer", tt.bits)
		}
		return fmt.Sprintf("(go_f2i %s)", a)
	case ft.k == kFloat && tt.k == kUInt:
		if tt.bits != 64 {
			c.fail(p, "conversion of a float to a %d-bit integer", tt.bits)
		}
		return fmt.Sprintf("(go_f2u %s)", a)
	case ft.k == kSInt && tt.k == kUInt:
		return fmt.Sprintf("(go_i2u %d %s)", tt.bits, a)
	case ft.k == kUInt && tt.k == kSInt:
		return fmt.Sprintf("(go_u2i %d %s)", tt.bits, a)
	case ft.k == kUInt && tt.k == kUInt:
		if tt.bits >= ft.bits {
			return a
		}
		return fmt.Sprintf("(go_u2u %d %s)", tt.bits, a)
	case ft.k == kSInt && tt.k == kSInt:
		if tt.bits >= ft.bits {
			return a
		}
		return fmt.Sprintf("(go_i2i %d %s)", tt.bits, a)
	}
	c.fail(p, "conversion from %s to %s", c.info.TypeOf(arg), to)
	return ""
}
